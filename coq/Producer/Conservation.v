(* Producer proofs, part 5: the two invariants of the composition, for every schedule.
     conservation:  total f s + (events) = (submitted)        for every data-only stable weight f
     counter:       inFlight = (messages and markers in all places) - (fresh messages not yet accepted)  *)
From Coq Require Import List ZArith Bool Arith Lia.
From SV Require Import Producer.Msg Producer.Actors Producer.Compose Producer.Weights Producer.Local Producer.Global Producer.Shape.
Import ListNotations.
Open Scope Z_scope.

(* the quantity the conservation invariant keeps at 0, and the one the counter invariant keeps at 0 *)
Definition cons_q (f : msg -> Z) (s : state) : Z := total f s + evs_w f (g_events s) - wsum f (g_submitted s).
Definition infl_q (s : state) : Z := g_inflight s - total f1 s + unacc s.

(* ---------------------------------------------------------------- a list of effects *)

Lemma apply_effs_spec c w l : forall s, g_panic (apply_effs c w s l) = None ->
  (forall f, total f (apply_effs c w s l) = total f s + esum (eff_place f) l /\
             evs_w f (g_events (apply_effs c w s l)) = evs_w f (g_events s) + esum (eff_event f) l) /\
  g_inflight (apply_effs c w s l) = g_inflight s + esum eff_infl l /\
  unacc (apply_effs c w s l) = unacc s + esum eff_fresh l /\
  same_ctl s (apply_effs c w s l).
Proof.
  induction l as [|e l IH]; intros s H.
  - cbn. repeat split; lia.
  - cbn [apply_effs fold_left] in *. fold (apply_effs c w (apply_eff c w s e) l) in *.
    assert (H1 : g_panic (apply_eff c w s e) = None).
    { destruct (g_panic (apply_eff c w s e)) eqn:E; [|reflexivity].
      exfalso. apply (apply_effs_sticky c w l (apply_eff c w s e)); [rewrite E; discriminate|exact H]. }
    destruct (IH _ H) as (A & B & C & D).
    split; [|split; [|split]].
    + intros f. destruct (A f) as [A1 A2]. destruct (apply_eff_spec f c w s e H1) as (E1 & E2 & _).
      rewrite !esum_cons. split; lia.
    + destruct (apply_eff_spec f1 c w s e H1) as (_ & _ & E3 & _). rewrite esum_cons. lia.
    + destruct (apply_eff_spec f1 c w s e H1) as (_ & _ & _ & E4 & _). rewrite esum_cons. lia.
    + destruct (apply_eff_spec f1 c w s e H1) as (_ & _ & _ & _ & E5). eapply same_ctl_trans; eassumption.
Qed.

Lemma no_crash_of_no_panic c w l s : g_panic (apply_effs c w s l) = None -> has_crash l = false.
Proof.
  intros H. destruct (has_crash l) eqn:E; [|reflexivity]. exfalso. apply (crash_panics c w l s E H).
Qed.

(* what a well-shaped, balanced list of effects does to the two quantities *)
Lemma effs_delta c w s l d net1 : g_panic (apply_effs c w s l) = None -> sh d l = true ->
  esum (eff_net f1) l = net1 ->
  (forall f, stable f -> data_only f ->
     cons_q f (apply_effs c w s l) = cons_q f s + esum (eff_net f) l) /\
  infl_q (apply_effs c w s l) = infl_q s - net1 + esum eff_ra l.
Proof.
  intros H Hs Hn. destruct (apply_effs_spec c w l s H) as (A & B & C & (_ & D & _)).
  split.
  - intros f Hf Hd. destruct (A f) as [A1 A2]. destruct (sh_sums f d l Hd Hs) as (S1 & S2 & _).
    unfold cons_q. rewrite D, A1, A2, esum_net_split, esum_pe_split, S1, S2. lia.
  - destruct (A f1) as [A1 _]. unfold infl_q. rewrite A1, B, C, esum_infl_split.
    rewrite esum_net_split, esum_pe_split in Hn.
    assert (Hfr : esum eff_fresh l = 0).
    { clear -Hs. induction l as [|e l IH]; [reflexivity|]. rewrite sh_cons in Hs. apply andb_true_iff in Hs as [H1 H2].
      rewrite esum_cons, (IH H2). destruct e; try reflexivity. destruct d0; try reflexivity; cbn in *; [discriminate|].
      apply negb_true_iff in H1. rewrite H1. reflexivity. }
    lia.
Qed.

(* ---------------------------------------------------------------- taking a message out of a queue *)

Lemma pop_spec d s m s1 : pop d s = Some (m, s1) ->
  (forall f, total f s1 = total f s - f m) /\ g_events s1 = g_events s /\ g_submitted s1 = g_submitted s /\
  g_inflight s1 = g_inflight s /\
  unacc s1 = unacc s - (match d with DDisp | DRetry => if fresh_un m then 1 else 0 | _ => 0 end) /\
  g_pps s1 = g_pps s /\ g_bps s1 = g_bps s /\ g_rbs s1 = g_rbs s /\ g_disp s1 = g_disp s /\ g_epoch s1 = g_epoch s /\
  g_seqs s1 = g_seqs s /\ g_panic s1 = g_panic s /\ same_ctl s s1.
Proof.
  unfold pop. destruct (q_get d (g_q s)) as [|m' r] eqn:E; [discriminate|]. intros H. injection H as <- <-.
  split; [|repeat split].
  - intros f. unfold total. cbn. rewrite q_w_set, E. unfold wsum. cbn. lia.
  - unfold unacc. cbn [set_q g_q]. rewrite !q_get_set.
    destruct d; cbn [dest_eqb]; rewrite ?E; unfold cntf; rewrite ?wsum_cons; lia.
Qed.

Lemma cons_q_pop f d s m s1 : pop d s = Some (m, s1) -> cons_q f s1 = cons_q f s - f m.
Proof. intros H. destruct (pop_spec d s m s1 H) as (A & B & C & _). unfold cons_q. rewrite A, B, C. lia. Qed.
Lemma infl_q_pop d s m s1 : pop d s = Some (m, s1) ->
  infl_q s1 = infl_q s + 1 - (match d with DDisp | DRetry => if fresh_un m then 1 else 0 | _ => 0 end).
Proof. intros H. destruct (pop_spec d s m s1 H) as (A & _ & _ & B & C & _). unfold infl_q. rewrite (A f1), B, C. unfold f1. lia. Qed.

(* ---------------------------------------------------------------- local state updates *)

Lemma cons_q_set_pps f s k x :
  cons_q f (set_pps s (pp_set k x (g_pps s))) =
  cons_q f s - match pp_get k (g_pps s) with Some y => pp_w f (pr_st y) | None => 0 end + pp_w f (pr_st x).
Proof. unfold cons_q, total. cbn [set_pps set_bps g_q g_pps g_bps g_rbs g_events g_submitted g_inflight]. rewrite pps_w_set. lia. Qed.
Lemma infl_q_set_pps s k x :
  infl_q (set_pps s (pp_set k x (g_pps s))) =
  infl_q s + match pp_get k (g_pps s) with Some y => pp_w f1 (pr_st y) | None => 0 end - pp_w f1 (pr_st x).
Proof. unfold infl_q, total, unacc. cbn [set_pps set_bps g_q g_pps g_bps g_rbs g_events g_submitted g_inflight]. rewrite pps_w_set. lia. Qed.

Lemma cons_q_set_bps f s b g x : nth_error (g_bps s) b = Some x ->
  cons_q f (set_bps s (bp_upd b g (g_bps s))) = cons_q f s - bpi_w f x + bpi_w f (g x).
Proof. intros H. unfold cons_q, total. cbn [set_pps set_bps g_q g_pps g_bps g_rbs g_events g_submitted g_inflight]. rewrite (bps_w_upd f _ _ _ _ H). lia. Qed.
Lemma infl_q_set_bps s b g x : nth_error (g_bps s) b = Some x ->
  infl_q (set_bps s (bp_upd b g (g_bps s))) = infl_q s + bpi_w f1 x - bpi_w f1 (g x).
Proof. intros H. unfold infl_q, total, unacc. cbn [set_pps set_bps g_q g_pps g_bps g_rbs g_events g_submitted g_inflight]. rewrite (bps_w_upd f1 _ _ _ _ H). lia. Qed.

Lemma sh_false_ra l : sh false l = true -> esum eff_ra l = 0.
Proof.
  induction l as [|e l IH]; [reflexivity|]. rewrite sh_cons. intros H. apply andb_true_iff in H as [H1 H2].
  rewrite esum_cons, (IH H2). destruct e; try reflexivity; cbn in H1; discriminate.
Qed.

(* ---------------------------------------------------------------- one broker-worker step *)

Lemma run_bp_delta c s b x i : nth_error (g_bps s) b = Some x -> g_panic (run_bp c s b x i) = None ->
  (forall f, stable f -> data_only f -> cons_q f (run_bp c s b x i) = cons_q f s + in_w f i) /\
  infl_q (run_bp c s b x i) = infl_q s - in_w f1 i.
Proof.
  intros Hx. unfold run_bp.
  pose proof (bp_balance f1 c (g_epoch s) (i_st x) i f1_stable) as Bal1.
  pose proof (bp_shape c (g_epoch s) (i_st x) i) as Shp.
  assert (BalF : forall f, stable f -> has_crash (snd (bp_step c (g_epoch s) (i_st x) i)) = false ->
     bp_w f (fst (bp_step c (g_epoch s) (i_st x) i)) + esum (eff_net f) (snd (bp_step c (g_epoch s) (i_st x) i)) = bp_w f (i_st x) + in_w f i)
    by (intros; apply bp_balance; assumption).
  destruct (bp_step c (g_epoch s) (i_st x) i) as [st' effs]. cbn [fst snd] in *.
  intros Hp. pose proof (no_crash_of_no_panic _ _ _ _ Hp) as Hc. specialize (Bal1 Hc). specialize (Shp Hc).
  destruct (effs_delta c (WBp b) _ effs false _ Hp Shp eq_refl) as [D1 D2].
  split.
  - intros f Hf Hd. rewrite (D1 f Hf Hd), (cons_q_set_bps f s b _ x Hx). specialize (BalF f Hf Hc).
    unfold bpi_w in *. cbn. lia.
  - rewrite D2, (infl_q_set_bps s b _ x Hx). unfold bpi_w. cbn.
    pose proof (sh_false_ra effs Shp) as Hra0. lia.
Qed.

(* ---------------------------------------------------------------- one partition-worker step *)

Lemma run_pp_delta c s k x m ls : pp_get k (g_pps s) = Some x -> g_panic (run_pp c s k x m ls) = None ->
  (forall f, stable f -> data_only f -> cons_q f (run_pp c s k x m ls) = cons_q f s + f m) /\
  infl_q (run_pp c s k x m ls) = infl_q s - 1.
Proof.
  intros Hx. unfold run_pp.
  set (ab := match pr_h x with Some b => _ | None => false end).
  set (stamp := (seq_get k (g_seqs s), g_epoch s)).
  pose proof (pp_balance f1 c (fst k) (snd k) (pr_st x) m ab stamp ls f1_stable) as Bal1.
  pose proof (pp_shape c (fst k) (snd k) (pr_st x) m ab stamp ls) as Shp.
  assert (BalF : forall f, stable f -> has_crash (snd (pp_step c (fst k) (snd k) (pr_st x) m ab stamp ls)) = false ->
     pp_w f (fst (pp_step c (fst k) (snd k) (pr_st x) m ab stamp ls)) + esum (eff_net f) (snd (pp_step c (fst k) (snd k) (pr_st x) m ab stamp ls))
     = pp_w f (pr_st x) + f m) by (intros; apply pp_balance; assumption).
  destruct (pp_step c (fst k) (snd k) (pr_st x) m ab stamp ls) as [st' effs]. cbn [fst snd] in *.
  intros Hp. pose proof (no_crash_of_no_panic _ _ _ _ Hp) as Hc. specialize (Bal1 Hc).
  destruct (effs_delta c (WPp k) _ effs false _ Hp Shp eq_refl) as [D1 D2].
  split.
  - intros f Hf Hd. rewrite (D1 f Hf Hd), cons_q_set_pps, Hx. specialize (BalF f Hf Hc). cbn [pr_st]. lia.
  - rewrite D2, infl_q_set_pps, Hx, (sh_false_ra effs Shp). cbn [pr_st]. change (f1 m) with 1 in Bal1. lia.
Qed.

(* ---------------------------------------------------------------- every choice *)

Lemma fresh_un_fresh_of m : fresh_un (fresh_of m) = true. Proof. reflexivity. Qed.
Lemma fresh_un_shutdown c : fresh_un (shutdown_marker c) = false. Proof. reflexivity. Qed.
Lemma is_data_shutdown c : is_data (shutdown_marker c) = false. Proof. reflexivity. Qed.

Lemma unacc_q s s' : g_q s = g_q s' -> unacc s = unacc s'.
Proof. unfold unacc. intros ->. reflexivity. Qed.

Ltac cbn_state := cbn [set_q set_disp set_pps set_bps set_rbs add_inflight set_txn add_event add_submitted add_ilog set_flags set_panic
  g_q g_disp g_pps g_bps g_rbs g_inflight g_epoch g_seqs g_events g_submitted g_ilog g_close_req g_woken g_closed g_panic].

Lemma raw_step_delta c s ch : c_fix_rb c = true -> g_panic (raw_step c s ch) = None ->
  (forall f, stable f -> data_only f -> cons_q f (raw_step c s ch) = cons_q f s) /\
  infl_q (raw_step c s ch) = infl_q s.
Proof.
  intros Hfix. destruct ch; cbn [raw_step].
  - (* CSubmit *)
    destruct (g_close_req s); [intros _; split; [intros; reflexivity|reflexivity]|]. intros _.
    split.
    + intros f Hf Hd. unfold cons_q, total. cbn_state. rewrite q_w_push, wsum_app. cbn. lia.
    + unfold infl_q, total. cbn [add_submitted g_inflight g_q g_pps g_bps g_rbs set_q].
      match goal with |- context [unacc ?t] => replace (unacc t) with (unacc (set_q s (q_push DDisp (fresh_of m) (g_q s)))) by reflexivity end.
      rewrite unacc_push, q_w_push. cbn [eff_fresh]. rewrite fresh_un_fresh_of. unfold f1. lia.
  - (* CAsyncClose *)
    destruct (g_close_req s); [intros _; split; [intros; reflexivity|reflexivity]|]. intros _.
    split.
    + intros f Hf Hd. unfold cons_q, total. cbn_state. rewrite q_w_push, (Hd _ (is_data_shutdown c)). lia.
    + unfold infl_q, total. cbn [add_inflight set_flags g_inflight g_q g_pps g_bps g_rbs set_q].
      match goal with |- context [unacc ?t] => replace (unacc t) with (unacc (set_q s (q_push DDisp (shutdown_marker c) (g_q s)))) by reflexivity end.
      rewrite unacc_push, q_w_push. cbn [eff_fresh]. rewrite fresh_un_shutdown. unfold f1. lia.
  - (* CDisp *)
    destruct (pop DDisp s) as [[m s1]|] eqn:Ep; [|intros _; split; [intros; reflexivity|reflexivity]].
    pose proof (disp_shape c (g_disp s1) m) as [Shp Hra].
    assert (Bal : forall f, stable f -> esum (eff_net f) (snd (disp_step c (g_disp s1) m)) = f m) by (intros; apply disp_balance; assumption).
    destruct (disp_step c (g_disp s1) m) as [d' effs]. cbn [snd] in *. intros Hp.
    destruct (effs_delta c WOther _ effs true _ Hp Shp eq_refl) as [D1 D2].
    split.
    + intros f Hf Hd. rewrite (D1 f Hf Hd), (Bal f Hf).
      change (cons_q f (set_disp s1 d')) with (cons_q f s1). rewrite (cons_q_pop f _ _ _ _ Ep). lia.
    + rewrite D2, (Bal f1 f1_stable), Hra.
      change (infl_q (set_disp s1 d')) with (infl_q s1). rewrite (infl_q_pop _ _ _ _ Ep). unfold f1. lia.
  - (* CTp *)
    destruct (pop (DTopic t) s) as [[m s1]|] eqn:Ep; [|intros _; split; [intros; reflexivity|reflexivity]].
    intros Hp. destruct (effs_delta c WOther _ (tp_step m) false _ Hp (tp_shape m) eq_refl) as [D1 D2].
    split.
    + intros f Hf Hd. rewrite (D1 f Hf Hd), (tp_balance f m Hf), (cons_q_pop f _ _ _ _ Ep). lia.
    + rewrite D2, (tp_balance f1 m f1_stable), (sh_false_ra _ (tp_shape m)), (infl_q_pop _ _ _ _ Ep). unfold f1. lia.
  - (* CPp *)
    destruct (pop (DPart t p) s) as [[m s1]|] eqn:Ep; [|intros _; split; [intros; reflexivity|reflexivity]].
    destruct (pp_get (t, p) (g_pps s1)) as [x|] eqn:Ex.
    + intros Hp. destruct (run_pp_delta c s1 (t, p) x m ls Ex Hp) as [D1 D2]. split.
      * intros f Hf Hd. rewrite (D1 f Hf Hd), (cons_q_pop f _ _ _ _ Ep). lia.
      * rewrite D2, (infl_q_pop _ _ _ _ Ep). lia.
    + destruct (next_lres ls) as [l0 ls'].
      destruct (pp_init_balance f1 c t p l0) as (I1 & I2 & I3).
      assert (IF : forall f, esum (eff_net f) (snd (pp_init c t p l0)) = 0 /\ pp_w f (fst (pp_init c t p l0)) = 0)
        by (intros f; destruct (pp_init_balance f c t p l0) as (A & B & _); auto).
      pose proof (pp_init_shape c t p l0) as Shp0.
      destruct (pp_init c t p l0) as [st0 effs0]. cbn [fst snd] in *.
      set (s2 := set_pps s1 (pp_set (t, p) (mkPpr st0 None) (g_pps s1))).
      set (s3 := apply_effs c (WPp (t, p)) s2 effs0).
      assert (H23 : g_panic s3 = None -> (forall f, stable f -> data_only f -> cons_q f s3 = cons_q f s1) /\ infl_q s3 = infl_q s1).
      { intros Hp3. destruct (effs_delta c (WPp (t, p)) s2 effs0 false _ Hp3 Shp0 eq_refl) as [D1 D2]. fold s3 in D1, D2. split.
        - intros f Hf Hd. rewrite (D1 f Hf Hd). destruct (IF f) as [A B]. rewrite A. subst s2. rewrite cons_q_set_pps, Ex. cbn [pr_st]. lia.
        - rewrite D2, I1, (sh_false_ra _ Shp0). subst s2. rewrite infl_q_set_pps, Ex. cbn [pr_st]. lia. }
      destruct (pp_get (t, p) (g_pps s3)) as [x|] eqn:Ex3.
      * intros Hp. assert (Hp3 : g_panic s3 = None).
        { destruct (g_panic s3) eqn:E3; [|reflexivity]. exfalso.
          unfold run_pp in Hp. destruct (pp_step _ _ _ _ _ _ _ _) as [st' effs].
          apply (apply_effs_sticky c (WPp (t, p)) effs (set_pps s3 (pp_set (t, p) (mkPpr st' (pr_h x)) (g_pps s3)))); [cbn; rewrite E3; discriminate|exact Hp]. }
        destruct (H23 Hp3) as [A3 B3]. destruct (run_pp_delta c s3 (t, p) x m ls' Ex3 Hp) as [D1 D2]. split.
        -- intros f Hf Hd. rewrite (D1 f Hf Hd), (A3 f Hf Hd), (cons_q_pop f _ _ _ _ Ep). lia.
        -- rewrite D2, B3, (infl_q_pop _ _ _ _ Ep). lia.
      * (* unreachable: the record was just created; the message would be lost, so demand nothing false *)
        intros Hp. exfalso. clear -Ex3 s3. subst s3 s2.
        assert (G : forall l s0, pp_get (t, p) (g_pps s0) <> None -> pp_get (t, p) (g_pps (apply_effs c (WPp (t, p)) s0 l)) <> None).
        { induction l as [|e l IH]; intros s0 H0; [exact H0|]. cbn [apply_effs fold_left]. apply IH.
          assert (SH : forall s9 h, pp_get (t, p) (g_pps s9) <> None -> pp_get (t, p) (g_pps (set_handle s9 (WPp (t, p)) h)) <> None).
          { intros s9 h H9. unfold set_handle. destruct (pp_get (t, p) (g_pps s9)) eqn:E9; [|exact H9]. cbn.
            clear -E9. induction (g_pps s9) as [|[k' y] r IHr]; [discriminate|]. cbn in *.
            destruct (tpk_eqb (t, p) k') eqn:Ek; cbn; rewrite Ek; [discriminate|apply IHr, E9]. }
          destruct e; cbn [apply_eff]; try exact H0.
          - destruct d; try exact H0. destruct (handle_of s0 _); [|exact H0]. destruct (nth_error _ _); [|exact H0]. destruct (i_in_closed _); exact H0.
          - unfold emit. destruct (g_closed s0); destruct (m_hasseq m0); exact H0.
          - unfold emit. destruct (g_closed s0); exact H0.
          - unfold emit. destruct (g_closed s0); exact H0.
          - destruct (handle_of s0 _); [|exact H0]. apply SH. exact H0.
          - unfold get_bp. destruct (find_reg broker (g_bps s0) 0%nat); apply SH; exact H0.
          - destruct (find_reg broker (g_bps s0) 0%nat); exact H0.
          - destruct (nth_error (g_bps s0) _); exact H0.
          - unfold get_bp. destruct (find_reg broker (g_bps s0) 0%nat); exact H0. }
        apply (G effs0 (set_pps s1 (pp_set (t, p) (mkPpr st0 None) (g_pps s1)))); [|exact Ex3].
        cbn. clear. induction (g_pps s1) as [|[k' y] r IHr]; cbn; [rewrite !Z.eqb_refl; discriminate|].
        destruct (tpk_eqb (t, p) k') eqn:Ek; cbn; rewrite Ek; [discriminate|exact IHr].
  - (* CBpRecv *)
    destruct (nth_error (g_bps s) b) as [x|] eqn:Ex; [|intros _; split; [intros; reflexivity|reflexivity]].
    destruct (flush_poll (i_st x)); [|intros _; split; [intros; reflexivity|reflexivity]].
    destruct (pop (DBp b) s) as [[m s1]|] eqn:Ep.
    + assert (Ex1 : nth_error (g_bps s1) b = Some x).
      { destruct (pop_spec _ _ _ _ Ep) as (_ & _ & _ & _ & _ & _ & Hb & _). rewrite Hb. exact Ex. }
      intros Hp. destruct (run_bp_delta c s1 b x (BRecv m) Ex1 Hp) as [D1 D2]. cbn [in_w] in *. split.
      * intros f Hf Hd. rewrite (D1 f Hf Hd), (cons_q_pop f _ _ _ _ Ep). lia.
      * rewrite D2, (infl_q_pop _ _ _ _ Ep). unfold f1. lia.
    + destruct (i_in_closed x); [|intros _; split; [intros; reflexivity|reflexivity]].
      intros Hp. destruct (run_bp_delta c s b x BClosed Ex Hp) as [D1 D2]. cbn [in_w] in *. split.
      * intros f Hf Hd. rewrite (D1 f Hf Hd). lia.
      * rewrite D2. lia.
  - (* CBpTimer *)
    destruct (nth_error (g_bps s) b) as [x|] eqn:Ex; [|intros _; split; [intros; reflexivity|reflexivity]].
    intros Hp. destruct (run_bp_delta c s b x BTimer Ex Hp) as [D1 D2]. cbn [in_w] in *. split.
    + intros f Hf Hd. rewrite (D1 f Hf Hd). lia.
    + rewrite D2. lia.
  - (* CBpFlush *)
    destruct (nth_error (g_bps s) b) as [x|] eqn:Ex; [|intros _; split; [intros; reflexivity|reflexivity]].
    intros Hp. destruct (run_bp_delta c s b x BFlush Ex Hp) as [D1 D2]. cbn [in_w] in *. split.
    + intros f Hf Hd. rewrite (D1 f Hf Hd). lia.
    + rewrite D2. lia.
  - (* CBridge *)
    destruct (nth_error (g_bps s) b) as [x|] eqn:Ex; [|intros _; split; [intros; reflexivity|reflexivity]].
    destruct (i_infl x) eqn:Ei; [intros _; split; [intros; reflexivity|reflexivity]|].
    destruct (i_bridge x) as [|st r] eqn:Eb; [intros _; split; [intros; reflexivity|reflexivity]|].
    intros _. split.
    + intros f Hf Hd. rewrite (cons_q_set_bps f s b _ x Ex). unfold bpi_w. cbn. rewrite Ei, Eb. cbn. lia.
    + rewrite (infl_q_set_bps s b _ x Ex). unfold bpi_w. cbn. rewrite Ei, Eb. cbn. lia.
  - (* CAnswer *)
    destruct (nth_error (g_bps s) b) as [x|] eqn:Ex; [|intros _; split; [intros; reflexivity|reflexivity]].
    destruct (i_infl x) as [st|] eqn:Ei; [|intros _; split; [intros; reflexivity|reflexivity]].
    intros _. split.
    + intros f Hf Hd. rewrite (cons_q_set_bps f s b _ x Ex). unfold bpi_w. cbn. rewrite Ei, resps_w_app. cbn. lia.
    + rewrite (infl_q_set_bps s b _ x Ex). unfold bpi_w. cbn. rewrite Ei, resps_w_app. cbn. lia.
  - (* CBpResp *)
    destruct (nth_error (g_bps s) b) as [x|] eqn:Ex; [|intros _; split; [intros; reflexivity|reflexivity]].
    destruct (i_resp x) as [|[st r] rest] eqn:Er; [intros _; split; [intros; reflexivity|reflexivity]|].
    set (s1 := set_bps s (bp_upd b (fun y => bi_with_bridge y (i_bridge y) (i_infl y) rest) (g_bps s))).
    assert (Ex1 : nth_error (g_bps s1) b = Some (bi_with_bridge x (i_bridge x) (i_infl x) rest))
      by (subst s1; cbn; apply nth_error_bp_upd_same, Ex).
    rewrite Ex1. intros Hp.
    destruct (run_bp_delta c s1 b _ (BResp st r) Ex1 Hp) as [D1 D2]. cbn [in_w] in *. split.
    + intros f Hf Hd. rewrite (D1 f Hf Hd). subst s1. rewrite (cons_q_set_bps f s b _ x Ex). unfold bpi_w. cbn. rewrite Er. cbn. lia.
    + rewrite D2. subst s1. rewrite (infl_q_set_bps s b _ x Ex). unfold bpi_w. cbn. rewrite Er. cbn. lia.
  - (* CRb *)
    destruct (nth_error (g_rbs s) i) as [tk|] eqn:Ei; [|intros _; split; [intros; reflexivity|reflexivity]].
    intros Hp.
    pose proof (rb_shape c (g_epoch s) (rb_k tk) (rb_ms tk) (rb_e tk) l) as Shp.
    destruct (effs_delta c WOther _ _ false _ Hp Shp eq_refl) as [D1 D2].
    split.
    + intros f Hf Hd. rewrite (D1 f Hf Hd). destruct (rb_balance f c (g_epoch s) (rb_k tk) (rb_ms tk) (rb_e tk) l Hf Hfix) as [A _].
      rewrite A. unfold cons_q, total. cbn_state. rewrite (rbs_w_remove f _ _ _ Ei). lia.
    + rewrite D2. destruct (rb_balance f1 c (g_epoch s) (rb_k tk) (rb_ms tk) (rb_e tk) l f1_stable Hfix) as [A _].
      rewrite A, (sh_false_ra _ Shp). unfold infl_q, total, unacc. cbn_state. rewrite (rbs_w_remove f1 _ _ _ Ei). lia.
  - (* CRetry *)
    destruct (pop DRetry s) as [[m s1]|] eqn:Ep; [|intros _; split; [intros; reflexivity|reflexivity]].
    intros _. split.
    + intros f Hf Hd. unfold cons_q, total. cbn_state. rewrite q_w_push.
      pose proof (cons_q_pop f _ _ _ _ Ep) as H. unfold cons_q, total in H. lia.
    + unfold infl_q, total. cbn [set_q g_inflight g_q g_pps g_bps g_rbs]. rewrite unacc_push, q_w_push.
      pose proof (infl_q_pop _ _ _ _ Ep) as H. unfold infl_q, total in H. cbn [eff_fresh]. unfold f1 in *. lia.
  - (* CShutWake *)
    intros _. destruct (g_close_req s && negb (g_woken s) && (g_inflight s =? 0)); split; intros; reflexivity.
  - (* CShutClose *)
    intros _. destruct (g_woken s && negb (g_closed s)); split; intros; reflexivity.
Qed.
