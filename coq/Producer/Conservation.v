(* Producer proofs, part 5: the two invariants of the composition, for every schedule.
     conservation:  total f s + (events) = (submitted)        for every data-only stable weight f
     counter:       inFlight = (messages and markers in all places) - (fresh messages not yet accepted)  *)
From Coq Require Import List ZArith Bool Arith Lia.
From SV Require Import Producer.Msg Producer.Actors Producer.Compose Producer.Weights Producer.Local Producer.Global Producer.Shape.
Import ListNotations.
Open Scope Z_scope.

(* the quantity the conservation invariant keeps at 0, and the one the counter invariant keeps at 0 *)
Definition cons_q (f : msg -> Z) (s : state) : Z := total f s + evs_w f (g_events s) - wsum f (g_submitted s).
Definition infl_q (s : state) : Z := g_inflight s - total f1 s + unacc s.

(* ---------------------------------------------------------------- a list of effects *)

Lemma apply_effs_spec c w l : forall s, g_panic (apply_effs c w s l) = None ->
  (forall f, total f (apply_effs c w s l) = total f s + esum (eff_place f) l /\
             evs_w f (g_events (apply_effs c w s l)) = evs_w f (g_events s) + esum (eff_event f) l) /\
  g_inflight (apply_effs c w s l) = g_inflight s + esum eff_infl l /\
  unacc (apply_effs c w s l) = unacc s + esum eff_fresh l /\
  same_ctl s (apply_effs c w s l).
Proof.
  induction l as [|e l IH]; intros s H.
  - cbn. repeat split; lia.
  - cbn [apply_effs fold_left] in *. fold (apply_effs c w (apply_eff c w s e) l) in *.
    assert (H1 : g_panic (apply_eff c w s e) = None).
    { destruct (g_panic (apply_eff c w s e)) eqn:E; [|reflexivity].
      exfalso. apply (apply_effs_sticky c w l (apply_eff c w s e)); [rewrite E; discriminate|exact H]. }
    destruct (IH _ H) as (A & B & C & D).
    split; [|split; [|split]].
    + intros f. destruct (A f) as [A1 A2]. destruct (apply_eff_spec f c w s e H1) as (E1 & E2 & _).
      rewrite !esum_cons. split; lia.
    + destruct (apply_eff_spec f1 c w s e H1) as (_ & _ & E3 & _). rewrite esum_cons. lia.
    + destruct (apply_eff_spec f1 c w s e H1) as (_ & _ & _ & E4 & _). rewrite esum_cons. lia.
    + destruct (apply_eff_spec f1 c w s e H1) as (_ & _ & _ & _ & E5). eapply same_ctl_trans; eassumption.
Qed.

Lemma no_crash_of_no_panic c w l s : g_panic (apply_effs c w s l) = None -> has_crash l = false.
Proof.
  intros H. destruct (has_crash l) eqn:E; [|reflexivity]. exfalso. apply (crash_panics c w l s E H).
Qed.

(* A weight the conservation argument applies to: stable, zero on the markers partition workers create,
   non-negative.  (Data-only weights are of this kind; so is "carries the shutdown bit".)  What such a
   weight loses in a step is what the consumed markers weighed: nothing for a data-only weight. *)
Definition okw (f : msg -> Z) : Prop := stable f /\ nonneg f.
(* what the markers created in a step weigh: nothing for a weight that vanishes on syn/fin markers *)
Definition new_ok (f : msg -> Z) (n : Z) : Prop := 0 <= n /\ (marker_free f -> n = 0).
Lemma new_ok_0 f : new_ok f 0. Proof. split; [lia|reflexivity]. Qed.
Lemma new_ok_add f a b : new_ok f a -> new_ok f b -> new_ok f (a + b).
Proof. intros [A1 A2] [B1 B2]. split; [lia|]. intros H. rewrite (A2 H), (B2 H). reflexivity. Qed.
Definition sunk_ok (f : msg -> Z) (k : Z) : Prop := 0 <= k /\ (data_only f -> k = 0).
Lemma sunk_ok_0 f : sunk_ok f 0. Proof. split; [lia|reflexivity]. Qed.
Lemma sunk_ok_add f a b : sunk_ok f a -> sunk_ok f b -> sunk_ok f (a + b).
Proof. intros [A1 A2] [B1 B2]. split; [lia|]. intros H. rewrite (A2 H), (B2 H). reflexivity. Qed.
Lemma sunk_ok_effs f d l : nonneg f -> sh d l = true -> sunk_ok f (esum (eff_sink f) l).
Proof. intros Hn Hs. split; [apply sh_sink_nonneg, Hn|]. intros Hd. eapply sh_sink_data; eassumption. Qed.
Lemma new_nonneg f l : nonneg f -> 0 <= esum (eff_new f) l.
Proof. intros Hn. induction l as [|e l IH]; [cbn; lia|]. rewrite esum_cons. destruct e; cbn [eff_new]; try lia. specialize (Hn m). lia. Qed.
Lemma new_ok_effs f d l : nonneg f -> sh d l = true -> new_ok f (esum (eff_new f) l).
Proof. intros Hn Hs. split; [apply new_nonneg, Hn|]. intros Hm. eapply sh_new; eassumption. Qed.

(* what a well-shaped list of effects does to the two quantities *)
Lemma effs_delta c w s l d net1 : g_panic (apply_effs c w s l) = None -> sh d l = true ->
  esum (eff_net f1) l = net1 ->
  (forall f,
     cons_q f (apply_effs c w s l) = cons_q f s + esum (eff_net f) l - esum (eff_sink f) l + esum (eff_new f) l) /\
  infl_q (apply_effs c w s l) = infl_q s - net1 + esum eff_ra l.
Proof.
  intros H Hs Hn. destruct (apply_effs_spec c w l s H) as (A & B & C & (_ & D & _)).
  split.
  - intros f. destruct (A f) as [A1 A2].
    unfold cons_q. rewrite D, A1, A2, esum_net_split, esum_pe_split. lia.
  - destruct (A f1) as [A1 _]. unfold infl_q. rewrite A1, B, C, esum_infl_split.
    rewrite esum_net_split, esum_pe_split in Hn. pose proof (sh_fresh d l Hs) as Hfr. lia.
Qed.

(* ---------------------------------------------------------------- taking a message out of a queue *)

Lemma pop_spec d s m s1 : pop d s = Some (m, s1) ->
  (forall f, total f s1 = total f s - f m) /\ g_events s1 = g_events s /\ g_submitted s1 = g_submitted s /\
  g_inflight s1 = g_inflight s /\
  unacc s1 = unacc s - (match d with DDisp | DRetry => if fresh_un m then 1 else 0 | _ => 0 end) /\
  g_pps s1 = g_pps s /\ g_bps s1 = g_bps s /\ g_rbs s1 = g_rbs s /\ g_disp s1 = g_disp s /\ g_epoch s1 = g_epoch s /\
  g_seqs s1 = g_seqs s /\ g_panic s1 = g_panic s /\ same_ctl s s1.
Proof.
  unfold pop. destruct (q_get d (g_q s)) as [|m' r] eqn:E; [discriminate|]. intros H. injection H as <- <-.
  split; [|repeat split].
  - intros f. unfold total. cbn. rewrite q_w_set, E. unfold wsum. cbn. lia.
  - unfold unacc. cbn [set_q g_q]. rewrite !q_get_set.
    destruct d; cbn [dest_eqb]; rewrite ?E; unfold cntf; rewrite ?wsum_cons; lia.
Qed.

Lemma cons_q_pop f d s m s1 : pop d s = Some (m, s1) -> cons_q f s1 = cons_q f s - f m.
Proof. intros H. destruct (pop_spec d s m s1 H) as (A & B & C & _). unfold cons_q. rewrite A, B, C. lia. Qed.
Lemma infl_q_pop d s m s1 : pop d s = Some (m, s1) ->
  infl_q s1 = infl_q s + 1 - (match d with DDisp | DRetry => if fresh_un m then 1 else 0 | _ => 0 end).
Proof. intros H. destruct (pop_spec d s m s1 H) as (A & _ & _ & B & C & _). unfold infl_q. rewrite (A f1), B, C. unfold f1. lia. Qed.

(* ---------------------------------------------------------------- local state updates *)

Lemma cons_q_set_pps f s k x :
  cons_q f (set_pps s (pp_set k x (g_pps s))) =
  cons_q f s - match pp_get k (g_pps s) with Some y => pp_w f (pr_st y) | None => 0 end + pp_w f (pr_st x).
Proof. unfold cons_q, total. cbn [set_pps set_bps g_q g_pps g_bps g_rbs g_events g_submitted g_inflight]. rewrite pps_w_set. lia. Qed.
Lemma infl_q_set_pps s k x :
  infl_q (set_pps s (pp_set k x (g_pps s))) =
  infl_q s + match pp_get k (g_pps s) with Some y => pp_w f1 (pr_st y) | None => 0 end - pp_w f1 (pr_st x).
Proof. unfold infl_q, total, unacc. cbn [set_pps set_bps g_q g_pps g_bps g_rbs g_events g_submitted g_inflight]. rewrite pps_w_set. lia. Qed.

Lemma cons_q_set_bps f s b g x : nth_error (g_bps s) b = Some x ->
  cons_q f (set_bps s (bp_upd b g (g_bps s))) = cons_q f s - bpi_w f x + bpi_w f (g x).
Proof. intros H. unfold cons_q, total. cbn [set_pps set_bps g_q g_pps g_bps g_rbs g_events g_submitted g_inflight]. rewrite (bps_w_upd f _ _ _ _ H). lia. Qed.
Lemma infl_q_set_bps s b g x : nth_error (g_bps s) b = Some x ->
  infl_q (set_bps s (bp_upd b g (g_bps s))) = infl_q s + bpi_w f1 x - bpi_w f1 (g x).
Proof. intros H. unfold infl_q, total, unacc. cbn [set_pps set_bps g_q g_pps g_bps g_rbs g_events g_submitted g_inflight]. rewrite (bps_w_upd f1 _ _ _ _ H). lia. Qed.

(* ---------------------------------------------------------------- one broker-worker step *)

Lemma run_bp_delta c s b x i : nth_error (g_bps s) b = Some x -> g_panic (run_bp c s b x i) = None ->
  (forall f, okw f -> exists k, sunk_ok f k /\ cons_q f (run_bp c s b x i) = cons_q f s + in_w f i - k) /\
  infl_q (run_bp c s b x i) = infl_q s - in_w f1 i.
Proof.
  intros Hx. unfold run_bp.
  pose proof (bp_balance f1 c (g_epoch s) (i_st x) i f1_stable) as Bal1.
  pose proof (bp_shape c (g_epoch s) (i_st x) i) as Shp.
  pose proof (nn_bp c (g_epoch s) (i_st x) i) as NN.
  assert (BalF : forall f, stable f -> has_crash (snd (bp_step c (g_epoch s) (i_st x) i)) = false ->
     bp_w f (fst (bp_step c (g_epoch s) (i_st x) i)) + esum (eff_net f) (snd (bp_step c (g_epoch s) (i_st x) i)) = bp_w f (i_st x) + in_w f i)
    by (intros; apply bp_balance; assumption).
  destruct (bp_step c (g_epoch s) (i_st x) i) as [st' effs]. cbn [fst snd] in *.
  intros Hp. pose proof (no_crash_of_no_panic _ _ _ _ Hp) as Hc. specialize (Bal1 Hc). specialize (Shp Hc).
  destruct (effs_delta c (WBp b) _ effs false _ Hp Shp eq_refl) as [D1 D2].
  split.
  - intros f Hw. exists (esum (eff_sink f) effs). split; [apply (sunk_ok_effs f false); [apply Hw|exact Shp]|].
    rewrite (D1 f), (cons_q_set_bps f s b _ x Hx), (no_new_sum f effs NN). destruct Hw as (Hf & _). specialize (BalF f Hf Hc).
    unfold bpi_w in *. cbn. lia.
  - rewrite D2, (infl_q_set_bps s b _ x Hx). unfold bpi_w. cbn.
    pose proof (sh_false_ra effs Shp) as Hra0. lia.
Qed.

(* ---------------------------------------------------------------- one partition-worker step *)

Lemma run_pp_delta c s k x m ls :
  (forall f, match pp_get k (g_pps s) with Some y => pp_w f (pr_st y) | None => 0 end = pp_w f (pr_st x)) ->
  g_panic (run_pp c s k x m ls) = None ->
  (forall f, okw f -> exists k0 n, sunk_ok f k0 /\ new_ok f n /\ cons_q f (run_pp c s k x m ls) = cons_q f s + f m - k0 + n) /\
  infl_q (run_pp c s k x m ls) = infl_q s - 1.
Proof.
  intros Hx. unfold run_pp.
  set (ab := match pr_h x with Some b => _ | None => false end).
  set (stamp := (seq_get k (g_seqs s), g_epoch s)).
  pose proof (pp_balance f1 c (fst k) (snd k) (pr_st x) m ab stamp ls f1_stable) as Bal1.
  pose proof (pp_shape c (fst k) (snd k) (pr_st x) m ab stamp ls) as Shp.
  assert (BalF : forall f, stable f -> has_crash (snd (pp_step c (fst k) (snd k) (pr_st x) m ab stamp ls)) = false ->
     pp_w f (fst (pp_step c (fst k) (snd k) (pr_st x) m ab stamp ls)) + esum (eff_net f) (snd (pp_step c (fst k) (snd k) (pr_st x) m ab stamp ls))
     = pp_w f (pr_st x) + f m) by (intros; apply pp_balance; assumption).
  destruct (pp_step c (fst k) (snd k) (pr_st x) m ab stamp ls) as [st' effs]. cbn [fst snd] in *.
  intros Hp. pose proof (no_crash_of_no_panic _ _ _ _ Hp) as Hc. specialize (Bal1 Hc).
  destruct (effs_delta c (WPp k) _ effs false _ Hp Shp eq_refl) as [D1 D2].
  split.
  - intros f Hw. exists (esum (eff_sink f) effs), (esum (eff_new f) effs).
    split; [apply (sunk_ok_effs f false); [apply Hw|exact Shp]|]. split; [apply (new_ok_effs f false); [apply Hw|exact Shp]|].
    rewrite (D1 f), cons_q_set_pps, (Hx f). destruct Hw as (Hf & _). specialize (BalF f Hf Hc). cbn [pr_st]. lia.
  - rewrite D2, infl_q_set_pps, (Hx f1), (sh_false_ra effs Shp). cbn [pr_st]. change (f1 m) with 1 in Bal1. lia.
Qed.

(* ---------------------------------------------------------------- every choice *)

Lemma fresh_un_fresh_of m : fresh_un (fresh_of m) = true. Proof. reflexivity. Qed.
Lemma fresh_un_shutdown c : fresh_un (shutdown_marker c) = false. Proof. reflexivity. Qed.
Lemma is_data_shutdown c : is_data (shutdown_marker c) = false. Proof. reflexivity. Qed.

Lemma unacc_q s s' : g_q s = g_q s' -> unacc s = unacc s'.
Proof. unfold unacc. intros ->. reflexivity. Qed.

Ltac cbn_state := cbn [set_q set_disp set_pps set_bps set_rbs add_inflight set_txn add_event add_submitted add_ilog set_flags set_panic
  g_q g_disp g_pps g_bps g_rbs g_inflight g_epoch g_seqs g_events g_submitted g_ilog g_close_req g_woken g_closed g_panic].

Definition close_term (f : msg -> Z) (c : cfg) (s : state) (ch : choice) : Z :=
  match ch with CAsyncClose => if g_close_req s then 0 else f (shutdown_marker c) | _ => 0 end.

Definition is_pp_choice (ch : choice) : bool := match ch with CPp _ _ _ => true | _ => false end.

Ltac ex00 := exists 0, 0; split; [apply sunk_ok_0|split; [apply new_ok_0|split; [intros _; reflexivity|]]].
Ltac triv := intros _; split; [intros f Hw; ex00; unfold cons_q, total; cbn_state; cbn [close_term]; lia | reflexivity].

Lemma raw_step_delta c s ch : c_fix_rb c = true -> g_panic (raw_step c s ch) = None ->
  (forall f, okw f -> exists k n, sunk_ok f k /\ new_ok f n /\ (is_pp_choice ch = false -> n = 0) /\
     cons_q f (raw_step c s ch) = cons_q f s + close_term f c s ch - k + n) /\
  infl_q (raw_step c s ch) = infl_q s.
Proof.
  intros Hfix. destruct ch; cbn [raw_step].
  - (* CSubmit *)
    destruct (g_close_req s); [triv|]. intros _.
    split.
    + intros f Hw. ex00. unfold cons_q, total. cbn_state. rewrite q_w_push, wsum_app. cbn. lia.
    + unfold infl_q, total. cbn [add_submitted g_inflight g_q g_pps g_bps g_rbs set_q].
      match goal with |- context [unacc ?t] => replace (unacc t) with (unacc (set_q s (q_push DDisp (fresh_of m) (g_q s)))) by reflexivity end.
      rewrite unacc_push, q_w_push. cbn [eff_fresh]. rewrite fresh_un_fresh_of. unfold f1. lia.
  - (* CAsyncClose *)
    destruct (g_close_req s) eqn:Ecr;
      [intros _; split; [intros f Hw; ex00; cbn [close_term]; rewrite Ecr; lia | reflexivity]|]. intros _.
    split.
    + intros f Hw. ex00. cbn [close_term]. rewrite Ecr. unfold cons_q, total. cbn_state. rewrite q_w_push. lia.
    + unfold infl_q, total. cbn [add_inflight set_flags g_inflight g_q g_pps g_bps g_rbs set_q].
      match goal with |- context [unacc ?t] => replace (unacc t) with (unacc (set_q s (q_push DDisp (shutdown_marker c) (g_q s)))) by reflexivity end.
      rewrite unacc_push, q_w_push. cbn [eff_fresh]. rewrite fresh_un_shutdown. unfold f1. lia.
  - (* CDisp *)
    destruct (pop DDisp s) as [[m s1]|] eqn:Ep; [|triv].
    pose proof (disp_shape c (g_disp s1) m) as [Shp Hra].
    pose proof (nn_disp c (g_disp s1) m) as NN.
    assert (Bal : forall f, stable f -> esum (eff_net f) (snd (disp_step c (g_disp s1) m)) = f m) by (intros; apply disp_balance; assumption).
    destruct (disp_step c (g_disp s1) m) as [d' effs]. cbn [snd] in *. intros Hp.
    destruct (effs_delta c WOther _ effs true _ Hp Shp eq_refl) as [D1 D2].
    split.
    + intros f Hw. exists (esum (eff_sink f) effs), 0. split; [apply (sunk_ok_effs f true); [apply Hw|exact Shp]|].
      split; [apply new_ok_0|]. split; [intros _; reflexivity|].
      rewrite (D1 f), (Bal f (proj1 Hw)), (no_new_sum f effs NN).
      change (cons_q f (set_disp s1 d')) with (cons_q f s1). rewrite (cons_q_pop f _ _ _ _ Ep). cbn [close_term]. lia.
    + rewrite D2, (Bal f1 f1_stable), Hra.
      change (infl_q (set_disp s1 d')) with (infl_q s1). rewrite (infl_q_pop _ _ _ _ Ep). unfold f1. lia.
  - (* CTp *)
    destruct (pop (DTopic t) s) as [[m s1]|] eqn:Ep; [|triv].
    intros Hp. destruct (effs_delta c WOther _ (tp_step m) false _ Hp (tp_shape m) eq_refl) as [D1 D2].
    split.
    + intros f Hw. exists (esum (eff_sink f) (tp_step m)), 0. split; [apply (sunk_ok_effs f false); [apply Hw|apply tp_shape]|].
      split; [apply new_ok_0|]. split; [intros _; reflexivity|].
      rewrite (D1 f), (tp_balance f m (proj1 Hw)), (cons_q_pop f _ _ _ _ Ep), (no_new_sum f _ (nn_tp m)). cbn [close_term]. lia.
    + rewrite D2, (tp_balance f1 m f1_stable), (sh_false_ra _ (tp_shape m)), (infl_q_pop _ _ _ _ Ep). unfold f1. lia.
  - (* CPp *)
    destruct (pop (DPart t p) s) as [[m s1]|] eqn:Ep; [|triv].
    destruct (pp_get (t, p) (g_pps s1)) as [x|] eqn:Ex.
    + intros Hp. assert (Hx : forall f, match pp_get (t, p) (g_pps s1) with Some y => pp_w f (pr_st y) | None => 0 end = pp_w f (pr_st x)) by (intros; rewrite Ex; reflexivity).
      destruct (run_pp_delta c s1 (t, p) x m ls Hx Hp) as [D1 D2]. split.
      * intros f Hw. destruct (D1 f Hw) as (k & n & Hk & Hn & E). exists k, n. split; [exact Hk|]. split; [exact Hn|]. split; [discriminate|].
        rewrite E, (cons_q_pop f _ _ _ _ Ep). cbn [close_term]. lia.
      * rewrite D2, (infl_q_pop _ _ _ _ Ep). lia.
    + destruct (next_lres ls) as [l0 ls'].
      destruct (pp_init_balance f1 c t p l0) as (I1 & I2 & I3).
      assert (IF : forall f, esum (eff_net f) (snd (pp_init c t p l0)) = 0 /\ pp_w f (fst (pp_init c t p l0)) = 0)
        by (intros f; destruct (pp_init_balance f c t p l0) as (A & B & _); auto).
      pose proof (pp_init_shape c t p l0) as Shp0.
      destruct (pp_init c t p l0) as [st0 effs0]. cbn [fst snd] in *.
      set (s2 := set_pps s1 (pp_set (t, p) (mkPpr st0 None) (g_pps s1))).
      set (s3 := apply_effs c (WPp (t, p)) s2 effs0).
      assert (H23 : g_panic s3 = None ->
                (forall f, cons_q f s3 = cons_q f s1 - esum (eff_sink f) effs0 + esum (eff_new f) effs0) /\ infl_q s3 = infl_q s1).
      { intros Hp3. destruct (effs_delta c (WPp (t, p)) s2 effs0 false _ Hp3 Shp0 eq_refl) as [D1 D2]. fold s3 in D1, D2. split.
        - intros f. rewrite (D1 f). destruct (IF f) as [A B]. rewrite A. subst s2. rewrite cons_q_set_pps, Ex. cbn [pr_st]. lia.
        - rewrite D2, I1, (sh_false_ra _ Shp0). subst s2. rewrite infl_q_set_pps, Ex. cbn [pr_st]. lia. }
      set (x := match pp_get (t, p) (g_pps s3) with Some x => x | None => mkPpr st0 None end).
      intros Hp. assert (Hp3 : g_panic s3 = None).
      { destruct (g_panic s3) eqn:E3; [|reflexivity]. exfalso.
        unfold run_pp in Hp. destruct (pp_step _ _ _ _ _ _ _ _) as [st' effs].
        apply (apply_effs_sticky c (WPp (t, p)) effs (set_pps s3 (pp_set (t, p) (mkPpr st' (pr_h x)) (g_pps s3)))); [cbn; rewrite E3; discriminate|exact Hp]. }
      destruct (H23 Hp3) as [A3 B3].
      assert (Hx : forall f, match pp_get (t, p) (g_pps s3) with Some y => pp_w f (pr_st y) | None => 0 end = pp_w f (pr_st x)).
      { intros f. subst x. destruct (pp_get (t, p) (g_pps s3)); [reflexivity|]. cbn [pr_st]. destruct (IF f) as [_ B]. lia. }
      destruct (run_pp_delta c s3 (t, p) x m ls' Hx Hp) as [D1 D2]. split.
      * intros f Hw. destruct (D1 f Hw) as (k & n & Hk & Hn & E). exists (esum (eff_sink f) effs0 + k), (esum (eff_new f) effs0 + n).
        split; [apply sunk_ok_add; [apply (sunk_ok_effs f false); [apply Hw|exact Shp0]|exact Hk]|].
        split; [apply new_ok_add; [apply (new_ok_effs f false); [apply Hw|exact Shp0]|exact Hn]|]. split; [discriminate|].
        rewrite E, (A3 f), (cons_q_pop f _ _ _ _ Ep). cbn [close_term]. lia.
      * rewrite D2, B3, (infl_q_pop _ _ _ _ Ep). lia.
  - (* CBpRecv *)
    destruct (nth_error (g_bps s) b) as [x|] eqn:Ex; [|triv].
    destruct (flush_poll (i_st x)); [|triv].
    destruct (pop (DBp b) s) as [[m s1]|] eqn:Ep.
    + assert (Ex1 : nth_error (g_bps s1) b = Some x).
      { destruct (pop_spec _ _ _ _ Ep) as (_ & _ & _ & _ & _ & _ & Hb & _). rewrite Hb. exact Ex. }
      intros Hp. destruct (run_bp_delta c s1 b x (BRecv m) Ex1 Hp) as [D1 D2]. cbn [in_w] in *. split.
      * intros f Hw. destruct (D1 f Hw) as (k & Hk & E). exists k, 0. split; [exact Hk|]. split; [apply new_ok_0|]. split; [intros _; reflexivity|]. rewrite E, (cons_q_pop f _ _ _ _ Ep). cbn [close_term]. lia.
      * rewrite D2, (infl_q_pop _ _ _ _ Ep). unfold f1. lia.
    + destruct (i_in_closed x); [|triv].
      intros Hp. destruct (run_bp_delta c s b x BClosed Ex Hp) as [D1 D2]. cbn [in_w] in *. split.
      * intros f Hw. destruct (D1 f Hw) as (k & Hk & E). exists k, 0. split; [exact Hk|]. split; [apply new_ok_0|]. split; [intros _; reflexivity|]. rewrite E. cbn [close_term]. lia.
      * rewrite D2. lia.
  - (* CBpTimer *)
    destruct (nth_error (g_bps s) b) as [x|] eqn:Ex; [|triv].
    intros Hp. destruct (run_bp_delta c s b x BTimer Ex Hp) as [D1 D2]. cbn [in_w] in *. split.
    + intros f Hw. destruct (D1 f Hw) as (k & Hk & E). exists k, 0. split; [exact Hk|]. split; [apply new_ok_0|]. split; [intros _; reflexivity|]. rewrite E. cbn [close_term]. lia.
    + rewrite D2. lia.
  - (* CBpFlush *)
    destruct (nth_error (g_bps s) b) as [x|] eqn:Ex; [|triv].
    intros Hp. destruct (run_bp_delta c s b x BFlush Ex Hp) as [D1 D2]. cbn [in_w] in *. split.
    + intros f Hw. destruct (D1 f Hw) as (k & Hk & E). exists k, 0. split; [exact Hk|]. split; [apply new_ok_0|]. split; [intros _; reflexivity|]. rewrite E. cbn [close_term]. lia.
    + rewrite D2. lia.
  - (* CBridge *)
    destruct (nth_error (g_bps s) b) as [x|] eqn:Ex; [|triv].
    destruct (i_infl x) eqn:Ei; [triv|].
    destruct (i_bridge x) as [|st r] eqn:Eb; [triv|].
    intros _. split.
    + intros f Hw. ex00. rewrite (cons_q_set_bps f s b _ x Ex). unfold bpi_w. cbn. rewrite Ei, Eb. cbn. lia.
    + rewrite (infl_q_set_bps s b _ x Ex). unfold bpi_w. cbn. rewrite Ei, Eb. cbn. lia.
  - (* CAnswer *)
    destruct (nth_error (g_bps s) b) as [x|] eqn:Ex; [|triv].
    destruct (i_infl x) as [st|] eqn:Ei; [|triv].
    intros _. split.
    + intros f Hw. ex00. rewrite (cons_q_set_bps f s b _ x Ex). unfold bpi_w. cbn. rewrite Ei, resps_w_app. cbn. lia.
    + rewrite (infl_q_set_bps s b _ x Ex). unfold bpi_w. cbn. rewrite Ei, resps_w_app. cbn. lia.
  - (* CBpResp *)
    destruct (nth_error (g_bps s) b) as [x|] eqn:Ex; [|triv].
    destruct (i_resp x) as [|[st r] rest] eqn:Er; [triv|].
    set (s1 := set_bps s (bp_upd b (fun y => bi_with_bridge y (i_bridge y) (i_infl y) rest) (g_bps s))).
    assert (Ex1 : nth_error (g_bps s1) b = Some (bi_with_bridge x (i_bridge x) (i_infl x) rest))
      by (subst s1; exact (nth_error_bp_upd_same b (fun y => bi_with_bridge y (i_bridge y) (i_infl y) rest) (g_bps s) x Ex)).
    rewrite Ex1. intros Hp.
    destruct (run_bp_delta c s1 b _ (BResp st r) Ex1 Hp) as [D1 D2]. cbn [in_w] in *. split.
    + intros f Hw. destruct (D1 f Hw) as (k & Hk & E). exists k, 0. split; [exact Hk|]. split; [apply new_ok_0|]. split; [intros _; reflexivity|]. rewrite E. subst s1.
      rewrite (cons_q_set_bps f s b _ x Ex). unfold bpi_w. cbn. rewrite Er. cbn. lia.
    + rewrite D2. subst s1. rewrite (infl_q_set_bps s b _ x Ex). unfold bpi_w. cbn. rewrite Er. cbn. lia.
  - (* CRb *)
    destruct (nth_error (g_rbs s) i) as [tk|] eqn:Ei; [|triv].
    intros Hp.
    pose proof (rb_shape c (g_epoch s) (rb_k tk) (rb_ms tk) (rb_e tk) l) as Shp.
    destruct (effs_delta c WOther _ _ false _ Hp Shp eq_refl) as [D1 D2].
    split.
    + intros f Hw. exists (esum (eff_sink f) (rb_step c (g_epoch s) (rb_k tk) (rb_ms tk) (rb_e tk) l)), 0.
      split; [apply (sunk_ok_effs f false); [apply Hw|exact Shp]|]. split; [apply new_ok_0|]. split; [intros _; reflexivity|].
      rewrite (D1 f), (no_new_sum f _ (nn_rb c (g_epoch s) (rb_k tk) (rb_ms tk) (rb_e tk) l)). destruct (rb_balance f c (g_epoch s) (rb_k tk) (rb_ms tk) (rb_e tk) l (proj1 Hw) Hfix) as [A _].
      rewrite A. unfold cons_q, total. cbn_state. rewrite (rbs_w_remove f _ _ _ Ei). cbn [close_term]. lia.
    + rewrite D2. destruct (rb_balance f1 c (g_epoch s) (rb_k tk) (rb_ms tk) (rb_e tk) l f1_stable Hfix) as [A _].
      rewrite A, (sh_false_ra _ Shp). unfold infl_q, total, unacc. cbn_state. rewrite (rbs_w_remove f1 _ _ _ Ei). lia.
  - (* CRetry *)
    destruct (pop DRetry s) as [[m s1]|] eqn:Ep; [|triv].
    intros _. split.
    + intros f Hw. ex00. unfold cons_q, total. cbn_state. rewrite q_w_push.
      pose proof (cons_q_pop f _ _ _ _ Ep) as H. unfold cons_q, total in H. cbn [close_term]. lia.
    + unfold infl_q, total. cbn [set_q g_inflight g_q g_pps g_bps g_rbs]. rewrite unacc_push, q_w_push.
      pose proof (infl_q_pop _ _ _ _ Ep) as H. unfold infl_q, total in H. cbn [eff_fresh]. unfold f1 in *. lia.
  - (* CShutWake *)
    destruct (g_close_req s && negb (g_woken s) && (g_inflight s =? 0)); triv.
  - (* CShutClose *)
    destruct (g_woken s && negb (g_closed s)); triv.
Qed.

(* ---------------------------------------------------------------- all schedules *)

Lemma step_delta c s ch : c_fix_rb c = true ->
  (forall f, okw f -> exists k n, sunk_ok f k /\ new_ok f n /\ (is_pp_choice ch = false -> n = 0) /\
     cons_q f (step c s ch) = cons_q f s + (match g_panic s, g_panic (raw_step c s ch) with None, None => close_term f c s ch | _, _ => 0 end) - k + n) /\
  infl_q (step c s ch) = infl_q s.
Proof.
  intros Hfix. unfold step. destruct (g_panic s); [split; [intros f Hw; ex00; lia|reflexivity]|].
  destruct (g_panic (raw_step c s ch)) eqn:E.
  - split; [intros f Hw; ex00; change (cons_q f (set_panic s z)) with (cons_q f s); lia|reflexivity].
  - apply raw_step_delta; assumption.
Qed.

Lemma data_only_okw f : stable f -> nonneg f -> okw f.
Proof. intros A C. split; assumption. Qed.

Theorem invariants c : c_fix_rb c = true -> forall sched,
  (forall f, stable f -> data_only f -> nonneg f -> cons_q f (run c sched) = 0) /\ infl_q (run c sched) = 0.
Proof.
  intros Hfix sched. unfold run.
  assert (G : forall l s, ((forall f, stable f -> data_only f -> nonneg f -> cons_q f s = 0) /\ infl_q s = 0) ->
              (forall f, stable f -> data_only f -> nonneg f -> cons_q f (fold_left (step c) l s) = 0) /\ infl_q (fold_left (step c) l s) = 0).
  { induction l as [|ch l IH]; intros s Hs; [exact Hs|]. cbn [fold_left]. apply IH.
    destruct (step_delta c s ch Hfix) as [A B]. destruct Hs as [Hs1 Hs2]. split.
    - intros f Hf Hd Hn. destruct (A f (data_only_okw f Hf Hn)) as (k & n & [_ Hk] & [_ Hnn] & _ & E).
      rewrite E, (Hk Hd), (Hnn (data_only_marker_free f Hd)), (Hs1 f Hf Hd Hn).
      destruct (g_panic s); [lia|]. destruct (g_panic (raw_step c s ch)); [lia|].
      destruct ch; cbn [close_term]; try lia. destruct (g_close_req s); [lia|]. rewrite (Hd _ (is_data_shutdown c)). lia.
    - rewrite B. exact Hs2. }
  apply G. split; [intros; reflexivity|reflexivity].
Qed.

(* ---------------------------------------------------------------- the statements about identities *)

(* number of copies of application message [i] *)
Definition idw (i : Z) : msg -> Z := fun m => if is_data m && (m_id m =? i) then 1 else 0.
Lemma idw_stable i : stable (idw i).
Proof. intros m m' H1 H2. unfold idw, is_data. rewrite H1, H2. reflexivity. Qed.
Lemma idw_nonneg i : nonneg (idw i). Proof. intros m. unfold idw. destruct (is_data m && (m_id m =? i)); lia. Qed.
Lemma idw_data_only i : data_only (idw i).
Proof. intros m H. unfold idw. rewrite H. reflexivity. Qed.

Definition tokens (i : Z) (s : state) : Z := total (idw i) s.           (* copies of i held anywhere in the pipeline *)
Definition outcomes (i : Z) (s : state) : Z := evs_w (idw i) (g_events s).  (* terminal events naming i *)
Definition submissions (i : Z) (s : state) : Z := wsum (idw i) (g_submitted s).

Theorem conservation c : c_fix_rb c = true -> forall sched i,
  tokens i (run c sched) + outcomes i (run c sched) = submissions i (run c sched).
Proof.
  intros Hfix sched i. destruct (invariants c Hfix sched) as [A _].
  specialize (A (idw i) (idw_stable i) (idw_data_only i) (idw_nonneg i)). unfold cons_q in A. unfold tokens, outcomes, submissions. lia.
Qed.

(* non-negativity *)
Lemma wsum_nonneg f l : (forall m, 0 <= f m) -> 0 <= wsum f l.
Proof. intros H. induction l as [|m l IH]; simpl; [lia|]. specialize (H m). lia. Qed.
Lemma parts_w_nonneg f ps : (forall m, 0 <= f m) -> 0 <= parts_w f ps.
Proof. intros H. induction ps as [|[k l] r IH]; simpl; [lia|]. pose proof (wsum_nonneg f l H). lia. Qed.
Lemma total_nonneg f s : (forall m, 0 <= f m) -> 0 <= total f s.
Proof.
  intros H. unfold total.
  assert (A : 0 <= q_w f (g_q s)) by (induction (g_q s) as [|[d l] r IH]; simpl; [lia|]; pose proof (wsum_nonneg f l H); lia).
  assert (B : 0 <= pps_w f (g_pps s)).
  { induction (g_pps s) as [|[k x] r IH]; simpl; [lia|]. unfold pp_w.
    assert (0 <= levels_w f (p_levels (pr_st x))) by (induction (p_levels (pr_st x)) as [|l r' IH']; simpl; [lia|]; pose proof (wsum_nonneg f (l_buf l) H); lia). lia. }
  assert (S : forall l, 0 <= sets_w f l) by (induction l as [|x r IH]; simpl; [lia|]; pose proof (parts_w_nonneg f (s_parts x) H); unfold set_w; lia).
  assert (R : forall l, 0 <= resps_w f l) by (induction l as [|[x y] r IH]; simpl; [lia|]; pose proof (parts_w_nonneg f (s_parts x) H); unfold set_w; lia).
  assert (C : 0 <= bps_w f (g_bps s)).
  { induction (g_bps s) as [|x r IH]; simpl; [lia|]. unfold bpi_w, bp_w, set_w.
    pose proof (parts_w_nonneg f (s_parts (b_buf (i_st x))) H). pose proof (S (i_bridge x)). pose proof (R (i_resp x)).
    assert (0 <= wait_w f (b_wait (i_st x))) by (destruct (b_wait (i_st x)); simpl; try lia; apply H).
    assert (0 <= match i_infl x with Some s0 => parts_w f (s_parts s0) | None => 0 end) by (destruct (i_infl x); [apply parts_w_nonneg, H|lia]).
    lia. }
  assert (D : 0 <= rbs_w f (g_rbs s)) by (induction (g_rbs s) as [|x r IH]; simpl; [lia|]; pose proof (wsum_nonneg f (rb_ms x) H); lia).
  lia.
Qed.
Lemma evs_w_nonneg f l : (forall m, 0 <= f m) -> 0 <= evs_w f l.
Proof. intros H. induction l as [|e l IH]; simpl; [lia|]. specialize (H (ev_msg e)). lia. Qed.

(* never more outcomes than submissions; none for a message that was not submitted *)
Corollary outcomes_le_submissions c : c_fix_rb c = true -> forall sched i,
  0 <= outcomes i (run c sched) <= submissions i (run c sched).
Proof.
  intros Hfix sched i. pose proof (conservation c Hfix sched i) as H.
  pose proof (total_nonneg (idw i) (run c sched) (idw_nonneg i)). unfold tokens in H.
  pose proof (evs_w_nonneg (idw i) (g_events (run c sched)) (idw_nonneg i)). unfold outcomes in *. lia.
Qed.

(* the counter *)
Theorem inflight_exact c : c_fix_rb c = true -> forall sched,
  g_inflight (run c sched) = total f1 (run c sched) - unacc (run c sched).
Proof. intros Hfix sched. destruct (invariants c Hfix sched) as [_ B]. unfold infl_q in B. lia. Qed.

Theorem conservation_general c : c_fix_rb c = true -> forall sched f, stable f -> data_only f -> nonneg f ->
  total f (run c sched) + evs_w f (g_events (run c sched)) = wsum f (g_submitted (run c sched)).
Proof. intros H sched f Hf Hd Hn. generalize (proj1 (invariants c H sched) f Hf Hd Hn). unfold cons_q. lia. Qed.
