(* Producer model, part 3: the composition.  Global state = unbounded FIFO queues between the actors of
   Producer/Actors.v, their local states, the broker-worker registry, the transaction manager, the inFlight
   counter and the event channels.  [step : state -> choice -> state] is total and deterministic; the choice
   (schedule + environment) says which actor handles its next input, or which environment event happens.
   Theorems quantify over arbitrary [list choice] (Producer/Conservation.v ...).  No proofs here. *)
From Coq Require Import List ZArith Bool Arith.
From SV Require Import Producer.Msg Producer.Actors.
Import ListNotations.
Open Scope Z_scope.

(* ---------------------------------------------------------------- state *)

Record ppr := mkPpr { pr_st : pp; pr_h : option nat }.     (* partition worker + its broker-worker handle *)

Record bpi := mkBpi {
  i_broker : Z;
  i_refs : Z;                      (* brokerRefs[bp] *)
  i_reg : bool;                    (* brokers[broker] == bp *)
  i_aband : bool;                  (* abandoned channel closed (exists only when Retry.Max = 0) *)
  i_in_closed : bool;              (* close(bp.input) happened *)
  i_st : bp;
  i_bridge : list pset;            (* sets handed to the bridge, not yet sent *)
  i_infl : option pset;            (* the request in flight *)
  i_resp : list (pset * resp)      (* answered, not yet handled by the broker worker *)
}.

Inductive event := Ev (success : bool) (m : msg) (x : Z).   (* x: offset of a success / error class *)
Definition ev_msg (e : event) : msg := match e with Ev _ m _ => m end.

Record rbtask := mkRb { rb_k : tpk; rb_ms : list msg; rb_e : Z }.

Record state := mkState {
  g_q : list (dest * list msg);
  g_disp : disp;
  g_pps : list (tpk * ppr);
  g_bps : list bpi;
  g_rbs : list rbtask;
  g_inflight : Z;
  g_epoch : Z;
  g_seqs : list (tpk * Z);
  g_events : list event;
  g_submitted : list msg;
  g_ilog : list (Z * nat * bool);       (* interceptor invocations: message id, interceptor index, panicked *)
  g_close_req : bool;                   (* AsyncClose was called *)
  g_woken : bool;                       (* inFlight.Wait() returned *)
  g_closed : bool;                      (* input, retries, errors, successes closed *)
  g_panic : option Z                    (* Some 1: send on a closed event channel; other codes: ECrash *)
}.

Definition init : state :=
  mkState [] (mkDisp false) [] [] [] 0 0 [] [] [] [] false false false None.

Definition PANIC_CLOSED_CHANNEL := 1.
Definition PANIC_CLOSED_INPUT := 14.
Definition CR_MODEL := 98.    (* model artefact: an effect performed by an actor that cannot perform it (never happens) *)

(* ---------------------------------------------------------------- queues *)

Fixpoint q_get (d : dest) (q : list (dest * list msg)) : list msg :=
  match q with
  | [] => []
  | (d', l) :: r => if dest_eqb d d' then l else q_get d r
  end.
Fixpoint q_set (d : dest) (l : list msg) (q : list (dest * list msg)) : list (dest * list msg) :=
  match q with
  | [] => [(d, l)]
  | (d', l') :: r => if dest_eqb d d' then (d', l) :: r else (d', l') :: q_set d l r
  end.
Definition q_push (d : dest) (m : msg) (q : list (dest * list msg)) := q_set d (q_get d q ++ [m]) q.

(* ---------------------------------------------------------------- small updaters *)

Definition set_q (s : state) (q : list (dest * list msg)) : state :=
  mkState q (g_disp s) (g_pps s) (g_bps s) (g_rbs s) (g_inflight s) (g_epoch s) (g_seqs s) (g_events s)
          (g_submitted s) (g_ilog s) (g_close_req s) (g_woken s) (g_closed s) (g_panic s).
Definition set_disp (s : state) (d : disp) : state :=
  mkState (g_q s) d (g_pps s) (g_bps s) (g_rbs s) (g_inflight s) (g_epoch s) (g_seqs s) (g_events s)
          (g_submitted s) (g_ilog s) (g_close_req s) (g_woken s) (g_closed s) (g_panic s).
Definition set_pps (s : state) (x : list (tpk * ppr)) : state :=
  mkState (g_q s) (g_disp s) x (g_bps s) (g_rbs s) (g_inflight s) (g_epoch s) (g_seqs s) (g_events s)
          (g_submitted s) (g_ilog s) (g_close_req s) (g_woken s) (g_closed s) (g_panic s).
Definition set_bps (s : state) (x : list bpi) : state :=
  mkState (g_q s) (g_disp s) (g_pps s) x (g_rbs s) (g_inflight s) (g_epoch s) (g_seqs s) (g_events s)
          (g_submitted s) (g_ilog s) (g_close_req s) (g_woken s) (g_closed s) (g_panic s).
Definition set_rbs (s : state) (x : list rbtask) : state :=
  mkState (g_q s) (g_disp s) (g_pps s) (g_bps s) x (g_inflight s) (g_epoch s) (g_seqs s) (g_events s)
          (g_submitted s) (g_ilog s) (g_close_req s) (g_woken s) (g_closed s) (g_panic s).
Definition add_inflight (s : state) (d : Z) : state :=
  mkState (g_q s) (g_disp s) (g_pps s) (g_bps s) (g_rbs s) (g_inflight s + d) (g_epoch s) (g_seqs s) (g_events s)
          (g_submitted s) (g_ilog s) (g_close_req s) (g_woken s) (g_closed s) (g_panic s).
Definition set_txn (s : state) (ep : Z) (sq : list (tpk * Z)) : state :=
  mkState (g_q s) (g_disp s) (g_pps s) (g_bps s) (g_rbs s) (g_inflight s) ep sq (g_events s)
          (g_submitted s) (g_ilog s) (g_close_req s) (g_woken s) (g_closed s) (g_panic s).
Definition add_event (s : state) (e : event) : state :=
  mkState (g_q s) (g_disp s) (g_pps s) (g_bps s) (g_rbs s) (g_inflight s) (g_epoch s) (g_seqs s) (g_events s ++ [e])
          (g_submitted s) (g_ilog s) (g_close_req s) (g_woken s) (g_closed s) (g_panic s).
Definition add_submitted (s : state) (m : msg) : state :=
  mkState (g_q s) (g_disp s) (g_pps s) (g_bps s) (g_rbs s) (g_inflight s) (g_epoch s) (g_seqs s) (g_events s)
          (g_submitted s ++ [m]) (g_ilog s) (g_close_req s) (g_woken s) (g_closed s) (g_panic s).
Definition add_ilog (s : state) (x : Z * nat * bool) : state :=
  mkState (g_q s) (g_disp s) (g_pps s) (g_bps s) (g_rbs s) (g_inflight s) (g_epoch s) (g_seqs s) (g_events s)
          (g_submitted s) (g_ilog s ++ [x]) (g_close_req s) (g_woken s) (g_closed s) (g_panic s).
Definition set_flags (s : state) (req woken closed : bool) : state :=
  mkState (g_q s) (g_disp s) (g_pps s) (g_bps s) (g_rbs s) (g_inflight s) (g_epoch s) (g_seqs s) (g_events s)
          (g_submitted s) (g_ilog s) req woken closed (g_panic s).
Definition set_panic (s : state) (code : Z) : state :=
  mkState (g_q s) (g_disp s) (g_pps s) (g_bps s) (g_rbs s) (g_inflight s) (g_epoch s) (g_seqs s) (g_events s)
          (g_submitted s) (g_ilog s) (g_close_req s) (g_woken s) (g_closed s) (Some code).

(* partition workers *)
Fixpoint pp_get (k : tpk) (l : list (tpk * ppr)) : option ppr :=
  match l with [] => None | (k', x) :: r => if tpk_eqb k k' then Some x else pp_get k r end.
Fixpoint pp_set (k : tpk) (x : ppr) (l : list (tpk * ppr)) : list (tpk * ppr) :=
  match l with
  | [] => [(k, x)]
  | (k', y) :: r => if tpk_eqb k k' then (k', x) :: r else (k', y) :: pp_set k x r
  end.

(* broker workers *)
Fixpoint bp_upd (i : nat) (f : bpi -> bpi) (l : list bpi) : list bpi :=
  match l, i with
  | [], _ => []
  | x :: r, O => f x :: r
  | x :: r, S i' => x :: bp_upd i' f r
  end.
Fixpoint find_reg (broker : Z) (l : list bpi) (i : nat) : option nat :=
  match l with
  | [] => None
  | x :: r => if i_reg x && Z.eqb (i_broker x) broker then Some i else find_reg broker r (S i)
  end.

Definition bi_with_st (x : bpi) (st : bp) : bpi :=
  mkBpi (i_broker x) (i_refs x) (i_reg x) (i_aband x) (i_in_closed x) st (i_bridge x) (i_infl x) (i_resp x).
Definition bi_with_bridge (x : bpi) (br : list pset) (infl : option pset) (rs : list (pset * resp)) : bpi :=
  mkBpi (i_broker x) (i_refs x) (i_reg x) (i_aband x) (i_in_closed x) (i_st x) br infl rs.
Definition bi_ref (x : bpi) : bpi :=
  mkBpi (i_broker x) (i_refs x + 1) (i_reg x) (i_aband x) (i_in_closed x) (i_st x) (i_bridge x) (i_infl x) (i_resp x).
(* unrefBrokerProducer: at zero references the input is closed and the registration dropped *)
Definition bi_unref (x : bpi) : bpi :=
  if i_refs x - 1 =? 0
  then mkBpi (i_broker x) 0 false (i_aband x) true (i_st x) (i_bridge x) (i_infl x) (i_resp x)
  else mkBpi (i_broker x) (i_refs x - 1) (i_reg x) (i_aband x) (i_in_closed x) (i_st x) (i_bridge x) (i_infl x) (i_resp x).
(* abandonBrokerConnection: close(abandoned) if that channel exists, delete(brokers, broker) *)
Definition bi_abandon (c : cfg) (x : bpi) : bpi :=
  mkBpi (i_broker x) (i_refs x) false (i_aband x || (c_retry_max c =? 0)%nat) (i_in_closed x) (i_st x)
        (i_bridge x) (i_infl x) (i_resp x).
Definition bi_new (broker ep : Z) : bpi := mkBpi broker 0 true false false (bp_init broker ep) [] None [].

(* getBrokerProducer: the registered instance of the broker, or a new one; one more reference *)
Definition get_bp (s : state) (broker : Z) : state * nat :=
  match find_reg broker (g_bps s) 0%nat with
  | Some i => (set_bps s (bp_upd i bi_ref (g_bps s)), i)
  | None => (set_bps s (g_bps s ++ [bi_ref (bi_new broker (g_epoch s))]), length (g_bps s))
  end.

(* transaction manager *)
Fixpoint seq_get (k : tpk) (l : list (tpk * Z)) : Z :=
  match l with [] => 0 | (k', v) :: r => if tpk_eqb k k' then v else seq_get k r end.
Fixpoint seq_set (k : tpk) (v : Z) (l : list (tpk * Z)) : list (tpk * Z) :=
  match l with
  | [] => [(k, v)]
  | (k', v') :: r => if tpk_eqb k k' then (k', v) :: r else (k', v') :: seq_set k v r
  end.
Definition bump_epoch (s : state) : state := set_txn s (g_epoch s + 1) (map (fun kv => (fst kv, 0)) (g_seqs s)).

(* ---------------------------------------------------------------- effects *)

(* who performs the effects: a partition worker (DCur, EUnref, EGet refer to its handle), a broker worker
   (EBridge refers to its bridge) or somebody else *)
Inductive who := WPp (k : tpk) | WBp (b : nat) | WOther.

Definition handle_of (s : state) (w : who) : option nat :=
  match w with
  | WPp k => match pp_get k (g_pps s) with Some x => pr_h x | None => None end
  | _ => None
  end.
Definition set_handle (s : state) (w : who) (h : option nat) : state :=
  match w with
  | WPp k => match pp_get k (g_pps s) with
             | Some x => set_pps s (pp_set k (mkPpr (pr_st x) h) (g_pps s))
             | None => s
             end
  | _ => s
  end.

Definition emit (s : state) (e : event) : state :=
  if g_closed s then set_panic s PANIC_CLOSED_CHANNEL else add_event s e.

Definition apply_eff (c : cfg) (w : who) (s : state) (e : effect) : state :=
  match e with
  | ESend d m =>
      match d with
      | DCur =>
          match handle_of s w with
          | Some b =>
              match nth_error (g_bps s) b with
              | Some x => if i_in_closed x then set_panic s PANIC_CLOSED_INPUT
                          else set_q s (q_push (DBp b) m (g_q s))
              | None => set_panic s CR_NIL_BP
              end
          | None => set_panic s CR_NIL_BP
          end
      | _ => set_q s (q_push d m (g_q s))
      end
  | EErr m x =>
      let s1 := emit s (Ev false m x) in
      let s2 := add_inflight s1 (-1) in
      if m_hasseq m then bump_epoch s2 else s2
  | ESucc m off => add_inflight (emit s (Ev true m off)) (-1)
  | ERawErr m x => emit s (Ev false m x)
  | ENew _ => add_inflight s 1
  | EAccept _ => add_inflight s 1
  | EDone _ => add_inflight s (-1)
  | EIc id k p => add_ilog s (id, k, p)
  | EStamp t p => set_txn s (g_epoch s) (seq_set (t, p) (seq_get (t, p) (g_seqs s) + 1) (g_seqs s))
  | EUnref =>
      match handle_of s w with
      | Some b => set_handle (set_bps s (bp_upd b bi_unref (g_bps s))) w None
      | None => s
      end
  | EGet broker => let '(s1, b) := get_bp s broker in set_handle s1 w (Some b)
  | EAbandon broker =>
      match find_reg broker (g_bps s) 0%nat with
      | Some b => set_bps s (bp_upd b (bi_abandon c) (g_bps s))
      | None => s
      end
  | EBridge st =>
      match w with
      | WBp b =>
          match nth_error (g_bps s) b with
          | Some _ => set_bps s (bp_upd b (fun x => bi_with_bridge x (i_bridge x ++ [st]) (i_infl x) (i_resp x)) (g_bps s))
          | None => set_panic s CR_MODEL
          end
      | _ => set_panic s CR_MODEL
      end
  | ESpawnRB k ms x => set_rbs s (g_rbs s ++ [mkRb k ms x])
  | ERbSend broker st =>
      let '(s1, b) := get_bp s broker in
      set_bps s1 (bp_upd b (fun x => bi_with_bridge x (i_bridge x ++ [st]) (i_infl x) (i_resp x)) (g_bps s1))
  | ENote _ _ => s
  | ECrash code => set_panic s (100 + Z.abs code)    (* labels of other run-time panics live above 100: never PANIC_CLOSED_CHANNEL *)
  end.

Definition apply_effs (c : cfg) (w : who) (s : state) (l : list effect) : state := fold_left (apply_eff c w) l s.

(* ---------------------------------------------------------------- choices *)

Inductive choice :=
| CSubmit (m : msg)                     (* the application sends m on Input() *)
| CAsyncClose                           (* the application calls AsyncClose *)
| CDisp                                 (* dispatcher handles its next input *)
| CTp (t : Z)                           (* topic worker of t *)
| CPp (t p : Z) (ls : list lres)        (* partition worker; ls: the leader lookup results it will get *)
| CBpRecv (b : nat)                     (* broker worker b: next input message / input closed *)
| CBpTimer (b : nat)
| CBpFlush (b : nat)
| CBridge (b : nat)                     (* bridge of b sends the next set *)
| CAnswer (b : nat) (r : resp)          (* the cluster (or the connection) answers the request in flight *)
| CBpResp (b : nat)                     (* broker worker b handles the next response *)
| CRb (i : nat) (l : lres)              (* the i-th pending retryBatch goroutine runs *)
| CRetry                                (* retry handler forwards its oldest message to the dispatcher *)
| CShutWake                             (* shutdown(): inFlight.Wait() returns *)
| CShutClose.                           (* shutdown(): the channels are closed *)

Definition pop (d : dest) (s : state) : option (msg * state) :=
  match q_get d (g_q s) with
  | [] => None
  | m :: r => Some (m, set_q s (q_set d r (g_q s)))
  end.

Definition run_bp (c : cfg) (s : state) (b : nat) (x : bpi) (i : bp_in) : state :=
  let '(st', effs) := bp_step c (g_epoch s) (i_st x) i in
  let s1 := set_bps s (bp_upd b (fun y => bi_with_st y st') (g_bps s)) in
  apply_effs c (WBp b) s1 effs.

Fixpoint remove_nth {A} (i : nat) (l : list A) : list A :=
  match l, i with
  | [], _ => []
  | _ :: r, O => r
  | x :: r, S i' => x :: remove_nth i' r
  end.

(* one partition-worker iteration on state s whose record for k exists *)
Definition run_pp (c : cfg) (s : state) (k : tpk) (x : ppr) (m : msg) (ls : list lres) : state :=
  let ab := match pr_h x with
            | Some b => match nth_error (g_bps s) b with Some y => i_aband y | None => false end
            | None => false
            end in
  let stamp := (seq_get k (g_seqs s), g_epoch s) in
  let '(st', effs) := pp_step c (fst k) (snd k) (pr_st x) m ab stamp ls in
  let s1 := set_pps s (pp_set k (mkPpr st' (pr_h x)) (g_pps s)) in
  apply_effs c (WPp k) s1 effs.

Definition raw_step (c : cfg) (s : state) (ch : choice) : state :=
  match ch with
  | CSubmit m =>
      if g_close_req s then s
      else add_submitted (set_q s (q_push DDisp (fresh_of m) (g_q s))) (fresh_of m)
  | CAsyncClose =>
      if g_close_req s then s
      else let s1 := set_flags s true (g_woken s) (g_closed s) in
           add_inflight (set_q s1 (q_push DDisp (shutdown_marker c) (g_q s1))) 1
  | CDisp =>
      match pop DDisp s with
      | Some (m, s1) =>
          let '(d', effs) := disp_step c (g_disp s1) m in
          apply_effs c WOther (set_disp s1 d') effs
      | None => s
      end
  | CTp t =>
      match pop (DTopic t) s with
      | Some (m, s1) => apply_effs c WOther s1 (tp_step m)
      | None => s
      end
  | CPp t p ls =>
      match pop (DPart t p) s with
      | Some (m, s1) =>
          match pp_get (t, p) (g_pps s1) with
          | Some x => run_pp c s1 (t, p) x m ls
          | None =>
              (* the goroutine's prologue (leader prefetch) runs first, with the first lookup result *)
              let '(l0, ls') := next_lres ls in
              let '(st0, effs0) := pp_init c t p l0 in
              let s2 := set_pps s1 (pp_set (t, p) (mkPpr st0 None) (g_pps s1)) in
              let s3 := apply_effs c (WPp (t, p)) s2 effs0 in
              let x := match pp_get (t, p) (g_pps s3) with Some x => x | None => mkPpr st0 None end in
              run_pp c s3 (t, p) x m ls'
          end
      | None => s
      end
  | CBpRecv b =>
      match nth_error (g_bps s) b with
      | Some x =>
          if flush_poll (i_st x) then
            match pop (DBp b) s with
            | Some (m, s1) => run_bp c s1 b x (BRecv m)
            | None => if i_in_closed x then run_bp c s b x BClosed else s
            end
          else s
      | None => s
      end
  | CBpTimer b =>
      match nth_error (g_bps s) b with Some x => run_bp c s b x BTimer | None => s end
  | CBpFlush b =>
      match nth_error (g_bps s) b with Some x => run_bp c s b x BFlush | None => s end
  | CBridge b =>
      match nth_error (g_bps s) b with
      | Some x =>
          match i_infl x, i_bridge x with
          | None, st :: r => set_bps s (bp_upd b (fun y => bi_with_bridge y r (Some st) (i_resp y)) (g_bps s))
          | _, _ => s
          end
      | None => s
      end
  | CAnswer b r =>
      match nth_error (g_bps s) b with
      | Some x =>
          match i_infl x with
          | Some st => set_bps s (bp_upd b (fun y => bi_with_bridge y (i_bridge y) None (i_resp y ++ [(st, r)])) (g_bps s))
          | None => s
          end
      | None => s
      end
  | CBpResp b =>
      match nth_error (g_bps s) b with
      | Some x =>
          match i_resp x with
          | (st, r) :: rest =>
              let s1 := set_bps s (bp_upd b (fun y => bi_with_bridge y (i_bridge y) (i_infl y) rest) (g_bps s)) in
              match nth_error (g_bps s1) b with
              | Some x1 => run_bp c s1 b x1 (BResp st r)
              | None => s
              end
          | [] => s
          end
      | None => s
      end
  | CRb i l =>
      match nth_error (g_rbs s) i with
      | Some t =>
          let s1 := set_rbs s (remove_nth i (g_rbs s)) in
          apply_effs c WOther s1 (rb_step c (g_epoch s) (rb_k t) (rb_ms t) (rb_e t) l)
      | None => s
      end
  | CRetry =>
      match pop DRetry s with
      | Some (m, s1) => set_q s1 (q_push DDisp m (g_q s1))
      | None => s
      end
  | CShutWake =>
      if g_close_req s && negb (g_woken s) && (g_inflight s =? 0) then set_flags s true true (g_closed s) else s
  | CShutClose =>
      if g_woken s && negb (g_closed s) then set_flags s (g_close_req s) true true else s
  end.

(* A Go panic stops the program: the state is frozen with the panic code; the step that panicked is not
   applied (its partial effects are irrelevant to every statement made about panicked states). *)
Definition step (c : cfg) (s : state) (ch : choice) : state :=
  match g_panic s with
  | Some _ => s
  | None =>
      let s' := raw_step c s ch in
      match g_panic s' with
      | Some code => set_panic s code
      | None => s'
      end
  end.

Definition run (c : cfg) (sched : list choice) : state := fold_left (step c) sched init.
