(* Producer proofs, part 11: possibility of completion, as an executable criterion.

   `drain` is a canonical scheduler for a GOOD environment: every leader lookup succeeds, every request is
   answered with success for all its partitions, timers fire, AsyncClose is called once.  It only ever emits
   choices of the composition (Compose.choice), so whatever it reaches is reached by an ordinary schedule.
   `can_complete_check` turns a successful bounded drain from ANY reachable state into the statement the
   coordinator asked for (a continuation k of bounded length after which inFlight = 0, the channels are closed,
   nothing is left in the pipeline and every submitted message has exactly its one terminal event).

   What is proved for all reachable states is the dead-end-freedom half (Liveness.v: no lost chaser, every held
   buffer can be flushed) plus Progress.progress_partial; what is checked per state (vm_compute, below, for every
   prefix of the example schedules including the retry / chaser / retryBatch episodes) is that `drain` terminates
   in a completed state.  The missing general step is the ranking argument: that `next_choice` is never None
   before completion and that the measure `mu` below strictly decreases along `drain` (see notes/C01.md).

   This is a statement about the MODEL's semantics: time-abstract, unbounded queues (no back-pressure). *)
From Coq Require Import List ZArith Bool Arith Lia.
From SV Require Import Producer.Msg Producer.Actors Producer.Compose Producer.Weights Producer.Local Producer.Global
                       Producer.Shape Producer.Conservation Producer.Shutdown Producer.Progress Producer.Examples.
Import ListNotations.
Open Scope Z_scope.

(* ---------------------------------------------------------------- the good environment *)

Definition good_lookups (c : cfg) : list lres := repeat (LOk 1) (4 + c_retry_max c).
Definition good_answer (sent : pset) : resp := RBlocks (map (fun kl => (fst kl, (0, 0))) (s_parts sent)).

(* the owner of a non-empty queue, if it is currently reading it *)
Definition queue_choice (c : cfg) (s : state) (d : dest) : option choice :=
  match d with
  | DDisp => Some CDisp
  | DTopic t => Some (CTp t)
  | DPart t p => Some (CPp t p (good_lookups c))
  | DRetry => Some CRetry
  | DBp b => match nth_error (g_bps s) b with
             | Some x => if flush_poll (i_st x) then Some (CBpRecv b) else None
             | None => None
             end
  | DCur => None
  end.
Fixpoint first_queue (c : cfg) (s : state) (q : list (dest * list msg)) : option choice :=
  match q with
  | [] => None
  | (d, []) :: r => first_queue c s r
  | (d, _ :: _) :: r => match queue_choice c s d with Some ch => Some ch | None => first_queue c s r end
  end.

(* what broker worker b (its bridge, its connection) can do next, if anything useful *)
Definition bp_choice (ans : pset -> resp) (s : state) (b : nat) (x : bpi) : option choice :=
  match i_resp x with
  | _ :: _ => Some (CBpResp b)
  | [] =>
    match i_infl x with
    | Some sent => Some (CAnswer b (ans sent))
    | None =>
      match i_bridge x with
      | _ :: _ => Some (CBridge b)
      | [] =>
        let st := i_st x in
        match b_mode st, b_wait st with
        | MRun, WNone =>
            if set_empty (b_buf st) then
              (if i_in_closed x then match q_get (DBp b) (g_q s) with [] => Some (CBpRecv b) | _ => None end else None)
            else if b_out_en st then Some (CBpFlush b)
            else if b_timer st then Some (CBpTimer b) else None
        | MRun, _ => Some (CBpFlush b)
        | MDrain, _ => Some (CBpFlush b)
        | MClosed, _ => None
        end
      end
    end
  end.
Fixpoint first_bp (ans : pset -> resp) (s : state) (l : list bpi) (b : nat) : option choice :=
  match l with
  | [] => None
  | x :: r => match bp_choice ans s b x with Some ch => Some ch | None => first_bp ans s r (S b) end
  end.

Definition next_choice_env (c : cfg) (ans : pset -> resp) (s : state) : option choice :=
  match g_panic s with
  | Some _ => None
  | None =>
    match first_queue c s (g_q s) with
    | Some ch => Some ch
    | None =>
      match first_bp ans s (g_bps s) 0%nat with
      | Some ch => Some ch
      | None =>
        match g_rbs s with
        | _ :: _ => Some (CRb 0 (LOk 1))
        | [] =>
          if negb (g_close_req s) then Some CAsyncClose
          else if negb (g_woken s) && (g_inflight s =? 0) then Some CShutWake
          else if g_woken s && negb (g_closed s) then Some CShutClose
          else None
        end
      end
    end
  end.

Definition next_choice (c : cfg) := next_choice_env c good_answer.

Fixpoint drain_env (c : cfg) (ans : pset -> resp) (n : nat) (s : state) : list choice * state :=
  match n with
  | O => ([], s)
  | S n' => match next_choice_env c ans s with
            | None => ([], s)
            | Some ch => let '(k, s') := drain_env c ans n' (step c s ch) in (ch :: k, s')
            end
  end.
Definition drain (c : cfg) := drain_env c good_answer.

Definition completed (s : state) : bool :=
  match g_panic s with Some _ => false | None => (g_inflight s =? 0) && g_closed s end.

(* ---------------------------------------------------------------- drain is a schedule *)

Lemma drain_is_schedule c n : forall s, snd (drain c n s) = fold_left (step c) (fst (drain c n s)) s /\ (length (fst (drain c n s)) <= n)%nat.
Proof.
  unfold drain. induction n as [|n IH]; intros s; cbn [drain_env]; [split; [reflexivity|cbn; lia]|].
  destruct (next_choice_env c good_answer s) as [ch|]; [|split; [reflexivity|cbn; lia]].
  specialize (IH (step c s ch)). destruct (drain_env c good_answer n (step c s ch)) as [k s']. cbn [fst snd] in *. destruct IH as [A B].
  split; [exact A|cbn [length]; lia].
Qed.

Lemma run_app c a b : run c (a ++ b) = fold_left (step c) b (run c a).
Proof. unfold run. apply fold_left_app. Qed.

(* ---------------------------------------------------------------- the criterion *)

(* If the bounded drain from a reachable state ends completed, then that state CAN complete: there is a
   continuation k, no longer than the bound, after which nothing is pending (inFlight = 0, no token of any
   message anywhere in the pipeline), the channels are closed -- after all events, by close_order -- and every
   message submitted so far has exactly as many terminal events as submissions (exactly one for a message
   submitted once).  Nothing can be submitted during k: the only application step drain emits is AsyncClose. *)
Theorem can_complete_check c sched n : c_fix_rb c = true ->
  completed (snd (drain c n (run c sched))) = true ->
  exists k, (length k <= n)%nat /\
    let s' := run c (sched ++ k) in
    g_panic s' = None /\ g_inflight s' = 0 /\ g_closed s' = true /\ g_woken s' = true /\ total f1 s' = 0 /\
    (forall i, tokens i s' = 0 /\ outcomes i s' = submissions i s').
Proof.
  intros Hfix Hd. destruct (drain_is_schedule c n (run c sched)) as [A B].
  exists (fst (drain c n (run c sched))). split; [exact B|]. cbn zeta. rewrite run_app, <- A.
  set (s' := snd (drain c n (run c sched))) in *.
  assert (Es : s' = run c (sched ++ fst (drain c n (run c sched)))) by (rewrite run_app, <- A; reflexivity).
  unfold completed in Hd. destruct (g_panic s') eqn:Hp; [discriminate|]. apply andb_true_iff in Hd as [Hi Hc]. apply Z.eqb_eq in Hi.
  split; [reflexivity|]. split; [exact Hi|]. split; [exact Hc|].
  destruct (close_order c Hfix (sched ++ fst (drain c n (run c sched)))) as (_ & CW & WT). rewrite <- Es in CW, WT.
  pose proof (CW Hc) as W. destruct (WT W) as (_ & T & _). split; [exact W|]. split; [exact T|].
  intros i. pose proof (conservation c Hfix (sched ++ fst (drain c n (run c sched))) i) as C. rewrite <- Es in C.
  pose proof (total_nonneg (idw i) s' (idw_nonneg i)) as T0. pose proof (total_le (idw i) f1 (idw_le_f1 i) s') as L.
  unfold tokens in *. split; lia.
Qed.

(* ---------------------------------------------------------------- a candidate bound, and instances *)

(* A candidate for the measure: every held token needs at most a fixed number of owner steps per retry level.
   It is used as the fuel of the checks below (so those instances do satisfy `length k <= mu`); it is NOT proved
   to bound the drain in general. *)
Definition mu (c : cfg) (s : state) : nat :=
  (20 * (2 + c_retry_max c) * (4 + Z.to_nat (total f1 s) + length (g_bps s) + length (g_pps s) + length (g_rbs s)))%nat.

Definition can_complete_now (c : cfg) (s : state) : bool := completed (snd (drain c (mu c s) s)).

Corollary can_complete_instance c sched : c_fix_rb c = true -> can_complete_now c (run c sched) = true ->
  exists k, (length k <= mu c (run c sched))%nat /\
    let s' := run c (sched ++ k) in
    g_panic s' = None /\ g_inflight s' = 0 /\ g_closed s' = true /\ g_woken s' = true /\ total f1 s' = 0 /\
    (forall i, tokens i s' = 0 /\ outcomes i s' = submissions i s').
Proof. intros Hfix H. apply can_complete_check; assumption. Qed.

(* every prefix of a schedule leaves a state that can complete *)
Definition prefixes_can_complete (c : cfg) (sched : list choice) : bool :=
  forallb (fun j => can_complete_now c (run c (firstn j sched))) (seq 0 (S (length sched))).

(* a hostile cluster: every request is answered NotLeaderForPartition for all its partitions *)
Definition bad_answer (sent : pset) : resp := RBlocks (map (fun kl => (fst kl, (6, 0))) (s_parts sent)).
(* submissions, then j steps of the canonical scheduler against the hostile cluster *)
Definition hostile (c : cfg) (subs : list choice) (j : nat) : list choice :=
  subs ++ fst (drain_env c bad_answer j (run c subs)).
(* ... or every request fails on the connection (the broker worker is abandoned and replaced) *)
Definition broken (c : cfg) (subs : list choice) (j : nat) : list choice :=
  subs ++ fst (drain_env c (fun _ => RErr 7 false) j (run c subs)).

Definition ex_msg_p (i p : Z) : msg := mkMsg i 0 0 0%nat 0 50 false p false 0 0 false [false; false].
Definition subs4 : list choice := [CSubmit (ex_msg_p 1 0); CSubmit (ex_msg_p 2 1); CSubmit (ex_msg_p 3 0); CSubmit (ex_msg_p 4 1)].
(* plain, Retry.Max = 3, flush timer, no thresholds *)
Definition cfg_timer : cfg := mkCfg 3%nat false true 1000000 104847360 0 0 true 0 [mkIc true 5] true true.
(* idempotent, Retry.Max = 2, Flush.Messages = 2 with a timer *)
Definition cfg_idem2 : cfg := mkCfg 2%nat true true 1000000 104847360 2 0 true 0 [] true true.

Example examples_can_complete :
  prefixes_can_complete (cfg_idem true) sched_retrybatch = true /\
  prefixes_can_complete (cfg_ic true) sched_interceptor_retry = true /\
  prefixes_can_complete (cfg_ic true) sched_close = true.
Proof. vm_compute. repeat split; reflexivity. Qed.

(* after ANY number j <= 120 of steps against the hostile cluster (retry levels 1..Retry.Max with their fin/syn
   chasers in every position, retryBatch goroutines, exhausted retries) the good environment completes within mu *)
Example hostile_can_complete :
  forallb (fun j => can_complete_now cfg_timer (run cfg_timer (hostile cfg_timer subs4 j))) (seq 0 121) = true /\
  forallb (fun j => can_complete_now (cfg_ic true) (run (cfg_ic true) (hostile (cfg_ic true) subs4 j))) (seq 0 121) = true /\
  forallb (fun j => can_complete_now cfg_idem2 (run cfg_idem2 (hostile cfg_idem2 subs4 j))) (seq 0 121) = true.
Proof. vm_compute. repeat split; reflexivity. Qed.

(* the same against failing connections (closing broker workers, abandoned and re-created instances) *)
Example broken_can_complete :
  forallb (fun j => can_complete_now cfg_timer (run cfg_timer (broken cfg_timer subs4 j))) (seq 0 121) = true /\
  forallb (fun j => can_complete_now (cfg_ic true) (run (cfg_ic true) (broken (cfg_ic true) subs4 j))) (seq 0 121) = true /\
  forallb (fun j => can_complete_now cfg_idem2 (run cfg_idem2 (broken cfg_idem2 subs4 j))) (seq 0 121) = true.
Proof. vm_compute. repeat split; reflexivity. Qed.

(* ---------------------------------------------------------------- random interleavings and environments *)

(* Everything some actor or the environment could do in s (not just the canonical first choice): the owner of
   every non-empty queue, every broker-worker / bridge / connection move with good AND bad answers, failing
   leader lookups, retryBatch with either lookup result, further submissions, AsyncClose, shutdown. *)
Definition queue_menu (c : cfg) (s : state) : list choice :=
  flat_map (fun dl => match snd dl with
                      | [] => []
                      | _ :: _ => match fst dl with
                                  | DPart t p => [CPp t p (good_lookups c); CPp t p [LFail 5; LOk 2; LOk 1; LOk 2]; CPp t p [LOk 2; LOk 1; LOk 2; LOk 1]]
                                  | d => match queue_choice c s d with Some ch => [ch] | None => [] end
                                  end
                      end) (g_q s).
Definition bp_menu (s : state) (b : nat) (x : bpi) : list choice :=
  (match i_resp x with _ :: _ => [CBpResp b] | [] => [] end) ++
  (match i_infl x with Some sent => [CAnswer b (good_answer sent); CAnswer b (bad_answer sent); CAnswer b (RErr 7 false); CAnswer b (RBlocks [])] | None => [] end) ++
  (match i_infl x, i_bridge x with None, _ :: _ => [CBridge b] | _, _ => [] end) ++
  (if flush_enabled (i_st x) && negb (set_empty (b_buf (i_st x)) && flush_poll (i_st x)) then [CBpFlush b] else []) ++
  (if b_timer (i_st x) && flush_poll (i_st x) && negb (b_fired (i_st x)) then [CBpTimer b] else []) ++
  (if i_in_closed x && flush_poll (i_st x) then match q_get (DBp b) (g_q s) with [] => [CBpRecv b] | _ => [] end else []).
Fixpoint bps_menu (s : state) (l : list bpi) (b : nat) : list choice :=
  match l with [] => [] | x :: r => bp_menu s b x ++ bps_menu s r (S b) end.
Definition menu (c : cfg) (nsub : nat) (s : state) : list choice :=
  queue_menu c s ++ bps_menu s (g_bps s) 0%nat ++
  (match g_rbs s with _ :: _ => [CRb 0 (LOk 1); CRb 0 (LFail 5); CRb 0 (LOk 2)] | [] => [] end) ++
  (if negb (g_close_req s) && (length (g_submitted s) <? nsub)%nat
   then [CSubmit (ex_msg_p (Z.of_nat (S (length (g_submitted s)))) (Z.of_nat (length (g_submitted s) mod 2)))] else []) ++
  (if negb (g_close_req s) && (nsub <=? length (g_submitted s))%nat then [CAsyncClose] else []) ++
  (if g_close_req s && negb (g_woken s) && (g_inflight s =? 0) then [CShutWake] else []) ++
  (if g_woken s && negb (g_closed s) then [CShutClose] else []).

Definition lcg (x : Z) : Z := (x * 1103515245 + 12345) mod 2147483648.

(* a pseudo-random walk of at most n steps; returns (all visited states can complete, no panic met, steps taken) *)
Fixpoint walk (c : cfg) (nsub n : nat) (rng : Z) (s : state) : bool * bool * nat :=
  match n with
  | O => (can_complete_now c s, match g_panic s with None => true | Some _ => false end, O)
  | S n' =>
      match g_panic s with
      | Some _ => (true, false, O)
      | None =>
        if can_complete_now c s then
          match menu c nsub s with
          | [] => (true, true, O)
          | ch0 :: r =>
              let ch := nth (Z.to_nat ((rng / 65536) mod Z.of_nat (S (length r)))) (ch0 :: r) ch0 in
              let '(a, b, k) := walk c nsub n' (lcg rng) (step c s ch) in (a, b, S k)
          end
        else (false, true, O)
      end
  end.

Definition cfg_r0 : cfg := mkCfg 0%nat false true 1000000 104847360 3 0 true 2 [] true true.
Definition walks_ok (c : cfg) (nsub n : nat) (seeds : nat) : bool :=
  forallb (fun sd => let '(a, b, _) := walk c nsub n (Z.of_nat sd * 7919 + 1) init in a && b) (seq 0 seeds).

(* 4 x 100 pseudo-random walks (arbitrary interleavings of every enabled actor, good and bad answers, failing
   connections, failing and moving leader lookups, 6 submissions over 2 partitions and up to 3 broker workers,
   then AsyncClose): no panic is met and EVERY visited state can complete within mu.  (Before the repair
   fixes/c01_newhwm_nil_broker_producer.patch was modelled, this check is what found the nil-broker-worker
   panic of newHighWatermark: a visited state from which the good environment ran into panic 111.) *)
Example walks_can_complete :
  walks_ok cfg_timer 6 400 100 = true /\ walks_ok cfg_idem2 6 400 100 = true /\
  walks_ok (cfg_ic true) 6 400 100 = true /\ walks_ok cfg_r0 6 400 100 = true.
Proof. vm_compute. repeat split; reflexivity. Qed.
