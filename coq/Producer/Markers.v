(* Producer proofs, part 9: markers stay out of the broker side.  With fixes/c04_fin_not_buffered.patch a broker
   worker bounces a fin it is not refusing, so everything a broker worker holds (buffer, the message parked in
   waitForSpace, sets on the bridge / in flight / answered) and every retryBatch task consists of application
   messages only -- for every configuration, idempotent included.  Also: every message anywhere carries one of the
   four flag values, and a shutdown-flagged message exists only in the dispatcher's input. *)
From Coq Require Import List ZArith Bool Arith Lia.
From SV Require Import Producer.Msg Producer.Actors Producer.Compose Producer.Weights Producer.Local Producer.Global
                       Producer.Shape Producer.Conservation Producer.Shutdown.
Import ListNotations.
Open Scope Z_scope.

(* ---------------------------------------------------------------- the weights *)

Definition fnd (m : msg) : Z := if is_data m then 0 else 1.                 (* not an application message *)
Definition wf_flags (m : msg) : bool :=
  (m_flags m =? F_DATA) || (m_flags m =? F_SYN) || (m_flags m =? F_FIN) || (m_flags m =? F_SHUT).
Definition fwf (m : msg) : Z := if wf_flags m then 0 else 1.

Lemma fnd_okw : okw fnd.
Proof. split; [intros m m' _ H; unfold fnd, is_data; rewrite H; reflexivity|intros m; unfold fnd; destruct (is_data m); lia]. Qed.
Lemma fwf_okw : okw fwf.
Proof. split; [intros m m' _ H; unfold fwf, wf_flags; rewrite H; reflexivity|intros m; unfold fwf; destruct (wf_flags m); lia]. Qed.
Lemma fwf_marker_free : marker_free fwf.
Proof. intros m _ [H|H]; unfold fwf, wf_flags; rewrite H; reflexivity. Qed.

(* a well-formed message that is none of syn / fin / shutdown is an application message *)
Lemma wf_cases m : wf_flags m = true -> is_syn m = false -> is_fin m = false -> is_shut m = false -> is_data m = true.
Proof.
  unfold wf_flags, is_syn, is_fin, is_shut, is_data, F_DATA, F_SYN, F_FIN, F_SHUT. intros H.
  repeat (apply orb_true_iff in H as [H|H]); apply Z.eqb_eq in H; rewrite H; cbn; intros; try reflexivity; discriminate.
Qed.

(* ---------------------------------------------------------------- the submitted list *)

Lemma submitted_step c s ch :
  g_submitted (step c s ch) = g_submitted s \/ exists m, g_submitted (step c s ch) = g_submitted s ++ [fresh_of m].
Proof.
  unfold step. destruct (g_panic s); [left; reflexivity|].
  destruct (g_panic (raw_step c s ch)) eqn:Hp; [left; reflexivity|].
  destruct (is_actor ch) eqn:Ea.
  { destruct (actor_vsame c s ch Ea Hp) as [extra (_ & _ & _ & (_ & V & _))]. left. exact V. }
  destruct ch; try discriminate; cbn [raw_step] in *.
  - destruct (g_close_req s); [left; reflexivity|]. right. exists m. reflexivity.
  - destruct (g_close_req s); left; reflexivity.
  - destruct (pop DDisp s) as [[m s1]|] eqn:Ep; [|left; reflexivity].
    pose proof (pop_ctl _ _ _ _ Ep) as (_ & C2 & _).
    destruct (disp_step c (g_disp s1) m) as [d' effs].
    destruct (apply_effs_spec c WOther effs _ Hp) as (_ & _ & _ & (_ & V & _)). left. rewrite V. exact C2.
  - destruct (pop DRetry s) as [[m s1]|] eqn:Ep; [|left; reflexivity].
    pose proof (pop_ctl _ _ _ _ Ep) as (_ & C2 & _). left. exact C2.
  - destruct (g_close_req s && negb (g_woken s) && (g_inflight s =? 0)); left; reflexivity.
  - destruct (g_woken s && negb (g_closed s)); left; reflexivity.
Qed.

Lemma submitted_weight c f : (forall m, f (fresh_of m) = 0) -> forall sched, wsum f (g_submitted (run c sched)) = 0.
Proof.
  intros Hf sched. unfold run.
  assert (G : forall l s, wsum f (g_submitted s) = 0 -> wsum f (g_submitted (fold_left (step c) l s)) = 0).
  { induction l as [|ch l IH]; intros s H; [exact H|]. cbn [fold_left]. apply IH.
    destruct (submitted_step c s ch) as [E|[m E]]; rewrite E; [exact H|]. rewrite wsum_app, H. cbn. rewrite Hf. reflexivity. }
  apply G. reflexivity.
Qed.

(* ---------------------------------------------------------------- every message is well-formed *)

Lemma cons_nonincreasing c f : c_fix_rb c = true -> okw f -> marker_free f -> f (shutdown_marker c) = 0 ->
  forall sched, cons_q f (run c sched) <= 0.
Proof.
  intros Hfix Hw Hm H0 sched. unfold run.
  assert (G : forall l s, cons_q f s <= 0 -> cons_q f (fold_left (step c) l s) <= 0).
  { induction l as [|ch l IH]; intros s H; [exact H|]. cbn [fold_left]. apply IH.
    destruct (step_delta c s ch Hfix) as [A _]. destruct (A f Hw) as (k & n & [K _] & [_ N] & _ & E). rewrite E, (N Hm).
    destruct (g_panic s); [lia|]. destruct (g_panic (raw_step c s ch)); [lia|].
    destruct ch; cbn [close_term]; try lia. destruct (g_close_req s); lia. }
  apply G. cbn. lia.
Qed.

Theorem all_wf c : c_fix_rb c = true -> forall sched,
  total fwf (run c sched) = 0 /\ evs_w fwf (g_events (run c sched)) = 0.
Proof.
  intros Hfix sched.
  pose proof (cons_nonincreasing c fwf Hfix fwf_okw fwf_marker_free eq_refl sched) as C. unfold cons_q in C.
  rewrite (submitted_weight c fwf (fun m => eq_refl) sched) in C.
  pose proof (total_nonneg fwf (run c sched) (proj2 fwf_okw)). pose proof (evs_w_nonneg fwf (g_events (run c sched)) (proj2 fwf_okw)). lia.
Qed.

(* ---------------------------------------------------------------- shutdown-flagged messages live in DDisp only *)

Lemma q_two f d1 d2 q : nonneg f -> dest_eqb d1 d2 = false -> wsum f (q_get d1 q) + wsum f (q_get d2 q) <= q_w f q.
Proof.
  intros Hn Hd. induction q as [|[d' l] r IH]; cbn [q_get q_w]; [cbn; lia|]. pose proof (wsum_nonneg f l Hn).
  pose proof (q_w_ge_get f d1 r Hn). pose proof (q_w_ge_get f d2 r Hn).
  destruct (dest_eqb d1 d') eqn:E1; destruct (dest_eqb d2 d') eqn:E2; try lia.
  apply dest_eqb_true in E1, E2. subst. rewrite dest_eqb_refl in Hd. discriminate.
Qed.

Lemma shut_only_in_disp s : kinv s -> total gsh s = wsum gsh (qd s).
Proof.
  intros K. pose proof (shut_budget s K) as B. pose proof (total_ge_queue gsh DDisp s (proj2 gsh_okw)) as T. fold (qd s) in T.
  pose proof (gsh_nonneg_l (qd s)) as G. pose proof (cnt_shut0_le_gsh (qd s)) as S.
  destruct (g_close_req s) eqn:Er; destruct (d_shut (g_disp s)) eqn:Ed; try lia.
  pose proof (k5 s K Er Ed). lia.
Qed.
Lemma no_shut_elsewhere s d m r : kinv s -> dest_eqb d DDisp = false -> q_get d (g_q s) = m :: r -> is_shut m = false.
Proof.
  intros K Hd Hq. pose proof (shut_only_in_disp s K) as E. unfold qd in E.
  pose proof (q_two gsh d DDisp (g_q s) (proj2 gsh_okw) Hd) as Q. rewrite Hq, wsum_cons in Q.
  pose proof (gsh_nonneg_l r).
  assert (T : q_w gsh (g_q s) <= total gsh s).
  { pose proof (total_nonneg gsh (set_q s []) (proj2 gsh_okw)) as T0. unfold total in *. cbn in T0. lia. }
  unfold gsh at 1 in Q. destruct (is_shut m); [lia|reflexivity].
Qed.

(* ---------------------------------------------------------------- the broker side of the measure *)

Definition bside (f : msg -> Z) (s : state) : Z := bps_w f (g_bps s) + rbs_w f (g_rbs s).
Definition qp (f : msg -> Z) (s : state) : Z := q_w f (g_q s) + pps_w f (g_pps s).
Lemma total_split f s : total f s = qp f s + bside f s.
Proof. unfold total, qp, bside. lia. Qed.

Definition eff_placeB (f : msg -> Z) (e : effect) : Z :=
  match e with EBridge st | ERbSend _ st => set_w f st | ESpawnRB _ ms _ => wsum f ms | _ => 0 end.
Definition eff_placeQ (f : msg -> Z) (e : effect) : Z := match e with ESend _ m => f m | _ => 0 end.
Lemma eff_place_split f e : eff_place f e = eff_placeB f e + eff_placeQ f e.
Proof. destruct e; cbn; lia. Qed.

Lemma apply_eff_qp f c w s e : g_panic (apply_eff c w s e) = None ->
  qp f (apply_eff c w s e) = qp f s + eff_placeQ f e.
Proof.
  unfold qp. destruct e; cbn [apply_eff eff_placeQ].
  - (* ESend *) destruct d; try (intros _; cbn [set_q g_q g_pps]; rewrite q_w_push; lia).
    destruct (handle_of s w); [|discriminate]. destruct (nth_error (g_bps s) n); [|discriminate].
    destruct (i_in_closed b); [discriminate|]. intros _. cbn [set_q g_q g_pps]. rewrite q_w_push. lia.
  - unfold emit. destruct (g_closed s); destruct (m_hasseq m); try (cbn; discriminate); intros _; cbn; lia.
  - unfold emit. destruct (g_closed s); [cbn; discriminate|]. intros _. cbn. lia.
  - unfold emit. destruct (g_closed s); [cbn; discriminate|]. intros _. cbn. lia.
  - intros _. cbn. lia.
  - intros _. cbn. lia.
  - intros _. cbn. lia.
  - intros _. cbn. lia.
  - intros _. cbn. lia.
  - (* EUnref *) intros _. destruct (handle_of s w) as [b|]; [|lia].
    destruct (set_handle_frame (set_bps s (bp_upd b bi_unref (g_bps s))) w None) as (X1 & _).
    rewrite X1, pps_w_set_handle. cbn. lia.
  - (* EGet *) intros _. destruct (get_bp s broker) as [s1 b] eqn:E.
    destruct (get_bp_spec f s broker s1 b E) as (_ & _ & Hq & Hp & _).
    destruct (set_handle_frame s1 w (Some b)) as (X1 & _). rewrite X1, pps_w_set_handle, Hq, Hp. lia.
  - intros _. destruct (find_reg broker (g_bps s) 0%nat); cbn; lia.
  - destruct w; try discriminate. destruct (nth_error (g_bps s) b); [|discriminate]. intros _. cbn. lia.
  - intros _. cbn. lia.
  - intros _. destruct (get_bp s broker) as [s1 b] eqn:E.
    destruct (get_bp_spec f s broker s1 b E) as (_ & _ & Hq & Hp & _). cbn. rewrite Hq, Hp. lia.
  - intros _. lia.
  - cbn. discriminate.
Qed.

Lemma apply_effs_bside f c w l : forall s, g_panic (apply_effs c w s l) = None ->
  bside f (apply_effs c w s l) = bside f s + esum (eff_placeB f) l.
Proof.
  induction l as [|e l IH]; intros s H; [cbn; lia|].
  cbn [apply_effs fold_left] in *. fold (apply_effs c w (apply_eff c w s e) l) in *.
  assert (Hp : g_panic (apply_eff c w s e) = None).
  { destruct (g_panic (apply_eff c w s e)) eqn:E; [|reflexivity].
    exfalso. apply (apply_effs_sticky c w l (apply_eff c w s e)); [rewrite E; discriminate|exact H]. }
  rewrite (IH _ H), esum_cons.
  destruct (apply_eff_spec f c w s e Hp) as (T & _). pose proof (apply_eff_qp f c w s e Hp) as Q.
  rewrite !total_split in T. rewrite eff_place_split in T. lia.
Qed.

(* only broker workers and retryBatch goroutines put anything on the broker side *)
Definition nob (l : list effect) : bool :=
  forallb (fun e => match e with EBridge _ | ERbSend _ _ | ESpawnRB _ _ _ => false | _ => true end) l.
Lemma nob_app a b : nob (a ++ b) = nob a && nob b. Proof. apply forallb_app. Qed.
Lemma nob_sum f l : nob l = true -> esum (eff_placeB f) l = 0.
Proof.
  induction l as [|e l IH]; [reflexivity|]. cbn [nob forallb]. intros H. apply andb_true_iff in H as [H1 H2].
  rewrite esum_cons, (IH H2). destruct e; try reflexivity; discriminate.
Qed.
Lemma nob_return_errors l e : nob (return_errors l e) = true.
Proof. unfold return_errors. induction l; simpl; auto. Qed.
Lemma nob_sends d l : nob (map (ESend d) l) = true.
Proof. induction l; simpl; auto. Qed.

Lemma nob_disp c d m : nob (snd (disp_step c d m)) = true.
Proof.
  assert (IC : forall id k ics pan sz h, nob (snd (apply_ics id k ics pan sz h)) = true).
  { intros id k ics. revert k. induction ics as [|ic r IH]; intros; [reflexivity|]. cbn [apply_ics].
    match goal with |- context [apply_ics id (S k) r ?a ?b ?d] => specialize (IH (S k) a b d); destruct (apply_ics id (S k) r a b d) as [res effs] end.
    cbn [snd] in *. cbn [nob forallb]. exact IH. }
  unfold disp_step. destruct (is_shut m); [reflexivity|]. destruct (fresh_pass m && d_shut d); [reflexivity|].
  assert (P : nob (if fresh_pass m then [EAccept m] else []) = true) by (destruct (fresh_pass m); reflexivity).
  set (doic := if c_fix_ic c then fresh_pass m && is_data m else true). destruct doic.
  - pose proof (IC (m_id m) 0%nat (c_ics c) (m_ipanic m) (m_size m) (m_hdr m)) as H1.
    destruct (apply_ics _ _ _ _ _ _) as [[sz h] ics]. cbn [snd] in *.
    destruct (negb (c_v2 c) && h); [|destruct (c_max_msg_bytes c <? sz)]; cbn [snd]; rewrite !nob_app, P, H1; reflexivity.
  - destruct (negb (c_v2 c) && m_hdr m); [|destruct (c_max_msg_bytes c <? m_size m)]; cbn [snd]; rewrite !nob_app, P; reflexivity.
Qed.
Lemma nob_tp m : nob (tp_step m) = true.
Proof. unfold tp_step. destruct (fresh_pass m); [destruct (0 <=? m_pres m)|]; reflexivity. Qed.

Lemma nob_flush_sends c t p : forall buf sq ep, nob (fst (flush_sends c t p sq ep buf)) = true.
Proof.
  induction buf as [|m r IH]; intros; [reflexivity|]. cbn [flush_sends].
  destruct (c_idem c && fresh_pass m && is_data m && negb (m_hasseq m)).
  - specialize (IH (sq + 1) ep). destruct (flush_sends c t p (sq + 1) ep r) as [e sq']. cbn [fst] in *. cbn [nob forallb]. exact IH.
  - specialize (IH sq ep). destruct (flush_sends c t p sq ep r) as [e sq']. cbn [fst] in *. cbn [nob forallb]. exact IH.
Qed.
Lemma nob_flush c t p : forall h hasbp leader lv stamp ls, nob (snd (flush c t p h hasbp leader lv stamp ls)) = true.
Proof.
  induction h as [|h' IH]; intros; [reflexivity|]. cbn [flush].
  pose proof (nob_flush_sends c t p (l_buf (get_level h' lv)) (fst stamp) (snd stamp)) as FS.
  destruct (flush_sends c t p (fst stamp) (snd stamp) (l_buf (get_level h' lv))) as [fe sq']. cbn [fst] in FS.
  destruct hasbp.
  - destruct (l_chaser (get_level h' lv) || (h' =? 0)%nat); cbn [snd]; [exact FS|].
    specialize (IH true leader (set_buf h' [] lv) (sq', snd stamp) ls). destruct (flush c t p h' true leader _ _ ls) as [res e2].
    cbn [snd] in *. rewrite nob_app, FS, IH. reflexivity.
  - destruct (next_lres ls) as [[b|e] r].
    + destruct (l_chaser (get_level h' lv) || (h' =? 0)%nat); cbn [snd]; [rewrite nob_app, FS; reflexivity|].
      specialize (IH true b (set_buf h' [] lv) (sq', snd stamp) r). destruct (flush c t p h' true b _ _ r) as [res e2].
      cbn [snd] in *. rewrite !nob_app, FS, IH. reflexivity.
    + destruct (l_chaser (get_level h' lv) || (h' =? 0)%nat); cbn [snd]; [apply nob_return_errors|].
      match goal with |- context [flush c t p h' false leader (set_buf h' [] lv) ?sx r] => specialize (IH false leader (set_buf h' [] lv) sx r) end. destruct (flush c t p h' false leader _ _ r) as [res e2].
      cbn [snd] in *. rewrite nob_app, nob_return_errors, IH. reflexivity.
Qed.
Lemma nob_pp_forward c t p st m stamp ls pre : nob pre = true -> nob (snd (pp_forward c t p st m stamp ls pre)) = true.
Proof.
  intros Hp. unfold pp_forward. destruct (p_has_bp st).
  - destruct (c_idem c && fresh_pass m && is_data m); cbn [snd]; rewrite !nob_app, Hp; reflexivity.
  - destruct (next_lres ls) as [[b|e] r].
    + destruct (c_idem c && fresh_pass m && is_data m); cbn [snd]; rewrite !nob_app, Hp; reflexivity.
    + cbn [snd]. rewrite nob_app, Hp. reflexivity.
Qed.
Lemma nob_pp c t p st m ab stamp ls : nob (snd (pp_step c t p st m ab stamp ls)) = true.
Proof.
  unfold pp_step.
  set (e1 := if p_has_bp st && ab then [EUnref] else []).
  assert (He1 : nob e1 = true) by (subst e1; destruct (p_has_bp st && ab); reflexivity).
  set (st1 := if p_has_bp st && ab then _ else st).
  destruct (p_hwm st1 <? m_retries m)%nat.
  - assert (HG : match pp_guard c t p st1 ls with inl (stg, eg, ls1) => nob eg = true | inr _ => True end).
    { unfold pp_guard. destruct (p_has_bp st1); [reflexivity|]. destruct (next_lres ls) as [[b|e] r]; [reflexivity|exact I]. }
    destruct (pp_guard c t p st1 ls) as [[[stg eg] ls1]|e].
    + destruct (c_retry_max c <? m_retries m)%nat; [cbn [snd]; rewrite !nob_app, He1, HG; reflexivity|].
      apply nob_pp_forward. rewrite !nob_app, He1, HG. reflexivity.
    + cbn [snd]. rewrite nob_app, He1. reflexivity.
  - destruct (0 <? p_hwm st1)%nat; [|apply nob_pp_forward, He1].
    destruct (m_retries m <? p_hwm st1)%nat.
    + destruct (length (p_levels st1) <=? m_retries m)%nat; [cbn [snd]; rewrite nob_app, He1; reflexivity|].
      destruct (is_fin m); cbn [snd]; [rewrite nob_app, He1; reflexivity|exact He1].
    + destruct (is_fin m); [|apply nob_pp_forward, He1].
      pose proof (nob_flush c t p (p_hwm st1) (p_has_bp st1) (p_leader st1) (set_chaser (p_hwm st1) false (p_levels st1)) stamp ls) as Hfl.
      destruct (flush c t p (p_hwm st1) (p_has_bp st1) (p_leader st1) _ stamp ls) as [[[[h' hasbp] leader] lv'] effs].
      cbn [snd] in *. rewrite !nob_app, He1, Hfl. reflexivity.
Qed.
Lemma nob_pp_init c t p l : nob (snd (pp_init c t p l)) = true.
Proof. destruct l; reflexivity. Qed.

(* ---------------------------------------------------------------- what leaves the broker side in a step *)

Definition eff_leave (f : msg -> Z) (e : effect) : Z := eff_placeQ f e + eff_event f e + eff_sink f e.
Lemma eff_net_leave f e : eff_net f e = eff_placeB f e + eff_leave f e - eff_new f e.
Proof. unfold eff_net, eff_leave. rewrite eff_pe_split, eff_place_split. lia. Qed.
Lemma esum_net_leave f l : esum (eff_net f) l = esum (eff_placeB f) l + esum (eff_leave f) l - esum (eff_new f) l.
Proof. induction l as [|e l IH]; [reflexivity|]. rewrite !esum_cons, IH, eff_net_leave. lia. Qed.
Lemma leave_nonneg f l : nonneg f -> 0 <= esum (eff_leave f) l.
Proof.
  intros H. induction l as [|e l IH]; [cbn; lia|]. rewrite esum_cons.
  assert (0 <= eff_leave f e); [|lia]. unfold eff_leave. destruct e; cbn; try lia; specialize (H m); lia.
Qed.
Lemma placeB_nonneg f l : nonneg f -> 0 <= esum (eff_placeB f) l.
Proof.
  intros H. induction l as [|e l IH]; [cbn; lia|]. rewrite esum_cons.
  assert (0 <= eff_placeB f e); [|lia]. destruct e; cbn [eff_placeB]; try lia; try (apply parts_w_nonneg, H). apply wsum_nonneg, H.
Qed.

Lemma bside_set_bps f s b g x : nth_error (g_bps s) b = Some x ->
  bside f (set_bps s (bp_upd b g (g_bps s))) = bside f s - bpi_w f x + bpi_w f (g x).
Proof. intros H. unfold bside. cbn [set_bps g_bps g_rbs]. rewrite (bps_w_upd f _ _ _ _ H). lia. Qed.

Lemma run_bp_bside f c s b x i : stable f -> nth_error (g_bps s) b = Some x -> g_panic (run_bp c s b x i) = None ->
  bside f (run_bp c s b x i) = bside f s + in_w f i - esum (eff_leave f) (snd (bp_step c (g_epoch s) (i_st x) i)).
Proof.
  intros Hf Hx. unfold run_bp.
  pose proof (bp_balance f c (g_epoch s) (i_st x) i Hf) as Bal.
  pose proof (nn_bp c (g_epoch s) (i_st x) i) as NN.
  destruct (bp_step c (g_epoch s) (i_st x) i) as [st' effs]. cbn [fst snd] in *.
  intros Hp. specialize (Bal (no_crash_of_no_panic _ _ _ _ Hp)).
  rewrite (apply_effs_bside f c (WBp b) effs _ Hp), (bside_set_bps f s b _ x Hx).
  rewrite esum_net_leave, (no_new_sum f effs NN) in Bal. unfold bpi_w. cbn [bi_with_st i_st i_bridge i_infl i_resp]. lia.
Qed.

(* a received message that is not an application message leaves at once (syn consumed, fin bounced; there is no
   third kind: well-formed flags, and shutdown-flagged messages never come this far) *)
Lemma bp_input_leaves c ep st m : wf_flags m = true -> is_shut m = false ->
  has_crash (snd (bp_step c ep st (BRecv m))) = false ->
  fnd m <= esum (eff_leave fnd) (snd (bp_step c ep st (BRecv m))).
Proof.
  intros Hw Hs. pose proof (leave_nonneg fnd (snd (bp_step c ep st (BRecv m))) (proj2 fnd_okw)) as N.
  destruct (is_data m) eqn:Ed; [unfold fnd; rewrite Ed; intros _; exact N|].
  assert (F1 : fnd m = 1) by (unfold fnd; rewrite Ed; reflexivity).
  assert (RM : forall e, esum (eff_leave fnd) [retry_msg c m e] = 1).
  { intros e. unfold retry_msg. destruct (c_retry_max c <=? m_retries m)%nat; cbn; unfold eff_leave; cbn;
      rewrite ?(stable_set_retries fnd m _ (proj1 fnd_okw)), F1; reflexivity. }
  unfold bp_step in *.
  assert (HX : has_crash (snd (fst (bp_core c ep st (BRecv m)))) = false -> 1 <= esum (eff_leave fnd) (snd (fst (bp_core c ep st (BRecv m)))));
    [|destruct (bp_core c ep st (BRecv m)) as [[st' effs] upd]; cbn [fst snd] in *; rewrite F1; exact HX].
  unfold bp_core. destruct (b_mode st); try (cbn; discriminate). destruct (b_wait st); try (cbn; discriminate). intros _.
  destruct (is_syn m) eqn:Esy; [cbn [fst snd]; cbn; unfold eff_leave; cbn; rewrite F1; lia|].
  destruct (needs_retry st m); [cbn [fst snd]; rewrite RM; lia|].
  destruct (is_fin m) eqn:Ef; [cbn [fst snd]; rewrite RM; lia|].
  rewrite (wf_cases m Hw Esy Ef Hs) in Ed. discriminate.
Qed.

(* ---------------------------------------------------------------- the invariant *)

Lemma fnd_zero_data l : wsum fnd l = 0 -> forall m, In m l -> is_data m = true.
Proof.
  induction l as [|x l IH]; intros H m Hin; [destruct Hin|]. rewrite wsum_cons in H.
  pose proof (wsum_nonneg fnd l (proj2 fnd_okw)). assert (0 <= fnd x) by apply fnd_okw.
  destruct Hin as [<-|Hin]; [|apply IH; [lia|exact Hin]].
  unfold fnd in *. destruct (is_data x); [reflexivity|lia].
Qed.
Lemma fwf_zero_wf l : wsum fwf l = 0 -> forall m, In m l -> wf_flags m = true.
Proof.
  induction l as [|x l IH]; intros H m Hin; [destruct Hin|]. rewrite wsum_cons in H.
  pose proof (wsum_nonneg fwf l (proj2 fwf_okw)). assert (0 <= fwf x) by apply fwf_okw.
  destruct Hin as [<-|Hin]; [|apply IH; [lia|exact Hin]].
  unfold fwf in *. destruct (wf_flags x); [reflexivity|lia].
Qed.

Lemma bside_raw c s ch : c_fix_rb c = true -> kinv s -> total fwf s = 0 -> bside fnd s = 0 ->
  g_panic (raw_step c s ch) = None -> bside fnd (raw_step c s ch) = 0.
Proof.
  intros Hfix K Wf B0.
  assert (NN : forall s', 0 <= bside fnd s').
  { intros s'. unfold bside. pose proof (bps_w_nonneg fnd (g_bps s') (proj2 fnd_okw)).
    assert (0 <= rbs_w fnd (g_rbs s')) by (induction (g_rbs s') as [|y r IH]; simpl; [lia|]; pose proof (wsum_nonneg fnd (rb_ms y) (proj2 fnd_okw)); lia). lia. }
  assert (Eff : forall w s0 l, nob l = true -> bside fnd s0 = 0 -> g_panic (apply_effs c w s0 l) = None -> bside fnd (apply_effs c w s0 l) = 0).
  { intros w s0 l Hn H0 Hp. rewrite (apply_effs_bside fnd c w l s0 Hp), (nob_sum fnd l Hn). lia. }
  assert (PopB : forall d m s1, pop d s = Some (m, s1) -> bside fnd s1 = 0 /\ g_bps s1 = g_bps s).
  { intros d m s1 Ep. destruct (pop_spec _ _ _ _ Ep) as (_ & _ & _ & _ & _ & _ & Hb & Hr & _). unfold bside. rewrite Hb, Hr. split; [exact B0|reflexivity]. }
  assert (BP : forall s0 b x i, g_bps s0 = g_bps s -> bside fnd s0 = bside fnd s - in_w fnd i + (match i with BRecv m => fnd m | _ => 0 end) ->
             nth_error (g_bps s0) b = Some x ->
             (forall m, i = BRecv m -> wf_flags m = true /\ is_shut m = false) ->
             g_panic (run_bp c s0 b x i) = None -> bside fnd (run_bp c s0 b x i) = 0).
  { intros s0 b x i _ Hb Hx Hm Hp. pose proof (run_bp_bside fnd c s0 b x i (proj1 fnd_okw) Hx Hp) as E.
    pose proof (leave_nonneg fnd (snd (bp_step c (g_epoch s0) (i_st x) i)) (proj2 fnd_okw)) as L.
    pose proof (NN (run_bp c s0 b x i)) as N0.
    destruct i as [m| | | |sent r]; cbn [in_w] in *; try lia.
    destruct (Hm m eq_refl) as [W S].
    assert (Hc : has_crash (snd (bp_step c (g_epoch s0) (i_st x) (BRecv m))) = false).
    { unfold run_bp in Hp. destruct (bp_step c (g_epoch s0) (i_st x) (BRecv m)) as [st' effs]. cbn [snd]. eapply no_crash_of_no_panic, Hp. }
    pose proof (bp_input_leaves c (g_epoch s0) (i_st x) m W S Hc). lia. }
  destruct ch; cbn [raw_step].
  - destruct (g_close_req s); intros _; exact B0.
  - destruct (g_close_req s); intros _; exact B0.
  - destruct (pop DDisp s) as [[m s1]|] eqn:Ep; [|intros _; exact B0]. destruct (PopB _ _ _ Ep) as [B1 _].
    pose proof (nob_disp c (g_disp s1) m) as Hn. destruct (disp_step c (g_disp s1) m) as [d' effs]. apply Eff; [exact Hn|exact B1].
  - destruct (pop (DTopic t) s) as [[m s1]|] eqn:Ep; [|intros _; exact B0]. destruct (PopB _ _ _ Ep) as [B1 _].
    apply Eff; [apply nob_tp|exact B1].
  - destruct (pop (DPart t p) s) as [[m s1]|] eqn:Ep; [|intros _; exact B0]. destruct (PopB _ _ _ Ep) as [B1 _].
    assert (RP : forall s0 x ls0, bside fnd s0 = 0 -> g_panic (run_pp c s0 (t, p) x m ls0) = None -> bside fnd (run_pp c s0 (t, p) x m ls0) = 0).
    { intros s0 x ls0 H0. unfold run_pp.
      match goal with |- context [pp_step c ?a ?b0 ?st ?mm ?ab ?stamp ?l] =>
        pose proof (nob_pp c a b0 st mm ab stamp l) as Hn; destruct (pp_step c a b0 st mm ab stamp l) as [st' effs] end.
      cbn [snd] in Hn. apply Eff; [exact Hn|exact H0]. }
    destruct (pp_get (t, p) (g_pps s1)) as [x|]; [apply RP, B1|].
    destruct (next_lres ls) as [l0 ls']. pose proof (nob_pp_init c t p l0) as Hn0. destruct (pp_init c t p l0) as [st0 effs0]. cbn [snd] in Hn0.
    set (s2 := set_pps s1 (pp_set (t, p) (mkPpr st0 None) (g_pps s1))).
    set (s3 := apply_effs c (WPp (t, p)) s2 effs0).
    set (x := match pp_get (t, p) (g_pps s3) with Some x => x | None => mkPpr st0 None end).
    intros Hp. assert (Hp3 : g_panic s3 = None).
    { destruct (g_panic s3) eqn:E3; [|reflexivity]. exfalso.
      unfold run_pp in Hp. destruct (pp_step _ _ _ _ _ _ _ _) as [st' effs].
      apply (apply_effs_sticky c (WPp (t, p)) effs (set_pps s3 (pp_set (t, p) (mkPpr st' (pr_h x)) (g_pps s3)))); [cbn; rewrite E3; discriminate|exact Hp]. }
    apply RP; [|exact Hp]. apply Eff; [exact Hn0|exact B1|exact Hp3].
  - (* CBpRecv *)
    destruct (nth_error (g_bps s) b) as [x|] eqn:Ex; [|intros _; exact B0]. destruct (flush_poll (i_st x)); [|intros _; exact B0].
    destruct (pop (DBp b) s) as [[m s1]|] eqn:Ep.
    + destruct (PopB _ _ _ Ep) as [B1 Hb]. apply BP; [exact Hb|cbn [in_w]; lia|rewrite Hb; exact Ex|].
      intros m' E. injection E as <-.
      assert (Hq : exists r, q_get (DBp b) (g_q s) = m :: r).
      { unfold pop in Ep. destruct (q_get (DBp b) (g_q s)) as [|m0 r]; [discriminate|]. injection Ep as -> _. eexists; reflexivity. }
      destruct Hq as [r Hq]. split.
      * apply (fwf_zero_wf (q_get (DBp b) (g_q s))); [|rewrite Hq; left; reflexivity].
        pose proof (total_ge_queue fwf (DBp b) s (proj2 fwf_okw)). pose proof (wsum_nonneg fwf (q_get (DBp b) (g_q s)) (proj2 fwf_okw)). lia.
      * eapply (no_shut_elsewhere s (DBp b)); [exact K|reflexivity|exact Hq].
    + destruct (i_in_closed x); [|intros _; exact B0]. apply BP; [reflexivity|cbn [in_w]; lia|exact Ex|intros m E; discriminate].
  - destruct (nth_error (g_bps s) b) as [x|] eqn:Ex; [|intros _; exact B0]. apply BP; [reflexivity|cbn [in_w]; lia|exact Ex|intros m E; discriminate].
  - destruct (nth_error (g_bps s) b) as [x|] eqn:Ex; [|intros _; exact B0]. apply BP; [reflexivity|cbn [in_w]; lia|exact Ex|intros m E; discriminate].
  - (* CBridge *)
    destruct (nth_error (g_bps s) b) as [x|] eqn:Ex; [|intros _; exact B0].
    destruct (i_infl x) eqn:Ei; [intros _; exact B0|]. destruct (i_bridge x) as [|st r] eqn:Eb; [intros _; exact B0|].
    intros _. rewrite (bside_set_bps fnd s b _ x Ex). unfold bpi_w. cbn. rewrite Ei, Eb. cbn. lia.
  - (* CAnswer *)
    destruct (nth_error (g_bps s) b) as [x|] eqn:Ex; [|intros _; exact B0].
    destruct (i_infl x) as [st|] eqn:Ei; [|intros _; exact B0].
    intros _. rewrite (bside_set_bps fnd s b _ x Ex). unfold bpi_w. cbn. rewrite Ei, resps_w_app. cbn. lia.
  - (* CBpResp *)
    destruct (nth_error (g_bps s) b) as [x|] eqn:Ex; [|intros _; exact B0].
    destruct (i_resp x) as [|[st r] rest] eqn:Er; [intros _; exact B0|].
    set (s1 := set_bps s (bp_upd b (fun y => bi_with_bridge y (i_bridge y) (i_infl y) rest) (g_bps s))).
    assert (Ex1 : nth_error (g_bps s1) b = Some (bi_with_bridge x (i_bridge x) (i_infl x) rest))
      by (subst s1; exact (nth_error_bp_upd_same b (fun y => bi_with_bridge y (i_bridge y) (i_infl y) rest) (g_bps s) x Ex)).
    rewrite Ex1. intros Hp.
    pose proof (run_bp_bside fnd c s1 b _ (BResp st r) (proj1 fnd_okw) Ex1 Hp) as E.
    pose proof (leave_nonneg fnd (snd (bp_step c (g_epoch s1) (i_st (bi_with_bridge x (i_bridge x) (i_infl x) rest)) (BResp st r))) (proj2 fnd_okw)) as L.
    pose proof (NN (run_bp c s1 b (bi_with_bridge x (i_bridge x) (i_infl x) rest) (BResp st r))) as N0.
    assert (B1 : bside fnd s1 = bside fnd s - set_w fnd st).
    { subst s1. rewrite (bside_set_bps fnd s b _ x Ex). unfold bpi_w. cbn. rewrite Er. cbn. lia. }
    cbn [in_w] in E. lia.
  - (* CRb *)
    destruct (nth_error (g_rbs s) i) as [tk|] eqn:Ei; [|intros _; exact B0].
    intros Hp. set (effs := rb_step c (g_epoch s) (rb_k tk) (rb_ms tk) (rb_e tk) l) in *.
    rewrite (apply_effs_bside fnd c WOther effs _ Hp).
    destruct (rb_balance fnd c (g_epoch s) (rb_k tk) (rb_ms tk) (rb_e tk) l (proj1 fnd_okw) Hfix) as [A _]. fold effs in A.
    rewrite esum_net_leave, (no_new_sum fnd effs (nn_rb c (g_epoch s) (rb_k tk) (rb_ms tk) (rb_e tk) l)) in A.
    pose proof (leave_nonneg fnd effs (proj2 fnd_okw)) as L. pose proof (placeB_nonneg fnd effs (proj2 fnd_okw)) as PB.
    assert (B1 : bside fnd (set_rbs s (remove_nth i (g_rbs s))) = bside fnd s - wsum fnd (rb_ms tk))
      by (unfold bside; cbn [set_rbs g_bps g_rbs]; rewrite (rbs_w_remove fnd _ _ _ Ei); lia).
    pose proof (NN (apply_effs c WOther (set_rbs s (remove_nth i (g_rbs s))) effs)) as N0.
    rewrite (apply_effs_bside fnd c WOther effs _ Hp) in N0. lia.
  - destruct (pop DRetry s) as [[m s1]|] eqn:Ep; [|intros _; exact B0]. destruct (PopB _ _ _ Ep) as [B1 _]. intros _. exact B1.
  - destruct (g_close_req s && negb (g_woken s) && (g_inflight s =? 0)); intros _; exact B0.
  - destruct (g_woken s && negb (g_closed s)); intros _; exact B0.
Qed.

Lemma rbs_w_nonneg f l : nonneg f -> 0 <= rbs_w f l.
Proof. intros H. induction l as [|y r IH]; cbn [rbs_w]; [lia|]. pose proof (wsum_nonneg f (rb_ms y) H). lia. Qed.

Lemma run_snoc c sched ch : run c (sched ++ [ch]) = step c (run c sched) ch.
Proof. unfold run. rewrite fold_left_app. reflexivity. Qed.

Theorem bside_data_only c : c_fix_rb c = true -> forall sched, bside fnd (run c sched) = 0.
Proof.
  intros Hfix sched. induction sched as [|ch sched IH] using rev_ind; [reflexivity|].
  rewrite run_snoc. set (s := run c sched) in *.
  unfold step. destruct (g_panic s) eqn:Hs; [exact IH|].
  destruct (g_panic (raw_step c s ch)) eqn:Hp; [exact IH|].
  apply bside_raw; [exact Hfix|apply kinv_run, Hfix|apply (all_wf c Hfix sched)|exact IH|exact Hp].
Qed.

(* element-wise: everything a broker worker holds, and every retryBatch task, is an application message *)
Lemma parts_fnd_zero ps : parts_w fnd ps = 0 -> forall k l m, In (k, l) ps -> In m l -> is_data m = true.
Proof.
  induction ps as [|[k0 l0] r IH]; intros H k l m Hin Hm; [destruct Hin|]. cbn [parts_w] in H.
  pose proof (wsum_nonneg fnd l0 (proj2 fnd_okw)). pose proof (parts_w_nonneg fnd r (proj2 fnd_okw)).
  destruct Hin as [E|Hin]; [injection E as -> ->; apply (fnd_zero_data l); [lia|exact Hm]|].
  apply (IH ltac:(lia) k l m Hin Hm).
Qed.

Theorem broker_side_data_only c : c_fix_rb c = true -> forall sched b x, nth_error (g_bps (run c sched)) b = Some x ->
  (forall k l m, In (k, l) (s_parts (b_buf (i_st x))) -> In m l -> is_data m = true) /\
  (forall m, b_wait (i_st x) = WOver m \/ b_wait (i_st x) = WForce m -> is_data m = true) /\
  (forall st k l m, In st (i_bridge x) -> In (k, l) (s_parts st) -> In m l -> is_data m = true) /\
  (forall st k l m, i_infl x = Some st -> In (k, l) (s_parts st) -> In m l -> is_data m = true) /\
  (forall st r k l m, In (st, r) (i_resp x) -> In (k, l) (s_parts st) -> In m l -> is_data m = true).
Proof.
  intros Hfix sched b x Hx. pose proof (bside_data_only c Hfix sched) as B. unfold bside in B.
  pose proof (bpi_le_bps fnd _ _ _ (proj2 fnd_okw) Hx) as L.
  pose proof (bps_w_nonneg fnd (g_bps (run c sched)) (proj2 fnd_okw)).
  pose proof (rbs_w_nonneg fnd (g_rbs (run c sched)) (proj2 fnd_okw)).
  destruct (bpi_parts_nonneg fnd x (proj2 fnd_okw)) as (P1 & P2 & P3 & P4). unfold bpi_w in L.
  assert (Z1 : bp_w fnd (i_st x) = 0) by lia. assert (Z2 : sets_w fnd (i_bridge x) = 0) by lia.
  assert (Z3 : match i_infl x with Some s0 => set_w fnd s0 | None => 0 end = 0) by lia. assert (Z4 : resps_w fnd (i_resp x) = 0) by lia.
  unfold bp_w, set_w in Z1. pose proof (parts_w_nonneg fnd (s_parts (b_buf (i_st x))) (proj2 fnd_okw)).
  assert (0 <= wait_w fnd (b_wait (i_st x))) by (destruct (b_wait (i_st x)); cbn; try lia; apply fnd_okw).
  split; [apply parts_fnd_zero; lia|]. split.
  - intros m [E|E]; rewrite E in *; cbn [wait_w] in *; unfold fnd in *; destruct (is_data m); [reflexivity|lia|reflexivity|lia].
  - split; [|split].
    + clear -Z2. induction (i_bridge x) as [|s0 r IH]; intros st k l m Hin; [destruct Hin|]. cbn [sets_w] in Z2.
      pose proof (parts_w_nonneg fnd (s_parts s0) (proj2 fnd_okw)). pose proof (sets_w_nonneg fnd r (proj2 fnd_okw)). unfold set_w in Z2.
      destruct Hin as [<-|Hin]; [apply parts_fnd_zero; lia|apply IH; [lia|exact Hin]].
    + intros st k l m E. rewrite E in Z3. unfold set_w in Z3. apply parts_fnd_zero. exact Z3.
    + clear -Z4. induction (i_resp x) as [|[s0 r0] r IH]; intros st rr k l m Hin; [destruct Hin|]. cbn [resps_w] in Z4.
      pose proof (parts_w_nonneg fnd (s_parts s0) (proj2 fnd_okw)). pose proof (resps_w_nonneg fnd r (proj2 fnd_okw)). unfold set_w in Z4.
      destruct Hin as [E|Hin]; [injection E as -> _; apply parts_fnd_zero; lia|apply (IH ltac:(lia) st rr); exact Hin].
Qed.

(* ---------------------------------------------------------------- no marker is ever reported successful *)

Fixpoint succ_w (f : msg -> Z) (l : list event) : Z :=
  match l with [] => 0 | Ev true m _ :: r => f m + succ_w f r | _ :: r => succ_w f r end.
Lemma succ_w_app f a b : succ_w f (a ++ b) = succ_w f a + succ_w f b.
Proof. induction a as [|[[|] m x] a IH]; cbn [app succ_w]; rewrite ?IH; lia. Qed.
Definition eff_succ (f : msg -> Z) (e : effect) : Z := match e with ESucc m _ => f m | _ => 0 end.

Lemma apply_eff_succ f c w s e : g_panic (apply_eff c w s e) = None ->
  succ_w f (g_events (apply_eff c w s e)) = succ_w f (g_events s) + eff_succ f e.
Proof.
  intros Hp. destruct (emits e) eqn:Ee.
  - destruct e; try discriminate; cbn [apply_eff eff_succ] in *; unfold emit in *; destruct (g_closed s).
    + destruct (m_hasseq m); cbn in Hp; discriminate.
    + destruct (m_hasseq m); cbn; rewrite succ_w_app; cbn; lia.
    + cbn in Hp. discriminate.
    + cbn. rewrite succ_w_app. cbn. lia.
    + cbn in Hp. discriminate.
    + cbn. rewrite succ_w_app. cbn. lia.
  - assert (E : g_events (apply_eff c w s e) = g_events s).
    { destruct e; try discriminate; cbn [apply_eff] in *; try reflexivity.
      - destruct d; try reflexivity. destruct (handle_of s w); [|reflexivity]. destruct (nth_error (g_bps s) n); [|reflexivity]. destruct (i_in_closed b); reflexivity.
      - destruct (handle_of s w); [|reflexivity]. destruct (set_handle_frame (set_bps s (bp_upd n bi_unref (g_bps s))) w None) as (_ & _ & _ & X & _). rewrite X. reflexivity.
      - destruct (get_bp s broker) as [s1 b] eqn:E1. destruct (get_bp_spec f s broker s1 b E1) as (_ & _ & _ & _ & _ & Y & _).
        destruct (set_handle_frame s1 w (Some b)) as (_ & _ & _ & X & _). rewrite X, Y. reflexivity.
      - destruct (find_reg broker (g_bps s) 0%nat); reflexivity.
      - destruct w; try reflexivity. destruct (nth_error (g_bps s) b); reflexivity.
      - destruct (get_bp s broker) as [s1 b] eqn:E1. destruct (get_bp_spec f s broker s1 b E1) as (_ & _ & _ & _ & _ & Y & _). cbn. exact Y. }
    rewrite E. destruct e; try discriminate; cbn; lia.
Qed.
Lemma apply_effs_succ f c w l : forall s, g_panic (apply_effs c w s l) = None ->
  succ_w f (g_events (apply_effs c w s l)) = succ_w f (g_events s) + esum (eff_succ f) l.
Proof.
  induction l as [|e l IH]; intros s H; [cbn; lia|].
  cbn [apply_effs fold_left] in *. fold (apply_effs c w (apply_eff c w s e) l) in *.
  assert (Hp : g_panic (apply_eff c w s e) = None).
  { destruct (g_panic (apply_eff c w s e)) eqn:E; [|reflexivity].
    exfalso. apply (apply_effs_sticky c w l (apply_eff c w s e)); [rewrite E; discriminate|exact H]. }
  rewrite (IH _ H), (apply_eff_succ f c w s e Hp), esum_cons. lia.
Qed.

(* successes are reported for messages of the answered set only *)
Definition nosu (l : list effect) : bool := forallb (fun e => match e with ESucc _ _ => false | _ => true end) l.
Lemma nosu_app a b : nosu (a ++ b) = nosu a && nosu b. Proof. apply forallb_app. Qed.
Lemma nosu_sum f l : nosu l = true -> esum (eff_succ f) l = 0.
Proof.
  induction l as [|e l IH]; [reflexivity|]. cbn [nosu forallb]. intros H. apply andb_true_iff in H as [H1 H2].
  rewrite esum_cons, (IH H2). destruct e; try reflexivity; discriminate.
Qed.

Lemma nosu_retry_msgs c l e : nosu (retry_msgs c l e) = true.
Proof.
  unfold retry_msgs. induction l as [|m l IH]; [reflexivity|]. cbn [map nosu forallb]. fold (nosu (map (fun m0 => retry_msg c m0 e) l)).
  rewrite IH. unfold retry_msg. destruct (c_retry_max c <=? m_retries m)%nat; reflexivity.
Qed.
Lemma nosu_retry_msg c m e : nosu [retry_msg c m e] = true.
Proof. unfold retry_msg. destruct (c_retry_max c <=? m_retries m)%nat; reflexivity. Qed.
Lemma nosu_return_errors l e : nosu (return_errors l e) = true.
Proof. unfold return_errors. induction l; simpl; auto. Qed.
Lemma nosu_all_retry c ps e : nosu (all_retry c ps e) = true.
Proof. induction ps as [|[k l] r IH]; [reflexivity|]. cbn [all_retry]. rewrite nosu_app, nosu_retry_msgs, IH. reflexivity. Qed.
Lemma nosu_all_errors ps e : nosu (all_errors ps e) = true.
Proof. induction ps as [|[k l] r IH]; [reflexivity|]. cbn [all_errors]. rewrite nosu_app, nosu_return_errors, IH. reflexivity. Qed.
Lemma nosu_do_add c st m : nosu (snd (fst (do_add c st m))) = true.
Proof. unfold do_add. destruct (m_encfail m); [reflexivity|]. match goal with |- context [if ?b then _ else _] => destruct b end; reflexivity. Qed.
Lemma nosu_after_over c st m : nosu (snd (fst (after_over c st m))) = true.
Proof. unfold after_over. destruct (c_idem c && negb (s_epoch (b_buf st) =? m_epoch m)); [reflexivity|apply nosu_do_add]. Qed.
Lemma nosu_recv_data c st m : nosu (snd (fst (recv_data c st m))) = true.
Proof. unfold recv_data. destruct (would_overflow c (b_buf st) m); [reflexivity|apply nosu_after_over]. Qed.
Lemma nosu_hs_phase2 c bl : forall ps cur buf, nosu (snd (hs_phase2 c bl ps cur buf)) = true.
Proof.
  induction ps as [|[k l] r IH]; intros; [reflexivity|]. cbn [hs_phase2].
  destruct (block_lookup k bl) as [[e off]|]; [|apply IH]. destruct (retriable e); [|apply IH].
  specialize (IH (cur_set k e cur) (part_drop k buf)).
  destruct (hs_phase2 c bl r (cur_set k e cur) (part_drop k buf)) as [[cur' buf'] effs']. cbn [snd] in *.
  rewrite !nosu_app, IH, nosu_retry_msgs. destruct (c_idem c); [reflexivity|]. rewrite nosu_retry_msgs. reflexivity.
Qed.

Lemma succ_successes f l b : esum (eff_succ f) (successes l b) = wsum f l.
Proof. revert b. induction l as [|m l IH]; intros b; [reflexivity|]. cbn [successes]. rewrite esum_cons, wsum_cons, IH. reflexivity. Qed.
Lemma succ_hs_phase1 f c b r ps : nonneg f -> 0 <= esum (eff_succ f) (hs_phase1 c b r ps) <= parts_w f ps.
Proof.
  intros Hn. induction ps as [|[k l] rest IH]; [cbn; lia|]. cbn [hs_phase1 parts_w]. rewrite esum_app.
  pose proof (wsum_nonneg f l Hn) as W.
  assert (X : 0 <= esum (eff_succ f) (match r with
       | RNil => successes l (-1) | RErr _ _ => []
       | RBlocks bl => match block_lookup k bl with
           | None => return_errors l E_INCOMPLETE
           | Some (e, off) => if e =? 0 then successes l off else if e =? E_DUPLICATE then successes l (-1)
               else if retriable e then (if (c_retry_max c =? 0)%nat then EAbandon b :: return_errors l e else [])
               else (if (c_retry_max c =? 0)%nat then [EAbandon b] else []) ++ return_errors l e end end) <= wsum f l).
  { destruct r as [e enc| |bl]; [cbn; lia|rewrite succ_successes; lia|].
    destruct (block_lookup k bl) as [[e off]|]; [|rewrite (nosu_sum f _ (nosu_return_errors l _)); lia].
    destruct (e =? 0); [rewrite succ_successes; lia|]. destruct (e =? E_DUPLICATE); [rewrite succ_successes; lia|].
    destruct (retriable e); destruct (c_retry_max c =? 0)%nat; cbn [app]; rewrite ?esum_cons, ?(nosu_sum f _ (nosu_return_errors l _)); cbn; lia. }
  lia.
Qed.

Lemma succ_handle_response f c ep st sent r : nonneg f ->
  0 <= esum (eff_succ f) (snd (handle_response c ep st sent r)) <= set_w f sent.
Proof.
  intros Hn. unfold handle_response.
  assert (HX : forall X : bp * list effect, 0 <= esum (eff_succ f) (snd X) <= set_w f sent ->
     0 <= esum (eff_succ f) (snd (let '(st1, effs) := X in if set_empty (b_buf st1) then (rollover st1 (ep + bumps effs), effs) else (st1, effs))) <= set_w f sent).
  { intros [st1 effs] H. destruct (set_empty (b_buf st1)); exact H. }
  apply HX. pose proof (parts_w_nonneg f (s_parts sent) Hn) as P. unfold set_w.
  destruct r as [e [|]| |bl]; cbn [snd].
  - rewrite (nosu_sum f _ (nosu_all_errors _ _)). lia.
  - rewrite esum_cons, esum_app, (nosu_sum f _ (nosu_all_retry _ _ _)), (nosu_sum f _ (nosu_all_retry _ _ _)). cbn. lia.
  - apply succ_hs_phase1, Hn.
  - pose proof (succ_hs_phase1 f c (b_broker st) (RBlocks bl) (s_parts sent) Hn) as H1.
    destruct (c_retry_max c =? 0)%nat; [exact H1|].
    pose proof (nosu_hs_phase2 c bl (s_parts sent) (b_cur st) (s_parts (b_buf st))) as H2.
    destruct (hs_phase2 c bl (s_parts sent) (b_cur st) (s_parts (b_buf st))) as [[cur buf] e2]. cbn [snd] in *.
    rewrite esum_app, (nosu_sum f e2 H2). lia.
Qed.

Lemma succ_bp f c ep st i : nonneg f ->
  0 <= esum (eff_succ f) (snd (bp_step c ep st i)) <= match i with BResp sent _ => set_w f sent | _ => 0 end.
Proof.
  intros Hn. unfold bp_step.
  assert (HX : 0 <= esum (eff_succ f) (snd (fst (bp_core c ep st i))) <= match i with BResp sent _ => set_w f sent | _ => 0 end);
    [|destruct (bp_core c ep st i) as [[st' effs] upd]; exact HX].
  unfold bp_core. destruct i as [m| | | |sent r].
  - destruct (b_mode st); try (cbn; lia). destruct (b_wait st); try (cbn; lia).
    destruct (is_syn m); [cbn; lia|]. destruct (needs_retry st m); [cbn [fst snd]; rewrite (nosu_sum f _ (nosu_retry_msg c m _)); lia|].
    destruct (is_fin m); [cbn [fst snd]; rewrite (nosu_sum f _ (nosu_retry_msg c m _)); lia|rewrite (nosu_sum f _ (nosu_recv_data c st m)); lia].
  - destruct (b_mode st), (b_wait st); cbn; lia.
  - destruct (b_timer st && flush_poll st); cbn; lia.
  - destruct (flush_enabled st); [|cbn; lia]. destruct (b_wait st) as [|m|m]; [cbn; lia| |].
    + pose proof (nosu_after_over c (with_wait (rollover st ep) WNone) m) as H.
      destruct (after_over c (with_wait (rollover st ep) WNone) m) as [[st2 e2] u]. cbn [fst snd] in *. rewrite esum_cons, (nosu_sum f e2 H). cbn. lia.
    + pose proof (nosu_do_add c (with_wait (rollover st ep) WNone) m) as H.
      destruct (do_add c (with_wait (rollover st ep) WNone) m) as [[st2 e2] u]. cbn [fst snd] in *. rewrite esum_cons, (nosu_sum f e2 H). cbn. lia.
  - pose proof (succ_handle_response f c ep st sent r Hn) as H.
    destruct (handle_response c ep st sent r) as [st1 effs]. cbn [snd] in H.
    destruct (b_wait st1) as [|m|m]; [exact H| |].
    + destruct (needs_retry st1 m); [cbn [fst snd]; rewrite esum_app, (nosu_sum f _ (nosu_retry_msg c m _)); lia|].
      destruct (would_overflow c (b_buf st1) m); [exact H|].
      pose proof (nosu_after_over c (with_wait st1 WNone) m) as H2.
      destruct (after_over c (with_wait st1 WNone) m) as [[st2 e2] u]. cbn [fst snd] in *. rewrite esum_app, (nosu_sum f e2 H2). lia.
    + destruct (needs_retry st1 m); [cbn [fst snd]; rewrite esum_app, (nosu_sum f _ (nosu_retry_msg c m _)); lia|exact H].
Qed.

(* the other actors never report a success: their effects are well shaped and contain no ESucc *)
Lemma nosu_disp c d m : nosu (snd (disp_step c d m)) = true.
Proof.
  assert (IC : forall id k ics pan sz h, nosu (snd (apply_ics id k ics pan sz h)) = true).
  { intros id k ics. revert k. induction ics as [|ic r IH]; intros; [reflexivity|]. cbn [apply_ics].
    match goal with |- context [apply_ics id (S k) r ?a ?b ?d] => specialize (IH (S k) a b d); destruct (apply_ics id (S k) r a b d) as [res effs] end.
    cbn [snd] in *. cbn [nosu forallb]. exact IH. }
  unfold disp_step. destruct (is_shut m); [reflexivity|]. destruct (fresh_pass m && d_shut d); [reflexivity|].
  assert (P : nosu (if fresh_pass m then [EAccept m] else []) = true) by (destruct (fresh_pass m); reflexivity).
  set (doic := if c_fix_ic c then fresh_pass m && is_data m else true). destruct doic.
  - pose proof (IC (m_id m) 0%nat (c_ics c) (m_ipanic m) (m_size m) (m_hdr m)) as H1.
    destruct (apply_ics _ _ _ _ _ _) as [[sz h] ics]. cbn [snd] in *.
    destruct (negb (c_v2 c) && h); [|destruct (c_max_msg_bytes c <? sz)]; cbn [snd]; rewrite !nosu_app, P, H1; reflexivity.
  - destruct (negb (c_v2 c) && m_hdr m); [|destruct (c_max_msg_bytes c <? m_size m)]; cbn [snd]; rewrite !nosu_app, P; reflexivity.
Qed.
Lemma nosu_tp m : nosu (tp_step m) = true.
Proof. unfold tp_step. destruct (fresh_pass m); [destruct (0 <=? m_pres m)|]; reflexivity. Qed.
Lemma nosu_flush_sends c t p : forall buf sq ep, nosu (fst (flush_sends c t p sq ep buf)) = true.
Proof.
  induction buf as [|m r IH]; intros; [reflexivity|]. cbn [flush_sends].
  destruct (c_idem c && fresh_pass m && is_data m && negb (m_hasseq m)).
  - specialize (IH (sq + 1) ep). destruct (flush_sends c t p (sq + 1) ep r) as [e sq']. cbn [fst] in *. cbn [nosu forallb]. exact IH.
  - specialize (IH sq ep). destruct (flush_sends c t p sq ep r) as [e sq']. cbn [fst] in *. cbn [nosu forallb]. exact IH.
Qed.
Lemma nosu_flush c t p : forall h hasbp leader lv stamp ls, nosu (snd (flush c t p h hasbp leader lv stamp ls)) = true.
Proof.
  induction h as [|h' IH]; intros; [reflexivity|]. cbn [flush].
  pose proof (nosu_flush_sends c t p (l_buf (get_level h' lv)) (fst stamp) (snd stamp)) as FS.
  destruct (flush_sends c t p (fst stamp) (snd stamp) (l_buf (get_level h' lv))) as [fe sq']. cbn [fst] in FS.
  destruct hasbp.
  - destruct (l_chaser (get_level h' lv) || (h' =? 0)%nat); cbn [snd]; [exact FS|].
    specialize (IH true leader (set_buf h' [] lv) (sq', snd stamp) ls). destruct (flush c t p h' true leader _ _ ls) as [res e2].
    cbn [snd] in *. rewrite nosu_app, FS, IH. reflexivity.
  - destruct (next_lres ls) as [[b|e] r].
    + destruct (l_chaser (get_level h' lv) || (h' =? 0)%nat); cbn [snd]; [rewrite nosu_app, FS; reflexivity|].
      specialize (IH true b (set_buf h' [] lv) (sq', snd stamp) r). destruct (flush c t p h' true b _ _ r) as [res e2].
      cbn [snd] in *. rewrite !nosu_app, FS, IH. reflexivity.
    + destruct (l_chaser (get_level h' lv) || (h' =? 0)%nat); cbn [snd]; [apply nosu_return_errors|].
      match goal with |- context [flush c t p h' false leader (set_buf h' [] lv) ?sx r] => specialize (IH false leader (set_buf h' [] lv) sx r) end. destruct (flush c t p h' false leader _ _ r) as [res e2].
      cbn [snd] in *. rewrite nosu_app, nosu_return_errors, IH. reflexivity.
Qed.
Lemma nosu_pp_forward c t p st m stamp ls pre : nosu pre = true -> nosu (snd (pp_forward c t p st m stamp ls pre)) = true.
Proof.
  intros Hp. unfold pp_forward. destruct (p_has_bp st).
  - destruct (c_idem c && fresh_pass m && is_data m); cbn [snd]; rewrite !nosu_app, Hp; reflexivity.
  - destruct (next_lres ls) as [[b|e] r].
    + destruct (c_idem c && fresh_pass m && is_data m); cbn [snd]; rewrite !nosu_app, Hp; reflexivity.
    + cbn [snd]. rewrite nosu_app, Hp. reflexivity.
Qed.
Lemma nosu_pp c t p st m ab stamp ls : nosu (snd (pp_step c t p st m ab stamp ls)) = true.
Proof.
  unfold pp_step.
  set (e1 := if p_has_bp st && ab then [EUnref] else []).
  assert (He1 : nosu e1 = true) by (subst e1; destruct (p_has_bp st && ab); reflexivity).
  set (st1 := if p_has_bp st && ab then _ else st).
  destruct (p_hwm st1 <? m_retries m)%nat.
  - assert (HG : match pp_guard c t p st1 ls with inl (stg, eg, ls1) => nosu eg = true | inr _ => True end).
    { unfold pp_guard. destruct (p_has_bp st1); [reflexivity|]. destruct (next_lres ls) as [[b|e] r]; [reflexivity|exact I]. }
    destruct (pp_guard c t p st1 ls) as [[[stg eg] ls1]|e].
    + destruct (c_retry_max c <? m_retries m)%nat; [cbn [snd]; rewrite !nosu_app, He1, HG; reflexivity|].
      apply nosu_pp_forward. rewrite !nosu_app, He1, HG. reflexivity.
    + cbn [snd]. rewrite nosu_app, He1. reflexivity.
  - destruct (0 <? p_hwm st1)%nat; [|apply nosu_pp_forward, He1].
    destruct (m_retries m <? p_hwm st1)%nat.
    + destruct (length (p_levels st1) <=? m_retries m)%nat; [cbn [snd]; rewrite nosu_app, He1; reflexivity|].
      destruct (is_fin m); cbn [snd]; [rewrite nosu_app, He1; reflexivity|exact He1].
    + destruct (is_fin m); [|apply nosu_pp_forward, He1].
      pose proof (nosu_flush c t p (p_hwm st1) (p_has_bp st1) (p_leader st1) (set_chaser (p_hwm st1) false (p_levels st1)) stamp ls) as Hfl.
      destruct (flush c t p (p_hwm st1) (p_has_bp st1) (p_leader st1) _ stamp ls) as [[[[h' hasbp] leader] lv'] effs].
      cbn [snd] in *. rewrite !nosu_app, He1, Hfl. reflexivity.
Qed.
Lemma nosu_pp_init c t p l : nosu (snd (pp_init c t p l)) = true.
Proof. destruct l; reflexivity. Qed.
Lemma nosu_rb c ep k ms e l : nosu (rb_step c ep k ms e l) = true.
Proof.
  unfold rb_step. destruct (first_exhausted c ms); [destruct (c_fix_rb c); [apply nosu_return_errors|reflexivity]|].
  destruct l; [reflexivity|apply nosu_return_errors].
Qed.

Lemma pop_events d s m s1 : pop d s = Some (m, s1) -> g_events s1 = g_events s /\ g_bps s1 = g_bps s.
Proof. intros H. destruct (pop_spec d s m s1 H) as (_ & E & _ & _ & _ & _ & B & _). auto. Qed.

Lemma succ_raw c s ch : bside fnd s = 0 -> g_panic (raw_step c s ch) = None ->
  succ_w fnd (g_events (raw_step c s ch)) = succ_w fnd (g_events s).
Proof.
  intros B0.
  assert (Eff : forall w s0 l, nosu l = true -> g_panic (apply_effs c w s0 l) = None ->
                succ_w fnd (g_events (apply_effs c w s0 l)) = succ_w fnd (g_events s0)).
  { intros w s0 l Hn Hp. rewrite (apply_effs_succ fnd c w l s0 Hp), (nosu_sum fnd l Hn). lia. }
  assert (BP : forall s0 b x i, match i with BResp sent _ => set_w fnd sent = 0 | _ => True end ->
                g_panic (run_bp c s0 b x i) = None -> succ_w fnd (g_events (run_bp c s0 b x i)) = succ_w fnd (g_events s0)).
  { intros s0 b x i Hi. unfold run_bp. pose proof (succ_bp fnd c (g_epoch s0) (i_st x) i (proj2 fnd_okw)) as S.
    destruct (bp_step c (g_epoch s0) (i_st x) i) as [st' effs]. cbn [snd] in S. intros Hp.
    rewrite (apply_effs_succ fnd c (WBp b) effs _ Hp). cbn [set_bps g_events]. destruct i; lia. }
  destruct ch; cbn [raw_step].
  - destruct (g_close_req s); intros _; reflexivity.
  - destruct (g_close_req s); intros _; reflexivity.
  - destruct (pop DDisp s) as [[m s1]|] eqn:Ep; [|intros _; reflexivity]. destruct (pop_events _ _ _ _ Ep) as [E1 _].
    pose proof (nosu_disp c (g_disp s1) m) as Hn. destruct (disp_step c (g_disp s1) m) as [d' effs]. cbn [snd] in Hn.
    intros Hp. rewrite (Eff _ _ _ Hn Hp). cbn [set_disp g_events]. rewrite E1. reflexivity.
  - destruct (pop (DTopic t) s) as [[m s1]|] eqn:Ep; [|intros _; reflexivity]. destruct (pop_events _ _ _ _ Ep) as [E1 _].
    intros Hp. rewrite (Eff _ _ _ (nosu_tp m) Hp), E1. reflexivity.
  - destruct (pop (DPart t p) s) as [[m s1]|] eqn:Ep; [|intros _; reflexivity]. destruct (pop_events _ _ _ _ Ep) as [E1 _].
    assert (RP : forall s0 x ls0, g_panic (run_pp c s0 (t, p) x m ls0) = None -> succ_w fnd (g_events (run_pp c s0 (t, p) x m ls0)) = succ_w fnd (g_events s0)).
    { intros s0 x ls0. unfold run_pp.
      match goal with |- context [pp_step c ?a ?b0 ?st ?mm ?ab ?stamp ?l] =>
        pose proof (nosu_pp c a b0 st mm ab stamp l) as Hn; destruct (pp_step c a b0 st mm ab stamp l) as [st' effs] end.
      cbn [snd] in Hn. intros Hp. rewrite (Eff _ _ _ Hn Hp). reflexivity. }
    destruct (pp_get (t, p) (g_pps s1)) as [x|]; [intros Hp; rewrite (RP _ _ _ Hp), E1; reflexivity|].
    destruct (next_lres ls) as [l0 ls']. pose proof (nosu_pp_init c t p l0) as Hn0. destruct (pp_init c t p l0) as [st0 effs0]. cbn [snd] in Hn0.
    set (s2 := set_pps s1 (pp_set (t, p) (mkPpr st0 None) (g_pps s1))).
    set (s3 := apply_effs c (WPp (t, p)) s2 effs0).
    set (x := match pp_get (t, p) (g_pps s3) with Some x => x | None => mkPpr st0 None end).
    intros Hp. assert (Hp3 : g_panic s3 = None).
    { destruct (g_panic s3) eqn:E3; [|reflexivity]. exfalso.
      unfold run_pp in Hp. destruct (pp_step _ _ _ _ _ _ _ _) as [st' effs].
      apply (apply_effs_sticky c (WPp (t, p)) effs (set_pps s3 (pp_set (t, p) (mkPpr st' (pr_h x)) (g_pps s3)))); [cbn; rewrite E3; discriminate|exact Hp]. }
    rewrite (RP _ _ _ Hp). unfold s3. rewrite (Eff _ _ _ Hn0 Hp3). unfold s2. cbn [set_pps g_events]. exact (f_equal _ E1).
  - destruct (nth_error (g_bps s) b) as [x|]; [|intros _; reflexivity]. destruct (flush_poll (i_st x)); [|intros _; reflexivity].
    destruct (pop (DBp b) s) as [[m s1]|] eqn:Ep.
    + destruct (pop_events _ _ _ _ Ep) as [E1 _]. intros Hp. rewrite (BP _ _ _ (BRecv m) I Hp), E1. reflexivity.
    + destruct (i_in_closed x); [|intros _; reflexivity]. apply BP. exact I.
  - destruct (nth_error (g_bps s) b) as [x|]; [|intros _; reflexivity]. apply BP. exact I.
  - destruct (nth_error (g_bps s) b) as [x|]; [|intros _; reflexivity]. apply BP. exact I.
  - destruct (nth_error (g_bps s) b) as [x|]; [|intros _; reflexivity]. destruct (i_infl x); [intros _; reflexivity|]. destruct (i_bridge x); intros _; reflexivity.
  - destruct (nth_error (g_bps s) b) as [x|]; [|intros _; reflexivity]. destruct (i_infl x); intros _; reflexivity.
  - (* CBpResp: the answered set is on the broker side, hence application messages only *)
    destruct (nth_error (g_bps s) b) as [x|] eqn:Ex; [|intros _; reflexivity].
    destruct (i_resp x) as [|[st r] rest] eqn:Er; [intros _; reflexivity|].
    set (s1 := set_bps s (bp_upd b (fun y => bi_with_bridge y (i_bridge y) (i_infl y) rest) (g_bps s))).
    assert (Ex1 : nth_error (g_bps s1) b = Some (bi_with_bridge x (i_bridge x) (i_infl x) rest))
      by (subst s1; exact (nth_error_bp_upd_same b (fun y => bi_with_bridge y (i_bridge y) (i_infl y) rest) (g_bps s) x Ex)).
    rewrite Ex1.
    assert (Z : set_w fnd st = 0).
    { unfold bside in B0. pose proof (bpi_le_bps fnd _ _ _ (proj2 fnd_okw) Ex) as L.
      pose proof (bps_w_nonneg fnd (g_bps s) (proj2 fnd_okw)). pose proof (rbs_w_nonneg fnd (g_rbs s) (proj2 fnd_okw)).
      destruct (bpi_parts_nonneg fnd x (proj2 fnd_okw)) as (P1 & P2 & P3 & P4). unfold bpi_w in L. rewrite Er in L, P4. cbn [resps_w] in L, P4.
      pose proof (parts_w_nonneg fnd (s_parts st) (proj2 fnd_okw)). pose proof (resps_w_nonneg fnd rest (proj2 fnd_okw)). unfold set_w in *. lia. }
    intros Hp. rewrite (BP _ _ _ (BResp st r) Z Hp). reflexivity.
  - destruct (nth_error (g_rbs s) i) as [tk|]; [|intros _; reflexivity].
    intros Hp. rewrite (Eff _ _ _ (nosu_rb c (g_epoch s) (rb_k tk) (rb_ms tk) (rb_e tk) l) Hp). reflexivity.
  - destruct (pop DRetry s) as [[m s1]|] eqn:Ep; [|intros _; reflexivity]. destruct (pop_events _ _ _ _ Ep) as [E1 _]. intros _. cbn [set_q g_events]. rewrite E1. reflexivity.
  - destruct (g_close_req s && negb (g_woken s) && (g_inflight s =? 0)); intros _; reflexivity.
  - destruct (g_woken s && negb (g_closed s)); intros _; reflexivity.
Qed.

Theorem markers_never_successful c : c_fix_rb c = true -> forall sched,
  succ_w fnd (g_events (run c sched)) = 0.
Proof.
  intros Hfix sched. induction sched as [|ch sched IH] using rev_ind; [reflexivity|].
  rewrite run_snoc. set (s := run c sched) in *.
  unfold step. destruct (g_panic s) eqn:Hs; [exact IH|].
  destruct (g_panic (raw_step c s ch)) eqn:Hp; [exact IH|].
  rewrite (succ_raw c s ch (bside_data_only c Hfix sched) Hp). exact IH.
Qed.

(* element-wise *)
Corollary success_names_application_message c : c_fix_rb c = true -> forall sched m x,
  In (Ev true m x) (g_events (run c sched)) -> is_data m = true.
Proof.
  intros Hfix sched m x Hin. pose proof (markers_never_successful c Hfix sched) as Z.
  revert Z Hin. induction (g_events (run c sched)) as [|[[|] m0 x0] l IH]; intros Z Hin; [destruct Hin| |].
  - cbn [succ_w] in Z. assert (N : 0 <= succ_w fnd l) by (clear; induction l as [|[[|] m1 x1] l IH]; cbn [succ_w]; try lia; assert (0 <= fnd m1) by apply fnd_okw; lia).
    assert (0 <= fnd m0) by apply fnd_okw.
    destruct Hin as [E|Hin]; [injection E as -> _; unfold fnd in *; destruct (is_data m); [reflexivity|lia]|apply IH; [lia|exact Hin]].
  - cbn [succ_w] in Z. destruct Hin as [E|Hin]; [discriminate|apply IH; assumption].
Qed.

(* The full statement "no terminal event ever names a marker".  Proved above for success events.  For error
   events three sites remain, all of which need the chaser discipline of the partition worker (a fin arrives with
   retries <= highWatermark; C02's invariant), not proved here: retry exhaustion of a bounced chaser at a broker
   worker, a leader-lookup failure while a partition worker forwards a chaser as if it were data, and the
   dispatcher's size check on a chaser when MaxMessageBytes is below the size of an empty message.
   (b-c02 proves that discipline on the dedicated ordering model coq/C02 -- Inv1 / inv_run, c02_no_panic -- which is
   tied to pp_step / bp_step by a lockstep check; it is not ported to this composition.) *)
Definition markers_never_reported_statement (c : cfg) : Prop :=
  forall sched b m x, In (Ev b m x) (g_events (run c sched)) -> is_data m = true.
