(* Producer proofs, part 6: the shutdown protocol.  No event is emitted after the event channels were closed
   (a send on a closed channel is the panic state [Some PANIC_CLOSED_CHANNEL], shown unreachable), because the
   channels are closed only after inFlight reached zero behind the shutdown marker, and from then on the
   pipeline is empty and stays empty.  The application is assumed not to send on Input() after AsyncClose
   (that is how [CSubmit] is defined in Compose.v). *)
From Coq Require Import List ZArith Bool Arith Lia.
From SV Require Import Producer.Msg Producer.Actors Producer.Compose Producer.Weights Producer.Local Producer.Global
                       Producer.Shape Producer.Conservation.
Import ListNotations.
Open Scope Z_scope.

Definition cnt (p : msg -> bool) (l : list msg) : Z := wsum (fun m => if p m then 1 else 0) l.
Lemma cnt_app p a b : cnt p (a ++ b) = cnt p a + cnt p b. Proof. apply wsum_app. Qed.
Lemma cnt_nonneg p l : 0 <= cnt p l.
Proof. unfold cnt. apply wsum_nonneg. intros m. destruct (p m); lia. Qed.
Lemma cnt_cons p m l : cnt p (m :: l) = (if p m then 1 else 0) + cnt p l. Proof. reflexivity. Qed.
Lemma cnt_imp p q l : (forall m, p m = true -> q m = true) -> cnt p l <= cnt q l.
Proof.
  intros H. induction l as [|m l IH]; [cbn; lia|]. rewrite !cnt_cons. specialize (H m).
  destruct (p m); destruct (q m); try lia; specialize (H eq_refl); discriminate.
Qed.

Definition shut0 (m : msg) : bool := fresh_pass m && is_shut m.           (* the shutdown marker as AsyncClose sends it *)
Definition badfresh (m : msg) : bool := fresh_un m && negb (is_data m).
(* a shutdown marker with a not-yet-counted application message somewhere behind it *)
Fixpoint fam (l : list msg) : bool :=
  match l with [] => false | m :: r => (shut0 m && (0 <? cnt fresh_un r)) || fam r end.
Definition gsh (m : msg) : Z := if is_shut m then 1 else 0.

Lemma gsh_okw : okw gsh.
Proof.
  split.
  - intros m m' _ H. unfold gsh, is_shut. rewrite H. reflexivity.
  - intros m. unfold gsh. destruct (is_shut m); lia.
Qed.
Lemma gsh_marker_free : marker_free gsh.
Proof. intros m _ [H|H]; unfold gsh, is_shut; rewrite H; reflexivity. Qed.
Lemma f1_okw : okw f1. Proof. split; [apply f1_stable|intros m; unfold f1; lia]. Qed.

Lemma fam_app_plain l x : fresh_un x = false -> fam (l ++ [x]) = fam l.
Proof.
  intros Hx. induction l as [|m l IH]; cbn [app fam].
  - cbn. rewrite andb_false_r. reflexivity.
  - rewrite IH, cnt_app. cbn [cnt wsum fold_right]. rewrite Hx. replace (cnt fresh_un l + (0 + 0)) with (cnt fresh_un l) by lia. reflexivity.
Qed.
Lemma fam_app_fresh l x : cnt shut0 l = 0 -> fam (l ++ [x]) = false.
Proof.
  induction l as [|m l IH]; intros H; cbn [app fam].
  - cbn. rewrite andb_false_r. reflexivity.
  - rewrite cnt_cons in H. pose proof (cnt_nonneg shut0 l). destruct (shut0 m); [lia|]. cbn [andb orb]. apply IH. lia.
Qed.

(* ---------------------------------------------------------------- the part of the state the protocol looks at *)

Definition qd (s : state) : list msg := q_get DDisp (g_q s).
Definition qr (s : state) : list msg := q_get DRetry (g_q s).

Record kinv (s : state) : Prop := mkK {
  k1 : cnt fresh_pass (qr s) = 0;
  k3 : fam (qd s) = false;
  k4 : d_shut (g_disp s) = true -> g_close_req s = true /\ cnt fresh_un (qd s) = 0;
  k5 : g_close_req s = true -> d_shut (g_disp s) = false -> 1 <= cnt shut0 (qd s);
  k8 : cnt badfresh (qd s) = 0;
  kb : cons_q gsh s + (if d_shut (g_disp s) then 1 else 0) <= (if g_close_req s then 1 else 0);
  ks : wsum gsh (g_submitted s) = 0;
  k6 : g_woken s = true -> g_close_req s = true /\ total f1 s = 0;
  k6c : g_closed s = true -> g_woken s = true;
  k7 : g_panic s <> Some PANIC_CLOSED_CHANNEL;
  ki : infl_q s = 0
}.

Lemma q_w_ge_get f d q : nonneg f -> wsum f (q_get d q) <= q_w f q.
Proof.
  intros Hn. induction q as [|[d' l] r IH]; cbn [q_get q_w]; [cbn; lia|].
  pose proof (wsum_nonneg f l Hn). assert (0 <= q_w f r) by (clear -Hn; induction r as [|[d0 l0] r IH]; cbn; [lia|]; pose proof (wsum_nonneg f l0 Hn); lia).
  destruct (dest_eqb d d'); lia.
Qed.
Lemma total_ge_queue f d s : nonneg f -> wsum f (q_get d (g_q s)) <= total f s.
Proof.
  intros Hn. pose proof (q_w_ge_get f d (g_q s) Hn).
  pose proof (total_nonneg f (set_q s []) Hn) as H0. unfold total in *. cbn in H0. lia.
Qed.
Lemma two_queues f s : nonneg f -> wsum f (qd s) + wsum f (qr s) <= total f s.
Proof.
  intros Hn. unfold qd, qr.
  assert (G : forall q, wsum f (q_get DDisp q) + wsum f (q_get DRetry q) <= q_w f q).
  { induction q as [|[d' l] r IH]; cbn [q_get q_w]; [cbn; lia|]. pose proof (wsum_nonneg f l Hn).
    pose proof (q_w_ge_get f DRetry r Hn). pose proof (q_w_ge_get f DDisp r Hn).
    destruct d'; cbn [dest_eqb]; lia. }
  pose proof (G (g_q s)). pose proof (total_nonneg f (set_q s []) Hn) as H0. unfold total in *. cbn in H0. lia.
Qed.

(* shutdown-bit accounting: with the marker still queued there is exactly one shutdown-flagged message, in DDisp *)
Lemma shut_budget s : kinv s -> total gsh s <= (if g_close_req s then 1 else 0) - (if d_shut (g_disp s) then 1 else 0).
Proof.
  intros K. pose proof (kb s K) as B. pose proof (ks s K) as S. unfold cons_q in B.
  pose proof (evs_w_nonneg gsh (g_events s) (proj2 gsh_okw)). lia.
Qed.
Lemma cnt_shut0_le_gsh l : cnt shut0 l <= wsum gsh l.
Proof.
  induction l as [|m l IH]; [cbn; lia|]. rewrite cnt_cons, wsum_cons.
  assert (E : (if shut0 m then 1 else 0) <= gsh m) by (unfold shut0, gsh; destruct (is_shut m); destruct (fresh_pass m); cbn; lia).
  lia.
Qed.
Lemma gsh_nonneg_l l : 0 <= wsum gsh l. Proof. apply wsum_nonneg, gsh_okw. Qed.

(* ---------------------------------------------------------------- effects and the view *)

Lemma apply_eff_q c w s e : g_panic (apply_eff c w s e) = None ->
  qd (apply_eff c w s e) = qd s ++ (match e with ESend DDisp m => [m] | _ => [] end) /\
  qr (apply_eff c w s e) = qr s ++ (match e with ESend DRetry m => [m] | _ => [] end).
Proof.
  unfold qd, qr. destruct e; cbn [apply_eff]; try (intros _; rewrite !app_nil_r; split; reflexivity).
  - destruct d; try (intros _; cbn [set_q g_q]; rewrite !q_get_push; cbn [dest_eqb]; rewrite ?app_nil_r; split; reflexivity).
    destruct (handle_of s w); [|discriminate]. destruct (nth_error (g_bps s) n); [|discriminate].
    destruct (i_in_closed b); [discriminate|]. intros _. cbn [set_q g_q]. rewrite !q_get_push. cbn [dest_eqb]. rewrite !app_nil_r. split; reflexivity.
  - unfold emit. destruct (g_closed s); destruct (m_hasseq m); intros _; rewrite !app_nil_r; split; reflexivity.
  - unfold emit. destruct (g_closed s); intros _; rewrite !app_nil_r; split; reflexivity.
  - unfold emit. destruct (g_closed s); intros _; rewrite !app_nil_r; split; reflexivity.
  - intros _. destruct (handle_of s w); rewrite !app_nil_r; [|split; reflexivity].
    destruct (set_handle_frame (set_bps s (bp_upd n bi_unref (g_bps s))) w None) as (X1 & _). rewrite X1. split; reflexivity.
  - intros _. destruct (get_bp s broker) as [s1 b] eqn:E. destruct (get_bp_spec f1 s broker s1 b E) as (_ & _ & Hq & _).
    destruct (set_handle_frame s1 w (Some b)) as (X1 & _). rewrite X1, Hq, !app_nil_r. split; reflexivity.
  - intros _. destruct (find_reg broker (g_bps s) 0%nat); rewrite !app_nil_r; split; reflexivity.
  - destruct w; try discriminate. destruct (nth_error (g_bps s) b); [|discriminate]. intros _. rewrite !app_nil_r. split; reflexivity.
  - intros _. destruct (get_bp s broker) as [s1 b] eqn:E. destruct (get_bp_spec f1 s broker s1 b E) as (_ & _ & Hq & _).
    cbn [set_bps g_q]. rewrite Hq, !app_nil_r. split; reflexivity.
Qed.

(* messages a list of effects puts on the retry path *)
Fixpoint to_retry (l : list effect) : list msg :=
  match l with [] => [] | ESend DRetry m :: r => m :: to_retry r | _ :: r => to_retry r end.

Lemma apply_effs_q c w d l : sh d l = true -> forall s, g_panic (apply_effs c w s l) = None ->
  qd (apply_effs c w s l) = qd s /\ qr (apply_effs c w s l) = qr s ++ to_retry l /\ cnt fresh_pass (to_retry l) = 0.
Proof.
  induction l as [|e l IH]; intros Hs s H.
  - cbn. rewrite app_nil_r. repeat split; reflexivity.
  - rewrite sh_cons in Hs. apply andb_true_iff in Hs as [H1 H2].
    cbn [apply_effs fold_left] in *. fold (apply_effs c w (apply_eff c w s e) l) in *.
    assert (Hp : g_panic (apply_eff c w s e) = None).
    { destruct (g_panic (apply_eff c w s e)) eqn:E; [|reflexivity].
      exfalso. apply (apply_effs_sticky c w l (apply_eff c w s e)); [rewrite E; discriminate|exact H]. }
    destruct (IH H2 _ H) as (A & B & C). destruct (apply_eff_q c w s e Hp) as [Q1 Q2].
    rewrite A, B, Q1, Q2.
    assert (T : forall x, x = qd s -> qd s ++ [] = x) by (intros; subst; apply app_nil_r).
    destruct e; cbn [to_retry]; rewrite ?app_nil_r; try (split; [reflexivity|split; [reflexivity|exact C]]).
    destruct d0; cbn [to_retry shape_ok] in *; rewrite ?app_nil_r; try (split; [reflexivity|split; [reflexivity|exact C]]).
    + discriminate H1.
    + apply negb_true_iff in H1. rewrite <- app_assoc. cbn [app]. split; [reflexivity|split; [reflexivity|]].
      rewrite cnt_cons, H1, C. reflexivity.
Qed.

(* no event-emitting effect: the panic code 1 cannot arise *)
Definition emits (e : effect) : bool := match e with EErr _ _ | ESucc _ _ | ERawErr _ _ => true | _ => false end.
Lemma event1_nonneg l : 0 <= esum (eff_event f1) l.
Proof. induction l as [|e l IH]; [cbn; lia|]. rewrite esum_cons. destruct e; cbn [eff_event]; try lia; change (f1 m) with 1; lia. Qed.
Lemma no_emit_of_sum l : esum (eff_event f1) l = 0 -> existsb emits l = false.
Proof.
  induction l as [|e l IH]; [reflexivity|]. rewrite esum_cons. intros H.
  pose proof (event1_nonneg l) as H0.
  cbn [existsb]. destruct e; cbn [eff_event emits] in *; try (apply IH; lia); exfalso; change (f1 m) with 1 in H; lia.
Qed.
Lemma crash_code_not1 code : Some (100 + Z.abs code) <> Some PANIC_CLOSED_CHANNEL.
Proof.
  unfold PANIC_CLOSED_CHANNEL. intros E.
  assert (X : 100 + Z.abs code = 1) by (apply (f_equal (fun o => match o with Some x => x | None => 0 end)) in E; exact E).
  lia.
Qed.
Lemma apply_eff_not1 c w s e : emits e = false -> g_panic s <> Some PANIC_CLOSED_CHANNEL ->
  g_panic (apply_eff c w s e) <> Some PANIC_CLOSED_CHANNEL.
Proof.
  intros He Hs. destruct e; cbn [apply_eff]; try exact Hs; try discriminate.
  - destruct d; try exact Hs. destruct (handle_of s w); [|cbn; discriminate]. destruct (nth_error (g_bps s) n); [|cbn; discriminate].
    destruct (i_in_closed b); [cbn; discriminate|exact Hs].
  - destruct (handle_of s w); [|exact Hs]. rewrite set_handle_panic. exact Hs.
  - destruct (get_bp s broker) as [s1 b] eqn:E. rewrite set_handle_panic.
    replace s1 with (fst (get_bp s broker)) by (rewrite E; reflexivity). rewrite get_bp_panic. exact Hs.
  - destruct (find_reg broker (g_bps s) 0%nat); exact Hs.
  - destruct w; try (cbn; discriminate). destruct (nth_error (g_bps s) b); [exact Hs|cbn; discriminate].
  - destruct (get_bp s broker) as [s1 b] eqn:E. cbn.
    replace s1 with (fst (get_bp s broker)) by (rewrite E; reflexivity). rewrite get_bp_panic. exact Hs.
  - cbn [set_panic g_panic]. apply crash_code_not1.
Qed.

Lemma apply_effs_not1 c w l : existsb emits l = false -> forall s, g_panic s <> Some PANIC_CLOSED_CHANNEL ->
  g_panic (apply_effs c w s l) <> Some PANIC_CLOSED_CHANNEL.
Proof.
  induction l as [|e l IH]; intros He s Hs; [exact Hs|]. cbn [existsb] in He. apply orb_false_iff in He as [H1 H2].
  cbn [apply_effs fold_left]. apply (IH H2). apply apply_eff_not1; assumption.
Qed.

(* while the channels are open no effect can produce the closed-channel panic *)
Lemma apply_eff_open c w s e : g_closed s = false -> g_panic s <> Some PANIC_CLOSED_CHANNEL ->
  g_panic (apply_eff c w s e) <> Some PANIC_CLOSED_CHANNEL /\ g_closed (apply_eff c w s e) = false.
Proof.
  intros Hc Hs. destruct (emits e) eqn:Ee.
  - destruct e; try discriminate; cbn [apply_eff]; unfold emit; rewrite Hc.
    + destruct (m_hasseq m); cbn; split; assumption.
    + cbn. split; assumption.
    + cbn. split; assumption.
  - split; [apply apply_eff_not1; assumption|].
    destruct (g_panic (apply_eff c w s e)) eqn:Ep.
    + (* a panic other than 1: the flags are whatever they are, but closed is only set by CShutClose *)
      destruct e; cbn [apply_eff] in *; try exact Hc; try discriminate.
      * destruct d; try exact Hc. destruct (handle_of s w); [|exact Hc]. destruct (nth_error (g_bps s) n); [|exact Hc]. destruct (i_in_closed b); exact Hc.
      * destruct (handle_of s w); [|exact Hc]. destruct (set_handle_frame (set_bps s (bp_upd n bi_unref (g_bps s))) w None) as (_ & _ & _ & _ & _ & (_ & _ & _ & _ & X)). rewrite X. exact Hc.
      * destruct (get_bp s broker) as [s1 b] eqn:E. destruct (get_bp_spec f1 s broker s1 b E) as (_ & _ & _ & _ & _ & _ & _ & (_ & _ & _ & _ & Y) & _).
        destruct (set_handle_frame s1 w (Some b)) as (_ & _ & _ & _ & _ & (_ & _ & _ & _ & X)). rewrite X, Y. exact Hc.
      * destruct (find_reg broker (g_bps s) 0%nat); exact Hc.
      * destruct w; try exact Hc. destruct (nth_error (g_bps s) b); exact Hc.
      * destruct (get_bp s broker) as [s1 b] eqn:E. destruct (get_bp_spec f1 s broker s1 b E) as (_ & _ & _ & _ & _ & _ & _ & (_ & _ & _ & _ & Y) & _).
        cbn. rewrite Y. exact Hc.
    + destruct (apply_eff_spec f1 c w s e Ep) as (_ & _ & _ & _ & (_ & _ & _ & _ & X)). rewrite X. exact Hc.
Qed.
Lemma apply_effs_open c w l : forall s, g_closed s = false -> g_panic s <> Some PANIC_CLOSED_CHANNEL ->
  g_panic (apply_effs c w s l) <> Some PANIC_CLOSED_CHANNEL /\ g_closed (apply_effs c w s l) = false.
Proof.
  induction l as [|e l IH]; intros s Hc Hs; [split; assumption|]. cbn [apply_effs fold_left].
  destruct (apply_eff_open c w s e Hc Hs) as [A B]. apply IH; assumption.
Qed.

(* ---------------------------------------------------------------- queues under pop *)

Lemma pop_other d s m s1 : pop d s = Some (m, s1) -> dest_eqb DDisp d = false -> dest_eqb DRetry d = false ->
  qd s1 = qd s /\ qr s1 = qr s.
Proof.
  unfold pop, qd, qr. destruct (q_get d (g_q s)) as [|m' r]; [discriminate|]. intros H H1 H2. injection H as <- <-.
  cbn [set_q g_q]. rewrite !q_get_set, H1, H2. split; reflexivity.
Qed.
Lemma pop_dd s m s1 : pop DDisp s = Some (m, s1) -> qd s = m :: qd s1 /\ qr s1 = qr s.
Proof.
  unfold pop, qd, qr. destruct (q_get DDisp (g_q s)) as [|m' r] eqn:E; [discriminate|]. intros H. injection H as <- <-.
  cbn [set_q g_q]. rewrite !q_get_set. cbn [dest_eqb]. split; reflexivity.
Qed.
Lemma pop_dr s m s1 : pop DRetry s = Some (m, s1) -> qr s = m :: qr s1 /\ qd s1 = qd s.
Proof.
  unfold pop, qd, qr. destruct (q_get DRetry (g_q s)) as [|m' r] eqn:E; [discriminate|]. intros H. injection H as <- <-.
  cbn [set_q g_q]. rewrite !q_get_set. cbn [dest_eqb]. split; reflexivity.
Qed.
Lemma pop_ctl d s m s1 : pop d s = Some (m, s1) -> same_ctl s s1.
Proof. intros H. destruct (pop_spec d s m s1 H) as (_ & _ & _ & _ & _ & _ & _ & _ & _ & _ & _ & _ & X). exact X. Qed.

(* an empty pipeline has nothing to pop *)
Lemma wsum_f1_zero l : wsum f1 l = 0 -> l = [].
Proof. destruct l as [|m l]; [reflexivity|]. rewrite wsum_cons. pose proof (wsum_nonneg f1 l (proj2 f1_okw)). unfold f1 at 1. lia. Qed.
Lemma empty_pop d s : total f1 s = 0 -> pop d s = None.
Proof.
  intros H. unfold pop. pose proof (total_ge_queue f1 d s (proj2 f1_okw)). pose proof (wsum_nonneg f1 (q_get d (g_q s)) (proj2 f1_okw)).
  rewrite (wsum_f1_zero (q_get d (g_q s))) by lia. reflexivity.
Qed.

(* ---------------------------------------------------------------- a step of an empty pipeline *)

Lemma sets_w_nonneg f l : nonneg f -> 0 <= sets_w f l.
Proof. intros H. induction l as [|x r IH]; simpl; [lia|]. pose proof (parts_w_nonneg f (s_parts x) H). unfold set_w. lia. Qed.
Lemma resps_w_nonneg f l : nonneg f -> 0 <= resps_w f l.
Proof. intros H. induction l as [|[x y] r IH]; simpl; [lia|]. pose proof (parts_w_nonneg f (s_parts x) H). unfold set_w. lia. Qed.
Lemma bp_w_nonneg f st : nonneg f -> 0 <= bp_w f st.
Proof.
  intros H. unfold bp_w, set_w. pose proof (parts_w_nonneg f (s_parts (b_buf st)) H).
  assert (0 <= wait_w f (b_wait st)) by (destruct (b_wait st); simpl; try lia; apply H). lia.
Qed.
Lemma bpi_parts_nonneg f x : nonneg f ->
  0 <= bp_w f (i_st x) /\ 0 <= sets_w f (i_bridge x) /\ 0 <= match i_infl x with Some s0 => set_w f s0 | None => 0 end /\ 0 <= resps_w f (i_resp x).
Proof.
  intros H. repeat split; [apply bp_w_nonneg, H|apply sets_w_nonneg, H| |apply resps_w_nonneg, H].
  destruct (i_infl x); [apply parts_w_nonneg, H|lia].
Qed.
Lemma bps_w_nonneg f l : nonneg f -> 0 <= bps_w f l.
Proof. intros H. induction l as [|x r IH]; simpl; [lia|]. destruct (bpi_parts_nonneg f x H) as (A & B & C & D). unfold bpi_w. lia. Qed.
Lemma bpi_le_bps f l b x : nonneg f -> nth_error l b = Some x -> bpi_w f x <= bps_w f l.
Proof.
  intros H. revert b. induction l as [|y r IH]; intros [|b] E; simpl in *; try discriminate.
  - injection E as ->. pose proof (bps_w_nonneg f r H). lia.
  - specialize (IH _ E). destruct (bpi_parts_nonneg f y H) as (A & B & C & D). unfold bpi_w at 2. lia.
Qed.
Lemma bpi_le_total f s b x : nonneg f -> nth_error (g_bps s) b = Some x -> bpi_w f x <= total f s.
Proof.
  intros H E. pose proof (bpi_le_bps f _ _ _ H E). pose proof (total_nonneg f (set_bps s []) H) as H00. unfold total in *. cbn in H00. lia.
Qed.
Lemma place_nonneg f l : nonneg f -> 0 <= esum (eff_place f) l.
Proof.
  intros H. induction l as [|e l IH]; [cbn; lia|]. rewrite esum_cons.
  assert (0 <= eff_place f e); [|lia]. destruct e; cbn [eff_place]; try lia; try apply H; try (apply parts_w_nonneg, H). apply wsum_nonneg, H.
Qed.
Lemma event_nonneg f l : nonneg f -> 0 <= esum (eff_event f) l.
Proof. intros H. induction l as [|e l IH]; [cbn; lia|]. rewrite esum_cons. assert (0 <= eff_event f e); [|lia]. destruct e; cbn [eff_event]; try lia; apply H. Qed.

Lemma bp_no_crash c ep st i : (forall m, i <> BRecv m) -> has_crash (snd (bp_step c ep st i)) = false.
Proof.
  intros Hi. unfold bp_step.
  assert (HX : has_crash (snd (fst (bp_core c ep st i))) = false); [|destruct (bp_core c ep st i) as [[st' effs] upd]; exact HX].
  unfold bp_core. destruct i as [m| | | |sent r]; [exfalso; apply (Hi m); reflexivity| | | |].
  - destruct (b_mode st), (b_wait st); reflexivity.
  - destruct (b_timer st && flush_poll st); reflexivity.
  - destruct (flush_enabled st); [|reflexivity]. destruct (b_wait st) as [|m|m]; [reflexivity| |].
    + destruct (after_over_balance f1 c (with_wait (rollover st ep) WNone) m f1_stable eq_refl) as (_ & B & _).
      destruct (after_over c (with_wait (rollover st ep) WNone) m) as [[st2 e2] u]. cbn [fst snd] in *. exact B.
    + destruct (do_add_balance f1 c (with_wait (rollover st ep) WNone) m f1_stable) as (_ & B & _).
      destruct (do_add c (with_wait (rollover st ep) WNone) m) as [[st2 e2] u]. cbn [fst snd] in *. exact B.
  - destruct (handle_response_balance f1 c ep st sent r f1_stable) as (_ & B & _).
    destruct (handle_response c ep st sent r) as [st1 effs]. cbn [fst snd] in *.
    destruct (b_wait st1) as [|m|m]; [exact B| |].
    + destruct (needs_retry st1 m).
      * cbn [fst snd]. rewrite has_crash_app, B. cbn. unfold retry_msg. destruct (c_retry_max c <=? m_retries m)%nat; reflexivity.
      * destruct (would_overflow c (b_buf st1) m); [exact B|].
        destruct (after_over_balance f1 c (with_wait st1 WNone) m f1_stable eq_refl) as (_ & B2 & _).
        destruct (after_over c (with_wait st1 WNone) m) as [[st2 e2] u]. cbn [fst snd] in *. rewrite has_crash_app, B, B2. reflexivity.
    + destruct (needs_retry st1 m); [|exact B].
      cbn [fst snd]. rewrite has_crash_app, B. cbn. unfold retry_msg. destruct (c_retry_max c <=? m_retries m)%nat; reflexivity.
Qed.

Lemma run_bp_quiet c s b x i : total f1 s = 0 -> nth_error (g_bps s) b = Some x -> in_w f1 i = 0 ->
  (forall m, i <> BRecv m) -> g_panic s <> Some PANIC_CLOSED_CHANNEL ->
  g_panic (run_bp c s b x i) <> Some PANIC_CLOSED_CHANNEL /\
  (g_panic (run_bp c s b x i) = None -> total f1 (run_bp c s b x i) = 0).
Proof.
  intros Ht Hx Hin Hi Hs. unfold run_bp.
  pose proof (bp_balance f1 c (g_epoch s) (i_st x) i f1_stable) as Bal.
  pose proof (bp_no_crash c (g_epoch s) (i_st x) i Hi) as Hc.
  pose proof (nn_bp c (g_epoch s) (i_st x) i) as NN.
  destruct (bp_step c (g_epoch s) (i_st x) i) as [st' effs]. cbn [fst snd] in *. specialize (Bal Hc).
  pose proof (bpi_le_total f1 s b x (proj2 f1_okw) Hx) as Hle.
  destruct (bpi_parts_nonneg f1 x (proj2 f1_okw)) as (P1 & P2 & P3 & P4). unfold bpi_w in Hle.
  pose proof (bp_w_nonneg f1 st' (proj2 f1_okw)) as Q1.
  rewrite esum_net_split, esum_pe_split, (no_new_sum f1 effs NN) in Bal.
  pose proof (place_nonneg f1 effs (proj2 f1_okw)) as Q2. pose proof (event_nonneg f1 effs (proj2 f1_okw)) as Q3.
  pose proof (sh_sink_nonneg f1 effs (proj2 f1_okw)) as Q4.
  assert (Ev0 : esum (eff_event f1) effs = 0) by lia.
  set (s0 := set_bps s (bp_upd b (fun y => bi_with_st y st') (g_bps s))).
  assert (Hs0 : g_panic s0 <> Some PANIC_CLOSED_CHANNEL) by exact Hs.
  split; [apply apply_effs_not1; [apply no_emit_of_sum, Ev0|exact Hs0]|].
  intros Hp. destruct (apply_effs_spec c (WBp b) effs s0 Hp) as (A & _). destruct (A f1) as [A1 _]. rewrite A1.
  subst s0. unfold total. cbn [set_bps g_q g_pps g_bps g_rbs]. rewrite (bps_w_upd f1 _ _ _ _ Hx). unfold total in *. unfold bpi_w. cbn [bi_with_st i_st i_bridge i_infl i_resp]. lia.
Qed.

(* ---------------------------------------------------------------- how a step changes the view *)

Definition vsame (s s' : state) (extra : list msg) : Prop :=
  qd s' = qd s /\ qr s' = qr s ++ extra /\ cnt fresh_pass extra = 0 /\ same_ctl s s'.

Lemma vsame_refl s : vsame s s [].
Proof. unfold vsame. rewrite app_nil_r. split; [reflexivity|]. split; [reflexivity|]. split; [reflexivity|]. apply same_ctl_refl. Qed.
Lemma vsame_set_bps s x : vsame s (set_bps s x) [].
Proof. unfold vsame. rewrite app_nil_r. split; [reflexivity|]. split; [reflexivity|]. split; [reflexivity|]. unfold same_ctl. cbn. tauto. Qed.
Lemma vsame_trans a b c0 e1 e2 : vsame a b e1 -> vsame b c0 e2 -> vsame a c0 (e1 ++ e2).
Proof.
  intros (A1 & A2 & A3 & A4) (B1 & B2 & B3 & B4). unfold vsame. rewrite B1, A1, B2, A2, app_assoc, cnt_app, A3, B3.
  split; [reflexivity|]. split; [reflexivity|]. split; [reflexivity|]. eapply same_ctl_trans; eassumption.
Qed.

Lemma effs_vsame c w d l s : sh d l = true -> g_panic (apply_effs c w s l) = None -> vsame s (apply_effs c w s l) (to_retry l).
Proof.
  intros Hs Hp. destruct (apply_effs_q c w d l Hs s Hp) as (A & B & C).
  destruct (apply_effs_spec c w l s Hp) as (_ & _ & _ & D). unfold vsame. auto.
Qed.

Lemma run_bp_vsame c s b x i : g_panic (run_bp c s b x i) = None -> exists extra, vsame s (run_bp c s b x i) extra.
Proof.
  unfold run_bp. pose proof (bp_shape c (g_epoch s) (i_st x) i) as Shp.
  destruct (bp_step c (g_epoch s) (i_st x) i) as [st' effs]. cbn [snd] in Shp. intros Hp.
  specialize (Shp (no_crash_of_no_panic _ _ _ _ Hp)). exists (to_retry effs).
  exact (effs_vsame c (WBp b) false effs _ Shp Hp).
Qed.
Lemma run_pp_vsame c s k x m ls : g_panic (run_pp c s k x m ls) = None -> exists extra, vsame s (run_pp c s k x m ls) extra.
Proof.
  unfold run_pp.
  match goal with |- context [pp_step c ?a ?b0 ?st ?mm ?ab ?stamp ?l] =>
    pose proof (pp_shape c a b0 st mm ab stamp l) as Shp; destruct (pp_step c a b0 st mm ab stamp l) as [st' effs] end.
  cbn [snd] in Shp. intros Hp. exists (to_retry effs). exact (effs_vsame c (WPp k) false effs _ Shp Hp).
Qed.

Definition is_actor (ch : choice) : bool :=
  match ch with
  | CTp _ | CPp _ _ _ | CBpRecv _ | CBpTimer _ | CBpFlush _ | CBridge _ | CAnswer _ _ | CBpResp _ | CRb _ _ => true
  | _ => false
  end.

Lemma pop_vsame d s m s1 : pop d s = Some (m, s1) -> dest_eqb DDisp d = false -> dest_eqb DRetry d = false -> vsame s s1 [].
Proof.
  intros H H1 H2. destruct (pop_other d s m s1 H H1 H2) as [A B]. unfold vsame. rewrite A, B, app_nil_r.
  split; [reflexivity|]. split; [reflexivity|]. split; [reflexivity|]. eapply pop_ctl; eassumption.
Qed.

Lemma actor_vsame c s ch : is_actor ch = true -> g_panic (raw_step c s ch) = None ->
  exists extra, vsame s (raw_step c s ch) extra.
Proof.
  destruct ch; try discriminate; intros _; cbn [raw_step].
  - (* CTp *)
    destruct (pop (DTopic t) s) as [[m s1]|] eqn:Ep; [|intros _; eexists; apply vsame_refl].
    intros Hp. eexists. eapply vsame_trans; [eapply pop_vsame; [exact Ep|reflexivity|reflexivity]|].
    exact (effs_vsame c WOther false _ _ (tp_shape m) Hp).
  - (* CPp *)
    destruct (pop (DPart t p) s) as [[m s1]|] eqn:Ep; [|intros _; eexists; apply vsame_refl].
    pose proof (pop_vsame _ _ _ _ Ep eq_refl eq_refl) as V1.
    destruct (pp_get (t, p) (g_pps s1)) as [x|].
    + intros Hp. destruct (run_pp_vsame c s1 (t, p) x m ls Hp) as [ex V2]. eexists. eapply vsame_trans; eassumption.
    + destruct (next_lres ls) as [l0 ls']. pose proof (pp_init_shape c t p l0) as Shp0.
      destruct (pp_init c t p l0) as [st0 effs0]. cbn [snd] in Shp0.
      set (s2 := set_pps s1 (pp_set (t, p) (mkPpr st0 None) (g_pps s1))).
      set (s3 := apply_effs c (WPp (t, p)) s2 effs0).
      set (x := match pp_get (t, p) (g_pps s3) with Some x => x | None => mkPpr st0 None end).
      intros Hp. assert (Hp3 : g_panic s3 = None).
      { destruct (g_panic s3) eqn:E3; [|reflexivity]. exfalso.
        unfold run_pp in Hp. destruct (pp_step _ _ _ _ _ _ _ _) as [st' effs].
        apply (apply_effs_sticky c (WPp (t, p)) effs (set_pps s3 (pp_set (t, p) (mkPpr st' (pr_h x)) (g_pps s3)))); [cbn; rewrite E3; discriminate|exact Hp]. }
      pose proof (effs_vsame c (WPp (t, p)) false effs0 s2 Shp0 Hp3) as V2. fold s3 in V2.
      destruct (run_pp_vsame c s3 (t, p) x m ls' Hp) as [ex V3].
      eexists. eapply vsame_trans; [exact V1|]. eapply vsame_trans; [exact V2|exact V3].
  - (* CBpRecv *)
    destruct (nth_error (g_bps s) b) as [x|]; [|intros _; eexists; apply vsame_refl].
    destruct (flush_poll (i_st x)); [|intros _; eexists; apply vsame_refl].
    destruct (pop (DBp b) s) as [[m s1]|] eqn:Ep.
    + intros Hp. destruct (run_bp_vsame c s1 b x _ Hp) as [ex V2]. eexists.
      eapply vsame_trans; [eapply pop_vsame; [exact Ep|reflexivity|reflexivity]|exact V2].
    + destruct (i_in_closed x); [|intros _; eexists; apply vsame_refl]. apply run_bp_vsame.
  - destruct (nth_error (g_bps s) b) as [x|]; [|intros _; eexists; apply vsame_refl]. apply run_bp_vsame.
  - destruct (nth_error (g_bps s) b) as [x|]; [|intros _; eexists; apply vsame_refl]. apply run_bp_vsame.
  - destruct (nth_error (g_bps s) b) as [x|]; [|intros _; eexists; apply vsame_refl].
    destruct (i_infl x); [intros _; eexists; apply vsame_refl|]. destruct (i_bridge x); intros _; eexists; [apply vsame_refl|apply vsame_set_bps].
  - destruct (nth_error (g_bps s) b) as [x|]; [|intros _; eexists; apply vsame_refl].
    destruct (i_infl x); intros _; eexists; [apply vsame_set_bps|apply vsame_refl].
  - (* CBpResp *)
    destruct (nth_error (g_bps s) b) as [x|]; [|intros _; eexists; apply vsame_refl].
    destruct (i_resp x) as [|[st r] rest]; [intros _; eexists; apply vsame_refl|].
    destruct (nth_error _ b) as [x1|]; [|intros _; eexists; apply vsame_refl].
    intros Hp. destruct (run_bp_vsame c _ b x1 _ Hp) as [ex V]. exists ex. exact V.
  - (* CRb *)
    destruct (nth_error (g_rbs s) i) as [tk|]; [|intros _; eexists; apply vsame_refl].
    intros Hp. eexists. exact (effs_vsame c WOther false _ _ (rb_shape c (g_epoch s) (rb_k tk) (rb_ms tk) (rb_e tk) l) Hp).
Qed.

(* ---------------------------------------------------------------- open channels: no closed-channel panic *)

Lemma pop_closed d s m s1 : pop d s = Some (m, s1) -> g_closed s1 = g_closed s /\ g_panic s1 = g_panic s.
Proof.
  intros H. destruct (pop_spec d s m s1 H) as (_ & _ & _ & _ & _ & _ & _ & _ & _ & _ & _ & P & (_ & _ & _ & _ & C)). auto.
Qed.

Lemma open_raw c s ch : g_closed s = false -> g_panic s <> Some PANIC_CLOSED_CHANNEL ->
  g_panic (raw_step c s ch) <> Some PANIC_CLOSED_CHANNEL.
Proof.
  intros Hc Hs.
  assert (BP : forall s0 b x i, g_closed s0 = false -> g_panic s0 <> Some PANIC_CLOSED_CHANNEL ->
                g_panic (run_bp c s0 b x i) <> Some PANIC_CLOSED_CHANNEL).
  { intros s0 b x i C0 P0. unfold run_bp. destruct (bp_step c (g_epoch s0) (i_st x) i) as [st' effs]. apply apply_effs_open; assumption. }
  assert (PP : forall s0 k x m ls, g_closed s0 = false -> g_panic s0 <> Some PANIC_CLOSED_CHANNEL ->
                g_panic (run_pp c s0 k x m ls) <> Some PANIC_CLOSED_CHANNEL).
  { intros s0 k x m ls C0 P0. unfold run_pp. destruct (pp_step _ _ _ _ _ _ _ _) as [st' effs]. apply apply_effs_open; assumption. }
  destruct ch; cbn [raw_step].
  - destruct (g_close_req s); exact Hs.
  - destruct (g_close_req s); exact Hs.
  - destruct (pop DDisp s) as [[m s1]|] eqn:Ep; [|exact Hs]. destruct (pop_closed _ _ _ _ Ep) as [C1 P1].
    destruct (disp_step c (g_disp s1) m) as [d' effs]. apply apply_effs_open; cbn; [rewrite C1|rewrite P1]; assumption.
  - destruct (pop (DTopic t) s) as [[m s1]|] eqn:Ep; [|exact Hs]. destruct (pop_closed _ _ _ _ Ep) as [C1 P1].
    apply apply_effs_open; [rewrite C1|rewrite P1]; assumption.
  - destruct (pop (DPart t p) s) as [[m s1]|] eqn:Ep; [|exact Hs]. destruct (pop_closed _ _ _ _ Ep) as [C1 P1].
    destruct (pp_get (t, p) (g_pps s1)) as [x|]; [apply PP; [rewrite C1|rewrite P1]; assumption|].
    destruct (next_lres ls) as [l0 ls']. destruct (pp_init c t p l0) as [st0 effs0].
    set (s2 := set_pps s1 (pp_set (t, p) (mkPpr st0 None) (g_pps s1))).
    assert (C2 : g_closed s2 = false) by (subst s2; cbn; rewrite C1; exact Hc).
    assert (P2 : g_panic s2 <> Some PANIC_CLOSED_CHANNEL) by (subst s2; cbn; rewrite P1; exact Hs).
    destruct (apply_effs_open c (WPp (t, p)) effs0 s2 C2 P2) as [P3 C3].
    apply PP; assumption.
  - destruct (nth_error (g_bps s) b) as [x|]; [|exact Hs]. destruct (flush_poll (i_st x)); [|exact Hs].
    destruct (pop (DBp b) s) as [[m s1]|] eqn:Ep.
    + destruct (pop_closed _ _ _ _ Ep) as [C1 P1]. apply BP; [rewrite C1|rewrite P1]; assumption.
    + destruct (i_in_closed x); [apply BP; assumption|exact Hs].
  - destruct (nth_error (g_bps s) b) as [x|]; [apply BP; assumption|exact Hs].
  - destruct (nth_error (g_bps s) b) as [x|]; [apply BP; assumption|exact Hs].
  - destruct (nth_error (g_bps s) b) as [x|]; [|exact Hs]. destruct (i_infl x); [exact Hs|]. destruct (i_bridge x); exact Hs.
  - destruct (nth_error (g_bps s) b) as [x|]; [|exact Hs]. destruct (i_infl x); exact Hs.
  - destruct (nth_error (g_bps s) b) as [x|]; [|exact Hs]. destruct (i_resp x) as [|[st r] rest]; [exact Hs|].
    destruct (nth_error _ b) as [x1|]; [|exact Hs]. apply BP; assumption.
  - destruct (nth_error (g_rbs s) i) as [tk|]; [|exact Hs]. apply apply_effs_open; assumption.
  - destruct (pop DRetry s) as [[m s1]|] eqn:Ep; [|exact Hs]. destruct (pop_closed _ _ _ _ Ep) as [C1 P1]. cbn. rewrite P1. exact Hs.
  - destruct (g_close_req s && negb (g_woken s) && (g_inflight s =? 0)); exact Hs.
  - destruct (g_woken s && negb (g_closed s)); exact Hs.
Qed.

(* ---------------------------------------------------------------- an empty pipeline stays empty and emits nothing *)

Lemma quiet_raw c s ch : total f1 s = 0 -> g_close_req s = true -> g_panic s <> Some PANIC_CLOSED_CHANNEL ->
  g_panic (raw_step c s ch) <> Some PANIC_CLOSED_CHANNEL /\ (g_panic (raw_step c s ch) = None -> total f1 (raw_step c s ch) = 0).
Proof.
  intros Ht Hr Hs.
  assert (Same : g_panic s <> Some PANIC_CLOSED_CHANNEL /\ (g_panic s = None -> total f1 s = 0)) by (split; [exact Hs|intros _; exact Ht]).
  destruct ch; cbn [raw_step]; rewrite ?Hr, ?(empty_pop _ s Ht); try exact Same.
  - (* CBpRecv *)
    destruct (nth_error (g_bps s) b) as [x|] eqn:Ex; [|exact Same]. destruct (flush_poll (i_st x)); [|exact Same].
    destruct (i_in_closed x); [|exact Same].
    apply run_bp_quiet; try assumption; [reflexivity|discriminate].
  - destruct (nth_error (g_bps s) b) as [x|] eqn:Ex; [|exact Same]. apply run_bp_quiet; try assumption; [reflexivity|discriminate].
  - destruct (nth_error (g_bps s) b) as [x|] eqn:Ex; [|exact Same]. apply run_bp_quiet; try assumption; [reflexivity|discriminate].
  - (* CBridge *)
    destruct (nth_error (g_bps s) b) as [x|] eqn:Ex; [|exact Same].
    destruct (i_infl x) eqn:Ei; [exact Same|]. destruct (i_bridge x) as [|st r] eqn:Eb; [exact Same|].
    split; [exact Hs|]. intros _. unfold total in *. cbn [set_bps g_q g_pps g_bps g_rbs]. rewrite (bps_w_upd f1 _ _ _ _ Ex).
    unfold bpi_w. cbn. rewrite Ei, Eb. cbn. lia.
  - (* CAnswer *)
    destruct (nth_error (g_bps s) b) as [x|] eqn:Ex; [|exact Same].
    destruct (i_infl x) as [st|] eqn:Ei; [|exact Same].
    split; [exact Hs|]. intros _. unfold total in *. cbn [set_bps g_q g_pps g_bps g_rbs]. rewrite (bps_w_upd f1 _ _ _ _ Ex).
    unfold bpi_w. cbn. rewrite Ei, resps_w_app. cbn. lia.
  - (* CBpResp *)
    destruct (nth_error (g_bps s) b) as [x|] eqn:Ex; [|exact Same].
    destruct (i_resp x) as [|[st r] rest] eqn:Er; [exact Same|].
    set (s1 := set_bps s (bp_upd b (fun y => bi_with_bridge y (i_bridge y) (i_infl y) rest) (g_bps s))).
    assert (Ex1 : nth_error (g_bps s1) b = Some (bi_with_bridge x (i_bridge x) (i_infl x) rest))
      by (subst s1; exact (nth_error_bp_upd_same b (fun y => bi_with_bridge y (i_bridge y) (i_infl y) rest) (g_bps s) x Ex)).
    rewrite Ex1.
    pose proof (bpi_le_total f1 s b x (proj2 f1_okw) Ex) as Hle. destruct (bpi_parts_nonneg f1 x (proj2 f1_okw)) as (P1 & P2 & P3 & P4).
    unfold bpi_w in Hle. rewrite Er in Hle, P4. cbn [resps_w] in Hle, P4.
    pose proof (parts_w_nonneg f1 (s_parts st) (proj2 f1_okw)) as Q1. pose proof (resps_w_nonneg f1 rest (proj2 f1_okw)) as Q2. unfold set_w in *.
    assert (Ht1 : total f1 s1 = 0).
    { subst s1. unfold total in *. cbn [set_bps g_q g_pps g_bps g_rbs]. rewrite (bps_w_upd f1 _ _ _ _ Ex). unfold bpi_w. cbn. rewrite Er. cbn. unfold set_w. lia. }
    apply run_bp_quiet; try assumption; [cbn [in_w]; unfold set_w; lia|discriminate].
  - (* CRb *)
    destruct (nth_error (g_rbs s) i) as [tk|] eqn:Ei; [|exact Same].
    assert (Hms : rb_ms tk = []).
    { apply wsum_f1_zero. pose proof (rbs_w_remove f1 _ _ _ Ei) as R.
      assert (0 <= rbs_w f1 (remove_nth i (g_rbs s))) by (generalize (remove_nth i (g_rbs s)); induction l0 as [|y r IH]; simpl; [lia|]; pose proof (wsum_nonneg f1 (rb_ms y) (proj2 f1_okw)); lia).
      pose proof (wsum_nonneg f1 (rb_ms tk) (proj2 f1_okw)).
      pose proof (total_nonneg f1 (set_rbs s []) (proj2 f1_okw)) as T0. unfold total in *. cbn in T0. lia. }
    set (s1 := set_rbs s (remove_nth i (g_rbs s))).
    assert (Ht1 : total f1 s1 = 0).
    { subst s1. unfold total in *. cbn [set_rbs g_q g_pps g_bps g_rbs]. rewrite (rbs_w_remove f1 _ _ _ Ei), Hms. cbn. lia. }
    assert (Hs1 : g_panic s1 <> Some PANIC_CLOSED_CHANNEL) by exact Hs.
    rewrite Hms. unfold rb_step. cbn [first_exhausted map].
    destruct l as [bk|e0].
    + split; [apply apply_effs_not1; [reflexivity|exact Hs1]|].
      intros Hp. destruct (apply_effs_spec c WOther _ s1 Hp) as (A & _). destruct (A f1) as [A1 _]. rewrite A1, Ht1. reflexivity.
    + cbn. split; [exact Hs1|intros _; exact Ht1].
  - (* CShutWake *)
    destruct (true && negb (g_woken s) && (g_inflight s =? 0)); [|exact Same]. split; [exact Hs|intros _; exact Ht].
  - (* CShutClose *)
    destruct (g_woken s && negb (g_closed s)); [|exact Same]. split; [exact Hs|intros _; exact Ht].
Qed.

(* ---------------------------------------------------------------- the invariant is inductive *)

Lemma generic_facts c s ch : c_fix_rb c = true -> g_panic (raw_step c s ch) = None ->
  cons_q gsh (raw_step c s ch) <= cons_q gsh s + close_term gsh c s ch /\ infl_q (raw_step c s ch) = infl_q s.
Proof.
  intros Hfix Hp. destruct (raw_step_delta c s ch Hfix Hp) as [A B]. split; [|exact B].
  destruct (A gsh gsh_okw) as (k & n & [K1 _] & [_ N2] & _ & E). rewrite (N2 gsh_marker_free) in E. lia.
Qed.

Lemma kinv_init : kinv init.
Proof. constructor; cbn; try reflexivity; try discriminate; try lia; intros; discriminate. Qed.

Lemma kinv_actor s s' extra : kinv s -> vsame s s' extra -> g_panic s' = None ->
  cons_q gsh s' <= cons_q gsh s -> infl_q s' = infl_q s -> (g_woken s = true -> total f1 s' = 0) -> kinv s'.
Proof.
  intros K (V1 & V2 & V3 & (C1 & C2 & C3 & C4 & C5)) Hp Hc Hi Ht.
  constructor.
  - rewrite V2, cnt_app, V3, (k1 s K). reflexivity.
  - rewrite V1. apply (k3 s K).
  - rewrite C1, C3, V1. apply (k4 s K).
  - rewrite C1, C3, V1. apply (k5 s K).
  - rewrite V1. apply (k8 s K).
  - rewrite C1, C3. pose proof (kb s K). lia.
  - rewrite C2. apply (ks s K).
  - rewrite C4, C3. intros W. split; [apply (k6 s K W)|apply Ht, W].
  - rewrite C5, C4. apply (k6c s K).
  - rewrite Hp. discriminate.
  - rewrite Hi. apply (ki s K).
Qed.

Lemma no_shut_before_close s : kinv s -> g_close_req s = false -> d_shut (g_disp s) = false /\ cnt shut0 (qd s) = 0 /\ g_woken s = false.
Proof.
  intros K Hr. assert (D : d_shut (g_disp s) = false).
  { destruct (d_shut (g_disp s)) eqn:E; [|reflexivity]. destruct (k4 s K E) as [X _]. congruence. }
  split; [exact D|]. split.
  - pose proof (shut_budget s K) as B. rewrite Hr, D in B.
    pose proof (total_ge_queue gsh DDisp s (proj2 gsh_okw)) as T. pose proof (cnt_shut0_le_gsh (qd s)). pose proof (cnt_nonneg shut0 (qd s)). unfold qd in *. lia.
  - destruct (g_woken s) eqn:E; [|reflexivity]. destruct (k6 s K E) as [X _]. congruence.
Qed.

Lemma counted_ge_markers l : cnt shut0 l <= wsum f1 l - cnt fresh_un l.
Proof.
  induction l as [|m l IH]; [cbn; lia|]. rewrite !cnt_cons, wsum_cons. change (f1 m) with 1.
  assert (E : (if shut0 m then 1 else 0) <= 1 - (if fresh_un m then 1 else 0))
    by (unfold shut0, fresh_un; destruct (fresh_pass m); destruct (is_shut m); cbn; lia).
  lia.
Qed.
Lemma counted_nonneg l : 0 <= wsum f1 l - cnt fresh_un l.
Proof. induction l as [|m l IH]; [cbn; lia|]. rewrite !cnt_cons, wsum_cons. change (f1 m) with 1. destruct (fresh_un m); lia. Qed.

Lemma kinv_raw c s ch : c_fix_rb c = true -> kinv s -> g_panic s = None -> g_panic (raw_step c s ch) = None ->
  kinv (raw_step c s ch).
Proof.
  intros Hfix K Hs Hp.
  destruct (generic_facts c s ch Hfix Hp) as [Gc Gi].
  assert (Hs1 : g_panic s <> Some PANIC_CLOSED_CHANNEL) by (rewrite Hs; discriminate).
  destruct (is_actor ch) eqn:Ea.
  { destruct (actor_vsame c s ch Ea Hp) as [extra V].
    apply (kinv_actor s _ extra K V Hp); [|exact Gi|].
    - destruct ch; try discriminate; cbn [close_term] in Gc; lia.
    - intros W. destruct (k6 s K W) as [R T]. apply (quiet_raw c s ch T R Hs1), Hp. }
  destruct ch; try discriminate; cbn [raw_step close_term] in *.
  - (* CSubmit *)
    destruct (g_close_req s) eqn:Er; [exact K|].
    destruct (no_shut_before_close s K Er) as (D & S0 & W).
    assert (Qd : qd (add_submitted (set_q s (q_push DDisp (fresh_of m) (g_q s))) (fresh_of m)) = qd s ++ [fresh_of m])
      by (unfold qd; cbn [add_submitted set_q g_q]; rewrite q_get_push; reflexivity).
    assert (Qr : qr (add_submitted (set_q s (q_push DDisp (fresh_of m) (g_q s))) (fresh_of m)) = qr s)
      by (unfold qr; cbn [add_submitted set_q g_q]; rewrite q_get_push; reflexivity).
    constructor; rewrite ?Qd, ?Qr; cbn [add_submitted set_q g_disp g_close_req g_woken g_closed g_submitted g_panic].
    + apply (k1 s K).
    + apply fam_app_fresh, S0.
    + rewrite D. discriminate.
    + rewrite Er. discriminate.
    + rewrite cnt_app, (k8 s K). reflexivity.
    + rewrite Er, D in *. pose proof (kb s K) as B. rewrite Er, D in B. lia.
    + rewrite wsum_app, (ks s K). reflexivity.
    + rewrite W. discriminate.
    + apply (k6c s K).
    + rewrite Hs. discriminate.
    + rewrite Gi. apply (ki s K).
  - (* CAsyncClose *)
    destruct (g_close_req s) eqn:Er; [exact K|].
    destruct (no_shut_before_close s K Er) as (D & S0 & W).
    set (s' := add_inflight (set_q (set_flags s true (g_woken s) (g_closed s)) (q_push DDisp (shutdown_marker c) (g_q (set_flags s true (g_woken s) (g_closed s))))) 1) in *.
    assert (Qd : qd s' = qd s ++ [shutdown_marker c]) by (unfold qd, s'; cbn [add_inflight set_q set_flags g_q]; rewrite q_get_push; reflexivity).
    assert (Qr : qr s' = qr s) by (unfold qr, s'; cbn [add_inflight set_q set_flags g_q]; rewrite q_get_push; reflexivity).
    constructor; rewrite ?Qd, ?Qr; subst s'; cbn [add_inflight set_q set_flags g_disp g_close_req g_woken g_closed g_submitted g_panic] in *.
    + apply (k1 s K).
    + rewrite fam_app_plain by reflexivity. apply (k3 s K).
    + rewrite D. discriminate.
    + intros _ _. rewrite cnt_app. pose proof (cnt_nonneg shut0 (qd s)). cbn. lia.
    + rewrite cnt_app, (k8 s K). reflexivity.
    + rewrite D. pose proof (kb s K) as B. rewrite Er, D in B. change (gsh (shutdown_marker c)) with 1 in Gc. lia.
    + apply (ks s K).
    + rewrite W. discriminate.
    + apply (k6c s K).
    + rewrite Hs. discriminate.
    + rewrite Gi. apply (ki s K).
  - (* CDisp *)
    destruct (pop DDisp s) as [[m s1]|] eqn:Ep; [|exact K].
    destruct (pop_dd s m s1 Ep) as [Qd1 Qr1]. pose proof (pop_ctl _ _ _ _ Ep) as (C1 & C2 & C3 & C4 & C5).
    assert (W : g_woken s = false).
    { destruct (g_woken s) eqn:E; [|reflexivity]. destruct (k6 s K E) as [_ T]. rewrite (empty_pop DDisp s T) in Ep. discriminate. }
    pose proof (disp_shape c (g_disp s1) m) as [Shp _].
    assert (Dd : fst (disp_step c (g_disp s1) m) = if is_shut m then mkDisp true else g_disp s1).
    { unfold disp_step. destruct (is_shut m); [reflexivity|]. destruct (fresh_pass m && d_shut (g_disp s1)); [reflexivity|].
      destruct (if c_fix_ic c then fresh_pass m && is_data m else true).
      - destruct (apply_ics _ _ _ _ _ _) as [[sz h] ics]. destruct (negb (c_v2 c) && h); [|destruct (c_max_msg_bytes c <? sz)]; reflexivity.
      - destruct (negb (c_v2 c) && m_hdr m); [|destruct (c_max_msg_bytes c <? m_size m)]; reflexivity. }
    assert (Eff : is_shut m = true -> snd (disp_step c (g_disp s1) m) = [EDone m]) by (intros E; unfold disp_step; rewrite E; reflexivity).
    destruct (disp_step c (g_disp s1) m) as [d' effs] eqn:Eds. cbn [fst snd] in *.
    pose proof (effs_vsame c WOther true effs (set_disp s1 d') Shp Hp) as (V1 & V2 & V3 & (E1 & E2 & E3 & E4 & E5)).
    cbn [set_disp g_disp g_close_req g_woken g_closed g_submitted] in E1, E2, E3, E4, E5.
    change (qd (set_disp s1 d')) with (qd s1) in V1. change (qr (set_disp s1 d')) with (qr s1) in V2.
    pose proof (shut_budget s K) as Bud. pose proof (total_ge_queue gsh DDisp s (proj2 gsh_okw)) as Tq. fold (qd s) in Tq.
    rewrite Qd1, wsum_cons in Tq. pose proof (gsh_nonneg_l (qd s1)) as Gn. pose proof (cnt_shut0_le_gsh (qd s1)) as Sg. pose proof (cnt_nonneg shut0 (qd s1)) as Sn.
    pose proof (cnt_nonneg fresh_un (qd s1)) as Fn.
    pose proof (k3 s K) as F3. rewrite Qd1 in F3. cbn [fam] in F3. apply orb_false_iff in F3 as [F3a F3b].
    destruct (is_shut m) eqn:Esh.
    + (* the shutdown marker *)
      assert (Gm : gsh m = 1) by (unfold gsh; rewrite Esh; reflexivity).
      assert (Er : g_close_req s = true) by (destruct (g_close_req s) eqn:E; [reflexivity|]; destruct (d_shut (g_disp s)); lia).
      assert (Cf : cnt fresh_un (qd s1) = 0).
      { destruct (d_shut (g_disp s)) eqn:Ed.
        - destruct (k4 s K Ed) as [_ X]. rewrite Qd1, cnt_cons in X. destruct (fresh_un m); lia.
        - pose proof (k5 s K Er Ed) as X. rewrite Qd1, cnt_cons in X. rewrite ?Er, ?Ed in Bud.
          assert (S1 : shut0 m = true) by (destruct (shut0 m); [reflexivity|lia]).
          rewrite S1 in F3a. cbn [andb] in F3a. apply Z.ltb_ge in F3a. lia. }
      subst d'. constructor; rewrite ?V1, ?V2, ?E1, ?E2, ?E3, ?E4, ?E5, ?C2, ?C3, ?C4, ?C5; cbn [d_shut].
      * rewrite cnt_app, V3, Qr1. pose proof (k1 s K) as X. lia.
      * exact F3b.
      * intros _. split; [exact Er|exact Cf].
      * discriminate.
      * pose proof (k8 s K) as X. rewrite Qd1, cnt_cons in X. pose proof (cnt_nonneg badfresh (qd s1)). destruct (badfresh m); lia.
      * rewrite Er. destruct (d_shut (g_disp s)) eqn:Ed.
        -- pose proof (kb s K) as B. rewrite Er, Ed in B. lia.
        -- (* exact: the marker leaves the pipeline *)
           rewrite (Eff eq_refl) in Hp |- *. cbn [apply_effs fold_left apply_eff].
           change (cons_q gsh (add_inflight (set_disp s1 {| d_shut := true |}) (-1))) with (cons_q gsh s1).
           rewrite (cons_q_pop gsh _ _ _ _ Ep), Gm. pose proof (kb s K) as B. rewrite Er, Ed in B. lia.
      * apply (ks s K).
      * rewrite W. discriminate.
      * apply (k6c s K).
      * rewrite Hp. discriminate.
      * rewrite Gi. apply (ki s K).
    + (* an ordinary message *)
      assert (S0 : shut0 m = false) by (unfold shut0; rewrite Esh; apply andb_false_r).
      subst d'. constructor; rewrite ?V1, ?V2, ?E1, ?E2, ?E3, ?E4, ?E5, ?C1, ?C2, ?C3, ?C4, ?C5.
      * rewrite cnt_app, V3, Qr1. pose proof (k1 s K) as X. lia.
      * exact F3b.
      * intros Ed. destruct (k4 s K Ed) as [X Y]. split; [exact X|]. rewrite Qd1, cnt_cons in Y. destruct (fresh_un m); lia.
      * intros Er Ed. pose proof (k5 s K Er Ed) as X. rewrite Qd1, cnt_cons, S0 in X. lia.
      * pose proof (k8 s K) as X. rewrite Qd1, cnt_cons in X. pose proof (cnt_nonneg badfresh (qd s1)). destruct (badfresh m); lia.
      * pose proof (kb s K) as B. rewrite ?C1 in Gc. lia.
      * apply (ks s K).
      * rewrite W. discriminate.
      * apply (k6c s K).
      * rewrite ?C1 in Hp. rewrite Hp. discriminate.
      * rewrite ?C1 in Gi. rewrite Gi. apply (ki s K).
  - (* CRetry *)
    destruct (pop DRetry s) as [[m s1]|] eqn:Ep; [|exact K].
    destruct (pop_dr s m s1 Ep) as [Qr1 Qd1]. pose proof (pop_ctl _ _ _ _ Ep) as (C1 & C2 & C3 & C4 & C5).
    assert (W : g_woken s = false).
    { destruct (g_woken s) eqn:E; [|reflexivity]. destruct (k6 s K E) as [_ T]. rewrite (empty_pop DRetry s T) in Ep. discriminate. }
    pose proof (k1 s K) as K1. rewrite Qr1, cnt_cons in K1. pose proof (cnt_nonneg fresh_pass (qr s1)) as Rn.
    assert (Fp : fresh_pass m = false) by (destruct (fresh_pass m); [lia|reflexivity]).
    assert (Fu : fresh_un m = false) by (unfold fresh_un; rewrite Fp; reflexivity).
    assert (Sh : shut0 m = false) by (unfold shut0; rewrite Fp; reflexivity).
    assert (Bf : badfresh m = false) by (unfold badfresh; rewrite Fu; reflexivity).
    assert (Qd : qd (set_q s1 (q_push DDisp m (g_q s1))) = qd s ++ [m]) by (unfold qd; cbn [set_q g_q]; rewrite q_get_push; cbn [dest_eqb]; fold (qd s1); rewrite Qd1; reflexivity).
    assert (Qr : qr (set_q s1 (q_push DDisp m (g_q s1))) = qr s1) by (unfold qr; cbn [set_q g_q]; rewrite q_get_push; reflexivity).
    constructor; rewrite ?Qd, ?Qr; cbn [set_q g_disp g_close_req g_woken g_closed g_submitted g_panic]; rewrite ?C1, ?C2, ?C3, ?C4, ?C5.
    + rewrite Fp in K1. lia.
    + rewrite fam_app_plain by exact Fu. apply (k3 s K).
    + intros Ed. destruct (k4 s K Ed) as [X Y]. split; [exact X|]. rewrite cnt_app, Y. cbn. rewrite Fu. reflexivity.
    + intros Er Ed. pose proof (k5 s K Er Ed). rewrite cnt_app. cbn. rewrite Sh. lia.
    + rewrite cnt_app, (k8 s K). cbn. rewrite Bf. reflexivity.
    + pose proof (kb s K). lia.
    + apply (ks s K).
    + rewrite W. discriminate.
    + apply (k6c s K).
    + destruct (pop_closed _ _ _ _ Ep) as [_ P1]. rewrite P1, Hs. discriminate.
    + rewrite Gi. apply (ki s K).
  - (* CShutWake *)
    destruct (g_close_req s && negb (g_woken s) && (g_inflight s =? 0)) eqn:Ec; [|exact K].
    apply andb_true_iff in Ec as [Ec I0]. apply andb_true_iff in Ec as [Er Wn]. apply Z.eqb_eq in I0.
    assert (T0 : total f1 s = 0).
    { pose proof (ki s K) as I. unfold infl_q, unacc in I. fold (qd s) (qr s) in I.
      pose proof (two_queues f1 s (proj2 f1_okw)) as TQ.
      pose proof (counted_ge_markers (qd s)) as M1. pose proof (counted_nonneg (qd s)) as N1. pose proof (counted_nonneg (qr s)) as N2.
      unfold cntf in I. fold (cnt fresh_un (qd s)) (cnt fresh_un (qr s)) in I.
      destruct (d_shut (g_disp s)) eqn:Ed.
      - destruct (k4 s K Ed) as [_ Y]. pose proof (cnt_imp fresh_un fresh_pass (qr s)) as Im.
        assert (cnt fresh_un (qr s) <= cnt fresh_pass (qr s)) by (apply Im; intros m H; unfold fresh_un in H; apply andb_true_iff in H; tauto).
        pose proof (k1 s K). pose proof (cnt_nonneg fresh_un (qr s)). lia.
      - pose proof (k5 s K Er Ed). lia. }
    constructor; cbn [set_flags g_disp g_close_req g_woken g_closed g_submitted g_panic g_q].
    + apply (k1 s K).
    + apply (k3 s K).
    + intros Ed. destruct (k4 s K Ed) as [_ Y]. split; [reflexivity|exact Y].
    + intros _ Ed. apply (k5 s K Er Ed).
    + apply (k8 s K).
    + pose proof (kb s K) as B. rewrite Er in B. exact B.
    + apply (ks s K).
    + intros _. split; [reflexivity|exact T0].
    + intros _. reflexivity.
    + apply (k7 s K).
    + apply (ki s K).
  - (* CShutClose *)
    destruct (g_woken s && negb (g_closed s)) eqn:Ec; [|exact K].
    apply andb_true_iff in Ec as [Wt _].
    constructor; cbn [set_flags g_disp g_close_req g_woken g_closed g_submitted g_panic g_q].
    + apply (k1 s K).
    + apply (k3 s K).
    + apply (k4 s K).
    + apply (k5 s K).
    + apply (k8 s K).
    + apply (kb s K).
    + apply (ks s K).
    + intros _. apply (k6 s K Wt).
    + intros _. reflexivity.
    + apply (k7 s K).
    + apply (ki s K).
Qed.

Lemma kinv_step c s ch : c_fix_rb c = true -> kinv s -> kinv (step c s ch).
Proof.
  intros Hfix K. unfold step. destruct (g_panic s) eqn:Hs; [exact K|].
  assert (N1 : g_panic (raw_step c s ch) <> Some PANIC_CLOSED_CHANNEL).
  { assert (Hs1 : g_panic s <> Some PANIC_CLOSED_CHANNEL) by (rewrite Hs; discriminate).
    destruct (g_closed s) eqn:Ec; [|apply open_raw; assumption].
    destruct (k6 s K (k6c s K Ec)) as [R T]. apply (quiet_raw c s ch T R Hs1). }
  destruct (g_panic (raw_step c s ch)) eqn:Hp.
  - (* the step panicked (with another code): frozen *)
    constructor.
    + apply (k1 s K).
    + apply (k3 s K).
    + apply (k4 s K).
    + apply (k5 s K).
    + apply (k8 s K).
    + apply (kb s K).
    + apply (ks s K).
    + apply (k6 s K).
    + apply (k6c s K).
    + exact N1.
    + apply (ki s K).
  - apply kinv_raw; assumption.
Qed.

Theorem kinv_run c : c_fix_rb c = true -> forall sched, kinv (run c sched).
Proof.
  intros Hfix sched. unfold run.
  assert (G : forall l s, kinv s -> kinv (fold_left (step c) l s)).
  { induction l as [|ch l IH]; intros s K; [exact K|]. cbn [fold_left]. apply IH, kinv_step; assumption. }
  apply G, kinv_init.
Qed.

(* The closed-channel panic is unreachable; the channels are closed only once the pipeline is empty (so every
   event was emitted before), and it stays empty: nothing can be emitted afterwards. *)
Theorem close_order c : c_fix_rb c = true -> forall sched,
  g_panic (run c sched) <> Some PANIC_CLOSED_CHANNEL /\
  (g_closed (run c sched) = true -> g_woken (run c sched) = true) /\
  (g_woken (run c sched) = true ->
     g_close_req (run c sched) = true /\ total f1 (run c sched) = 0 /\ g_inflight (run c sched) = 0 /\ unacc (run c sched) = 0).
Proof.
  intros Hfix sched. pose proof (kinv_run c Hfix sched) as K. split; [apply (k7 _ K)|]. split; [apply (k6c _ K)|].
  intros W. destruct (k6 _ K W) as [R T]. split; [exact R|]. split; [exact T|].
  pose proof (ki _ K) as I. unfold infl_q in I.
  pose proof (two_queues f1 (run c sched) (proj2 f1_okw)) as TQ.
  pose proof (counted_nonneg (qd (run c sched))). pose proof (counted_nonneg (qr (run c sched))).
  pose proof (cnt_nonneg fresh_un (qd (run c sched))). pose proof (cnt_nonneg fresh_un (qr (run c sched))).
  unfold unacc, cntf in *. fold (cnt fresh_un (q_get DDisp (g_q (run c sched)))) (cnt fresh_un (q_get DRetry (g_q (run c sched)))) in *.
  unfold qd, qr in *. split; lia.
Qed.

