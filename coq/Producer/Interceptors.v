(* Producer proofs, part 7 (C18, producer half): the interceptor invocation log of every run is a
   concatenation of complete chains -- every configured interceptor, in configuration order -- one chain per
   submitted message that has passed the dispatcher, and nothing else: nothing for a retried message, nothing
   for an internal marker.  A panicking interceptor does not cut the chain or lose the message. *)
From Coq Require Import List ZArith Bool Arith Lia.
From SV Require Import Producer.Msg Producer.Actors Producer.Compose Producer.Weights Producer.Local Producer.Global
                       Producer.Shape Producer.Conservation Producer.Shutdown.
Import ListNotations.
Open Scope Z_scope.

(* what one application of the whole chain to a message logs: interceptor k, with the message's identity *)
Fixpoint chain_from (id : Z) (k : nat) (ics : list icpt) (pan : list bool) : list (Z * nat * bool) :=
  match ics with
  | [] => []
  | _ :: r => (id, k, hd false pan) :: chain_from id (S k) r (tl pan)
  end.
Definition chain (c : cfg) (m : msg) : list (Z * nat * bool) := chain_from (m_id m) 0%nat (c_ics c) (m_ipanic m).

Fixpoint ilog_of (l : list effect) : list (Z * nat * bool) :=
  match l with [] => [] | EIc id k p :: r => (id, k, p) :: ilog_of r | _ :: r => ilog_of r end.
Lemma ilog_of_app a b : ilog_of (a ++ b) = ilog_of a ++ ilog_of b.
Proof. induction a as [|e a IH]; [reflexivity|]. cbn [app]. destruct e; cbn [ilog_of]; rewrite ?IH; reflexivity. Qed.

Lemma ilog_apply_ics id k ics pan sz h : ilog_of (snd (apply_ics id k ics pan sz h)) = chain_from id k ics pan.
Proof.
  revert k pan sz h. induction ics as [|ic r IH]; intros; [reflexivity|]. cbn [apply_ics chain_from].
  match goal with |- context [apply_ics id (S k) r ?a ?b ?d] => specialize (IH (S k) a b d); destruct (apply_ics id (S k) r a b d) as [res effs] end.
  cbn [snd ilog_of] in *. rewrite IH. reflexivity.
Qed.

(* the chain has one entry per configured interceptor, in order, whatever panics *)
Lemma chain_indices c m : map (fun x => snd (fst x)) (chain c m) = seq 0 (length (c_ics c)).
Proof.
  unfold chain. generalize (m_ipanic m) 0%nat. induction (c_ics c) as [|ic r IH]; intros pan k; [reflexivity|].
  cbn [chain_from map length seq fst snd]. rewrite IH. reflexivity.
Qed.
Lemma chain_ids c m : forall x, In x (chain c m) -> fst (fst x) = m_id m.
Proof.
  unfold chain. generalize (m_ipanic m) 0%nat. induction (c_ics c) as [|ic r IH]; intros pan k x H; [destruct H|].
  cbn [chain_from] in H. destruct H as [<-|H]; [reflexivity|]. eapply IH, H.
Qed.

(* ---------------------------------------------------------------- the log under effects *)

Lemma get_bp_ilog s br : g_ilog (fst (get_bp s br)) = g_ilog s.
Proof. unfold get_bp. destruct (find_reg br (g_bps s) 0%nat); reflexivity. Qed.
Lemma set_handle_ilog s w h : g_ilog (set_handle s w h) = g_ilog s.
Proof. unfold set_handle. destruct w; try reflexivity. destruct (pp_get k (g_pps s)); reflexivity. Qed.

Lemma apply_eff_ilog c w s e : g_panic (apply_eff c w s e) = None ->
  g_ilog (apply_eff c w s e) = g_ilog s ++ ilog_of [e].
Proof.
  destruct e; cbn [apply_eff ilog_of]; rewrite ?app_nil_r.
  - (* ESend *) destruct d; try (intros _; reflexivity). destruct (handle_of s w); [|discriminate]. destruct (nth_error (g_bps s) n); [|discriminate].
    destruct (i_in_closed b); [discriminate|]. intros _. reflexivity.
  - (* EErr *) unfold emit. destruct (g_closed s); destruct (m_hasseq m); try (cbn; discriminate); intros _; reflexivity.
  - (* ESucc *) unfold emit. destruct (g_closed s); [cbn; discriminate|]. intros _. reflexivity.
  - (* ERawErr *) unfold emit. destruct (g_closed s); [cbn; discriminate|]. intros _. reflexivity.
  - intros _; reflexivity.
  - intros _; reflexivity.
  - intros _; reflexivity.
  - (* EIc *) intros _; reflexivity.
  - intros _; reflexivity.
  - (* EUnref *) intros _. destruct (handle_of s w); [|reflexivity]. rewrite set_handle_ilog. reflexivity.
  - (* EGet *) intros _. destruct (get_bp s broker) as [s1 b] eqn:E. rewrite set_handle_ilog.
    replace s1 with (fst (get_bp s broker)) by (rewrite E; reflexivity). apply get_bp_ilog.
  - (* EAbandon *) intros _. destruct (find_reg broker (g_bps s) 0%nat); reflexivity.
  - (* EBridge *) destruct w; try discriminate. destruct (nth_error (g_bps s) b); [|discriminate]. intros _. reflexivity.
  - intros _; reflexivity.
  - (* ERbSend *) intros _. destruct (get_bp s broker) as [s1 b] eqn:E. cbn.
    replace s1 with (fst (get_bp s broker)) by (rewrite E; reflexivity). apply get_bp_ilog.
  - intros _; reflexivity.
  - cbn. discriminate.
Qed.
Lemma apply_effs_ilog c w l : forall s, g_panic (apply_effs c w s l) = None ->
  g_ilog (apply_effs c w s l) = g_ilog s ++ ilog_of l.
Proof.
  induction l as [|e l IH]; intros s H; [cbn; rewrite app_nil_r; reflexivity|].
  cbn [apply_effs fold_left] in *. fold (apply_effs c w (apply_eff c w s e) l) in *.
  assert (Hp : g_panic (apply_eff c w s e) = None).
  { destruct (g_panic (apply_eff c w s e)) eqn:E; [|reflexivity].
    exfalso. apply (apply_effs_sticky c w l (apply_eff c w s e)); [rewrite E; discriminate|exact H]. }
  rewrite (IH _ H), (apply_eff_ilog c w s e Hp), <- app_assoc. f_equal.
  change (e :: l) with ([e] ++ l). rewrite ilog_of_app. reflexivity.
Qed.
Lemma sh_false_ilog l : sh false l = true -> ilog_of l = [].
Proof.
  induction l as [|e l IH]; [reflexivity|]. rewrite sh_cons. intros H. apply andb_true_iff in H as [H1 H2].
  destruct e; cbn [ilog_of]; try (apply IH, H2). cbn in H1. discriminate.
Qed.

(* ---------------------------------------------------------------- only the dispatcher touches the log *)

Lemma pop_ilog d s m s1 : pop d s = Some (m, s1) -> g_ilog s1 = g_ilog s.
Proof. unfold pop. destruct (q_get d (g_q s)); [discriminate|]. intros H. injection H as <- <-. reflexivity. Qed.

Lemma effs_ilog_same c w l s : sh false l = true -> g_panic (apply_effs c w s l) = None -> g_ilog (apply_effs c w s l) = g_ilog s.
Proof. intros Hs Hp. rewrite (apply_effs_ilog c w l s Hp), (sh_false_ilog l Hs), app_nil_r. reflexivity. Qed.

Lemma run_bp_ilog c s b x i : g_panic (run_bp c s b x i) = None -> g_ilog (run_bp c s b x i) = g_ilog s.
Proof.
  unfold run_bp. pose proof (bp_shape c (g_epoch s) (i_st x) i) as Shp.
  destruct (bp_step c (g_epoch s) (i_st x) i) as [st' effs]. cbn [snd] in Shp. intros Hp.
  specialize (Shp (no_crash_of_no_panic _ _ _ _ Hp)). rewrite (effs_ilog_same c (WBp b) effs _ Shp Hp). reflexivity.
Qed.
Lemma run_pp_ilog c s k x m ls : g_panic (run_pp c s k x m ls) = None -> g_ilog (run_pp c s k x m ls) = g_ilog s.
Proof.
  unfold run_pp.
  match goal with |- context [pp_step c ?a ?b0 ?st ?mm ?ab ?stamp ?l] =>
    pose proof (pp_shape c a b0 st mm ab stamp l) as Shp; destruct (pp_step c a b0 st mm ab stamp l) as [st' effs] end.
  cbn [snd] in Shp. intros Hp. rewrite (effs_ilog_same c (WPp k) effs _ Shp Hp). reflexivity.
Qed.

Lemma actor_ilog c s ch : is_actor ch = true -> g_panic (raw_step c s ch) = None -> g_ilog (raw_step c s ch) = g_ilog s.
Proof.
  destruct ch; try discriminate; intros _; cbn [raw_step].
  - destruct (pop (DTopic t) s) as [[m s1]|] eqn:Ep; [|reflexivity].
    intros Hp. rewrite (effs_ilog_same c WOther _ _ (tp_shape m) Hp). eapply pop_ilog, Ep.
  - destruct (pop (DPart t p) s) as [[m s1]|] eqn:Ep; [|reflexivity].
    destruct (pp_get (t, p) (g_pps s1)) as [x|].
    + intros Hp. rewrite (run_pp_ilog _ _ _ _ _ _ Hp). eapply pop_ilog, Ep.
    + destruct (next_lres ls) as [l0 ls']. pose proof (pp_init_shape c t p l0) as Shp0.
      destruct (pp_init c t p l0) as [st0 effs0]. cbn [snd] in Shp0.
      set (s2 := set_pps s1 (pp_set (t, p) (mkPpr st0 None) (g_pps s1))).
      set (s3 := apply_effs c (WPp (t, p)) s2 effs0).
      set (x := match pp_get (t, p) (g_pps s3) with Some x => x | None => mkPpr st0 None end).
      intros Hp. assert (Hp3 : g_panic s3 = None).
      { destruct (g_panic s3) eqn:E3; [|reflexivity]. exfalso.
        unfold run_pp in Hp. destruct (pp_step _ _ _ _ _ _ _ _) as [st' effs].
        apply (apply_effs_sticky c (WPp (t, p)) effs (set_pps s3 (pp_set (t, p) (mkPpr st' (pr_h x)) (g_pps s3)))); [cbn; rewrite E3; discriminate|exact Hp]. }
      rewrite (run_pp_ilog _ _ _ _ _ _ Hp). unfold s3. rewrite (effs_ilog_same c (WPp (t, p)) effs0 s2 Shp0 Hp3).
      unfold s2. cbn. eapply pop_ilog, Ep.
  - destruct (nth_error (g_bps s) b) as [x|]; [|reflexivity]. destruct (flush_poll (i_st x)); [|reflexivity].
    destruct (pop (DBp b) s) as [[m s1]|] eqn:Ep.
    + intros Hp. rewrite (run_bp_ilog _ _ _ _ _ Hp). eapply pop_ilog, Ep.
    + destruct (i_in_closed x); [|reflexivity]. apply run_bp_ilog.
  - destruct (nth_error (g_bps s) b) as [x|]; [|reflexivity]. apply run_bp_ilog.
  - destruct (nth_error (g_bps s) b) as [x|]; [|reflexivity]. apply run_bp_ilog.
  - destruct (nth_error (g_bps s) b) as [x|]; [|reflexivity]. destruct (i_infl x); [reflexivity|]. destruct (i_bridge x); reflexivity.
  - destruct (nth_error (g_bps s) b) as [x|]; [|reflexivity]. destruct (i_infl x); reflexivity.
  - destruct (nth_error (g_bps s) b) as [x|]; [|reflexivity]. destruct (i_resp x) as [|[st r] rest]; [reflexivity|].
    destruct (nth_error _ b) as [x1|]; [|reflexivity]. intros Hp. rewrite (run_bp_ilog _ _ _ _ _ Hp). reflexivity.
  - destruct (nth_error (g_rbs s) i) as [tk|]; [|reflexivity].
    intros Hp. rewrite (effs_ilog_same c WOther _ _ (rb_shape c (g_epoch s) (rb_k tk) (rb_ms tk) (rb_e tk) l) Hp). reflexivity.
Qed.

(* ---------------------------------------------------------------- the invariant *)

Definition idcnt (i : Z) (l : list msg) : Z := cnt (fun m => m_id m =? i) l.
Definition pending (i : Z) (s : state) : Z := cnt (fun m => fresh_un m && (m_id m =? i)) (qd s).
Definition subs (i : Z) (s : state) : Z := idcnt i (g_submitted s).

Definition jinv (c : cfg) (s : state) : Prop :=
  exists ms, g_ilog s = flat_map (chain c) ms /\ forall i, idcnt i ms + pending i s = subs i s.

Lemma jinv_frame c s s' : g_ilog s' = g_ilog s -> qd s' = qd s -> g_submitted s' = g_submitted s -> jinv c s -> jinv c s'.
Proof. intros A B C (ms & E & H). exists ms. unfold pending, subs. rewrite A, B, C. split; assumption. Qed.

Lemma jinv_raw c s ch : c_fix_ic c = true -> kinv s -> jinv c s -> g_panic (raw_step c s ch) = None -> jinv c (raw_step c s ch).
Proof.
  intros Hic K J Hp.
  destruct (is_actor ch) eqn:Ea.
  { destruct (actor_vsame c s ch Ea Hp) as [extra (V1 & _ & _ & (_ & V4 & _))].
    apply (jinv_frame c s); [apply actor_ilog; assumption|exact V1|exact V4|exact J]. }
  destruct J as (ms & E & H).
  destruct ch; try discriminate; cbn [raw_step] in *.
  - (* CSubmit *)
    destruct (g_close_req s); [exists ms; split; assumption|].
    exists ms. split; [exact E|]. intros i. specialize (H i). unfold pending, subs, idcnt, qd in *.
    cbn [add_submitted set_q g_q g_submitted]. rewrite q_get_push. cbn [dest_eqb]. rewrite !cnt_app. cbn [cnt wsum fold_right].
    change (fresh_un (fresh_of m)) with true. change (m_id (fresh_of m)) with (m_id m). cbn [andb]. lia.
  - (* CAsyncClose *)
    destruct (g_close_req s); [exists ms; split; assumption|].
    exists ms. split; [exact E|]. intros i. specialize (H i). unfold pending, subs, idcnt, qd in *.
    cbn [add_inflight set_flags set_q g_q g_submitted]. rewrite q_get_push. cbn [dest_eqb]. rewrite !cnt_app. cbn [cnt wsum fold_right].
    change (fresh_un (shutdown_marker c)) with false. cbn [andb]. lia.
  - (* CDisp *)
    destruct (pop DDisp s) as [[m s1]|] eqn:Ep; [|exists ms; split; assumption].
    destruct (pop_dd s m s1 Ep) as [Qd1 _]. pose proof (pop_ctl _ _ _ _ Ep) as (C1 & C2 & _). pose proof (pop_ilog _ _ _ _ Ep) as I1.
    pose proof (disp_shape c (g_disp s1) m) as [Shp _].
    (* what the dispatcher logs for m *)
    assert (IL : ilog_of (snd (disp_step c (g_disp s1) m)) = if fresh_un m then chain c m else []).
    { unfold disp_step, fresh_un. rewrite Hic. destruct (is_shut m) eqn:Es; [rewrite andb_false_r; reflexivity|]. rewrite andb_true_r.
      destruct (fresh_pass m) eqn:Ef.
      - (* first pass: it is counted, so the dispatcher is not shutting down, and it is an application message *)
        assert (Fu : fresh_un m = true) by (unfold fresh_un; rewrite Ef, Es; reflexivity).
        assert (Ds : d_shut (g_disp s1) = false).
        { rewrite C1. destruct (d_shut (g_disp s)) eqn:Ed; [|reflexivity]. destruct (k4 s K Ed) as [_ Y].
          rewrite Qd1, cnt_cons, Fu in Y. pose proof (cnt_nonneg fresh_un (qd s1)). lia. }
        assert (Dm : is_data m = true).
        { pose proof (k8 s K) as Y. rewrite Qd1, cnt_cons in Y. pose proof (cnt_nonneg badfresh (qd s1)).
          destruct (badfresh m) eqn:B; [lia|]. unfold badfresh in B. rewrite Fu in B. cbn [andb] in B.
          destruct (is_data m); [reflexivity|discriminate]. }
        rewrite Ds, Dm. cbn [andb].
        pose proof (ilog_apply_ics (m_id m) 0%nat (c_ics c) (m_ipanic m) (m_size m) (m_hdr m)) as IA.
        destruct (apply_ics _ _ _ _ _ _) as [[sz h] ics]. cbn [snd] in IA.
        destruct (negb (c_v2 c) && h); [|destruct (c_max_msg_bytes c <? sz)]; cbn [snd]; rewrite !ilog_of_app, IA; cbn [ilog_of]; rewrite app_nil_r; reflexivity.
      - cbn [andb]. destruct (negb (c_v2 c) && m_hdr m); [|destruct (c_max_msg_bytes c <? m_size m)]; reflexivity. }
    destruct (disp_step c (g_disp s1) m) as [d' effs]. cbn [snd] in *.
    pose proof (effs_vsame c WOther true effs (set_disp s1 d') Shp Hp) as (V1 & _ & _ & (_ & V4 & _)).
    change (qd (set_disp s1 d')) with (qd s1) in V1. cbn [set_disp g_submitted] in V4.
    pose proof (apply_effs_ilog c WOther effs (set_disp s1 d') Hp) as IE. cbn [set_disp g_ilog] in IE. rewrite I1, IL in IE.
    destruct (fresh_un m) eqn:Fu.
    + exists (ms ++ [m]). split; [rewrite IE, E, flat_map_app; cbn; rewrite app_nil_r; reflexivity|].
      intros i. specialize (H i). unfold pending, subs, idcnt in *. rewrite V1, V4, C2. rewrite Qd1, cnt_cons, Fu in H. rewrite cnt_app. cbn [cnt wsum fold_right andb] in *.
      destruct (m_id m =? i); lia.
    + exists ms. split; [rewrite IE, app_nil_r; exact E|].
      intros i. specialize (H i). unfold pending, subs, idcnt in *. rewrite V1, V4, C2. rewrite Qd1, cnt_cons, Fu in H. cbn [andb] in H. lia.
  - (* CRetry *)
    destruct (pop DRetry s) as [[m s1]|] eqn:Ep; [|exists ms; split; assumption].
    destruct (pop_dr s m s1 Ep) as [Qr1 Qd1]. pose proof (pop_ctl _ _ _ _ Ep) as (_ & C2 & _). pose proof (pop_ilog _ _ _ _ Ep) as I1.
    pose proof (k1 s K) as K1. rewrite Qr1, cnt_cons in K1. pose proof (cnt_nonneg fresh_pass (qr s1)) as Rn.
    assert (Fu : fresh_un m = false) by (unfold fresh_un; destruct (fresh_pass m); [lia|reflexivity]).
    exists ms. split; [cbn [set_q g_ilog]; rewrite I1; exact E|].
    intros i. specialize (H i). unfold pending, subs, idcnt, qd in *. cbn [set_q g_q g_submitted]. rewrite q_get_push. cbn [dest_eqb].
    rewrite cnt_app. cbn [cnt wsum fold_right]. rewrite Fu. cbn [andb]. rewrite Qd1, C2. lia.
  - destruct (g_close_req s && negb (g_woken s) && (g_inflight s =? 0)); exists ms; split; assumption.
  - destruct (g_woken s && negb (g_closed s)); exists ms; split; assumption.
Qed.

Theorem producer_once c : c_fix_rb c = true -> c_fix_ic c = true -> forall sched, jinv c (run c sched).
Proof.
  intros Hrb Hic sched. unfold run.
  assert (G : forall l s, kinv s -> jinv c s -> jinv c (fold_left (step c) l s)).
  { induction l as [|ch l IH]; intros s K J; [exact J|]. cbn [fold_left]. apply IH; [apply kinv_step; assumption|].
    unfold step. destruct (g_panic s); [exact J|]. destruct (g_panic (raw_step c s ch)) eqn:Hp.
    - destruct J as (ms & E & H). exists ms. split; assumption.
    - apply jinv_raw; assumption. }
  apply G; [apply kinv_init|]. exists []. split; [reflexivity|]. intros i. reflexivity.
Qed.

(* A panicking interceptor is contained: whatever the panic oracle of the message says, the dispatcher runs
   every configured interceptor on it, in order, and the message leaves the dispatcher in exactly one way. *)
Theorem panic_contained c d m : c_fix_ic c = true ->
  is_shut m = false -> fresh_pass m = true -> is_data m = true -> d_shut d = false ->
  map (fun x => snd (fst x)) (ilog_of (snd (disp_step c d m))) = seq 0 (length (c_ics c)) /\
  (forall x, In x (ilog_of (snd (disp_step c d m))) -> fst (fst x) = m_id m) /\
  (forall f, stable f -> esum (eff_net f) (snd (disp_step c d m)) = f m).
Proof.
  intros Hic Es Ef Ed Ds.
  assert (IL : ilog_of (snd (disp_step c d m)) = chain c m).
  { unfold disp_step. rewrite Hic, Es, Ef, Ed, Ds. cbn [andb].
    pose proof (ilog_apply_ics (m_id m) 0%nat (c_ics c) (m_ipanic m) (m_size m) (m_hdr m)) as IA.
    destruct (apply_ics _ _ _ _ _ _) as [[sz h] ics]. cbn [snd] in IA.
    destruct (negb (c_v2 c) && h); [|destruct (c_max_msg_bytes c <? sz)]; cbn [snd]; rewrite !ilog_of_app, IA; cbn [ilog_of]; rewrite app_nil_r; reflexivity. }
  rewrite IL. split; [apply chain_indices|]. split; [apply chain_ids|]. intros f Hf. apply disp_balance, Hf.
Qed.

(* a retried message or an internal marker passing the dispatcher is not intercepted *)
Theorem no_second_interception c d m : c_fix_ic c = true -> (fresh_pass m = false \/ is_data m = false) ->
  ilog_of (snd (disp_step c d m)) = [].
Proof.
  intros Hic H. unfold disp_step. rewrite Hic. destruct (is_shut m); [reflexivity|]. destruct (fresh_pass m && d_shut d); [reflexivity|].
  assert (E : fresh_pass m && is_data m = false) by (destruct H as [-> | ->]; [reflexivity|apply andb_false_r]).
  rewrite E. destruct (negb (c_v2 c) && m_hdr m); [|destruct (c_max_msg_bytes c <? m_size m)]; cbn [snd];
    rewrite !ilog_of_app; destruct (fresh_pass m); reflexivity.
Qed.
