(* Producer model: local trace validation.
   The harness (go/harness/cmd/c01corr) records, per goroutine of the real producer, the hook points it
   passed (hooks/producer_points.patch) and groups them into steps: one input, the environment reads of
   that handler, and the observable outputs.  The functions below replay every actor's log through the
   step function of Producer/Actors.v and compare the projected outputs, plus the actor state the hooks
   expose at the beginning of each step.  No proofs here. *)
From Coq Require Import List ZArith Bool Arith.
From SV Require Import Base.Corr Producer.Msg Producer.Actors.
Import ListNotations.
Open Scope Z_scope.

(* ---------------------------------------------------------------- observable projection of effects *)

Inductive obs :=
| OSend (kind : Z) (id fl : Z) (retries : nat) (t p : Z)   (* 0 dispatcher.forward 1 tp.forward 2 pp.send 3 retry.enqueue *)
| OErr (id e t p : Z)
| OSucc (id off t p : Z)
| ORaw (id e : Z)
| OIc (id : Z) (k : nat) (pan : bool)
| OBridge (parts : list (tpk * list Z))
| ORbSend (broker : Z) (parts : list (tpk * list Z))
| OAbandon (broker : Z)
| ONote (k id : Z)
| OCrash (code : Z).

Definition ids_of (ps : list (tpk * list msg)) : list (tpk * list Z) :=
  map (fun kl => (fst kl, map m_id (snd kl))) ps.

Definition send_kind (d : dest) : option Z :=
  match d with
  | DTopic _ => Some 0 | DPart _ _ => Some 1 | DCur => Some 2 | DRetry => Some 3
  | DDisp | DBp _ => None
  end.

Fixpoint proj (effs : list effect) : list obs :=
  match effs with
  | [] => []
  | ENew _ :: ESend _ _ :: r => proj r         (* a marker created here: no hook at its send *)
  | ESend d m :: r =>
      match send_kind d with
      | Some k => OSend k (m_id m) (m_flags m) (m_retries m) (m_topic m) (m_part m) :: proj r
      | None => proj r
      end
  | EErr m e :: r => OErr (m_id m) e (m_topic m) (m_part m) :: proj r
  | ESucc m off :: r => OSucc (m_id m) off (m_topic m) (m_part m) :: proj r
  | ERawErr m e :: r => ORaw (m_id m) e :: proj r
  | EIc id k p :: r => OIc id k p :: proj r
  | EBridge s :: r => OBridge (ids_of (s_parts s)) :: proj r
  | ERbSend b s :: r => ORbSend b (ids_of (s_parts s)) :: proj r
  | EAbandon b :: r => OAbandon b :: proj r
  | ENote k id :: r => ONote k id :: proj r
  | ECrash k :: r => OCrash k :: proj r
  | _ :: r => proj r
  end.

Definition idparts_eqb (a b : list (tpk * list Z)) : bool :=
  list_eqb (fun x y => tpk_eqb (fst x) (fst y) && list_eqb Z.eqb (snd x) (snd y)) a b.

(* model obs vs logged obs; a model offset < 0 means "not assigned by this response": anything matches *)
Definition obs_match (m o : obs) : bool :=
  match m, o with
  | OSend k i f r t p, OSend k' i' f' r' t' p' =>
      Z.eqb k k' && Z.eqb i i' && Z.eqb f f' && Nat.eqb r r' && Z.eqb t t' && Z.eqb p p'
  | OErr i e t p, OErr i' e' t' p' => Z.eqb i i' && Z.eqb e e' && Z.eqb t t' && Z.eqb p p'
  | OSucc i off t p, OSucc i' off' t' p' => Z.eqb i i' && ((off <? 0) || Z.eqb off off') && Z.eqb t t' && Z.eqb p p'
  | ORaw i e, ORaw i' e' => Z.eqb i i' && Z.eqb e e'
  | OIc i k p, OIc i' k' p' => Z.eqb i i' && Nat.eqb k k' && Bool.eqb p p'
  | OBridge a, OBridge b => idparts_eqb a b
  | ORbSend x a, ORbSend y b => Z.eqb x y && idparts_eqb a b
  | OAbandon x, OAbandon y => Z.eqb x y
  | ONote k i, ONote k' i' => Z.eqb k k' && Z.eqb i i'
  | OCrash k, OCrash k' => Z.eqb k k'
  | _, _ => false
  end.
Definition obs_list_match := list_eqb obs_match.

(* map-iteration order inside one response is not fixed by the code: compare per (topic, partition) *)
Definition obs_key (o : obs) : tpk :=
  match o with
  | OSend _ _ _ _ t p | OErr _ _ t p | OSucc _ _ t p => (t, p)
  | _ => (-1, -1)
  end.
Definition key_leb (a b : tpk) : bool := (fst a <? fst b) || (Z.eqb (fst a) (fst b) && (snd a <=? snd b)).
Fixpoint ins_obs (x : obs) (l : list obs) : list obs :=
  match l with
  | [] => [x]
  | y :: r => if key_leb (obs_key y) (obs_key x) then y :: ins_obs x r else x :: l
  end.
(* stable: fold from the right so that equal keys keep their order *)
Definition sort_obs (l : list obs) : list obs := fold_right ins_obs [] l.
(* bridge hand-offs list partitions in the model's insertion order; the hook lists them sorted *)
Fixpoint ins_part (x : tpk * list Z) (l : list (tpk * list Z)) : list (tpk * list Z) :=
  match l with
  | [] => [x]
  | y :: r => if key_leb (fst y) (fst x) then y :: ins_part x r else x :: l
  end.
Definition canon_obs (o : obs) : obs :=
  match o with
  | OBridge a => OBridge (fold_right ins_part [] a)
  | ORbSend b a => ORbSend b (fold_right ins_part [] a)
  | _ => o
  end.
Definition canon (l : list obs) : list obs := map canon_obs l.

(* ---------------------------------------------------------------- logs *)

Record dlog_step := mkDS { ds_in : msg; ds_shut : bool; ds_out : list obs }.
Record tlog_step := mkTS { ts_in : msg; ts_out : list obs }.
Record plog_step := mkPS {
  ps_in : msg; ps_ab : bool; ps_stamp : Z * Z; ps_ls : list lres;
  ps_hwm : nat; ps_hasbp : bool; ps_lens : list nat; ps_chasers : list bool;   (* state the hook saw before the step *)
  ps_out : list obs }.
Record plog := mkPL { pl_t : Z; pl_p : Z; pl_start : lres; pl_steps : list plog_step }.
Record blog_step := mkBS {
  bs_in : bp_in; bs_ep : Z; bs_bufep : Z;
  bs_count : Z; bs_bytes : Z; bs_closing : bool; bs_timer : bool; bs_fired : bool;  (* state before the step *)
  bs_over : bool; bs_retrying : bool;                                               (* bp.recv only *)
  bs_out : list obs }.
Record blog := mkBL { bl_broker : Z; bl_steps : list blog_step }.
Record rlog := mkRL { rl_k : tpk; rl_ms : list msg; rl_e : Z; rl_ep : Z; rl_l : lres; rl_out : list obs }.

Record case := mkCase {
  k_cfg : cfg;
  k_disp : list dlog_step;
  k_tps : list (list tlog_step);
  k_pps : list plog;
  k_bps : list blog;
  k_rbs : list rlog;
  k_rh_in : list (Z * Z); k_rh_out : list (Z * Z);     (* retry handler: (id, flags) received / forwarded *)
  k_outcomes : list (Z * bool * Z)                      (* what the application received: id, success, error class *)
}.

(* ---------------------------------------------------------------- replay; every failure has a code *)

(* a nil entry of Producer.Interceptors (the harness marks it with a negative size delta) is an interceptor whose
   application always panics inside safelyApplyInterceptor: the model logs it, the implementation cannot *)
Definition ic_nil (c : cfg) (k : nat) : bool :=
  match nth_error (c_ics c) k with Some ic => ic_delta ic <? 0 | None => false end.
Definition drop_nil (c : cfg) (l : list obs) : list obs :=
  filter (fun o => match o with OIc _ k _ => negb (ic_nil c k) | _ => true end) l.

Fixpoint disp_run (c : cfg) (d : disp) (l : list dlog_step) (i : nat) : list (Z * nat) * list obs :=
  match l with
  | [] => ([], [])
  | s :: r =>
      let '(d', effs) := disp_step c d (ds_in s) in
      let bad := (if Bool.eqb (d_shut d) (ds_shut s) then [] else [(11, i)]) ++
                 (if obs_list_match (drop_nil c (proj effs)) (ds_out s) then [] else [(10, i)]) in
      let '(b, o) := disp_run c d' r (S i) in (bad ++ b, proj effs ++ o)
  end.

Fixpoint tp_run (l : list tlog_step) (i : nat) : list (Z * nat) * list obs :=
  match l with
  | [] => ([], [])
  | s :: r =>
      let effs := tp_step (ts_in s) in
      let '(b, o) := tp_run r (S i) in
      ((if obs_list_match (proj effs) (ts_out s) then [] else [(20, i)]) ++ b, proj effs ++ o)
  end.

Definition pp_state_matches (st : pp) (s : plog_step) : bool :=
  Nat.eqb (p_hwm st) (ps_hwm s) && Bool.eqb (p_has_bp st) (ps_hasbp s) &&
  list_eqb Nat.eqb (map (fun l => length (l_buf l)) (p_levels st)) (ps_lens s) &&
  list_eqb Bool.eqb (map l_chaser (p_levels st)) (ps_chasers s).

Fixpoint pp_run (c : cfg) (t p : Z) (st : pp) (l : list plog_step) (i : nat) : list (Z * nat) * list obs :=
  match l with
  | [] => ([], [])
  | s :: r =>
      let '(st', effs) := pp_step c t p st (ps_in s) (ps_ab s) (ps_stamp s) (ps_ls s) in
      let bad := (if pp_state_matches st s then [] else [(31, i)]) ++
                 (if obs_list_match (proj effs) (ps_out s) then [] else [(30, i)]) in
      let '(b, o) := pp_run c t p st' r (S i) in (bad ++ b, proj effs ++ o)
  end.
Definition pp_log_run (c : cfg) (pl : plog) : list (Z * nat) * list obs :=
  let '(st, _) := pp_init c (pl_t pl) (pl_p pl) (pl_start pl) in
  pp_run c (pl_t pl) (pl_p pl) st (pl_steps pl) 0%nat.

Definition resync_epoch (st : bp) (ep : Z) : bp := with_buf st (mkSet (s_parts (b_buf st)) ep).

Definition bp_state_matches (c : cfg) (st : bp) (s : blog_step) : bool :=
  Z.eqb (set_count (b_buf st)) (bs_count s) && Z.eqb (set_bytes c (b_buf st)) (bs_bytes s) &&
  Bool.eqb (match b_closing st with Some _ => true | None => false end) (bs_closing s) &&
  Bool.eqb (b_timer st) (bs_timer s) && Bool.eqb (b_fired st) (bs_fired s) &&
  match bs_in s with
  | BRecv m =>
      Bool.eqb (match cur_lookup (msg_key m) (b_cur st) with Some _ => true | None => false end) (bs_retrying s) &&
      (negb (is_data m) || Bool.eqb (would_overflow c (b_buf st) m) (bs_over s))
  | _ => true
  end.

Definition is_resp (i : bp_in) : bool := match i with BResp _ _ => true | _ => false end.

Fixpoint bp_run (c : cfg) (st : bp) (l : list blog_step) (i : nat) : list (Z * nat) * list obs :=
  match l with
  | [] => ([], [])
  | s :: r =>
      let st0 := resync_epoch st (bs_bufep s) in
      let '(st', effs) := bp_step c (bs_ep s) st0 (bs_in s) in
      let mo := canon (proj effs) in
      let same := if is_resp (bs_in s) then obs_list_match (sort_obs mo) (sort_obs (bs_out s))
                  else obs_list_match mo (bs_out s) in
      let bad := (if bp_state_matches c st0 s then [] else [(41, i)]) ++ (if same then [] else [(40, i)]) in
      let '(b, o) := bp_run c st' r (S i) in (bad ++ b, proj effs ++ o)
  end.
Definition bp_log_run (c : cfg) (bl : blog) : list (Z * nat) * list obs :=
  bp_run c (bp_init (bl_broker bl) 0) (bl_steps bl) 0%nat.

Definition rb_run (c : cfg) (r : rlog) : list (Z * nat) * list obs :=
  let effs := rb_step c (rl_ep r) (rl_k r) (rl_ms r) (rl_e r) (rl_l r) in
  ((if obs_list_match (canon (proj effs)) (rl_out r) then [] else [(50, 0%nat)]), proj effs).

Fixpoint run_all {A} (f : A -> list (Z * nat) * list obs) (l : list A) : list (Z * nat) * list obs :=
  match l with
  | [] => ([], [])
  | x :: r => let '(b, o) := f x in let '(b', o') := run_all f r in (b ++ b', o ++ o')
  end.

(* retry handler: an unbounded FIFO *)
Definition z2_eqb (a b : Z * Z) : bool := Z.eqb (fst a) (fst b) && Z.eqb (snd a) (snd b).
Fixpoint is_prefix (a b : list (Z * Z)) : bool :=
  match a, b with
  | [], _ => true
  | x :: a', y :: b' => z2_eqb x y && is_prefix a' b'
  | _, [] => false
  end.

(* terminal events the replayed actors emit vs what the application received *)
Fixpoint outcomes_of (l : list obs) : list (Z * bool * Z) :=
  match l with
  | [] => []
  | OErr i e _ _ :: r => (i, false, e) :: outcomes_of r
  | ORaw i e :: r => (i, false, e) :: outcomes_of r
  | OSucc i _ _ _ :: r => (i, true, 0) :: outcomes_of r
  | _ :: r => outcomes_of r
  end.
Definition oc_eqb (a b : Z * bool * Z) : bool :=
  let '(i, s, e) := a in let '(i', s', e') := b in Z.eqb i i' && Bool.eqb s s' && Z.eqb e e'.
Definition count_oc (x : Z * bool * Z) (l : list (Z * bool * Z)) : nat := length (filter (oc_eqb x) l).
Definition same_outcomes (a b : list (Z * bool * Z)) : bool :=
  Nat.eqb (length a) (length b) && forallb (fun x => Nat.eqb (count_oc x a) (count_oc x b)) a.

Definition why (k : case) : list (Z * nat) :=
  let c := k_cfg k in
  let '(b1, o1) := disp_run c (mkDisp false) (k_disp k) 0%nat in
  let '(b2, o2) := run_all (fun l => tp_run l 0%nat) (k_tps k) in
  let '(b3, o3) := run_all (pp_log_run c) (k_pps k) in
  let '(b4, o4) := run_all (bp_log_run c) (k_bps k) in
  let '(b5, o5) := run_all (rb_run c) (k_rbs k) in
  b1 ++ b2 ++ b3 ++ b4 ++ b5 ++
  (if is_prefix (k_rh_out k) (k_rh_in k) then [] else [(60, 0%nat)]) ++
  (if same_outcomes (outcomes_of (o1 ++ o2 ++ o3 ++ o4 ++ o5)) (k_outcomes k) then [] else [(70, 0%nat)]).

Definition ok (k : case) : bool := match why k with [] => true | _ => false end.
Definition mismatches_producer := mismatches ok.
