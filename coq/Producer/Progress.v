(* Producer proofs, part 8: the SyncProducer corollary and the (partial, time-abstract) progress statements. *)
From Coq Require Import List ZArith Bool Arith Lia.
From SV Require Import Producer.Msg Producer.Actors Producer.Compose Producer.Weights Producer.Local Producer.Global
                       Producer.Shape Producer.Conservation Producer.Shutdown.
Import ListNotations.
Open Scope Z_scope.

(* ---------------------------------------------------------------- monotonicity of the measure in the weight *)

Section Mono.
Variables f g : msg -> Z.
Hypothesis Hle : forall m, f m <= g m.

Lemma wsum_le l : wsum f l <= wsum g l.
Proof. induction l as [|m l IH]; [cbn; lia|]. rewrite !wsum_cons. specialize (Hle m). lia. Qed.
Lemma parts_w_le ps : parts_w f ps <= parts_w g ps.
Proof. induction ps as [|[k l] r IH]; [cbn; lia|]. cbn [parts_w]. pose proof (wsum_le l). lia. Qed.
Lemma total_le s : total f s <= total g s.
Proof.
  unfold total.
  assert (A : q_w f (g_q s) <= q_w g (g_q s)) by (induction (g_q s) as [|[d l] r IH]; cbn [q_w]; [lia|]; pose proof (wsum_le l); lia).
  assert (B : pps_w f (g_pps s) <= pps_w g (g_pps s)).
  { induction (g_pps s) as [|[k x] r IH]; cbn [pps_w]; [lia|]. unfold pp_w.
    assert (levels_w f (p_levels (pr_st x)) <= levels_w g (p_levels (pr_st x)))
      by (induction (p_levels (pr_st x)) as [|l r' IH']; cbn [levels_w]; [lia|]; pose proof (wsum_le (l_buf l)); lia). lia. }
  assert (S : forall l, sets_w f l <= sets_w g l) by (induction l as [|x r IH]; cbn [sets_w]; [lia|]; pose proof (parts_w_le (s_parts x)); unfold set_w; lia).
  assert (R : forall l, resps_w f l <= resps_w g l) by (induction l as [|[x y] r IH]; cbn [resps_w]; [lia|]; pose proof (parts_w_le (s_parts x)); unfold set_w; lia).
  assert (C : bps_w f (g_bps s) <= bps_w g (g_bps s)).
  { induction (g_bps s) as [|x r IH]; cbn [bps_w]; [lia|]. unfold bpi_w, bp_w, set_w.
    pose proof (parts_w_le (s_parts (b_buf (i_st x)))). pose proof (S (i_bridge x)). pose proof (R (i_resp x)).
    assert (wait_w f (b_wait (i_st x)) <= wait_w g (b_wait (i_st x))) by (destruct (b_wait (i_st x)); cbn [wait_w]; try lia; apply Hle).
    assert (match i_infl x with Some s0 => parts_w f (s_parts s0) | None => 0 end <= match i_infl x with Some s0 => parts_w g (s_parts s0) | None => 0 end)
      by (destruct (i_infl x); [apply parts_w_le|lia]).
    lia. }
  assert (D : rbs_w f (g_rbs s) <= rbs_w g (g_rbs s)) by (induction (g_rbs s) as [|x r IH]; cbn [rbs_w]; [lia|]; pose proof (wsum_le (rb_ms x)); lia).
  lia.
Qed.
End Mono.

Lemma idw_le_f1 i m : idw i m <= f1 m.
Proof. unfold idw, f1. destruct (is_data m && (m_id m =? i)); lia. Qed.

(* ---------------------------------------------------------------- SyncProducer *)

(* SendMessage(s) waits on the message's own expectation channel, which the success/error readers feed with the
   events naming that message.  For a message submitted once: at any time its expectation has received exactly
   (1 - copies still in the pipeline) events, i.e. none while it is pending and exactly one -- its own -- afterwards;
   in particular exactly one when shutdown has seen inFlight = 0. *)
Theorem sync_outcome c : c_fix_rb c = true -> forall sched i, submissions i (run c sched) = 1 ->
  outcomes i (run c sched) + tokens i (run c sched) = 1 /\
  0 <= tokens i (run c sched) /\ 0 <= outcomes i (run c sched) /\
  (g_woken (run c sched) = true -> outcomes i (run c sched) = 1).
Proof.
  intros Hfix sched i Hs. pose proof (conservation c Hfix sched i) as C.
  pose proof (total_nonneg (idw i) (run c sched) (idw_nonneg i)) as T. fold (tokens i (run c sched)) in T.
  pose proof (evs_w_nonneg (idw i) (g_events (run c sched)) (idw_nonneg i)) as E. fold (outcomes i (run c sched)) in E.
  split; [lia|]. split; [exact T|]. split; [exact E|].
  intros W. destruct (close_order c Hfix sched) as (_ & _ & X). destruct (X W) as (_ & T0 & _).
  pose proof (total_le (idw i) f1 (idw_le_f1 i) (run c sched)) as L. unfold tokens in *. lia.
Qed.

(* ---------------------------------------------------------------- progress (partial) *)

(* The counter is exact, so "inFlight = 0" really means "nothing pending" (c01_inflight_exact, close_order).
   What is proved about progress, without any fairness or timing assumption:
   - the dispatcher and the retry handler are never stuck: a non-empty input is consumed by their step;
   - once inFlight = 0 after AsyncClose the shutdown goroutine can wake, and then close the channels.
   Not proved (environment-dependent): that messages held by a broker worker (buffer, waitForSpace, bridge,
   request in flight, retryBatch) leave it -- that needs the flush condition or timer, and an answer. *)
Theorem progress_partial c s : g_panic s = None ->
  (forall m r, qd s = m :: r -> g_panic (step c s CDisp) = None -> qd (step c s CDisp) = r) /\
  (forall m r, qr s = m :: r -> qr (step c s CRetry) = r /\ qd (step c s CRetry) = qd s ++ [m]) /\
  (g_close_req s = true -> g_woken s = false -> g_inflight s = 0 -> g_woken (step c s CShutWake) = true) /\
  (g_woken s = true -> g_closed s = false -> g_closed (step c s CShutClose) = true).
Proof.
  intros Hs. split; [|split; [|split]].
  - intros m r Hq. unfold step. rewrite Hs. cbn [raw_step].
    assert (Ep : pop DDisp s = Some (m, set_q s (q_set DDisp r (g_q s)))) by (unfold pop; fold (qd s); rewrite Hq; reflexivity).
    rewrite Ep. pose proof (disp_shape c (g_disp (set_q s (q_set DDisp r (g_q s)))) m) as [Shp _].
    destruct (disp_step c _ m) as [d' effs]. cbn [snd] in Shp.
    destruct (g_panic (apply_effs c WOther _ effs)) eqn:Hp; [discriminate|]. intros _.
    destruct (apply_effs_q c WOther true effs Shp _ Hp) as (A & _). rewrite A.
    unfold qd. cbn [set_disp set_q g_q]. rewrite q_get_set. reflexivity.
  - intros m r Hq. unfold step. rewrite Hs. cbn [raw_step].
    assert (Ep : pop DRetry s = Some (m, set_q s (q_set DRetry r (g_q s)))) by (unfold pop; fold (qr s); rewrite Hq; reflexivity).
    rewrite Ep. cbn [set_q g_panic]. rewrite Hs. unfold qr, qd. cbn [set_q g_q]. rewrite !q_get_push, !q_get_set. cbn [dest_eqb]. split; reflexivity.
  - intros R W I. unfold step. rewrite Hs. cbn [raw_step]. rewrite R, W, I. cbn. rewrite Hs. reflexivity.
  - intros W C. unfold step. rewrite Hs. cbn [raw_step]. rewrite W, C. cbn. rewrite Hs. reflexivity.
Qed.
