(* Producer model, part 2: one deterministic step function per goroutine kind of async_producer.go.
   A step consumes one input (a received message, a response, a timer tick ...) plus the values the
   handler reads from its environment (leader lookups, the abandoned flag, the transaction manager),
   and returns the new local state and the list of effects in program order.
   These are the functions the local trace validation replays (coq/Producer/Corr.v) and the functions
   the global semantics composes (coq/Producer/Compose.v).  No proofs here. *)
From Coq Require Import List ZArith Bool Arith.
From SV Require Import Producer.Msg.
Import ListNotations.
Open Scope Z_scope.

(* ================================================================ dispatcher *)

Record disp := mkDisp { d_shut : bool }.     (* shuttingDown *)

(* the interceptor loop: safelyApplyInterceptor for each configured interceptor, in order; a panicking
   interceptor is recovered (it mutates nothing) and the loop goes on *)
Fixpoint apply_ics (id : Z) (k : nat) (ics : list icpt) (pan : list bool) (sz : Z) (h : bool)
  : (Z * bool) * list effect :=
  match ics with
  | [] => ((sz, h), [])
  | ic :: r =>
      let p := hd false pan in
      let sz' := if p then sz else if ic_addhdr ic then sz + ic_delta ic else sz in
      let h' := if p then h else if ic_addhdr ic then true else h in
      let '(res, effs) := apply_ics id (S k) r (tl pan) sz' h' in
      (res, EIc id k p :: effs)
  end.

Definition fresh_pass (m : msg) : bool := (m_retries m =? 0)%nat.

Definition disp_step (c : cfg) (d : disp) (m : msg) : disp * list effect :=
  if is_shut m then (mkDisp true, [EDone m])
  else if fresh_pass m && d_shut d then (d, [ERawErr m E_SHUTTING_DOWN])
  else
    let pre := if fresh_pass m then [EAccept m] else [] in
    let doic := if c_fix_ic c then fresh_pass m && is_data m else true in
    let '((sz, h), ics) := if doic then apply_ics (m_id m) 0%nat (c_ics c) (m_ipanic m) (m_size m) (m_hdr m)
                           else ((m_size m, m_hdr m), []) in
    let m' := set_body m sz h in
    if negb (c_v2 c) && h then (d, pre ++ ics ++ [EErr m' E_HEADERS])
    else if c_max_msg_bytes c <? sz then (d, pre ++ ics ++ [EErr m' E_TOO_LARGE])
    else (d, pre ++ ics ++ [ESend (DTopic (m_topic m)) m']).

(* ================================================================ topic worker *)

(* partitionMessage on the first pass only; the user's partitioner (and the partition list lookup) is the
   oracle m_pres carried by the message *)
Definition tp_step (m : msg) : list effect :=
  if fresh_pass m then
    if 0 <=? m_pres m then [ESend (DPart (m_topic m) (m_pres m)) (set_part m (m_pres m))]
    else [EErr m (- m_pres m)]
  else [ESend (DPart (m_topic m) (m_part m)) m].

(* ================================================================ partition worker *)

Record level := mkLevel { l_buf : list msg; l_chaser : bool }.       (* partitionRetryState *)
Definition level0 := mkLevel [] false.

Record pp := mkPp {
  p_hwm : nat;                (* highWatermark *)
  p_levels : list level;      (* retryState, Retry.Max+1 entries *)
  p_has_bp : bool;            (* brokerProducer != nil (the instance itself is kept by the composition) *)
  p_leader : Z                (* leader id *)
}.

Definition pp_init_state (c : cfg) : pp := mkPp 0%nat (repeat level0 (S (c_retry_max c))) false (-1).

Fixpoint upd_level (i : nat) (f : level -> level) (ls : list level) : list level :=
  match ls, i with
  | [], _ => []
  | l :: r, O => f l :: r
  | l :: r, S i' => l :: upd_level i' f r
  end.
Definition get_level (i : nat) (ls : list level) : level := nth i ls level0.
Definition set_chaser (i : nat) (b : bool) := upd_level i (fun l => mkLevel (l_buf l) b).
Definition set_buf (i : nat) (ms : list msg) := upd_level i (fun l => mkLevel ms (l_chaser l)).
Definition push_buf (i : nat) (m : msg) := upd_level i (fun l => mkLevel (l_buf l ++ [m]) (l_chaser l)).

Definition syn_of (c : cfg) (t p : Z) : msg := marker c t p F_SYN 0%nat.
(* updateLeader succeeded with broker b: getBrokerProducer, inFlight.Add(1), input <- syn *)
Definition leader_effects (c : cfg) (t p b : Z) : list effect :=
  [EGet b; ENew (syn_of c t p); ESend DCur (syn_of c t p)].
Definition E_LOOKUP_DEFAULT := 1004.
(* the next leader lookup result; when the choice carries too few of them the remaining lookups fail *)
Definition next_lres (ls : list lres) : lres * list lres :=
  match ls with [] => (LFail E_LOOKUP_DEFAULT, []) | l :: r => (l, r) end.

(* partitionProducer.dispatch before the loop: prefetch the leader *)
Definition pp_init (c : cfg) (t p : Z) (l : lres) : pp * list effect :=
  match l with
  | LOk b => (mkPp 0%nat (repeat level0 (S (c_retry_max c))) true b, leader_effects c t p b)
  | LFail _ => (pp_init_state c, [])
  end.

(* the forwarding loop of flushRetryBuffers over one level's buffer.  fixes/c05_flush_stamp.patch: a parked
   first-pass message gets its sequence number here (sq: what getAndIncrementSequenceNumber returns next) *)
Fixpoint flush_sends (c : cfg) (t p : Z) (sq ep : Z) (buf : list msg) : list effect * Z :=
  match buf with
  | [] => ([], sq)
  | m :: r =>
      if c_idem c && fresh_pass m && is_data m && negb (m_hasseq m)
      then let '(e, sq') := flush_sends c t p (sq + 1) ep r in (EStamp t p :: ESend DCur (set_stamp m sq ep) :: e, sq')
      else let '(e, sq') := flush_sends c t p sq ep r in (ESend DCur m :: e, sq')
  end.

(* flushRetryBuffers, entered with highWatermark = h *)
Fixpoint flush (c : cfg) (t p : Z) (h : nat) (hasbp : bool) (leader : Z) (lv : list level) (stamp : Z * Z) (ls : list lres)
  : (nat * bool * Z * list level) * list effect :=
  match h with
  | O => ((O, hasbp, leader, lv), [ECrash CR_LEVEL])
  | S h' =>
      let buf := l_buf (get_level h' lv) in
      let '(hasbp1, leader1, effs1, ls1, stamp1) :=
        if hasbp then let '(e, sq') := flush_sends c t p (fst stamp) (snd stamp) buf in (true, leader, e, ls, (sq', snd stamp))
        else match next_lres ls with
             | (LOk b, r) => let '(e, sq') := flush_sends c t p (fst stamp) (snd stamp) buf in
                             (true, b, leader_effects c t p b ++ e, r, (sq', snd stamp))
             | (LFail e, r) =>
                 (* failing sequenced messages bumps the epoch and resets every sequence: the levels below are
                    stamped under the new epoch, from sequence 0 *)
                 let nb := bumps (return_errors buf e) in
                 (false, leader, return_errors buf e, r, if 0 <? nb then (0, snd stamp + nb) else stamp)
             end in
      let lv1 := set_buf h' [] lv in
      if l_chaser (get_level h' lv) || (h' =? 0)%nat then ((h', hasbp1, leader1, lv1), effs1)
      else let '(res, effs2) := flush c t p h' hasbp1 leader1 lv1 stamp1 ls1 in (res, effs1 ++ effs2)
  end.

(* the tail of the loop body: obtain a broker worker if there is none, stamp, forward *)
Definition pp_forward (c : cfg) (t p : Z) (st : pp) (m : msg) (stamp : Z * Z) (ls : list lres) (pre : list effect)
  : pp * list effect :=
  let fwd (st' : pp) (e : list effect) :=
    if c_idem c && fresh_pass m && is_data m
    then (st', pre ++ e ++ [EStamp t p; ESend DCur (set_stamp m (fst stamp) (snd stamp))])
    else (st', pre ++ e ++ [ESend DCur m]) in
  if p_has_bp st then fwd st []
  else match next_lres ls with
       | (LOk b, _) => fwd (mkPp (p_hwm st) (p_levels st) true b) (leader_effects c t p b)
       | (LFail e, _) => (st, pre ++ [EErr m e])
       end.

(* the guard in front of a new retry level: updateLeader when there is no broker worker *)
Definition pp_guard (c : cfg) (t p : Z) (st : pp) (ls : list lres) : (pp * list effect * list lres) + Z :=
  if p_has_bp st then inl (st, [], ls)
  else match next_lres ls with
       | (LOk b, ls') => inl (mkPp (p_hwm st) (p_levels st) true b, leader_effects c t p b, ls')
       | (LFail e, _) => inr e
       end.

(* one iteration of the loop of partitionProducer.dispatch.
   ab: what the abandoned-channel poll of the current broker worker returns;
   stamp: what getAndIncrementSequenceNumber would return; ls: leader lookup results, in call order *)
Definition pp_step (c : cfg) (t p : Z) (st : pp) (m : msg) (ab : bool) (stamp : Z * Z) (ls : list lres)
  : pp * list effect :=
  let st1 := if p_has_bp st && ab then mkPp (p_hwm st) (p_levels st) false (p_leader st) else st in
  let e1 := if p_has_bp st && ab then [EUnref] else [] in
  let r := m_retries m in
  if (p_hwm st1 <? r)%nat then
    (* fixes/c01_newhwm_nil_broker_producer.patch: a new level sends its fin through the current broker worker,
       so one is obtained first; a failed lookup fails the message *)
    match pp_guard c t p st1 ls with
    | inr e => (st1, e1 ++ [EErr m e])
    | inl (stg, eg, ls1) =>
      (* newHighWatermark(r) *)
      if (c_retry_max c <? r)%nat then (stg, e1 ++ eg ++ [ECrash CR_LEVEL])
      else
        let fin := marker c t p F_FIN (r - 1)%nat in
        let st2 := mkPp r (set_chaser r true (p_levels stg)) false (p_leader stg) in
        pp_forward c t p st2 m stamp ls1 (e1 ++ eg ++ [ENew fin; ESend DCur fin; EUnref])
    end
  else if (0 <? p_hwm st1)%nat then
    if (r <? p_hwm st1)%nat then
      if (length (p_levels st1) <=? r)%nat then (st1, e1 ++ [ECrash CR_LEVEL])   (* retryState[msg.retries]: index out of range *)
      else if is_fin m then (mkPp (p_hwm st1) (set_chaser r false (p_levels st1)) (p_has_bp st1) (p_leader st1), e1 ++ [EDone m])
      else (mkPp (p_hwm st1) (push_buf r m (p_levels st1)) (p_has_bp st1) (p_leader st1), e1)
    else if is_fin m then
      let lv := set_chaser (p_hwm st1) false (p_levels st1) in
      let '((h', hasbp, leader, lv'), effs) := flush c t p (p_hwm st1) (p_has_bp st1) (p_leader st1) lv stamp ls in
      (mkPp h' lv' hasbp leader, e1 ++ effs ++ [EDone m])
    else pp_forward c t p st1 m stamp ls e1
  else pp_forward c t p st1 m stamp ls e1.

(* ================================================================ broker worker *)

Inductive bwait := WNone | WOver (m : msg) | WForce (m : msg).   (* inside waitForSpace(msg, forceRollover) *)
Inductive bmode := MRun | MDrain | MClosed.   (* run loop | shutdown(): emptying the buffer | output closed, draining responses *)

Record bp := mkBp {
  b_broker : Z;
  b_buf : pset;                   (* buffer *)
  b_timer : bool;                 (* timer != nil *)
  b_fired : bool;                 (* timerFired *)
  b_closing : option Z;           (* closing *)
  b_cur : list (tpk * Z);         (* currentRetries entries holding a non-nil error *)
  b_wait : bwait;
  b_mode : bmode;
  b_out_en : bool                 (* the run loop's local `output` is non-nil *)
}.

Definition bp_init (broker ep : Z) : bp := mkBp broker (empty_set ep) false false None [] WNone MRun false.

Definition with_buf (st : bp) (s : pset) : bp :=
  mkBp (b_broker st) s (b_timer st) (b_fired st) (b_closing st) (b_cur st) (b_wait st) (b_mode st) (b_out_en st).
Definition with_cur (st : bp) (cur : list (tpk * Z)) : bp :=
  mkBp (b_broker st) (b_buf st) (b_timer st) (b_fired st) (b_closing st) cur (b_wait st) (b_mode st) (b_out_en st).
Definition with_wait (st : bp) (w : bwait) : bp :=
  mkBp (b_broker st) (b_buf st) (b_timer st) (b_fired st) (b_closing st) (b_cur st) w (b_mode st) (b_out_en st).
Definition with_mode (st : bp) (md : bmode) : bp :=
  mkBp (b_broker st) (b_buf st) (b_timer st) (b_fired st) (b_closing st) (b_cur st) (b_wait st) md (b_out_en st).
Definition with_closing (st : bp) (e : Z) : bp :=
  mkBp (b_broker st) (b_buf st) (b_timer st) (b_fired st) (Some e) (b_cur st) (b_wait st) (b_mode st) (b_out_en st).
(* rollOver: timer = nil, timerFired = false, buffer = newProduceSet (which reads the current epoch) *)
Definition rollover (st : bp) (ep : Z) : bp :=
  mkBp (b_broker st) (empty_set ep) false false (b_closing st) (b_cur st) (b_wait st) (b_mode st) (b_out_en st).

Fixpoint cur_lookup (k : tpk) (cur : list (tpk * Z)) : option Z :=
  match cur with [] => None | (k', e) :: r => if tpk_eqb k k' then Some e else cur_lookup k r end.
Fixpoint cur_remove (k : tpk) (cur : list (tpk * Z)) : list (tpk * Z) :=
  match cur with [] => [] | (k', e) :: r => if tpk_eqb k k' then cur_remove k r else (k', e) :: cur_remove k r end.
Definition cur_set (k : tpk) (e : Z) (cur : list (tpk * Z)) : list (tpk * Z) := (k, e) :: cur_remove k cur.

Definition msg_key (m : msg) : tpk := (m_topic m, m_part m).

(* needsRetry *)
Definition needs_retry (st : bp) (m : msg) : option Z :=
  match b_closing st with Some e => Some e | None => cur_lookup (msg_key m) (b_cur st) end.

(* buffer.add and the timer arming that follows it.  The third component tells whether the run-loop
   iteration reaches its end (where `output` is recomputed): every error path leaves it with `continue`. *)
Definition do_add (c : cfg) (st : bp) (m : msg) : bp * list effect * bool :=
  if m_encfail m then (st, [EErr m E_ENCODE], false)
  else
    let seqbad := c_v2 c && c_idem c &&
                  match part_lookup (msg_key m) (s_parts (b_buf st)) with
                  | Some (m0 :: _) => m_seq m <? m_seq m0
                  | _ => false
                  end in
    if seqbad then (st, [EErr m E_SEQUENCE], false)
    else
      let s := mkSet (part_add (msg_key m) m (s_parts (b_buf st))) (s_epoch (b_buf st)) in
      (mkBp (b_broker st) s (b_timer st || c_flush_freq c) (b_fired st) (b_closing st) (b_cur st) (b_wait st)
            (b_mode st) (b_out_en st), [ENote 3 (m_id m)], true).

(* after the overflow wait: the epoch-rollover test, then add *)
Definition after_over (c : cfg) (st : bp) (m : msg) : bp * list effect * bool :=
  if c_idem c && negb (s_epoch (b_buf st) =? m_epoch m) then (with_wait st (WForce m), [ENote 2 (m_id m)], false)
  else do_add c st m.

Definition recv_data (c : cfg) (st : bp) (m : msg) : bp * list effect * bool :=
  if would_overflow c (b_buf st) m then (with_wait st (WOver m), [ENote 1 (m_id m)], false)
  else after_over c st m.

(* returnSuccesses with offsets base, base+1, ... (base = -1: offsets not assigned) *)
Fixpoint successes (l : list msg) (base : Z) : list effect :=
  match l with
  | [] => []
  | m :: r => ESucc m base :: successes r (if base <? 0 then base else base + 1)
  end.

(* handleSuccess, first eachPartition loop *)
Fixpoint hs_phase1 (c : cfg) (broker : Z) (r : resp) (ps : list (tpk * list msg)) : list effect :=
  match ps with
  | [] => []
  | (k, l) :: rest =>
      (match r with
       | RNil => successes l (-1)
       | RErr _ _ => []
       | RBlocks bl =>
           match block_lookup k bl with
           | None => return_errors l E_INCOMPLETE
           | Some (e, off) =>
               if e =? 0 then successes l off
               else if e =? E_DUPLICATE then successes l (-1)
               else if retriable e then
                 (if (c_retry_max c =? 0)%nat then EAbandon broker :: return_errors l e else [])
               else (if (c_retry_max c =? 0)%nat then [EAbandon broker] else []) ++ return_errors l e
           end
       end) ++ hs_phase1 c broker r rest
  end.

(* handleSuccess, second loop (only when Retry.Max > 0 and some block is retriable; with Retry.Max = 0 the
   list retryTopics stays empty) *)
Fixpoint hs_phase2 (c : cfg) (bl : list (tpk * (Z * Z))) (ps : list (tpk * list msg))
         (cur : list (tpk * Z)) (buf : list (tpk * list msg))
  : (list (tpk * Z) * list (tpk * list msg)) * list effect :=
  match ps with
  | [] => ((cur, buf), [])
  | (k, l) :: rest =>
      match block_lookup k bl with
      | Some (e, _) =>
          if retriable e then
            let dropped := match part_lookup k buf with Some d => d | None => [] end in
            let effs := (if c_idem c then [ESpawnRB k l e] else retry_msgs c l e) ++ retry_msgs c dropped e in
            let '(res, effs') := hs_phase2 c bl rest (cur_set k e cur) (part_drop k buf) in
            (res, effs ++ effs')
          else hs_phase2 c bl rest cur buf
      | None => hs_phase2 c bl rest cur buf
      end
  end.

Fixpoint all_retry (c : cfg) (ps : list (tpk * list msg)) (e : Z) : list effect :=
  match ps with [] => [] | (_, l) :: r => retry_msgs c l e ++ all_retry c r e end.
Fixpoint all_errors (ps : list (tpk * list msg)) (e : Z) : list effect :=
  match ps with [] => [] | (_, l) :: r => return_errors l e ++ all_errors r e end.

(* handleResponse; ep is the transaction manager's epoch when the handler starts *)
Definition handle_response (c : cfg) (ep : Z) (st : bp) (sent : pset) (r : resp) : bp * list effect :=
  let '(st1, effs) :=
    match r with
    | RErr e true => (st, all_errors (s_parts sent) e)
    | RErr e false =>
        let effs := EAbandon (b_broker st) :: all_retry c (s_parts sent) e ++ all_retry c (s_parts (b_buf st)) e in
        (rollover (with_closing st e) (ep + bumps effs), effs)
    | RNil => (st, hs_phase1 c (b_broker st) r (s_parts sent))
    | RBlocks bl =>
        let e1 := hs_phase1 c (b_broker st) r (s_parts sent) in
        if (c_retry_max c =? 0)%nat then (st, e1)
        else
          let '((cur, buf), e2) := hs_phase2 c bl (s_parts sent) (b_cur st) (s_parts (b_buf st)) in
          (with_cur (with_buf st (mkSet buf (s_epoch (b_buf st)))) cur, e1 ++ e2)
    end in
  if set_empty (b_buf st1) then (rollover st1 (ep + bumps effs), effs) else (st1, effs).

Inductive bp_in :=
| BRecv (m : msg)               (* msg, ok := <-bp.input *)
| BClosed                       (* bp.input closed *)
| BTimer                        (* <-bp.timer *)
| BFlush                        (* output <- bp.buffer (run loop, waitForSpace or shutdown) *)
| BResp (sent : pset) (r : resp).  (* <-bp.responses *)

(* end of a run-loop iteration: output = bp.output iff timerFired || readyToFlush.  NOTE: the `continue`
   statements of the input case (syn, bounced message, failed wait, failed add) skip this, so `output` can stay
   enabled over an emptied buffer and an empty set is then handed to the bridge — modelled as it is. *)
Definition end_iter (c : cfg) (st : bp) : bp :=
  match b_mode st, b_wait st with
  | MRun, WNone =>
      mkBp (b_broker st) (b_buf st) (b_timer st) (b_fired st) (b_closing st) (b_cur st) WNone MRun
           (b_fired st || ready_to_flush c (b_buf st))
  | _, _ => st
  end.
(* shutdown(): `for !bp.buffer.empty()` then close(bp.output) *)
Definition drain_check (st : bp) : bp :=
  match b_mode st with
  | MDrain => if set_empty (b_buf st) then with_mode st MClosed else st
  | _ => st
  end.

Definition flush_enabled (st : bp) : bool :=
  match b_mode st, b_wait st with
  | MRun, WNone => b_out_en st
  | MRun, _ => true
  | MDrain, _ => true
  | MClosed, _ => false
  end.

(* the run loop is at its select (not inside waitForSpace or shutdown) *)
Definition flush_poll (st : bp) : bool :=
  match b_mode st, b_wait st with MRun, WNone => true | _, _ => false end.

(* the handler proper; the boolean says whether the run-loop iteration reaches its end *)
Definition bp_core (c : cfg) (ep : Z) (st : bp) (i : bp_in) : bp * list effect * bool :=
    match i with
    | BRecv m =>
        match b_mode st, b_wait st with
        | MRun, WNone =>
            if is_syn m then (with_cur st (cur_remove (msg_key m) (b_cur st)), [EDone m], false)
            else match needs_retry st m with
                 | Some e =>
                     ((match b_closing st with
                       | None => if is_fin m then with_cur st (cur_remove (msg_key m) (b_cur st)) else st
                       | Some _ => st
                       end), [retry_msg c m e], false)
                 | None =>
                     (* fixes/c04_fin_not_buffered.patch: a chaser that finds this worker not refusing its partition
                        is bounced like the messages it chases, never buffered *)
                     if is_fin m then (st, [retry_msg c m E_SHUTTING_DOWN], false)
                     else recv_data c st m
                 end
        | _, _ => (st, [ECrash 99], false)     (* not reading its input: the composition never offers this *)
        end
    | BClosed =>
        match b_mode st, b_wait st with
        | MRun, WNone => (with_mode st MDrain, [], false)
        | _, _ => (st, [], false)
        end
    | BTimer => if b_timer st && flush_poll st then (mkBp (b_broker st) (b_buf st) (b_timer st) true (b_closing st) (b_cur st)
                                         (b_wait st) (b_mode st) (b_out_en st), [], true)
                else (st, [], false)
    | BFlush =>
        if flush_enabled st then
          let st1 := with_wait (rollover st ep) WNone in
          match b_wait st with
          | WNone => (st1, [EBridge (b_buf st)], true)
          | WOver m => let '(st2, e2, u) := after_over c st1 m in (st2, EBridge (b_buf st) :: e2, u)
          | WForce m => let '(st2, e2, u) := do_add c st1 m in (st2, EBridge (b_buf st) :: e2, u)
          end
        else (st, [], false)
    | BResp sent r =>
        let '(st1, effs) := handle_response c ep st sent r in
        match b_wait st1 with
        | WNone => (st1, effs, true)
        | WOver m =>
            match needs_retry st1 m with
            | Some e => (with_wait st1 WNone, effs ++ [retry_msg c m e], false)
            | None => if would_overflow c (b_buf st1) m then (st1, effs, false)
                      else let '(st2, e2, u) := after_over c (with_wait st1 WNone) m in (st2, effs ++ e2, u)
            end
        | WForce m =>
            match needs_retry st1 m with
            | Some e => (with_wait st1 WNone, effs ++ [retry_msg c m e], false)
            | None => (st1, effs, false)
            end
        end
    end.

Definition bp_step (c : cfg) (ep : Z) (st : bp) (i : bp_in) : bp * list effect :=
  let '(st', effs, upd) := bp_core c ep st i in
  (drain_check (if upd then end_iter c st' else st'), effs).

(* ================================================================ retryBatch goroutine (idempotent) *)

Fixpoint first_exhausted (c : cfg) (ms : list msg) : option msg :=
  match ms with
  | [] => None
  | m :: r => if (c_retry_max c <=? m_retries m)%nat then Some m else first_exhausted c r
  end.

(* ep: epoch read by newProduceSet at the start; l: client.Leader result *)
Definition rb_step (c : cfg) (ep : Z) (k : tpk) (ms : list msg) (e : Z) (l : lres) : list effect :=
  match first_exhausted c ms with
  | Some m => if c_fix_rb c then return_errors ms e else [EErr m e]
  | None =>
      let ms' := map (fun m => set_retries m (S (m_retries m))) ms in
      match l with
      | LFail _ => return_errors ms' e
      | LOk b => [ERbSend b (mkSet [(k, ms')] ep)]
      end
  end.
