(* Producer model, part 1: messages, configuration, produce sets, effects.
   Executable Gallina only (no proofs here).  See coq/Producer/README.md for the map from these
   definitions to async_producer.go / produce_set.go. *)
From Coq Require Import List ZArith Bool Arith.
Import ListNotations.
Open Scope Z_scope.

(* ---------------------------------------------------------------- messages *)

(* flags: 0 data (application message), 1 syn, 2 fin (the "chaser"), 4 shutdown *)
Definition F_DATA := 0.
Definition F_SYN := 1.
Definition F_FIN := 2.
Definition F_SHUT := 4.

Record msg := mkMsg {
  m_id : Z;            (* identity (harness: ProducerMessage.Metadata); -1 for internal markers *)
  m_topic : Z;
  m_part : Z;          (* Partition; meaningful after the topic worker's first pass *)
  m_retries : nat;
  m_flags : Z;
  m_size : Z;          (* byteSize(version) *)
  m_hdr : bool;        (* Headers != nil *)
  m_pres : Z;          (* oracle for the user's partitioner: >= 0 the chosen partition, < 0 minus the error class *)
  m_encfail : bool;    (* Key/Value Encode() fails in produceSet.add *)
  m_seq : Z; m_epoch : Z; m_hasseq : bool;    (* idempotent producer stamps *)
  m_ipanic : list bool (* oracle: does interceptor k panic on this message *)
}.

Definition is_data (m : msg) : bool := Z.eqb (m_flags m) F_DATA.
Definition is_syn (m : msg) : bool := Z.eqb (Z.land (m_flags m) F_SYN) F_SYN.
Definition is_fin (m : msg) : bool := Z.eqb (Z.land (m_flags m) F_FIN) F_FIN.
Definition is_shut (m : msg) : bool := negb (Z.eqb (Z.land (m_flags m) F_SHUT) 0).

Definition set_retries (m : msg) (r : nat) : msg :=
  mkMsg (m_id m) (m_topic m) (m_part m) r (m_flags m) (m_size m) (m_hdr m) (m_pres m) (m_encfail m)
        (m_seq m) (m_epoch m) (m_hasseq m) (m_ipanic m).
Definition set_part (m : msg) (p : Z) : msg :=
  mkMsg (m_id m) (m_topic m) p (m_retries m) (m_flags m) (m_size m) (m_hdr m) (m_pres m) (m_encfail m)
        (m_seq m) (m_epoch m) (m_hasseq m) (m_ipanic m).
Definition set_stamp (m : msg) (sq ep : Z) : msg :=
  mkMsg (m_id m) (m_topic m) (m_part m) (m_retries m) (m_flags m) (m_size m) (m_hdr m) (m_pres m) (m_encfail m)
        sq ep true (m_ipanic m).
Definition set_body (m : msg) (sz : Z) (h : bool) : msg :=
  mkMsg (m_id m) (m_topic m) (m_part m) (m_retries m) (m_flags m) sz h (m_pres m) (m_encfail m)
        (m_seq m) (m_epoch m) (m_hasseq m) (m_ipanic m).
(* what the application hands in: retries, flags and stamps are the zero values *)
Definition fresh_of (m : msg) : msg :=
  mkMsg (m_id m) (m_topic m) (m_part m) 0%nat F_DATA (m_size m) (m_hdr m) (m_pres m) (m_encfail m)
        0 0 false (m_ipanic m).
(* ---------------------------------------------------------------- configuration *)

Record icpt := mkIc { ic_addhdr : bool; ic_delta : Z }.   (* a mutating interceptor: appends a header of that size *)

Record cfg := mkCfg {
  c_retry_max : nat;        (* Producer.Retry.Max *)
  c_idem : bool;            (* Producer.Idempotent (producerID != noProducerID) *)
  c_v2 : bool;              (* Version >= 0.11 *)
  c_max_msg_bytes : Z;      (* Producer.MaxMessageBytes *)
  c_max_req : Z;            (* MaxRequestSize - 10 KiB *)
  c_flush_msgs : Z;         (* Producer.Flush.Messages *)
  c_flush_bytes : Z;        (* Producer.Flush.Bytes *)
  c_flush_freq : bool;      (* Producer.Flush.Frequency > 0 *)
  c_max_msgs : Z;           (* Producer.Flush.MaxMessages *)
  c_ics : list icpt;        (* Producer.Interceptors *)
  c_fix_rb : bool;          (* fixes/c01_retrybatch.patch applied (true = the code the theorems are about) *)
  c_fix_ic : bool           (* fixes/c18_producer_interceptor.patch applied *)
}.

(* internal markers: &ProducerMessage{Topic, Partition, flags, retries}; byteSize of an empty message *)
Definition marker (c : cfg) (t p : Z) (fl : Z) (r : nat) : msg :=
  mkMsg (-1) t p r fl (if c_v2 c then 36 else 26) false 0 false 0 0 false [].
Definition shutdown_marker (c : cfg) : msg := marker c 0 0 F_SHUT 0%nat.

(* ---------------------------------------------------------------- produce sets *)

Definition tpk := (Z * Z)%type.     (* topic, partition *)
Definition tpk_eqb (a b : tpk) : bool := Z.eqb (fst a) (fst b) && Z.eqb (snd a) (snd b).

Record pset := mkSet { s_parts : list (tpk * list msg); s_epoch : Z }.

Definition msgs_size (l : list msg) : Z := fold_right (fun m a => m_size m + a) 0 l.
Definition record_batch_overhead := 49.
Definition part_bytes (c : cfg) (l : list msg) : Z :=
  (if c_v2 c then record_batch_overhead else 0) + msgs_size l.
Fixpoint parts_count (ps : list (tpk * list msg)) : Z :=
  match ps with [] => 0 | (_, l) :: r => Z.of_nat (length l) + parts_count r end.
Fixpoint parts_bytes (c : cfg) (ps : list (tpk * list msg)) : Z :=
  match ps with [] => 0 | (_, l) :: r => part_bytes c l + parts_bytes c r end.
Definition set_count (s : pset) : Z := parts_count (s_parts s).
Definition set_bytes (c : cfg) (s : pset) : Z := parts_bytes c (s_parts s).
Definition set_empty (s : pset) : bool := Z.eqb (set_count s) 0.

Fixpoint part_lookup (k : tpk) (ps : list (tpk * list msg)) : option (list msg) :=
  match ps with
  | [] => None
  | (k', l) :: r => if tpk_eqb k k' then Some l else part_lookup k r
  end.
(* append a message to its partition's list (new partitions go to the end) *)
Fixpoint part_add (k : tpk) (m : msg) (ps : list (tpk * list msg)) : list (tpk * list msg) :=
  match ps with
  | [] => [(k, [m])]
  | (k', l) :: r => if tpk_eqb k k' then (k', l ++ [m]) :: r else (k', l) :: part_add k m r
  end.
Fixpoint part_drop (k : tpk) (ps : list (tpk * list msg)) : list (tpk * list msg) :=
  match ps with
  | [] => []
  | (k', l) :: r => if tpk_eqb k k' then r else (k', l) :: part_drop k r
  end.
Fixpoint parts_msgs (ps : list (tpk * list msg)) : list msg :=
  match ps with [] => [] | (_, l) :: r => l ++ parts_msgs r end.
Definition set_msgs (s : pset) : list msg := parts_msgs (s_parts s).
Definition empty_set (ep : Z) : pset := mkSet [] ep.

(* produceSet.wouldOverflow *)
Definition would_overflow (c : cfg) (s : pset) (m : msg) : bool :=
  (c_max_req c <=? set_bytes c s + m_size m) ||
  match part_lookup (m_topic m, m_part m) (s_parts s) with
  | Some l => c_max_msg_bytes c <=? part_bytes c l + m_size m
  | None => false
  end ||
  ((0 <? c_max_msgs c) && (c_max_msgs c <=? set_count s)).

(* produceSet.readyToFlush *)
Definition ready_to_flush (c : cfg) (s : pset) : bool :=
  if set_empty s then false
  else if negb (c_flush_freq c) && Z.eqb (c_flush_bytes c) 0 && Z.eqb (c_flush_msgs c) 0 then true
  else if (0 <? c_flush_msgs c) && (c_flush_msgs c <=? set_count s) then true
  else (0 <? c_flush_bytes c) && (c_flush_bytes c <=? set_bytes c s).

(* ---------------------------------------------------------------- responses *)

(* what the bridge hands back for one request *)
Inductive resp :=
| RErr (e : Z) (encoding : bool)           (* broker.Produce failed; encoding = PacketEncodingError *)
| RNil                                      (* response == nil (RequiredAcks = NoResponse) *)
| RBlocks (bl : list (tpk * (Z * Z))).      (* per partition: (error code, base offset); absent = no block *)

Fixpoint block_lookup (k : tpk) (bl : list (tpk * (Z * Z))) : option (Z * Z) :=
  match bl with
  | [] => None
  | (k', v) :: r => if tpk_eqb k k' then Some v else block_lookup k r
  end.

(* the retriable codes of handleSuccess: InvalidMessage, UnknownTopicOrPartition, LeaderNotAvailable,
   NotLeaderForPartition, RequestTimedOut, NotEnoughReplicas, NotEnoughReplicasAfterAppend *)
Definition retriable (e : Z) : bool :=
  Z.eqb e 2 || Z.eqb e 3 || Z.eqb e 5 || Z.eqb e 6 || Z.eqb e 7 || Z.eqb e 19 || Z.eqb e 20.
Definition E_DUPLICATE := 46.
Definition E_SHUTTING_DOWN := 1001.
Definition E_HEADERS := 1002.
Definition E_INCOMPLETE := 1003.
Definition E_TOO_LARGE := 10.
Definition E_ENCODE := 1011.
Definition E_SEQUENCE := 1012.

(* result of a leader lookup (client.Leader / updateLeader): broker id or error class *)
Inductive lres := LOk (broker : Z) | LFail (e : Z).

(* ---------------------------------------------------------------- effects *)

Inductive dest :=
| DDisp                (* asyncProducer.input *)
| DTopic (t : Z)       (* topicProducer.input *)
| DPart (t p : Z)      (* partitionProducer.input *)
| DRetry               (* asyncProducer.retries + the retry handler's buffer *)
| DBp (b : nat)        (* brokerProducer.input of instance b *)
| DCur.                (* partition worker only: pp.brokerProducer.input *)

Definition dest_eqb (a b : dest) : bool :=
  match a, b with
  | DDisp, DDisp | DRetry, DRetry | DCur, DCur => true
  | DTopic t, DTopic t' => Z.eqb t t'
  | DPart t p, DPart t' p' => Z.eqb t t' && Z.eqb p p'
  | DBp x, DBp y => Nat.eqb x y
  | _, _ => false
  end.

Inductive effect :=
| ESend (d : dest) (m : msg)
| EErr (m : msg) (e : Z)            (* returnError: bumpEpoch if stamped, clear, errors <- , inFlight.Done *)
| ESucc (m : msg) (off : Z)         (* one message of returnSuccesses: clear, successes <- , inFlight.Done; off = -1: not assigned *)
| ERawErr (m : msg) (e : Z)         (* dispatcher while shutting down: errors <- without touching inFlight *)
| ENew (m : msg)                    (* inFlight.Add(1) for a marker created here (it is sent by a following ESend) *)
| EAccept (m : msg)                 (* inFlight.Add(1) for a fresh application message (dispatcher) *)
| EDone (m : msg)                   (* inFlight.Done for a consumed marker *)
| EIc (id : Z) (k : nat) (panicked : bool)   (* interceptor k ran on message id *)
| EStamp (t p : Z)                  (* getAndIncrementSequenceNumber *)
| EUnref                            (* partition worker: unrefBrokerProducer(pp.leader, pp.brokerProducer); pp.brokerProducer = nil *)
| EGet (broker : Z)                 (* partition worker: pp.brokerProducer = getBrokerProducer(leader) *)
| EAbandon (broker : Z)             (* abandonBrokerConnection *)
| EBridge (s : pset)                (* broker worker: output <- buffer *)
| ESpawnRB (k : tpk) (ms : list msg) (e : Z)   (* go retryBatch(topic, partition, pSet, err) *)
| ERbSend (broker : Z) (s : pset)   (* retryBatch: getBrokerProducer(leader).output <- set *)
| ENote (k : Z) (id : Z)            (* no semantics; makes decisions visible to the trace validation:
                                       1 waitForSpace(msg,false) entered, 2 waitForSpace(msg,true) entered, 3 buffer.add succeeded *)
| ECrash (code : Z).                (* a Go run-time panic other than a send on a closed event channel *)

Definition CR_NIL_BP := 11.       (* newHighWatermark with pp.brokerProducer == nil *)
Definition CR_LEVEL := 12.        (* retryState index out of range *)
Definition CR_NO_ORACLE := 13.    (* model artefact: the choice carried too few leader-lookup results *)

(* retryMessage *)
Definition retry_msg (c : cfg) (m : msg) (e : Z) : effect :=
  if (c_retry_max c <=? m_retries m)%nat then EErr m e else ESend DRetry (set_retries m (S (m_retries m))).
Definition retry_msgs (c : cfg) (l : list msg) (e : Z) : list effect := map (fun m => retry_msg c m e) l.
Definition return_errors (l : list msg) (e : Z) : list effect := map (fun m => EErr m e) l.

(* number of transaction-manager epoch bumps a list of effects performs *)
Fixpoint bumps (l : list effect) : Z :=
  match l with
  | [] => 0
  | EErr m _ :: r => (if m_hasseq m then 1 else 0) + bumps r
  | _ :: r => bumps r
  end.
