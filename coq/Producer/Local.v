(* Producer proofs, part 2: what one handler invocation does to the weights.  For every actor step function:
   weight of the input + weight held before + weight of markers created
     = weight held after + weight sent/emitted + weight of markers consumed        (for every stable weight),
   plus the shape facts the counter invariant needs (which effects an actor can produce at all). *)
From Coq Require Import List ZArith Bool Arith Lia.
From SV Require Import Producer.Msg Producer.Actors Producer.Compose Producer.Weights.
Import ListNotations.
Open Scope Z_scope.

Definition esum (g : effect -> Z) (l : list effect) : Z := fold_right (fun e a => g e + a) 0 l.
Lemma esum_app g a b : esum g (a ++ b) = esum g a + esum g b.
Proof. induction a as [|x a IH]; simpl; [reflexivity | rewrite IH; lia]. Qed.
Lemma esum_cons g x l : esum g (x :: l) = g x + esum g l. Proof. reflexivity. Qed.
Lemma esum_nil g : esum g [] = 0. Proof. reflexivity. Qed.

(* weight that lands in a place of the composition / in an event channel *)
Definition eff_pe (f : msg -> Z) (e : effect) : Z :=
  match e with
  | ESend _ m | EErr m _ | ESucc m _ | ERawErr m _ => f m
  | EBridge s | ERbSend _ s => set_w f s
  | ESpawnRB _ ms _ => wsum f ms
  | _ => 0
  end.
Definition eff_sink (f : msg -> Z) (e : effect) : Z := match e with EDone m => f m | _ => 0 end.
Definition eff_new (f : msg -> Z) (e : effect) : Z := match e with ENew m => f m | _ => 0 end.
(* net outflow *)
Definition eff_net (f : msg -> Z) (e : effect) : Z := eff_pe f e + eff_sink f e - eff_new f e.

Definition is_crash (e : effect) : bool := match e with ECrash _ => true | _ => false end.
Definition has_crash (l : list effect) : bool := existsb is_crash l.
Lemma has_crash_app a b : has_crash (a ++ b) = has_crash a || has_crash b.
Proof. apply existsb_app. Qed.

(* ---------------------------------------------------------------- helper lists *)

Section Helpers.
Variable f : msg -> Z.
Hypothesis Hf : stable f.

Lemma net_retry_msg c m e : eff_net f (retry_msg c m e) = f m.
Proof.
  unfold retry_msg, eff_net. destruct (c_retry_max c <=? m_retries m)%nat; simpl;
    rewrite ?stable_set_retries by assumption; lia.
Qed.
Lemma net_retry_msgs c l e : esum (eff_net f) (retry_msgs c l e) = wsum f l.
Proof. unfold retry_msgs. induction l as [|m l IH]; [reflexivity|]. cbn [map]. rewrite esum_cons, wsum_cons, net_retry_msg, IH. reflexivity. Qed.
Lemma net_return_errors l e : esum (eff_net f) (return_errors l e) = wsum f l.
Proof. unfold return_errors. induction l as [|m l IH]; [reflexivity|]. cbn [map]. rewrite esum_cons, wsum_cons, IH. unfold eff_net; simpl. lia. Qed.
Lemma net_successes l b : esum (eff_net f) (successes l b) = wsum f l.
Proof. revert b; induction l as [|m l IH]; intros b; [reflexivity|]. cbn [successes]. rewrite esum_cons, wsum_cons, IH. unfold eff_net; simpl. lia. Qed.
Lemma net_sends d l : esum (eff_net f) (map (ESend d) l) = wsum f l.
Proof. induction l as [|m l IH]; [reflexivity|]. cbn [map]. rewrite esum_cons, wsum_cons, IH. unfold eff_net; simpl. lia. Qed.
Lemma net_all_retry c ps e : esum (eff_net f) (all_retry c ps e) = parts_w f ps.
Proof. induction ps as [|[k l] r IH]; [reflexivity|]. cbn [all_retry parts_w]. rewrite esum_app, net_retry_msgs, IH. reflexivity. Qed.
Lemma net_all_errors ps e : esum (eff_net f) (all_errors ps e) = parts_w f ps.
Proof. induction ps as [|[k l] r IH]; [reflexivity|]. cbn [all_errors parts_w]. rewrite esum_app, net_return_errors, IH. reflexivity. Qed.

Lemma crash_retry_msgs c l e : has_crash (retry_msgs c l e) = false.
Proof. unfold retry_msgs. induction l as [|m l IH]; [reflexivity|]. cbn [map has_crash existsb]. unfold retry_msg at 1. destruct (c_retry_max c <=? m_retries m)%nat; simpl; exact IH. Qed.
Lemma crash_return_errors l e : has_crash (return_errors l e) = false.
Proof. induction l; simpl; auto. Qed.
Lemma crash_sends d l : has_crash (map (ESend d) l) = false.
Proof. induction l; simpl; auto. Qed.
End Helpers.

(* ---------------------------------------------------------------- dispatcher *)

Lemma net_apply_ics f id k ics pan sz h : esum (eff_net f) (snd (apply_ics id k ics pan sz h)) = 0.
Proof.
  revert k pan sz h. induction ics as [|ic r IH]; intros; [reflexivity|].
  cbn [apply_ics].
  match goal with |- context [apply_ics id (S k) r ?a ?b ?d] => specialize (IH (S k) a b d); destruct (apply_ics id (S k) r a b d) as [res effs] end.
  cbn [snd] in *. rewrite esum_cons, IH. reflexivity.
Qed.

Lemma disp_balance f c d m : stable f ->
  esum (eff_net f) (snd (disp_step c d m)) = f m.
Proof.
  intros Hf. unfold disp_step.
  destruct (is_shut m); [simpl; unfold eff_net; simpl; lia|].
  destruct (fresh_pass m && d_shut d); [simpl; unfold eff_net; simpl; lia|].
  set (doic := if c_fix_ic c then fresh_pass m && is_data m else true).
  destruct doic.
  - pose proof (net_apply_ics f (m_id m) 0%nat (c_ics c) (m_ipanic m) (m_size m) (m_hdr m)) as Hic.
    destruct (apply_ics _ _ _ _ _ _) as [[sz h] ics]. simpl in Hic.
    destruct (negb (c_v2 c) && h); [|destruct (c_max_msg_bytes c <? sz)]; simpl;
      rewrite !esum_app, Hic; destruct (fresh_pass m); simpl; unfold eff_net; simpl;
      rewrite ?stable_set_body by assumption; lia.
  - destruct (negb (c_v2 c) && m_hdr m); [|destruct (c_max_msg_bytes c <? m_size m)]; simpl;
      rewrite !esum_app; destruct (fresh_pass m); simpl; unfold eff_net; simpl;
      rewrite ?stable_set_body by assumption; lia.
Qed.

(* ---------------------------------------------------------------- topic worker *)

Lemma tp_balance f m : stable f -> esum (eff_net f) (tp_step m) = f m.
Proof.
  intros Hf. unfold tp_step. destruct (fresh_pass m); [destruct (0 <=? m_pres m)|]; simpl; unfold eff_net; simpl;
    rewrite ?stable_set_part by assumption; lia.
Qed.

(* ---------------------------------------------------------------- partition worker *)

Lemma levels_w_set_buf_nil f i lv :
  levels_w f (set_buf i [] lv) = levels_w f lv - wsum f (l_buf (get_level i lv)).
Proof.
  unfold set_buf. rewrite levels_w_upd. cbn [l_buf wsum fold_right].
  destruct (i <? length lv)%nat eqn:E; [lia|].
  apply Nat.ltb_ge in E. unfold get_level. rewrite nth_overflow by exact E. simpl. lia.
Qed.
Lemma levels_w_push_buf f i m lv : (i < length lv)%nat ->
  levels_w f (push_buf i m lv) = levels_w f lv + f m.
Proof.
  intros H. unfold push_buf. rewrite levels_w_upd. cbn [l_buf].
  apply Nat.ltb_lt in H. rewrite H, wsum_app. simpl. lia.
Qed.

Lemma net_leader_effects f c t p b : esum (eff_net f) (leader_effects c t p b) = 0.
Proof. unfold leader_effects, eff_net; simpl. lia. Qed.
Lemma crash_leader_effects c t p b : has_crash (leader_effects c t p b) = false.
Proof. reflexivity. Qed.

Lemma flush_sends_balance f c t p : stable f -> forall buf sq ep,
  esum (eff_net f) (fst (flush_sends c t p sq ep buf)) = wsum f buf /\ has_crash (fst (flush_sends c t p sq ep buf)) = false.
Proof.
  intros Hf. induction buf as [|m r IH]; intros sq ep; [split; reflexivity|]. cbn [flush_sends].
  destruct (c_idem c && fresh_pass m && is_data m && negb (m_hasseq m)).
  - specialize (IH (sq + 1) ep). destruct (flush_sends c t p (sq + 1) ep r) as [e sq']. cbn [fst] in *. destruct IH as [A B].
    rewrite !esum_cons, wsum_cons, A. unfold eff_net at 1 2; simpl. rewrite stable_set_stamp by assumption. split; [lia|exact B].
  - specialize (IH sq ep). destruct (flush_sends c t p sq ep r) as [e sq']. cbn [fst] in *. destruct IH as [A B].
    rewrite esum_cons, wsum_cons, A. unfold eff_net at 1; simpl. split; [lia|exact B].
Qed.

Lemma flush_balance f c t p : stable f -> forall h hasbp leader lv stamp ls,
  has_crash (snd (flush c t p h hasbp leader lv stamp ls)) = false ->
  levels_w f lv = levels_w f (snd (fst (flush c t p h hasbp leader lv stamp ls))) + esum (eff_net f) (snd (flush c t p h hasbp leader lv stamp ls)).
Proof.
  intros Hf. induction h as [|h' IH]; intros hasbp leader lv stamp ls Hc; [simpl in Hc; discriminate|].
  cbn [flush] in *.
  set (buf := l_buf (get_level h' lv)) in *.
  assert (Hlv : levels_w f (set_buf h' [] lv) = levels_w f lv - wsum f buf) by apply levels_w_set_buf_nil.
  destruct (flush_sends_balance f c t p Hf buf (fst stamp) (snd stamp)) as [FS FC].
  destruct (flush_sends c t p (fst stamp) (snd stamp) buf) as [fe sq'] eqn:Efs. cbn [fst] in FS, FC.
  destruct hasbp.
  - destruct (l_chaser (get_level h' lv) || (h' =? 0)%nat).
    + cbn [fst snd]. lia.
    + specialize (IH true leader (set_buf h' [] lv) (sq', snd stamp) ls).
      destruct (flush c t p h' true leader (set_buf h' [] lv) (sq', snd stamp) ls) as [res effs2]. cbn [fst snd] in *.
      rewrite has_crash_app in Hc. apply orb_false_iff in Hc as [_ Hc2].
      rewrite esum_app. specialize (IH Hc2). lia.
  - destruct (next_lres ls) as [[b|e] r].
    + destruct (l_chaser (get_level h' lv) || (h' =? 0)%nat).
      * cbn [fst snd]. rewrite esum_app, net_leader_effects. lia.
      * specialize (IH true b (set_buf h' [] lv) (sq', snd stamp) r).
        destruct (flush c t p h' true b (set_buf h' [] lv) (sq', snd stamp) r) as [res effs2]. cbn [fst snd] in *.
        rewrite has_crash_app in Hc. apply orb_false_iff in Hc as [_ Hc2].
        rewrite !esum_app, net_leader_effects. specialize (IH Hc2). lia.
    + destruct (l_chaser (get_level h' lv) || (h' =? 0)%nat).
      * cbn [fst snd]. rewrite net_return_errors by assumption. lia.
      * match goal with |- context [flush c t p h' false leader (set_buf h' [] lv) ?sx r] => specialize (IH false leader (set_buf h' [] lv) sx r) end.
        match goal with |- context [flush c t p h' false leader (set_buf h' [] lv) ?sx r] => destruct (flush c t p h' false leader (set_buf h' [] lv) sx r) as [res effs2] end. cbn [fst snd] in *.
        rewrite has_crash_app in Hc. apply orb_false_iff in Hc as [_ Hc2].
        rewrite esum_app, net_return_errors by assumption. specialize (IH Hc2). lia.
Qed.

Lemma pp_forward_balance f c t p st m stamp ls pre : stable f ->
  pp_w f (fst (pp_forward c t p st m stamp ls pre)) + esum (eff_net f) (snd (pp_forward c t p st m stamp ls pre))
  = pp_w f st + f m + esum (eff_net f) pre.
Proof.
  intros Hf. unfold pp_forward.
  destruct (p_has_bp st).
  - destruct (c_idem c && fresh_pass m && is_data m); cbn [fst snd]; rewrite !esum_app; simpl; unfold eff_net; simpl;
      rewrite ?stable_set_stamp by assumption; lia.
  - destruct (next_lres ls) as [[b|e] r].
    + destruct (c_idem c && fresh_pass m && is_data m); cbn [fst snd]; rewrite !esum_app, net_leader_effects; simpl;
        unfold eff_net, pp_w; simpl; rewrite ?stable_set_stamp by assumption; lia.
    + cbn [fst snd]. rewrite esum_app. simpl. unfold eff_net; simpl. lia.
Qed.
Lemma pp_forward_crash c t p st m stamp ls pre :
  has_crash (snd (pp_forward c t p st m stamp ls pre)) = has_crash pre.
Proof.
  unfold pp_forward. destruct (p_has_bp st).
  - destruct (c_idem c && fresh_pass m && is_data m); cbn [snd]; rewrite !has_crash_app; simpl; rewrite ?orb_false_r; reflexivity.
  - destruct (next_lres ls) as [[b|e] r].
    + destruct (c_idem c && fresh_pass m && is_data m); cbn [snd]; rewrite !has_crash_app; simpl; rewrite ?orb_false_r; reflexivity.
    + cbn [snd]. rewrite has_crash_app. simpl. rewrite orb_false_r. reflexivity.
Qed.

Lemma pp_guard_inl f c t p st ls stg eg ls1 : pp_guard c t p st ls = inl (stg, eg, ls1) ->
  p_levels stg = p_levels st /\ p_hwm stg = p_hwm st /\ p_has_bp stg = true /\ esum (eff_net f) eg = 0 /\ has_crash eg = false /\
  (eg = [] \/ exists b, eg = leader_effects c t p b).
Proof.
  unfold pp_guard. destruct (p_has_bp st) eqn:E.
  - intros H. injection H as <- <- <-. repeat split; auto.
  - destruct (next_lres ls) as [[b|e] r]; [|discriminate]. intros H. injection H as <- <- <-. cbn [p_levels p_hwm p_has_bp].
    split; [reflexivity|]. split; [reflexivity|]. split; [reflexivity|]. split; [apply net_leader_effects|].
    split; [apply crash_leader_effects|right; eexists; reflexivity].
Qed.

Lemma pp_balance f c t p st m ab stamp ls : stable f ->
  has_crash (snd (pp_step c t p st m ab stamp ls)) = false ->
  pp_w f (fst (pp_step c t p st m ab stamp ls)) + esum (eff_net f) (snd (pp_step c t p st m ab stamp ls)) = pp_w f st + f m.
Proof.
  intros Hf. unfold pp_step.
  set (st1 := if p_has_bp st && ab then _ else st).
  set (e1 := if p_has_bp st && ab then [EUnref] else []).
  assert (H1 : pp_w f st1 = pp_w f st) by (subst st1; destruct (p_has_bp st && ab); reflexivity).
  assert (He1 : esum (eff_net f) e1 = 0) by (subst e1; destruct (p_has_bp st && ab); reflexivity).
  assert (HF : forall st' pre ls', pp_w f (fst (pp_forward c t p st' m stamp ls' pre)) + esum (eff_net f) (snd (pp_forward c t p st' m stamp ls' pre))
                 = pp_w f st' + f m + esum (eff_net f) pre) by (intros; apply pp_forward_balance; assumption).
  unfold pp_w in *.
  destruct (p_hwm st1 <? m_retries m)%nat.
  - destruct (pp_guard c t p st1 ls) as [[[stg eg] ls1]|e] eqn:G.
    + destruct (pp_guard_inl f _ _ _ _ _ _ _ _ G) as (GL & GH & _ & GN & GC & _).
      destruct (c_retry_max c <? m_retries m)%nat;
        [cbn [snd]; rewrite !has_crash_app; simpl; rewrite !orb_true_r; discriminate|].
      intros _. rewrite HF. rewrite !esum_app, He1, GN.
      cbn [p_levels]. rewrite levels_w_set_chaser, GL.
      unfold eff_net; simpl. lia.
    + intros _. cbn [fst snd]. rewrite esum_app, He1. unfold eff_net; simpl. lia.
  - destruct (0 <? p_hwm st1)%nat.
    + destruct (m_retries m <? p_hwm st1)%nat.
      * destruct (length (p_levels st1) <=? m_retries m)%nat eqn:El;
          [cbn [snd]; rewrite has_crash_app; simpl; rewrite orb_true_r; discriminate|].
        apply Nat.leb_gt in El.
        destruct (is_fin m) eqn:Efin; intros _; cbn [fst snd]; rewrite ?esum_app, He1; cbn [p_levels].
        -- rewrite levels_w_set_chaser. unfold eff_net; simpl. lia.
        -- rewrite levels_w_push_buf by exact El. simpl. lia.
      * destruct (is_fin m).
        -- pose proof (flush_balance f c t p Hf (p_hwm st1) (p_has_bp st1) (p_leader st1)
                        (set_chaser (p_hwm st1) false (p_levels st1)) stamp ls) as Hfl.
           destruct (flush c t p (p_hwm st1) (p_has_bp st1) (p_leader st1) _ stamp ls) as [[[[h' hasbp] leader] lv'] effs].
           cbn [fst snd] in *. intros Hc. rewrite !has_crash_app in Hc. apply orb_false_iff in Hc as [_ Hc].
           apply orb_false_iff in Hc as [Hc _]. specialize (Hfl Hc).
           rewrite levels_w_set_chaser in Hfl. rewrite !esum_app, He1. cbn [p_levels].
           unfold eff_net at 2; simpl. lia.
        -- intros _. rewrite HF. lia.
    + intros _. rewrite HF. lia.
Qed.

Lemma pp_init_balance f c t p l : esum (eff_net f) (snd (pp_init c t p l)) = 0 /\ pp_w f (fst (pp_init c t p l)) = 0
  /\ has_crash (snd (pp_init c t p l)) = false.
Proof.
  assert (H0 : forall n, levels_w f (repeat level0 n) = 0) by (induction n; simpl; auto).
  destruct l; simpl; unfold pp_w, pp_init_state; simpl; rewrite ?H0; unfold eff_net; simpl; repeat split; lia.
Qed.

(* ---------------------------------------------------------------- broker worker *)

Lemma parts_count_nonneg ps : 0 <= parts_count ps.
Proof. induction ps as [|[k l] r IH]; cbn [parts_count]; lia. Qed.
Lemma parts_count_zero f ps : parts_count ps = 0 -> parts_w f ps = 0.
Proof.
  induction ps as [|[k l] r IH]; [reflexivity|]. cbn [parts_count parts_w]. intros H.
  pose proof (parts_count_nonneg r) as H0.
  destruct l as [|m l].
  - cbn [length wsum fold_right] in *. rewrite IH; lia.
  - exfalso. cbn [length] in H. lia.
Qed.
Lemma set_empty_w f s : set_empty s = true -> set_w f s = 0.
Proof. unfold set_empty, set_count, set_w. intros H. apply Z.eqb_eq in H. apply parts_count_zero, H. Qed.

Lemma bp_w_rollover f st ep : bp_w f (rollover st ep) = wait_w f (b_wait st).
Proof. reflexivity. Qed.

Lemma do_add_balance f c st m : stable f ->
  bp_w f (fst (fst (do_add c st m))) + esum (eff_net f) (snd (fst (do_add c st m))) = bp_w f st + f m
  /\ has_crash (snd (fst (do_add c st m))) = false /\ b_wait (fst (fst (do_add c st m))) = b_wait st
  /\ b_mode (fst (fst (do_add c st m))) = b_mode st.
Proof.
  intros Hf. unfold do_add. destruct (m_encfail m); [cbn; unfold eff_net; simpl; repeat split; lia|].
  match goal with |- context [if ?b then _ else _] => destruct b end; [cbn; unfold eff_net; simpl; repeat split; lia|].
  cbn [fst snd]. unfold bp_w, set_w; cbn [b_buf b_wait s_parts b_mode]. rewrite parts_w_add. unfold eff_net; simpl. repeat split; lia.
Qed.

Lemma after_over_balance f c st m : stable f -> b_wait st = WNone ->
  bp_w f (fst (fst (after_over c st m))) + esum (eff_net f) (snd (fst (after_over c st m))) = bp_w f st + f m
  /\ has_crash (snd (fst (after_over c st m))) = false /\ b_mode (fst (fst (after_over c st m))) = b_mode st.
Proof.
  intros Hf Hw. unfold after_over. destruct (c_idem c && negb (s_epoch (b_buf st) =? m_epoch m)).
  - cbn [fst snd]. unfold bp_w, with_wait; cbn [b_buf b_wait wait_w b_mode]. rewrite Hw. unfold eff_net; simpl. repeat split; lia.
  - destruct (do_add_balance f c st m Hf) as (H1 & H2 & _ & H4). auto.
Qed.

Lemma recv_data_balance f c st m : stable f -> b_wait st = WNone ->
  bp_w f (fst (fst (recv_data c st m))) + esum (eff_net f) (snd (fst (recv_data c st m))) = bp_w f st + f m
  /\ has_crash (snd (fst (recv_data c st m))) = false /\ b_mode (fst (fst (recv_data c st m))) = b_mode st.
Proof.
  intros Hf Hw. unfold recv_data. destruct (would_overflow c (b_buf st) m).
  - cbn [fst snd]. unfold bp_w, with_wait; cbn [b_buf b_wait wait_w b_mode]. rewrite Hw. unfold eff_net; simpl. repeat split; lia.
  - apply after_over_balance; assumption.
Qed.

(* weight of the partitions of a sent set whose block carries a retriable code *)
Fixpoint p2w (f : msg -> Z) (bl : list (tpk * (Z * Z))) (ps : list (tpk * list msg)) : Z :=
  match ps with
  | [] => 0
  | (k, l) :: r =>
      (match block_lookup k bl with
       | Some (e, _) => if retriable e then wsum f l else 0
       | None => 0
       end) + p2w f bl r
  end.

Lemma retriable_not_ok e : retriable e = true -> (e =? 0) = false /\ (e =? E_DUPLICATE) = false.
Proof.
  unfold retriable, E_DUPLICATE. intros H. split; apply Z.eqb_neq; intros ->; discriminate.
Qed.

Lemma hs_phase1_nil f c b ps : stable f -> esum (eff_net f) (hs_phase1 c b RNil ps) = parts_w f ps.
Proof.
  intros Hf. induction ps as [|[k l] r IH]; [reflexivity|]. cbn [hs_phase1 parts_w].
  rewrite esum_app, net_successes, IH by assumption. reflexivity.
Qed.
Lemma hs_phase1_blocks f c b bl ps : stable f ->
  esum (eff_net f) (hs_phase1 c b (RBlocks bl) ps) + (if (c_retry_max c =? 0)%nat then 0 else p2w f bl ps) = parts_w f ps.
Proof.
  intros Hf. induction ps as [|[k l] r IH]; [simpl; destruct (c_retry_max c =? 0)%nat; reflexivity|].
  cbn [hs_phase1 parts_w p2w]. rewrite esum_app.
  destruct (block_lookup k bl) as [[e off]|].
  - destruct (e =? 0) eqn:E0.
    + assert (retriable e = false) by (apply Z.eqb_eq in E0; subst; reflexivity).
      rewrite H, net_successes by assumption. destruct (c_retry_max c =? 0)%nat; lia.
    + destruct (e =? E_DUPLICATE) eqn:Ed.
      * assert (retriable e = false) by (apply Z.eqb_eq in Ed; subst; reflexivity).
        rewrite H, net_successes by assumption. destruct (c_retry_max c =? 0)%nat; lia.
      * destruct (retriable e).
        -- destruct (c_retry_max c =? 0)%nat.
           ++ rewrite esum_cons, net_return_errors by assumption. unfold eff_net at 1; simpl. lia.
           ++ simpl. lia.
        -- rewrite esum_app, net_return_errors by assumption.
           destruct (c_retry_max c =? 0)%nat;
             [replace (esum (eff_net f) [EAbandon b]) with 0 by reflexivity | rewrite esum_nil]; lia.
  - rewrite net_return_errors by assumption. destruct (c_retry_max c =? 0)%nat; lia.
Qed.
Lemma hs_phase1_crash c b r ps : has_crash (hs_phase1 c b r ps) = false.
Proof.
  assert (Hs : forall l base, has_crash (successes l base) = false) by (induction l; intros; simpl; auto).
  induction ps as [|[k l] rest IH]; [reflexivity|]. cbn [hs_phase1]. rewrite has_crash_app, IH, orb_false_r.
  destruct r as [e enc| |bl]; [reflexivity|apply Hs|].
  destruct (block_lookup k bl) as [[e off]|]; [|apply crash_return_errors].
  destruct (e =? 0); [apply Hs|]. destruct (e =? E_DUPLICATE); [apply Hs|].
  destruct (retriable e); destruct (c_retry_max c =? 0)%nat; simpl; rewrite ?crash_return_errors; reflexivity.
Qed.

Lemma hs_phase2_balance f c bl : stable f -> forall ps cur buf,
  parts_w f (snd (fst (hs_phase2 c bl ps cur buf))) + esum (eff_net f) (snd (hs_phase2 c bl ps cur buf))
  = parts_w f buf + p2w f bl ps
  /\ has_crash (snd (hs_phase2 c bl ps cur buf)) = false.
Proof.
  intros Hf. induction ps as [|[k l] r IH]; intros cur buf; [cbn; split; [lia|reflexivity]|].
  cbn [hs_phase2 p2w].
  destruct (block_lookup k bl) as [[e off]|]; [|destruct (IH cur buf) as [A B]; split; [lia|exact B]].
  destruct (retriable e); [|destruct (IH cur buf) as [A B]; split; [lia|exact B]].
  specialize (IH (cur_set k e cur) (part_drop k buf)).
  destruct (hs_phase2 c bl r (cur_set k e cur) (part_drop k buf)) as [[cur' buf'] effs']. cbn [fst snd] in *.
  destruct IH as [A B]. pose proof (parts_w_drop f k buf) as Hd.
  rewrite !esum_app, net_retry_msgs by assumption. rewrite !has_crash_app, B, crash_retry_msgs, !orb_false_r.
  destruct (c_idem c).
  - simpl. unfold eff_net at 1; simpl. split; [lia|reflexivity].
  - rewrite net_retry_msgs by assumption. rewrite crash_retry_msgs. split; [lia|reflexivity].
Qed.

Lemma all_retry_crash c ps e : has_crash (all_retry c ps e) = false.
Proof. induction ps as [|[k l] r IH]; [reflexivity|]. cbn [all_retry]. rewrite has_crash_app, crash_retry_msgs, IH. reflexivity. Qed.
Lemma all_errors_crash ps e : has_crash (all_errors ps e) = false.
Proof. induction ps as [|[k l] r IH]; [reflexivity|]. cbn [all_errors]. rewrite has_crash_app, crash_return_errors, IH. reflexivity. Qed.

Lemma handle_response_balance f c ep st sent r : stable f ->
  bp_w f (fst (handle_response c ep st sent r)) + esum (eff_net f) (snd (handle_response c ep st sent r))
  = bp_w f st + set_w f sent
  /\ has_crash (snd (handle_response c ep st sent r)) = false
  /\ b_wait (fst (handle_response c ep st sent r)) = b_wait st
  /\ b_mode (fst (handle_response c ep st sent r)) = b_mode st.
Proof.
  intros Hf. unfold handle_response.
  match goal with |- context [let '(st1, effs) := ?X in _] => assert (HX :
     bp_w f (fst X) + esum (eff_net f) (snd X) = bp_w f st + set_w f sent /\ has_crash (snd X) = false
     /\ b_wait (fst X) = b_wait st /\ b_mode (fst X) = b_mode st); [|destruct X as [st1 effs]] end.
  { destruct r as [e [|]| |bl].
    - cbn [fst snd]. rewrite net_all_errors, all_errors_crash by assumption. unfold set_w. repeat split; lia.
    - cbn [fst snd]. rewrite esum_cons, esum_app, !net_all_retry by assumption.
      cbn [has_crash existsb is_crash]. fold (has_crash (all_retry c (s_parts sent) e ++ all_retry c (s_parts (b_buf st)) e)).
      rewrite has_crash_app, !all_retry_crash.
      unfold bp_w, rollover, with_closing, set_w; cbn [b_buf b_wait s_parts empty_set parts_w b_mode]. unfold eff_net at 1; simpl.
      repeat split; lia.
    - cbn [fst snd]. rewrite hs_phase1_nil, hs_phase1_crash by assumption. unfold set_w. repeat split; lia.
    - pose proof (hs_phase1_blocks f c (b_broker st) bl (s_parts sent) Hf) as H1.
      destruct (c_retry_max c =? 0)%nat.
      + cbn [fst snd]. rewrite hs_phase1_crash. unfold set_w. repeat split; lia.
      + destruct (hs_phase2_balance f c bl Hf (s_parts sent) (b_cur st) (s_parts (b_buf st))) as [H2 H3].
        destruct (hs_phase2 c bl (s_parts sent) (b_cur st) (s_parts (b_buf st))) as [[cur buf] e2]. cbn [fst snd] in *.
        rewrite esum_app, has_crash_app, hs_phase1_crash, H3.
        unfold bp_w, with_cur, with_buf, set_w in *; cbn [b_buf b_wait s_parts b_mode]. repeat split; lia. }
  cbn [fst snd] in HX. destruct HX as (A & B & C & D).
  destruct (set_empty (b_buf st1)) eqn:Ee; cbn [fst snd]; [|auto].
  rewrite bp_w_rollover. apply (set_empty_w f) in Ee. unfold bp_w in A.
  cbn [rollover b_wait b_mode]. repeat split; try assumption. unfold bp_w. lia.
Qed.

Definition in_w (f : msg -> Z) (i : bp_in) : Z :=
  match i with BRecv m => f m | BResp sent _ => set_w f sent | _ => 0 end.

Lemma bp_w_end_iter f c st : bp_w f (end_iter c st) = bp_w f st.
Proof. unfold end_iter. destruct (b_mode st); try reflexivity. destruct (b_wait st) eqn:E; try reflexivity. unfold bp_w; cbn [b_buf b_wait]. rewrite E. reflexivity. Qed.
Lemma bp_w_drain_check f st : bp_w f (drain_check st) = bp_w f st.
Proof. unfold drain_check. destruct (b_mode st); try reflexivity. destruct (set_empty (b_buf st)); reflexivity. Qed.

Lemma bp_balance f c ep st i : stable f ->
  has_crash (snd (bp_step c ep st i)) = false ->
  bp_w f (fst (bp_step c ep st i)) + esum (eff_net f) (snd (bp_step c ep st i)) = bp_w f st + in_w f i.
Proof.
  intros Hf. unfold bp_step.
  assert (HX : has_crash (snd (fst (bp_core c ep st i))) = false ->
               bp_w f (fst (fst (bp_core c ep st i))) + esum (eff_net f) (snd (fst (bp_core c ep st i))) = bp_w f st + in_w f i);
    [|destruct (bp_core c ep st i) as [[st' effs] upd]; cbn [fst snd] in *; intros Hc; specialize (HX Hc);
      rewrite bp_w_drain_check; destruct upd; rewrite ?bp_w_end_iter; exact HX].
  unfold bp_core.
  destruct i as [m| | | |sent r]; cbn [in_w].
  - destruct (b_mode st) eqn:Em; try (cbn; discriminate).
    destruct (b_wait st) eqn:Ew; try (cbn; discriminate).
    destruct (is_syn m).
    + intros _. cbn [fst snd]. unfold bp_w, with_cur; cbn [b_buf b_wait]. unfold eff_net; simpl. lia.
    + destruct (needs_retry st m) as [e|].
      * intros _. cbn [fst snd]. rewrite esum_cons, esum_nil, net_retry_msg by assumption.
        destruct (b_closing st); [lia|]. destruct (is_fin m); unfold bp_w, with_cur; cbn [b_buf b_wait]; lia.
      * destruct (is_fin m).
        -- intros _. cbn [fst snd]. rewrite esum_cons, esum_nil, net_retry_msg by assumption. lia.
        -- intros _. apply recv_data_balance; assumption.
  - intros _. destruct (b_mode st), (b_wait st); cbn [fst snd]; unfold bp_w, with_mode; cbn [b_buf b_wait]; simpl; lia.
  - intros _. destruct (b_timer st && flush_poll st); cbn [fst snd]; unfold bp_w; cbn [b_buf b_wait]; simpl; lia.
  - destruct (flush_enabled st); [|intros _; cbn [fst snd]; simpl; lia].
    destruct (b_wait st) as [|m|m] eqn:Ew.
    + intros _. cbn [fst snd]. unfold bp_w, with_wait, rollover; cbn [b_buf b_wait]. rewrite Ew. unfold eff_net; simpl. unfold set_w; simpl. lia.
    + destruct (after_over_balance f c (with_wait (rollover st ep) WNone) m Hf eq_refl) as (A & B & _).
      destruct (after_over c (with_wait (rollover st ep) WNone) m) as [[st2 e2] u]. cbn [fst snd] in *.
      intros _. rewrite esum_cons. unfold eff_net at 1. cbn [eff_pe eff_sink eff_new].
      unfold bp_w in A at 2. cbn [with_wait rollover b_buf b_wait wait_w empty_set] in A.
      unfold bp_w at 2. rewrite Ew. cbn [wait_w]. unfold set_w in *. cbn [empty_set s_parts parts_w] in A. lia.
    + destruct (do_add_balance f c (with_wait (rollover st ep) WNone) m Hf) as (A & B & _).
      destruct (do_add c (with_wait (rollover st ep) WNone) m) as [[st2 e2] u]. cbn [fst snd] in *.
      intros _. rewrite esum_cons. unfold eff_net at 1. cbn [eff_pe eff_sink eff_new].
      unfold bp_w in A at 2. cbn [with_wait rollover b_buf b_wait wait_w empty_set] in A.
      unfold bp_w at 2. rewrite Ew. cbn [wait_w]. unfold set_w in *. cbn [empty_set s_parts parts_w] in A. lia.
  - destruct (handle_response_balance f c ep st sent r Hf) as (A & B & C & D).
    destruct (handle_response c ep st sent r) as [st1 effs]. cbn [fst snd] in *.
    destruct (b_wait st1) as [|m|m] eqn:Ew.
    + intros _. cbn [fst snd]. exact A.
    + destruct (needs_retry st1 m) as [e|].
      * intros _. cbn [fst snd]. rewrite esum_app, esum_cons, esum_nil, net_retry_msg by assumption.
        unfold bp_w in *. cbn [with_wait b_buf b_wait wait_w]. rewrite Ew in A. cbn [wait_w] in A. lia.
      * destruct (would_overflow c (b_buf st1) m); [intros _; cbn [fst snd]; exact A|].
        destruct (after_over_balance f c (with_wait st1 WNone) m Hf eq_refl) as (A2 & B2 & _).
        destruct (after_over c (with_wait st1 WNone) m) as [[st2 e2] u]. cbn [fst snd] in *.
        intros _. rewrite esum_app. unfold bp_w in A2 at 2. cbn [with_wait b_buf b_wait wait_w] in A2.
        unfold bp_w in A at 1. rewrite Ew in A. cbn [wait_w] in A. lia.
    + destruct (needs_retry st1 m) as [e|].
      * intros _. cbn [fst snd]. rewrite esum_app, esum_cons, esum_nil, net_retry_msg by assumption.
        unfold bp_w in *. cbn [with_wait b_buf b_wait wait_w]. rewrite Ew in A. cbn [wait_w] in A. lia.
      * intros _. cbn [fst snd]. exact A.
Qed.

(* ---------------------------------------------------------------- retryBatch *)

Lemma rb_balance f c ep k ms e l : stable f -> c_fix_rb c = true ->
  esum (eff_net f) (rb_step c ep k ms e l) = wsum f ms /\ has_crash (rb_step c ep k ms e l) = false.
Proof.
  intros Hf Hfix. unfold rb_step. destruct (first_exhausted c ms).
  - rewrite Hfix, net_return_errors, crash_return_errors by assumption. auto.
  - assert (Hm : wsum f (map (fun m => set_retries m (S (m_retries m))) ms) = wsum f ms)
      by (apply wsum_map_stable; [assumption | intros; split; reflexivity]).
    destruct l.
    + cbn. unfold eff_net; simpl. unfold set_w; simpl. split; [lia|reflexivity].
    + rewrite net_return_errors, crash_return_errors by assumption. auto.
Qed.
