(* Producer model: tie of the retry-budget decision to the definition regenerated from the source on every
   run (go/decgen, golden SV.Gen.DecC01.retry_message: asyncProducer.retryMessage).  The check proves
   "regenerated = golden" (checks/decgen_tie.py); this lemma proves "golden = model". *)
From Coq Require Import List ZArith Bool Arith Lia.
From SV Require Import Gen.GoInt Gen.DecTypes Gen.DecC01 Producer.Msg.
Import ListNotations.
Open Scope Z_scope.

Lemma retry_msg_is_decgen c m e (err : gerr) :
  let '(r', acts) := retry_message (Z.of_nat (m_retries m)) err (Z.of_nat (c_retry_max c)) in
  match retry_msg c m e with
  | EErr m' e' => acts = [PA_return_error err] /\ m' = m /\ e' = e /\ r' = Z.of_nat (m_retries m)
  | ESend DRetry m' => acts = [PA_retry] /\ m' = set_retries m (S (m_retries m)) /\ r' = Z.of_nat (m_retries m')
  | _ => False
  end.
Proof.
  unfold retry_message, retry_msg.
  destruct (c_retry_max c <=? m_retries m)%nat eqn:E.
  - apply Nat.leb_le in E. assert (H : (Z.of_nat (m_retries m) >=? Z.of_nat (c_retry_max c)) = true) by (apply Z.geb_le; lia).
    rewrite H. repeat split; reflexivity.
  - apply Nat.leb_gt in E. assert (H : (Z.of_nat (m_retries m) >=? Z.of_nat (c_retry_max c)) = false).
    { destruct (Z.of_nat (m_retries m) >=? Z.of_nat (c_retry_max c)) eqn:G; [|reflexivity]. apply Z.geb_le in G. lia. }
    rewrite H. split; [reflexivity|]. split; [reflexivity|]. cbn [set_retries m_retries]. lia.
Qed.
