(* Producer model: tie of the retry-budget decision to the definition regenerated from the source on every
   run (go/decgen, golden SV.Gen.DecC01.retry_message: asyncProducer.retryMessage).  The check proves
   "regenerated = golden" (checks/decgen_tie.py); this lemma proves "golden = model". *)
From Coq Require Import List ZArith Bool Arith Lia.
From SV Require Import Gen.GoInt Gen.DecTypes Gen.DecC01 Producer.Msg.
Import ListNotations.
Open Scope Z_scope.

Lemma retry_msg_is_decgen c m e (err : gerr) :
  let '(r', acts) := retry_message (Z.of_nat (m_retries m)) err (Z.of_nat (c_retry_max c)) in
  match retry_msg c m e with
  | EErr m' e' => acts = [PA_return_error err] /\ m' = m /\ e' = e /\ r' = Z.of_nat (m_retries m)
  | ESend DRetry m' => acts = [PA_retry] /\ m' = set_retries m (S (m_retries m)) /\ r' = Z.of_nat (m_retries m')
  | _ => False
  end.
Proof.
  unfold retry_message, retry_msg.
  destruct (c_retry_max c <=? m_retries m)%nat eqn:E.
  - apply Nat.leb_le in E. assert (H : (Z.of_nat (m_retries m) >=? Z.of_nat (c_retry_max c)) = true) by (apply Z.geb_le; lia).
    rewrite H. repeat split; reflexivity.
  - apply Nat.leb_gt in E. assert (H : (Z.of_nat (m_retries m) >=? Z.of_nat (c_retry_max c)) = false).
    { destruct (Z.of_nat (m_retries m) >=? Z.of_nat (c_retry_max c)) eqn:G; [|reflexivity]. apply Z.geb_le in G. lia. }
    rewrite H. split; [reflexivity|]. split; [reflexivity|]. cbn [set_retries m_retries]. lia.
Qed.

(* ---------------------------------------------------------------- further leaf logic of group C01 *)
From SV Require Import Gen.DecTypes2 Producer.Actors.

(* the model keeps errors as small integers (None = nil) *)
Definition gerr_of (o : option Z) : gerr := match o with None => ENil | Some e => EOther e end.
Definition code_of (e : gerr) : Z :=
  match e with EOther x => x | EVar _ => E_SHUTTING_DOWN | EK x => x | _ => 0 end.

(* brokerProducer.needsRetry *)
Lemma needs_retry_is_decgen st m :
  DecC01.needs_retry (gerr_of (b_closing st)) (gerr_of (cur_lookup (msg_key m) (b_cur st))) = gerr_of (Actors.needs_retry st m).
Proof. unfold DecC01.needs_retry, Actors.needs_retry. destruct (b_closing st); reflexivity. Qed.

(* brokerProducer.run, the classification of an input message (syn / bounced / bounced chaser / data):
   interpretation of the regenerated action list on the model's state and effects *)
Fixpoint bp_acts_state (st : bp) (m : msg) (acts : list bp_action) : bp :=
  match acts with
  | [] => st
  | (BP_set_retry ENil | BP_clear_retry) :: r => bp_acts_state (with_cur st (cur_remove (msg_key m) (b_cur st))) m r
  | _ :: r => bp_acts_state st m r
  end.
Fixpoint bp_acts_effs (c : cfg) (m : msg) (acts : list bp_action) : list effect :=
  match acts with
  | [] => []
  | BP_retry e :: r => retry_msg c m (code_of e) :: bp_acts_effs c m r
  | BP_inflight_done :: r => EDone m :: bp_acts_effs c m r
  | _ :: r => bp_acts_effs c m r
  end.

Lemma bp_input_class_is_decgen c ep st m tn : b_mode st = MRun -> b_wait st = WNone ->
  bp_core c ep st (BRecv m) =
  match bp_input_class (m_flags m) (gerr_of (b_closing st)) (gerr_of (cur_lookup (msg_key m) (b_cur st))) tn with
  | (acts, ExFall) => recv_data c st m
  | (acts, _) => (bp_acts_state st m acts, bp_acts_effs c m acts, false)
  end.
Proof.
  intros Hm Hw. unfold bp_core, bp_input_class. rewrite Hm, Hw.
  change (Z.land (m_flags m) 1 =? 1) with (is_syn m). change (Z.land (m_flags m) 2 =? 2) with (is_fin m).
  destruct (is_syn m).
  - destruct tn; cbn; destruct st; reflexivity.
  - rewrite needs_retry_is_decgen. unfold Actors.needs_retry.
    destruct (b_closing st) as [e|] eqn:Ec.
    + cbn. reflexivity.
    + destruct (cur_lookup (msg_key m) (b_cur st)) as [e|]; cbn [gerr_of gerr_eqb negb andb].
      * destruct (is_fin m); cbn; reflexivity.
      * destruct (is_fin m); cbn; reflexivity.
Qed.

(* waitForSpace: the re-check after a response was handled *)
Lemma wait_recheck_is_decgen st m force :
  wait_for_space_recheck force (gerr_of (b_closing st)) (gerr_of (cur_lookup (msg_key m) (b_cur st))) =
  fun overflow => match Actors.needs_retry st m with
                  | Some e => ExReturn (EOther e)
                  | None => if negb overflow && negb force then ExReturn ENil else ExFall
                  end.
Proof.
  unfold wait_for_space_recheck. rewrite needs_retry_is_decgen. destruct (Actors.needs_retry st m); reflexivity.
Qed.
(* ... and that is the decision bp_core takes for a message parked by waitForSpace(msg, false) *)
Lemma bp_wait_over_follows_recheck c ep st sent r m :
  let '(st1, effs) := handle_response c ep st sent r in
  b_wait st1 = WOver m ->
  bp_core c ep st (BResp sent r) =
  match wait_for_space_recheck false (gerr_of (b_closing st1)) (gerr_of (cur_lookup (msg_key m) (b_cur st1)))
                               (would_overflow c (b_buf st1) m) with
  | ExReturn ENil => let '(st2, e2, u) := after_over c (with_wait st1 WNone) m in (st2, effs ++ e2, u)
  | ExReturn e => (with_wait st1 WNone, effs ++ [retry_msg c m (code_of e)], false)
  | _ => (st1, effs, false)
  end.
Proof.
  unfold bp_core. destruct (handle_response c ep st sent r) as [st1 effs]. intros Hw. rewrite Hw.
  rewrite wait_recheck_is_decgen. destruct (Actors.needs_retry st1 m); [reflexivity|].
  destruct (would_overflow c (b_buf st1) m); reflexivity.
Qed.

(* partitionProducer.dispatch: the retry-level decision tree is the one pp_step follows *)
Lemma pp_level_class_is_decgen (r hwm : nat) (flags : Z) :
  pp_level_class (Z.of_nat r) (Z.of_nat hwm) flags =
  if (hwm <? r)%nat then ([PP_new_high_watermark (Z.of_nat r); PP_backoff (Z.of_nat r)], ExFall)
  else if (0 <? hwm)%nat then
    if (r <? hwm)%nat then
      ((if Z.land flags 2 =? 2 then [PP_expect_chaser (Z.of_nat r) false; PP_inflight_done] else [PP_buffer (Z.of_nat r)]), ExContinue)
    else if Z.land flags 2 =? 2 then ([PP_expect_chaser (Z.of_nat hwm) false; PP_flush_retry_buffers; PP_inflight_done], ExContinue)
    else ([], ExFall)
  else ([], ExFall).
Proof.
  unfold pp_level_class.
  assert (A : (Z.of_nat r >? Z.of_nat hwm) = (hwm <? r)%nat).
  { destruct (hwm <? r)%nat eqn:E; [apply Nat.ltb_lt in E; apply Z.gtb_lt; lia|apply Nat.ltb_ge in E].
    destruct (Z.of_nat r >? Z.of_nat hwm) eqn:G; [apply Z.gtb_lt in G; lia|reflexivity]. }
  assert (B : (Z.of_nat hwm >? 0) = (0 <? hwm)%nat).
  { destruct (0 <? hwm)%nat eqn:E; [apply Nat.ltb_lt in E; apply Z.gtb_lt; lia|apply Nat.ltb_ge in E].
    destruct (Z.of_nat hwm >? 0) eqn:G; [apply Z.gtb_lt in G; lia|reflexivity]. }
  assert (C : (Z.of_nat r <? Z.of_nat hwm) = (r <? hwm)%nat).
  { destruct (r <? hwm)%nat eqn:E; [apply Nat.ltb_lt in E; apply Z.ltb_lt; lia|apply Nat.ltb_ge in E; apply Z.ltb_ge; lia]. }
  rewrite A, B, C. destruct (hwm <? r)%nat; [reflexivity|]. destruct (0 <? hwm)%nat; [|reflexivity].
  destruct (r <? hwm)%nat; destruct (Z.land flags 2 =? 2); reflexivity.
Qed.
(* the model's branch for a data message below the current level: it is parked at its own level *)
Lemma pp_buffer_branch c t p st m stamp ls :
  fst (pp_level_class (Z.of_nat (m_retries m)) (Z.of_nat (p_hwm st)) (m_flags m)) = [PP_buffer (Z.of_nat (m_retries m))] ->
  (m_retries m < length (p_levels st))%nat ->
  pp_step c t p st m false stamp ls =
  (mkPp (p_hwm st) (push_buf (m_retries m) m (p_levels st)) (p_has_bp st) (p_leader st), []).
Proof.
  rewrite pp_level_class_is_decgen. intros H Hl. unfold pp_step. rewrite andb_false_r.
  destruct (p_hwm st <? m_retries m)%nat; [discriminate|]. destruct (0 <? p_hwm st)%nat; [|discriminate].
  destruct (m_retries m <? p_hwm st)%nat.
  - change (Z.land (m_flags m) 2 =? 2) with (is_fin m) in H. apply Nat.ltb_lt in Hl.
    assert (E : (length (p_levels st) <=? m_retries m)%nat = false) by (apply Nat.leb_gt, Nat.ltb_lt, Hl). rewrite E.
    destruct (is_fin m); [discriminate|]. destruct st; reflexivity.
  - destruct (Z.land (m_flags m) 2 =? 2); discriminate.
Qed.

(* partitionProducer.dispatch: sequence stamping of a fresh application message *)
Lemma pp_stamp_is_decgen c m sq ep :
  pp_stamp_sequence (m_seq m) (m_epoch m) (m_hasseq m) (c_idem c) (Z.of_nat (m_retries m)) (m_flags m) sq ep =
  let m' := if c_idem c && fresh_pass m && is_data m then set_stamp m sq ep else m in
  (m_seq m', m_epoch m', m_hasseq m', ExFall).
Proof.
  unfold pp_stamp_sequence, fresh_pass, is_data, F_DATA.
  assert (A : (Z.of_nat (m_retries m) =? 0) = (m_retries m =? 0)%nat) by (destruct (m_retries m); reflexivity).
  rewrite A. destruct (c_idem c && (m_retries m =? 0)%nat && (m_flags m =? 0)); reflexivity.
Qed.
