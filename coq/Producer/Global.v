(* Producer proofs, part 3: what applying effects does to the global measures. *)
From Coq Require Import List ZArith Bool Arith Lia.
From SV Require Import Producer.Msg Producer.Actors Producer.Compose Producer.Weights Producer.Local.
Import ListNotations.
Open Scope Z_scope.

Definition eff_place (f : msg -> Z) (e : effect) : Z :=
  match e with
  | ESend _ m => f m
  | EBridge s | ERbSend _ s => set_w f s
  | ESpawnRB _ ms _ => wsum f ms
  | _ => 0
  end.
Definition eff_event (f : msg -> Z) (e : effect) : Z :=
  match e with EErr m _ | ESucc m _ | ERawErr m _ => f m | _ => 0 end.
Lemma eff_pe_split f e : eff_pe f e = eff_place f e + eff_event f e.
Proof. destruct e; simpl; lia. Qed.

(* inFlight.Add / Done *)
Definition eff_infl (e : effect) : Z :=
  match e with
  | ENew _ | EAccept _ => 1
  | EDone _ | EErr _ _ | ESucc _ _ => -1
  | _ => 0
  end.

(* application messages the dispatcher has not yet counted: first pass, not the shutdown marker *)
Definition fresh_un (m : msg) : bool := fresh_pass m && negb (is_shut m).
Definition cntf (l : list msg) : Z := wsum (fun m => if fresh_un m then 1 else 0) l.
Definition unacc (s : state) : Z := cntf (q_get DDisp (g_q s)) + cntf (q_get DRetry (g_q s)).
Definition eff_fresh (e : effect) : Z :=
  match e with
  | ESend DDisp m | ESend DRetry m => if fresh_un m then 1 else 0
  | _ => 0
  end.

(* the fields no effect touches *)
Definition same_ctl (s s' : state) : Prop :=
  g_disp s' = g_disp s /\ g_submitted s' = g_submitted s /\ g_close_req s' = g_close_req s /\
  g_woken s' = g_woken s /\ g_closed s' = g_closed s.
Lemma same_ctl_refl s : same_ctl s s. Proof. repeat split. Qed.
Lemma same_ctl_trans a b c : same_ctl a b -> same_ctl b c -> same_ctl a c.
Proof. unfold same_ctl. intros (A1 & A2 & A3 & A4 & A5) (B1 & B2 & B3 & B4 & B5). repeat split; congruence. Qed.

(* ---------------------------------------------------------------- queues *)

Lemma dest_eqb_true a b : dest_eqb a b = true -> a = b.
Proof.
  destruct a, b; simpl; try discriminate; try reflexivity; intros H.
  - apply Z.eqb_eq in H. congruence.
  - apply andb_true_iff in H as [H1 H2]. apply Z.eqb_eq in H1, H2. congruence.
  - apply Nat.eqb_eq in H. congruence.
Qed.
Lemma dest_eqb_refl a : dest_eqb a a = true.
Proof. destruct a; simpl; rewrite ?Z.eqb_refl, ?Nat.eqb_refl; reflexivity. Qed.

Lemma q_get_set d' d l q : q_get d' (q_set d l q) = if dest_eqb d' d then l else q_get d' q.
Proof.
  induction q as [|[d0 l0] r IH]; simpl.
  - destruct (dest_eqb d' d); reflexivity.
  - destruct (dest_eqb d d0) eqn:E; simpl.
    + apply dest_eqb_true in E. subst d0. destruct (dest_eqb d' d); reflexivity.
    + destruct (dest_eqb d' d0) eqn:E2.
      * destruct (dest_eqb d' d) eqn:E3; [|reflexivity].
        apply dest_eqb_true in E2, E3. subst. rewrite dest_eqb_refl in E. discriminate.
      * exact IH.
Qed.
Lemma q_get_push d' d m q : q_get d' (q_push d m q) = if dest_eqb d' d then q_get d q ++ [m] else q_get d' q.
Proof. unfold q_push. apply q_get_set. Qed.

Lemma cntf_app a b : cntf (a ++ b) = cntf a + cntf b.
Proof. apply wsum_app. Qed.

Lemma unacc_push s d m :
  unacc (set_q s (q_push d m (g_q s))) = unacc s + eff_fresh (ESend d m).
Proof.
  unfold unacc. cbn [set_q g_q]. rewrite !q_get_push.
  destruct d; simpl; rewrite ?cntf_app; unfold cntf; simpl; lia.
Qed.

(* ---------------------------------------------------------------- panic is sticky *)

Lemma get_bp_panic s br : g_panic (fst (get_bp s br)) = g_panic s.
Proof. unfold get_bp. destruct (find_reg br (g_bps s) 0%nat); reflexivity. Qed.
Lemma set_handle_panic s w h : g_panic (set_handle s w h) = g_panic s.
Proof. unfold set_handle. destruct w; try reflexivity. destruct (pp_get k (g_pps s)); reflexivity. Qed.
Lemma emit_panic s e : g_panic s <> None -> g_panic (emit s e) <> None.
Proof. unfold emit. destruct (g_closed s); simpl; [discriminate | auto]. Qed.

Lemma apply_eff_sticky c w s e : g_panic s <> None -> g_panic (apply_eff c w s e) <> None.
Proof.
  intros H. destruct e; cbn [apply_eff]; try assumption; try discriminate.
  - destruct d; try exact H. destruct (handle_of s w); [|discriminate].
    destruct (nth_error (g_bps s) n); [|discriminate]. destruct (i_in_closed b); [discriminate|exact H].
  - destruct (m_hasseq m); cbn; apply emit_panic, H.
  - cbn. apply emit_panic, H.
  - apply emit_panic, H.
  - destruct (handle_of s w); [|exact H]. rewrite set_handle_panic. exact H.
  - destruct (get_bp s broker) as [s1 b] eqn:E. rewrite set_handle_panic.
    replace s1 with (fst (get_bp s broker)) by (rewrite E; reflexivity). rewrite get_bp_panic. exact H.
  - destruct (find_reg broker (g_bps s) 0%nat); exact H.
  - destruct w; try discriminate. destruct (nth_error (g_bps s) b); [exact H|discriminate].
  - destruct (get_bp s broker) as [s1 b] eqn:E. cbn.
    replace s1 with (fst (get_bp s broker)) by (rewrite E; reflexivity). rewrite get_bp_panic. exact H.
Qed.
Lemma apply_effs_sticky c w l : forall s, g_panic s <> None -> g_panic (apply_effs c w s l) <> None.
Proof. induction l as [|e l IH]; intros s H; [exact H|]. apply IH, apply_eff_sticky, H. Qed.

Lemma crash_panics c w l : forall s, has_crash l = true -> g_panic (apply_effs c w s l) <> None.
Proof.
  induction l as [|e l IH]; intros s H; [discriminate|].
  cbn [has_crash existsb] in H. apply orb_true_iff in H as [H|H].
  - destruct e; try discriminate. cbn [apply_effs fold_left apply_eff]. apply apply_effs_sticky. discriminate.
  - apply IH, H.
Qed.

(* ---------------------------------------------------------------- getBrokerProducer *)

Lemma bpi_w_ref f x : bpi_w f (bi_ref x) = bpi_w f x. Proof. reflexivity. Qed.
Lemma bpi_w_new f br ep : bpi_w f (bi_new br ep) = 0. Proof. reflexivity. Qed.
Lemma bpi_w_unref f x : bpi_w f (bi_unref x) = bpi_w f x.
Proof. unfold bi_unref. destruct (i_refs x - 1 =? 0); reflexivity. Qed.
Lemma bpi_w_abandon f c x : bpi_w f (bi_abandon c x) = bpi_w f x. Proof. reflexivity. Qed.

Lemma get_bp_spec f s br : forall s1 b, get_bp s br = (s1, b) ->
  (exists x, nth_error (g_bps s1) b = Some x) /\ bps_w f (g_bps s1) = bps_w f (g_bps s) /\
  g_q s1 = g_q s /\ g_pps s1 = g_pps s /\ g_rbs s1 = g_rbs s /\ g_events s1 = g_events s /\
  g_inflight s1 = g_inflight s /\ same_ctl s s1 /\ g_panic s1 = g_panic s.
Proof.
  intros s1 b. unfold get_bp. destruct (find_reg br (g_bps s) 0%nat) as [i|] eqn:E; intros H; injection H as <- <-.
  - destruct (find_reg_some _ _ _ E) as [x Hx]. cbn. split; [eexists; apply nth_error_bp_upd_same, Hx|].
    rewrite (bps_w_upd f _ _ _ _ Hx), bpi_w_ref. repeat split; lia.
  - cbn. split.
    + exists (bi_ref (bi_new br (g_epoch s))). rewrite nth_error_app2 by lia. rewrite Nat.sub_diag. reflexivity.
    + rewrite bps_w_app. cbn. repeat split; lia.
Qed.

(* ---------------------------------------------------------------- one effect *)

Lemma pps_w_set_handle f s w h : pps_w f (g_pps (set_handle s w h)) = pps_w f (g_pps s).
Proof.
  unfold set_handle. destruct w; try reflexivity. destruct (pp_get k (g_pps s)) as [x|] eqn:E; [|reflexivity].
  cbn. rewrite pps_w_set, E. cbn. lia.
Qed.

Lemma set_handle_frame s w h :
  g_q (set_handle s w h) = g_q s /\ g_bps (set_handle s w h) = g_bps s /\ g_rbs (set_handle s w h) = g_rbs s /\
  g_events (set_handle s w h) = g_events s /\ g_inflight (set_handle s w h) = g_inflight s /\ same_ctl s (set_handle s w h).
Proof.
  unfold set_handle. destruct w; try (repeat split; reflexivity). destruct (pp_get k _); repeat split; reflexivity.
Qed.

Ltac fin := repeat split; try lia; try reflexivity; try (unfold cntf, wsum in *; cbn in *; lia).

Lemma apply_eff_spec f c w s e : g_panic (apply_eff c w s e) = None ->
  total f (apply_eff c w s e) = total f s + eff_place f e /\
  evs_w f (g_events (apply_eff c w s e)) = evs_w f (g_events s) + eff_event f e /\
  g_inflight (apply_eff c w s e) = g_inflight s + eff_infl e /\
  unacc (apply_eff c w s e) = unacc s + eff_fresh e /\
  same_ctl s (apply_eff c w s e).
Proof.
  destruct e; cbn [apply_eff eff_place eff_event eff_infl].
  - (* ESend *)
    assert (G : forall d', g_panic (set_q s (q_push d' m (g_q s))) = None ->
              total f (set_q s (q_push d' m (g_q s))) = total f s + f m /\
              evs_w f (g_events (set_q s (q_push d' m (g_q s)))) = evs_w f (g_events s) + 0 /\
              g_inflight (set_q s (q_push d' m (g_q s))) = g_inflight s + 0 /\
              same_ctl s (set_q s (q_push d' m (g_q s)))).
    { intros d' _. unfold total. cbn. rewrite q_w_push. fin. }
    destruct d; try (intros H; destruct (G _ H) as (A & B & C & D); rewrite unacc_push; repeat split; assumption).
    destruct (handle_of s w); [|discriminate]. destruct (nth_error (g_bps s) n); [|discriminate].
    destruct (i_in_closed b); [discriminate|].
    intros H; destruct (G _ H) as (A & B & C & D). rewrite unacc_push. cbn [eff_fresh]. repeat split; assumption.
  - (* EErr *)
    unfold emit. destruct (g_closed s) eqn:Ec.
    + destruct (m_hasseq m); cbn; discriminate.
    + intros _. destruct (m_hasseq m); unfold total, unacc; cbn; rewrite evs_w_app; cbn; fin.
  - (* ESucc *)
    unfold emit. destruct (g_closed s) eqn:Ec; [cbn; discriminate|].
    intros _. unfold total, unacc; cbn; rewrite evs_w_app; cbn; fin.
  - (* ERawErr *)
    unfold emit. destruct (g_closed s) eqn:Ec; [cbn; discriminate|].
    intros _. unfold total, unacc; cbn; rewrite evs_w_app; cbn; fin.
  - intros _. unfold total, unacc; cbn. fin.
  - intros _. unfold total, unacc; cbn. fin.
  - intros _. unfold total, unacc; cbn. fin.
  - intros _. unfold total, unacc; cbn. fin.
  - intros _. unfold total, unacc; cbn. fin.
  - (* EUnref *)
    intros _. destruct (handle_of s w) as [b|]; [|unfold total, unacc; fin].
    assert (Hb : bps_w f (bp_upd b bi_unref (g_bps s)) = bps_w f (g_bps s)).
    { destruct (nth_error (g_bps s) b) as [x|] eqn:E.
      - rewrite (bps_w_upd f _ _ _ _ E), bpi_w_unref. lia.
      - rewrite bp_upd_none by exact E. reflexivity. }
    destruct (set_handle_frame (set_bps s (bp_upd b bi_unref (g_bps s))) w None) as (X1 & X2 & X3 & X4 & X5 & X6).
    unfold total, unacc. rewrite pps_w_set_handle, X1, X2, X3, X4, X5. cbn. rewrite Hb.
    fin; destruct X6 as (C1 & C2 & C3 & C4 & C5); assumption.
  - (* EGet *)
    intros _. destruct (get_bp s broker) as [s1 b] eqn:E.
    destruct (get_bp_spec f s broker s1 b E) as (_ & Hb & Hq & Hp & Hr & He & Hi & Hc & _).
    unfold total. rewrite pps_w_set_handle.
    destruct (set_handle_frame s1 w (Some b)) as (X1 & X2 & X3 & X4 & X5 & X6).
    unfold unacc. rewrite X1, X2, X3, X4, X5, Hb, Hq, Hp, Hr, He, Hi.
    fin; destruct Hc as (C1 & C2 & C3 & C4 & C5), X6 as (D1 & D2 & D3 & D4 & D5); congruence.
  - (* EAbandon *)
    intros _. destruct (find_reg broker (g_bps s) 0%nat) as [b|] eqn:E; [|unfold total, unacc; fin].
    destruct (find_reg_some _ _ _ E) as [x Hx].
    unfold total, unacc. cbn. rewrite (bps_w_upd f _ _ _ _ Hx), bpi_w_abandon. fin.
  - (* EBridge *)
    destruct w; try discriminate. destruct (nth_error (g_bps s) b) as [x|] eqn:E; [|discriminate].
    intros _. unfold total, unacc. cbn. rewrite (bps_w_upd f _ _ _ _ E).
    unfold bpi_w. cbn. rewrite sets_w_app. cbn. fin.
  - (* ESpawnRB *)
    intros _. unfold total, unacc. cbn. rewrite rbs_w_app. cbn. fin.
  - (* ERbSend *)
    intros _. destruct (get_bp s broker) as [s1 b] eqn:E.
    destruct (get_bp_spec f s broker s1 b E) as ([x Hx] & Hb & Hq & Hp & Hr & He & Hi & Hc & _).
    unfold total, unacc. cbn. rewrite (bps_w_upd f _ _ _ _ Hx), Hb, Hq, Hp, Hr, He, Hi.
    unfold bpi_w. cbn. rewrite sets_w_app. cbn.
    fin; destruct Hc as (C1 & C2 & C3 & C4 & C5); assumption.
  - intros _. unfold total, unacc. fin.
  - cbn. discriminate.
Qed.
