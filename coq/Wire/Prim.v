(* Wire/Prim.v — hand model of sarama's primitive wire layer:
     real_decoder.go   (realDecoder getters, with their exact error / bounds behaviour)
     real_encoder.go   (realEncoder put-methods)
     prep_encoder.go   (prepEncoder put-methods: the sizing pass)
   The getters are those of the tree WITH /verif/fixes/c10_primitive_getters.patch applied (the pre-fix
   getters are in Wire/PrimOld.v).  Model only (no proofs).

   Decoders return  Ok v d' | Err e d' | Panic why | Alloc n :
     Panic = a Go run-time panic (slice/index out of range, make with a negative length, pop of an empty stack);
     Alloc = a [make] whose size is not bounded by the input (only the pre-fix getters reach it).
   Every read of the buffer goes through [slice]/[byte_at], which yield Panic outside [0, len raw).
   [mem] meters the variable-size allocations (make, string conversion) in bytes. *)
From Coq Require Import List ZArith Bool.
From SV Require Import Wire.Bytes Wire.Varint Wire.Crc.
Import ListNotations.
Open Scope Z_scope.

(* ------------------------------------------------------------------ errors *)
Inductive err :=
| EInsufficient          (* ErrInsufficientData *)
| EInvalidArrayLength | EInvalidByteSliceLength | EInvalidStringLength
| EVarintOverflow | EUVarintOverflow | EInvalidBool | EUnsupportedTagged
| ELengthField           (* "length field invalid" *)
| ECrc                   (* "CRC didn't match ..." *)
| EInvalidLength         (* decode(): "invalid length" (buffer not consumed exactly) *)
| EUnknownMagic | EDecompress | EDepth (* model artefact: nesting fuel of compressed message sets exhausted *) | EOther.
Definition err_id (e : err) : Z :=
  match e with
  | EInsufficient => 1 | EInvalidArrayLength => 2 | EInvalidByteSliceLength => 3 | EInvalidStringLength => 4
  | EVarintOverflow => 5 | EUVarintOverflow => 6 | EInvalidBool => 7 | EUnsupportedTagged => 8
  | ELengthField => 9 | ECrc => 10 | EInvalidLength => 11 | EUnknownMagic => 12 | EDecompress => 99 (* an error of the codec library: not a sarama error value *) | EDepth => 14 | EOther => 99
  end.

(* ------------------------------------------------------------------ decoder state *)
(* pushDecoder instances: lengthField{startOffset,length}, varintLengthField{startOffset,length}, crc32Field{startOffset,polynomial} *)
Inductive dfield := DLen (start length : Z) | DVarLen (start length : Z) | DCrc (p : poly) (start : Z).
Inductive pushkind := KLen | KVarLen (length : Z) | KCrc (p : poly).

Record dec := mkDec { raw : list Z; off : Z; mem : Z; stack : list dfield }.
Definition new_dec (buf : list Z) : dec := mkDec buf 0 0 [].
Definition remaining (d : dec) : Z := len (raw d) - off d.
Definition set_off (d : dec) (o : Z) : dec := mkDec (raw d) o (mem d) (stack d).
Definition adv (d : dec) (n : Z) : dec := set_off d (off d + n).
Definition to_end (d : dec) : dec := set_off d (len (raw d)).
Definition alloc (d : dec) (n : Z) : dec := mkDec (raw d) (off d) (mem d + n) (stack d).
Definition set_stack (d : dec) (s : list dfield) : dec := mkDec (raw d) (off d) (mem d) s.

Inductive res (A : Type) : Type :=
| Ok (v : A) (d : dec) | Err (e : err) (d : dec) | Panic (why : Z) | Alloc (n : Z).
Arguments Ok {A} v d. Arguments Err {A} e d. Arguments Panic {A} why. Arguments Alloc {A} n.

Definition bind {A B : Type} (r : res A) (k : A -> dec -> res B) : res B :=
  match r with Ok v d => k v d | Err e d => Err e d | Panic w => Panic w | Alloc n => Alloc n end.
Notation "'let*' ( x , d ) := r 'in' k" := (bind r (fun x d => k))
  (at level 200, x name, d name, r at level 100, k at level 200, right associativity).

(* panic reasons *)
Definition P_SLICE := 1. Definition P_INDEX := 2. Definition P_MAKE := 3. Definition P_POP := 4.

(* rd.raw[rd.off : rd.off+n] *)
Definition read (d : dec) (n : Z) : option (list Z) := slice (raw d) (off d) (off d + n).
(* rd.raw[i] *)
Definition byte_at (d : dec) (i : Z) : option Z :=
  if (0 <=? i) && (i <? len (raw d)) then Some (nth (Z.to_nat i) (raw d) 0) else None.

(* ------------------------------------------------------------------ fixed-width integers *)
Definition get_fixed (n : Z) (conv : Z -> Z) (d : dec) : res Z :=
  if remaining d <? n then Err EInsufficient (to_end d)
  else match read d n with
       | None => Panic P_SLICE
       | Some bs => Ok (conv (ube bs)) (adv d n)
       end.
Definition get_int8 := get_fixed 1 i8.
Definition get_int16 := get_fixed 2 i16.
Definition get_int32 := get_fixed 4 i32.
Definition get_int64 := get_fixed 8 i64.

(* ------------------------------------------------------------------ varints *)
(* binary.Varint(rd.raw[rd.off:]) *)
Definition get_varint (d : dec) : res Z :=
  match slice (raw d) (off d) (len (raw d)) with
  | None => Panic P_SLICE
  | Some buf =>
    let '(x, n) := varint buf in
    if n =? 0 then Err EInsufficient (to_end d)
    else if n <? 0 then Err EVarintOverflow (set_off d (off d - n))
    else Ok x (adv d n)
  end.
Definition get_uvarint (d : dec) : res Z :=
  match slice (raw d) (off d) (len (raw d)) with
  | None => Panic P_SLICE
  | Some buf =>
    let '(x, n) := uvarint buf in
    if n =? 0 then Err EInsufficient (to_end d)
    else if n <? 0 then Err EUVarintOverflow (set_off d (off d - n))
    else Ok x (adv d n)
  end.

(* ------------------------------------------------------------------ lengths, bool, tagged fields *)
Definition MAX_ARRAY := 131070.   (* 2*math.MaxUint16 *)
Definition get_array_length (d : dec) : res Z :=
  if remaining d <? 4 then Err EInsufficient (to_end d)
  else match read d 4 with
       | None => Panic P_SLICE
       | Some bs =>
         let tmp := i32 (ube bs) in
         let d := adv d 4 in
         if remaining d <? tmp then Err EInsufficient (to_end d)
         else if (MAX_ARRAY <? tmp) || (tmp <? -1) then Err EInvalidArrayLength d
         else Ok tmp d
       end.

Definition get_compact_array_length (d : dec) : res Z :=
  let* (n, d) := get_uvarint d in
  if n =? 0 then Ok 0 d
  else if remaining d <? u64 (n - 1) then Err EInsufficient (to_end d)
  else Ok (i64 n - 1) d.

Definition get_bool (d : dec) : res bool :=
  let* (b, d) := get_int8 d in
  if b =? 0 then Ok false d else if negb (b =? 1) then Err EInvalidBool d else Ok true d.

Definition get_empty_tagged (d : dec) : res Z :=
  let* (n, d) := get_uvarint d in
  if negb (n =? 0) then Err EUnsupportedTagged d else Ok 0 d.

(* ------------------------------------------------------------------ byte strings *)
Definition get_raw_bytes (length : Z) (d : dec) : res (list Z) :=
  if length <? 0 then Err EInvalidByteSliceLength d
  else if remaining d <? length then Err EInsufficient (to_end d)
  else match read d length with
       | None => Panic P_SLICE
       | Some bs => Ok bs (adv d length)
       end.

Definition get_bytes (d : dec) : res (option (list Z)) :=
  let* (tmp, d) := get_int32 d in
  if tmp =? -1 then Ok None d else let* (bs, d) := get_raw_bytes tmp d in Ok (Some bs) d.

Definition get_varint_bytes (d : dec) : res (option (list Z)) :=
  let* (tmp, d) := get_varint d in
  if tmp =? -1 then Ok None d else let* (bs, d) := get_raw_bytes tmp d in Ok (Some bs) d.

(* length := int(n - 1) with n uint64 *)
Definition get_compact_bytes (d : dec) : res (option (list Z)) :=
  let* (n, d) := get_uvarint d in
  let* (bs, d) := get_raw_bytes (i64 (n - 1)) d in Ok (Some bs) d.

(* ------------------------------------------------------------------ strings *)
Definition get_string_length (d : dec) : res Z :=
  let* (n, d) := get_int16 d in
  if n <? -1 then Err EInvalidStringLength d
  else if remaining d <? n then Err EInsufficient (to_end d)
  else Ok n d.

(* string(rd.raw[rd.off : rd.off+n]); rd.off += n   — the conversion copies n bytes *)
Definition take_string (n : Z) (d : dec) : res (list Z) :=
  match read d n with
  | None => Panic P_SLICE
  | Some bs => Ok bs (alloc (adv d n) n)
  end.

Definition get_string (d : dec) : res (list Z) :=
  let* (n, d) := get_string_length d in
  if n =? -1 then Ok [] d else take_string n d.

Definition get_nullable_string (d : dec) : res (option (list Z)) :=
  let* (n, d) := get_string_length d in
  if n =? -1 then Ok None d else let* (s, d) := take_string n d in Ok (Some s) d.

Definition get_compact_string (d : dec) : res (list Z) :=
  let* (n, d) := get_uvarint d in
  let length := i64 (n - 1) in
  if length <? 0 then Err EInvalidStringLength d
  else if remaining d <? length then Err EInsufficient (to_end d)
  else take_string length d.

Definition get_compact_nullable_string (d : dec) : res (option (list Z)) :=
  let* (n, d) := get_uvarint d in
  let length := i64 (n - 1) in
  if length <? 0 then Ok None d
  else if remaining d <? length then Err EInsufficient (to_end d)
  else let* (s, d) := take_string length d in Ok (Some s) d.

(* ------------------------------------------------------------------ arrays *)
(* for i := range ret { ret[i] = intNN(binary.BigEndian.UintNN(rd.raw[rd.off:])); rd.off += w } *)
Fixpoint read_ints (w : Z) (conv : Z -> Z) (k : nat) (d : dec) : res (list Z) :=
  match k with
  | O => Ok [] d
  | S k' =>
    match read d w with
    | None => Panic P_INDEX
    | Some bs => let* (r, d) := read_ints w conv k' (adv d w) in Ok (conv (ube bs) :: r) d
    end
  end.

Definition get_compact_int32_array (d : dec) : res (option (list Z)) :=
  let* (n, d) := get_uvarint d in
  if n =? 0 then Ok None d
  else if remaining d / 4 <? u64 (n - 1) then Err EInsufficient (to_end d)
  else let k := i64 n - 1 in
       let* (l, d) := read_ints 4 i32 (Z.to_nat k) (alloc d (4 * k)) in Ok (Some l) d.

Definition get_int_array (w : Z) (conv : Z -> Z) (d : dec) : res (option (list Z)) :=
  if remaining d <? 4 then Err EInsufficient (to_end d)
  else match read d 4 with
       | None => Panic P_SLICE
       | Some bs =>
         let n := ube bs in          (* int(binary.BigEndian.Uint32(..)): never negative on a 64-bit platform *)
         let d := adv d 4 in
         if remaining d <? w * n then Err EInsufficient (to_end d)
         else if n =? 0 then Ok None d
         else if n <? 0 then Err EInvalidArrayLength d
         else let* (l, d) := read_ints w conv (Z.to_nat n) (alloc d (w * n)) in Ok (Some l) d
       end.
Definition get_int32_array := get_int_array 4 i32.
Definition get_int64_array := get_int_array 8 i64.

Fixpoint read_strings (k : nat) (d : dec) : res (list (list Z)) :=
  match k with
  | O => Ok [] d
  | S k' => let* (s, d) := get_string d in let* (r, d) := read_strings k' d in Ok (s :: r) d
  end.

Definition STRING_HEADER := 16.  (* size of a Go string header: make([]string, n) allocates 16 n bytes *)
Definition get_string_array (d : dec) : res (option (list (list Z))) :=
  if remaining d <? 4 then Err EInsufficient (to_end d)
  else match read d 4 with
       | None => Panic P_SLICE
       | Some bs =>
         let n := ube bs in
         let d := adv d 4 in
         if remaining d <? 2 * n then Err EInsufficient (to_end d)
         else if n =? 0 then Ok None d
         else if n <? 0 then Err EInvalidArrayLength d
         else let* (l, d) := read_strings (Z.to_nat n) (alloc d (STRING_HEADER * n)) in Ok (Some l) d
       end.

(* ------------------------------------------------------------------ subsets and peeks *)
(* getSubset(length) = getRawBytes(length) wrapped in a fresh realDecoder *)
Definition get_subset (length : Z) (d : dec) : res dec :=
  let* (bs, d) := get_raw_bytes length d in Ok (new_dec bs) d.

Definition peek (offset length : Z) (d : dec) : res (list Z) :=
  if remaining d <? offset + length then Err EInsufficient d
  else match slice (raw d) (off d + offset) (off d + offset + length) with
       | None => Panic P_SLICE
       | Some bs => Ok bs d
       end.
Definition peek_int8 (offset : Z) (d : dec) : res Z :=
  if remaining d <? offset + 1 then Err EInsufficient d
  else match byte_at d (off d + offset) with
       | None => Panic P_INDEX
       | Some b => Ok (i8 b) d
       end.

(* ================================================================== encoders *)
(* Values handed to the put* methods. Slices are [option (list _)] (nil vs empty); strings are byte lists. *)
Inductive eprim :=
| PInt8 (v : Z) | PInt16 (v : Z) | PInt32 (v : Z) | PInt64 (v : Z) | PVarint (v : Z) | PUVarint (v : Z)
| PArrayLength (n : Z) | PCompactArrayLength (n : Z) | PBool (b : bool)
| PBytes (o : option (list Z)) | PVarintBytes (o : option (list Z)) | PCompactBytes (o : option (list Z))
| PRawBytes (o : option (list Z))
| PString (s : list Z) | PNullableString (o : option (list Z))
| PCompactString (s : list Z) | PNullableCompactString (o : option (list Z))
| PStringArray (o : option (list (list Z)))
| PCompactInt32Array (o : option (list Z)) | PNullableCompactInt32Array (o : option (list Z))
| PInt32Array (o : option (list Z)) | PInt64Array (o : option (list Z))
| PEmptyTagged.

Definition olist {A} (o : option (list A)) : list A := match o with Some l => l | None => [] end.

(* encoder errors *)
Inductive eerr := EEStringTooLong | EENullArray | EEInvalidSize | EEInvalidTimestamp | EEBatchVersion | EECompress | EEOther.
Definition eerr_id (e : eerr) : Z :=
  match e with
  | EEStringTooLong => 1 | EENullArray => 2 | EEInvalidSize => 3
  | EEInvalidTimestamp => 4 | EEBatchVersion => 5 | EECompress => 5 (* same message text in Go *) | EEOther => 99
  end.

Definition MAX_INT16 := 32767.

Fixpoint real_strings (l : list (list Z)) : list Z :=
  match l with [] => [] | s :: r => be 2 (len s) ++ s ++ real_strings r end.
Fixpoint real_ints (w : nat) (l : list Z) : list Z :=
  match l with [] => [] | v :: r => be w v ++ real_ints w r end.

(* realEncoder: the bytes a put* call writes at re.off (None = the call returns an error) *)
Definition real_prim (p : eprim) : eerr + list Z :=
  match p with
  | PInt8 v => inr (be 1 v) | PInt16 v => inr (be 2 v) | PInt32 v => inr (be 4 v) | PInt64 v => inr (be 8 v)
  | PVarint v => inr (put_varint v) | PUVarint v => inr (put_uvarint v)
  | PArrayLength n => inr (be 4 n)
  | PCompactArrayLength n => inr (put_uvarint (u64 (n + 1)))
  | PBool b => inr (be 1 (if b then 1 else 0))
  | PBytes None => inr (be 4 (-1))
  | PBytes (Some l) => inr (be 4 (len l) ++ l)
  | PVarintBytes None => inr (put_varint (-1))
  | PVarintBytes (Some l) => inr (put_varint (len l) ++ l)
  | PCompactBytes o => inr (put_uvarint (u64 (len (olist o) + 1)) ++ olist o)
  | PRawBytes o => inr (olist o)
  | PString s => inr (be 2 (len s) ++ s)
  | PNullableString None => inr (be 2 (-1))
  | PNullableString (Some s) => inr (be 2 (len s) ++ s)
  | PCompactString s => inr (put_uvarint (u64 (len s + 1)) ++ s)
  | PNullableCompactString None => inr (be 1 0)
  | PNullableCompactString (Some s) => inr (put_uvarint (u64 (len s + 1)) ++ s)
  | PStringArray o => inr (be 4 (len (olist o)) ++ real_strings (olist o))
  | PCompactInt32Array None => inl EENullArray
  | PCompactInt32Array (Some l) => inr (put_uvarint (u64 (len l + 1)) ++ real_ints 4 l)
  | PNullableCompactInt32Array None => inr (put_uvarint 0)
  | PNullableCompactInt32Array (Some l) => inr (put_uvarint (u64 (len l + 1)) ++ real_ints 4 l)
  | PInt32Array o => inr (be 4 (len (olist o)) ++ real_ints 4 (olist o))
  | PInt64Array o => inr (be 4 (len (olist o)) ++ real_ints 8 (olist o))
  | PEmptyTagged => inr (put_uvarint 0)
  end.

(* prepEncoder: what a put* call adds to pe.length; errors as in prep_encoder.go (lengths above
   math.MaxInt32 are outside the model: hypothesis len < 2^31 on every collection) *)
Fixpoint prep_strings (l : list (list Z)) : eerr + Z :=
  match l with
  | [] => inr 0
  | s :: r => if MAX_INT16 <? len s then inl EEStringTooLong
              else match prep_strings r with inl e => inl e | inr n => inr (2 + len s + n) end
  end.
Definition prep_string (s : list Z) : eerr + Z :=
  if MAX_INT16 <? len s then inl EEStringTooLong else inr (2 + len s).
Definition psize (l : list Z) : Z := len l.   (* binary.PutVarint/PutUvarint into a scratch buffer: its return value *)

Definition prep_prim (p : eprim) : eerr + Z :=
  match p with
  | PInt8 _ => inr 1 | PInt16 _ => inr 2 | PInt32 _ => inr 4 | PInt64 _ => inr 8
  | PVarint v => inr (psize (put_varint v)) | PUVarint v => inr (psize (put_uvarint v))
  | PArrayLength _ => inr 4
  | PCompactArrayLength n => inr (psize (put_uvarint (u64 (n + 1))))
  | PBool _ => inr 1
  | PBytes None => inr 4
  | PBytes (Some l) => inr (4 + len l)
  | PVarintBytes None => inr (psize (put_varint (-1)))
  | PVarintBytes (Some l) => inr (psize (put_varint (len l)) + len l)
  | PCompactBytes o => inr (psize (put_uvarint (u64 (len (olist o) + 1))) + len (olist o))
  | PRawBytes o => inr (len (olist o))
  | PString s => prep_string s
  | PNullableString None => inr 2
  | PNullableString (Some s) => prep_string s
  | PCompactString s => inr (psize (put_uvarint (u64 (len s + 1))) + len s)
  | PNullableCompactString None => inr (psize (put_uvarint 0))
  | PNullableCompactString (Some s) => inr (psize (put_uvarint (u64 (len s + 1))) + len s)
  | PStringArray o => match prep_strings (olist o) with inl e => inl e | inr n => inr (4 + n) end
  | PCompactInt32Array None => inl EENullArray
  | PCompactInt32Array (Some l) => inr (psize (put_uvarint (u64 (len l + 1))) + 4 * len l)
  | PNullableCompactInt32Array None => inr (psize (put_uvarint 0))
  | PNullableCompactInt32Array (Some l) => inr (psize (put_uvarint (u64 (len l + 1))) + 4 * len l)
  | PInt32Array o => inr (4 + 4 * len (olist o))
  | PInt64Array o => inr (4 + 8 * len (olist o))
  | PEmptyTagged => inr (psize (put_uvarint 0))
  end.
