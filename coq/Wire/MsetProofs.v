(* Wire/MsetProofs.v — C09 for legacy messages (magic 0 and 1): a message decodes back (timestamp truncated to
   milliseconds, dropped for magic 0), a MessageSet that fills its buffer decodes back block by block, and a
   compressed wrapper message decodes to the wrapper plus the decoded inner set, under the codec hypothesis. *)
From Coq Require Import List ZArith Bool Lia.
From SV Require Import Base.Corr Wire.Bytes Wire.BytesProofs Wire.Varint Wire.VarintProofs Wire.Crc Wire.CrcProofs
  Wire.Prim Wire.PushPop Wire.CorrPrim Wire.PrimProofs Wire.PrimThms Wire.SafetyProofs Wire.Records Wire.RecordsProofs
  Wire.RecordsSafety.
Import ListNotations.
Open Scope Z_scope.

Ltac Zify.zify_post_hook ::= Z.div_mod_to_equations.

Lemma set_mem_same d : set_mem d (mem d) = d.
Proof. destruct d; reflexivity. Qed.

Ltac read_runs :=
  repeat match goal with
         | H : runs (_ :: _) _ _ _ |- _ =>
           let v := fresh "v" in let vs := fresh "vs" in let dn := fresh "dn" in let E := fresh "E" in let Ev := fresh "Ev" in
           apply runs_cons_inv in H as (v & vs & dn & Ev & E & H); cbn [run_dop] in E; apply rmap_ok_inv in E as (? & E & ?);
           injection Ev as <- <-; subst
         | H : runs [] _ _ _ |- _ => apply runs_nil_inv in H as (_ & ->)
         end;
  repeat match goal with H : VInt _ = VInt _ |- _ => injection H as <- | H : VUnit = VUnit |- _ => clear H
                    | H : VBytes _ = VBytes _ |- _ => injection H as <- end;
  repeat match goal with u : unit |- _ => destruct u end.

(* the put-calls of Message.encode after the CRC push, given the payload *)
Definition msg_prims (version attrs : Z) (tsl : list eprim) (key pl : option (list Z)) : list eprim :=
  [PInt8 version; PInt8 attrs] ++ tsl ++ [PBytes key; PBytes pl].
Definition msg_ops (version attrs : Z) (tsl : list eprim) (key pl : option (list Z)) : eops :=
  EFrame (KCrc IEEE) (eseq (msg_prims version attrs tsl key pl) ENil) ENil.
(* one block: offset, length frame, message *)
Definition block_ops (o : Z) (mo : eops) : eops := ECons (PInt64 o) (EFrame KLen mo ENil).

Definition tsl_ok (tsl : list eprim) : Prop := tsl = [] \/ exists ms, tsl = [PInt64 ms] /\ in_i64 ms.

(* the equations a block's bytes yield for the getters that MessageBlock.decode / Message.decode call *)
Lemma block_eqs o version attrs tsl key pl bb d rest :
  in_i64 o -> in_i8 version -> in_i8 attrs -> tsl_ok tsl -> len (olist key) < MAXLEN -> len (olist pl) < MAXLEN ->
  spec_bytes (block_ops o (msg_ops version attrs tsl key pl)) = inr bb ->
  at_ d (bb ++ rest) -> len (raw d) < MAXLEN ->
  exists d1 d2 d3 d4 d5 d6 d7 d8 d9 d10,
    get_int64 d = Ok o d1 /\ push_dec KLen d1 = Ok tt d2 /\ push_dec (KCrc IEEE) d2 = Ok tt d3 /\
    get_int8 d3 = Ok version d4 /\ get_int8 d4 = Ok attrs d5 /\
    (match tsl with [PInt64 ms] => get_int64 d5 = Ok ms d6 | _ => d6 = d5 end) /\
    get_bytes d6 = Ok key d7 /\ get_bytes d7 = Ok pl d8 /\ pop_dec d8 = Ok tt d9 /\ pop_dec d9 = Ok tt d10 /\
    moved d d10 (len bb) 0 /\
    (* the magic byte sits 16 bytes into the block *)
    peek_int8 MAGIC_OFFSET d = Ok version d.
Proof.
  intros Ho Hv Ha Ht Hk Hp Hs Hat Hraw.
  assert (Hbl : len bb <= len (raw d)).
  { destruct Hat as (pre & suf & Hr & _). rewrite Hr, !len_app. pose proof (len_nonneg pre). pose proof (len_nonneg suf). pose proof (len_nonneg rest). lia. }
  pose proof Hs as Hs0.
  unfold block_ops, msg_ops, msg_prims in Hs. rewrite spec_bytes_cons, spec_bytes_frame, spec_bytes_frame in Hs.
  assert (Tot : Forall total ([PInt8 version; PInt8 attrs] ++ tsl ++ [PBytes key; PBytes pl])).
  { apply Forall_app; split; [repeat constructor; auto with total|]. apply Forall_app; split; [|repeat constructor; auto with total].
    destruct Ht as [->|(ms & -> & _)]; repeat constructor; auto with total. }
  rewrite (spec_bytes_eseq _ _ Tot) in Hs. cbn [spec_bytes real_prim frame_field] in Hs.
  apply inr_inj in Hs. rewrite !app_nil_r in Hs.
  set (body := pbytes ([PInt8 version; PInt8 attrs] ++ tsl ++ [PBytes key; PBytes pl])) in *.
  (* peek: byte 16 is the version *)
  assert (Hpeek : peek_int8 MAGIC_OFFSET d = Ok version d).
  { assert (Hb0 : exists tl, body = [version mod 256] ++ tl).
    { unfold body. cbn [app pbytes]. unfold pb at 1. cbn [real_prim be app]. eexists. reflexivity. }
    destruct Hb0 as (tl & Hb0). rewrite Hb0 in Hs. subst bb.
    destruct Hat as (pre & suf & Hr & Hoff). unfold peek_int8, MAGIC_OFFSET, byte_at, remaining.
    rewrite Hr, Hoff, !len_app, !len_be, len_cons. pose proof (len_nonneg pre). pose proof (len_nonneg suf). pose proof (len_nonneg rest). pose proof (len_nonneg tl).
    change (len (@nil Z)) with 0.
    replace (_ <? 16 + 1) with false by (symmetry; apply Z.ltb_ge; lia).
    replace ((0 <=? len pre + 16) && (len pre + 16 <? _)) with true
      by (symmetry; apply andb_true_iff; split; [apply Z.leb_le | apply Z.ltb_lt]; lia).
    match goal with |- context [be 4 (Z.of_nat 4 + ?x)] => set (lenb := be 4 (Z.of_nat 4 + x)) end.
    set (crcb := be 4 (crc32 IEEE ([version mod 256] ++ tl))).
    replace (pre ++ ((be 8 o ++ lenb ++ crcb ++ [version mod 256] ++ tl) ++ rest) ++ suf)
      with ((pre ++ be 8 o ++ lenb ++ crcb) ++ (version mod 256) :: (tl ++ rest ++ suf))
      by (rewrite <- !app_assoc; cbn [app]; reflexivity).
    replace (Z.to_nat (len pre + 16)) with (length (pre ++ be 8 o ++ lenb ++ crcb))
      by (rewrite !app_length; unfold lenb, crcb; rewrite !be_length; unfold len; lia).
    rewrite nth_middle. f_equal. unfold in_i8, i8, two8 in *. lia. }
  (* the script run *)
  assert (Hok : ops_ok (block_ops o (msg_ops version attrs tsl key pl)) (remaining d - len bb)).
  { unfold block_ops, msg_ops, msg_prims. cbn [ops_ok]. unfold blen at 1 2.
    rewrite !spec_bytes_frame, (spec_bytes_eseq _ _ Tot). cbn [spec_bytes frame_field]. rewrite !app_nil_r.
    fold body. subst bb. rewrite !len_app, !len_be in Hbl. change (Z.of_nat 8) with 8 in Hbl. change (Z.of_nat 4) with 4 in Hbl.
    pose proof (len_nonneg body). unfold MAXLEN in *. rewrite !len_app, !len_be. change (Z.of_nat 4) with 4.
    assert (Hb : blen (eseq ([PInt8 version; PInt8 attrs] ++ tsl ++ [PBytes key; PBytes pl]) ENil) = len body).
    { unfold blen. rewrite (spec_bytes_eseq _ _ Tot). cbn [spec_bytes]. now rewrite app_nil_r. }
    unfold in_i64, in_i8 in *. rewrite Hb.
    repeat split; try assumption; try exact I; try lia.
    (* the message body: each put-call is in range *)
    clear - Ht Hk Hp.
    destruct Ht as [->|(ms & -> & Hms)]; cbn [app eseq ops_ok prim_ok ctx_ok]; unfold MAXLEN, in_i64 in *; repeat split; try assumption; try lia; try exact I. }
  destruct (script_roundtrip _ bb d rest Hs0 Hat Hok Hraw) as (dz & Rz & Mz).
  unfold block_ops, msg_ops, msg_prims in Rz.
  destruct Ht as [->|(ms & -> & Hms)]; cbn [dops_of eseq dop_of_prim app expected_vals expected olist] in Rz; read_runs.
  - exists dn, dn0, dn1, dn2, dn3, dn3, dn4, dn5, dn6, dn7. repeat split; try assumption; try reflexivity; try apply Mz.
  - exists dn, dn0, dn1, dn2, dn3, dn4, dn5, dn6, dn7, dn8. repeat split; try assumption; try reflexivity; try apply Mz.
Qed.

(* ---------------------------------------------------------------- attribute byte of a legacy message *)
Lemma msg_attrs_bits c (la : bool) : 0 <= c <= 7 ->
  in_i8 (msg_attrs c la) /\ Z.land (msg_attrs c la) 7 = c /\ testbit_mask (msg_attrs c la) 8 = la.
Proof.
  intros H. assert (C : c = 0 \/ c = 1 \/ c = 2 \/ c = 3 \/ c = 4 \/ c = 5 \/ c = 6 \/ c = 7) by lia.
  destruct C as [->|[->|[->|[->|[->|[->|[->| ->]]]]]]]; destruct la; vm_compute; repeat split; congruence.
Qed.

Lemma mapp_nil_r a : mapp a MNil = a.
Proof. induction a as [|o m r IH]; cbn [mapp]; [reflexivity | now rewrite IH]. Qed.
Lemma mapp_assoc a b c : mapp (mapp a b) c = mapp a (mapp b c).
Proof. induction a as [|o m r IH]; cbn [mapp]; [reflexivity | now rewrite IH]. Qed.

Section Codec.
Variable compress : Z -> list Z -> option (list Z).
Variable decompress : Z -> list Z -> option (list Z).
Hypothesis codec_inverse : forall c x y, compress c x = Some y -> decompress c y = Some x.

(* a message the encoder accepts: magic 0 or 1, a codec in 0..7, a valid timestamp for magic 1 *)
Definition msg_ok (m : message) : Prop :=
  let '(mkMsg codec la key value _ version ts) := m in
  0 <= codec <= 7 /\ (version = 0 \/ version = 1) /\ (version = 1 -> ts_ok ts) /\
  len (olist key) < MAXLEN /\ len (olist value) < MAXLEN.
(* what comes back, given what the nested decoder makes of a compressed value *)
Definition norm_msg (m : message) (s : option mset) : message :=
  let '(mkMsg codec la key value _ version ts) := m in
  mkMsg codec la key value s version (if version =? 1 then ts_norm ts else ZERO_TIME).
(* the nested set a message decodes to: none for an uncompressed or nil value *)
Definition nested_for (nested : list Z -> dec -> res mset) (m : message) (s : option mset) : Prop :=
  let '(mkMsg codec _ _ value _ _ _) := m in
  match value with
  | Some v => if codec =? 0 then s = None
              else exists s', s = Some s' /\ forall d0, nested v d0 = Ok s' d0
  | None => s = None
  end.

Lemma message_ops_shape m mo : msg_ok m -> message_ops compress m = inr mo ->
  let '(mkMsg codec la key value _ version ts) := m in
  exists pl, mo = msg_ops version (msg_attrs codec la) (if 1 <=? version then [PInt64 (ts_millis ts)] else []) key pl /\
             match value with None => pl = None | Some v => exists c, compress_m compress codec v = Some c /\ pl = Some c end.
Proof.
  destruct m as [codec la key value set version ts]. intros (Hc & Hv & Ht & Hk & Hval) H. unfold message_ops in H.
  assert (Etsl : (if 1 <=? version then match ts_prim ts with inl e => inl e | inr p => inr [p] end else inr [])
                 = inr (if 1 <=? version then [PInt64 (ts_millis ts)] else [])).
  { destruct Hv as [->| ->]; cbn [Z.leb Z.compare]; [reflexivity|]. destruct (ts_prim_ok ts (Ht eq_refl)) as (P & _). now rewrite P. }
  rewrite Etsl in H.
  destruct value as [v|].
  - destruct (compress_m compress codec v) as [c|] eqn:Ec; [|discriminate]. apply inr_inj in H. subst mo.
    exists (Some c). split; [reflexivity | eauto].
  - apply inr_inj in H. subst mo. exists None. split; reflexivity.
Qed.

Lemma pb_bytes_len o : len (olist o) <= len (pb (PBytes o)).
Proof. unfold pb. destruct o as [l|]; cbn [real_prim olist]; [rewrite len_app; pose proof (len_nonneg (be 4 (len l))); lia | cbn; lia]. Qed.

(* the payload and the key are shorter than the block that contains them *)
Lemma block_bytes_bounds o version attrs tsl key pl bb : tsl_ok tsl ->
  spec_bytes (block_ops o (msg_ops version attrs tsl key pl)) = inr bb ->
  len (olist key) <= len bb /\ len (olist pl) <= len bb.
Proof.
  intros Ht Hs. unfold block_ops, msg_ops, msg_prims in Hs. rewrite spec_bytes_cons, spec_bytes_frame, spec_bytes_frame in Hs.
  assert (Tot : Forall total ([PInt8 version; PInt8 attrs] ++ tsl ++ [PBytes key; PBytes pl])).
  { apply Forall_app; split; [repeat constructor; auto with total|]. apply Forall_app; split; [|repeat constructor; auto with total].
    destruct Ht as [->|(ms & -> & _)]; repeat constructor; auto with total. }
  rewrite (spec_bytes_eseq _ _ Tot) in Hs. cbn [spec_bytes real_prim frame_field] in Hs.
  apply inr_inj in Hs. rewrite !app_nil_r in Hs. subst bb.
  rewrite !pbytes_app. cbn [pbytes]. rewrite !len_app, !len_be.
  pose proof (pb_bytes_len key). pose proof (pb_bytes_len pl).
  pose proof (len_nonneg (pb (PInt8 version))). pose proof (len_nonneg (pb (PInt8 attrs))). pose proof (len_nonneg (pbytes tsl)).
  pose proof (len_nonneg (olist key)). pose proof (len_nonneg (olist pl)).
  change (len (@nil Z)) with 0. split; lia.
Qed.

Lemma compress_m_inv c x y : compress_m compress c x = Some y -> decompress_m decompress c y = Some x.
Proof. unfold compress_m, decompress_m. destruct (c =? 0); [congruence | apply codec_inverse]. Qed.

(* ---------------------------------------------------------------- one MessageBlock *)
Theorem block_roundtrip nested o m mo bb s d rest :
  in_i64 o -> msg_ok m -> message_ops compress m = inr mo -> spec_bytes (block_ops o mo) = inr bb ->
  nested_for nested m s -> at_ d (bb ++ rest) -> len (raw d) < MAXLEN ->
  exists d', block_decode_with (message_decode_with decompress nested) d = (Ok (o, norm_msg m s) d', o) /\
             moved d d' (len bb) 0 /\ peek_int8 MAGIC_OFFSET d = Ok (let '(mkMsg _ _ _ _ _ v _) := m in v) d.
Proof.
  intros Ho Hok Hmo Hs Hn Hat Hraw.
  pose proof (message_ops_shape m mo Hok Hmo) as Sh.
  destruct m as [codec la key value set version ts]. destruct Sh as (pl & -> & Hpl).
  destruct Hok as (Hc & Hv & Ht & Hk & Hval).
  destruct (msg_attrs_bits codec la Hc) as (Ha8 & Hland & Hbit).
  set (tsl := if 1 <=? version then [PInt64 (ts_millis ts)] else []) in *.
  assert (Htsl : tsl_ok tsl).
  { unfold tsl. destruct Hv as [->| ->]; cbn [Z.leb Z.compare]; [now left|]. right. eexists; split; [reflexivity|].
    apply (ts_prim_ok ts (Ht eq_refl)). }
  destruct (block_bytes_bounds o version _ tsl key pl bb Htsl Hs) as (Bk & Bp).
  assert (Hbl : len bb <= len (raw d)).
  { destruct Hat as (pre & suf & Hr & _). rewrite Hr, !len_app. pose proof (len_nonneg pre). pose proof (len_nonneg suf). pose proof (len_nonneg rest). lia. }
  destruct (block_eqs o version (msg_attrs codec la) tsl key pl bb d rest Ho
              ltac:(unfold in_i8; destruct Hv as [->| ->]; lia) Ha8 Htsl ltac:(lia) ltac:(lia) Hs Hat Hraw)
    as (d1 & d2 & d3 & d4 & d5 & d6 & d7 & d8 & d9 & d10 & E1 & E2 & E3 & E4 & E5 & E6 & E7 & E8 & E9 & E10 & M & Pk).
  exists d10. split; [|split; [exact M | exact Pk]].
  unfold block_decode_with. rewrite E1, E2. cbn [bind]. unfold message_decode_with. rewrite E3. cbn [bind]. rewrite E4. cbn [bind].
  replace (1 <? version) with false by (symmetry; apply Z.ltb_ge; destruct Hv as [->| ->]; lia).
  rewrite E5. cbn [bind]. rewrite Hland, Hbit.
  assert (Ets : (if version =? 1 then ts_decode d5 else Ok ZERO_TIME d5) = Ok (if version =? 1 then ts_norm ts else ZERO_TIME) d6).
  { unfold tsl in E6. destruct Hv as [->| ->]; cbn [Z.leb Z.compare Z.eqb Pos.eqb] in *.
    - now subst d6.
    - unfold ts_decode. rewrite E6. cbn [bind]. destruct (ts_prim_ok ts (Ht eq_refl)) as (_ & _ & N). now rewrite N. }
  rewrite Ets. cbn [bind]. rewrite E7. cbn [bind]. rewrite E8. cbn [bind].
  cbn [nested_for] in Hn. cbn [norm_msg].
  destruct value as [v|].
  - destruct Hpl as (c & Ec & ->). destruct (codec =? 0) eqn:Ecz.
    + subst s. unfold compress_m in Ec. rewrite Ecz in Ec. injection Ec as <-. rewrite E9. cbn [bind]. rewrite E10. reflexivity.
    + destruct Hn as (s' & -> & Hnest). rewrite (compress_m_inv _ _ _ Ec), Hnest. cbn [bind]. rewrite E9. cbn [bind]. rewrite E10. reflexivity.
  - subst pl s. rewrite E9. cbn [bind]. rewrite E10. reflexivity.
Qed.

(* ---------------------------------------------------------------- a MessageSet that fills its buffer *)
(* the blocks with what the nested decoder gives for each message *)
Inductive blocks_rel (nested : list Z -> dec -> res mset) : mblocks -> mblocks -> Prop :=
| br_nil : blocks_rel nested MNil MNil
| br_cons o m s r r' : in_i64 o -> msg_ok m -> nested_for nested m s -> blocks_rel nested r r' ->
                       blocks_rel nested (MCons o m r) (MCons o (norm_msg m s) r').

Fixpoint mcount (b : mblocks) : nat := match b with MNil => O | MCons _ _ r => S (mcount r) end.

Lemma mblocks_ops_cons o m r ops bytes : mblocks_ops compress (MCons o m r) = inr ops -> spec_bytes ops = inr bytes ->
  exists mo ro bb rb, message_ops compress m = inr mo /\ mblocks_ops compress r = inr ro /\
                      spec_bytes (block_ops o mo) = inr bb /\ spec_bytes ro = inr rb /\ bytes = bb ++ rb.
Proof.
  cbn [mblocks_ops]. destruct (message_ops compress m) as [e|mo]; [discriminate|].
  destruct (mblocks_ops compress r) as [e|ro]; [discriminate|]. intros H Hs. apply inr_inj in H. subst ops.
  rewrite spec_bytes_cons, spec_bytes_frame in Hs. cbn [real_prim] in Hs.
  destruct (spec_bytes mo) as [e|mb] eqn:Em; [discriminate|]. destruct (spec_bytes ro) as [e|rb] eqn:Er; [discriminate|].
  apply inr_inj in Hs. exists mo, ro, (be 8 o ++ frame_field KLen mb ++ mb), rb.
  split; [reflexivity|]. split; [reflexivity|]. split; [|split; [exact Er|]].
  - unfold block_ops. rewrite spec_bytes_cons, spec_bytes_frame, Em. cbn [real_prim spec_bytes]. now rewrite !app_nil_r.
  - subst bytes. now rewrite <- !app_assoc.
Qed.

Theorem mset_loop_roundtrip nested bs : forall bs' fuel d acc ops bytes,
  blocks_rel nested bs bs' -> (mcount bs < fuel)%nat ->
  mblocks_ops compress bs = inr ops -> spec_bytes ops = inr bytes ->
  at_ d (bytes ++ []) -> remaining d = len bytes -> len (raw d) < MAXLEN ->
  exists d', mset_loop (message_decode_with decompress nested) fuel d acc = Ok (mkSet false false (mapp acc bs')) d' /\
             moved d d' (len bytes) 0.
Proof.
  induction bs as [|o m r IH]; intros bs' fuel d acc ops bytes Hrel Hfuel Hops Hs Hat Hrem Hraw.
  - inversion Hrel; subst. cbn [mblocks_ops] in Hops. apply inr_inj in Hops. subst ops. cbn [spec_bytes] in Hs.
    apply inr_inj in Hs. subst bytes. destruct fuel as [|fuel]; [cbn in Hfuel; lia|]. cbn [mset_loop].
    change (len (@nil Z)) with 0 in *. rewrite Hrem. cbn [Z.leb Z.compare].
    exists d. split; [now rewrite mapp_nil_r | apply moved_refl].
  - inversion Hrel as [|? ? s ? r' Ho Hok Hn Hr']; subst.
    destruct (mblocks_ops_cons o m r ops bytes Hops Hs) as (mo & ro & bb & rb & Emo & Ero & Ebb & Erb & ->).
    destruct fuel as [|fuel]; [cbn in Hfuel; lia|]. cbn [mcount] in Hfuel.
    rewrite app_nil_r in Hat.
    destruct (block_roundtrip nested o m mo bb s d rb Ho Hok Emo Ebb Hn Hat Hraw) as (d1 & EB & M1 & Pk).
    assert (Hbbpos : 0 < len bb).
    { unfold block_ops in Ebb. rewrite spec_bytes_cons in Ebb. cbn [real_prim] in Ebb. destruct (spec_bytes (EFrame KLen mo ENil)) as [e|x]; [discriminate|].
      apply inr_inj in Ebb. subst bb. rewrite len_app, len_be. pose proof (len_nonneg x). lia. }
    cbn [mset_loop]. rewrite len_app in Hrem. pose proof (len_nonneg rb).
    replace (remaining d <=? 0) with false by (symmetry; apply Z.leb_gt; lia).
    rewrite Pk. destruct m as [codec la key value set version ts]. destruct Hok as (_ & Hv & _).
    replace (1 <? version) with false by (symmetry; apply Z.ltb_ge; destruct Hv as [->| ->]; lia).
    rewrite EB.
    assert (Hat1 : at_ d1 (rb ++ [])) by (rewrite app_nil_r; eapply at_moved; [exact Hat | exact M1]).
    assert (Hrem1 : remaining d1 = len rb) by (rewrite (moved_remaining _ _ _ _ M1); lia).
    assert (Hraw1 : len (raw d1) < MAXLEN) by (destruct M1 as (A1 & _); now rewrite A1).
    destruct (IH r' fuel d1 (mapp acc (MCons o (norm_msg (mkMsg codec la key value set version ts) s) MNil)) ro rb Hr' ltac:(lia) Ero Erb Hat1 Hrem1 Hraw1)
      as (d2 & E2 & M2).
    exists d2. split.
    + rewrite E2. now rewrite mapp_assoc.
    + rewrite len_app. eapply moved_eq; [eapply moved_trans; eassumption | lia | lia].
Qed.

(* a set of plain (uncompressed) messages *)
Inductive plain_blocks : mblocks -> Prop :=
| pl_nil : plain_blocks MNil
| pl_cons o codec la key value set version ts r :
    in_i64 o -> msg_ok (mkMsg codec la key value set version ts) -> codec = 0 -> plain_blocks r ->
    plain_blocks (MCons o (mkMsg codec la key value set version ts) r).
Fixpoint norm_plain (b : mblocks) : mblocks :=
  match b with MNil => MNil | MCons o m r => MCons o (norm_msg m None) (norm_plain r) end.

Lemma plain_rel nested bs : plain_blocks bs -> blocks_rel nested bs (norm_plain bs).
Proof.
  induction 1 as [|o codec la key value set version ts r Ho Hok Hc Hr IH]; cbn [norm_plain]; constructor; try assumption.
  subst codec. cbn [nested_for]. destruct value; reflexivity.
Qed.
Lemma mcount_bytes bs ops bytes : mblocks_ops compress bs = inr ops -> spec_bytes ops = inr bytes -> Z.of_nat (mcount bs) <= len bytes.
Proof.
  revert ops bytes; induction bs as [|o m r IH]; intros ops bytes Hops Hs; cbn [mcount]; [pose proof (len_nonneg bytes); lia|].
  destruct (mblocks_ops_cons o m r ops bytes Hops Hs) as (mo & ro & bb & rb & Emo & Ero & Ebb & Erb & ->).
  specialize (IH ro rb Ero Erb). rewrite len_app.
  unfold block_ops in Ebb. rewrite spec_bytes_cons in Ebb. cbn [real_prim] in Ebb. destruct (spec_bytes (EFrame KLen mo ENil)) as [e|x]; [discriminate|].
  apply inr_inj in Ebb. subst bb. rewrite len_app, len_be. pose proof (len_nonneg x). lia.
Qed.

(* MessageSet.decode on a buffer that holds exactly the encoding of a set of plain messages *)
Theorem mset_roundtrip_plain k p ov bs ops bytes m0 :
  plain_blocks bs -> mset_ops compress (mkSet p ov bs) = inr ops -> spec_bytes ops = inr bytes -> len bytes < MAXLEN ->
  exists d', mset_decode decompress (S k) (mkDec bytes 0 m0 []) = Ok (mkSet false false (norm_plain bs)) d' /\
             off d' = len bytes /\ mem d' = m0.
Proof.
  intros Hpl Hops Hs Hlen. cbn [mset_ops] in Hops. cbn [mset_decode].
  set (d := mkDec bytes 0 m0 []).
  assert (Hat : at_ d (bytes ++ [])) by (exists [], []; split; [cbn [raw app]; now rewrite !app_nil_r | reflexivity]).
  assert (Hrem : remaining d = len bytes) by (unfold remaining, d; cbn [raw off]; lia).
  pose proof (mcount_bytes bs ops bytes Hops Hs) as Hc.
  match goal with |- context [mset_loop (message_decode_with decompress ?n)] =>
    destruct (mset_loop_roundtrip n bs (norm_plain bs) (S (Z.to_nat (remaining d))) d MNil ops bytes
                (plain_rel n bs Hpl) ltac:(rewrite Hrem; lia) Hops Hs Hat Hrem Hlen) as (d' & E & M)
  end.
  exists d'. rewrite E. cbn [mapp]. destruct M as (_ & M2 & M3 & _). cbn [off mem d] in M2, M3. repeat split; lia.
Qed.

(* one level of compression: a wrapper message whose value is the encoding of a set of plain messages *)
Inductive wrapped_blocks : mblocks -> mblocks -> Prop :=
| wb_nil : wrapped_blocks MNil MNil
| wb_plain o codec la key value set version ts r r' :
    in_i64 o -> msg_ok (mkMsg codec la key value set version ts) -> codec = 0 -> wrapped_blocks r r' ->
    wrapped_blocks (MCons o (mkMsg codec la key value set version ts) r)
                   (MCons o (norm_msg (mkMsg codec la key value set version ts) None) r')
| wb_wrap o codec la key v set version ts inner p ov iops r r' :
    in_i64 o -> msg_ok (mkMsg codec la key (Some v) set version ts) -> codec <> 0 ->
    plain_blocks inner -> mset_ops compress (mkSet p ov inner) = inr iops -> spec_bytes iops = inr v -> len v < MAXLEN ->
    wrapped_blocks r r' ->
    wrapped_blocks (MCons o (mkMsg codec la key (Some v) set version ts) r)
                   (MCons o (norm_msg (mkMsg codec la key (Some v) set version ts) (Some (mkSet false false (norm_plain inner)))) r').

Definition nested_at (k : nat) : list Z -> dec -> res mset := fun buf d0 =>
  match mset_decode decompress k (mkDec buf 0 (mem d0) []) with
  | Ok s dn => Ok s (set_mem d0 (mem dn))
  | Err e dn => Err e (set_mem d0 (mem dn))
  | Panic w => Panic w
  | Alloc n => Alloc n
  end.

Lemma wrapped_rel k bs bs' : wrapped_blocks bs bs' -> blocks_rel (nested_at (S k)) bs bs'.
Proof.
  induction 1 as [|o codec la key value set version ts r r' Ho Hok Hc Hr IH
                  |o codec la key v set version ts inner p ov iops r r' Ho Hok Hc Hpl Hops Hs Hlen Hr IH].
  - constructor.
  - constructor; try assumption. subst codec. cbn [nested_for]. destruct value; reflexivity.
  - constructor; try assumption. cbn [nested_for]. replace (codec =? 0) with false by (symmetry; now apply Z.eqb_neq).
    eexists; split; [reflexivity|]. intros d0. unfold nested_at.
    destruct (mset_roundtrip_plain k p ov inner iops v (mem d0) Hpl Hops Hs Hlen) as (d' & E & _ & Em).
    rewrite E, Em. now rewrite set_mem_same.
Qed.

Theorem mset_roundtrip_wrapped k p ov bs bs' ops bytes m0 :
  wrapped_blocks bs bs' -> mset_ops compress (mkSet p ov bs) = inr ops -> spec_bytes ops = inr bytes -> len bytes < MAXLEN ->
  exists d', mset_decode decompress (S (S k)) (mkDec bytes 0 m0 []) = Ok (mkSet false false bs') d' /\
             off d' = len bytes /\ mem d' = m0.
Proof.
  intros Hw Hops Hs Hlen. cbn [mset_ops] in Hops.
  set (d := mkDec bytes 0 m0 []).
  assert (Hat : at_ d (bytes ++ [])) by (exists [], []; split; [cbn [raw app]; now rewrite !app_nil_r | reflexivity]).
  assert (Hrem : remaining d = len bytes) by (unfold remaining, d; cbn [raw off]; lia).
  pose proof (mcount_bytes bs ops bytes Hops Hs) as Hc.
  destruct (mset_loop_roundtrip (nested_at (S k)) bs bs' (S (Z.to_nat (remaining d))) d MNil ops bytes
              (wrapped_rel k bs bs' Hw) ltac:(rewrite Hrem; lia) Hops Hs Hat Hrem Hlen) as (d' & E & M).
  exists d'. change (mset_decode decompress (S (S k)) d) with
    (mset_loop (message_decode_with decompress (nested_at (S k))) (S (Z.to_nat (remaining d))) d MNil).
  rewrite E. cbn [mapp]. destruct M as (_ & M2 & M3 & _). cbn [off mem d] in M2, M3. repeat split; lia.
Qed.

(* Records (the magic-byte peek): a non-empty legacy set is recognised as such *)
Theorem top_roundtrip_mset k p ov o m r bs' ops bytes :
  wrapped_blocks (MCons o m r) bs' -> mset_ops compress (mkSet p ov (MCons o m r)) = inr ops -> spec_bytes ops = inr bytes ->
  len bytes < MAXLEN ->
  exists d', records_decode_top decompress (S (S k)) (mkDec bytes 0 0 []) = Ok (RLegacy (mkSet false false bs')) d' /\ off d' = len bytes.
Proof.
  intros Hw Hops Hs Hlen.
  destruct (mset_roundtrip_wrapped k p ov _ bs' ops bytes 0 Hw Hops Hs Hlen) as (d' & E & Ho & _).
  exists d'. split; [|exact Ho]. unfold records_decode_top.
  (* the peek sees the first message's magic byte *)
  cbn [mset_ops] in Hops. destruct (mblocks_ops_cons o m r ops bytes Hops Hs) as (mo & ro & bb & rb & Emo & Ero & Ebb & Erb & ->).
  assert (Hrel : blocks_rel (nested_at (S k)) (MCons o m r) bs') by (now apply wrapped_rel).
  inversion Hrel as [|? ? s ? r' Ho' Hok Hn Hr']; subst.
  set (d := mkDec (bb ++ rb) 0 0 []).
  assert (Hat : at_ d (bb ++ rb)) by (exists [], []; split; [cbn [raw app]; now rewrite app_nil_r | reflexivity]).
  destruct (block_roundtrip (nested_at (S k)) o m mo bb s d rb Ho' Hok Emo Ebb Hn Hat Hlen) as (d1 & _ & _ & Pk).
  rewrite Pk. cbn [bind]. destruct m as [codec la key value set version ts]. destruct Hok as (_ & Hv & _).
  replace (version <? 2) with true by (symmetry; apply Z.ltb_lt; destruct Hv as [->| ->]; lia).
  fold d in E. rewrite E. reflexivity.
Qed.
End Codec.
