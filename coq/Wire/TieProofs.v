(* Wire/TieProofs.v — the hand model of the realDecoder getters (Wire/Prim.v) agrees with the decisions
   regenerated from real_decoder.go on every run (decgen group C10, golden SV.Gen.DecC10):
     source =(go/decgen, every run)=> SVB.DecC10 =(Tie/DecEq_C10.v)= SV.Gen.DecC10 =(this file)= Wire.Prim.
   For a decoder state d with 0 <= off d <= len (raw d) (and len (raw d) < 2^63 where unsigned conversions occur) every
   lemma [c10_tie_<getter>] says: the model never panics, and it returns the same error class, the same new offset and
   the same value / byte range as the generated definition applied to off d, len (raw d) and what the buffer holds at
   off d (the big-endian word, binary.Uvarint's / binary.Varint's result on raw[off:]). *)
From Coq Require Import List ZArith Bool Lia String.
From SV Require Import Wire.Bytes Wire.Varint Wire.Crc Wire.Prim Wire.BytesProofs Wire.VarintProofs.
From SV Require Import Gen.GoInt Gen.DecTypes.
From SV Require Gen.DecC10.
Import ListNotations.
Open Scope Z_scope.
Module G := SV.Gen.DecC10.

(* the sarama error value each model error class stands for (identity of a package-level variable = its name) *)
Definition gerr_of (e : err) : gerr :=
  match e with
  | EInsufficient => EVar "ErrInsufficientData"%string
  | EInvalidArrayLength => EVar "errInvalidArrayLength"%string
  | EInvalidByteSliceLength => EVar "errInvalidByteSliceLength"%string
  | EInvalidStringLength => EVar "errInvalidStringLength"%string
  | EVarintOverflow => EVar "errVarintOverflow"%string
  | EUVarintOverflow => EVar "errUVarintOverflow"%string
  | EInvalidBool => EVar "errInvalidBool"%string
  | EUnsupportedTagged => EVar "errUnsupportedTaggedFields"%string
  | _ => EOther (err_id e)   (* not an error of the primitive layer *)
  end.
Lemma gerr_of_not_nil e : gerr_of e <> ENil. Proof. destruct e; discriminate. Qed.

(* model result vs generated (new offset, value, error) *)
Definition agrees {A B : Type} (val : A -> B -> Prop) (r : res A) (g : Z * B * gerr) : Prop :=
  match r with
  | Ok v d' => fst (fst g) = off d' /\ snd g = ENil /\ val v (snd (fst g))
  | Err e d' => fst (fst g) = off d' /\ snd g = gerr_of e
  | Panic _ | Alloc _ => False
  end.

Definition wf (d : dec) : Prop := 0 <= off d <= len (raw d).
Definition small (d : dec) : Prop := len (raw d) < two63.

(* what the buffer holds at off d *)
Definition word (n : Z) (conv : Z -> Z) (d : dec) : Z :=
  match read d n with Some bs => conv (ube bs) | None => 0 end.
Definition tail (d : dec) : list Z :=
  match slice (raw d) (off d) (len (raw d)) with Some b => b | None => [] end.
(* a byte range [a, b) of the buffer of d0 *)
Definition is_range (d0 : dec) (bs : list Z) (g : option (Z * Z)) : Prop :=
  match g with Some (a, b) => slice (raw d0) a b = Some bs | None => False end.
Definition is_orange (d0 : dec) (o : option (list Z)) (g : option (Z * Z)) : Prop :=
  match o with Some bs => is_range d0 bs g | None => g = None end.
(* getString / getCompactString: "" for the null length, else the bytes of the range *)
Definition is_string (d0 : dec) (s : list Z) (g : option (Z * Z)) : Prop :=
  match g with Some (a, b) => slice (raw d0) a b = Some s | None => s = [] end.

Ltac b2p := repeat match goal with
  | H : (_ <? _) = true |- _ => apply Z.ltb_lt in H
  | H : (_ <? _) = false |- _ => apply Z.ltb_ge in H
  | H : (_ <=? _) = true |- _ => apply Z.leb_le in H
  | H : (_ <=? _) = false |- _ => apply Z.leb_gt in H
  | H : (_ >? _) = true |- _ => rewrite Z.gtb_ltb in H
  | H : (_ >? _) = false |- _ => rewrite Z.gtb_ltb in H
  | H : (_ =? _) = true |- _ => apply Z.eqb_eq in H
  | H : (_ =? _) = false |- _ => apply Z.eqb_neq in H
  | H : (_ && _) = true |- _ => apply andb_true_iff in H; destruct H
  | H : (_ && _) = false |- _ => apply andb_false_iff in H; destruct H
  | H : (_ || _) = true |- _ => apply orb_true_iff in H; destruct H
  | H : (_ || _) = false |- _ => apply orb_false_iff in H; destruct H
  | H : negb _ = true |- _ => apply negb_true_iff in H
  | H : negb _ = false |- _ => apply negb_false_iff in H
  end.

Lemma slice_len l a b bs : slice l a b = Some bs -> len bs = b - a /\ 0 <= a <= b /\ b <= len l.
Proof.
  unfold slice. destruct ((0 <=? a) && (a <=? b) && (b <=? len l)) eqn:E; [|discriminate].
  intros H; inversion H; subst; clear H. b2p. unfold len in *. rewrite firstn_length, skipn_length. lia.
Qed.
Lemma slice_ok l a b : 0 <= a <= b -> b <= len l -> exists bs, slice l a b = Some bs.
Proof.
  intros. unfold slice. replace ((0 <=? a) && (a <=? b) && (b <=? len l)) with true; [eauto|].
  symmetry. rewrite !andb_true_iff, !Z.leb_le. lia.
Qed.

(* ------------------------------------------------------------------ fixed-width integers *)
Lemma tie_fixed n conv d (g : Z -> Z -> Z -> Z * Z * gerr) :
  0 <= n -> wf d ->
  (forall o l x, g o l x = if (l - o <? n) then (l, -1, EVar "ErrInsufficientData"%string) else (o + n, x, ENil)) ->
  agrees eq (get_fixed n conv d) (g (off d) (len (raw d)) (word n conv d)).
Proof.
  intros Hn [H0 H1] Hg. rewrite Hg. unfold get_fixed, word, Prim.remaining, read.
  destruct (len (raw d) - off d <? n) eqn:E; b2p; cbn; [auto|].
  destruct (slice_ok (raw d) (off d) (off d + n)) as [bs Hbs]; try lia. rewrite Hbs. cbn. auto.
Qed.
Lemma c10_tie_get_int8 d : wf d -> agrees eq (Prim.get_int8 d) (G.get_int8 (off d) (len (raw d)) (word 1 i8 d)).
Proof. intros; apply tie_fixed; [lia|assumption|reflexivity]. Qed.
Lemma c10_tie_get_int16 d : wf d -> agrees eq (Prim.get_int16 d) (G.get_int16 (off d) (len (raw d)) (word 2 i16 d)).
Proof. intros; apply tie_fixed; [lia|assumption|reflexivity]. Qed.
Lemma c10_tie_get_int32 d : wf d -> agrees eq (Prim.get_int32 d) (G.get_int32 (off d) (len (raw d)) (word 4 i32 d)).
Proof. intros; apply tie_fixed; [lia|assumption|reflexivity]. Qed.
Lemma c10_tie_get_int64 d : wf d -> agrees eq (Prim.get_int64 d) (G.get_int64 (off d) (len (raw d)) (word 8 i64 d)).
Proof. intros; apply tie_fixed; [lia|assumption|reflexivity]. Qed.

(* ------------------------------------------------------------------ varints *)
Lemma tail_slice d : wf d -> slice (raw d) (off d) (len (raw d)) = Some (tail d) /\ len (tail d) = len (raw d) - off d.
Proof.
  intros [H0 H1]. unfold tail. destruct (slice_ok (raw d) (off d) (len (raw d))) as [bs Hbs]; try lia.
  rewrite Hbs. split; [reflexivity|]. apply slice_len in Hbs. lia.
Qed.

Lemma c10_tie_get_uvarint d : wf d ->
  agrees eq (Prim.get_uvarint d) (G.get_uvarint (off d) (len (raw d)) (fst (uvarint (tail d))) (snd (uvarint (tail d)))).
Proof.
  intros H. destruct (tail_slice d H) as [Hs _]. unfold Prim.get_uvarint, G.get_uvarint. rewrite Hs.
  destruct (uvarint (tail d)) as [x n]. cbn [fst snd].
  destruct (n =? 0) eqn:E0; [cbn; auto|]. destruct (n <? 0) eqn:E1; cbn; auto.
Qed.
Lemma c10_tie_get_varint d : wf d ->
  agrees eq (Prim.get_varint d) (G.get_varint (off d) (len (raw d)) (fst (varint (tail d))) (snd (varint (tail d)))).
Proof.
  intros H. destruct (tail_slice d H) as [Hs _]. unfold Prim.get_varint, G.get_varint. rewrite Hs.
  destruct (varint (tail d)) as [x n]. cbn [fst snd].
  destruct (n =? 0) eqn:E0; [cbn; auto|]. destruct (n <? 0) eqn:E1; cbn; auto.
Qed.

(* after a successful getUVarint / getVarint the offset is still inside the buffer and the value is a uint64 / int64 *)
Lemma get_uvarint_ok d v d' : wf d -> Prim.get_uvarint d = Ok v d' ->
  wf d' /\ raw d' = raw d /\ in_u64 v /\ v = fst (uvarint (tail d)) /\ off d' = off d + snd (uvarint (tail d)) /\ 0 < snd (uvarint (tail d)).
Proof.
  intros H. destruct (tail_slice d H) as [Hs Hl]. unfold Prim.get_uvarint. rewrite Hs.
  pose proof (uvarint_bounds (tail d)) as Hb. destruct (uvarint (tail d)) as [x n]. cbn [fst snd]. destruct Hb as [Hx Hn].
  destruct (n =? 0) eqn:E0; [discriminate|]. destruct (n <? 0) eqn:E1; [discriminate|]. b2p.
  intros E; inversion E; subst; clear E. unfold wf in *; cbn. repeat split; try assumption; try (unfold in_u64 in *; lia).
Qed.
Lemma get_varint_ok d v d' : wf d -> Prim.get_varint d = Ok v d' ->
  wf d' /\ raw d' = raw d /\ in_i64 v /\ v = fst (varint (tail d)) /\ off d' = off d + snd (varint (tail d)) /\ 0 < snd (varint (tail d)).
Proof.
  intros H. destruct (tail_slice d H) as [Hs Hl]. unfold Prim.get_varint. rewrite Hs.
  pose proof (varint_bounds (tail d)) as Hb. destruct (varint (tail d)) as [x n]. cbn [fst snd]. destruct Hb as [Hx Hn].
  destruct (n =? 0) eqn:E0; [discriminate|]. destruct (n <? 0) eqn:E1; [discriminate|]. b2p.
  intros E; inversion E; subst; clear E. unfold wf in *; cbn. repeat split; try assumption; try (unfold in_i64 in *; lia).
Qed.

(* ------------------------------------------------------------------ lengths, bool, tagged fields *)
Lemma c10_tie_get_array_length d : wf d ->
  agrees eq (Prim.get_array_length d) (G.get_array_length (off d) (len (raw d)) (word 4 i32 d)).
Proof.
  intros [H0 H1]. unfold Prim.get_array_length, G.get_array_length, G.remaining, Prim.remaining, word, read, MAX_ARRAY.
  destruct (len (raw d) - off d <? 4) eqn:E; b2p; cbn; [auto|].
  destruct (slice_ok (raw d) (off d) (off d + 4)) as [bs Hbs]; try lia. rewrite Hbs. cbn.
  set (tmp := i32 (ube bs)). rewrite Z.gtb_ltb.
  destruct (len (raw d) - (off d + 4) <? tmp) eqn:E1; cbn; [auto|].
  rewrite Z.gtb_ltb. destruct ((131070 <? tmp) || (tmp <? -1)) eqn:E2; cbn; auto.
Qed.

Lemma u64_small x : 0 <= x < two64 -> u64 x = x.
Proof. intros; unfold u64; apply Z.mod_small; assumption. Qed.
Lemma uwrap64_u64 x : uwrap64 x = u64 x. Proof. reflexivity. Qed.
Lemma wrap64_i64 x : wrap64 x = i64 x. Proof. reflexivity. Qed.

Lemma c10_tie_get_compact_array_length d : wf d -> small d ->
  agrees eq (Prim.get_compact_array_length d)
            (G.get_compact_array_length (off d) (len (raw d)) (fst (uvarint (tail d))) (snd (uvarint (tail d)))).
Proof.
  intros H Hsm. pose proof (c10_tie_get_uvarint d H) as T. pose proof (get_uvarint_ok d) as K.
  unfold Prim.get_compact_array_length, G.get_compact_array_length.
  destruct (Prim.get_uvarint d) as [v d'| e d' | |] eqn:E; cbn [bind]; try contradiction.
  - destruct (K v d' H eq_refl) as (Hw & Hr & Hv & _). clear K.
    destruct (G.get_uvarint _ _ _ _) as [[o x] ge]. cbn in T. destruct T as (To & Te & Tv). subst o ge x. cbn [fst snd gerr_eqb negb].
    destruct (v =? 0) eqn:E0; [cbn; auto|]. b2p.
    unfold G.remaining, Prim.remaining. change uwrap64 with u64. change wrap64 with i64. rewrite Z.gtb_ltb, Hr.
    unfold wf, small, in_u64 in *. rewrite (u64_small (len (raw d) - off d')) by (rewrite Hr in Hw; unfold two63, two64 in *; lia).
    destruct (len (raw d) - off d' <? u64 (v - 1)) eqn:E1; cbn; rewrite ?Hr; auto.
  - destruct (G.get_uvarint _ _ _ _) as [[o x] ge]. cbn in T. destruct T as (To & Te). subst o ge. cbn [fst snd].
    destruct (gerr_of e) eqn:Eg; try (cbn; rewrite <- ?Eg; auto; fail). exfalso; exact (gerr_of_not_nil _ Eg).
Qed.

Lemma gerr_of_eqb e : gerr_eqb (gerr_of e) ENil = false.
Proof. destruct e; reflexivity. Qed.

(* a callee's tie [T], used inside a caller: split into the Ok and the Err case *)
Ltac callee T E :=
  let o := fresh "o" in let x := fresh "x" in let ge := fresh "ge" in
  let To := fresh "To" in let Te := fresh "Te" in let Tv := fresh "Tv" in
  match type of T with
  | agrees _ ?r ?g =>
    revert T; destruct r as [?v ?d' | ?e ?d' | |] eqn:E; intros T; cbn [agrees] in T; try contradiction; cbn [bind];
    destruct g as [[o x] ge]; cbn [agrees fst snd] in T;
    [ destruct T as (To & Te & Tv); subst o ge; cbn [fst snd gerr_eqb negb]
    | destruct T as (To & Te); subst o ge; cbn [fst snd]; rewrite ?gerr_of_eqb; cbn [negb orb fst snd agrees]; auto ]
  end.

Lemma get_fixed_ok n conv d v d' : 0 <= n -> wf d -> get_fixed n conv d = Ok v d' ->
  wf d' /\ raw d' = raw d /\ off d' = off d + n /\ v = word n conv d.
Proof.
  intros Hn [H0 H1]. unfold get_fixed, word, Prim.remaining, read.
  destruct (len (raw d) - off d <? n) eqn:E; [discriminate|]. b2p.
  destruct (slice (raw d) (off d) (off d + n)); [|discriminate]. intros K; inversion K; subst; clear K.
  unfold wf; cbn. repeat split; lia.
Qed.

Lemma c10_tie_get_bool d : wf d ->
  agrees eq (Prim.get_bool d) (G.get_bool (off d) (len (raw d)) (word 1 i8 d)).
Proof.
  intros H. pose proof (c10_tie_get_int8 d H) as T. unfold Prim.get_bool, G.get_bool.
  callee T E. subst x. destruct (v =? 0) eqn:E0; cbn; [auto|]. destruct (v =? 1) eqn:E1; cbn; auto.
Qed.

Lemma c10_tie_get_empty_tagged d : wf d ->
  agrees eq (Prim.get_empty_tagged d)
            (G.get_empty_tagged_field_array (off d) (len (raw d)) (fst (uvarint (tail d))) (snd (uvarint (tail d)))).
Proof.
  intros H. pose proof (c10_tie_get_uvarint d H) as T. unfold Prim.get_empty_tagged, G.get_empty_tagged_field_array.
  callee T E. subst x. destruct (v =? 0) eqn:E0; cbn; auto.
Qed.

(* ------------------------------------------------------------------ byte strings *)
Lemma c10_tie_get_raw_bytes length d : wf d ->
  agrees (is_range d) (Prim.get_raw_bytes length d) (G.get_raw_bytes (off d) length (len (raw d))).
Proof.
  intros [H0 H1]. unfold Prim.get_raw_bytes, G.get_raw_bytes, G.remaining, Prim.remaining, read.
  destruct (length <? 0) eqn:E0; cbn; [auto|]. rewrite Z.gtb_ltb.
  destruct (len (raw d) - off d <? length) eqn:E1; cbn; [auto|]. b2p.
  destruct (slice_ok (raw d) (off d) (off d + length)) as [bs Hbs]; try lia. rewrite Hbs. cbn. auto.
Qed.
Lemma get_raw_bytes_ok length d bs d' : wf d -> Prim.get_raw_bytes length d = Ok bs d' ->
  wf d' /\ raw d' = raw d /\ off d' = off d + length /\ 0 <= length.
Proof.
  intros [H0 H1]. unfold Prim.get_raw_bytes, Prim.remaining, read.
  destruct (length <? 0) eqn:E0; [discriminate|]. destruct (len (raw d) - off d <? length) eqn:E1; [discriminate|]. b2p.
  destruct (slice (raw d) (off d) (off d + length)); [|discriminate]. intros K; inversion K; subst; clear K.
  unfold wf; cbn. repeat split; lia.
Qed.

(* getRawBytes as the last step of a caller: Some bs / the range *)
Lemma tail_raw_bytes d0 length d : wf d -> raw d = raw d0 ->
  agrees (is_orange d0) (let* (bs, d) := Prim.get_raw_bytes length d in Ok (Some bs) d)
         (G.get_raw_bytes (off d) length (len (raw d0))).
Proof.
  intros H Hr. pose proof (c10_tie_get_raw_bytes length d H) as T. rewrite Hr in T.
  destruct (Prim.get_raw_bytes length d) eqn:E; cbn [bind]; try contradiction;
  destruct (G.get_raw_bytes _ _ _) as [[o x] ge]; cbn in *; intuition.
  unfold is_range in *. rewrite <- Hr. assumption.
Qed.

Lemma c10_tie_get_bytes d : wf d ->
  agrees (is_orange d) (Prim.get_bytes d) (G.get_bytes (off d) (len (raw d)) (word 4 i32 d)).
Proof.
  intros H. pose proof (c10_tie_get_int32 d H) as T. pose proof (get_fixed_ok 4 i32 d) as K.
  unfold Prim.get_bytes, G.get_bytes. unfold Prim.get_int32 in *.
  callee T E. subst x. destruct (K v d' ltac:(lia) H eq_refl) as (Hw & Hr & _). clear K.
  destruct (v =? -1) eqn:E0; [cbn; auto|].
  pose proof (tail_raw_bytes d v d' Hw Hr) as R.
  destruct (G.get_raw_bytes (off d') v (len (raw d))) as [[o x] ge]. exact R.
Qed.

Lemma c10_tie_get_varint_bytes d : wf d ->
  agrees (is_orange d) (Prim.get_varint_bytes d)
         (G.get_varint_bytes (off d) (len (raw d)) (fst (varint (tail d))) (snd (varint (tail d)))).
Proof.
  intros H. pose proof (c10_tie_get_varint d H) as T. pose proof (get_varint_ok d) as K.
  unfold Prim.get_varint_bytes, G.get_varint_bytes.
  callee T E. subst x. destruct (K v d' H eq_refl) as (Hw & Hr & _). clear K.
  destruct (v =? -1) eqn:E0; [cbn; auto|].
  pose proof (tail_raw_bytes d v d' Hw Hr) as R.
  destruct (G.get_raw_bytes (off d') v (len (raw d))) as [[o x] ge]. exact R.
Qed.

Lemma c10_tie_get_compact_bytes d : wf d ->
  agrees (is_orange d) (Prim.get_compact_bytes d)
         (G.get_compact_bytes (off d) (len (raw d)) (fst (uvarint (tail d))) (snd (uvarint (tail d)))).
Proof.
  intros H. pose proof (c10_tie_get_uvarint d H) as T. pose proof (get_uvarint_ok d) as K.
  unfold Prim.get_compact_bytes, G.get_compact_bytes.
  callee T E. subst x. destruct (K v d' H eq_refl) as (Hw & Hr & _). clear K.
  change uwrap64 with u64. change wrap64 with i64.
  assert (Hc : i64 (u64 (v - 1)) = i64 (v - 1)).
  { unfold i64, u64, two63, two64. rewrite Zplus_mod_idemp_l. reflexivity. }
  rewrite Hc. pose proof (tail_raw_bytes d (i64 (v - 1)) d' Hw Hr) as R.
  destruct (G.get_raw_bytes (off d') (i64 (v - 1)) (len (raw d))) as [[o x] ge]. exact R.
Qed.

(* ------------------------------------------------------------------ strings *)
Lemma c10_tie_get_string_length d : wf d ->
  agrees eq (Prim.get_string_length d) (G.get_string_length (off d) (len (raw d)) (word 2 i16 d)).
Proof.
  intros H. pose proof (c10_tie_get_int16 d H) as T. pose proof (get_fixed_ok 2 i16 d) as K.
  unfold Prim.get_string_length, G.get_string_length. unfold Prim.get_int16 in *.
  callee T E. subst x. destruct (K v d' ltac:(lia) H eq_refl) as (Hw & Hr & _). clear K.
  unfold G.remaining, Prim.remaining. rewrite Hr.
  destruct (v <? -1) eqn:E0; [cbn; auto|]. rewrite Z.gtb_ltb.
  destruct (len (raw d) - off d' <? v) eqn:E1; cbn; rewrite ?Hr; auto.
Qed.
Lemma get_string_length_ok d n d' : wf d -> Prim.get_string_length d = Ok n d' ->
  wf d' /\ raw d' = raw d /\ -1 <= n <= len (raw d) - off d'.
Proof.
  intros H. pose proof (get_fixed_ok 2 i16 d) as K. unfold Prim.get_string_length, Prim.get_int16.
  destruct (get_fixed 2 i16 d) as [v d1| | |] eqn:E; cbn [bind]; try discriminate.
  destruct (K v d1 ltac:(lia) H eq_refl) as (Hw & Hr & _). clear K. unfold Prim.remaining. rewrite Hr.
  destruct (v <? -1) eqn:E0; [discriminate|]. destruct (len (raw d) - off d1 <? v) eqn:E1; [discriminate|]. b2p.
  intros Q; inversion Q; subst; clear Q. split; [assumption|]. split; [assumption|]. lia.
Qed.

(* take_string n at a state with room for n bytes *)
Lemma take_string_at n d : wf d -> 0 <= n <= len (raw d) - off d ->
  exists s, take_string n d = Ok s (alloc (adv d n) n) /\ slice (raw d) (off d) (off d + n) = Some s.
Proof.
  intros [H0 H1] Hn. unfold take_string, read.
  destruct (slice_ok (raw d) (off d) (off d + n)) as [bs Hbs]; try lia. rewrite Hbs. eauto.
Qed.

Lemma c10_tie_get_string d : wf d ->
  agrees (is_string d) (Prim.get_string d) (G.get_string (off d) (len (raw d)) (word 2 i16 d)).
Proof.
  intros H. pose proof (c10_tie_get_string_length d H) as T. pose proof (get_string_length_ok d) as K.
  unfold Prim.get_string, G.get_string.
  callee T E. subst x. destruct (K v d' H eq_refl) as (Hw & Hr & Hv). clear K.
  destruct (v =? -1) eqn:E0; [cbn; auto|]. b2p.
  destruct (take_string_at v d' Hw) as (s & Hs & Hsl); [rewrite Hr; lia|]. rewrite Hs. cbn. rewrite <- Hr. auto.
Qed.
Lemma c10_tie_get_nullable_string d : wf d ->
  agrees (is_orange d) (Prim.get_nullable_string d) (G.get_nullable_string (off d) (len (raw d)) (word 2 i16 d)).
Proof.
  intros H. pose proof (c10_tie_get_string_length d H) as T. pose proof (get_string_length_ok d) as K.
  unfold Prim.get_nullable_string, G.get_nullable_string.
  callee T E. subst x. destruct (K v d' H eq_refl) as (Hw & Hr & Hv). clear K.
  destruct (v =? -1) eqn:E0; [cbn; auto|]. b2p.
  destruct (take_string_at v d' Hw) as (s & Hs & Hsl); [rewrite Hr; lia|]. rewrite Hs. cbn. rewrite <- Hr. auto.
Qed.

Lemma c10_tie_get_compact_string d : wf d ->
  agrees (is_string d) (Prim.get_compact_string d)
         (G.get_compact_string (off d) (len (raw d)) (fst (uvarint (tail d))) (snd (uvarint (tail d)))).
Proof.
  intros H. pose proof (c10_tie_get_uvarint d H) as T. pose proof (get_uvarint_ok d) as K.
  unfold Prim.get_compact_string, G.get_compact_string.
  callee T E. subst x. destruct (K v d' H eq_refl) as (Hw & Hr & _). clear K.
  change uwrap64 with u64. change wrap64 with i64.
  assert (Hc : i64 (u64 (v - 1)) = i64 (v - 1)).
  { unfold i64, u64, two63, two64. rewrite Zplus_mod_idemp_l. reflexivity. }
  rewrite Hc. set (n := i64 (v - 1)). unfold G.remaining, Prim.remaining. rewrite Hr.
  destruct (n <? 0) eqn:E0; [cbn; auto|]. rewrite Z.gtb_ltb.
  destruct (len (raw d) - off d' <? n) eqn:E1; [cbn; rewrite ?Hr; auto|]. b2p.
  destruct (take_string_at n d' Hw) as (s & Hs & Hsl); [rewrite Hr; lia|]. rewrite Hs. cbn. rewrite <- Hr. auto.
Qed.
Lemma c10_tie_get_compact_nullable_string d : wf d ->
  agrees (is_orange d) (Prim.get_compact_nullable_string d)
         (G.get_compact_nullable_string (off d) (len (raw d)) (fst (uvarint (tail d))) (snd (uvarint (tail d)))).
Proof.
  intros H. pose proof (c10_tie_get_uvarint d H) as T. pose proof (get_uvarint_ok d) as K.
  unfold Prim.get_compact_nullable_string, G.get_compact_nullable_string.
  callee T E. subst x. destruct (K v d' H eq_refl) as (Hw & Hr & _). clear K.
  change uwrap64 with u64. change wrap64 with i64.
  assert (Hc : i64 (u64 (v - 1)) = i64 (v - 1)).
  { unfold i64, u64, two63, two64. rewrite Zplus_mod_idemp_l. reflexivity. }
  rewrite Hc. set (n := i64 (v - 1)). unfold G.remaining, Prim.remaining. rewrite Hr.
  destruct (n <? 0) eqn:E0; [cbn; auto|]. rewrite Z.gtb_ltb.
  destruct (len (raw d) - off d' <? n) eqn:E1; [cbn; rewrite ?Hr; auto|]. b2p.
  destruct (take_string_at n d' Hw) as (s & Hs & Hsl); [rewrite Hr; lia|]. rewrite Hs. cbn. rewrite <- Hr. auto.
Qed.

(* ------------------------------------------------------------------ subsets and peeks *)
Lemma c10_tie_get_subset length d : wf d ->
  agrees (fun sub g => is_range d (raw sub) g /\ off sub = 0) (Prim.get_subset length d) (G.get_subset (off d) length (len (raw d))).
Proof.
  intros H. pose proof (c10_tie_get_raw_bytes length d H) as T. unfold Prim.get_subset, G.get_subset.
  callee T E. cbn. auto.
Qed.

(* peek / peekInt8 leave the offset where it is; offset and length come from the caller (not from the wire) *)
Lemma c10_tie_peek offset length d : wf d -> 0 <= offset -> 0 <= length ->
  match Prim.peek offset length d, G.peek offset length (off d) (len (raw d)) with
  | Ok bs d', (g, e) => d' = d /\ e = ENil /\ is_range d bs g
  | Err e d', (_, ge) => d' = d /\ ge = gerr_of e
  | _, _ => False
  end.
Proof.
  intros [H0 H1] Ho Hl. unfold Prim.peek, G.peek, G.remaining, Prim.remaining.
  destruct (len (raw d) - off d <? offset + length) eqn:E; [cbn; auto|]. b2p.
  destruct (slice_ok (raw d) (off d + offset) (off d + offset + length)) as [bs Hbs]; try lia. rewrite Hbs. cbn. auto.
Qed.
Lemma c10_tie_peek_int8 offset d : wf d -> 0 <= offset ->
  match Prim.peek_int8 offset d, G.peek_int8 offset (off d) (len (raw d)) with
  | Ok _ d', ExFall => d' = d
  | Err e d', ExReturn (_, ge) => d' = d /\ ge = gerr_of e
  | _, _ => False
  end.
Proof.
  intros [H0 H1] Ho. unfold Prim.peek_int8, G.peek_int8, G.remaining, Prim.remaining, byte_at.
  destruct (len (raw d) - off d <? offset + 1) eqn:E; [cbn; auto|]. b2p.
  replace ((0 <=? off d + offset) && (off d + offset <? len (raw d))) with true; [reflexivity|].
  symmetry. rewrite andb_true_iff, Z.leb_le, Z.ltb_lt. lia.
Qed.

(* ------------------------------------------------------------------ array heads (count field and its checks) *)
Definition head_agrees {A} (r : res (option A)) (rest : Z -> Z -> res (option A)) (h : Z * Z * exit (unit * gerr)) : Prop :=
  match h with
  | (o, n, ExReturn (_, ge)) =>
      match r with
      | Ok None d' => ge = ENil /\ off d' = o
      | Err e d' => ge = gerr_of e /\ off d' = o
      | _ => False
      end
  | (o, n, ExFall) => 0 < n /\ r = rest o n
  | _ => False
  end.

Lemma tie_int_array_head w conv d (g : Z -> Z -> Z -> Z * Z * exit (unit * gerr)) : wf d ->
  (forall o l x, g o l x =
     if (l - o <? 4) then (l, 0, ExReturn (tt, EVar "ErrInsufficientData"%string))
     else if (l - (o + 4) <? w * x) then (l, x, ExReturn (tt, EVar "ErrInsufficientData"%string))
     else if (x =? 0) then (o + 4, x, ExReturn (tt, ENil))
     else if (x <? 0) then (o + 4, x, ExReturn (tt, EVar "errInvalidArrayLength"%string))
     else (o + 4, x, ExFall)) ->
  head_agrees (get_int_array w conv d)
    (fun o n => let* (l, d1) := read_ints w conv (Z.to_nat n) (alloc (set_off d o) (w * n)) in Ok (Some l) d1)
    (g (off d) (len (raw d)) (word 4 (fun x => x) d)).
Proof.
  intros [H0 H1] Hg. rewrite Hg. unfold get_int_array, word, Prim.remaining, read.
  destruct (len (raw d) - off d <? 4) eqn:E; b2p; [cbn; auto|].
  destruct (slice_ok (raw d) (off d) (off d + 4)) as [bs Hbs]; try lia. rewrite Hbs. cbn [adv set_off raw off].
  set (n := ube bs).
  destruct (len (raw d) - (off d + 4) <? w * n) eqn:E1; [cbn; auto|].
  destruct (n =? 0) eqn:E2; [cbn; auto|]. destruct (n <? 0) eqn:E3; [cbn; auto|]. b2p.
  cbn. split; [lia|reflexivity].
Qed.
Lemma c10_tie_int32_array_head d : wf d ->
  head_agrees (get_int32_array d)
    (fun o n => let* (l, d1) := read_ints 4 i32 (Z.to_nat n) (alloc (set_off d o) (4 * n)) in Ok (Some l) d1)
    (G.int32_array_head (off d) (len (raw d)) (word 4 (fun x => x) d)).
Proof. intros; apply tie_int_array_head; [assumption|reflexivity]. Qed.
Lemma c10_tie_int64_array_head d : wf d ->
  head_agrees (get_int64_array d)
    (fun o n => let* (l, d1) := read_ints 8 i64 (Z.to_nat n) (alloc (set_off d o) (8 * n)) in Ok (Some l) d1)
    (G.int64_array_head (off d) (len (raw d)) (word 4 (fun x => x) d)).
Proof. intros; apply tie_int_array_head; [assumption|reflexivity]. Qed.
Lemma c10_tie_string_array_head d : wf d ->
  head_agrees (get_string_array d)
    (fun o n => let* (l, d1) := read_strings (Z.to_nat n) (alloc (set_off d o) (STRING_HEADER * n)) in Ok (Some l) d1)
    (G.string_array_head (off d) (len (raw d)) (word 4 (fun x => x) d)).
Proof.
  intros [H0 H1]. unfold G.string_array_head, G.remaining, get_string_array, word, Prim.remaining, read.
  destruct (len (raw d) - off d <? 4) eqn:E; b2p; [cbn; auto|].
  destruct (slice_ok (raw d) (off d) (off d + 4)) as [bs Hbs]; try lia. rewrite Hbs. cbn [adv set_off raw off].
  set (n := ube bs).
  destruct (len (raw d) - (off d + 4) <? 2 * n) eqn:E1; [cbn; auto|].
  destruct (n =? 0) eqn:E2; [cbn; auto|]. destruct (n <? 0) eqn:E3; [cbn; auto|]. b2p.
  cbn. split; [lia|reflexivity].
Qed.

Lemma get_uvarint_adv d v d' : wf d -> Prim.get_uvarint d = Ok v d' -> d' = adv d (snd (uvarint (tail d))).
Proof.
  intros H. destruct (tail_slice d H) as [Hs _]. unfold Prim.get_uvarint. rewrite Hs.
  destruct (uvarint (tail d)) as [x n]. cbn [fst snd].
  destruct (n =? 0); [discriminate|]. destruct (n <? 0); [discriminate|]. intros E; inversion E; reflexivity.
Qed.

Lemma c10_tie_compact_int32_array_head d : wf d -> small d ->
  match G.compact_int32_array_head (off d) (len (raw d)) (fst (uvarint (tail d))) (snd (uvarint (tail d))) with
  | (o, k, ExReturn (_, ge)) =>
      match get_compact_int32_array d with
      | Ok None d' => ge = ENil /\ off d' = o
      | Err e d' => ge = gerr_of e /\ off d' = o
      | _ => False
      end
  | (o, k, ExFall) => 0 <= k /\ get_compact_int32_array d =
      (let* (l, d1) := read_ints 4 i32 (Z.to_nat k) (alloc (set_off d o) (4 * k)) in Ok (Some l) d1)
  | _ => False
  end.
Proof.
  intros H Hsm. pose proof (c10_tie_get_uvarint d H) as T. pose proof (get_uvarint_ok d) as K. pose proof (get_uvarint_adv d) as A.
  unfold get_compact_int32_array, G.compact_int32_array_head.
  callee T E.
  subst x. destruct (K v d' H eq_refl) as (Hw & Hr & Hv & _). specialize (A v d' H eq_refl). clear K.
    destruct (v =? 0) eqn:E0; [cbn; auto|]. b2p.
    unfold G.remaining, Prim.remaining. change uwrap64 with u64. change wrap64 with i64. rewrite Z.gtb_ltb, Hr.
    unfold wf, small, in_u64 in *. rewrite Hr in Hw.
    assert (Hq : Z.quot (len (raw d) - off d') 4 = (len (raw d) - off d') / 4) by (apply Z.quot_div_nonneg; lia).
    rewrite Hq. assert (Hd : 0 <= (len (raw d) - off d') / 4 < two63) by (unfold two63 in *; split; [apply Z.div_pos; lia | apply Z.div_lt_upper_bound; lia]).
    rewrite (u64_small ((len (raw d) - off d') / 4)) by (unfold two63, two64 in *; lia).
    destruct ((len (raw d) - off d') / 4 <? u64 (v - 1)) eqn:E1; [cbn; rewrite ?Hr; auto|]. b2p.
    assert (Hu : u64 (v - 1) = v - 1) by (apply u64_small; unfold two64 in *; lia). rewrite Hu in E1.
    assert (Hi : i64 v = v) by (unfold i64, two63, two64 in *; rewrite Z.mod_small; lia).
    rewrite Hi. cbn [fst snd]. split; [lia|]. rewrite A. unfold adv, set_off, alloc. cbn. reflexivity.
Qed.
