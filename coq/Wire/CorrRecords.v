(* Wire/CorrRecords.v — correspondence functions for the records layer.  The harness (go/harness/cmd/c09prim,
   c10prim, shim go/shims/wire1_records.go) encodes / decodes Record, recordsArray, RecordBatch, MessageSet, Records,
   ControlRecord, response and request headers with sarama's own code and writes values, bytes and outcomes.
   Compression is not modelled: a case carries the table of (codec, input, output) pairs of the compress /
   decompress calls that its encoding / decoding involves, as computed by sarama's compress / decompress. *)
From Coq Require Import List ZArith Bool.
From SV Require Import Base.Corr Wire.Bytes Wire.Varint Wire.Crc Wire.Prim Wire.PushPop Wire.CorrPrim Wire.Records.
Import ListNotations.
Open Scope Z_scope.

Definition tbl := list (Z * list Z * option (list Z)).
Fixpoint tlookup (t : tbl) (codec : Z) (x : list Z) : option (list Z) :=
  match t with
  | [] => None
  | (c, i, o) :: r => if (c =? codec) && lz_eqb i x then o else tlookup r codec x
  end.

(* ------------------------------------------------------------------ equality on values *)
Definition header_eqb (a b : header) := obytes_eqb (h_key a) (h_key b) && obytes_eqb (h_value a) (h_value b).
Definition record_eqb (a b : record) :=
  (r_attrs a =? r_attrs b) && (r_tsdelta a =? r_tsdelta b) && (r_offdelta a =? r_offdelta b) &&
  obytes_eqb (r_key a) (r_key b) && obytes_eqb (r_value a) (r_value b) &&
  option_eqb (list_eqb header_eqb) (r_headers a) (r_headers b).
Definition batch_eqb (a b : batch) :=
  (b_first_offset a =? b_first_offset b) && (b_leader_epoch a =? b_leader_epoch b) && (b_version a =? b_version b) &&
  (b_codec a =? b_codec b) && Bool.eqb (b_control a) (b_control b) && Bool.eqb (b_logappend a) (b_logappend b) &&
  (b_last_offset_delta a =? b_last_offset_delta b) && (b_first_ts a =? b_first_ts b) && (b_max_ts a =? b_max_ts b) &&
  (b_producer_id a =? b_producer_id b) && (b_producer_epoch a =? b_producer_epoch b) && (b_first_seq a =? b_first_seq b) &&
  option_eqb (list_eqb record_eqb) (b_records a) (b_records b) &&
  Bool.eqb (b_partial a) (b_partial b) && Bool.eqb (b_transactional a) (b_transactional b).

Fixpoint message_eqb (a b : message) {struct a} : bool :=
  let '(mkMsg c1 l1 k1 v1 s1 ver1 t1) := a in
  let '(mkMsg c2 l2 k2 v2 s2 ver2 t2) := b in
  (c1 =? c2) && Bool.eqb l1 l2 && obytes_eqb k1 k2 && obytes_eqb v1 v2 && (ver1 =? ver2) && (t1 =? t2) &&
  match s1, s2 with
  | None, None => true
  | Some x, Some y => mset_eqb x y
  | _, _ => false
  end
with mset_eqb (a b : mset) {struct a} : bool :=
  let '(mkSet p1 o1 m1) := a in
  let '(mkSet p2 o2 m2) := b in
  Bool.eqb p1 p2 && Bool.eqb o1 o2 && mblocks_eqb m1 m2
with mblocks_eqb (a b : mblocks) {struct a} : bool :=
  match a, b with
  | MNil, MNil => true
  | MCons o1 m1 r1, MCons o2 m2 r2 => (o1 =? o2) && message_eqb m1 m2 && mblocks_eqb r1 r2
  | _, _ => false
  end.
Definition records_eqb (a b : records) :=
  match a, b with
  | RLegacy x, RLegacy y => mset_eqb x y
  | RDefault x, RDefault y => batch_eqb x y
  | _, _ => false
  end.
Definition zz_eqb (a b : Z * Z) := (fst a =? fst b) && (snd a =? snd b).
Definition fblock_eqb (a b : fblock) :=
  (fb_err a =? fb_err b) && (fb_hwm a =? fb_hwm b) && (fb_lso a =? fb_lso b) && (fb_log_start a =? fb_log_start b) &&
  option_eqb (list_eqb zz_eqb) (fb_aborted a) (fb_aborted b) && (fb_replica a =? fb_replica b) &&
  option_eqb records_eqb (fb_records a) (fb_records b) && list_eqb records_eqb (fb_set a) (fb_set b) &&
  Bool.eqb (fb_partial a) (fb_partial b).
Definition crtype_eqb (a b : crtype) :=
  match a, b with CRAbort, CRAbort | CRCommit, CRCommit | CRUnknown, CRUnknown => true | _, _ => false end.
Definition control_eqb (a b : control_record) :=
  (cr_version a =? cr_version b) && (cr_epoch a =? cr_epoch b) && crtype_eqb (cr_type a) (cr_type b).

(* ------------------------------------------------------------------ encoder cases *)
Inductive lval :=
| LRecord (r : record) | LRecords (rs : list record) | LBatch (b : batch) | LMset (s : mset) | LTop (r : records)
| LControlKey (c : control_record) | LControlValue (c : control_record)
| LRespHeader (version length corr : Z)
| LRequest (hv key version corr : Z) (client_id : list Z) (body : list Z)
| LFBlock (version : Z) (b : fblock).

Definition lval_ops (t : tbl) (v : lval) : eerr + eops :=
  match v with
  | LRecord r => inr (record_ops r ENil)
  | LRecords rs => inr (records_ops rs)
  | LBatch b => batch_ops (tlookup t) b
  | LMset s => mset_ops (tlookup t) s
  | LTop r => records_ops_top (tlookup t) r
  | LControlKey c => inr (control_key_ops c)
  | LControlValue c => inr (control_value_ops c)
  | LRespHeader v l c => inr (response_header_ops v l c)
  | LRequest hv k v c cid body => inr (request_ops hv k v c cid (ECons (PRawBytes (Some body)) ENil))
  | LFBlock v b => fblock_ops (tlookup t) v b
  end.

Record ecase2 := {
  e2_val : lval; e2_tab : tbl;
  e2_status : Z; e2_prep : Z; e2_bytes : list Z }.

Definition ok_enc2 (c : ecase2) : bool :=
  match lval_ops (e2_tab c) (e2_val c) with
  | inl e => e2_status c =? eerr_id e
  | inr ops => ok_enc {| ec_ops := ops; ec_status := e2_status c; ec_prep := e2_prep c; ec_bytes := e2_bytes c |}
  end.
Definition mismatches_enc2 := mismatches ok_enc2.

(* ------------------------------------------------------------------ decoder cases *)
Inductive dkind :=
| KRecord | KRecords (n : Z) | KBatch | KMset | KTop
| KControl (value : list Z) | KRespHeader (version : Z) | KReqHeader (hv : option Z)
| KReceive (version expect_corr : Z)
| KFBlock (version : Z).   (* Broker.responseReceiver on a frame header; offsets are not observable *)
Inductive dres :=
| DRecord (r : record) | DRecordsL (rs : list record) | DBatch (b : batch) | DMset (s : mset) | DTop (r : records)
| DControl (c : control_record) | DResp (length corr : Z) | DReq (key version corr : Z) (client_id : list Z)
| DAccepted | DFBlock (b : fblock).

Definition dres_eqb (a b : dres) : bool :=
  match a, b with
  | DRecord x, DRecord y => record_eqb x y
  | DRecordsL x, DRecordsL y => list_eqb record_eqb x y
  | DBatch x, DBatch y => batch_eqb x y
  | DMset x, DMset y => mset_eqb x y
  | DTop x, DTop y => records_eqb x y
  | DControl x, DControl y => control_eqb x y
  | DResp l1 c1, DResp l2 c2 => (l1 =? l2) && (c1 =? c2)
  | DReq k1 v1 c1 i1, DReq k2 v2 c2 i2 => (k1 =? k2) && (v1 =? v2) && (c1 =? c2) && lz_eqb i1 i2
  | DAccepted, DAccepted => true
  | DFBlock x, DFBlock y => fblock_eqb x y
  | _, _ => false
  end.

Definition DEPTH := 6%nat.

Definition run_kind (t : tbl) (k : dkind) (d : dec) : res dres :=
  match k with
  | KRecord => rmap DRecord (record_decode d)
  | KRecords n => rmap DRecordsL (records_decode (Z.to_nat n) d)
  | KBatch => rmap DBatch (batch_decode (tlookup t) d)
  | KMset => rmap DMset (mset_decode (tlookup t) DEPTH d)
  | KTop => rmap DTop (records_decode_top (tlookup t) DEPTH d)
  | KControl value => rmap DControl (fst (control_decode d (new_dec value)))
  | KRespHeader v => rmap (fun p => DResp (fst p) (snd p)) (response_header_decode v d)
  | KReqHeader hv => rmap (fun p => let '(k, v, c, i) := p in DReq k v c i) (request_header_decode (fun _ _ => hv) d)
  | KReceive v c => rmap (fun _ => DAccepted) (response_receive v c d)
  | KFBlock v => rmap DFBlock (fblock_decode (tlookup t) DEPTH v d)
  end.
Definition off_observable (k : dkind) : bool := match k with KReceive _ _ => false | _ => true end.

Record dcase2 := {
  d2_kind : dkind; d2_buf : list Z; d2_start : Z; d2_tab : tbl;
  d2_status : Z;               (* 0 ok, err_id, 100 panic, 101 allocation / crash, 102 hang *)
  d2_off : Z;                  (* rd.off afterwards (compared for ok and errors) *)
  d2_val : option dres }.      (* the decoded value when status = 0 *)

Definition ok_dec2 (c : dcase2) : bool :=
  match run_kind (d2_tab c) (d2_kind c) (mkDec (d2_buf c) (d2_start c) 0 []) with
  | Ok v d => (d2_status c =? 0) && (negb (off_observable (d2_kind c)) || (off d =? d2_off c)) && option_eqb dres_eqb (Some v) (d2_val c)
  | Err e d => (d2_status c =? err_id e) && (negb (off_observable (d2_kind c)) || (off d =? d2_off c))
  | Panic _ => d2_status c =? 100
  | Alloc _ => d2_status c =? 101
  end.
Definition mismatches_dec2 := mismatches ok_dec2.
