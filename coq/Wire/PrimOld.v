(* Wire/PrimOld.v — the getters of real_decoder.go as they are on the pinned tree, BEFORE
   /verif/fixes/c10_primitive_getters.patch: unguarded slice expressions and [make] with unchecked counts are
   visible as Panic / Alloc exactly where the Go code has no guard.  Model only (no proofs); used for the
   c10_prim_refuted_* witnesses.  The getters not listed here are unchanged by the patch. *)
From Coq Require Import List ZArith Bool.
From SV Require Import Wire.Bytes Wire.Varint Wire.Crc Wire.Prim.
Import ListNotations.
Open Scope Z_scope.

Definition ALLOC_CAP := 67108864.   (* 64 MiB: an allocation above it for an input below 1 KiB is "out of proportion" *)
(* make([]T, n) with elements of [elem] bytes *)
Definition make_check {A} (n elem : Z) (k : unit -> res A) : res A :=
  if n <? 0 then Panic P_MAKE else if ALLOC_CAP <? n * elem then Alloc n else k tt.

(* no lower bound on the length: any negative int32 is returned and reaches make([]T, n) in the callers *)
Definition get_array_length_old (d : dec) : res Z :=
  if remaining d <? 4 then Err EInsufficient (to_end d)
  else match read d 4 with
       | None => Panic P_SLICE
       | Some bs =>
         let tmp := i32 (ube bs) in
         let d := adv d 4 in
         if remaining d <? tmp then Err EInsufficient (to_end d)
         else if MAX_ARRAY <? tmp then Err EInvalidArrayLength d
         else Ok tmp d
       end.

(* int(n) - 1 with no check at all *)
Definition get_compact_array_length_old (d : dec) : res Z :=
  let* (n, d) := get_uvarint d in
  if n =? 0 then Ok 0 d else Ok (i64 n - 1) d.

(* tmpStr := string(rd.raw[rd.off : rd.off+length]) with length = int(n-1) unchecked *)
Definition get_compact_string_old (d : dec) : res (list Z) :=
  let* (n, d) := get_uvarint d in
  let length := i64 (n - 1) in
  match slice (raw d) (off d) (off d + length) with
  | None => Panic P_SLICE
  | Some bs => Ok bs (alloc (adv d length) length)
  end.

Definition get_compact_nullable_string_old (d : dec) : res (option (list Z)) :=
  let* (n, d) := get_uvarint d in
  let length := i64 (n - 1) in
  if length <? 0 then Ok None d
  else match slice (raw d) (off d) (off d + length) with
       | None => Panic P_SLICE
       | Some bs => Ok (Some bs) (alloc (adv d length) length)
       end.

(* ret := make([]int32, int(n)-1); the loop then reads 4 bytes per element without looking at remaining() *)
Definition get_compact_int32_array_old (d : dec) : res (option (list Z)) :=
  let* (n, d) := get_uvarint d in
  if n =? 0 then Ok None d
  else let k := i64 n - 1 in
       make_check k 4 (fun _ => let* (l, d) := read_ints 4 i32 (Z.to_nat k) (alloc d (4 * k)) in Ok (Some l) d).

(* ret := make([]string, n) with n any uint32 *)
Definition get_string_array_old (d : dec) : res (option (list (list Z))) :=
  if remaining d <? 4 then Err EInsufficient (to_end d)
  else match read d 4 with
       | None => Panic P_SLICE
       | Some bs =>
         let n := ube bs in
         let d := adv d 4 in
         if n =? 0 then Ok None d
         else if n <? 0 then Err EInvalidArrayLength d
         else make_check n STRING_HEADER
                (fun _ => let* (l, d) := read_strings (Z.to_nat n) (alloc d (STRING_HEADER * n)) in Ok (Some l) d)
       end.
