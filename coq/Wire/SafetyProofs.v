(* Wire/SafetyProofs.v — C10 for the primitive layer: every getter of the (fixed) realDecoder, on every buffer
   and every offset inside it, returns a value or an error — never a run-time panic, never an unbounded
   allocation; the offset only moves forward and stays inside the buffer; what it allocates is bounded by
   16 x the bytes consumed (on success) resp. 16 x the bytes that were left (on error). *)
From Coq Require Import List ZArith Bool Lia.
From SV Require Import Base.Corr Wire.Bytes Wire.BytesProofs Wire.Varint Wire.VarintProofs Wire.Crc Wire.CrcProofs
  Wire.Prim Wire.PushPop Wire.CorrPrim.
Import ListNotations.
Open Scope Z_scope.

Ltac Zify.zify_post_hook ::= Z.div_mod_to_equations.

Definition ALLOC_FACTOR := 16.

(* the offset is inside the buffer; buffers are shorter than 2^63 (Go's int) *)
Definition inb (d : dec) : Prop := 0 <= off d <= len (raw d) /\ len (raw d) < two63.
(* successful step: forward, inside the buffer, allocation paid for by consumed bytes, stack untouched *)
Definition okstep (d d' : dec) : Prop :=
  raw d' = raw d /\ off d <= off d' <= len (raw d) /\
  mem d <= mem d' <= mem d + ALLOC_FACTOR * (off d' - off d) /\ stack d' = stack d.
Definition errstep (d d' : dec) : Prop :=
  raw d' = raw d /\ off d <= off d' <= len (raw d) /\
  mem d <= mem d' <= mem d + ALLOC_FACTOR * remaining d /\ stack d' = stack d.
Definition safe {A} (d : dec) (r : res A) : Prop :=
  match r with Ok _ d' => okstep d d' | Err _ d' => errstep d d' | Panic _ => False | Alloc _ => False end.

Ltac psimpl := cbn [raw off mem stack to_end set_off adv alloc set_stack new_dec safe bind rmap].
Ltac psimpl_in H := cbn [raw off mem stack to_end set_off adv alloc set_stack new_dec safe bind rmap] in H.

Lemma okstep_refl d : inb d -> okstep d d.
Proof. unfold inb, okstep, ALLOC_FACTOR. intros. repeat split; lia. Qed.
Lemma okstep_inb d d' : okstep d d' -> inb d -> inb d'.
Proof. unfold okstep, inb. intros (A1 & A2 & _) H. rewrite A1. repeat split; lia. Qed.
Lemma okstep_err d d' : inb d -> okstep d d' -> errstep d d'.
Proof. unfold okstep, errstep, inb, remaining, ALLOC_FACTOR. intros H (A1 & A2 & A3 & A4). repeat split; try assumption; lia. Qed.
Lemma okstep_trans d d1 d2 : okstep d d1 -> okstep d1 d2 -> okstep d d2.
Proof.
  unfold okstep, ALLOC_FACTOR. intros (A1 & A2 & A3 & A4) (B1 & B2 & B3 & B4). rewrite A1 in *.
  repeat split; try congruence; lia.
Qed.
Lemma ok_err_trans d d1 d2 : okstep d d1 -> errstep d1 d2 -> errstep d d2.
Proof.
  unfold okstep, errstep, remaining, ALLOC_FACTOR. intros (A1 & A2 & A3 & A4) (B1 & B2 & B3 & B4). rewrite A1 in *.
  repeat split; try congruence; lia.
Qed.

Lemma safe_bind {A B} d (r : res A) (k : A -> dec -> res B) :
  safe d r -> (forall v d1, okstep d d1 -> safe d1 (k v d1)) -> safe d (bind r k).
Proof.
  destruct r as [v d1|e d1|w|n]; cbn [safe bind]; intros Hr Hk; try assumption.
  specialize (Hk v d1 Hr). destruct (k v d1) as [v2 d2|e2 d2|w|n]; cbn [safe] in *; try assumption.
  - eapply okstep_trans; eassumption.
  - eapply ok_err_trans; eassumption.
Qed.
Lemma safe_rmap {A B} (f : A -> B) d r : safe d r -> safe d (rmap f r).
Proof. destruct r; psimpl; auto. Qed.

(* steps to concrete successor states *)
Lemma errstep_to_end d : inb d -> errstep d (to_end d).
Proof. unfold inb, errstep, remaining, ALLOC_FACTOR. psimpl. intros. repeat split; lia. Qed.
Lemma okstep_adv d n : inb d -> 0 <= n <= remaining d -> okstep d (adv d n).
Proof. unfold inb, okstep, remaining, ALLOC_FACTOR. psimpl. intros. repeat split; lia. Qed.
Lemma okstep_adv_alloc d n c : inb d -> 0 <= n <= remaining d -> 0 <= c <= ALLOC_FACTOR * n -> okstep d (alloc (adv d n) c).
Proof. unfold inb, okstep, remaining, ALLOC_FACTOR. psimpl. intros. repeat split; lia. Qed.
Lemma errstep_self d : inb d -> errstep d d.
Proof. intros. apply okstep_err; [assumption | now apply okstep_refl]. Qed.
Lemma errstep_set_off d o : inb d -> off d <= o <= len (raw d) -> errstep d (set_off d o).
Proof. unfold inb, errstep, remaining, ALLOC_FACTOR. psimpl. intros. repeat split; lia. Qed.

Lemma read_ok d n : inb d -> 0 <= n <= remaining d -> exists bs, read d n = Some bs /\ len bs = n.
Proof.
  unfold inb, remaining, read. intros H Hn.
  destruct (slice_ok (raw d) (off d) (off d + n) ltac:(lia) ltac:(lia) ltac:(lia)) as (r & Hr).
  exists r. split; [assumption|]. apply slice_some in Hr. lia.
Qed.
Lemma tail_ok d : inb d -> exists buf, slice (raw d) (off d) (len (raw d)) = Some buf /\ len buf = remaining d.
Proof.
  unfold inb, remaining. intros H.
  destruct (slice_ok (raw d) (off d) (len (raw d)) ltac:(lia) ltac:(lia) ltac:(lia)) as (r & Hr).
  exists r. split; [assumption|]. apply slice_some in Hr. lia.
Qed.
Lemma remaining_nonneg d : inb d -> 0 <= remaining d.
Proof. unfold inb, remaining. lia. Qed.

(* ---------------------------------------------------------------- getters *)
Lemma get_fixed_safe n conv d : 0 <= n -> inb d -> safe d (get_fixed n conv d).
Proof.
  intros Hn Hd. unfold get_fixed. destruct (remaining d <? n) eqn:E.
  - psimpl. now apply errstep_to_end.
  - apply Z.ltb_ge in E. destruct (read_ok d n Hd ltac:(lia)) as (bs & -> & _). psimpl. apply okstep_adv; [assumption | lia].
Qed.
Lemma get_int8_safe d : inb d -> safe d (get_int8 d). Proof. apply get_fixed_safe; lia. Qed.
Lemma get_int16_safe d : inb d -> safe d (get_int16 d). Proof. apply get_fixed_safe; lia. Qed.
Lemma get_int32_safe d : inb d -> safe d (get_int32 d). Proof. apply get_fixed_safe; lia. Qed.
Lemma get_int64_safe d : inb d -> safe d (get_int64 d). Proof. apply get_fixed_safe; lia. Qed.

Lemma get_varint_safe d : inb d -> safe d (get_varint d).
Proof.
  intros Hd. unfold get_varint. destruct (tail_ok d Hd) as (buf & -> & Hl).
  pose proof (varint_bounds buf) as B. destruct (varint buf) as [x n]. destruct B as (_ & B).
  pose proof (remaining_nonneg d Hd).
  destruct (n =? 0) eqn:E0; [psimpl; now apply errstep_to_end|]. apply Z.eqb_neq in E0.
  destruct (n <? 0) eqn:E1; [apply Z.ltb_lt in E1 | apply Z.ltb_ge in E1]; psimpl.
  - apply errstep_set_off; [assumption|]. unfold inb, remaining in *. lia.
  - apply okstep_adv; [assumption | lia].
Qed.
Lemma get_uvarint_safe d : inb d -> safe d (get_uvarint d).
Proof.
  intros Hd. unfold get_uvarint. destruct (tail_ok d Hd) as (buf & -> & Hl).
  pose proof (uvarint_bounds buf) as B. destruct (uvarint buf) as [x n]. destruct B as (_ & B).
  pose proof (remaining_nonneg d Hd).
  destruct (n =? 0) eqn:E0; [psimpl; now apply errstep_to_end|]. apply Z.eqb_neq in E0.
  destruct (n <? 0) eqn:E1; [apply Z.ltb_lt in E1 | apply Z.ltb_ge in E1]; psimpl.
  - apply errstep_set_off; [assumption|]. unfold inb, remaining in *. lia.
  - apply okstep_adv; [assumption | lia].
Qed.

Lemma get_array_length_safe d : inb d -> safe d (get_array_length d).
Proof.
  intros Hd. unfold get_array_length. destruct (remaining d <? 4) eqn:E; [psimpl; now apply errstep_to_end|].
  apply Z.ltb_ge in E. destruct (read_ok d 4 Hd ltac:(lia)) as (bs & -> & _).
  assert (Hadv : okstep d (adv d 4)) by (apply okstep_adv; [assumption | lia]).
  assert (Hd1 : inb (adv d 4)) by (eapply okstep_inb; eassumption).
  destruct (remaining (adv d 4) <? i32 (ube bs)); [psimpl; eapply ok_err_trans; [exact Hadv | now apply errstep_to_end]|].
  destruct ((MAX_ARRAY <? i32 (ube bs)) || (i32 (ube bs) <? -1)); psimpl; [now apply okstep_err | assumption].
Qed.

Lemma get_compact_array_length_safe d : inb d -> safe d (get_compact_array_length d).
Proof.
  intros Hd. unfold get_compact_array_length. apply safe_bind; [now apply get_uvarint_safe|].
  intros n d1 H1. pose proof (okstep_inb _ _ H1 Hd) as Hd1.
  destruct (n =? 0); [psimpl; now apply okstep_refl|].
  destruct (remaining d1 <? u64 (n - 1)); psimpl; [now apply errstep_to_end | now apply okstep_refl].
Qed.

Lemma get_bool_safe d : inb d -> safe d (get_bool d).
Proof.
  intros Hd. unfold get_bool. apply safe_bind; [now apply get_int8_safe|].
  intros b d1 H1. pose proof (okstep_inb _ _ H1 Hd) as Hd1.
  destruct (b =? 0); [psimpl; now apply okstep_refl|].
  destruct (negb (b =? 1)); psimpl; [now apply errstep_self | now apply okstep_refl].
Qed.

Lemma get_empty_tagged_safe d : inb d -> safe d (get_empty_tagged d).
Proof.
  intros Hd. unfold get_empty_tagged. apply safe_bind; [now apply get_uvarint_safe|].
  intros n d1 H1. pose proof (okstep_inb _ _ H1 Hd) as Hd1.
  destruct (negb (n =? 0)); psimpl; [now apply errstep_self | now apply okstep_refl].
Qed.

Lemma get_raw_bytes_safe n d : inb d -> safe d (get_raw_bytes n d).
Proof.
  intros Hd. unfold get_raw_bytes. destruct (n <? 0) eqn:E0; [psimpl; now apply errstep_self|]. apply Z.ltb_ge in E0.
  destruct (remaining d <? n) eqn:E1; [psimpl; now apply errstep_to_end|]. apply Z.ltb_ge in E1.
  destruct (read_ok d n Hd ltac:(lia)) as (bs & -> & _). psimpl. apply okstep_adv; [assumption | lia].
Qed.

Lemma get_bytes_safe d : inb d -> safe d (get_bytes d).
Proof.
  intros Hd. unfold get_bytes. apply safe_bind; [now apply get_int32_safe|].
  intros t d1 H1. pose proof (okstep_inb _ _ H1 Hd) as Hd1.
  destruct (t =? -1); [psimpl; now apply okstep_refl|].
  apply safe_bind; [now apply get_raw_bytes_safe|]. intros bs d2 H2. psimpl. apply okstep_refl. eapply okstep_inb; eassumption.
Qed.
Lemma get_varint_bytes_safe d : inb d -> safe d (get_varint_bytes d).
Proof.
  intros Hd. unfold get_varint_bytes. apply safe_bind; [now apply get_varint_safe|].
  intros t d1 H1. pose proof (okstep_inb _ _ H1 Hd) as Hd1.
  destruct (t =? -1); [psimpl; now apply okstep_refl|].
  apply safe_bind; [now apply get_raw_bytes_safe|]. intros bs d2 H2. psimpl. apply okstep_refl. eapply okstep_inb; eassumption.
Qed.
Lemma get_compact_bytes_safe d : inb d -> safe d (get_compact_bytes d).
Proof.
  intros Hd. unfold get_compact_bytes. apply safe_bind; [now apply get_uvarint_safe|].
  intros t d1 H1. pose proof (okstep_inb _ _ H1 Hd) as Hd1.
  apply safe_bind; [now apply get_raw_bytes_safe|]. intros bs d2 H2. psimpl. apply okstep_refl. eapply okstep_inb; eassumption.
Qed.

Lemma get_string_length_safe d : inb d -> safe d (get_string_length d).
Proof.
  intros Hd. unfold get_string_length. apply safe_bind; [now apply get_int16_safe|].
  intros n d1 H1. pose proof (okstep_inb _ _ H1 Hd) as Hd1.
  destruct (n <? -1); [psimpl; now apply errstep_self|].
  destruct (remaining d1 <? n); psimpl; [now apply errstep_to_end | now apply okstep_refl].
Qed.
(* after a successful getStringLength / explicit guard: 0 <= n <= remaining *)
Lemma take_string_safe n d : inb d -> 0 <= n <= remaining d -> safe d (take_string n d).
Proof.
  intros Hd Hn. unfold take_string. destruct (read_ok d n Hd Hn) as (bs & -> & _). psimpl.
  apply okstep_adv_alloc; [assumption | assumption | unfold ALLOC_FACTOR; lia].
Qed.
Lemma get_string_length_post d n d1 : get_string_length d = Ok n d1 -> -1 <= n <= remaining d1.
Proof.
  unfold get_string_length. destruct (get_int16 d) as [v d2|e d2|w|m]; cbn [bind]; try discriminate.
  destruct (v <? -1) eqn:E0; [discriminate|]. destruct (remaining d2 <? v) eqn:E1; [discriminate|].
  intros [= <- <-]. apply Z.ltb_ge in E0, E1. lia.
Qed.

Lemma safe_bind_eq {A B} d (r : res A) (k : A -> dec -> res B) :
  safe d r -> (forall v d1, r = Ok v d1 -> okstep d d1 -> safe d1 (k v d1)) -> safe d (bind r k).
Proof.
  destruct r as [v d1|e d1|w|n]; cbn [safe bind]; intros Hr Hk; try assumption.
  specialize (Hk v d1 eq_refl Hr). destruct (k v d1) as [v2 d2|e2 d2|w|n]; cbn [safe] in *; try assumption.
  - eapply okstep_trans; eassumption.
  - eapply ok_err_trans; eassumption.
Qed.

Lemma get_string_safe d : inb d -> safe d (get_string d).
Proof.
  intros Hd. unfold get_string. apply safe_bind_eq; [now apply get_string_length_safe|].
  intros n d1 E H1. pose proof (okstep_inb _ _ H1 Hd) as Hd1. apply get_string_length_post in E.
  destruct (n =? -1) eqn:En; [psimpl; now apply okstep_refl|]. apply Z.eqb_neq in En.
  apply take_string_safe; [assumption | lia].
Qed.
Lemma get_nullable_string_safe d : inb d -> safe d (get_nullable_string d).
Proof.
  intros Hd. unfold get_nullable_string. apply safe_bind_eq; [now apply get_string_length_safe|].
  intros n d1 E H1. pose proof (okstep_inb _ _ H1 Hd) as Hd1. apply get_string_length_post in E.
  destruct (n =? -1) eqn:En; [psimpl; now apply okstep_refl|]. apply Z.eqb_neq in En.
  apply safe_bind; [apply take_string_safe; [assumption | lia]|].
  intros s d2 H2. psimpl. apply okstep_refl. eapply okstep_inb; eassumption.
Qed.
Lemma get_compact_string_safe d : inb d -> safe d (get_compact_string d).
Proof.
  intros Hd. unfold get_compact_string. apply safe_bind; [now apply get_uvarint_safe|].
  intros n d1 H1. pose proof (okstep_inb _ _ H1 Hd) as Hd1.
  destruct (i64 (n - 1) <? 0) eqn:E0; [psimpl; now apply errstep_self|]. apply Z.ltb_ge in E0.
  destruct (remaining d1 <? i64 (n - 1)) eqn:E1; [psimpl; now apply errstep_to_end|]. apply Z.ltb_ge in E1.
  apply take_string_safe; [assumption | lia].
Qed.
Lemma get_compact_nullable_string_safe d : inb d -> safe d (get_compact_nullable_string d).
Proof.
  intros Hd. unfold get_compact_nullable_string. apply safe_bind; [now apply get_uvarint_safe|].
  intros n d1 H1. pose proof (okstep_inb _ _ H1 Hd) as Hd1.
  destruct (i64 (n - 1) <? 0) eqn:E0; [psimpl; now apply okstep_refl|]. apply Z.ltb_ge in E0.
  destruct (remaining d1 <? i64 (n - 1)) eqn:E1; [psimpl; now apply errstep_to_end|]. apply Z.ltb_ge in E1.
  apply safe_bind; [apply take_string_safe; [assumption | lia]|].
  intros s d2 H2. psimpl. apply okstep_refl. eapply okstep_inb; eassumption.
Qed.

(* ---------------------------------------------------------------- arrays *)
Lemma read_ints_ok w conv k d : inb d -> 0 <= w -> w * Z.of_nat k <= remaining d ->
  exists l d', read_ints w conv k d = Ok l d' /\ raw d' = raw d /\ off d' = off d + w * Z.of_nat k /\
               mem d' = mem d /\ stack d' = stack d.
Proof.
  revert d; induction k as [|k IH]; intros d Hd Hw Hk.
  - cbn [read_ints]. exists [], d. repeat split; lia.
  - cbn [read_ints]. rewrite Nat2Z.inj_succ in Hk.
    destruct (read_ok d w Hd ltac:(nia)) as (bs & -> & _).
    assert (Hd1 : inb (adv d w)) by (unfold inb, remaining in *; psimpl; nia).
    destruct (IH (adv d w) Hd1 Hw ltac:(unfold remaining in *; psimpl; nia)) as (l & d' & E & A1 & A2 & A3 & A4).
    rewrite E. cbn [bind]. eexists _, d'. split; [reflexivity|]. psimpl_in A1; psimpl_in A2; psimpl_in A3; psimpl_in A4; psimpl. repeat split; try assumption. lia.
Qed.

Lemma get_uvarint_range d n d1 : get_uvarint d = Ok n d1 -> in_u64 n.
Proof.
  unfold get_uvarint. destruct (slice (raw d) (off d) (len (raw d))) as [buf|]; [|discriminate].
  pose proof (uvarint_bounds buf) as B. destruct (uvarint buf) as [x m]. destruct B as (B & _).
  destruct (m =? 0); [discriminate|]. destruct (m <? 0); [discriminate|]. now intros [= <- _].
Qed.

Lemma get_compact_int32_array_safe d : inb d -> safe d (get_compact_int32_array d).
Proof.
  intros Hd. unfold get_compact_int32_array. apply safe_bind_eq; [now apply get_uvarint_safe|].
  intros n d1 En H1. pose proof (okstep_inb _ _ H1 Hd) as Hd1. pose proof (remaining_nonneg d1 Hd1).
  apply get_uvarint_range in En.
  destruct (n =? 0) eqn:E0; [psimpl; now apply okstep_refl|]. apply Z.eqb_neq in E0.
  destruct (remaining d1 / 4 <? u64 (n - 1)) eqn:E1; [psimpl; now apply errstep_to_end|]. apply Z.ltb_ge in E1.
  assert (Hk : 0 <= i64 n - 1 /\ 4 * (i64 n - 1) <= remaining d1).
  { destruct Hd1 as (Ho & Hl). unfold remaining, in_u64, u64, i64, two64, two63 in *. lia. }
  destruct Hk as (Hk0 & Hk).
  destruct (read_ints_ok 4 i32 (Z.to_nat (i64 n - 1)) (alloc d1 (4 * (i64 n - 1)))) as (l & d2 & E & A1 & A2 & A3 & A4).
  - unfold inb in *. psimpl. assumption.
  - lia.
  - unfold remaining in *. psimpl. lia.
  - rewrite E. cbn [bind safe]. psimpl_in A1; psimpl_in A2; psimpl_in A3; psimpl_in A4. unfold okstep, inb, remaining, ALLOC_FACTOR in *.
    repeat split; try congruence; try lia.
Qed.

Lemma get_int_array_safe w conv d : (w = 4 \/ w = 8) -> inb d -> safe d (get_int_array w conv d).
Proof.
  intros Hw Hd. unfold get_int_array. destruct (remaining d <? 4) eqn:E; [psimpl; now apply errstep_to_end|].
  apply Z.ltb_ge in E. destruct (read_ok d 4 Hd ltac:(lia)) as (bs & -> & Hbs).
  assert (Hadv : okstep d (adv d 4)) by (apply okstep_adv; [assumption | lia]).
  assert (Hd1 : inb (adv d 4)) by (eapply okstep_inb; eassumption).
  set (n := ube bs).
  destruct (remaining (adv d 4) <? w * n) eqn:E1; [psimpl; eapply ok_err_trans; [exact Hadv | now apply errstep_to_end]|].
  apply Z.ltb_ge in E1.
  destruct (n =? 0) eqn:E0; [psimpl; assumption|]. apply Z.eqb_neq in E0.
  destruct (n <? 0) eqn:E2; [psimpl; now apply okstep_err|]. apply Z.ltb_ge in E2.
  destruct (read_ints_ok w conv (Z.to_nat n) (alloc (adv d 4) (w * n))) as (l & d2 & Er & A1 & A2 & A3 & A4).
  - unfold inb in *. psimpl. psimpl_in Hd1. assumption.
  - lia.
  - unfold remaining in *. psimpl. psimpl_in E1. nia.
  - rewrite Er. psimpl. psimpl_in A1; psimpl_in A2; psimpl_in A3; psimpl_in A4.
    unfold okstep, inb, remaining, ALLOC_FACTOR in *. psimpl_in E1.
    repeat split; try congruence; try nia.
Qed.

(* the string loop: each element is safe; accumulated allocation is paid for by consumed bytes *)
Lemma read_strings_safe k d : inb d -> safe d (read_strings k d).
Proof.
  revert d; induction k as [|k IH]; intros d Hd; cbn [read_strings].
  - psimpl. now apply okstep_refl.
  - apply safe_bind; [now apply get_string_safe|]. intros s d1 H1. pose proof (okstep_inb _ _ H1 Hd) as Hd1.
    apply safe_bind; [now apply IH|]. intros r d2 H2. psimpl. apply okstep_refl. eapply okstep_inb; eassumption.
Qed.
(* on success the k strings consumed at least their 2 k length bytes *)
Lemma get_string_consumes d s d1 : get_string d = Ok s d1 -> off d + 2 <= off d1.
Proof.
  unfold get_string, get_string_length, get_int16, get_fixed.
  destruct (remaining d <? 2); [discriminate|]. destruct (read d 2); [|discriminate]. cbn [bind].
  destruct (i16 (ube l) <? -1); [discriminate|].
  destruct (remaining (adv d 2) <? i16 (ube l)) eqn:E1; [discriminate|]. apply Z.ltb_ge in E1. cbn [bind].
  destruct (i16 (ube l) =? -1) eqn:E2.
  - intros [= _ <-]. psimpl. lia.
  - apply Z.eqb_neq in E2. unfold take_string. destruct (read (adv d 2) (i16 (ube l))) eqn:Er; [|discriminate].
    intros [= _ <-]. psimpl. unfold read in Er. apply slice_some in Er. psimpl_in Er. lia.
Qed.
Lemma read_strings_consumes k d l d1 : read_strings k d = Ok l d1 -> off d + 2 * Z.of_nat k <= off d1.
Proof.
  revert d l d1; induction k as [|k IH]; intros d l d1; cbn [read_strings].
  - intros [= _ <-]. lia.
  - destruct (get_string d) as [s d2|? ?|?|?] eqn:E; cbn [bind]; try discriminate.
    destruct (read_strings k d2) as [r d3|? ?|?|?] eqn:E2; cbn [bind]; try discriminate.
    intros [= _ <-]. apply get_string_consumes in E. apply IH in E2. lia.
Qed.
(* string conversions allocate at most what they consume beyond the length prefix: tighter factor-1 bound *)
Definition lin1 (d d' : dec) : Prop :=
  raw d' = raw d /\ off d <= off d' <= len (raw d) /\ mem d <= mem d' <= mem d + (off d' - off d) /\ stack d' = stack d.
Lemma get_string_lin1 d : inb d ->
  match get_string d with
  | Ok _ d' => lin1 d d'
  | Err _ d' => raw d' = raw d /\ off d <= off d' <= len (raw d) /\ mem d' = mem d /\ stack d' = stack d
  | _ => False end.
Proof.
  intros Hd. pose proof (get_string_safe d Hd) as S.
  unfold get_string, get_string_length, get_int16, get_fixed in *.
  destruct (remaining d <? 2) eqn:E0; [psimpl; psimpl_in S; unfold errstep in S; unfold inb in Hd; repeat split; try tauto; lia|].
  destruct (read d 2); [|contradiction]. cbn [bind] in *.
  destruct (i16 (ube l) <? -1).
  { psimpl. psimpl_in S. unfold errstep in S. psimpl_in S. repeat split; try tauto; lia. }
  destruct (remaining (adv d 2) <? i16 (ube l)) eqn:E1.
  { psimpl. psimpl_in S. unfold errstep in S. psimpl_in S. repeat split; try tauto; lia. }
  cbn [bind] in *. destruct (i16 (ube l) =? -1).
  { psimpl. psimpl_in S. unfold okstep in S. psimpl_in S. unfold lin1. psimpl. repeat split; try tauto; lia. }
  unfold take_string in *. destruct (read (adv d 2) (i16 (ube l))) eqn:Er; [|contradiction].
  psimpl. psimpl_in S. unfold okstep in S. psimpl_in S. unfold lin1. psimpl.
  unfold read in Er. apply slice_some in Er. psimpl_in Er. repeat split; try tauto; lia.
Qed.
Lemma read_strings_lin1 k d : inb d ->
  match read_strings k d with
  | Ok _ d' => lin1 d d'
  | Err _ d' => raw d' = raw d /\ off d <= off d' <= len (raw d) /\ mem d <= mem d' <= mem d + (off d' - off d) /\ stack d' = stack d
  | _ => False end.
Proof.
  revert d; induction k as [|k IH]; intros d Hd; cbn [read_strings].
  - unfold lin1, inb in *. repeat split; lia.
  - pose proof (get_string_lin1 d Hd) as G. destruct (get_string d) as [s d1|e d1|?|?]; cbn [bind]; try contradiction.
    + assert (Hd1 : inb d1) by (destruct G as (A1 & A2 & _); unfold inb in *; rewrite A1; lia).
      specialize (IH d1 Hd1). destruct (read_strings k d1) as [r d2|e d2|?|?]; cbn [bind]; try contradiction.
      * unfold lin1 in *. destruct G as (A1 & A2 & A3 & A4), IH as (B1 & B2 & B3 & B4). rewrite A1 in *.
        repeat split; try congruence; lia.
      * unfold lin1 in *. destruct G as (A1 & A2 & A3 & A4), IH as (B1 & B2 & B3 & B4). rewrite A1 in *.
        repeat split; try congruence; lia.
    + destruct G as (A1 & A2 & A3 & A4). repeat split; try assumption; lia.
Qed.

Lemma get_string_array_safe d : inb d -> safe d (get_string_array d).
Proof.
  intros Hd. unfold get_string_array. destruct (remaining d <? 4) eqn:E; [psimpl; now apply errstep_to_end|].
  apply Z.ltb_ge in E. destruct (read_ok d 4 Hd ltac:(lia)) as (bs & -> & Hbs).
  assert (Hadv : okstep d (adv d 4)) by (apply okstep_adv; [assumption | lia]).
  assert (Hd1 : inb (adv d 4)) by (eapply okstep_inb; eassumption).
  set (n := ube bs).
  destruct (remaining (adv d 4) <? 2 * n) eqn:E1; [psimpl; eapply ok_err_trans; [exact Hadv | now apply errstep_to_end]|].
  apply Z.ltb_ge in E1.
  destruct (n =? 0) eqn:E0; [psimpl; assumption|]. apply Z.eqb_neq in E0.
  destruct (n <? 0) eqn:E2; [psimpl; now apply okstep_err|]. apply Z.ltb_ge in E2.
  set (d1 := alloc (adv d 4) (STRING_HEADER * n)).
  assert (Hd1' : inb d1) by (unfold inb in *; unfold d1; psimpl; psimpl_in Hd1; assumption).
  pose proof (read_strings_lin1 (Z.to_nat n) d1 Hd1') as L.
  pose proof (read_strings_consumes (Z.to_nat n) d1) as C.
  destruct (read_strings (Z.to_nat n) d1) as [l d2|e d2|?|?]; cbn [bind]; try contradiction.
  - specialize (C l d2 eq_refl). psimpl. unfold d1 in *. unfold lin1, okstep, inb, remaining, ALLOC_FACTOR, STRING_HEADER in *.
    psimpl_in L. psimpl_in C. psimpl_in E1. destruct L as (A1 & A2 & A3 & A4).
    repeat split; try congruence; try lia.
  - psimpl. unfold d1 in *. unfold errstep, inb, remaining, ALLOC_FACTOR, STRING_HEADER in *.
    psimpl_in L. psimpl_in E1. destruct L as (A1 & A2 & A3 & A4).
    repeat split; try congruence; try lia.
Qed.

(* ---------------------------------------------------------------- subsets, peeks *)
Lemma get_subset_safe n d : inb d -> safe d (get_subset n d).
Proof.
  intros Hd. unfold get_subset. apply safe_bind; [now apply get_raw_bytes_safe|].
  intros bs d1 H1. psimpl. apply okstep_refl. eapply okstep_inb; eassumption.
Qed.
Lemma peek_safe o l d : 0 <= o -> 0 <= l -> inb d -> safe d (peek o l d).
Proof.
  intros Ho Hl Hd. unfold peek. destruct (remaining d <? o + l) eqn:E; [psimpl; now apply errstep_self|].
  apply Z.ltb_ge in E. unfold inb, remaining in *.
  destruct (slice_ok (raw d) (off d + o) (off d + o + l) ltac:(lia) ltac:(lia) ltac:(lia)) as (r & ->).
  psimpl. apply okstep_refl. exact Hd.
Qed.
Lemma peek_int8_safe o d : 0 <= o -> inb d -> safe d (peek_int8 o d).
Proof.
  intros Ho Hd. unfold peek_int8. destruct (remaining d <? o + 1) eqn:E; [psimpl; now apply errstep_self|].
  apply Z.ltb_ge in E. unfold byte_at. unfold inb, remaining in *.
  replace ((0 <=? off d + o) && (off d + o <? len (raw d))) with true
    by (symmetry; apply andb_true_iff; split; [apply Z.leb_le | apply Z.ltb_lt]; lia).
  psimpl. apply okstep_refl. exact Hd.
Qed.

(* ---------------------------------------------------------------- the statement over all decoder operations *)
(* a CRC field on the stack was pushed at an offset whose four reserved bytes lie before the current offset *)
Definition field_ok (o : Z) (f : dfield) : Prop :=
  match f with DCrc _ s => 0 <= s /\ s + 4 <= o | _ => True end.
Definition wf_dec (d : dec) : Prop := inb d /\ Forall (field_ok (off d)) (stack d).
(* preconditions that the callers satisfy syntactically: peeks use constant non-negative offsets,
   a pop follows its push *)
Definition dop_pre (o : dop) (d : dec) : Prop :=
  match o with
  | GPeek off l => 0 <= off /\ 0 <= l
  | GPeekInt8 off => 0 <= off
  | DPop => stack d <> []
  | _ => True
  end.
Definition safe_outcome {A} (d : dec) (r : res A) : Prop :=
  match r with
  | Ok _ d' => wf_dec d' /\ raw d' = raw d /\ off d <= off d' /\ mem d <= mem d' <= mem d + ALLOC_FACTOR * (off d' - off d)
  | Err _ d' => wf_dec d' /\ raw d' = raw d /\ off d <= off d' /\ mem d <= mem d' <= mem d + ALLOC_FACTOR * remaining d
  | Panic _ => False
  | Alloc _ => False
  end.

Lemma field_ok_mono o o' f : o <= o' -> field_ok o f -> field_ok o' f.
Proof. destruct f; cbn; intros; lia. Qed.
Lemma fields_mono o o' s : o <= o' -> Forall (field_ok o) s -> Forall (field_ok o') s.
Proof. intros H. apply Forall_impl. intros f. now apply field_ok_mono. Qed.

Lemma safe_outcome_of_safe {A} d (r : res A) : wf_dec d -> safe d r -> safe_outcome d r.
Proof.
  intros (Hd & Hs) S. destruct r as [v d'|e d'|?|?]; cbn [safe safe_outcome] in *; try contradiction.
  - pose proof (okstep_inb _ _ S Hd) as Hd'. destruct S as (A1 & A2 & A3 & A4).
    assert (F : Forall (field_ok (off d')) (stack d')) by (rewrite A4; eapply fields_mono; [|eassumption]; lia).
    unfold wf_dec. repeat split; try assumption; try lia; apply Hd'.
  - destruct S as (A1 & A2 & A3 & A4).
    assert (F : Forall (field_ok (off d')) (stack d')) by (rewrite A4; eapply fields_mono; [|eassumption]; lia).
    unfold wf_dec, inb in *. rewrite A1. repeat split; try assumption; try lia.
Qed.
Lemma safe_outcome_rmap {A B} (f : A -> B) d r : safe_outcome d r -> safe_outcome d (rmap f r).
Proof. destruct r; cbn [rmap bind safe_outcome]; auto. Qed.

Lemma push_dec_safe k d : wf_dec d -> safe_outcome d (push_dec k d).
Proof.
  intros (Hd & Hs). destruct k as [|l|p]; cbn [push_dec].
  - pose proof (get_int32_safe d Hd) as S. destruct (get_int32 d) as [v d1|e d1|?|?]; cbn [bind safe] in *; try contradiction.
    + pose proof (okstep_inb _ _ S Hd) as Hd1. destruct S as (A1 & A2 & A3 & A4).
      destruct (i32 (remaining d1) <? v); cbn [safe_outcome]; unfold wf_dec, inb, remaining, ALLOC_FACTOR in *; psimpl.
      * rewrite A1, A4. repeat split; try tauto; try lia. eapply fields_mono; [|eassumption]. lia.
      * rewrite A1, A4. repeat split; try tauto; try lia. constructor; [exact I|]. eapply fields_mono; [|eassumption]. lia.
    + apply (safe_outcome_of_safe d (Err e d1)); [split; assumption | exact S].
  - pose proof (get_varint_safe d Hd) as S. destruct (get_varint d) as [v d1|e d1|?|?]; cbn [bind safe] in *; try contradiction.
    + pose proof (okstep_inb _ _ S Hd) as Hd1. destruct S as (A1 & A2 & A3 & A4).
      cbn [safe_outcome]; unfold wf_dec, inb, remaining, ALLOC_FACTOR in *; psimpl.
      rewrite A1, A4. repeat split; try tauto; try lia. constructor; [exact I|]. eapply fields_mono; [|eassumption]. lia.
    + apply (safe_outcome_of_safe d (Err e d1)); [split; assumption | exact S].
  - destruct (remaining d <? 4) eqn:E.
    + apply (safe_outcome_of_safe d (Err EInsufficient (to_end d))); [split; assumption | now apply errstep_to_end].
    + apply Z.ltb_ge in E. cbn [safe_outcome]. unfold wf_dec, inb, remaining, ALLOC_FACTOR in *. psimpl.
      repeat split; try tauto; try lia. constructor; [cbn; lia|]. eapply fields_mono; [|eassumption]. lia.
Qed.

Lemma pop_dec_safe d : wf_dec d -> stack d <> [] -> safe_outcome d (pop_dec d).
Proof.
  intros (Hd & Hs) Hne. unfold pop_dec. destruct (stack d) as [|f s] eqn:Es; [congruence|].
  inversion Hs as [|? ? Hf Hs']; subst.
  assert (Hwf : wf_dec (set_stack d s)) by (unfold wf_dec, inb in *; psimpl; tauto).
  destruct f as [start l|start l|p start]; cbn [check_field]; psimpl.
  - destruct (i32 (off d - start - 4) =? l); cbn [safe_outcome]; psimpl; unfold remaining, ALLOC_FACTOR, inb in *;
      repeat split; try tauto; try lia.
  - destruct (off d - start - len (put_varint l) =? l); cbn [safe_outcome]; psimpl; unfold remaining, ALLOC_FACTOR, inb in *;
      repeat split; try tauto; try lia.
  - cbn [field_ok] in Hf. unfold inb in Hd.
    destruct (slice_ok (raw d) (start + 4) (off d) ltac:(lia) ltac:(lia) ltac:(lia)) as (cov & ->).
    destruct (slice_ok (raw d) start (len (raw d)) ltac:(lia) ltac:(lia) ltac:(lia)) as (tl & Htl). rewrite Htl.
    apply slice_some in Htl. replace (len tl <? 4) with false by (symmetry; apply Z.ltb_ge; lia).
    destruct (crc32 p cov =? ube (firstn 4 tl)); cbn [safe_outcome]; psimpl; unfold remaining, ALLOC_FACTOR, inb in *;
      repeat split; try tauto; try lia.
Qed.

Theorem prim_safe o d : wf_dec d -> dop_pre o d -> safe_outcome d (run_dop o d).
Proof.
  intros Hwf Hpre. pose proof Hwf as (Hd & _).
  destruct o; cbn [run_dop dop_pre] in *;
    try (lazymatch goal with
         | |- context [push_dec] => fail
         | |- context [pop_dec] => fail
         | _ => apply safe_outcome_rmap; apply safe_outcome_of_safe; [assumption|]
         end).
  - now apply get_int8_safe.
  - now apply get_int16_safe.
  - now apply get_int32_safe.
  - now apply get_int64_safe.
  - now apply get_varint_safe.
  - now apply get_uvarint_safe.
  - now apply get_array_length_safe.
  - now apply get_compact_array_length_safe.
  - now apply get_bool_safe.
  - now apply get_empty_tagged_safe.
  - now apply get_bytes_safe.
  - now apply get_varint_bytes_safe.
  - now apply get_compact_bytes_safe.
  - now apply get_raw_bytes_safe.
  - now apply get_string_safe.
  - now apply get_nullable_string_safe.
  - now apply get_compact_string_safe.
  - now apply get_compact_nullable_string_safe.
  - now apply get_compact_int32_array_safe.
  - apply get_int_array_safe; [now left | assumption].
  - apply get_int_array_safe; [now right | assumption].
  - now apply get_string_array_safe.
  - now apply get_subset_safe.
  - apply peek_safe; tauto.
  - now apply peek_int8_safe.
  - apply (safe_outcome_of_safe d (Ok (VInt (remaining d)) d)); [assumption | now apply okstep_refl].
  - apply safe_outcome_rmap. now apply push_dec_safe.
  - apply safe_outcome_rmap. now apply pop_dec_safe.
Qed.

(* running a whole script of operations: never a panic / unbounded allocation; total allocation <= 16 x buffer *)
Fixpoint dops_pre_static (ops : list dop) (depth : nat) : Prop :=
  match ops with
  | [] => True
  | o :: r =>
    match o with
    | GPeek off l => 0 <= off /\ 0 <= l /\ dops_pre_static r depth
    | GPeekInt8 off => 0 <= off /\ dops_pre_static r depth
    | DPush _ => dops_pre_static r (S depth)
    | DPop => match depth with O => False | S k => dops_pre_static r k end
    | _ => dops_pre_static r depth
    end
  end.

(* ---------------------------------------------------------------- what a successful pop establishes *)
Definition field_holds (f : dfield) (d : dec) : Prop :=
  match f with
  | DLen s l => l = i32 (off d - s - 4)                       (* the int32 length is the number of bytes since the field *)
  | DVarLen s l => off d - s - len (put_varint l) = l         (* idem, the field itself being the minimal varint of l *)
  | DCrc p s =>                                                (* the stored CRC is the CRC of exactly the bytes after the field up to the cursor *)
    exists cov tl, slice (raw d) (s + 4) (off d) = Some cov /\ slice (raw d) s (len (raw d)) = Some tl /\
                   4 <= len tl /\ crc32 p cov = ube (firstn 4 tl)
  end.

Lemma pop_detects d v d' : pop_dec d = Ok v d' ->
  exists f s, stack d = f :: s /\ d' = set_stack d s /\ field_holds f d.
Proof.
  unfold pop_dec. destruct (stack d) as [|f s]; [discriminate|]. intros H. exists f, s. split; [reflexivity|].
  destruct f as [st l|st l|p st]; cbn [check_field field_holds] in *; psimpl_in H.
  - destruct (i32 (off d - st - 4) =? l) eqn:E; [|discriminate]. apply Z.eqb_eq in E. injection H as _ <-. split; [reflexivity | lia].
  - destruct (off d - st - len (put_varint l) =? l) eqn:E; [|discriminate]. apply Z.eqb_eq in E. injection H as _ <-. split; [reflexivity | lia].
  - destruct (slice (raw d) (st + 4) (off d)) as [cov|] eqn:E1; [|discriminate].
    destruct (slice (raw d) st (len (raw d))) as [tl|] eqn:E2; [|discriminate].
    destruct (len tl <? 4) eqn:E3; [discriminate|]. apply Z.ltb_ge in E3.
    destruct (crc32 p cov =? ube (firstn 4 tl)) eqn:E4; [|discriminate]. apply Z.eqb_eq in E4.
    injection H as _ <-. split; [reflexivity|]. exists cov, tl. repeat split; assumption.
Qed.
(* and a pop that does not succeed is an error of the matching kind, never anything else *)
Lemma pop_outcomes d : wf_dec d -> stack d <> [] ->
  (exists d', pop_dec d = Ok tt d') \/ (exists d', pop_dec d = Err ELengthField d') \/ (exists d', pop_dec d = Err ECrc d').
Proof.
  intros (Hd & Hs) Hne. unfold pop_dec. destruct (stack d) as [|f s] eqn:Es; [congruence|].
  inversion Hs as [|? ? Hf Hs']; subst.
  destruct f as [st l|st l|p st]; cbn [check_field]; psimpl.
  - destruct (i32 (off d - st - 4) =? l); eauto.
  - destruct (off d - st - len (put_varint l) =? l); eauto.
  - cbn [field_ok] in Hf. unfold inb in Hd.
    destruct (slice_ok (raw d) (st + 4) (off d) ltac:(lia) ltac:(lia) ltac:(lia)) as (cov & ->).
    destruct (slice_ok (raw d) st (len (raw d)) ltac:(lia) ltac:(lia) ltac:(lia)) as (tl & Htl). rewrite Htl.
    apply slice_some in Htl. replace (len tl <? 4) with false by (symmetry; apply Z.ltb_ge; lia).
    destruct (crc32 p cov =? ube (firstn 4 tl)); eauto.
Qed.
