(* Wire/PrimThms.v — the round-trip and sizing statements over all primitives and over scripts with frames. *)
From Coq Require Import List ZArith Bool Lia.
From SV Require Import Base.Corr Wire.Bytes Wire.BytesProofs Wire.Varint Wire.VarintProofs Wire.Crc Wire.Prim Wire.PushPop Wire.CorrPrim Wire.PrimProofs.
Import ListNotations.
Open Scope Z_scope.

Ltac Zify.zify_post_hook ::= Z.div_mod_to_equations.

(* ================================================================ the statement over all primitives *)
(* values a put-call may be given: in range for its Go type, collections below 2^31, int16-prefixed strings
   at most math.MaxInt16 bytes (prepEncoder rejects longer ones) *)
Definition strs_ok (l : list (list Z)) := Forall (fun s => len s <= MAX_INT16) l.
Definition prim_ok (p : eprim) : Prop :=
  match p with
  | PInt8 v => in_i8 v | PInt16 v => in_i16 v | PInt32 v => in_i32 v | PInt64 v => in_i64 v
  | PVarint v => in_i64 v | PUVarint v => in_u64 v
  | PArrayLength n => -1 <= n <= MAX_ARRAY
  | PCompactArrayLength n => -1 <= n < MAXLEN
  | PBool _ | PEmptyTagged => True
  | PBytes o | PVarintBytes o | PCompactBytes o | PRawBytes o => len (olist o) < MAXLEN
  | PString s => len s <= MAX_INT16
  | PNullableString o => len (olist o) <= MAX_INT16
  | PCompactString s => len s < MAXLEN
  | PNullableCompactString o => len (olist o) < MAXLEN
  | PStringArray o => len (olist o) < MAXLEN /\ strs_ok (olist o)
  | PCompactInt32Array o | PNullableCompactInt32Array o | PInt32Array o => len (olist o) < MAXLEN /\ Forall in_i32 (olist o)
  | PInt64Array o => len (olist o) < MAXLEN /\ Forall in_i64 (olist o)
  end.
(* an array length is only accepted when at least that many bytes follow it *)
Definition ctx_ok (p : eprim) (following : Z) : Prop :=
  match p with
  | PArrayLength n | PCompactArrayLength n => n <= following
  | _ => True
  end.
(* nil and empty are the same on the wire for these: both decode as nil *)
Definition nil_if_empty {A} (o : option (list A)) : option (list A) :=
  match olist o with [] => None | l => Some l end.
(* what the mirror getter returns (nil vs empty kept wherever the wire format keeps it) *)
Definition expected (p : eprim) : dval :=
  match p with
  | PInt8 v | PInt16 v | PInt32 v | PInt64 v | PVarint v | PUVarint v => VInt v
  | PArrayLength n => VInt n
  | PCompactArrayLength n => VInt (Z.max n 0)          (* the null array (-1) decodes as length 0 *)
  | PBool b => VBool b
  | PBytes o | PVarintBytes o => VBytes o
  | PCompactBytes o | PRawBytes o => VBytes (Some (olist o))   (* nil decodes as empty *)
  | PString s | PCompactString s => VBytes (Some s)
  | PNullableString o | PNullableCompactString o => VBytes o
  | PStringArray o => VStrs (nil_if_empty o)
  | PCompactInt32Array o | PNullableCompactInt32Array o => VInts o
  | PInt32Array o | PInt64Array o => VInts (nil_if_empty o)
  | PEmptyTagged => VInt 0
  end.
(* bytes allocated by the getter *)
Definition cost (p : eprim) : Z :=
  match p with
  | PString s | PCompactString s => len s
  | PNullableString o | PNullableCompactString o => len (olist o)
  | PStringArray o => STRING_HEADER * len (olist o) + sum_len (olist o)
  | PCompactInt32Array o | PNullableCompactInt32Array o | PInt32Array o => 4 * len (olist o)
  | PInt64Array o => 8 * len (olist o)
  | _ => 0
  end.

Lemma inr_inj {A B} (a b : B) : @inr A B a = inr b -> a = b.
Proof. congruence. Qed.
Lemma okm_rmap {A B} (f : A -> B) r v d n c : okm r v d n c -> okm (rmap f r) (f v) d n c.
Proof. intros (d' & E & M). exists d'. unfold rmap. rewrite E. cbn. split; [reflexivity | assumption]. Qed.
Lemma okm_eq {A} (r : res A) v d n c n' c' : okm r v d n c -> n = n' -> c = c' -> okm r v d n' c'.
Proof. intros H -> ->. exact H. Qed.

Ltac rt_finish_f f L := eapply okm_eq; [apply (okm_rmap f); eapply L; eauto | rewrite ?len_app, ?len_be; try reflexivity; try lia | try reflexivity; try lia].
Ltac rt_finish L := eapply okm_eq; [apply okm_rmap; eapply L; eauto | rewrite ?len_app, ?len_be; try reflexivity; try lia | try reflexivity; try lia].

Theorem prim_roundtrip p bs d rest :
  prim_ok p -> real_prim p = inr bs -> at_ d (bs ++ rest) -> ctx_ok p (remaining d - len bs) ->
  okm (run_dop (dop_of_prim p) d) (expected p) d (len bs) (cost p).
Proof.
  intros Hok Hreal Hat Hctx.
  destruct p; cbn [real_prim] in Hreal; cbn [prim_ok] in Hok; cbn [dop_of_prim run_dop expected cost ctx_ok] in *;
    try (apply inr_inj in Hreal; subst bs).
  - rt_finish get_int8_rt.
  - rt_finish get_int16_rt.
  - rt_finish get_int32_rt.
  - rt_finish get_int64_rt.
  - rt_finish get_varint_rt.
  - rt_finish get_uvarint_rt.
  - rewrite len_be in Hctx. rt_finish get_array_length_rt.
  - rt_finish get_compact_array_length_rt.
  - rt_finish get_bool_rt.
  - destruct o as [l|]; apply inr_inj in Hreal; subst bs; cbn [olist] in *.
    + rt_finish get_bytes_some.
    + rt_finish get_bytes_none.
  - destruct o as [l|]; apply inr_inj in Hreal; subst bs; cbn [olist] in *.
    + rt_finish get_varint_bytes_some.
    + rt_finish get_varint_bytes_none.
  - rt_finish get_compact_bytes_rt.
  - rt_finish_f (fun b => VBytes (Some b)) get_raw_bytes_rt.
  - rt_finish_f (fun b => VBytes (Some b)) get_string_rt.
  - destruct o as [l|]; apply inr_inj in Hreal; subst bs; cbn [olist] in *.
    + rt_finish get_nullable_string_some.
    + rt_finish get_nullable_string_none.
  - rt_finish_f (fun b => VBytes (Some b)) get_compact_string_rt.
  - destruct o as [l|]; apply inr_inj in Hreal; subst bs; cbn [olist] in *.
    + rt_finish get_compact_nullable_string_some.
    + rt_finish get_compact_nullable_string_none.
  - destruct Hok as (Hl & Hs). unfold nil_if_empty. destruct (olist o) as [|s l] eqn:El.
    + change (len (@nil (list Z))) with 0 in *. cbn [real_strings] in *. rewrite app_nil_r in *.
      cbn [sum_len]. rt_finish get_string_array_empty.
    + rewrite <- El in *. assert (0 < len (olist o)) by (rewrite El, len_cons; pose proof (len_nonneg l); lia).
      rewrite len_app, len_be. rt_finish get_string_array_some.
  - destruct o as [l|]; [apply inr_inj in Hreal; subst bs | discriminate]. destruct Hok. cbn [olist] in *.
    rewrite len_app, len_real_ints. rt_finish get_compact_int32_array_some.
  - destruct Hok. destruct o as [l|]; apply inr_inj in Hreal; subst bs; cbn [olist] in *.
    + rewrite len_app, len_real_ints. rt_finish get_compact_int32_array_some.
    + change (len (@nil Z)) with 0. rt_finish get_compact_int32_array_none.
  - destruct Hok as (Hl & Hs). unfold nil_if_empty. destruct (olist o) as [|v l] eqn:El.
    + change (len (@nil Z)) with 0 in *. cbn [real_ints] in *. rewrite app_nil_r in *.
      rt_finish get_int_array_empty.
    + rewrite <- El in *. assert (0 < len (olist o)) by (rewrite El, len_cons; pose proof (len_nonneg l); lia).
      rewrite len_app, len_be, len_real_ints. unfold get_int32_array. change (get_int_array 4 i32 d) with (get_int_array (Z.of_nat 4) i32 d).
      rt_finish get_int_array_some; try lia; now apply forall_i32.
  - destruct Hok as (Hl & Hs). unfold nil_if_empty. destruct (olist o) as [|v l] eqn:El.
    + change (len (@nil Z)) with 0 in *. cbn [real_ints] in *. rewrite app_nil_r in *.
      rt_finish get_int_array_empty.
    + rewrite <- El in *. assert (0 < len (olist o)) by (rewrite El, len_cons; pose proof (len_nonneg l); lia).
      rewrite len_app, len_be, len_real_ints. unfold get_int64_array. change (get_int_array 8 i64 d) with (get_int_array (Z.of_nat 8) i64 d).
      rt_finish get_int_array_some; try lia; now apply forall_i64.
  - rt_finish get_empty_tagged_rt.
Qed.
