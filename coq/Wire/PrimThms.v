(* Wire/PrimThms.v — the round-trip and sizing statements over all primitives and over scripts with frames. *)
From Coq Require Import List ZArith Bool Lia.
From SV Require Import Base.Corr Wire.Bytes Wire.BytesProofs Wire.Varint Wire.VarintProofs Wire.Crc Wire.CrcProofs Wire.Prim Wire.PushPop Wire.CorrPrim Wire.PrimProofs.
Import ListNotations.
Open Scope Z_scope.

Ltac Zify.zify_post_hook ::= Z.div_mod_to_equations.

(* ================================================================ the statement over all primitives *)
(* values a put-call may be given: in range for its Go type, collections below 2^31, int16-prefixed strings
   at most math.MaxInt16 bytes (prepEncoder rejects longer ones) *)
Definition strs_ok (l : list (list Z)) := Forall (fun s => len s <= MAX_INT16) l.
Definition prim_ok (p : eprim) : Prop :=
  match p with
  | PInt8 v => in_i8 v | PInt16 v => in_i16 v | PInt32 v => in_i32 v | PInt64 v => in_i64 v
  | PVarint v => in_i64 v | PUVarint v => in_u64 v
  | PArrayLength n => -1 <= n <= MAX_ARRAY
  | PCompactArrayLength n => -1 <= n < MAXLEN
  | PBool _ | PEmptyTagged => True
  | PBytes o | PVarintBytes o | PCompactBytes o | PRawBytes o => len (olist o) < MAXLEN
  | PString s => len s <= MAX_INT16
  | PNullableString o => len (olist o) <= MAX_INT16
  | PCompactString s => len s < MAXLEN
  | PNullableCompactString o => len (olist o) < MAXLEN
  | PStringArray o => len (olist o) < MAXLEN /\ strs_ok (olist o)
  | PCompactInt32Array o | PNullableCompactInt32Array o | PInt32Array o => len (olist o) < MAXLEN /\ Forall in_i32 (olist o)
  | PInt64Array o => len (olist o) < MAXLEN /\ Forall in_i64 (olist o)
  end.
(* an array length is only accepted when at least that many bytes follow it *)
Definition ctx_ok (p : eprim) (following : Z) : Prop :=
  match p with
  | PArrayLength n | PCompactArrayLength n => n <= following
  | _ => True
  end.
(* nil and empty are the same on the wire for these: both decode as nil *)
Definition nil_if_empty {A} (o : option (list A)) : option (list A) :=
  match olist o with [] => None | l => Some l end.
(* what the mirror getter returns (nil vs empty kept wherever the wire format keeps it) *)
Definition expected (p : eprim) : dval :=
  match p with
  | PInt8 v | PInt16 v | PInt32 v | PInt64 v | PVarint v | PUVarint v => VInt v
  | PArrayLength n => VInt n
  | PCompactArrayLength n => VInt (Z.max n 0)          (* the null array (-1) decodes as length 0 *)
  | PBool b => VBool b
  | PBytes o | PVarintBytes o => VBytes o
  | PCompactBytes o | PRawBytes o => VBytes (Some (olist o))   (* nil decodes as empty *)
  | PString s | PCompactString s => VBytes (Some s)
  | PNullableString o | PNullableCompactString o => VBytes o
  | PStringArray o => VStrs (nil_if_empty o)
  | PCompactInt32Array o | PNullableCompactInt32Array o => VInts o
  | PInt32Array o | PInt64Array o => VInts (nil_if_empty o)
  | PEmptyTagged => VInt 0
  end.
(* bytes allocated by the getter *)
Definition cost (p : eprim) : Z :=
  match p with
  | PString s | PCompactString s => len s
  | PNullableString o | PNullableCompactString o => len (olist o)
  | PStringArray o => STRING_HEADER * len (olist o) + sum_len (olist o)
  | PCompactInt32Array o | PNullableCompactInt32Array o | PInt32Array o => 4 * len (olist o)
  | PInt64Array o => 8 * len (olist o)
  | _ => 0
  end.

Lemma inr_inj {A B} (a b : B) : @inr A B a = inr b -> a = b.
Proof. congruence. Qed.
Lemma okm_rmap {A B} (f : A -> B) r v d n c : okm r v d n c -> okm (rmap f r) (f v) d n c.
Proof. intros (d' & E & M). exists d'. unfold rmap. rewrite E. cbn. split; [reflexivity | assumption]. Qed.
Lemma okm_eq {A} (r : res A) v d n c n' c' : okm r v d n c -> n = n' -> c = c' -> okm r v d n' c'.
Proof. intros H -> ->. exact H. Qed.

Ltac rt_finish_f f L := eapply okm_eq; [apply (okm_rmap f); eapply L; eauto | rewrite ?len_app, ?len_be; try reflexivity; try lia | try reflexivity; try lia].
Ltac rt_finish L := eapply okm_eq; [apply okm_rmap; eapply L; eauto | rewrite ?len_app, ?len_be; try reflexivity; try lia | try reflexivity; try lia].

Theorem prim_roundtrip p bs d rest :
  prim_ok p -> real_prim p = inr bs -> at_ d (bs ++ rest) -> ctx_ok p (remaining d - len bs) ->
  okm (run_dop (dop_of_prim p) d) (expected p) d (len bs) (cost p).
Proof.
  intros Hok Hreal Hat Hctx.
  destruct p; cbn [real_prim] in Hreal; cbn [prim_ok] in Hok; cbn [dop_of_prim run_dop expected cost ctx_ok] in *;
    try (apply inr_inj in Hreal; subst bs).
  - rt_finish get_int8_rt.
  - rt_finish get_int16_rt.
  - rt_finish get_int32_rt.
  - rt_finish get_int64_rt.
  - rt_finish get_varint_rt.
  - rt_finish get_uvarint_rt.
  - rewrite len_be in Hctx. rt_finish get_array_length_rt.
  - rt_finish get_compact_array_length_rt.
  - rt_finish get_bool_rt.
  - destruct o as [l|]; apply inr_inj in Hreal; subst bs; cbn [olist] in *.
    + rt_finish get_bytes_some.
    + rt_finish get_bytes_none.
  - destruct o as [l|]; apply inr_inj in Hreal; subst bs; cbn [olist] in *.
    + rt_finish get_varint_bytes_some.
    + rt_finish get_varint_bytes_none.
  - rt_finish get_compact_bytes_rt.
  - rt_finish_f (fun b => VBytes (Some b)) get_raw_bytes_rt.
  - rt_finish_f (fun b => VBytes (Some b)) get_string_rt.
  - destruct o as [l|]; apply inr_inj in Hreal; subst bs; cbn [olist] in *.
    + rt_finish get_nullable_string_some.
    + rt_finish get_nullable_string_none.
  - rt_finish_f (fun b => VBytes (Some b)) get_compact_string_rt.
  - destruct o as [l|]; apply inr_inj in Hreal; subst bs; cbn [olist] in *.
    + rt_finish get_compact_nullable_string_some.
    + rt_finish get_compact_nullable_string_none.
  - destruct Hok as (Hl & Hs). unfold nil_if_empty. destruct (olist o) as [|s l] eqn:El.
    + change (len (@nil (list Z))) with 0 in *. cbn [real_strings] in *. rewrite app_nil_r in *.
      cbn [sum_len]. rt_finish get_string_array_empty.
    + rewrite <- El in *. assert (0 < len (olist o)) by (rewrite El, len_cons; pose proof (len_nonneg l); lia).
      rewrite len_app, len_be. rt_finish get_string_array_some.
  - destruct o as [l|]; [apply inr_inj in Hreal; subst bs | discriminate]. destruct Hok. cbn [olist] in *.
    rewrite len_app, len_real_ints. rt_finish get_compact_int32_array_some.
  - destruct Hok. destruct o as [l|]; apply inr_inj in Hreal; subst bs; cbn [olist] in *.
    + rewrite len_app, len_real_ints. rt_finish get_compact_int32_array_some.
    + change (len (@nil Z)) with 0. rt_finish get_compact_int32_array_none.
  - destruct Hok as (Hl & Hs). unfold nil_if_empty. destruct (olist o) as [|v l] eqn:El.
    + change (len (@nil Z)) with 0 in *. cbn [real_ints] in *. rewrite app_nil_r in *.
      rt_finish get_int_array_empty.
    + rewrite <- El in *. assert (0 < len (olist o)) by (rewrite El, len_cons; pose proof (len_nonneg l); lia).
      rewrite len_app, len_be, len_real_ints. unfold get_int32_array. change (get_int_array 4 i32 d) with (get_int_array (Z.of_nat 4) i32 d).
      rt_finish get_int_array_some; try lia; now apply forall_i32.
  - destruct Hok as (Hl & Hs). unfold nil_if_empty. destruct (olist o) as [|v l] eqn:El.
    + change (len (@nil Z)) with 0 in *. cbn [real_ints] in *. rewrite app_nil_r in *.
      rt_finish get_int_array_empty.
    + rewrite <- El in *. assert (0 < len (olist o)) by (rewrite El, len_cons; pose proof (len_nonneg l); lia).
      rewrite len_app, len_be, len_real_ints. unfold get_int64_array. change (get_int_array 8 i64 d) with (get_int_array (Z.of_nat 8) i64 d).
      rt_finish get_int_array_some; try lia; now apply forall_i64.
  - rt_finish get_empty_tagged_rt.
Qed.

(* ================================================================ sizing pass = writing pass, per primitive *)
Lemma prep_strings_len l n : prep_strings l = inr n -> n = len (real_strings l).
Proof.
  revert n; induction l as [|s l IH]; intros n; cbn [prep_strings real_strings].
  - intros H; apply inr_inj in H; now subst n.
  - destruct (MAX_INT16 <? len s); [discriminate|]. destruct (prep_strings l) as [e|m]; [discriminate|].
    intros H; apply inr_inj in H; subst n. rewrite !len_app, len_be, <- (IH m eq_refl). change (Z.of_nat 2) with 2. lia.
Qed.

Theorem prim_sizing p n : prep_prim p = inr n -> exists bs, real_prim p = inr bs /\ len bs = n.
Proof.
  unfold psize.
  destruct p; cbn [prep_prim real_prim]; unfold prep_string; intros H;
    repeat match goal with
           | o : option _ |- _ => destruct o
           | H : context [if ?c then _ else _] |- _ => destruct c
           | H : context [match prep_strings ?l with _ => _ end] |- _ =>
             let E := fresh "E" in destruct (prep_strings l) eqn:E; [discriminate | apply prep_strings_len in E]
           end;
    try discriminate; apply inr_inj in H; subst n; eexists; (split; [reflexivity|]);
    cbn [olist] in *; subst; rewrite ?len_app, ?len_be, ?len_real_ints; try change (len (@nil Z)) with 0; try change (len (@nil (list Z))) with 0;
    try reflexivity; try lia.
Qed.

(* ================================================================ scripts: two passes, frames *)
Lemma len_zeros_reserve k : len (zeros (Z.to_nat (reserve k))) = reserve k.
Proof.
  rewrite len_zeros. assert (0 <= reserve k) by (destruct k; cbn [reserve]; try lia; apply len_nonneg). lia.
Qed.

Definition frame_field (k : pushkind) (body : list Z) : list Z :=
  match k with
  | KLen => be 4 (len body)
  | KVarLen _ => put_varint (len body)
  | KCrc p => be 4 (crc32 p body)
  end.
Lemma spec_bytes_frame k body rest :
  spec_bytes (EFrame k body rest) =
  match spec_bytes body, spec_bytes rest with
  | inl e, _ => inl e
  | _, inl e => inl e
  | inr b, inr r => inr (frame_field k b ++ b ++ r)
  end.
Proof. cbn [spec_bytes]. destruct (spec_bytes body), (spec_bytes rest); try reflexivity. destruct k; reflexivity. Qed.

(* the field value the real pass computes at pop depends only on the body bytes, and fills the reserved bytes *)
Lemma len_frame_field k b : (match k with KVarLen l => l = len b | _ => True end) -> len (frame_field k b) = reserve k.
Proof. destruct k as [|l|p]; cbn [frame_field reserve]; intros H; rewrite ?len_be; try reflexivity. now subst. Qed.

Lemma real_frame k b buf : (match k with KVarLen l => l = len b | _ => True end) ->
  field_bytes k (len buf) ((buf ++ zeros (Z.to_nat (reserve k))) ++ b) = Some (frame_field k b) /\
  patch ((buf ++ zeros (Z.to_nat (reserve k))) ++ b) (len buf) (frame_field k b) = Some (buf ++ frame_field k b ++ b).
Proof.
  intros Hk. pose proof (len_frame_field k b Hk) as Hlen.
  set (z := zeros (Z.to_nat (reserve k))) in *.
  assert (Hz : len z = reserve k) by apply len_zeros_reserve.
  split.
  - destruct k as [|l|p]; cbn [field_bytes frame_field reserve] in *.
    + f_equal. f_equal. rewrite !len_app, Hz. lia.
    + now subst.
    + replace (len buf + 4) with (len (buf ++ z)) by (rewrite len_app, Hz; reflexivity).
      now rewrite slice_tail.
  - rewrite <- app_assoc. apply patch_mid. lia.
Qed.

(* Main lemma: whatever the first pass computes, the second pass (on the tree as the first pass left it) appends
   exactly the specified bytes to the buffer, and their number is what the first pass added to pe.length. *)
Lemma prep_real ops : forall p n ops', run_prep ops p = inr (n, ops') ->
  exists bs, spec_bytes ops = inr bs /\ n = p + len bs /\ (forall buf, run_real ops' buf = Some (inr (buf ++ bs))).
Proof.
  induction ops as [|pr rest IHr|k body IHb rest IHr]; intros p n ops' H; cbn [run_prep] in H.
  - injection H as <- <-. exists []. cbn [spec_bytes run_real]. repeat split; [change (len (@nil Z)) with 0; lia|].
    intros buf. now rewrite app_nil_r.
  - destruct (prep_prim pr) as [e|m] eqn:Ep; [discriminate|].
    destruct (run_prep rest (p + m)) as [e|[n' rest']] eqn:Er; [discriminate|]. injection H as <- <-.
    destruct (prim_sizing pr m Ep) as (bp & Erp & Elp).
    destruct (IHr _ _ _ Er) as (br & Esr & En & Hreal).
    exists (bp ++ br). cbn [spec_bytes run_real]. rewrite Erp, Esr. repeat split; [rewrite len_app; lia|].
    intros buf. rewrite Hreal, <- app_assoc. reflexivity.
  - destruct (run_prep body (p + reserve k)) as [e|[cur body']] eqn:Eb; [discriminate|].
    destruct (prep_pop k p cur) as [cur' k'] eqn:Epop.
    destruct (run_prep rest cur') as [e|[n' rest']] eqn:Er; [discriminate|]. injection H as <- <-.
    destruct (IHb _ _ _ Eb) as (bb & Esb & Ecur & Hrb).
    destruct (IHr _ _ _ Er) as (br & Esr & En & Hrr).
    assert (Hk : (match k' with KVarLen l => l = len bb | _ => True end) /\ cur' = p + reserve k' + len bb /\ frame_field k' bb = frame_field k bb).
    { destruct k as [|l|pl]; cbn [prep_pop] in Epop; injection Epop as <- <-; cbn [reserve frame_field] in *.
      - repeat split; lia.
      - repeat split; lia.
      - repeat split; lia. }
    destruct Hk as (Hk & Hcur' & Hff).
    exists (frame_field k bb ++ bb ++ br). rewrite spec_bytes_frame, Esb, Esr.
    repeat split.
    + rewrite !len_app, <- Hff, (len_frame_field k' bb Hk). lia.
    + intros buf. cbn [run_real]. rewrite Hrb.
      destruct (real_frame k' bb buf Hk) as (Hf & Hp). rewrite Hf, Hp, Hrr, Hff, <- !app_assoc. reflexivity.
Qed.

Theorem encode_spec ops n : prep_size ops = inr n -> 0 <= n <= MAX_REQUEST_SIZE ->
  exists bs, encode ops = EncOk bs /\ spec_bytes ops = inr bs /\ len bs = n.
Proof.
  unfold prep_size, encode. destruct (run_prep ops 0) as [e|[m ops']] eqn:E; [discriminate|]. intros [= ->] Hn.
  destruct (prep_real ops _ _ _ E) as (bs & Es & En & Hr). exists bs.
  replace ((n <? 0) || (MAX_REQUEST_SIZE <? n)) with false
    by (symmetry; apply orb_false_iff; split; apply Z.ltb_ge; lia).
  rewrite (Hr []). cbn [app]. replace (n <? len bs) with false by (symmetry; apply Z.ltb_ge; lia).
  replace (n - len bs) with 0 by lia. cbn [Z.to_nat zeros]. rewrite app_nil_r. repeat split; [assumption | lia].
Qed.

Theorem encode_ok_spec ops bs : encode ops = EncOk bs ->
  spec_bytes ops = inr bs /\ prep_size ops = inr (len bs).
Proof.
  unfold encode, prep_size. destruct (run_prep ops 0) as [e|[n ops']] eqn:E; [discriminate|].
  destruct ((n <? 0) || (MAX_REQUEST_SIZE <? n)); [discriminate|].
  destruct (prep_real ops _ _ _ E) as (bs' & Es & En & Hr). rewrite (Hr []). cbn [app].
  replace (n <? len bs') with false by (symmetry; apply Z.ltb_ge; lia).
  replace (n - len bs') with 0 by lia. cbn [Z.to_nat zeros]. rewrite app_nil_r. intros [= <-].
  split; [assumption | f_equal; lia].
Qed.

(* the encoding never panics and never leaves slack: the writing pass fills the buffer of the sizing pass exactly *)
Theorem encode_no_panic ops : encode ops <> EncPanic.
Proof.
  unfold encode. destruct (run_prep ops 0) as [e|[n ops']] eqn:E; [discriminate|].
  destruct ((n <? 0) || (MAX_REQUEST_SIZE <? n)); [discriminate|].
  destruct (prep_real ops _ _ _ E) as (bs' & Es & En & Hr). rewrite (Hr []). cbn [app].
  replace (n <? len bs') with false by (symmetry; apply Z.ltb_ge; lia). discriminate.
Qed.

(* length / CRC fields: a frame is its field followed by the body; the field is the body's byte count (int32 or
   zig-zag varint, whatever stale value the varint field held before) resp. the CRC-32 / CRC-32C of exactly the body *)
Theorem frame_spec k body rest bs : encode (EFrame k body rest) = EncOk bs ->
  exists b r, spec_bytes body = inr b /\ spec_bytes rest = inr r /\ bs = frame_field k b ++ b ++ r.
Proof.
  intros H. apply encode_ok_spec in H as (H & _). rewrite spec_bytes_frame in H.
  destruct (spec_bytes body) as [e|b]; [discriminate|]. destruct (spec_bytes rest) as [e|r]; [discriminate|].
  exists b, r. repeat split. now injection H as <-.
Qed.

(* ================================================================ decoding a script's bytes with the mirror script *)
Inductive runs : list dop -> dec -> list dval -> dec -> Prop :=
| runs_nil d : runs [] d [] d
| runs_cons o r d v d1 vs d2 : run_dop o d = Ok v d1 -> runs r d1 vs d2 -> runs (o :: r) d (v :: vs) d2.

Lemma runs_app a b d va d1 vb d2 : runs a d va d1 -> runs b d1 vb d2 -> runs (a ++ b) d (va ++ vb) d2.
Proof. induction 1; intros Hb; cbn [app]; [assumption | econstructor; eauto]. Qed.
Lemma runs_run_dops ops d vs d' : runs ops d vs d' -> run_dops ops d = (vs, (0, off d')).
Proof. induction 1; cbn [run_dops]; [reflexivity|]. now rewrite H, IHruns. Qed.

Fixpoint expected_vals (ops : eops) : list dval :=
  match ops with
  | ENil => []
  | ECons p r => expected p :: expected_vals r
  | EFrame _ body r => VUnit :: expected_vals body ++ VUnit :: expected_vals r
  end.
Fixpoint cost_ops (ops : eops) : Z :=
  match ops with
  | ENil => 0
  | ECons p r => cost p + cost_ops r
  | EFrame _ body r => cost_ops body + cost_ops r
  end.
Definition blen (ops : eops) : Z := match spec_bytes ops with inr b => len b | inl _ => 0 end.
(* [follow] = number of bytes in the buffer after this script's bytes *)
Fixpoint ops_ok (ops : eops) (follow : Z) : Prop :=
  match ops with
  | ENil => True
  | ECons p r => prim_ok p /\ ctx_ok p (blen r + follow) /\ ops_ok r follow
  | EFrame _ body r => blen body < MAXLEN /\ ops_ok body (blen r + follow) /\ ops_ok r follow
  end.

Definition field_of (k : pushkind) (start bodylen : Z) : dfield :=
  match k with KLen => DLen start bodylen | KVarLen _ => DVarLen start bodylen | KCrc p => DCrc p start end.

Lemma push_dec_rt k bb d tail :
  at_ d (frame_field k bb ++ tail) -> len bb <= len tail -> len bb < MAXLEN -> len (raw d) < MAXLEN ->
  exists d1, push_dec k d = Ok tt d1 /\ raw d1 = raw d /\ off d1 = off d + len (frame_field k bb) /\
             mem d1 = mem d /\ stack d1 = field_of k (off d) (len bb) :: stack d.
Proof.
  intros Hat Hfit Hl Hraw. unfold MAXLEN in *. pose proof (len_nonneg bb). pose proof (at_off _ _ Hat).
  destruct k as [|l|p]; cbn [push_dec frame_field field_of] in *.
  - pose proof (get_int32_rt (len bb) d tail ltac:(unfold in_i32; lia) Hat) as G. step G.
    destruct M as (A1 & A2 & A3 & A4).
    assert (Hat1 : at_ d1 tail).
    { eapply at_moved; [exact Hat|]. rewrite len_be. repeat split; eassumption. }
    pose proof (at_remaining _ _ Hat1) as Hrem.
    assert (Hr31 : remaining d1 < 2147483648) by (unfold remaining; rewrite A1; pose proof (at_off _ _ Hat1); lia).
    rewrite i32_id by (unfold in_i32; lia).
    replace (remaining d1 <? len bb) with false by (symmetry; apply Z.ltb_ge; lia).
    eexists; split; [reflexivity|]. cbn [raw off mem stack set_stack adv set_off]. rewrite len_be. repeat split; try assumption; [lia | now rewrite A4].
  - pose proof (get_varint_rt (len bb) d tail ltac:(unfold in_i64, two63; lia) Hat) as G. step G.
    destruct M as (A1 & A2 & A3 & A4).
    eexists; split; [reflexivity|]. cbn [raw off mem stack set_stack adv set_off]. repeat split; try assumption; [lia | now rewrite A4].
  - pose proof (at_remaining _ _ Hat) as Hrem. rewrite len_app, len_be in Hrem. pose proof (len_nonneg tail).
    change (Z.of_nat 4) with 4 in Hrem.
    replace (remaining d <? 4) with false by (symmetry; apply Z.ltb_ge; lia).
    eexists; split; [reflexivity|]. cbn [raw off mem stack set_stack adv set_off]. rewrite len_be. repeat split; reflexivity.
Qed.

Lemma firstn_app_exact {A} (a b : list A) : firstn (length a) (a ++ b) = a.
Proof. rewrite firstn_app, firstn_all, Nat.sub_diag. cbn. apply app_nil_r. Qed.

Lemma pop_dec_rt k bb d d2 tail s :
  at_ d (frame_field k bb ++ bb ++ tail) -> len bb < MAXLEN ->
  raw d2 = raw d -> off d2 = off d + len (frame_field k bb) + len bb ->
  stack d2 = field_of k (off d) (len bb) :: s ->
  pop_dec d2 = Ok tt (set_stack d2 s).
Proof.
  intros Hat Hl Hraw Hoff Hst. unfold pop_dec. rewrite Hst. unfold MAXLEN in *. pose proof (len_nonneg bb).
  destruct k as [|l|p]; cbn [field_of check_field frame_field] in *; cbn [off set_stack].
  - rewrite Hoff, len_be. change (Z.of_nat 4) with 4.
    replace (off d + 4 + len bb - off d - 4) with (len bb) by lia.
    rewrite i32_id by (unfold in_i32; lia). now rewrite Z.eqb_refl.
  - rewrite Hoff. replace (off d + len (put_varint (len bb)) + len bb - off d - len (put_varint (len bb))) with (len bb) by lia.
    now rewrite Z.eqb_refl.
  - change (raw (set_stack d2 s)) with (raw d2). rewrite Hraw, Hoff, len_be. change (Z.of_nat 4) with 4.
    destruct Hat as (pre & suf & Hr & Ho). rewrite Hr, Ho.
    assert (S1 : slice (pre ++ (be 4 (crc32 p bb) ++ bb ++ tail) ++ suf) (len pre + 4) (len pre + 4 + len bb) = Some bb).
    { replace (pre ++ (be 4 (crc32 p bb) ++ bb ++ tail) ++ suf) with ((pre ++ be 4 (crc32 p bb)) ++ bb ++ (tail ++ suf))
        by (now rewrite <- !app_assoc).
      replace (len pre + 4) with (len (pre ++ be 4 (crc32 p bb))) by (rewrite len_app, len_be; reflexivity).
      apply slice_mid. }
    rewrite S1, slice_tail.
    rewrite <- !app_assoc. rewrite !len_app, len_be. pose proof (len_nonneg tail). pose proof (len_nonneg suf).
    change (Z.of_nat 4) with 4.
    replace (4 + (len bb + (len tail + len suf)) <? 4) with false by (symmetry; apply Z.ltb_ge; lia).
    change 4%nat with (length (be 4 (crc32 p bb))) at 1.
    rewrite firstn_app_exact, u32_be by apply crc32_range. now rewrite Z.eqb_refl.
Qed.

Lemma at_shift d d1 a b : at_ d (a ++ b) -> raw d1 = raw d -> off d1 = off d + len a -> at_ d1 b.
Proof.
  intros (pre & suf & Hr & Ho) A1 A2. exists (pre ++ a), suf. split.
  - rewrite A1, Hr, <- !app_assoc. reflexivity.
  - rewrite A2, Ho, len_app. reflexivity.
Qed.
Lemma remaining_shift d d1 n : raw d1 = raw d -> off d1 = off d + n -> remaining d1 = remaining d - n.
Proof. unfold remaining. intros -> ->. lia. Qed.

Lemma blen_eq ops bs : spec_bytes ops = inr bs -> blen ops = len bs.
Proof. unfold blen. now intros ->. Qed.

Theorem script_roundtrip ops : forall bs d rest,
  spec_bytes ops = inr bs -> at_ d (bs ++ rest) -> ops_ok ops (remaining d - len bs) -> len (raw d) < MAXLEN ->
  exists d', runs (dops_of ops) d (expected_vals ops) d' /\ moved d d' (len bs) (cost_ops ops).
Proof.
  induction ops as [|p r IHr|k body IHb r IHr]; intros bs d rest Hs Hat Hok Hraw.
  - cbn [spec_bytes] in Hs. apply inr_inj in Hs. subst bs. exists d. split; [constructor | apply moved_refl].
  - cbn [spec_bytes] in Hs. destruct (real_prim p) as [e|bp] eqn:Ep; [discriminate|].
    destruct (spec_bytes r) as [e|br] eqn:Er; [discriminate|]. apply inr_inj in Hs. subst bs.
    cbn [ops_ok] in Hok. destruct Hok as (Hp & Hc & Hr). rewrite (blen_eq r br Er), len_app in *.
    rewrite <- app_assoc in Hat.
    assert (Hc' : ctx_ok p (remaining d - len bp)).
    { replace (remaining d - len bp) with (len br + (remaining d - (len bp + len br))) by lia. exact Hc. }
    destruct (prim_roundtrip p bp d (br ++ rest) Hp Ep Hat Hc') as (d1 & E1 & M1).
    pose proof M1 as (A1 & A2 & A3 & A4).
    assert (Hat1 : at_ d1 (br ++ rest)) by (eapply at_moved; eassumption).
    assert (Hok1 : ops_ok r (remaining d1 - len br)).
    { rewrite (moved_remaining _ _ _ _ M1). replace (remaining d - len bp - len br) with (remaining d - (len bp + len br)) by lia. exact Hr. }
    destruct (IHr br d1 rest eq_refl Hat1 Hok1 ltac:(now rewrite A1)) as (d2 & R2 & M2).
    exists d2. split.
    + cbn [dops_of expected_vals]. econstructor; eassumption.
    + cbn [cost_ops]. eapply moved_trans; eassumption.
  - rewrite spec_bytes_frame in Hs. destruct (spec_bytes body) as [e|bb] eqn:Eb; [discriminate|].
    destruct (spec_bytes r) as [e|br] eqn:Er; [discriminate|]. apply inr_inj in Hs. subst bs.
    cbn [ops_ok] in Hok. destruct Hok as (Hlb & Hob & Hor).
    rewrite (blen_eq body bb Eb) in Hlb. rewrite (blen_eq r br Er) in Hob. rewrite !len_app in *.
    set (ff := frame_field k bb) in *.
    pose proof (len_nonneg bb). pose proof (len_nonneg br). pose proof (len_nonneg rest). pose proof (len_nonneg ff).
    assert (Hat0 : at_ d (ff ++ bb ++ br ++ rest)) by (now rewrite <- !app_assoc in Hat).
    destruct (push_dec_rt k bb d (bb ++ br ++ rest) Hat0 ltac:(rewrite !len_app; lia) Hlb Hraw)
      as (d1 & E1 & A1 & A2 & A3 & A4). fold ff in A2.
    assert (Hat1 : at_ d1 (bb ++ br ++ rest)) by (eapply at_shift; eassumption).
    assert (Hok1 : ops_ok body (remaining d1 - len bb)).
    { rewrite (remaining_shift d d1 (len ff) A1 A2).
      replace (remaining d - len ff - len bb) with (len br + (remaining d - (len ff + (len bb + len br)))) by lia. exact Hob. }
    destruct (IHb bb d1 (br ++ rest) eq_refl Hat1 Hok1 ltac:(now rewrite A1)) as (d2 & R2 & M2).
    pose proof M2 as (B1 & B2 & B3 & B4).
    assert (Epop : pop_dec d2 = Ok tt (set_stack d2 (stack d))).
    { apply (pop_dec_rt k bb d d2 (br ++ rest)); try assumption.
      - congruence.
      - fold ff. lia.
      - congruence. }
    set (d3 := set_stack d2 (stack d)) in *.
    assert (C1 : raw d3 = raw d) by (cbn; congruence).
    assert (C2 : off d3 = off d + len (ff ++ bb)) by (cbn; rewrite len_app; lia).
    assert (Hat3 : at_ d3 (br ++ rest)).
    { apply (at_shift d d3 (ff ++ bb)); [now rewrite <- !app_assoc | assumption | assumption]. }
    assert (Hok3 : ops_ok r (remaining d3 - len br)).
    { rewrite (remaining_shift d d3 _ C1 C2), len_app.
      replace (remaining d - (len ff + len bb) - len br) with (remaining d - (len ff + (len bb + len br))) by lia. exact Hor. }
    destruct (IHr br d3 rest eq_refl Hat3 Hok3 ltac:(now rewrite C1)) as (d4 & R4 & M4).
    pose proof M4 as (D1 & D2 & D3 & D4).
    exists d4. split.
    + cbn [dops_of expected_vals]. econstructor.
      * cbn [run_dop]. rewrite E1. reflexivity.
      * eapply runs_app; [exact R2|]. econstructor; [|exact R4]. cbn [run_dop]. rewrite Epop. reflexivity.
    + cbn [cost_ops]. unfold moved. repeat split.
      * congruence.
      * rewrite D2, C2, len_app. lia.
      * rewrite D3. cbn [d3 mem set_stack]. lia.
      * rewrite D4. reflexivity.
Qed.

(* the closed form used by the correspondence: run_dops on the encoding gives exactly the expected values *)
Corollary script_roundtrip_run ops bs pre suf :
  spec_bytes ops = inr bs -> ops_ok ops (len suf) -> len (pre ++ bs ++ suf) < MAXLEN ->
  run_dops (dops_of ops) (mkDec (pre ++ bs ++ suf) (len pre) 0 []) = (expected_vals ops, (0, len pre + len bs)).
Proof.
  intros Hs Hok Hraw. set (d := mkDec (pre ++ bs ++ suf) (len pre) 0 []).
  assert (Hat : at_ d (bs ++ [])) by (exists pre, suf; rewrite app_nil_r; split; reflexivity).
  assert (Hrem : remaining d - len bs = len suf) by (unfold remaining; cbn; rewrite !len_app; lia).
  destruct (script_roundtrip ops bs d [] Hs Hat ltac:(now rewrite Hrem) Hraw) as (d' & R & M).
  rewrite (runs_run_dops _ _ _ _ R). destruct M as (_ & M2 & _). now rewrite M2.
Qed.

Theorem encode_ok_size ops bs : encode ops = EncOk bs -> len bs <= MAX_REQUEST_SIZE.
Proof.
  unfold encode. destruct (run_prep ops 0) as [e|[n ops']] eqn:E; [discriminate|].
  destruct ((n <? 0) || (MAX_REQUEST_SIZE <? n)) eqn:En; [discriminate|].
  apply orb_false_iff in En as (_ & En). apply Z.ltb_ge in En.
  destruct (prep_real ops _ _ _ E) as (bs' & Es & Hn & Hr). rewrite (Hr []). cbn [app].
  replace (n <? len bs') with false by (symmetry; apply Z.ltb_ge; lia).
  replace (n - len bs') with 0 by lia. cbn [Z.to_nat zeros]. rewrite app_nil_r. intros [= <-]. lia.
Qed.

Lemma spec_bytes_cons p rest : spec_bytes (ECons p rest) =
  match real_prim p, spec_bytes rest with inl e, _ => inl e | _, inl e => inl e | inr a, inr b => inr (a ++ b) end.
Proof. reflexivity. Qed.

(* peekInt8(offset) sees the byte that many bytes ahead *)
Lemma peek_int8_at d p b tl : at_ d (p ++ b :: tl) -> 0 <= b < 256 -> peek_int8 (len p) d = Ok (i8 b) d.
Proof.
  intros (pre & suf & Hr & Ho) Hb. unfold peek_int8, byte_at, remaining. rewrite Hr, Ho, !len_app, len_cons.
  pose proof (len_nonneg pre). pose proof (len_nonneg suf). pose proof (len_nonneg tl). pose proof (len_nonneg p).
  replace (_ <? len p + 1) with false by (symmetry; apply Z.ltb_ge; lia).
  replace ((0 <=? len pre + len p) && (len pre + len p <? _)) with true
    by (symmetry; apply andb_true_iff; split; [apply Z.leb_le | apply Z.ltb_lt]; lia).
  replace (pre ++ (p ++ b :: tl) ++ suf) with ((pre ++ p) ++ b :: (tl ++ suf)) by (now rewrite <- !app_assoc).
  replace (Z.to_nat (len pre + len p)) with (length (pre ++ p)) by (rewrite app_length; unfold len; lia).
  now rewrite nth_middle.
Qed.
