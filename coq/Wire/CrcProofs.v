(* Wire/CrcProofs.v — the CRC register stays a 32-bit value; check values of both polynomials. *)
From Coq Require Import List ZArith Bool Lia.
From SV Require Import Wire.Bytes Wire.BytesProofs Wire.Crc.
Import ListNotations.
Open Scope Z_scope.

Lemma lxor_lt_pow2 a b n : 0 < n -> 0 <= a < 2 ^ n -> 0 <= b < 2 ^ n -> 0 <= Z.lxor a b < 2 ^ n.
Proof.
  intros Hn Ha Hb. split; [apply Z.lxor_nonneg; lia|].
  assert (Hx : 0 <= Z.lxor a b) by (apply Z.lxor_nonneg; lia).
  assert (Z.lxor a b = 0 \/ 0 < Z.lxor a b) as [->|Hp] by lia; [apply Z.pow_pos_nonneg; lia|].
  apply Z.log2_lt_pow2; [assumption|].
  pose proof (Z.log2_lxor a b ltac:(lia) ltac:(lia)) as L.
  assert (La : Z.log2 a < n).
  { assert (a = 0 \/ 0 < a) as [->|P] by lia; [cbn; lia | apply Z.log2_lt_pow2; lia]. }
  assert (Lb : Z.log2 b < n).
  { assert (b = 0 \/ 0 < b) as [->|P] by lia; [cbn; lia | apply Z.log2_lt_pow2; lia]. }
  lia.
Qed.

Definition r32 (x : Z) := 0 <= x < 2 ^ 32.
Lemma poly_const_r32 p : r32 (poly_const p).
Proof. destruct p; unfold r32; cbn; lia. Qed.
Lemma crc_step_r32 pc c : r32 pc -> r32 c -> r32 (crc_step pc c).
Proof.
  unfold r32, crc_step. intros Hp Hc.
  assert (Hs : 0 <= Z.shiftr c 1 < 2 ^ 32).
  { rewrite Z.shiftr_div_pow2 by lia. change (2 ^ 1) with 2. change (2 ^ 32) with 4294967296 in *.
    split; [apply Z.div_pos; lia | apply Z.div_lt_upper_bound; lia]. }
  destruct (Z.odd c); [apply lxor_lt_pow2; lia | assumption].
Qed.
Lemma crc_step8_r32 pc c : r32 pc -> r32 c -> r32 (crc_step8 pc c).
Proof. intros Hp Hc. unfold crc_step8. repeat apply crc_step_r32; assumption. Qed.
Lemma crc_byte_r32 pc c b : r32 pc -> r32 c -> r32 (crc_byte pc c b).
Proof.
  intros Hp Hc. unfold crc_byte. apply crc_step8_r32; [assumption|]. unfold r32 in *.
  apply lxor_lt_pow2; [lia | assumption|].
  pose proof (Z.mod_pos_bound b 256 ltac:(lia)). change (2 ^ 32) with 4294967296. lia.
Qed.
Lemma fold_crc_r32 pc data c : r32 pc -> r32 c -> r32 (fold_left (crc_byte pc) data c).
Proof. revert c; induction data as [|b r IH]; intros c Hp Hc; cbn [fold_left]; [assumption|]. apply IH; [assumption|]. now apply crc_byte_r32. Qed.

Theorem crc32_range p data : 0 <= crc32 p data < two32.
Proof.
  unfold crc32. change two32 with (2 ^ 32). apply lxor_lt_pow2; [lia | | unfold mask32; lia].
  apply fold_crc_r32; [apply poly_const_r32 | unfold r32, mask32; lia].
Qed.

(* the standard check values: CRC-32("123456789") = 0xCBF43926, CRC-32C("123456789") = 0xE3069283 *)
Example crc32_check_ieee : crc32 IEEE [49;50;51;52;53;54;55;56;57] = 3421780262.
Proof. vm_compute. reflexivity. Qed.
Example crc32_check_castagnoli : crc32 Castagnoli [49;50;51;52;53;54;55;56;57] = 3808858755.
Proof. vm_compute. reflexivity. Qed.
Example crc32_tab_check : crc32_tab IEEE [49;50;51;52;53;54;55;56;57] = 3421780262 /\ crc32_tab Castagnoli [49;50;51;52;53;54;55;56;57] = 3808858755.
Proof. vm_compute. split; reflexivity. Qed.
