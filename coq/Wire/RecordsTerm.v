(* Wire/RecordsTerm.v — termination.  All decoders of the model are Coq fixpoints, hence total; the loops whose Go
   counterpart is not a counted loop are MessageSet.decode's `for pd.remaining() > 0` (modelled with fuel) and the
   recursion Message.decode -> decodeSet -> MessageSet.decode (modelled with a nesting depth).  This file shows that the
   loop's fuel is never what stops it: any amount of fuel above the number of remaining bytes gives the same result,
   because every iteration that continues has consumed at least 8 bytes.  (Counted loops: their counts are checked
   against the remaining bytes before the loop, see get_*_array_safe, record_decode_safe, batch_decode_safe.) *)
From Coq Require Import List ZArith Bool Lia.
From SV Require Import Base.Corr Wire.Bytes Wire.BytesProofs Wire.Varint Wire.Crc Wire.Prim Wire.PushPop Wire.CorrPrim
  Wire.SafetyProofs Wire.Records Wire.RecordsSafety Wire.RecordsDetect.
Import ListNotations.
Open Scope Z_scope.

Lemma block_progress msgdec d o m d' :
  (forall d1, inb d1 -> msafe d1 (msgdec d1)) -> inb d ->
  fst (block_decode_with msgdec d) = Ok (o, m) d' -> off d + 12 <= off d' /\ raw d' = raw d.
Proof.
  intros Hm Hd H. unfold block_decode_with in H.
  destruct (get_int64 d) as [o1 d1|? ?|?|?] eqn:E1; cbn [fst] in H; try discriminate.
  apply get_fixed_inv in E1 as (-> & _).
  destruct (push_dec KLen (adv d 8)) as [u d2|? ?|?|?] eqn:E2; cbn [bind] in H; try discriminate.
  apply push_len_inv in E2 as (ml & mlb & Hr & _ & ->).
  unfold read in Hr. apply slice_some in Hr. psimpl_in Hr.
  set (s0 := set_stack (adv (adv d 8) 4) (DLen (off (adv d 8)) ml :: stack (adv d 8))) in *.
  assert (Hs0 : inb s0) by (unfold inb in *; unfold s0; psimpl; lia).
  specialize (Hm s0 Hs0). destruct (msgdec s0) as [m1 d3|? ?|?|?]; cbn [bind msafe] in *; try discriminate.
  destruct Hm as ((M1 & M2 & _) & _).
  destruct (pop_dec d3) as [u2 d4|? ?|?|?] eqn:E4; cbn [bind] in H; try discriminate.
  apply pop_detects in E4 as (f & s & _ & -> & _). injection H as _ _ <-. psimpl.
  unfold s0 in M1, M2. psimpl_in M1. psimpl_in M2. split; [lia | exact M1].
Qed.

Theorem mset_loop_fuel msgdec : (forall d1, inb d1 -> msafe d1 (msgdec d1)) ->
  forall fuel1 fuel2 d acc, inb d -> remaining d < Z.of_nat fuel1 -> remaining d < Z.of_nat fuel2 ->
  mset_loop msgdec fuel1 d acc = mset_loop msgdec fuel2 d acc.
Proof.
  intros Hm. induction fuel1 as [|fuel1 IH]; intros fuel2 d acc Hd H1 H2.
  - pose proof (remaining_nonneg d Hd). lia.
  - destruct fuel2 as [|fuel2]; [pose proof (remaining_nonneg d Hd); lia|].
    cbn [mset_loop]. destruct (remaining d <=? 0) eqn:E0; [reflexivity|]. apply Z.leb_gt in E0.
    pose proof (peek_int8_safe MAGIC_OFFSET d ltac:(unfold MAGIC_OFFSET; lia) Hd) as SP.
    destruct (peek_int8 MAGIC_OFFSET d) as [magic d1|e d1|?|?] eqn:EP; try reflexivity.
    assert (d1 = d) as ->.
    { unfold peek_int8 in EP. destruct (remaining d <? MAGIC_OFFSET + 1); [discriminate|].
      destruct (byte_at d (off d + MAGIC_OFFSET)); [|discriminate]. now injection EP as _ <-. }
    destruct (1 <? magic); [reflexivity|].
    destruct (block_decode_with msgdec d) as [rb o] eqn:EB.
    destruct rb as [[o' m] d2|e d2|?|?]; try reflexivity.
    assert (EB' : fst (block_decode_with msgdec d) = Ok (o', m) d2) by (now rewrite EB).
    destruct (block_progress msgdec d o' m d2 Hm Hd EB') as (P1 & P2).
    pose proof (block_decode_safe msgdec d Hm Hd) as S. rewrite EB' in S. destruct S as (S & _).
    apply IH.
    + eapply okstep_inb; eassumption.
    + unfold remaining in *. rewrite P2. lia.
    + unfold remaining in *. rewrite P2. lia.
Qed.

(* in particular the fuel the model uses (remaining + 1) is as good as any larger amount *)
Corollary mset_loop_fuel_enough msgdec d acc extra :
  (forall d1, inb d1 -> msafe d1 (msgdec d1)) -> inb d ->
  mset_loop msgdec (S (Z.to_nat (remaining d))) d acc = mset_loop msgdec (S (Z.to_nat (remaining d)) + extra) d acc.
Proof.
  intros Hm Hd. pose proof (remaining_nonneg d Hd). apply mset_loop_fuel; try assumption; lia.
Qed.
