(* Wire/RecordsSafety.v — C10 for the records layer: Record, recordsArray, RecordBatch, Message, MessageBlock,
   MessageSet, Records, ControlRecord, response / request headers never panic and never allocate from an unchecked
   count, on any buffer, any offset and whatever the codec library returns; offsets stay inside the buffer. *)
From Coq Require Import List ZArith Bool Lia.
From SV Require Import Base.Corr Wire.Bytes Wire.BytesProofs Wire.Varint Wire.VarintProofs Wire.Crc Wire.CrcProofs
  Wire.Prim Wire.PushPop Wire.CorrPrim Wire.SafetyProofs Wire.Records.
Import ListNotations.
Open Scope Z_scope.

Ltac Zify.zify_post_hook ::= Z.div_mod_to_equations.

(* like errstep, but a pushed field may be left on the stack (early returns between push and pop) *)
Definition errstep_ns (d d' : dec) : Prop :=
  raw d' = raw d /\ off d <= off d' <= len (raw d) /\ mem d <= mem d' <= mem d + ALLOC_FACTOR * remaining d.
Definition okstep_ns (d d' : dec) : Prop :=
  raw d' = raw d /\ off d <= off d' <= len (raw d) /\ mem d <= mem d' <= mem d + ALLOC_FACTOR * (off d' - off d).
(* result of a decoder that restores the stack on success *)
Definition rsafe {A} (d : dec) (r : res A) : Prop :=
  match r with Ok _ d' => okstep d d' | Err _ d' => errstep_ns d d' | Panic _ => False | Alloc _ => False end.

Lemma errstep_ns_of d d' : errstep d d' -> errstep_ns d d'.
Proof. unfold errstep, errstep_ns. tauto. Qed.
Lemma okstep_ns_of d d' : okstep d d' -> okstep_ns d d'.
Proof. unfold okstep, okstep_ns. tauto. Qed.
Lemma ok_ns_trans d d1 d2 : okstep_ns d d1 -> okstep_ns d1 d2 -> okstep_ns d d2.
Proof.
  unfold okstep_ns, ALLOC_FACTOR. intros (A1 & A2 & A3) (B1 & B2 & B3). rewrite A1 in *. repeat split; try congruence; lia.
Qed.
Lemma ok_err_ns_trans d d1 d2 : okstep_ns d d1 -> errstep_ns d1 d2 -> errstep_ns d d2.
Proof.
  unfold okstep_ns, errstep_ns, remaining, ALLOC_FACTOR. intros (A1 & A2 & A3) (B1 & B2 & B3). rewrite A1 in *.
  repeat split; try congruence; lia.
Qed.
Lemma okstep_ns_inb d d' : okstep_ns d d' -> inb d -> inb d'.
Proof. unfold okstep_ns, inb. intros (A1 & A2 & _) H. rewrite A1. repeat split; lia. Qed.
Lemma okstep_ns_refl d : inb d -> okstep_ns d d.
Proof. intros. now apply okstep_ns_of, okstep_refl. Qed.
Lemma okstep_ns_err d d' : inb d -> okstep_ns d d' -> errstep_ns d d'.
Proof. unfold okstep_ns, errstep_ns, inb, remaining, ALLOC_FACTOR. intros H (A1 & A2 & A3). repeat split; try assumption; lia. Qed.
Lemma rsafe_of_safe {A} d (r : res A) : safe d r -> rsafe d r.
Proof. destruct r; cbn; auto using errstep_ns_of. Qed.

(* state between a push and its pop: the field [f] pushed at [d0] sits on top of d0's stack *)
Definition inframe (d0 d : dec) (f : dfield) : Prop :=
  okstep_ns d0 d /\ stack d = f :: stack d0 /\ field_ok (off d) f.

Lemma push_dec_ok k d : inb d ->
  match push_dec k d with
  | Ok _ d1 => exists f, inframe d d1 f
  | Err _ d1 => errstep d d1
  | _ => False
  end.
Proof.
  intros Hd. destruct k as [|l|p]; cbn [push_dec].
  - pose proof (get_int32_safe d Hd) as S. destruct (get_int32 d) as [v d1|e d1|?|?]; cbn [bind safe] in *; try contradiction; [|exact S].
    pose proof (okstep_inb _ _ S Hd) as Hd1.
    destruct (i32 (remaining d1) <? v).
    + eapply ok_err_trans; [exact S | now apply errstep_self].
    + exists (DLen (off d) v). destruct S as (A1 & A2 & A3 & A4). unfold inframe, okstep_ns. psimpl. rewrite A4.
      repeat split; try assumption; try lia.
  - pose proof (get_varint_safe d Hd) as S. destruct (get_varint d) as [v d1|e d1|?|?]; cbn [bind safe] in *; try contradiction; [|exact S].
    exists (DVarLen (off d) v). destruct S as (A1 & A2 & A3 & A4). unfold inframe, okstep_ns. psimpl. rewrite A4.
    repeat split; try assumption; try lia.
  - destruct (remaining d <? 4) eqn:E; [now apply errstep_to_end|]. apply Z.ltb_ge in E.
    exists (DCrc p (off d)). unfold inframe, okstep_ns, inb, remaining, ALLOC_FACTOR in *. psimpl. cbn [field_ok].
    repeat split; lia.
Qed.

Lemma inframe_step d0 d d' f : inframe d0 d f -> okstep d d' -> inframe d0 d' f.
Proof.
  intros (A & B & C) S. pose proof S as (S1 & S2 & S3 & S4). unfold inframe. split; [|split].
  - eapply ok_ns_trans; [exact A | now apply okstep_ns_of].
  - congruence.
  - eapply field_ok_mono; [|exact C]. lia.
Qed.
Lemma inframe_inb d0 d f : inb d0 -> inframe d0 d f -> inb d.
Proof. intros H (A & _). eapply okstep_ns_inb; eassumption. Qed.
Lemma inframe_err d0 d d' f : inb d0 -> inframe d0 d f -> errstep d d' -> errstep_ns d0 d'.
Proof. intros H (A & _) E. eapply ok_err_ns_trans; [exact A | now apply errstep_ns_of]. Qed.

(* pop at the end of a frame: back to the stack of d0 *)
Lemma pop_dec_frame d0 d f : inb d0 -> inframe d0 d f ->
  match pop_dec d with
  | Ok _ d' => okstep d0 d' /\ d' = set_stack d (stack d0)
  | Err _ d' => errstep_ns d0 d'
  | _ => False
  end.
Proof.
  intros H0 (A & B & C). pose proof (okstep_ns_inb _ _ A H0) as Hd. unfold pop_dec. rewrite B.
  assert (OK : okstep d0 (set_stack d (stack d0))).
  { destruct A as (A1 & A2 & A3). unfold okstep. psimpl. repeat split; try assumption; lia. }
  assert (ER : errstep_ns d0 (set_stack d (stack d0))).
  { apply okstep_ns_err; [assumption|]. now apply okstep_ns_of. }
  destruct f as [st l|st l|p st]; cbn [check_field]; psimpl.
  - destruct (i32 (off d - st - 4) =? l); [split; [exact OK | reflexivity] | exact ER].
  - destruct (off d - st - len (put_varint l) =? l); [split; [exact OK | reflexivity] | exact ER].
  - cbn [field_ok] in C. unfold inb in Hd.
    destruct (slice_ok (raw d) (st + 4) (off d) ltac:(lia) ltac:(lia) ltac:(lia)) as (cov & ->).
    destruct (slice_ok (raw d) st (len (raw d)) ltac:(lia) ltac:(lia) ltac:(lia)) as (tl & Htl). rewrite Htl.
    apply slice_some in Htl. replace (len tl <? 4) with false by (symmetry; apply Z.ltb_ge; lia).
    destruct (crc32 p cov =? ube (firstn 4 tl)); [split; [exact OK | reflexivity] | exact ER].
Qed.

(* ---------------------------------------------------------------- a small tactic for sequences of getters inside a frame *)
(* goal:  match (let* (x, d) := G d_cur in K) with ... rsafe-like;  hypothesis F : inframe d0 d_cur f *)
Lemma frame_bind {A B} d0 d f (r : res A) (k : A -> dec -> res B) (P : res B -> Prop) :
  inb d0 -> inframe d0 d f -> safe d r ->
  (forall e d', errstep_ns d0 d' -> P (Err e d')) ->
  (forall v d1, inframe d0 d1 f -> r = Ok v d1 -> P (k v d1)) ->
  P (bind r k).
Proof.
  intros H0 F S Herr Hk. destruct r as [v d1|e d1|?|?]; cbn [bind safe] in *; try contradiction.
  - apply Hk; [eapply inframe_step; eassumption | reflexivity].
  - apply Herr. eapply inframe_err; eassumption.
Qed.

Definition rsafeP {A} (d0 : dec) : res A -> Prop := rsafe d0.
Lemma rsafeP_err {A} d0 e d' : errstep_ns d0 d' -> @rsafeP A d0 (Err e d').
Proof. intros H. exact H. Qed.

(* ---------------------------------------------------------------- headers *)
Lemma header_decode_safe d : inb d -> safe d (header_decode d).
Proof.
  intros Hd. unfold header_decode. apply safe_bind; [now apply get_varint_bytes_safe|].
  intros k d1 H1. pose proof (okstep_inb _ _ H1 Hd) as Hd1.
  apply safe_bind; [now apply get_varint_bytes_safe|]. intros v d2 H2. psimpl. apply okstep_refl. eapply okstep_inb; eassumption.
Qed.
Lemma headers_decode_safe n d : inb d -> safe d (headers_decode n d).
Proof.
  revert d; induction n as [|n IH]; intros d Hd; cbn [headers_decode].
  - psimpl. now apply okstep_refl.
  - apply safe_bind; [now apply header_decode_safe|]. intros h d1 H1. pose proof (okstep_inb _ _ H1 Hd) as Hd1.
    apply safe_bind; [now apply IH|]. intros r d2 H2. psimpl. apply okstep_refl. eapply okstep_inb; eassumption.
Qed.
(* each header consumes at least its two length bytes *)
Lemma get_varint_consumes d v d1 : get_varint d = Ok v d1 -> off d + 1 <= off d1.
Proof.
  unfold get_varint. destruct (slice (raw d) (off d) (len (raw d))) as [buf|]; [|discriminate].
  pose proof (varint_bounds buf) as B. destruct (varint buf) as [x n]. destruct B as (_ & B).
  destruct (n =? 0) eqn:E0; [discriminate|]. destruct (n <? 0) eqn:E1; [discriminate|].
  apply Z.eqb_neq in E0. apply Z.ltb_ge in E1. intros [= _ <-]. psimpl. lia.
Qed.
Lemma get_raw_bytes_mono n d v d1 : get_raw_bytes n d = Ok v d1 -> off d <= off d1.
Proof.
  unfold get_raw_bytes. destruct (n <? 0) eqn:E0; [discriminate|]. destruct (remaining d <? n); [discriminate|].
  destruct (read d n); [|discriminate]. apply Z.ltb_ge in E0. intros [= _ <-]. psimpl. lia.
Qed.
Lemma get_varint_bytes_consumes d v d1 : get_varint_bytes d = Ok v d1 -> off d + 1 <= off d1.
Proof.
  unfold get_varint_bytes. destruct (get_varint d) as [t d2|? ?|?|?] eqn:E; cbn [bind]; try discriminate.
  apply get_varint_consumes in E. destruct (t =? -1); [intros [= _ <-]; lia|].
  destruct (get_raw_bytes t d2) as [bs d3|? ?|?|?] eqn:E2; cbn [bind]; try discriminate.
  apply get_raw_bytes_mono in E2. intros [= _ <-]. lia.
Qed.
Lemma headers_decode_consumes n d l d1 : headers_decode n d = Ok l d1 -> off d + 2 * Z.of_nat n <= off d1.
Proof.
  revert d l d1; induction n as [|n IH]; intros d l d1; cbn [headers_decode].
  - intros [= _ <-]. lia.
  - unfold header_decode. destruct (get_varint_bytes d) as [k d2|? ?|?|?] eqn:E1; cbn [bind]; try discriminate.
    destruct (get_varint_bytes d2) as [v d3|? ?|?|?] eqn:E2; cbn [bind]; try discriminate.
    destruct (headers_decode n d3) as [r d4|? ?|?|?] eqn:E3; cbn [bind]; try discriminate.
    intros [= _ <-]. apply get_varint_bytes_consumes in E1, E2. apply IH in E3. lia.
Qed.
(* headers allocate nothing themselves (varint bytes are sub-slices) *)
Lemma get_varint_bytes_mem d : match get_varint_bytes d with Ok _ d' | Err _ d' => mem d' = mem d | _ => True end.
Proof.
  unfold get_varint_bytes, get_varint. destruct (slice (raw d) (off d) (len (raw d))); [|exact I].
  destruct (varint l) as [x n]. destruct (n =? 0); [reflexivity|]. destruct (n <? 0); [reflexivity|]. cbn [bind].
  destruct (x =? -1); [reflexivity|]. unfold get_raw_bytes. destruct (x <? 0); [reflexivity|].
  destruct (remaining (adv d n) <? x); [reflexivity|]. destruct (read (adv d n) x); [reflexivity | exact I].
Qed.
Lemma headers_decode_mem n d : match headers_decode n d with Ok _ d' | Err _ d' => mem d' = mem d | _ => True end.
Proof.
  revert d; induction n as [|n IH]; intros d; cbn [headers_decode]; [reflexivity|]. unfold header_decode.
  pose proof (get_varint_bytes_mem d) as M1. destruct (get_varint_bytes d) as [k d1|? ?|?|?]; cbn [bind]; try assumption; try exact I.
  pose proof (get_varint_bytes_mem d1) as M2. destruct (get_varint_bytes d1) as [v d2|? ?|?|?]; cbn [bind]; try congruence; try exact I.
  specialize (IH d2). destruct (headers_decode n d2) as [r d3|? ?|?|?]; cbn [bind]; try congruence; exact I.
Qed.

(* ---------------------------------------------------------------- Record.decode *)
Theorem record_decode_safe d : inb d -> rsafe d (record_decode d).
Proof.
  intros Hd. unfold record_decode.
  pose proof (push_dec_ok (KVarLen 0) d Hd) as P.
  destruct (push_dec (KVarLen 0) d) as [u d1|e d1|?|?]; cbn [bind]; try contradiction; [|now apply errstep_ns_of].
  destruct P as (f & F).
  apply (frame_bind d d1 f _ _ (rsafe d) Hd F); [apply get_int8_safe; eapply inframe_inb; [exact Hd | eassumption] | intros; assumption|].
  intros attrs d2 F2 _. apply (frame_bind d d2 f _ _ (rsafe d) Hd F2); [apply get_varint_safe; eapply inframe_inb; [exact Hd | eassumption] | intros; assumption|].
  intros ts d3 F3 _. apply (frame_bind d d3 f _ _ (rsafe d) Hd F3); [apply get_varint_safe; eapply inframe_inb; [exact Hd | eassumption] | intros; assumption|].
  intros od d4 F4 _. apply (frame_bind d d4 f _ _ (rsafe d) Hd F4); [apply get_varint_bytes_safe; eapply inframe_inb; [exact Hd | eassumption] | intros; assumption|].
  intros k d5 F5 _. apply (frame_bind d d5 f _ _ (rsafe d) Hd F5); [apply get_varint_bytes_safe; eapply inframe_inb; [exact Hd | eassumption] | intros; assumption|].
  intros v d6 F6 _. apply (frame_bind d d6 f _ _ (rsafe d) Hd F6); [apply get_varint_safe; eapply inframe_inb; [exact Hd | eassumption] | intros; assumption|].
  intros nh d7 F7 _. pose proof (inframe_inb _ _ _ Hd F7) as Hd7.
  destruct (nh <? 0) eqn:En.
  - pose proof (pop_dec_frame d d7 f Hd F7) as Q. destruct (pop_dec d7) as [u2 d8|e d8|?|?]; cbn [bind rsafe]; try contradiction; tauto.
  - apply Z.ltb_ge in En. destruct (remaining d7 <? nh) eqn:Er.
    + cbn [rsafe]. eapply inframe_err; [exact Hd | exact F7 | now apply errstep_self].
    + apply Z.ltb_ge in Er.
      (* the allocation of nh pointers, then the headers, which consume at least 2 nh bytes on success *)
      set (da := alloc d7 (PTR * nh)).
      assert (Hda : inb da) by (unfold inb, da in *; psimpl; exact Hd7).
      pose proof (headers_decode_safe (Z.to_nat nh) da Hda) as S.
      pose proof (headers_decode_consumes (Z.to_nat nh) da) as C.
      pose proof (headers_decode_mem (Z.to_nat nh) da) as M.
      destruct (headers_decode (Z.to_nat nh) da) as [hs d8|e d8|?|?]; cbn [bind safe] in *; try contradiction.
      * specialize (C hs d8 eq_refl).
        assert (F8 : inframe d d8 f).
        { destruct F7 as (A & B & Cc). destruct S as (S1 & S2 & S3 & S4). unfold inframe. split; [|split].
          - destruct A as (A1 & A2 & A3). unfold okstep_ns, da, PTR, ALLOC_FACTOR in *. psimpl_in S1. psimpl_in S2. psimpl_in M. psimpl_in C. rewrite A1 in S2.
            repeat split; try congruence; try lia.
          - unfold da in S4. psimpl_in S4. congruence.
          - eapply field_ok_mono; [|exact Cc]. unfold da in S2. psimpl_in S2. lia. }
        pose proof (pop_dec_frame d d8 f Hd F8) as Q. destruct (pop_dec d8) as [u2 d9|e d9|?|?]; cbn [bind rsafe]; try contradiction; tauto.
      * cbn [rsafe]. destruct F7 as (A & B & Cc). destruct A as (A1 & A2 & A3). destruct S as (S1 & S2 & S3 & S4).
        unfold errstep_ns, da, PTR, ALLOC_FACTOR, remaining, inb in *. psimpl_in S1. psimpl_in S2. psimpl_in S3. psimpl_in M. rewrite A1 in *.
        repeat split; try congruence; try lia.
Qed.

(* recordsArray.decode *)
Theorem records_decode_safe n d : inb d -> rsafe d (records_decode n d).
Proof.
  revert d; induction n as [|n IH]; intros d Hd; cbn [records_decode].
  - cbn [rsafe]. now apply okstep_refl.
  - pose proof (record_decode_safe d Hd) as R. destruct (record_decode d) as [r d1|e d1|?|?]; cbn [bind rsafe] in *; try contradiction; [|assumption].
    pose proof (okstep_inb _ _ R Hd) as Hd1. specialize (IH d1 Hd1).
    destruct (records_decode n d1) as [t d2|e d2|?|?]; cbn [bind rsafe] in *; try contradiction.
    + eapply okstep_trans; eassumption.
    + eapply ok_err_ns_trans; [apply okstep_ns_of; exact R | exact IH].
Qed.

(* ---------------------------------------------------------------- getters that allocate nothing *)
Definition memeq {A} (d : dec) (r : res A) : Prop :=
  match r with Ok _ d' => mem d' = mem d | Err _ d' => mem d' = mem d | _ => True end.
Lemma memeq_bind {A B} d (r : res A) (k : A -> dec -> res B) :
  memeq d r -> (forall v d1, mem d1 = mem d -> memeq d1 (k v d1)) -> memeq d (bind r k).
Proof.
  destruct r as [v d1|e d1|?|?]; cbn [bind memeq]; intros H K; try assumption; try exact I.
  specialize (K v d1 H). destruct (k v d1); cbn [memeq] in *; try congruence; exact I.
Qed.
Lemma get_fixed_mem n conv d : memeq d (get_fixed n conv d).
Proof. unfold get_fixed. destruct (remaining d <? n); [reflexivity|]. destruct (read d n); [reflexivity | exact I]. Qed.
Lemma get_raw_bytes_mem n d : memeq d (get_raw_bytes n d).
Proof.
  unfold get_raw_bytes. destruct (n <? 0); [reflexivity|]. destruct (remaining d <? n); [reflexivity|].
  destruct (read d n); [reflexivity | exact I].
Qed.
Lemma get_bytes_mem d : memeq d (get_bytes d).
Proof.
  unfold get_bytes. apply memeq_bind; [apply get_fixed_mem|]. intros t d1 M.
  destruct (t =? -1); [reflexivity|]. apply memeq_bind; [apply get_raw_bytes_mem|]. intros bs d2 M2. reflexivity.
Qed.
Lemma ts_decode_mem d : memeq d (ts_decode d).
Proof. unfold ts_decode. apply memeq_bind; [apply get_fixed_mem|]. intros; reflexivity. Qed.
Lemma ts_decode_safe d : inb d -> safe d (ts_decode d).
Proof.
  intros Hd. unfold ts_decode. apply safe_bind; [now apply get_int64_safe|]. intros m d1 H1. psimpl.
  apply okstep_refl. eapply okstep_inb; eassumption.
Qed.
Lemma peek_int8_mem o d : memeq d (peek_int8 o d).
Proof. unfold peek_int8. destruct (remaining d <? o + 1); [reflexivity|]. destruct (byte_at d (off d + o)); [reflexivity | exact I]. Qed.
Lemma get_uvarint_mem d : memeq d (get_uvarint d).
Proof.
  unfold get_uvarint. destruct (slice (raw d) (off d) (len (raw d))); [|exact I]. destruct (uvarint l) as [x n].
  destruct (n =? 0); [reflexivity|]. destruct (n <? 0); reflexivity.
Qed.
Lemma get_varint_mem d : memeq d (get_varint d).
Proof.
  unfold get_varint. destruct (slice (raw d) (off d) (len (raw d))); [|exact I]. destruct (varint l) as [x n].
  destruct (n =? 0); [reflexivity|]. destruct (n <? 0); reflexivity.
Qed.
Lemma push_dec_mem k d : memeq d (push_dec k d).
Proof.
  destruct k as [|l|p]; cbn [push_dec].
  - apply memeq_bind; [apply get_fixed_mem|]. intros v d1 M. destruct (i32 (remaining d1) <? v); cbn [memeq]; psimpl; assumption || reflexivity.
  - apply memeq_bind; [apply get_varint_mem|]. intros v d1 M. cbn [memeq]. psimpl. reflexivity.
  - destruct (remaining d <? 4); cbn [memeq]; psimpl; reflexivity.
Qed.
Lemma pop_dec_mem d : memeq d (pop_dec d).
Proof.
  unfold pop_dec. destruct (stack d) as [|f s]; [exact I|].
  destruct f as [st l|st l|p st]; cbn [check_field]; psimpl.
  - destruct (_ =? l); reflexivity.
  - destruct (_ =? l); reflexivity.
  - destruct (slice (raw d) (st + 4) (off d)); [|exact I]. destruct (slice (raw d) st (len (raw d))); [|exact I].
    destruct (len l0 <? 4); [exact I|]. destruct (_ =? _); reflexivity.
Qed.

(* a sub-slice of the buffer is shorter than the buffer *)
Lemma get_raw_bytes_len n d bs d1 : get_raw_bytes n d = Ok bs d1 -> len bs <= len (raw d).
Proof.
  unfold get_raw_bytes. destruct (n <? 0); [discriminate|]. destruct (remaining d <? n); [discriminate|].
  destruct (read d n) eqn:E; [|discriminate]. intros [= <- _]. unfold read in E. apply slice_some in E. lia.
Qed.
Lemma get_bytes_len d v d1 : get_bytes d = Ok (Some v) d1 -> len v <= len (raw d).
Proof.
  unfold get_bytes. pose proof (get_int32_safe d) as S0.
  destruct (get_int32 d) as [t d2|? ?|?|?] eqn:E; cbn [bind]; try discriminate.
  destruct (t =? -1); [discriminate|].
  destruct (get_raw_bytes t d2) as [bs d3|? ?|?|?] eqn:E2; cbn [bind]; try discriminate.
  intros [= <- _]. apply get_raw_bytes_len in E2.
  unfold get_int32, get_fixed in E. destruct (remaining d <? 4); [discriminate|]. destruct (read d 4); [|discriminate].
  injection E as _ <-. psimpl_in E2. exact E2.
Qed.

(* ---------------------------------------------------------------- sub-decoders (decode(buf, in) on a fresh realDecoder) *)
Lemma sub_decode_safe {A} (f : dec -> res A) buf d :
  len buf < two63 -> (forall dn, inb dn -> rsafe dn (f dn)) ->
  match sub_decode f buf d with
  | Ok _ d' | Err _ d' => raw d' = raw d /\ off d' = off d /\ stack d' = stack d /\
                          mem d <= mem d' <= mem d + ALLOC_FACTOR * len buf
  | _ => False
  end.
Proof.
  intros Hl Hf. unfold sub_decode. set (dn := mkDec buf 0 (mem d) []).
  assert (Hdn : inb dn) by (unfold inb, dn; psimpl; pose proof (len_nonneg buf); lia).
  specialize (Hf dn Hdn). destruct (f dn) as [v d1|e d1|?|?]; cbn [rsafe] in Hf; try contradiction.
  - destruct Hf as (A1 & A2 & A3 & A4). unfold dn in *. psimpl_in A1. psimpl_in A2. psimpl_in A3.
    destruct (off d1 =? len buf); unfold set_mem; psimpl; unfold ALLOC_FACTOR in *; repeat split; lia.
  - destruct Hf as (A1 & A2 & A3). unfold dn, remaining in *. psimpl_in A1. psimpl_in A2. psimpl_in A3.
    unfold set_mem; psimpl; unfold ALLOC_FACTOR in *; repeat split; lia.
Qed.

Lemma pop_dec_any d s f : inb d -> stack d = f :: s -> field_ok (off d) f ->
  pop_dec d = Ok tt (set_stack d s) \/ exists e, pop_dec d = Err e (set_stack d s).
Proof.
  intros Hd Hs Hf. unfold pop_dec. rewrite Hs. destruct f as [st l|st l|p st]; cbn [check_field]; psimpl.
  - destruct (_ =? l); eauto.
  - destruct (_ =? l); eauto.
  - cbn [field_ok] in Hf. unfold inb in Hd.
    destruct (slice_ok (raw d) (st + 4) (off d) ltac:(lia) ltac:(lia) ltac:(lia)) as (cov & ->).
    destruct (slice_ok (raw d) st (len (raw d)) ltac:(lia) ltac:(lia) ltac:(lia)) as (tl & Htl). rewrite Htl.
    apply slice_some in Htl. replace (len tl <? 4) with false by (symmetry; apply Z.ltb_ge; lia).
    destruct (_ =? _); eauto.
Qed.
Lemma get_raw_bytes_post n d bs d1 : get_raw_bytes n d = Ok bs d1 -> len bs = n /\ 0 <= n <= remaining d /\ d1 = adv d n.
Proof.
  unfold get_raw_bytes. destruct (n <? 0) eqn:E0; [discriminate|]. destruct (remaining d <? n) eqn:E1; [discriminate|].
  destruct (read d n) eqn:E; [|discriminate]. apply Z.ltb_ge in E0, E1. intros [= <- <-].
  unfold read in E. apply slice_some in E. repeat split; lia.
Qed.

(* ---------------------------------------------------------------- RecordBatch.decode *)
Section WithCodec.
Variable decompress : Z -> list Z -> option (list Z).
(* the codec library returns slices (shorter than 2^63), of at most L bytes *)
Variable L : Z.
Hypothesis decompress_len : forall c x y, decompress c x = Some y -> len y <= L.
Hypothesis L_small : 0 <= L < two63.

Definition bsafe {A} (d : dec) (r : res A) : Prop :=
  match r with
  | Ok _ d' | Err _ d' =>
    raw d' = raw d /\ off d <= off d' <= len (raw d) /\
    mem d <= mem d' <= mem d + ALLOC_FACTOR * remaining d + 2 * ALLOC_FACTOR * Z.max L (remaining d)
  | _ => False
  end.
Lemma bsafe_err {A} d e d' : inb d -> errstep_ns d d' -> @bsafe A d (Err e d').
Proof.
  clear decompress_len L_small. unfold errstep_ns, bsafe, inb, remaining, ALLOC_FACTOR. intros H (A1 & A2 & A3). repeat split; try assumption; lia.
Qed.

Lemma get_array_length_post d n d1 : get_array_length d = Ok n d1 -> -1 <= n <= remaining d1.
Proof.
  unfold get_array_length. destruct (remaining d <? 4); [discriminate|]. destruct (read d 4); [|discriminate].
  destruct (remaining (adv d 4) <? i32 (ube l)) eqn:E1; [discriminate|].
  destruct ((MAX_ARRAY <? i32 (ube l)) || (i32 (ube l) <? -1)) eqn:E2; [discriminate|].
  apply Z.ltb_ge in E1. apply orb_false_iff in E2 as [_ E2]. apply Z.ltb_ge in E2. intros [= <- <-]. lia.
Qed.

Lemma decompress_m_len c x y : len x <= L \/ True -> decompress_m decompress c x = Some y -> len y <= Z.max L (len x).
Proof.
  intros _. unfold decompress_m. destruct (c =? 0).
  - intros [= <-]. lia.
  - intros H. apply decompress_len in H. lia.
Qed.

Theorem batch_decode_safe d : inb d -> bsafe d (batch_decode decompress d).
Proof.
  intros Hd. unfold batch_decode.
  (* the four fields before the CRC push *)
  pose proof (get_int64_safe d Hd) as S1. destruct (get_int64 d) as [fo d1|e d1|?|?]; cbn [bind safe] in *; try contradiction;
    [|apply bsafe_err; [assumption | now apply errstep_ns_of]].
  pose proof (okstep_inb _ _ S1 Hd) as Hd1.
  pose proof (get_int32_safe d1 Hd1) as S2. destruct (get_int32 d1) as [bl d2|e d2|?|?]; cbn [bind safe] in *; try contradiction;
    [|apply bsafe_err; [assumption | apply errstep_ns_of; eapply ok_err_trans; eassumption]].
  pose proof (okstep_trans _ _ _ S1 S2) as T2. pose proof (okstep_inb _ _ T2 Hd) as Hd2.
  pose proof (get_int32_safe d2 Hd2) as S3. destruct (get_int32 d2) as [ep d3|e d3|?|?]; cbn [bind safe] in *; try contradiction;
    [|apply bsafe_err; [assumption | apply errstep_ns_of; eapply ok_err_trans; eassumption]].
  pose proof (okstep_trans _ _ _ T2 S3) as T3. pose proof (okstep_inb _ _ T3 Hd) as Hd3.
  pose proof (get_int8_safe d3 Hd3) as S4. destruct (get_int8 d3) as [ver d4|e d4|?|?]; cbn [bind safe] in *; try contradiction;
    [|apply bsafe_err; [assumption | apply errstep_ns_of; eapply ok_err_trans; eassumption]].
  pose proof (okstep_trans _ _ _ T3 S4) as T4. pose proof (okstep_inb _ _ T4 Hd) as Hd4.
  pose proof (push_dec_ok (KCrc Castagnoli) d4 Hd4) as P.
  destruct (push_dec (KCrc Castagnoli) d4) as [u d5|e d5|?|?]; cbn [bind]; try contradiction;
    [|apply bsafe_err; [assumption | apply errstep_ns_of; eapply ok_err_trans; eassumption]].
  destruct P as (f & F0).
  assert (F : inframe d d5 f).
  { destruct F0 as (A & B & C). split; [eapply ok_ns_trans; [apply okstep_ns_of; exact T4 | exact A] | split; [|exact C]].
    destruct T4 as (_ & _ & _ & T44). congruence. }
  clear F0.
  assert (ERR : forall (e : err) d', errstep_ns d d' -> bsafe d (@Err batch e d')) by (intros; now apply bsafe_err).
  apply (frame_bind d d5 f _ _ (bsafe d) Hd F); [apply get_int16_safe; eapply inframe_inb; [exact Hd | eassumption] | exact ERR |].
  intros attrs d6 F6 _. apply (frame_bind d d6 f _ _ (bsafe d) Hd F6); [apply get_int32_safe; eapply inframe_inb; [exact Hd | eassumption] | exact ERR |].
  intros lod d7 F7 _. apply (frame_bind d d7 f _ _ (bsafe d) Hd F7); [apply ts_decode_safe; eapply inframe_inb; [exact Hd | eassumption] | exact ERR |].
  intros t1 d8 F8 _. apply (frame_bind d d8 f _ _ (bsafe d) Hd F8); [apply ts_decode_safe; eapply inframe_inb; [exact Hd | eassumption] | exact ERR |].
  intros t2 d9 F9 _. apply (frame_bind d d9 f _ _ (bsafe d) Hd F9); [apply get_int64_safe; eapply inframe_inb; [exact Hd | eassumption] | exact ERR |].
  intros pid d10 F10 _. apply (frame_bind d d10 f _ _ (bsafe d) Hd F10); [apply get_int16_safe; eapply inframe_inb; [exact Hd | eassumption] | exact ERR |].
  intros pep d11 F11 _. apply (frame_bind d d11 f _ _ (bsafe d) Hd F11); [apply get_int32_safe; eapply inframe_inb; [exact Hd | eassumption] | exact ERR |].
  intros fseq d12 F12 _. apply (frame_bind d d12 f _ _ (bsafe d) Hd F12); [apply get_int32_safe; eapply inframe_inb; [exact Hd | eassumption] | exact ERR |].
  intros nrec d13 F13 _.
  pose proof (inframe_inb _ _ _ Hd F13) as Hd13.
  assert (G1 : raw d13 = raw d) by (destruct F13 as ((G1 & _) & _); exact G1).
  pose proof F13 as ((_ & O13 & M13) & St13 & C13).
  pose proof (get_raw_bytes_safe (bl - RECORD_BATCH_OVERHEAD) d13 Hd13) as SR.
  pose proof (get_raw_bytes_mem (bl - RECORD_BATCH_OVERHEAD) d13) as MR.
  destruct (get_raw_bytes (bl - RECORD_BATCH_OVERHEAD) d13) as [rb d14|e d14|?|?] eqn:ER; cbn [safe memeq] in *; try contradiction.
  2:{ (* error of getRawBytes: partial batch (Ok) or error; either way the same bounds *)
      assert (B : forall A (r : res A), (exists v, r = Ok v d14) \/ (exists e', r = Err e' d14) -> bsafe d r).
      { intros A r Hr. destruct SR as (S1' & S2' & S3' & S4'). rewrite G1 in S2'. unfold bsafe, remaining, ALLOC_FACTOR in *.
        destruct Hr as [(v & ->)|(e' & ->)]; rewrite S1', G1; repeat split; try lia. }
      destruct e; apply B; eauto. }
  destruct SR as (R1 & R2 & R3 & R4). rewrite G1 in R2.
  assert (Hd14 : inb d14) by (unfold inb in *; rewrite R1, G1; lia).
  assert (St14 : stack d14 = f :: stack d) by congruence.
  assert (C14 : field_ok (off d14) f) by (eapply field_ok_mono; [|exact C13]; lia).
  pose proof (get_raw_bytes_post _ _ _ _ ER) as (Lrb & Nrb & _).
  assert (Lrb' : len rb <= remaining d) by (unfold remaining in *; rewrite G1 in Nrb; lia).
  assert (Bd : forall dz, raw dz = raw d14 -> off dz = off d14 -> mem d14 <= mem dz <= mem d14 + 2 * ALLOC_FACTOR * Z.max L (remaining d) ->
               forall A (r : res A), (exists v, r = Ok v dz) \/ (exists e', r = Err e' dz) -> bsafe d r).
  { intros dz Z1 Z2 Z3 A r Hr. unfold bsafe, remaining, ALLOC_FACTOR in *.
    destruct Hr as [(v & ->)|(e' & ->)]; rewrite Z1, R1, G1, Z2; repeat split; try lia. }
  assert (Lmax : 0 <= Z.max L (remaining d)) by lia.
  destruct (pop_dec_any d14 (stack d) f Hd14 St14 C14) as [Ep|(e & Ep)]; rewrite Ep; cbn [bind].
  2:{ apply (Bd (set_stack d14 (stack d))); psimpl; try reflexivity; unfold ALLOC_FACTOR; try lia. eauto. }
  set (d15 := set_stack d14 (stack d)).
  destruct (decompress_m decompress (Z.land (i8 attrs) 7) rb) as [rr|] eqn:Edc.
  2:{ apply (Bd d15); unfold d15; psimpl; try reflexivity; unfold ALLOC_FACTOR; try lia. eauto. }
  assert (Lrr : len rr <= Z.max L (remaining d)).
  { unfold decompress_m in Edc. destruct (_ =? 0); [injection Edc as <-; lia | apply decompress_len in Edc; lia]. }
  assert (Lrr63 : len rr < two63) by (pose proof Hd as (Hdo & Hd63); unfold remaining in *; lia).
  destruct ((nrec <? -1) || (len rr <? nrec)) eqn:Ecnt.
  { apply (Bd d15); unfold d15; psimpl; try reflexivity; unfold ALLOC_FACTOR; try lia. eauto. }
  apply orb_false_iff in Ecnt as (Ec1 & Ec2). apply Z.ltb_ge in Ec1, Ec2.
  (* the allocation of the record pointers: bounded by the decompressed payload *)
  set (da := if 0 <=? nrec then alloc d15 (PTR * nrec) else d15).
  assert (Fa : raw da = raw d15 /\ off da = off d15 /\ stack da = stack d15 /\ mem d15 <= mem da <= mem d15 + PTR * len rr).
  { pose proof (len_nonneg rr). unfold da. destruct (0 <=? nrec) eqn:E0; [apply Z.leb_le in E0|]; psimpl; unfold PTR; repeat split; lia. }
  destruct Fa as (Ra & Oa & Sa & Ma).
  pose proof (sub_decode_safe (records_decode (if 0 <=? nrec then Z.to_nat nrec else 0%nat)) rr da Lrr63
                (fun dn Hdn => records_decode_safe _ dn Hdn)) as SD.
  destruct (sub_decode (records_decode (if 0 <=? nrec then Z.to_nat nrec else 0%nat)) rr da) as [recs d16|e d16|?|?];
    try contradiction; destruct SD as (D1 & D2 & D3 & D4).
  - apply (Bd d16); unfold d15 in *; psimpl_in Ra; psimpl_in Oa; psimpl_in Ma; try congruence; unfold ALLOC_FACTOR, PTR in *; try lia. eauto.
  - assert (G : forall A (r : res A), (exists v, r = Ok v d16) \/ (exists e', r = Err e' d16) -> bsafe d r).
    { apply (Bd d16); unfold d15 in *; psimpl_in Ra; psimpl_in Oa; psimpl_in Ma; try congruence; unfold ALLOC_FACTOR, PTR in *; lia. }
    destruct e; apply G; eauto.
Qed.
End WithCodec.

(* ---------------------------------------------------------------- legacy messages: no allocation at all *)
Definition msafe {A} (d : dec) (r : res A) : Prop :=
  match r with
  | Ok _ d' => okstep d d' /\ mem d' = mem d
  | Err _ d' => errstep_ns d d' /\ mem d' = mem d
  | _ => False
  end.

Lemma frame_bind0 {A B} d0 d f (r : res A) (k : A -> dec -> res B) (P : res B -> Prop) :
  inb d0 -> inframe d0 d f -> mem d = mem d0 -> safe d r -> memeq d r ->
  (forall e d', errstep_ns d0 d' -> mem d' = mem d0 -> P (Err e d')) ->
  (forall v d1, inframe d0 d1 f -> mem d1 = mem d0 -> P (k v d1)) ->
  P (bind r k).
Proof.
  intros H0 F M S ME Herr Hk. destruct r as [v d1|e d1|?|?]; cbn [bind safe memeq] in *; try contradiction.
  - apply Hk; [eapply inframe_step; eassumption | congruence].
  - apply Herr; [eapply inframe_err; eassumption | congruence].
Qed.

Lemma inframe_same d0 d d' f : inframe d0 d f -> raw d' = raw d -> off d' = off d -> mem d' = mem d -> stack d' = stack d ->
  inframe d0 d' f.
Proof.
  intros ((A1 & A2 & A3) & B & C) R O M S. unfold inframe, okstep_ns. rewrite R, O, M, S.
  split; [|split]; [repeat split; try assumption; lia | assumption | assumption].
Qed.

Definition nested_ok (nested : list Z -> dec -> res mset) : Prop :=
  forall buf d0, len buf < two63 ->
    match nested buf d0 with
    | Ok _ d' | Err _ d' => raw d' = raw d0 /\ off d' = off d0 /\ mem d' = mem d0 /\ stack d' = stack d0
    | _ => False
    end.

Section WithCodec2.
Variable decompress : Z -> list Z -> option (list Z).
Hypothesis decompress_small : forall c x y, decompress c x = Some y -> len y < two63.

Theorem message_decode_safe nested d : nested_ok nested -> inb d -> msafe d (message_decode_with decompress nested d).
Proof.
  intros Hn Hd. unfold message_decode_with.
  pose proof (push_dec_ok (KCrc IEEE) d Hd) as P. pose proof (push_dec_mem (KCrc IEEE) d) as PM.
  destruct (push_dec (KCrc IEEE) d) as [u d1|e d1|?|?]; cbn [bind memeq] in *; try contradiction;
    [|split; [now apply errstep_ns_of | assumption]].
  destruct P as (f & F).
  assert (ERR : forall (e : err) d', errstep_ns d d' -> mem d' = mem d -> msafe d (@Err message e d')) by (intros; split; assumption).
  apply (frame_bind0 d d1 f _ _ (msafe d) Hd F PM); [apply get_int8_safe; eapply inframe_inb; [exact Hd | eassumption] | apply get_fixed_mem | exact ERR |].
  intros ver d2 F2 M2. destruct (1 <? ver).
  { apply ERR; [|assumption]. eapply inframe_err; [exact Hd | exact F2 | apply errstep_self; eapply inframe_inb; [exact Hd | eassumption]]. }
  apply (frame_bind0 d d2 f _ _ (msafe d) Hd F2 M2); [apply get_int8_safe; eapply inframe_inb; [exact Hd | eassumption] | apply get_fixed_mem | exact ERR |].
  intros attr d3 F3 M3.
  assert (Hd3 : inb d3) by (eapply inframe_inb; [exact Hd | eassumption]).
  apply (frame_bind0 d d3 f _ _ (msafe d) Hd F3 M3).
  { destruct (ver =? 1); [now apply ts_decode_safe | cbn [safe]; now apply okstep_refl]. }
  { destruct (ver =? 1); [apply ts_decode_mem | reflexivity]. }
  { exact ERR. }
  intros ts d4 F4 M4.
  apply (frame_bind0 d d4 f _ _ (msafe d) Hd F4 M4); [apply get_bytes_safe; eapply inframe_inb; [exact Hd | eassumption] | apply get_bytes_mem | exact ERR |].
  intros key d5 F5 M5.
  assert (Hd5 : inb d5) by (eapply inframe_inb; [exact Hd | eassumption]).
  pose proof (get_bytes_safe d5 Hd5) as SV. pose proof (get_bytes_mem d5) as MV. pose proof (get_bytes_len d5) as LV.
  destruct (get_bytes d5) as [value d6|e d6|?|?]; cbn [bind safe memeq] in *; try contradiction.
  2:{ apply ERR; [eapply inframe_err; eassumption | congruence]. }
  assert (F6 : inframe d d6 f) by (eapply inframe_step; eassumption).
  assert (M6 : mem d6 = mem d) by congruence.
  assert (POP : forall dz (m : message), inframe d dz f -> mem dz = mem d ->
                msafe d (let* (_, d) := pop_dec dz in Ok m d)).
  { intros dz m Fz Mz. pose proof (pop_dec_frame d dz f Hd Fz) as Q. pose proof (pop_dec_mem dz) as PMz.
    destruct (pop_dec dz) as [u2 d8|e d8|?|?]; cbn [bind msafe memeq] in *; try contradiction.
    - destruct Q as (Q1 & _). split; [exact Q1 | congruence].
    - split; [exact Q | congruence]. }
  destruct value as [v|]; [|now apply POP].
  destruct (Z.land attr 7 =? 0) eqn:Ec; [now apply POP|].
  unfold decompress_m. rewrite Ec.
  destruct (decompress (Z.land attr 7) v) as [dv|] eqn:Edc.
  2:{ apply ERR; [|assumption]. eapply inframe_err; [exact Hd | exact F6 | apply errstep_self; eapply inframe_inb; [exact Hd | eassumption]]. }
  specialize (Hn dv d6 (decompress_small _ _ _ Edc)).
  destruct (nested dv d6) as [s d7|e d7|?|?]; cbn [bind]; try contradiction; destruct Hn as (N1 & N2 & N3 & N4).
  - apply POP; [eapply inframe_same; eassumption | congruence].
  - apply ERR; [|congruence]. destruct F6 as ((A1 & A2 & A3) & _). pose proof (inframe_inb _ _ _ Hd F5) as Hd5'.
    unfold errstep_ns, remaining, ALLOC_FACTOR, inb in *. rewrite N1, N2, N3. repeat split; try assumption; try lia.
Qed.

(* MessageBlock.decode *)
Theorem block_decode_safe msgdec d : (forall d1, inb d1 -> msafe d1 (msgdec d1)) -> inb d ->
  msafe d (fst (block_decode_with msgdec d)).
Proof.
  intros Hm Hd. unfold block_decode_with.
  pose proof (get_int64_safe d Hd) as S1. pose proof (get_fixed_mem 8 i64 d) as M1. fold get_int64 in M1.
  destruct (get_int64 d) as [o d1|e d1|?|?]; cbn [fst safe memeq] in *; try contradiction;
    [|split; [now apply errstep_ns_of | assumption]].
  pose proof (okstep_inb _ _ S1 Hd) as Hd1.
  pose proof (push_dec_ok KLen d1 Hd1) as P. pose proof (push_dec_mem KLen d1) as PM.
  destruct (push_dec KLen d1) as [u d2|e d2|?|?]; cbn [bind memeq] in *; try contradiction.
  2:{ split; [apply errstep_ns_of; eapply ok_err_trans; eassumption | congruence]. }
  destruct P as (f & F0).
  assert (F : inframe d d2 f).
  { destruct F0 as (A & B & C). split; [eapply ok_ns_trans; [apply okstep_ns_of; exact S1 | exact A] | split; [|exact C]].
    destruct S1 as (_ & _ & _ & S14). congruence. }
  assert (Hd2 : inb d2) by (eapply inframe_inb; [exact Hd | exact F]).
  specialize (Hm d2 Hd2). destruct (msgdec d2) as [m d3|e d3|?|?]; cbn [bind msafe] in *; try contradiction.
  - destruct Hm as (Hm1 & Hm2).
    assert (F3 : inframe d d3 f) by (eapply inframe_step; eassumption).
    pose proof (pop_dec_frame d d3 f Hd F3) as Q. pose proof (pop_dec_mem d3) as PM3.
    destruct (pop_dec d3) as [u2 d4|e d4|?|?]; cbn [bind msafe memeq] in *; try contradiction.
    + destruct Q as (Q1 & _). split; [exact Q1 | congruence].
    + split; [exact Q | congruence].
  - destruct Hm as (Hm1 & Hm2). split; [|congruence].
    destruct F as (A & _). eapply ok_err_ns_trans; eassumption.
Qed.

(* MessageSet.decode: a tolerated partial trailing message returns Ok with a length / CRC field possibly still
   pushed on the (sub-)decoder's stack, hence no claim about the stack *)
Definition lsafe {A} (d : dec) (r : res A) : Prop :=
  match r with
  | Ok _ d' | Err _ d' => raw d' = raw d /\ off d <= off d' <= len (raw d) /\ mem d' = mem d
  | _ => False
  end.
Lemma lsafe_of_ok {A} d d' (v : A) : okstep d d' -> mem d' = mem d -> lsafe d (Ok v d').
Proof. intros (A1 & A2 & _) M. repeat split; assumption || lia. Qed.
Lemma lsafe_any {A} d d' (r : res A) : raw d' = raw d -> off d <= off d' <= len (raw d) -> mem d' = mem d ->
  (exists v, r = Ok v d') \/ (exists e, r = Err e d') -> lsafe d r.
Proof. intros R O M [(v & ->)|(e & ->)]; repeat split; assumption || lia. Qed.

Theorem mset_loop_safe msgdec fuel : (forall d1, inb d1 -> msafe d1 (msgdec d1)) ->
  forall d acc, inb d -> lsafe d (mset_loop msgdec fuel d acc).
Proof.
  intros Hm. induction fuel as [|fuel IH]; intros d acc Hd; cbn [mset_loop].
  - apply lsafe_of_ok; [now apply okstep_refl | reflexivity].
  - destruct (remaining d <=? 0); [apply lsafe_of_ok; [now apply okstep_refl | reflexivity]|].
    pose proof (peek_int8_safe MAGIC_OFFSET d ltac:(unfold MAGIC_OFFSET; lia) Hd) as SP. pose proof (peek_int8_mem MAGIC_OFFSET d) as MP.
    destruct (peek_int8 MAGIC_OFFSET d) as [magic d1|e d1|?|?]; cbn [safe memeq] in *; try contradiction.
    2:{ destruct SP as (A1 & A2 & A3 & A4). destruct e; apply (lsafe_any d d1); eauto. }
    pose proof (okstep_inb _ _ SP Hd) as Hd1.
    destruct (1 <? magic); [now apply lsafe_of_ok|].
    pose proof (block_decode_safe msgdec d1 Hm Hd1) as SB.
    destruct (block_decode_with msgdec d1) as [rb o]. cbn [fst] in SB.
    destruct rb as [[o' m] d2|e d2|?|?]; cbn [msafe] in SB; try contradiction; destruct SB as (B1 & B2).
    + pose proof (okstep_trans _ _ _ SP B1) as T. specialize (IH d2 (mapp acc (MCons o' m MNil)) (okstep_inb _ _ T Hd)).
      destruct T as (T1 & T2 & _).
      destruct (mset_loop msgdec fuel d2 (mapp acc (MCons o' m MNil))) as [s d3|e d3|?|?]; cbn [lsafe] in *; try contradiction;
        destruct IH as (I1 & I2 & I3); rewrite T1 in *; repeat split; try congruence; try lia.
    + destruct SP as (A1 & A2 & _). destruct B1 as (C1 & C2 & _). rewrite A1 in *.
      assert (G : forall A (r : res A), (exists v, r = Ok v d2) \/ (exists e', r = Err e' d2) -> lsafe d r).
      { intros A r Hr. apply (lsafe_any d d2); try congruence; try lia. }
      destruct e; try (apply G; solve [eauto]). destruct (o =? -1); apply G; eauto.
Qed.

Theorem mset_decode_safe depth : forall d, inb d -> lsafe d (mset_decode decompress depth d).
Proof.
  induction depth as [|k IH]; intros d Hd; cbn [mset_decode].
  - repeat split; try reflexivity; unfold inb in Hd; lia.
  - apply mset_loop_safe; [|assumption]. intros d1 Hd1. apply message_decode_safe; [|assumption].
    intros buf d0 Hbuf. set (dn := mkDec buf 0 (mem d0) []).
    assert (Hdn : inb dn) by (unfold inb, dn; psimpl; pose proof (len_nonneg buf); lia).
    specialize (IH dn Hdn). destruct (mset_decode decompress k dn) as [s d'|e d'|?|?]; cbn [lsafe] in IH; try contradiction;
      destruct IH as (_ & _ & I3); unfold dn in I3; psimpl_in I3; unfold set_mem; psimpl; repeat split; congruence.
Qed.

End WithCodec2.

(* ---------------------------------------------------------------- Records (magic-byte peek), headers, control records *)
Section WithCodec3.
Variable decompress : Z -> list Z -> option (list Z).
Variable L : Z.
Hypothesis decompress_len : forall c x y, decompress c x = Some y -> len y <= L.
Hypothesis L_small : 0 <= L < two63.

Lemma bsafe_of_lsafe {A} d (r : res A) : inb d -> lsafe d r -> bsafe L d r.
Proof.
  intros Hd. destruct r as [v d'|e d'|?|?]; cbn [lsafe bsafe]; try tauto;
    intros (A1 & A2 & A3); pose proof (remaining_nonneg d Hd); unfold ALLOC_FACTOR; repeat split; try assumption; lia.
Qed.

Theorem records_top_safe depth d : inb d -> bsafe L d (records_decode_top decompress depth d).
Proof.
  intros Hd. unfold records_decode_top.
  pose proof (peek_int8_safe MAGIC_OFFSET d ltac:(unfold MAGIC_OFFSET; lia) Hd) as SP. pose proof (peek_int8_mem MAGIC_OFFSET d) as MP.
  destruct (peek_int8 MAGIC_OFFSET d) as [magic d1|e d1|?|?]; cbn [bind safe memeq] in *; try contradiction.
  2:{ apply bsafe_err; solve [assumption | now apply errstep_ns_of]. }
  pose proof (okstep_inb _ _ SP Hd) as Hd1. destruct SP as (A1 & A2 & A3 & A4).
  assert (Rem : remaining d1 <= remaining d) by (unfold remaining; rewrite A1; lia).
  pose proof (remaining_nonneg d1 Hd1) as Rn.
  assert (T : forall A (r : res A), bsafe L d1 r -> forall B (r2 : res B),
              (match r with Ok _ dz => exists v, r2 = Ok v dz | Err e dz => r2 = Err e dz | Panic w => r2 = Panic w | Alloc n => r2 = Alloc n end) ->
              bsafe L d r2).
  { intros A r Hr B r2 Hr2. destruct r as [v dz|e dz|?|?]; cbn [bsafe] in Hr; try contradiction.
    - destruct Hr2 as (v2 & ->). destruct Hr as (R1 & R2 & R3). rewrite A1 in R2. cbn [bsafe]. unfold ALLOC_FACTOR in *. rewrite R1, A1. repeat split; try lia.
    - subst r2. destruct Hr as (R1 & R2 & R3). rewrite A1 in R2. cbn [bsafe]. unfold ALLOC_FACTOR in *. rewrite R1, A1. repeat split; try lia. }
  destruct (magic <? 2).
  - pose proof (mset_decode_safe decompress (fun c x y H => Z.le_lt_trans _ _ _ (decompress_len c x y H) (proj2 L_small)) depth d1 Hd1) as S.
    apply (T _ _ (bsafe_of_lsafe d1 _ Hd1 S)).
    destruct (mset_decode decompress depth d1); cbn [bind]; eauto.
  - pose proof (batch_decode_safe decompress L decompress_len L_small d1 Hd1) as S.
    apply (T _ _ S). destruct (batch_decode decompress d1); cbn [bind]; eauto.
Qed.
End WithCodec3.

Theorem response_header_safe version d : inb d -> safe d (response_header_decode version d).
Proof.
  intros Hd. unfold response_header_decode. apply safe_bind; [now apply get_int32_safe|].
  intros l d1 H1. pose proof (okstep_inb _ _ H1 Hd) as Hd1.
  destruct ((l <=? 4) || (MAX_RESPONSE_SIZE <? l)); [cbn [safe]; now apply errstep_self|].
  pose proof (get_int32_safe d1 Hd1) as S. pose proof (get_fixed_mem 4 i32 d1) as MS. fold get_int32 in MS.
  destruct (get_int32 d1) as [c d2|e d2|?|?]; cbn [safe memeq] in *; try contradiction.
  - pose proof (okstep_inb _ _ S Hd1) as Hd2. destruct (1 <=? version); [|exact S].
    pose proof (get_empty_tagged_safe d2 Hd2) as S2. destruct (get_empty_tagged d2) as [t d3|e d3|?|?]; cbn [bind safe] in *; try contradiction.
    + eapply okstep_trans; eassumption.
    + eapply ok_err_trans; eassumption.
  - destruct (1 <=? version); [|exact S].
    (* the tagged-field read runs on the decoder the failed read left behind (at the end of the buffer) *)
    assert (Hd2 : inb d2) by (destruct S as (A1 & A2 & _); unfold inb in *; rewrite A1; lia).
    pose proof (get_empty_tagged_safe d2 Hd2) as S2.
    destruct S as (A1 & A2 & A3 & A4).
    destruct (get_empty_tagged d2) as [t d3|e2 d3|?|?]; cbn [bind safe] in *; try contradiction.
    + destruct S2 as (B1 & B2 & B3 & B4). unfold errstep, remaining, ALLOC_FACTOR in *. rewrite A1 in *. repeat split; try congruence; lia.
    + destruct S2 as (B1 & B2 & B3 & B4). unfold errstep, remaining, ALLOC_FACTOR in *. rewrite A1 in *. repeat split; try congruence; lia.
Qed.

Theorem request_header_safe hv_of d : inb d -> safe d (request_header_decode hv_of d).
Proof.
  intros Hd. unfold request_header_decode. apply safe_bind; [now apply get_int16_safe|].
  intros k d1 H1. pose proof (okstep_inb _ _ H1 Hd) as Hd1. apply safe_bind; [now apply get_int16_safe|].
  intros v d2 H2. pose proof (okstep_inb _ _ H2 Hd1) as Hd2. apply safe_bind; [now apply get_int32_safe|].
  intros c d3 H3. pose proof (okstep_inb _ _ H3 Hd2) as Hd3. apply safe_bind; [now apply get_string_safe|].
  intros cid d4 H4. pose proof (okstep_inb _ _ H4 Hd3) as Hd4.
  destruct (hv_of k v) as [hv|]; [|cbn [safe]; now apply errstep_self].
  destruct (2 <=? hv); [|cbn [safe]; now apply okstep_refl].
  apply safe_bind; [now apply get_uvarint_safe|]. intros t d5 H5. cbn [safe]. apply okstep_refl. eapply okstep_inb; eassumption.
Qed.

Definition no_crash {A} (r : res A) : Prop := match r with Panic _ => False | Alloc _ => False | _ => True end.
Theorem control_decode_safe key value : inb key -> inb value -> no_crash (fst (control_decode key value)).
Proof.
  intros Hk Hv. unfold control_decode.
  pose proof (get_int16_safe key Hk) as S1. destruct (get_int16 key) as [kv k1|? ?|?|?]; cbn [safe fst no_crash] in *; try contradiction; try exact I.
  pose proof (okstep_inb _ _ S1 Hk) as Hk1.
  pose proof (get_int16_safe k1 Hk1) as S2. destruct (get_int16 k1) as [ty k2|? ?|?|?]; cbn [safe fst no_crash] in *; try contradiction; try exact I.
  destruct (ty =? 0).
  - pose proof (get_int16_safe value Hv) as S3. destruct (get_int16 value) as [vv v1|? ?|?|?]; cbn [safe fst no_crash] in *; try contradiction; try exact I.
    pose proof (get_int32_safe v1 (okstep_inb _ _ S3 Hv)) as S4. destruct (get_int32 v1) as [ep v2|? ?|?|?]; cbn [safe fst no_crash] in *; try contradiction; exact I.
  - destruct (ty =? 1); [|exact I].
    pose proof (get_int16_safe value Hv) as S3. destruct (get_int16 value) as [vv v1|? ?|?|?]; cbn [safe fst no_crash] in *; try contradiction; try exact I.
    pose proof (get_int32_safe v1 (okstep_inb _ _ S3 Hv)) as S4. destruct (get_int32 v1) as [ep v2|? ?|?|?]; cbn [safe fst no_crash] in *; try contradiction; exact I.
Qed.

(* ---------------------------------------------------------------- Broker.responseReceiver: the body buffer *)
Lemma response_header_decode_inv version d l c d' : response_header_decode version d = Ok (l, c) d' -> 4 < l <= MAX_RESPONSE_SIZE.
Proof.
  unfold response_header_decode. destruct (get_int32 d) as [l0 d1|? ?|?|?]; cbn [bind]; try discriminate.
  destruct ((l0 <=? 4) || (MAX_RESPONSE_SIZE <? l0)) eqn:E; [discriminate|].
  apply orb_false_iff in E as (E1 & E2). apply Z.leb_gt in E1. apply Z.ltb_ge in E2.
  destruct (get_int32 d1) as [c0 d2|? ?|?|?]; try discriminate.
  - destruct (1 <=? version).
    + destruct (get_empty_tagged d2) as [? ?|? ?|?|?]; cbn [bind]; try discriminate. intros [= <- _ _]. lia.
    + intros [= <- _ _]. lia.
  - destruct (1 <=? version); [destruct (get_empty_tagged d0) as [? ?|? ?|?|?]; cbn [bind]; discriminate | discriminate].
Qed.

(* after an accepted header the size handed to make is never negative (and at most MaxResponseSize) *)
Theorem response_receive_safe version corr d : inb d ->
  match response_receive version corr d with
  | Ok size _ => 0 <= size <= MAX_RESPONSE_SIZE
  | Err _ _ => True
  | Panic _ => False
  | Alloc _ => False
  end.
Proof.
  intros Hd. unfold response_receive. pose proof (response_header_safe version d Hd) as S.
  destruct (response_header_decode version d) as [[l c] d1|e d1|?|?] eqn:E; cbn [bind safe] in *; try contradiction; [|exact I].
  apply response_header_decode_inv in E. unfold MAX_RESPONSE_SIZE in *.
  destruct (negb (off d1 =? len (raw d1))); [exact I|]. destruct (negb (snd (l, c) =? corr)); [exact I|]. cbn [fst].
  assert (Hs : i32 (i32 (l - header_length version) + 4) = l - header_length version + 4 /\ 8 <= header_length version <= 9).
  { unfold header_length. destruct (version <? 1); unfold i32, two32; split; lia. }
  destruct Hs as (-> & Hh). replace (l - header_length version + 4 <? 0) with false by (symmetry; apply Z.ltb_ge; lia). lia.
Qed.
