(* Wire/PrimProofs.v — round trip of every primitive: the mirror getter applied to a buffer that holds the
   encoder's bytes at the current offset (anything before, anything after) returns the value (normalised where
   the wire format cannot distinguish: empty arrays / nil), advances by exactly the encoded length and allocates
   exactly the stated amount; and the sizing pass agrees with the writing pass. *)
From Coq Require Import List ZArith Bool Lia.
From SV Require Import Base.Corr Wire.Bytes Wire.BytesProofs Wire.Varint Wire.VarintProofs Wire.Crc Wire.Prim Wire.PushPop Wire.CorrPrim.
Import ListNotations.
Open Scope Z_scope.

Ltac Zify.zify_post_hook ::= Z.div_mod_to_equations.

(* ---------------------------------------------------------------- the decoder stands at some bytes *)
Definition at_ (d : dec) (bs : list Z) : Prop :=
  exists pre suf, raw d = pre ++ bs ++ suf /\ off d = len pre.
(* d' is d moved forward by n bytes with c bytes allocated *)
Definition moved (d d' : dec) (n c : Z) : Prop :=
  raw d' = raw d /\ off d' = off d + n /\ mem d' = mem d + c /\ stack d' = stack d.

Lemma moved_refl d : moved d d 0 0.
Proof. unfold moved. repeat split; lia. Qed.
Lemma moved_adv d n : moved d (adv d n) n 0.
Proof. unfold moved. cbn. repeat split; lia. Qed.
Lemma moved_adv_alloc d n c : moved d (alloc (adv d n) c) n c.
Proof. unfold moved. cbn. repeat split; lia. Qed.
Lemma moved_alloc d c : moved d (alloc d c) 0 c.
Proof. unfold moved. cbn. repeat split; lia. Qed.
Lemma moved_trans d d1 d2 n c n' c' : moved d d1 n c -> moved d1 d2 n' c' -> moved d d2 (n + n') (c + c').
Proof. unfold moved. intros (A1 & A2 & A3 & A4) (B1 & B2 & B3 & B4). repeat split; try congruence; lia. Qed.
Lemma moved_eq d d' n c n' c' : moved d d' n c -> n = n' -> c = c' -> moved d d' n' c'.
Proof. intros H -> ->. exact H. Qed.
Lemma moved_remaining d d' n c : moved d d' n c -> remaining d' = remaining d - n.
Proof. unfold moved, remaining. intros (A1 & A2 & _). rewrite A1, A2. lia. Qed.

Lemma at_app_assoc d a b c : at_ d ((a ++ b) ++ c) <-> at_ d (a ++ b ++ c).
Proof. now rewrite <- app_assoc. Qed.
Lemma at_read d a b : at_ d (a ++ b) -> read d (len a) = Some a.
Proof.
  intros (pre & suf & Hr & Ho). unfold read. rewrite Hr, Ho, <- app_assoc. apply slice_mid.
Qed.
Lemma at_remaining d bs : at_ d bs -> len bs <= remaining d.
Proof.
  intros (pre & suf & Hr & Ho). unfold remaining. rewrite Hr, Ho, !len_app. pose proof (len_nonneg suf). lia.
Qed.
Lemma at_off d bs : at_ d bs -> 0 <= off d.
Proof. intros (pre & suf & Hr & Ho). rewrite Ho. apply len_nonneg. Qed.
Lemma at_moved d d' a b c : at_ d (a ++ b) -> moved d d' (len a) c -> at_ d' b.
Proof.
  intros (pre & suf & Hr & Ho) (A1 & A2 & _). exists (pre ++ a), suf. split.
  - rewrite A1, Hr, <- !app_assoc. reflexivity.
  - rewrite A2, Ho, len_app. reflexivity.
Qed.
Lemma at_tail d bs : at_ d bs -> exists suf, slice (raw d) (off d) (len (raw d)) = Some (bs ++ suf).
Proof.
  intros (pre & suf & Hr & Ho). exists suf. rewrite Hr, Ho. apply slice_tail.
Qed.
Lemma at_nil_r d bs : at_ d bs -> at_ d (bs ++ []).
Proof. now rewrite app_nil_r. Qed.
Lemma at_prefix d a b : at_ d (a ++ b) -> at_ d a.
Proof. intros (pre & suf & Hr & Ho). exists pre, (b ++ suf). now rewrite Hr, <- app_assoc. Qed.

Definition okm {A} (r : res A) (v : A) (d : dec) (n c : Z) : Prop :=
  exists d', r = Ok v d' /\ moved d d' n c.

(* ---------------------------------------------------------------- fixed-width integers *)
Lemma get_fixed_rt (w : nat) conv v d rest :
  at_ d (be w v ++ rest) -> conv (ube (be w v)) = v ->
  okm (get_fixed (Z.of_nat w) conv d) v d (Z.of_nat w) 0.
Proof.
  intros Hat Hc. unfold get_fixed.
  pose proof (at_remaining _ _ Hat) as Hrem. rewrite len_app, len_be in Hrem. pose proof (len_nonneg rest).
  replace (remaining d <? Z.of_nat w) with false by (symmetry; apply Z.ltb_ge; lia).
  pose proof (at_read _ _ _ Hat) as Hr. rewrite len_be in Hr. rewrite Hr, Hc.
  eexists; split; [reflexivity | apply moved_adv].
Qed.
Lemma get_int8_rt v d rest : in_i8 v -> at_ d (be 1 v ++ rest) -> okm (get_int8 d) v d 1 0.
Proof. intros. apply (get_fixed_rt 1 i8 v d rest); [assumption | now apply i8_be]. Qed.
Lemma get_int16_rt v d rest : in_i16 v -> at_ d (be 2 v ++ rest) -> okm (get_int16 d) v d 2 0.
Proof. intros. apply (get_fixed_rt 2 i16 v d rest); [assumption | now apply i16_be]. Qed.
Lemma get_int32_rt v d rest : in_i32 v -> at_ d (be 4 v ++ rest) -> okm (get_int32 d) v d 4 0.
Proof. intros. apply (get_fixed_rt 4 i32 v d rest); [assumption | now apply i32_be]. Qed.
Lemma get_int64_rt v d rest : in_i64 v -> at_ d (be 8 v ++ rest) -> okm (get_int64 d) v d 8 0.
Proof. intros. apply (get_fixed_rt 8 i64 v d rest); [assumption | now apply i64_be]. Qed.

(* ---------------------------------------------------------------- varints *)
Lemma get_uvarint_rt v d rest : in_u64 v -> at_ d (put_uvarint v ++ rest) ->
  okm (get_uvarint d) v d (len (put_uvarint v)) 0.
Proof.
  intros Hv Hat. unfold get_uvarint. destruct (at_tail _ _ Hat) as (suf & Hs). rewrite Hs, <- app_assoc.
  rewrite uvarint_put by assumption. pose proof (put_uvarint_len_bounds v Hv).
  replace (len (put_uvarint v) =? 0) with false by (symmetry; apply Z.eqb_neq; lia).
  replace (len (put_uvarint v) <? 0) with false by (symmetry; apply Z.ltb_ge; lia).
  eexists; split; [reflexivity | apply moved_adv].
Qed.
Lemma get_varint_rt v d rest : in_i64 v -> at_ d (put_varint v ++ rest) ->
  okm (get_varint d) v d (len (put_varint v)) 0.
Proof.
  intros Hv Hat. unfold get_varint. destruct (at_tail _ _ Hat) as (suf & Hs). rewrite Hs, <- app_assoc.
  rewrite varint_put by assumption. pose proof (put_varint_len_bounds v Hv).
  replace (len (put_varint v) =? 0) with false by (symmetry; apply Z.eqb_neq; lia).
  replace (len (put_varint v) <? 0) with false by (symmetry; apply Z.ltb_ge; lia).
  eexists; split; [reflexivity | apply moved_adv].
Qed.

Ltac mv2 := eapply moved_eq; [eapply moved_trans; eassumption | try lia | try lia].

(* chaining: rewrite the first getter of a [bind] with its round-trip fact *)
Ltac step H :=
  let d1 := fresh "d1" in let E := fresh "E" in let M := fresh "M" in
  destruct H as (d1 & E & M); rewrite E; cbn [bind].

(* ---------------------------------------------------------------- raw bytes and the length-prefixed forms *)
Lemma get_raw_bytes_rt bs d rest : at_ d (bs ++ rest) -> okm (get_raw_bytes (len bs) d) bs d (len bs) 0.
Proof.
  intros Hat. unfold get_raw_bytes. pose proof (len_nonneg bs). pose proof (len_nonneg rest).
  pose proof (at_remaining _ _ Hat) as Hrem. rewrite len_app in Hrem.
  replace (len bs <? 0) with false by (symmetry; apply Z.ltb_ge; lia).
  replace (remaining d <? len bs) with false by (symmetry; apply Z.ltb_ge; lia).
  rewrite (at_read _ _ _ Hat). eexists; split; [reflexivity | apply moved_adv].
Qed.

Definition MAXLEN := 2147483648.   (* collections are shorter than 2^31 (prepEncoder rejects longer ones) *)

Lemma get_bytes_none d rest : at_ d (be 4 (-1) ++ rest) -> okm (get_bytes d) None d 4 0.
Proof.
  intros Hat. unfold get_bytes. pose proof (get_int32_rt (-1) d rest ltac:(unfold in_i32; lia) Hat) as G. step G.
  eexists; split; [reflexivity | assumption].
Qed.
Lemma get_bytes_some bs d rest : len bs < MAXLEN -> at_ d ((be 4 (len bs) ++ bs) ++ rest) ->
  okm (get_bytes d) (Some bs) d (4 + len bs) 0.
Proof.
  intros Hl Hat. rewrite <- app_assoc in Hat. unfold get_bytes. pose proof (len_nonneg bs). unfold MAXLEN in Hl.
  pose proof (get_int32_rt (len bs) d _ ltac:(unfold in_i32; lia) Hat) as G. step G.
  replace (len bs =? -1) with false by (symmetry; apply Z.eqb_neq; lia).
  assert (Hat1 : at_ d1 (bs ++ rest)) by (eapply at_moved; [exact Hat | rewrite len_be; exact M]).
  pose proof (get_raw_bytes_rt bs d1 rest Hat1) as G. step G.
  eexists; split; [reflexivity | mv2].
Qed.

Lemma get_varint_bytes_none d rest : at_ d (put_varint (-1) ++ rest) ->
  okm (get_varint_bytes d) None d (len (put_varint (-1))) 0.
Proof.
  intros Hat. unfold get_varint_bytes.
  pose proof (get_varint_rt (-1) d rest ltac:(unfold in_i64, two63; lia) Hat) as G. step G.
  eexists; split; [reflexivity | assumption].
Qed.
Lemma get_varint_bytes_some bs d rest : len bs < MAXLEN -> at_ d ((put_varint (len bs) ++ bs) ++ rest) ->
  okm (get_varint_bytes d) (Some bs) d (len (put_varint (len bs)) + len bs) 0.
Proof.
  intros Hl Hat. rewrite <- app_assoc in Hat. unfold get_varint_bytes. pose proof (len_nonneg bs). unfold MAXLEN in Hl.
  pose proof (get_varint_rt (len bs) d _ ltac:(unfold in_i64, two63; lia) Hat) as G. step G.
  replace (len bs =? -1) with false by (symmetry; apply Z.eqb_neq; lia).
  assert (Hat1 : at_ d1 (bs ++ rest)) by (eapply at_moved; [exact Hat | exact M]).
  pose proof (get_raw_bytes_rt bs d1 rest Hat1) as G. step G.
  eexists; split; [reflexivity | mv2].
Qed.

Lemma u64_succ_len {A} (l : list A) : len l < MAXLEN -> u64 (len l + 1) = len l + 1 /\ in_u64 (len l + 1) /\ i64 (len l + 1 - 1) = len l.
Proof.
  intros H. pose proof (len_nonneg l). unfold MAXLEN in H. unfold u64, in_u64, i64, two64, two63. repeat split; lia.
Qed.

Lemma get_compact_bytes_rt bs d rest : len bs < MAXLEN ->
  at_ d ((put_uvarint (u64 (len bs + 1)) ++ bs) ++ rest) ->
  okm (get_compact_bytes d) (Some bs) d (len (put_uvarint (u64 (len bs + 1))) + len bs) 0.
Proof.
  intros Hl Hat. rewrite <- app_assoc in Hat. destruct (u64_succ_len bs Hl) as (U1 & U2 & U3). rewrite U1 in *.
  unfold get_compact_bytes. pose proof (get_uvarint_rt _ d _ U2 Hat) as G. step G. rewrite U3.
  assert (Hat1 : at_ d1 (bs ++ rest)) by (eapply at_moved; [exact Hat | exact M]).
  pose proof (get_raw_bytes_rt bs d1 rest Hat1) as G. step G.
  eexists; split; [reflexivity | mv2].
Qed.

(* ---------------------------------------------------------------- strings *)
Lemma take_string_rt s d rest : at_ d (s ++ rest) -> okm (take_string (len s) d) s d (len s) (len s).
Proof.
  intros Hat. unfold take_string. rewrite (at_read _ _ _ Hat). eexists; split; [reflexivity | apply moved_adv_alloc].
Qed.

Lemma get_string_length_rt n d rest : -1 <= n <= MAX_INT16 -> at_ d (be 2 n ++ rest) -> n <= len rest ->
  okm (get_string_length d) n d 2 0.
Proof.
  intros Hn Hat Hr. unfold get_string_length, MAX_INT16 in *.
  pose proof (get_int16_rt n d rest ltac:(unfold in_i16; lia) Hat) as G. step G.
  replace (n <? -1) with false by (symmetry; apply Z.ltb_ge; lia).
  assert (Hat1 : at_ d1 rest) by (eapply at_moved; [exact Hat | rewrite len_be; exact M]).
  pose proof (at_remaining _ _ Hat1).
  replace (remaining d1 <? n) with false by (symmetry; apply Z.ltb_ge; lia).
  eexists; split; [reflexivity | assumption].
Qed.

Lemma get_string_rt s d rest : len s <= MAX_INT16 -> at_ d ((be 2 (len s) ++ s) ++ rest) ->
  okm (get_string d) s d (2 + len s) (len s).
Proof.
  intros Hl Hat. rewrite <- app_assoc in Hat. unfold get_string. pose proof (len_nonneg s). pose proof (len_nonneg rest).
  pose proof (get_string_length_rt (len s) d (s ++ rest) ltac:(lia) Hat ltac:(rewrite len_app; lia)) as G. step G.
  replace (len s =? -1) with false by (symmetry; apply Z.eqb_neq; lia).
  assert (Hat1 : at_ d1 (s ++ rest)) by (eapply at_moved; [exact Hat | rewrite len_be; exact M]).
  pose proof (take_string_rt s d1 rest Hat1) as G. destruct G as (d2 & E2 & M2). rewrite E2.
  eexists; split; [reflexivity | mv2].
Qed.

Lemma get_nullable_string_none d rest : at_ d (be 2 (-1) ++ rest) -> okm (get_nullable_string d) None d 2 0.
Proof.
  intros Hat. unfold get_nullable_string. pose proof (len_nonneg rest).
  pose proof (get_string_length_rt (-1) d rest ltac:(unfold MAX_INT16; lia) Hat ltac:(lia)) as G. step G.
  eexists; split; [reflexivity | assumption].
Qed.
Lemma get_nullable_string_some s d rest : len s <= MAX_INT16 -> at_ d ((be 2 (len s) ++ s) ++ rest) ->
  okm (get_nullable_string d) (Some s) d (2 + len s) (len s).
Proof.
  intros Hl Hat. rewrite <- app_assoc in Hat. unfold get_nullable_string. pose proof (len_nonneg s). pose proof (len_nonneg rest).
  pose proof (get_string_length_rt (len s) d (s ++ rest) ltac:(lia) Hat ltac:(rewrite len_app; lia)) as G. step G.
  replace (len s =? -1) with false by (symmetry; apply Z.eqb_neq; lia).
  assert (Hat1 : at_ d1 (s ++ rest)) by (eapply at_moved; [exact Hat | rewrite len_be; exact M]).
  pose proof (take_string_rt s d1 rest Hat1) as G. step G.
  eexists; split; [reflexivity | mv2].
Qed.

Lemma get_compact_string_rt s d rest : len s < MAXLEN ->
  at_ d ((put_uvarint (u64 (len s + 1)) ++ s) ++ rest) ->
  okm (get_compact_string d) s d (len (put_uvarint (u64 (len s + 1))) + len s) (len s).
Proof.
  intros Hl Hat. rewrite <- app_assoc in Hat. destruct (u64_succ_len s Hl) as (U1 & U2 & U3). rewrite U1 in *.
  unfold get_compact_string. pose proof (get_uvarint_rt _ d _ U2 Hat) as G. step G. rewrite U3.
  pose proof (len_nonneg s). pose proof (len_nonneg rest).
  assert (Hat1 : at_ d1 (s ++ rest)) by (eapply at_moved; [exact Hat | exact M]).
  pose proof (at_remaining _ _ Hat1) as Hrem. rewrite len_app in Hrem.
  replace (len s <? 0) with false by (symmetry; apply Z.ltb_ge; lia).
  replace (remaining d1 <? len s) with false by (symmetry; apply Z.ltb_ge; lia).
  pose proof (take_string_rt s d1 rest Hat1) as G. destruct G as (d2 & E2 & M2). rewrite E2.
  eexists; split; [reflexivity | mv2].
Qed.

Lemma get_compact_nullable_string_none d rest : at_ d (be 1 0 ++ rest) ->
  okm (get_compact_nullable_string d) None d 1 0.
Proof.
  intros Hat. unfold get_compact_nullable_string.
  change (be 1 0) with (put_uvarint 0) in Hat.
  pose proof (get_uvarint_rt 0 d rest ltac:(unfold in_u64, two64; lia) Hat) as G. step G.
  change (i64 (0 - 1) <? 0) with true. cbn iota.
  eexists; split; [reflexivity | exact M].
Qed.
Lemma get_compact_nullable_string_some s d rest : len s < MAXLEN ->
  at_ d ((put_uvarint (u64 (len s + 1)) ++ s) ++ rest) ->
  okm (get_compact_nullable_string d) (Some s) d (len (put_uvarint (u64 (len s + 1))) + len s) (len s).
Proof.
  intros Hl Hat. rewrite <- app_assoc in Hat. destruct (u64_succ_len s Hl) as (U1 & U2 & U3). rewrite U1 in *.
  unfold get_compact_nullable_string. pose proof (get_uvarint_rt _ d _ U2 Hat) as G. step G. rewrite U3.
  pose proof (len_nonneg s). pose proof (len_nonneg rest).
  assert (Hat1 : at_ d1 (s ++ rest)) by (eapply at_moved; [exact Hat | exact M]).
  pose proof (at_remaining _ _ Hat1) as Hrem. rewrite len_app in Hrem.
  replace (len s <? 0) with false by (symmetry; apply Z.ltb_ge; lia).
  replace (remaining d1 <? len s) with false by (symmetry; apply Z.ltb_ge; lia).
  pose proof (take_string_rt s d1 rest Hat1) as G. step G.
  eexists; split; [reflexivity | mv2].
Qed.

(* ---------------------------------------------------------------- arrays *)
Lemma len_real_ints w l : len (real_ints w l) = Z.of_nat w * len l.
Proof. induction l as [|v l IH]; cbn [real_ints]; [rewrite len_nil; lia|]. rewrite len_app, len_be, len_cons, IH. lia. Qed.

Lemma read_ints_rt (w : nat) conv l d rest :
  Forall (fun v => conv (ube (be w v)) = v) l -> at_ d (real_ints w l ++ rest) ->
  okm (read_ints (Z.of_nat w) conv (length l) d) l d (Z.of_nat w * len l) 0.
Proof.
  revert d; induction l as [|v l IH]; intros d Hall Hat.
  - cbn [length read_ints]. eexists; split; [reflexivity|]. eapply moved_eq; [apply moved_refl | change (len (@nil Z)) with 0; lia | reflexivity].
  - inversion Hall as [|? ? Hv Hl]; subst. cbn [real_ints] in Hat. rewrite <- app_assoc in Hat.
    cbn [length read_ints]. pose proof (at_read _ _ _ Hat) as Hr. rewrite len_be in Hr. rewrite Hr.
    assert (Hat1 : at_ (adv d (Z.of_nat w)) (real_ints w l ++ rest)).
    { eapply at_moved; [exact Hat|]. rewrite len_be. apply moved_adv. }
    pose proof (IH _ Hl Hat1) as G. step G. rewrite Hv.
    eexists; split; [reflexivity|]. rewrite len_cons.
    eapply moved_eq; [eapply moved_trans; [apply moved_adv | eassumption] | lia | lia].
Qed.

Lemma forall_i32 l : Forall in_i32 l -> Forall (fun v => i32 (ube (be 4 v)) = v) l.
Proof. apply Forall_impl. intros. now apply i32_be. Qed.
Lemma forall_i64 l : Forall in_i64 l -> Forall (fun v => i64 (ube (be 8 v)) = v) l.
Proof. apply Forall_impl. intros. now apply i64_be. Qed.

Lemma get_compact_int32_array_none d rest : at_ d (put_uvarint 0 ++ rest) ->
  okm (get_compact_int32_array d) None d 1 0.
Proof.
  intros Hat. unfold get_compact_int32_array.
  pose proof (get_uvarint_rt 0 d rest ltac:(unfold in_u64, two64; lia) Hat) as G. step G.
  eexists; split; [reflexivity | exact M].
Qed.
Lemma get_compact_int32_array_some l d rest : len l < MAXLEN -> Forall in_i32 l ->
  at_ d ((put_uvarint (u64 (len l + 1)) ++ real_ints 4 l) ++ rest) ->
  okm (get_compact_int32_array d) (Some l) d (len (put_uvarint (u64 (len l + 1))) + 4 * len l) (4 * len l).
Proof.
  intros Hl Hall Hat. rewrite <- app_assoc in Hat. destruct (u64_succ_len l Hl) as (U1 & U2 & U3). rewrite U1 in *.
  unfold get_compact_int32_array. pose proof (get_uvarint_rt _ d _ U2 Hat) as G. step G.
  pose proof (len_nonneg l). pose proof (len_nonneg rest).
  replace (len l + 1 =? 0) with false by (symmetry; apply Z.eqb_neq; lia).
  assert (Hat1 : at_ d1 (real_ints 4 l ++ rest)) by (eapply at_moved; [exact Hat | exact M]).
  pose proof (at_remaining _ _ Hat1) as Hrem. rewrite len_app, len_real_ints in Hrem.
  unfold MAXLEN in Hl.
  replace (u64 (len l + 1 - 1)) with (len l) by (unfold u64, two64; lia).
  replace (remaining d1 / 4 <? len l) with false by (symmetry; apply Z.ltb_ge; lia).
  replace (i64 (len l + 1) - 1) with (len l) by (unfold i64, two64, two63; lia).
  rewrite to_nat_len.
  assert (Hat2 : at_ (alloc d1 (4 * len l)) (real_ints 4 l ++ rest)) by exact Hat1.
  pose proof (read_ints_rt 4 i32 l _ rest (forall_i32 l Hall) Hat2) as G. change (Z.of_nat 4) with 4 in G. step G.
  eexists; split; [reflexivity|].
  eapply moved_eq; [eapply moved_trans; [exact M | eapply moved_trans; [apply (moved_alloc d1 (4 * len l)) | exact M0]] | lia | lia].
Qed.

(* int32 / int64 arrays: nil and empty both encode as count 0 and decode as nil *)
Lemma get_int_array_empty w conv d rest : at_ d (be 4 0 ++ rest) ->
  okm (get_int_array w conv d) None d 4 0.
Proof.
  intros Hat. unfold get_int_array. pose proof (at_remaining _ _ Hat) as Hrem. rewrite len_app, len_be in Hrem.
  pose proof (len_nonneg rest).
  replace (remaining d <? 4) with false by (symmetry; apply Z.ltb_ge; lia).
  pose proof (at_read _ _ _ Hat) as Hr. rewrite len_be in Hr. change (Z.of_nat 4) with 4 in Hr. rewrite Hr.
  change (ube (be 4 0)) with 0. replace (w * 0) with 0 by lia.
  assert (R : remaining (adv d 4) = remaining d - 4) by (unfold remaining; cbn; lia).
  replace (remaining (adv d 4) <? 0) with false by (symmetry; apply Z.ltb_ge; lia).
  cbn [Z.eqb]. eexists; split; [reflexivity | apply moved_adv].
Qed.

Lemma get_int_array_some (w : nat) conv l d rest : 0 < len l < MAXLEN -> (0 < w)%nat ->
  Forall (fun v => conv (ube (be w v)) = v) l ->
  at_ d ((be 4 (len l) ++ real_ints w l) ++ rest) ->
  okm (get_int_array (Z.of_nat w) conv d) (Some l) d (4 + Z.of_nat w * len l) (Z.of_nat w * len l).
Proof.
  intros Hl Hw Hall Hat. rewrite <- app_assoc in Hat. unfold get_int_array, MAXLEN in *.
  pose proof (at_remaining _ _ Hat) as Hrem. rewrite !len_app, len_be, len_real_ints in Hrem.
  pose proof (len_nonneg rest).
  replace (remaining d <? 4) with false by (symmetry; apply Z.ltb_ge; nia).
  pose proof (at_read _ _ _ Hat) as Hr. rewrite len_be in Hr. change (Z.of_nat 4) with 4 in Hr. rewrite Hr.
  rewrite u32_be by (unfold two32; lia).
  assert (R : remaining (adv d 4) = remaining d - 4) by (unfold remaining; cbn; lia).
  replace (remaining (adv d 4) <? Z.of_nat w * len l) with false by (symmetry; apply Z.ltb_ge; change (Z.of_nat 4) with 4 in Hrem; lia).
  replace (len l =? 0) with false by (symmetry; apply Z.eqb_neq; lia).
  replace (len l <? 0) with false by (symmetry; apply Z.ltb_ge; lia).
  rewrite to_nat_len.
  assert (Hat2 : at_ (alloc (adv d 4) (Z.of_nat w * len l)) (real_ints w l ++ rest)).
  { eapply at_moved; [exact Hat|]. rewrite len_be. apply (moved_adv_alloc d 4). }
  pose proof (read_ints_rt w conv l _ rest Hall Hat2) as G. step G.
  eexists; split; [reflexivity|].
  eapply moved_eq; [eapply moved_trans; [apply (moved_adv_alloc d 4 (Z.of_nat w * len l)) | exact M] | lia | lia].
Qed.

(* string arrays *)
Lemma len_real_strings l : len (real_strings l) = 2 * len l + sum_len l.
Proof.
  induction l as [|s l IH]; cbn [real_strings sum_len]; [reflexivity|].
  rewrite !len_app, len_be, len_cons, IH. lia.
Qed.
Lemma sum_len_nonneg l : 0 <= sum_len l.
Proof. induction l as [|s l IH]; cbn [sum_len]; [lia | pose proof (len_nonneg s); lia]. Qed.

Lemma read_strings_rt l d rest : Forall (fun s => len s <= MAX_INT16) l -> at_ d (real_strings l ++ rest) ->
  okm (read_strings (length l) d) l d (len (real_strings l)) (sum_len l).
Proof.
  revert d; induction l as [|s l IH]; intros d Hall Hat.
  - cbn [length read_strings]. eexists; split; [reflexivity | apply moved_refl].
  - inversion Hall as [|? ? Hs Hl]; subst. cbn [real_strings] in Hat.
    cbn [length read_strings].
    assert (Hat0 : at_ d ((be 2 (len s) ++ s) ++ real_strings l ++ rest)) by (now rewrite <- !app_assoc in *).
    pose proof (get_string_rt s d _ Hs Hat0) as G. step G.
    assert (Hat1 : at_ d1 (real_strings l ++ rest)).
    { eapply at_moved; [exact Hat0|]. rewrite len_app, len_be. exact M. }
    pose proof (IH _ Hl Hat1) as G. step G.
    eexists; split; [reflexivity|]. cbn [real_strings sum_len]. rewrite !len_app, len_be.
    eapply moved_eq; [eapply moved_trans; eassumption | change (Z.of_nat 2) with 2; lia | lia].
Qed.

Lemma get_string_array_empty d rest : at_ d (be 4 0 ++ rest) -> okm (get_string_array d) None d 4 0.
Proof.
  intros Hat. unfold get_string_array. pose proof (at_remaining _ _ Hat) as Hrem. rewrite len_app, len_be in Hrem.
  pose proof (len_nonneg rest).
  replace (remaining d <? 4) with false by (symmetry; apply Z.ltb_ge; lia).
  pose proof (at_read _ _ _ Hat) as Hr. rewrite len_be in Hr. change (Z.of_nat 4) with 4 in Hr. rewrite Hr.
  change (ube (be 4 0)) with 0. change (2 * 0) with 0.
  assert (R : remaining (adv d 4) = remaining d - 4) by (unfold remaining; cbn; lia).
  replace (remaining (adv d 4) <? 0) with false by (symmetry; apply Z.ltb_ge; lia).
  cbn [Z.eqb]. eexists; split; [reflexivity | apply moved_adv].
Qed.
Lemma get_string_array_some l d rest : 0 < len l < MAXLEN -> Forall (fun s => len s <= MAX_INT16) l ->
  at_ d ((be 4 (len l) ++ real_strings l) ++ rest) ->
  okm (get_string_array d) (Some l) d (4 + len (real_strings l)) (STRING_HEADER * len l + sum_len l).
Proof.
  intros Hl Hall Hat. rewrite <- app_assoc in Hat. unfold get_string_array, MAXLEN in *.
  pose proof (at_remaining _ _ Hat) as Hrem. rewrite !len_app, len_be, len_real_strings in Hrem.
  pose proof (len_nonneg rest). pose proof (sum_len_nonneg l). change (Z.of_nat 4) with 4 in Hrem.
  replace (remaining d <? 4) with false by (symmetry; apply Z.ltb_ge; lia).
  pose proof (at_read _ _ _ Hat) as Hr. rewrite len_be in Hr. change (Z.of_nat 4) with 4 in Hr. rewrite Hr.
  rewrite u32_be by (unfold two32; lia).
  assert (R : remaining (adv d 4) = remaining d - 4) by (unfold remaining; cbn; lia).
  replace (remaining (adv d 4) <? 2 * len l) with false by (symmetry; apply Z.ltb_ge; lia).
  replace (len l =? 0) with false by (symmetry; apply Z.eqb_neq; lia).
  replace (len l <? 0) with false by (symmetry; apply Z.ltb_ge; lia).
  rewrite to_nat_len.
  assert (Hat2 : at_ (alloc (adv d 4) (STRING_HEADER * len l)) (real_strings l ++ rest)).
  { eapply at_moved; [exact Hat|]. rewrite len_be. apply (moved_adv_alloc d 4). }
  pose proof (read_strings_rt l _ rest Hall Hat2) as G. step G.
  eexists; split; [reflexivity|].
  eapply moved_eq; [eapply moved_trans; [apply (moved_adv_alloc d 4 (STRING_HEADER * len l)) | exact M] | lia | lia].
Qed.

(* array lengths: the count must not exceed the bytes that follow *)
Lemma get_array_length_rt n d rest : -1 <= n <= MAX_ARRAY -> n <= remaining d - 4 -> at_ d (be 4 n ++ rest) ->
  okm (get_array_length d) n d 4 0.
Proof.
  intros Hn Hctx Hat. unfold get_array_length, MAX_ARRAY in *.
  pose proof (at_remaining _ _ Hat) as Hrem. rewrite len_app, len_be in Hrem. pose proof (len_nonneg rest).
  change (Z.of_nat 4) with 4 in Hrem.
  replace (remaining d <? 4) with false by (symmetry; apply Z.ltb_ge; lia).
  pose proof (at_read _ _ _ Hat) as Hr. rewrite len_be in Hr. change (Z.of_nat 4) with 4 in Hr. rewrite Hr.
  rewrite i32_be by (unfold in_i32; lia).
  assert (R : remaining (adv d 4) = remaining d - 4) by (unfold remaining; cbn; lia).
  replace (remaining (adv d 4) <? n) with false by (symmetry; apply Z.ltb_ge; lia).
  replace ((131070 <? n) || (n <? -1)) with false
    by (symmetry; apply orb_false_iff; split; apply Z.ltb_ge; lia).
  eexists; split; [reflexivity | apply moved_adv].
Qed.

Lemma get_compact_array_length_rt n d rest : -1 <= n < MAXLEN ->
  n <= remaining d - len (put_uvarint (u64 (n + 1))) -> at_ d (put_uvarint (u64 (n + 1)) ++ rest) ->
  okm (get_compact_array_length d) (Z.max n 0) d (len (put_uvarint (u64 (n + 1)))) 0.
Proof.
  intros Hn Hctx Hat. unfold get_compact_array_length, MAXLEN in *.
  assert (U : u64 (n + 1) = n + 1) by (unfold u64, two64; lia). rewrite U in *.
  pose proof (get_uvarint_rt (n + 1) d rest ltac:(unfold in_u64, two64; lia) Hat) as G. step G.
  destruct (Z.eqb_spec (n + 1) 0) as [E0|N0].
  - replace (Z.max n 0) with 0 by lia. eexists; split; [reflexivity | exact M].
  - rewrite (moved_remaining _ _ _ _ M).
    replace (u64 (n + 1 - 1)) with n by (unfold u64, two64; lia).
    replace (remaining d - len (put_uvarint (n + 1)) <? n) with false by (symmetry; apply Z.ltb_ge; lia).
    replace (i64 (n + 1) - 1) with (Z.max n 0) by (unfold i64, two64, two63; lia).
    eexists; split; [reflexivity | exact M].
Qed.

Lemma get_bool_rt (b : bool) d rest : at_ d (be 1 (if b then 1 else 0) ++ rest) -> okm (get_bool d) b d 1 0.
Proof.
  intros Hat. unfold get_bool.
  pose proof (get_int8_rt (if b then 1 else 0) d rest ltac:(unfold in_i8; destruct b; lia) Hat) as G. step G.
  destruct b; cbn; eexists; split; try reflexivity; exact M.
Qed.

Lemma get_empty_tagged_rt d rest : at_ d (put_uvarint 0 ++ rest) -> okm (get_empty_tagged d) 0 d 1 0.
Proof.
  intros Hat. unfold get_empty_tagged.
  pose proof (get_uvarint_rt 0 d rest ltac:(unfold in_u64, two64; lia) Hat) as G. step G.
  eexists; split; [reflexivity | exact M].
Qed.

