(* Wire/PushPop.v — the deferred ("push") fields: lengthField, varintLengthField (with adjustLength),
   crc32Field, and the push/pop protocol of prepEncoder, realEncoder and realDecoder
   (length_field.go, crc32_field.go, prep_encoder.go push/pop, real_encoder.go push/pop, real_decoder.go push/pop),
   plus the two-pass [encode] and the whole-buffer [decode] of encoder_decoder.go.  Model only (no proofs).

   Encoder side.  An encode method is a sequence of put-calls in which push ... pop pairs are properly
   bracketed (true of every encode method in the package: a push is popped in the same function, early
   returns in between abort the whole encode with an error).  Such a method is represented by an [eops] tree:
   [EFrame k body rest] = push(k); body; pop(); rest.  The same tree is interpreted twice, like the Go method
   is run twice: [run_prep] (prepEncoder: sizes, and the adjustment of varint length fields, which live in the
   encoded object and survive into the second pass) and [run_real] (realEncoder: bytes; pop patches the
   reserved bytes at the saved offset from the contents of the buffer, as pushEncoder.run does). *)
From Coq Require Import List ZArith Bool.
From SV Require Import Wire.Bytes Wire.Varint Wire.Crc Wire.Prim.
Import ListNotations.
Open Scope Z_scope.

Inductive eops :=
| ENil
| ECons (p : eprim) (rest : eops)
| EFrame (k : pushkind) (body rest : eops).

Fixpoint eapp (a b : eops) : eops :=
  match a with
  | ENil => b
  | ECons p r => ECons p (eapp r b)
  | EFrame k body r => EFrame k body (eapp r b)
  end.
Fixpoint eseq (l : list eprim) (rest : eops) : eops :=
  match l with [] => rest | p :: r => ECons p (eseq r rest) end.

(* reserveLength() *)
Definition reserve (k : pushkind) : Z :=
  match k with KLen => 4 | KCrc _ => 4 | KVarLen l => len (put_varint l) end.

(* ------------------------------------------------------------------ prepEncoder *)
(* pop(): only a dynamicPushEncoder (varintLengthField) adjusts: l.length = cur - start - oldFieldSize;
   pe.length += newFieldSize - oldFieldSize.  Returns the new pe.length and the field's new state. *)
Definition prep_pop (k : pushkind) (start cur : Z) : Z * pushkind :=
  match k with
  | KVarLen l =>
    let old := reserve (KVarLen l) in
    let l' := cur - start - old in
    (cur + (reserve (KVarLen l') - old), KVarLen l')
  | _ => (cur, k)
  end.

(* returns the final pe.length and the tree with the varint length fields as the pass leaves them *)
Fixpoint run_prep (ops : eops) (plen : Z) : eerr + (Z * eops) :=
  match ops with
  | ENil => inr (plen, ENil)
  | ECons p rest =>
    match prep_prim p with
    | inl e => inl e
    | inr n => match run_prep rest (plen + n) with
               | inl e => inl e
               | inr (m, rest') => inr (m, ECons p rest')
               end
    end
  | EFrame k body rest =>
    let start := plen in                                  (* saveOffset(pe.length) *)
    match run_prep body (plen + reserve k) with           (* pe.length += reserveLength() *)
    | inl e => inl e
    | inr (cur, body') =>
      let '(cur', k') := prep_pop k start cur in
      match run_prep rest cur' with
      | inl e => inl e
      | inr (m, rest') => inr (m, EFrame k' body' rest')
      end
    end
  end.

(* ------------------------------------------------------------------ realEncoder *)
(* pushEncoder.run(curOffset, buf): the bytes written at buf[startOffset:] *)
Definition field_bytes (k : pushkind) (start : Z) (buf : list Z) : option (list Z) :=
  let cur := len buf in
  match k with
  | KLen => Some (be 4 (cur - start - 4))                                   (* uint32(curOffset - startOffset - 4) *)
  | KVarLen l => Some (put_varint l)                                         (* binary.PutVarint(buf[start:], l.length) *)
  | KCrc p => match slice buf (start + 4) cur with                           (* crc32.Checksum(buf[start+4:cur], tab) *)
              | None => None
              | Some covered => Some (be 4 (crc32 p covered))
              end
  end.

(* the buffer is modelled by the bytes written so far (buf = re.raw[:re.off]); None = run-time panic *)
Fixpoint run_real (ops : eops) (buf : list Z) : option (eerr + list Z) :=
  match ops with
  | ENil => Some (inr buf)
  | ECons p rest =>
    match real_prim p with
    | inl e => Some (inl e)
    | inr bs => run_real rest (buf ++ bs)
    end
  | EFrame k body rest =>
    let start := len buf in                                                  (* saveOffset(re.off) *)
    match run_real body (buf ++ zeros (Z.to_nat (reserve k))) with           (* re.off += reserveLength() *)
    | Some (inr buf1) =>
      match field_bytes k start buf1 with
      | None => None
      | Some fb => match patch buf1 start fb with
                   | None => None
                   | Some buf2 => run_real rest buf2
                   end
      end
    | other => other
    end
  end.

(* encoder_decoder.go encode(): prep pass, size check, real pass into a buffer of exactly the prep size *)
Definition MAX_REQUEST_SIZE := 104857600.   (* MaxRequestSize default: 100 * 1024 * 1024 *)
Inductive encoded := EncOk (bytes : list Z) | EncErr (e : eerr) | EncPanic.
Definition encode (ops : eops) : encoded :=
  match run_prep ops 0 with
  | inl e => EncErr e
  | inr (n, ops') =>
    if (n <? 0) || (MAX_REQUEST_SIZE <? n) then EncErr EEInvalidSize
    else match run_real ops' [] with
         | None => EncPanic
         | Some (inl e) => EncErr e
         | Some (inr bs) =>
           (* realEnc.raw = make([]byte, prepEnc.length): writing past it panics, writing less leaves zeros *)
           if n <? len bs then EncPanic else EncOk (bs ++ zeros (Z.to_nat (n - len bs)))
         end
  end.
Definition prep_size (ops : eops) : eerr + Z :=
  match run_prep ops 0 with inl e => inl e | inr (n, _) => inr n end.

(* the compositional specification of the bytes: what the protocol prescribes for a framed region *)
Fixpoint spec_bytes (ops : eops) : eerr + list Z :=
  match ops with
  | ENil => inr []
  | ECons p rest =>
    match real_prim p, spec_bytes rest with
    | inl e, _ => inl e
    | _, inl e => inl e
    | inr a, inr b => inr (a ++ b)
    end
  | EFrame k body rest =>
    match spec_bytes body, spec_bytes rest with
    | inl e, _ => inl e
    | _, inl e => inl e
    | inr b, inr r =>
      match k with
      | KLen => inr (be 4 (len b) ++ b ++ r)
      | KVarLen _ => inr (put_varint (len b) ++ b ++ r)
      | KCrc p => inr (be 4 (crc32 p b) ++ b ++ r)
      end
    end
  end.

(* ------------------------------------------------------------------ realDecoder push / pop *)
(* lengthField.decode: getInt32, then length > int32(remaining) -> ErrInsufficientData (offset not moved to the end) *)
Definition push_dec (k : pushkind) (d : dec) : res unit :=
  let start := off d in
  match k with
  | KLen =>
    let* (l, d) := get_int32 d in
    if i32 (remaining d) <? l then Err EInsufficient d
    else Ok tt (set_stack d (DLen start l :: stack d))
  | KVarLen _ =>
    let* (l, d) := get_varint d in
    Ok tt (set_stack d (DVarLen start l :: stack d))
  | KCrc p =>
    if remaining d <? 4 then Err EInsufficient (to_end d)
    else Ok tt (adv (set_stack d (DCrc p start :: stack d)) 4)
  end.

(* pushDecoder.check(curOffset, buf) *)
Definition check_field (f : dfield) (d : dec) : res unit :=
  let cur := off d in
  match f with
  | DLen start l => if i32 (cur - start - 4) =? l then Ok tt d else Err ELengthField d
  | DVarLen start l => if cur - start - len (put_varint l) =? l then Ok tt d else Err ELengthField d
  | DCrc p start =>
    match slice (raw d) (start + 4) cur, slice (raw d) start (len (raw d)) with
    | Some covered, Some tail =>
      if len tail <? 4 then Panic P_INDEX
      else if crc32 p covered =? ube (firstn 4 tail) then Ok tt d else Err ECrc d
    | _, _ => Panic P_SLICE
    end
  end.

Definition pop_dec (d : dec) : res unit :=
  match stack d with
  | [] => Panic P_POP
  | f :: s => check_field f (set_stack d s)
  end.

(* encoder_decoder.go decode(buf, in): fresh decoder, in.decode, then the whole buffer must be consumed *)
Definition decode_all {A} (f : dec -> res A) (buf : list Z) : res A :=
  let* (v, d) := f (new_dec buf) in
  if off d =? len (raw d) then Ok v d else Err EInvalidLength d.
