(* Wire/Examples.v — the hypotheses of the C09a / C10a theorems are satisfiable on non-trivial values. *)
From Coq Require Import List ZArith Bool Lia.
From SV Require Import Base.Corr Wire.Bytes Wire.BytesProofs Wire.Varint Wire.VarintProofs Wire.Crc Wire.CrcProofs
  Wire.Prim Wire.PushPop Wire.CorrPrim Wire.PrimProofs Wire.PrimThms Wire.SafetyProofs.
Import ListNotations.
Open Scope Z_scope.

(* a record-batch-shaped script: offset, length frame around (epoch, magic, CRC-32C frame around
   (attributes, a varint-framed record with a nil key, a value and a varint, a string array)) *)
Definition ex_script : eops :=
  ECons (PInt64 7)
  (EFrame KLen
     (ECons (PInt32 (-1)) (ECons (PInt8 2)
       (EFrame (KCrc Castagnoli)
          (ECons (PInt16 0)
            (EFrame (KVarLen 99)      (* a stale length left in the field by an earlier encode *)
               (ECons (PVarintBytes None) (ECons (PVarintBytes (Some [104; 105])) (ECons (PVarint (-7)) ENil)))
               (ECons (PStringArray (Some [[97]; []; [98; 99]])) ENil)))
          ENil)))
     (ECons (PNullableString None) ENil)).

Definition ex_bytes : list Z :=
  [0;0;0;0;0;0;0;7; 0;0;0;30; 255;255;255;255; 2; 239;166;9;199; 0;0; 10; 1; 4;104;105; 13;
   0;0;0;3; 0;1;97; 0;0; 0;2;98;99; 255;255].

Example ex_encode : encode ex_script = EncOk ex_bytes /\ prep_size ex_script = inr (len ex_bytes).
Proof. vm_compute. split; reflexivity. Qed.
Example ex_spec : spec_bytes ex_script = inr ex_bytes.
Proof. vm_compute. reflexivity. Qed.
Example ex_ops_ok : ops_ok ex_script 0.
Proof.
  cbn [ops_ok ex_script prim_ok ctx_ok]. unfold blen, in_i64, in_i32, in_i8, in_i16, MAXLEN, MAX_INT16, strs_ok, two63.
  repeat split; try (vm_compute; congruence); try lia; repeat constructor; vm_compute; congruence.
Qed.
Example ex_decode :
  run_dops (dops_of ex_script) (new_dec ex_bytes) = (expected_vals ex_script, (0, len ex_bytes)).
Proof. vm_compute. reflexivity. Qed.

(* a decoder state satisfying wf_dec with a non-empty stack, in the middle of a buffer *)
Definition ex_dec : dec := mkDec ex_bytes 21 0 [DCrc Castagnoli 17; DLen 8 30].
Example ex_wf : wf_dec ex_dec /\ dop_pre DPop ex_dec /\ dop_pre (GPeekInt8 16) ex_dec.
Proof.
  unfold wf_dec, inb, ex_dec, two63. cbn [raw off stack dop_pre]. repeat split; try (vm_compute; congruence); try lia.
  repeat constructor; cbn; lia.
Qed.

(* ---------------------------------------------------------------- records layer *)
From SV Require Import Wire.Records Wire.RecordsProofs Wire.BatchProofs Wire.RecordsSafety.

Definition ex_record : record :=
  mkRecord 0 7500000 3 None (Some [118; 49]) (Some [mkHeader (Some [104]) None; mkHeader None (Some [])]).
Definition ex_batch : batch :=
  mkBatch 100 (-1) 2 0 false true 1 1600000000123456789 ZERO_TIME 9 2 0
    (Some [ex_record; mkRecord (-1) (-1) (-1) (Some []) None None]) false true.
(* a toy codec for the example: codec 1 reverses the bytes *)
Definition ex_compress (c : Z) (x : list Z) : option (list Z) := if c =? 1 then Some (rev x) else None.

Example ex_record_ok : record_ok ex_record.
Proof.
  unfold record_ok, ex_record, in_i8, in_i64, obytes_ok, MAXLEN, two63. cbn [r_attrs r_tsdelta r_offdelta r_key r_value r_headers olist].
  repeat split; try lia.
  repeat (constructor; [unfold header_ok, obytes_ok, MAXLEN; cbn; split; lia|]). constructor.
Qed.
Example ex_batch_ok : batch_ok ex_batch.
Proof.
  unfold batch_ok, ex_batch, in_i64, in_i32, in_i16, ts_ok, two63, ZERO_TIME.
  cbn [b_first_offset b_leader_epoch b_version b_codec b_last_offset_delta b_first_ts b_max_ts b_producer_id b_producer_epoch b_first_seq b_records olist].
  repeat split; try lia; try (right; lia); try (left; reflexivity).
  constructor; [exact ex_record_ok|]. constructor; [|constructor].
  unfold record_ok, in_i8, in_i64, obytes_ok, MAXLEN, two63. cbn. repeat split; try lia. constructor.
Qed.
Example ex_batch_encodes :
  match batch_ops ex_compress ex_batch with
  | inr ops => match encode ops with EncOk bs => len bs = 61 + 21 | _ => False end
  | inl _ => False
  end.
Proof. vm_compute. reflexivity. Qed.
Example ex_batch_decodes :
  match batch_ops ex_compress ex_batch with
  | inr ops => match encode ops with
               | EncOk bs => match batch_decode ex_compress (new_dec bs) with
                             | Ok b d => b = norm_batch ex_batch /\ off d = len bs
                             | _ => False end
               | _ => False end
  | inl _ => False
  end.
Proof. vm_compute. split; reflexivity. Qed.
(* a compressed one (codec 1 of the toy codec, which is its own inverse) *)
Example ex_batch_compressed :
  let b := mkBatch 5 0 2 1 true false 0 0 0 0 0 0 (Some [ex_record; ex_record]) false false in
  match batch_ops ex_compress b with
  | inr ops => match encode ops with
               | EncOk bs => match batch_decode ex_compress (new_dec bs) with
                             | Ok b' d => b' = norm_batch b /\ off d = len bs
                             | _ => False end
               | _ => False end
  | inl _ => False
  end.
Proof. vm_compute. split; reflexivity. Qed.

(* ---------------------------------------------------------------- legacy message sets *)
From SV Require Import Wire.MsetProofs.
Definition ex_inner : mblocks :=
  MCons 0 (mkMsg 0 false None (Some [97]) None 1 1600000000999000000) (MCons 1 (mkMsg 0 true (Some []) None None 0 ZERO_TIME) MNil).
Definition ex_inner_bytes : list Z :=
  match mblocks_ops ex_compress ex_inner with inr ops => match spec_bytes ops with inr b => b | _ => [] end | _ => [] end.
Definition ex_set : mblocks :=
  MCons 7 (mkMsg 0 false (Some [107]) (Some []) None 0 ZERO_TIME)
  (MCons 8 (mkMsg 1 false None (Some ex_inner_bytes) None 1 1600000001000000000) MNil).

Example ex_set_decodes :
  match mblocks_ops ex_compress ex_set with
  | inr ops => match encode ops with
               | EncOk bs =>
                 match mset_decode ex_compress 3 (new_dec bs) with
                 | Ok (mkSet false false (MCons 7 _ (MCons 8 (mkMsg 1 false None (Some v) (Some (mkSet false false inner)) 1 ts) MNil))) d =>
                   v = ex_inner_bytes /\ inner = norm_plain ex_inner /\ off d = len bs /\ ts = 1600000001000000000
                 | _ => False end
               | _ => False end
  | inl _ => False
  end.
Proof. vm_compute. repeat split; reflexivity. Qed.
Example ex_plain : plain_blocks ex_inner.
Proof.
  unfold ex_inner. apply pl_cons; [unfold in_i64, two63; lia | | reflexivity |].
  - cbn [msg_ok]. unfold ts_ok, MAXLEN, two63. cbn [olist]. repeat split; try lia; try (now right); try (intros _; right; lia); cbn; lia.
  - apply pl_cons; [unfold in_i64, two63; lia | | reflexivity | apply pl_nil].
    cbn [msg_ok]. unfold MAXLEN. cbn [olist]. repeat split; try lia; try (now left); try (intros H; discriminate); cbn; lia.
Qed.

(* ---------------------------------------------------------------- FetchResponseBlock *)
From SV Require Import Wire.FetchProofs.
Definition ex_b2 : batch := mkBatch 5 0 2 1 true false 0 0 0 0 0 0 (Some [ex_record; ex_record]) false false.
Definition ex_fblock : fblock :=
  mkFBlock 3 1000 900 10 (Some [(7, 20); (8, 30)]) 2 None [RDefault ex_batch; RDefault ex_b2] false.
Example ex_fblock_decodes :
  match fblock_ops ex_compress 11 ex_fblock with
  | inr ops => match encode ops with
               | EncOk bs => match fblock_decode ex_compress 3 11 (new_dec bs) with
                             | Ok b d => b = norm_fblock 11 ex_fblock [ex_batch; ex_b2] /\ off d = len bs /\
                                         fb_records b = Some (RDefault (norm_batch ex_batch))
                             | _ => False end
               | _ => False end
  | inl _ => False
  end.
Proof. vm_compute. repeat split; reflexivity. Qed.
