(* Wire/Examples.v — the hypotheses of the C09a / C10a theorems are satisfiable on non-trivial values. *)
From Coq Require Import List ZArith Bool Lia.
From SV Require Import Base.Corr Wire.Bytes Wire.BytesProofs Wire.Varint Wire.VarintProofs Wire.Crc Wire.CrcProofs
  Wire.Prim Wire.PushPop Wire.CorrPrim Wire.PrimProofs Wire.PrimThms Wire.SafetyProofs.
Import ListNotations.
Open Scope Z_scope.

(* a record-batch-shaped script: offset, length frame around (epoch, magic, CRC-32C frame around
   (attributes, a varint-framed record with a nil key, a value and a varint, a string array)) *)
Definition ex_script : eops :=
  ECons (PInt64 7)
  (EFrame KLen
     (ECons (PInt32 (-1)) (ECons (PInt8 2)
       (EFrame (KCrc Castagnoli)
          (ECons (PInt16 0)
            (EFrame (KVarLen 99)      (* a stale length left in the field by an earlier encode *)
               (ECons (PVarintBytes None) (ECons (PVarintBytes (Some [104; 105])) (ECons (PVarint (-7)) ENil)))
               (ECons (PStringArray (Some [[97]; []; [98; 99]])) ENil)))
          ENil)))
     (ECons (PNullableString None) ENil)).

Definition ex_bytes : list Z :=
  [0;0;0;0;0;0;0;7; 0;0;0;30; 255;255;255;255; 2; 239;166;9;199; 0;0; 10; 1; 4;104;105; 13;
   0;0;0;3; 0;1;97; 0;0; 0;2;98;99; 255;255].

Example ex_encode : encode ex_script = EncOk ex_bytes /\ prep_size ex_script = inr (len ex_bytes).
Proof. vm_compute. split; reflexivity. Qed.
Example ex_spec : spec_bytes ex_script = inr ex_bytes.
Proof. vm_compute. reflexivity. Qed.
Example ex_ops_ok : ops_ok ex_script 0.
Proof.
  cbn [ops_ok ex_script prim_ok ctx_ok]. unfold blen, in_i64, in_i32, in_i8, in_i16, MAXLEN, MAX_INT16, strs_ok, two63.
  repeat split; try (vm_compute; congruence); try lia; repeat constructor; vm_compute; congruence.
Qed.
Example ex_decode :
  run_dops (dops_of ex_script) (new_dec ex_bytes) = (expected_vals ex_script, (0, len ex_bytes)).
Proof. vm_compute. reflexivity. Qed.

(* a decoder state satisfying wf_dec with a non-empty stack, in the middle of a buffer *)
Definition ex_dec : dec := mkDec ex_bytes 21 0 [DCrc Castagnoli 17; DLen 8 30].
Example ex_wf : wf_dec ex_dec /\ dop_pre DPop ex_dec /\ dop_pre (GPeekInt8 16) ex_dec.
Proof.
  unfold wf_dec, inb, ex_dec, two63. cbn [raw off stack dop_pre]. repeat split; try (vm_compute; congruence); try lia.
  repeat constructor; cbn; lia.
Qed.
