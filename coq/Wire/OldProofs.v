(* Wire/OldProofs.v — witnesses: the pre-fix getters panic / allocate out of proportion on short inputs. *)
From Coq Require Import List ZArith Bool Lia.
From SV Require Import Wire.Bytes Wire.Varint Wire.Crc Wire.Prim Wire.PrimOld.
Import ListNotations.
Open Scope Z_scope.

(* one byte 00: compact string with the null length: rd.raw[0:-1] *)
Lemma old_compact_string_null : get_compact_string_old (mkDec [0] 0 0 []) = Panic P_SLICE.
Proof. vm_compute. reflexivity. Qed.
(* 7f 41: announced length 126, one byte present *)
Lemma old_compact_string_long : get_compact_string_old (mkDec [127; 65] 0 0 []) = Panic P_SLICE.
Proof. vm_compute. reflexivity. Qed.
Lemma old_compact_nullable_string_long : get_compact_nullable_string_old (mkDec [127; 65] 0 0 []) = Panic P_SLICE.
Proof. vm_compute. reflexivity. Qed.
(* 7f ff ff ff: make([]string, 2^31-1) = 32 GiB from four bytes (JoinGroup member metadata after the version) *)
Lemma old_string_array_alloc : get_string_array_old (mkDec [127; 255; 255; 255] 0 0 []) = Alloc 2147483647.
Proof. vm_compute. reflexivity. Qed.
(* ff ff ff fe: array length -2 is returned; MetadataResponse.decode does make([]*Broker, -2) *)
Lemma old_array_length_negative : exists d', get_array_length_old (mkDec [255; 255; 255; 254] 0 0 []) = Ok (-2) d'.
Proof. eexists. vm_compute. reflexivity. Qed.
(* ff ff ff ff 0f ..: make([]int32, 2^32-2) *)
Lemma old_compact_int32_array_alloc : get_compact_int32_array_old (mkDec [255; 255; 255; 255; 15; 1; 2; 3] 0 0 []) = Alloc 4294967294.
Proof. vm_compute. reflexivity. Qed.
(* 03 00 00 00 01: two elements announced, one present: index out of range in the loop *)
Lemma old_compact_int32_array_short : get_compact_int32_array_old (mkDec [3; 0; 0; 0; 1] 0 0 []) = Panic P_INDEX.
Proof. vm_compute. reflexivity. Qed.
(* uvarint 2^64-1: int(n)-1 = -2: make panics *)
Lemma old_compact_int32_array_negative :
  get_compact_int32_array_old (mkDec [255; 255; 255; 255; 255; 255; 255; 255; 255; 1] 0 0 []) = Panic P_MAKE.
Proof. vm_compute. reflexivity. Qed.
Lemma old_compact_array_length_huge : exists d', get_compact_array_length_old (mkDec [128; 128; 128; 128; 16] 0 0 []) = Ok 4294967295 d'.
Proof. eexists. vm_compute. reflexivity. Qed.

(* the fixed getters on the same inputs *)
Lemma fixed_on_witnesses :
  (exists d', get_compact_string (mkDec [0] 0 0 []) = Err EInvalidStringLength d') /\
  (exists d', get_compact_string (mkDec [127; 65] 0 0 []) = Err EInsufficient d') /\
  (exists d', get_string_array (mkDec [127; 255; 255; 255] 0 0 []) = Err EInsufficient d') /\
  (exists d', get_array_length (mkDec [255; 255; 255; 254] 0 0 []) = Err EInvalidArrayLength d') /\
  (exists d', get_compact_int32_array (mkDec [255; 255; 255; 255; 15; 1; 2; 3] 0 0 []) = Err EInsufficient d') /\
  (exists d', get_compact_int32_array (mkDec [3; 0; 0; 0; 1] 0 0 []) = Err EInsufficient d') /\
  (exists d', get_compact_array_length (mkDec [128; 128; 128; 128; 16] 0 0 []) = Err EInsufficient d').
Proof. repeat split; eexists; vm_compute; reflexivity. Qed.
