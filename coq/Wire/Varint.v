(* Wire/Varint.v — model of encoding/binary's PutUvarint / PutVarint / Uvarint / Varint as sarama
   uses them (real_encoder.go putVarint/putUVarint, real_decoder.go getVarint/getUVarint), plus the
   Kafka protocol's definition of the encoding (zig-zag, base-128 little-endian groups) as a spec.
   Model only (no proofs). *)
From Coq Require Import List ZArith Bool.
From SV Require Import Wire.Bytes.
Import ListNotations.
Open Scope Z_scope.

(* ---- Go: func PutUvarint(buf []byte, x uint64) int
     for x >= 0x80 { buf[i] = byte(x) | 0x80; x >>= 7; i++ }; buf[i] = byte(x); return i+1
   ten iterations suffice for a uint64; the fuel never runs out for x < 2^64 (proved). *)
Fixpoint put_uvarint_fuel (fuel : nat) (x : Z) : list Z :=
  match fuel with
  | O => []
  | S f => if 128 <=? x then Z.lor (x mod 256) 128 :: put_uvarint_fuel f (Z.shiftr x 7) else [x mod 256]
  end.
Definition put_uvarint (x : Z) : list Z := put_uvarint_fuel 10 x.

(* ---- Go: func PutVarint(buf, x int64): ux := uint64(x) << 1; if x < 0 { ux = ^ux }; PutUvarint(ux) *)
Definition zigzag_go (x : Z) : Z :=
  let ux := u64 (Z.shiftl (u64 x) 1) in
  if x <? 0 then two64 - 1 - ux else ux.
Definition put_varint (x : Z) : list Z := put_uvarint (zigzag_go x).

(* ---- Go 1.23: func Uvarint(buf []byte) (uint64, int)
     for i, b := range buf {
        if i == MaxVarintLen64 { return 0, -(i+1) }
        if b < 0x80 { if i == MaxVarintLen64-1 && b > 1 { return 0, -(i+1) }; return x | uint64(b)<<s, i+1 }
        x |= uint64(b&0x7f) << s;  s += 7 }
     return 0, 0 *)
Fixpoint uvarint_loop (buf : list Z) (i x s : Z) : Z * Z :=
  match buf with
  | [] => (0, 0)
  | b :: r =>
    if i =? 10 then (0, - (i + 1))
    else if b <? 128 then
      (if (i =? 9) && (1 <? b) then (0, - (i + 1))
       else (u64 (Z.lor x (Z.shiftl b s)), i + 1))
    else uvarint_loop r (i + 1) (u64 (Z.lor x (Z.shiftl (Z.land b 127) s))) (s + 7)
  end.
Definition uvarint (buf : list Z) : Z * Z := uvarint_loop buf 0 0 0.

(* ---- Go: func Varint(buf) (int64, int): ux, n := Uvarint(buf); x := int64(ux >> 1); if ux&1 != 0 { x = ^x } *)
Definition unzigzag_go (ux : Z) : Z :=
  let x := i64 (Z.shiftr ux 1) in
  if Z.odd ux then Z.lnot x else x.
Definition varint (buf : list Z) : Z * Z :=
  let '(ux, n) := uvarint buf in (unzigzag_go ux, n).

(* ================= the Kafka protocol's definition (specification) ================= *)
(* zig-zag: 0,-1,1,-2,2,... -> 0,1,2,3,4,...  ((n << 1) ^ (n >> 63) on 64 bits) *)
Definition zigzag (x : Z) : Z := if 0 <=? x then 2 * x else - 2 * x - 1.
Definition unzigzag (u : Z) : Z := if Z.even u then u / 2 else - ((u + 1) / 2).

(* value of a base-128 little-endian group string: sum (b_i mod 128) * 128^i *)
Fixpoint groups_value (l : list Z) : Z :=
  match l with [] => 0 | b :: r => b mod 128 + 128 * groups_value r end.
(* continuation bit set on every byte but the last, and the last group is not a redundant zero *)
Fixpoint groups_canonical (l : list Z) : bool :=
  match l with
  | [] => false
  | [b] => (0 <=? b) && (b <? 128)
  | b :: ((_ :: _) as r) => (128 <=? b) && (b <? 256) && groups_canonical r && negb (last r 0 =? 0)
  end.
(* number of bytes: 1 for x < 2^7, 2 for x < 2^14, ... 10 for x < 2^64 *)
Fixpoint uvarint_size_fuel (fuel : nat) (x : Z) : Z :=
  match fuel with O => 0 | S f => if 128 <=? x then 1 + uvarint_size_fuel f (x / 128) else 1 end.
Definition uvarint_size (x : Z) : Z := uvarint_size_fuel 10 x.
Definition varint_size (x : Z) : Z := uvarint_size (zigzag x).
