(* Wire/CorrPrim.v — correspondence functions for the primitive layer.  The harness
   (go/harness/cmd/c09prim, c10prim with the in-package shim go/shims/wire1_prim.go) runs scripts of put-calls
   through sarama's real encode() (prepEncoder + realEncoder) and scripts of get-calls through a realDecoder,
   and writes what it observed; these functions re-run the model and compare. *)
From Coq Require Import List ZArith Bool.
From SV Require Import Base.Corr Wire.Bytes Wire.Varint Wire.Crc Wire.Prim Wire.PushPop.
Import ListNotations.
Open Scope Z_scope.

(* ------------------------------------------------------------------ encoder cases *)
Record ecase := {
  ec_ops : eops;
  ec_status : Z;          (* 0 = bytes returned; 100 = panic; otherwise eerr_id of the error *)
  ec_prep : Z;            (* prepEncoder.length after the first pass (-1 when it returned an error) *)
  ec_bytes : list Z }.    (* bytes returned by encode() *)

Definition lz_eqb := list_eqb Z.eqb.

Definition ok_enc (c : ecase) : bool :=
  match encode (ec_ops c) with
  | EncOk bs =>
    (ec_status c =? 0) && lz_eqb bs (ec_bytes c) &&
    match prep_size (ec_ops c) with inr n => n =? ec_prep c | inl _ => false end
  | EncErr e =>
    (ec_status c =? eerr_id e) &&
    match prep_size (ec_ops c) with inr n => n =? ec_prep c | inl _ => ec_prep c =? -1 end
  | EncPanic => ec_status c =? 100
  end.
Definition mismatches_enc := mismatches ok_enc.

(* ------------------------------------------------------------------ decoder cases *)
Inductive dop :=
| GInt8 | GInt16 | GInt32 | GInt64 | GVarint | GUVarint | GArrayLength | GCompactArrayLength | GBool | GEmptyTagged
| GBytes | GVarintBytes | GCompactBytes | GRawBytes (n : Z)
| GString | GNullableString | GCompactString | GCompactNullableString
| GCompactInt32Array | GInt32Array | GInt64Array | GStringArray
| GSubset (n : Z) | GPeek (o l : Z) | GPeekInt8 (o : Z) | GRemaining
| DPush (k : pushkind) | DPop.

Inductive dval :=
| VInt (z : Z) | VBool (b : bool) | VBytes (o : option (list Z)) | VInts (o : option (list Z))
| VStrs (o : option (list (list Z))) | VUnit.

Definition obytes_eqb := option_eqb lz_eqb.
Definition dval_eqb (a b : dval) : bool :=
  match a, b with
  | VInt x, VInt y => x =? y
  | VBool x, VBool y => Bool.eqb x y
  | VBytes x, VBytes y => obytes_eqb x y
  | VInts x, VInts y => obytes_eqb x y
  | VStrs x, VStrs y => option_eqb (list_eqb lz_eqb) x y
  | VUnit, VUnit => true
  | _, _ => false
  end.

Definition rmap {A B} (f : A -> B) (r : res A) : res B := let* (v, d) := r in Ok (f v) d.

Definition run_dop (o : dop) (d : dec) : res dval :=
  match o with
  | GInt8 => rmap VInt (get_int8 d) | GInt16 => rmap VInt (get_int16 d)
  | GInt32 => rmap VInt (get_int32 d) | GInt64 => rmap VInt (get_int64 d)
  | GVarint => rmap VInt (get_varint d) | GUVarint => rmap VInt (get_uvarint d)
  | GArrayLength => rmap VInt (get_array_length d)
  | GCompactArrayLength => rmap VInt (get_compact_array_length d)
  | GBool => rmap VBool (get_bool d)
  | GEmptyTagged => rmap VInt (get_empty_tagged d)
  | GBytes => rmap VBytes (get_bytes d)
  | GVarintBytes => rmap VBytes (get_varint_bytes d)
  | GCompactBytes => rmap VBytes (get_compact_bytes d)
  | GRawBytes n => rmap (fun b => VBytes (Some b)) (get_raw_bytes n d)
  | GString => rmap (fun b => VBytes (Some b)) (get_string d)
  | GNullableString => rmap VBytes (get_nullable_string d)
  | GCompactString => rmap (fun b => VBytes (Some b)) (get_compact_string d)
  | GCompactNullableString => rmap VBytes (get_compact_nullable_string d)
  | GCompactInt32Array => rmap VInts (get_compact_int32_array d)
  | GInt32Array => rmap VInts (get_int32_array d)
  | GInt64Array => rmap VInts (get_int64_array d)
  | GStringArray => rmap VStrs (get_string_array d)
  | GSubset n => rmap (fun s => VBytes (Some (raw s))) (get_subset n d)
  | GPeek o l => rmap (fun b => VBytes (Some b)) (peek o l d)
  | GPeekInt8 o => rmap VInt (peek_int8 o d)
  | GRemaining => Ok (VInt (remaining d)) d
  | DPush k => rmap (fun _ => VUnit) (push_dec k d)
  | DPop => rmap (fun _ => VUnit) (pop_dec d)
  end.

(* status: 0 = all ops ran (final offset), e>0 = error id (offset when it was returned), 100 = panic, 101 = unbounded allocation *)
Fixpoint run_dops (ops : list dop) (d : dec) : list dval * (Z * Z) :=
  match ops with
  | [] => ([], (0, off d))
  | o :: r =>
    match run_dop o d with
    | Ok v d' => let '(vs, st) := run_dops r d' in (v :: vs, st)
    | Err e d' => ([], (err_id e, off d'))
    | Panic _ => ([], (100, 0))
    | Alloc _ => ([], (101, 0))
    end
  end.

Record dcase := {
  dc_buf : list Z; dc_start : Z; dc_ops : list dop;
  dc_vals : list dval;        (* values returned before the script stopped *)
  dc_status : Z; dc_off : Z }. (* as run_dops; dc_off is compared only for status 0 and errors *)

Definition ok_dec (c : dcase) : bool :=
  let '(vs, (st, o)) := run_dops (dc_ops c) (mkDec (dc_buf c) (dc_start c) 0 []) in
  list_eqb dval_eqb vs (dc_vals c) && (st =? dc_status c) && ((100 <=? st) || (o =? dc_off c)).
Definition mismatches_dec := mismatches ok_dec.

(* ------------------------------------------------------------------ CRC cases *)
Record ccase := { cc_data : list Z; cc_ieee : Z; cc_cast : Z }.
Definition ok_crc (c : ccase) : bool :=
  (crc32 IEEE (cc_data c) =? cc_ieee c) && (crc32 Castagnoli (cc_data c) =? cc_cast c) &&
  (crc32_tab IEEE (cc_data c) =? cc_ieee c) && (crc32_tab Castagnoli (cc_data c) =? cc_cast c).
Definition mismatches_crc := mismatches ok_crc.

(* ------------------------------------------------------------------ the decode script mirroring an encode script *)
Definition dop_of_prim (p : eprim) : dop :=
  match p with
  | PInt8 _ => GInt8 | PInt16 _ => GInt16 | PInt32 _ => GInt32 | PInt64 _ => GInt64
  | PVarint _ => GVarint | PUVarint _ => GUVarint | PArrayLength _ => GArrayLength
  | PCompactArrayLength _ => GCompactArrayLength | PBool _ => GBool
  | PBytes _ => GBytes | PVarintBytes _ => GVarintBytes | PCompactBytes _ => GCompactBytes
  | PRawBytes o => GRawBytes (len (olist o))
  | PString _ => GString | PNullableString _ => GNullableString
  | PCompactString _ => GCompactString | PNullableCompactString _ => GCompactNullableString
  | PStringArray _ => GStringArray
  | PCompactInt32Array _ => GCompactInt32Array | PNullableCompactInt32Array _ => GCompactInt32Array
  | PInt32Array _ => GInt32Array | PInt64Array _ => GInt64Array
  | PEmptyTagged => GEmptyTagged
  end.
Fixpoint dops_of (ops : eops) : list dop :=
  match ops with
  | ENil => []
  | ECons p r => dop_of_prim p :: dops_of r
  | EFrame k body r => DPush k :: dops_of body ++ DPop :: dops_of r
  end.
