(* Wire/Records.v — hand model of the "irregular" codecs of the records layer:
     record.go (Record, RecordHeader), record_batch.go (RecordBatch, recordsArray), message.go (Message),
     message_set.go (MessageBlock, MessageSet), records.go (Records: magic-byte peek), timestamp.go (Timestamp),
     control_record.go (ControlRecord), response_header.go, request.go (header part).
   Encoders produce [eops] scripts (Wire/PushPop.v) that are interpreted by the two encoder passes; decoders are
   written against the getters of Wire/Prim.v in the order of the Go code, with its early returns.
   Compression (compress.go / decompress.go: gzip, snappy, lz4, zstd) is a pair of Section variables; codec 0
   (none) is the identity as in the Go code.  Model only (no proofs).
   The tree modelled is the one with /verif/fixes/c10_primitive_getters.patch (Record.decode checks the header
   count) and /verif/fixes/c09_record_batch_count.patch (RecordBatch.decode checks the record count against the
   decompressed payload instead of the bytes that follow it on the wire). *)
From Coq Require Import List ZArith Bool.
From SV Require Import Wire.Bytes Wire.Varint Wire.Crc Wire.Prim Wire.PushPop.
Import ListNotations.
Open Scope Z_scope.

(* ------------------------------------------------------------------ values *)
(* time.Time as nanoseconds since the Unix epoch; the zero Time (year 1) is ZERO_TIME *)
Definition ZERO_TIME := -62135596800000000000.
Definition MS := 1000000.

Record header := mkHeader { h_key : option (list Z); h_value : option (list Z) }.
Record record := mkRecord {
  r_attrs : Z;                         (* int8 *)
  r_tsdelta : Z;                       (* time.Duration (ns) *)
  r_offdelta : Z;                      (* int64 *)
  r_key : option (list Z); r_value : option (list Z);
  r_headers : option (list header) }.  (* nil vs empty slice *)

Record batch := mkBatch {
  b_first_offset : Z; b_leader_epoch : Z; b_version : Z; b_codec : Z;
  b_control : bool; b_logappend : bool; b_last_offset_delta : Z;
  b_first_ts : Z; b_max_ts : Z;
  b_producer_id : Z; b_producer_epoch : Z; b_first_seq : Z;
  b_records : option (list record);
  b_partial : bool; b_transactional : bool }.

(* legacy messages; a compressed wrapper message carries the decoded nested set *)
Inductive message :=
| mkMsg (codec : Z) (logappend : bool) (key value : option (list Z)) (set : option mset) (version : Z) (ts : Z)
with mset := mkSet (partial overflow : bool) (msgs : mblocks)
with mblocks := MNil | MCons (offset : Z) (msg : message) (rest : mblocks).

Inductive records := RLegacy (s : mset) | RDefault (b : batch).

Fixpoint mapp (a b : mblocks) : mblocks :=
  match a with MNil => b | MCons o m r => MCons o m (mapp r b) end.

(* ------------------------------------------------------------------ timestamp.go *)
(* encode: !t.Before(time.Unix(0,0)) -> t.UnixNano() / 1e6 (UnixNano wraps to int64); zero Time -> -1; else error *)
Definition ts_prim (t : Z) : eerr + eprim :=
  if 0 <=? t then inr (PInt64 (Z.quot (i64 t) MS))
  else if t =? ZERO_TIME then inr (PInt64 (-1))
  else inl EEInvalidTimestamp.
(* decode: millis >= 0 -> time.Unix(millis/1000, (millis%1000)*1e6); negative -> zero Time *)
Definition ts_decode (d : dec) : res Z :=
  let* (millis, d) := get_int64 d in
  Ok (if 0 <=? millis then millis * MS else ZERO_TIME) d.

(* ------------------------------------------------------------------ record.go *)
Fixpoint headers_prims (hs : list header) : list eprim :=
  match hs with
  | [] => []
  | h :: r => PVarintBytes (h_key h) :: PVarintBytes (h_value h) :: headers_prims r
  end.
(* the varint length field lives in the Record (r.length); a fresh Record holds 0, and whatever it holds the
   prep pass recomputes it (PushPop.prep_pop) *)
Definition record_body (r : record) : list eprim :=
  [PInt8 (r_attrs r); PVarint (Z.quot (r_tsdelta r) MS); PVarint (r_offdelta r);
   PVarintBytes (r_key r); PVarintBytes (r_value r); PVarint (len (olist (r_headers r)))]
  ++ headers_prims (olist (r_headers r)).
Definition record_ops (r : record) (rest : eops) : eops :=
  EFrame (KVarLen 0) (eseq (record_body r) ENil) rest.
Fixpoint records_ops (rs : list record) : eops :=
  match rs with [] => ENil | r :: t => record_ops r (records_ops t) end.

Definition header_decode (d : dec) : res header :=
  let* (k, d) := get_varint_bytes d in
  let* (v, d) := get_varint_bytes d in
  Ok (mkHeader k v) d.
Fixpoint headers_decode (n : nat) (d : dec) : res (list header) :=
  match n with
  | O => Ok [] d
  | S k => let* (h, d) := header_decode d in let* (r, d) := headers_decode k d in Ok (h :: r) d
  end.
Definition PTR := 8.   (* make([]*T, n) allocates 8 n bytes *)
Definition record_decode (d : dec) : res record :=
  let* (_, d) := push_dec (KVarLen 0) d in
  let* (attrs, d) := get_int8 d in
  let* (ts, d) := get_varint d in
  let* (od, d) := get_varint d in
  let* (k, d) := get_varint_bytes d in
  let* (v, d) := get_varint_bytes d in
  let* (nh, d) := get_varint d in
  if nh <? 0 then
    let* (_, d) := pop_dec d in Ok (mkRecord attrs (i64 (ts * MS)) od k v None) d
  else if remaining d <? nh then Err EInsufficient d        (* the fix: count checked before make *)
  else
    let* (hs, d) := headers_decode (Z.to_nat nh) (alloc d (PTR * nh)) in
    let* (_, d) := pop_dec d in
    Ok (mkRecord attrs (i64 (ts * MS)) od k v (Some hs)) d.

(* recordsArray.decode: for i := range e { rec.decode } *)
Fixpoint records_decode (n : nat) (d : dec) : res (list record) :=
  match n with
  | O => Ok [] d
  | S k => let* (r, d) := record_decode d in let* (t, d) := records_decode k d in Ok (r :: t) d
  end.

(* encoder_decoder.go decode(buf, in) on a fresh realDecoder; the sub-decoder's allocations are charged to the caller *)
Definition set_mem (d : dec) (m : Z) : dec := mkDec (raw d) (off d) m (stack d).
Definition sub_decode {A} (f : dec -> res A) (buf : list Z) (d : dec) : res A :=
  match f (mkDec buf 0 (mem d) []) with
  | Ok v dn => if off dn =? len buf then Ok v (set_mem d (mem dn)) else Err EInvalidLength (set_mem d (mem dn))
  | Err e dn => Err e (set_mem d (mem dn))
  | Panic w => Panic w
  | Alloc n => Alloc n
  end.

Section Compression.
(* compress.go / decompress.go for the codecs 1..7 (gzip, snappy, lz4, zstd; 5..7 are errors); None = error *)
Variable compress : Z -> list Z -> option (list Z).
Variable decompress : Z -> list Z -> option (list Z).

Definition compress_m (codec : Z) (data : list Z) : option (list Z) :=
  if codec =? 0 then Some data else compress codec data.
Definition decompress_m (codec : Z) (data : list Z) : option (list Z) :=
  if codec =? 0 then Some data else decompress codec data.

(* ------------------------------------------------------------------ record_batch.go *)
Definition RECORD_BATCH_OVERHEAD := 49.
(* int16(b.Codec) & 7 | control 0x20 | logAppend 0x08 | transactional 0x10 *)
Definition batch_attrs (b : batch) : Z :=
  b_codec b mod 8 + (if b_control b then 32 else 0) + (if b_logappend b then 8 else 0) + (if b_transactional b then 16 else 0).

Definition batch_ops (b : batch) : eerr + eops :=
  if negb (b_version b =? 2) then inl EEBatchVersion
  else match ts_prim (b_first_ts b), ts_prim (b_max_ts b) with
  | inl e, _ => inl e
  | _, inl e => inl e
  | inr t1, inr t2 =>
    match encode (records_ops (olist (b_records b))) with         (* encodeRecords: a nested two-pass encode *)
    | EncErr e => inl e
    | EncPanic => inl EEOther
    | EncOk raw =>
      match compress_m (b_codec b) raw with
      | None => inl EECompress
      | Some comp =>
        inr (ECons (PInt64 (b_first_offset b))
            (EFrame KLen
               (ECons (PInt32 (b_leader_epoch b)) (ECons (PInt8 (b_version b))
                 (EFrame (KCrc Castagnoli)
                    (eseq [PInt16 (batch_attrs b); PInt32 (b_last_offset_delta b); t1; t2;
                           PInt64 (b_producer_id b); PInt16 (b_producer_epoch b); PInt32 (b_first_seq b);
                           PArrayLength (len (olist (b_records b))); PRawBytes (Some comp)] ENil)
                    ENil)))
               ENil))
      end
    end
  end.

Definition testbit_mask (x mask : Z) : bool := negb (Z.land x mask =? 0).

Definition batch_decode (d : dec) : res batch :=
  let* (first_offset, d) := get_int64 d in
  let* (batch_len, d) := get_int32 d in
  let* (epoch, d) := get_int32 d in
  let* (version, d) := get_int8 d in
  let* (_, d) := push_dec (KCrc Castagnoli) d in
  let* (attrs, d) := get_int16 d in
  let codec := Z.land (i8 attrs) 7 in
  let control := testbit_mask attrs 32 in
  let logappend := testbit_mask attrs 8 in
  let transactional := testbit_mask attrs 16 in
  let* (lod, d) := get_int32 d in
  let* (t1, d) := ts_decode d in
  let* (t2, d) := ts_decode d in
  let* (pid, d) := get_int64 d in
  let* (pepoch, d) := get_int16 d in
  let* (fseq, d) := get_int32 d in
  let* (num_recs, d) := get_int32 d in                       (* counted inside the payload: checked after decompression *)
  let mk recs partial := mkBatch first_offset epoch version codec control logappend lod t1 t2 pid pepoch fseq recs partial transactional in
  match get_raw_bytes (batch_len - RECORD_BATCH_OVERHEAD) d with
  | Err EInsufficient d => Ok (mk None true) d             (* partial trailing batch: tolerated; the CRC field stays pushed *)
  | Err e d => Err e d
  | Panic w => Panic w
  | Alloc n => Alloc n
  | Ok rec_buffer d =>
    let* (_, d) := pop_dec d in
    match decompress_m codec rec_buffer with
    | None => Err EDecompress d
    | Some raw_recs =>
      if (num_recs <? -1) || (len raw_recs <? num_recs) then Err EInvalidArrayLength d
      else
        let d := if 0 <=? num_recs then alloc d (PTR * num_recs) else d in
        let n := if 0 <=? num_recs then Z.to_nat num_recs else O in
        match sub_decode (records_decode n) raw_recs d with
        | Ok recs d => Ok (mk (if 0 <=? num_recs then Some recs else None) false) d
        | Err EInsufficient d => Ok (mk None true) d
        | Err e d => Err e d
        | Panic w => Panic w
        | Alloc m => Alloc m
        end
    end
  end.

(* ------------------------------------------------------------------ message.go / message_set.go *)
Definition msg_attrs (codec : Z) (logappend : bool) : Z := Z.land (i8 codec) 7 + (if logappend then 8 else 0).

(* Message.encode never looks at m.Set: a wrapper message carries the encoded inner set in Value *)
Definition message_ops (m : message) : eerr + eops :=
  let '(mkMsg codec logappend key value _ version ts) := m in
  let tsp := if 1 <=? version then match ts_prim ts with inl e => inl e | inr p => inr [p] end else inr [] in
  match tsp with
  | inl e => inl e
  | inr tsl =>
    let payload := match value with None => Some None
                                  | Some v => match compress_m codec v with None => None | Some c => Some (Some c) end end in
    match payload with
    | None => inl EECompress
    | Some pl =>
      inr (EFrame (KCrc IEEE)
             (eseq ([PInt8 version; PInt8 (msg_attrs codec logappend)] ++ tsl ++ [PBytes key; PBytes pl]) ENil) ENil)
    end
  end.

Fixpoint mblocks_ops (bs : mblocks) : eerr + eops :=
  match bs with
  | MNil => inr ENil
  | MCons o m r =>
    match message_ops m, mblocks_ops r with
    | inl e, _ => inl e
    | _, inl e => inl e
    | inr mo, inr ro => inr (ECons (PInt64 o) (EFrame KLen mo ro))
    end
  end.
Definition mset_ops (s : mset) : eerr + eops := let '(mkSet _ _ bs) := s in mblocks_ops bs.

(* Message.decode, given the decoder of a nested set (message -> decodeSet -> MessageSet.decode recursion) *)
Definition message_decode_with (nested : list Z -> dec -> res mset) (d : dec) : res message :=
  let* (_, d) := push_dec (KCrc IEEE) d in
  let* (version, d) := get_int8 d in
  if 1 <? version then Err EUnknownMagic d
  else
    let* (attr, d) := get_int8 d in
    let codec := Z.land attr 7 in
    let logappend := testbit_mask attr 8 in
    let* (ts, d) := (if version =? 1 then ts_decode d else Ok ZERO_TIME d) in
    let* (key, d) := get_bytes d in
    let* (value, d) := get_bytes d in
    match value with
    | Some v =>
      if codec =? 0 then let* (_, d) := pop_dec d in Ok (mkMsg codec logappend key value None version ts) d
      else match decompress_m codec v with
           | None => Err EDecompress d
           | Some dv =>
             let* (s, d) := nested dv d in
             let* (_, d) := pop_dec d in Ok (mkMsg codec logappend key (Some dv) (Some s) version ts) d
           end
    | None => let* (_, d) := pop_dec d in Ok (mkMsg codec logappend key None None version ts) d
    end.

Definition MAGIC_OFFSET := 16.

(* MessageBlock.decode *)
Definition block_decode_with (msgdec : dec -> res message) (d : dec) : res (Z * message) * Z :=
  (* second component: msb.Offset as far as it was decoded (0 when getInt64 failed) *)
  match get_int64 d with
  | Ok o d =>
    (let* (_, d) := push_dec KLen d in
     let* (m, d) := msgdec d in
     let* (_, d) := pop_dec d in Ok (o, m) d, o)
  | Err e d => (Err e d, 0)
  | Panic w => (Panic w, 0)
  | Alloc n => (Alloc n, 0)
  end.

(* MessageSet.decode: for pd.remaining() > 0 { ... }.  fuel: every iteration that continues consumed >= 1 byte *)
Fixpoint mset_loop (msgdec : dec -> res message) (fuel : nat) (d : dec) (acc : mblocks) : res mset :=
  match fuel with
  | O => Ok (mkSet false false acc) d
  | S k =>
    if remaining d <=? 0 then Ok (mkSet false false acc) d
    else match peek_int8 MAGIC_OFFSET d with
         | Err EInsufficient d => Ok (mkSet true false acc) d
         | Err e d => Err e d
         | Panic w => Panic w
         | Alloc n => Alloc n
         | Ok magic d =>
           if 1 <? magic then Ok (mkSet false false acc) d
           else match block_decode_with msgdec d with
                | (Ok (o, m) d, _) => mset_loop msgdec k d (mapp acc (MCons o m MNil))
                | (Err EInsufficient d, o) =>
                  if o =? -1 then Ok (mkSet false true acc) d else Ok (mkSet true false acc) d
                | (Err e d, _) => Err e d
                | (Panic w, _) => Panic w
                | (Alloc n, _) => Alloc n
                end
         end
  end.

(* depth: nesting fuel for compressed wrapper messages (the Go recursion has no depth limit) *)
Fixpoint mset_decode (depth : nat) (d : dec) : res mset :=
  match depth with
  | O => Err EDepth d
  | S k =>
    mset_loop (message_decode_with (fun buf d0 =>
                 match mset_decode k (mkDec buf 0 (mem d0) []) with
                 | Ok s dn => Ok s (set_mem d0 (mem dn))
                 | Err e dn => Err e (set_mem d0 (mem dn))
                 | Panic w => Panic w
                 | Alloc n => Alloc n
                 end))
              (S (Z.to_nat (remaining d))) d MNil
  end.

(* ------------------------------------------------------------------ records.go *)
Definition records_ops_top (r : records) : eerr + eops :=
  match r with RLegacy s => mset_ops s | RDefault b => batch_ops b end.
Definition records_decode_top (depth : nat) (d : dec) : res records :=
  let* (magic, d) := peek_int8 MAGIC_OFFSET d in
  if magic <? 2 then let* (s, d) := mset_decode depth d in Ok (RLegacy s) d
  else let* (b, d) := batch_decode d in Ok (RDefault b) d.

(* ------------------------------------------------------------------ fetch_response.go: FetchResponseBlock *)
Record fblock := mkFBlock {
  fb_err : Z; fb_hwm : Z; fb_lso : Z; fb_log_start : Z;
  fb_aborted : option (list (Z * Z));      (* AbortedTransactions (producer id, first offset); nil vs empty *)
  fb_replica : Z;
  fb_records : option records;              (* deprecated Records: an alias of the first element of RecordsSet *)
  fb_set : list records;                    (* RecordsSet *)
  fb_partial : bool }.

Fixpoint aborted_prims (l : list (Z * Z)) : list eprim :=
  match l with [] => [] | (p, o) :: r => PInt64 p :: PInt64 o :: aborted_prims r end.
Fixpoint set_ops (l : list records) : eerr + eops :=
  match l with
  | [] => inr ENil
  | r :: t => match records_ops_top r, set_ops t with
              | inl e, _ => inl e
              | _, inl e => inl e
              | inr a, inr b => inr (eapp a b)
              end
  end.
(* encode: the deprecated Records field is not written, only RecordsSet *)
Definition fblock_header (version : Z) (b : fblock) : list eprim :=
  [PInt16 (fb_err b); PInt64 (fb_hwm b)]
  ++ (if 4 <=? version then
        [PInt64 (fb_lso b)] ++ (if 5 <=? version then [PInt64 (fb_log_start b)] else [])
        ++ [PArrayLength (len (olist (fb_aborted b)))] ++ aborted_prims (olist (fb_aborted b))
      else [])
  ++ (if 11 <=? version then [PInt32 (fb_replica b)] else []).
Definition fblock_ops (version : Z) (b : fblock) : eerr + eops :=
  match set_ops (fb_set b) with
  | inl e => inl e
  | inr so => inr (eseq (fblock_header version b) (EFrame KLen so ENil))
  end.

Fixpoint mblocks_count (m : mblocks) : Z := match m with MNil => 0 | MCons _ _ t => 1 + mblocks_count t end.
Definition records_count (r : records) : Z :=
  match r with
  | RLegacy (mkSet _ _ ms) => mblocks_count ms
  | RDefault b => len (olist (b_records b))
  end.
Definition records_partial (r : records) : bool :=
  match r with RLegacy (mkSet p _ _) => p | RDefault b => b_partial b end.
Definition records_overflow (r : records) : bool :=
  match r with RLegacy (mkSet _ o _) => o | RDefault _ => false end.

Fixpoint aborted_decode (n : nat) (d : dec) : res (list (Z * Z)) :=
  match n with
  | O => Ok [] d
  | S k => let* (p, d) := get_int64 d in let* (o, d) := get_int64 d in
           let* (r, d) := aborted_decode k d in Ok ((p, o) :: r) d
  end.

(* the loop over the records section: for recordsDecoder.remaining() > 0 { ... }; state: alias, set (reversed), partial *)
Fixpoint fset_loop (depth fuel : nat) (d : dec) (alias : option records) (acc : list records)
  : res (option records * list records * bool) :=
  match fuel with
  | O => Ok (alias, acc, false) d
  | S k =>
    if remaining d <=? 0 then Ok (alias, acc, false) d
    else match records_decode_top depth d with
         | Err EInsufficient d => Ok (alias, acc, match acc with [] => true | _ => false end) d
         | Err e d => Err e d
         | Panic w => Panic w
         | Alloc n => Alloc n
         | Ok r d =>
           let partial := records_partial r in
           let keep := (0 <? records_count r) || (partial && match acc with [] => true | _ => false end) in
           let acc' := if keep then acc ++ [r] else acc in
           let alias' := if keep then match alias with None => Some r | a => a end else alias in
           if partial || records_overflow r then Ok (alias', acc', false) d
           else fset_loop depth k d alias' acc'
         end
  end.

Definition fblock_decode (depth : nat) (version : Z) (d : dec) : res fblock :=
  let* (err, d) := get_int16 d in
  let* (hwm, d) := get_int64 d in
  let* (lsa, d) :=
    (if 4 <=? version then
       let* (lso, d) := get_int64 d in
       let* (ls, d) := (if 5 <=? version then get_int64 d else Ok 0 d) in
       let* (nt, d) := get_array_length d in
       let d := if 0 <=? nt then alloc d (PTR * nt) else d in
       let* (ab, d) := aborted_decode (if 0 <=? nt then Z.to_nat nt else O) d in
       Ok (lso, ls, if 0 <=? nt then Some ab else None) d
     else Ok (0, 0, None) d) in
  let '(lso, ls, ab) := lsa in
  let* (replica, d) := (if 11 <=? version then get_int32 d else Ok (-1) d) in
  let* (size, d) := get_int32 d in
  let* (sub, d) := get_subset size d in
  match fset_loop depth (S (Z.to_nat (remaining sub))) (mkDec (raw sub) 0 (mem d) []) None [] with
  | Ok (alias, set, partial) ds => Ok (mkFBlock err hwm lso ls ab replica alias set partial) (set_mem d (mem ds))
  | Err e ds => Err e (set_mem d (mem ds))
  | Panic w => Panic w
  | Alloc n => Alloc n
  end.

End Compression.

(* ------------------------------------------------------------------ control_record.go *)
Inductive crtype := CRAbort | CRCommit | CRUnknown.
Record control_record := mkCR { cr_version : Z; cr_epoch : Z; cr_type : crtype }.
Definition control_key_ops (c : control_record) : eops :=
  eseq ([PInt16 (cr_version c)] ++ match cr_type c with CRAbort => [PInt16 0] | CRCommit => [PInt16 1] | CRUnknown => [] end) ENil.
Definition control_value_ops (c : control_record) : eops :=
  eseq [PInt16 (cr_version c); PInt32 (cr_epoch c)] ENil.
(* decode(key, value packetDecoder): two decoders *)
Definition control_decode (key value : dec) : res control_record * dec :=
  (* returns the result with the key decoder's state, and the value decoder's final state *)
  match get_int16 key with
  | Ok kv key =>
    match get_int16 key with
    | Ok ty key =>
      let t := if ty =? 0 then CRAbort else if ty =? 1 then CRCommit else CRUnknown in
      match t with
      | CRUnknown => (Ok (mkCR kv 0 CRUnknown) key, value)
      | _ => match get_int16 value with
             | Ok vv value =>
               match get_int32 value with
               | Ok ep value => (Ok (mkCR vv ep t) key, value)
               | Err e value => (Err e key, value)
               | Panic w => (Panic w, value) | Alloc n => (Alloc n, value)
               end
             | Err e value => (Err e key, value)
             | Panic w => (Panic w, value) | Alloc n => (Alloc n, value)
             end
      end
    | Err e key => (Err e key, value) | Panic w => (Panic w, value) | Alloc n => (Alloc n, value)
    end
  | Err e key => (Err e key, value) | Panic w => (Panic w, value) | Alloc n => (Alloc n, value)
  end.

(* ------------------------------------------------------------------ response_header.go *)
Definition MAX_RESPONSE_SIZE := 104857600.
(* note the Go code: the error of the correlation-id read is only returned at the end *)
Definition response_header_decode (version : Z) (d : dec) : res (Z * Z) :=
  let* (length, d) := get_int32 d in
  if (length <=? 4) || (MAX_RESPONSE_SIZE <? length) then Err EOther d
  else match get_int32 d with
       | Ok corr d =>
         if 1 <=? version then let* (_, d) := get_empty_tagged d in Ok (length, corr) d else Ok (length, corr) d
       | Err e d =>
         if 1 <=? version then let* (_, d) := get_empty_tagged d in Err e d else Err e d
       | Panic w => Panic w
       | Alloc n => Alloc n
       end.
(* broker.go responseReceiver: read getHeaderLength(version) bytes, versionedDecode them as a responseHeader (the whole
   header buffer must be consumed), compare the correlation id, then buf := make([]byte, length - headerLength + 4)
   (int32 arithmetic; a negative size is a run-time panic in the receiver goroutine).  [d] is a decoder over the
   header bytes; the result is the body size. *)
Definition header_length (version : Z) : Z := if version <? 1 then 8 else 9.
Definition response_receive (version expect_corr : Z) (d : dec) : res Z :=
  let* (p, d) := response_header_decode version d in
  if negb (off d =? len (raw d)) then Err EInvalidLength d
  else if negb (snd p =? expect_corr) then Err EOther d
  else
    let size := i32 (i32 (fst p - header_length version) + 4) in
    if size <? 0 then Panic P_MAKE else Ok size (alloc d size).

(* what a broker writes: length (of everything after it), correlation id, empty tagged fields from header v1 *)
Definition response_header_ops (version length corr : Z) : eops :=
  eseq ([PInt32 length; PInt32 corr] ++ (if 1 <=? version then [PEmptyTagged] else [])) ENil.

(* ------------------------------------------------------------------ request.go (header part) *)
(* encode: length frame around key, version, correlation id, client id (header v1+), empty tagged fields (v2+), body *)
Definition request_ops (hv key version corr : Z) (client_id : list Z) (body : eops) : eops :=
  EFrame KLen
    (eseq ([PInt16 key; PInt16 version; PInt32 corr]
           ++ (if 1 <=? hv then [PString client_id] else [])
           ++ (if 2 <=? hv then [PUVarint 0] else [])) body)
    ENil.
(* decode (after decodeRequest has consumed the 4 length bytes): the client id is read whatever the header version *)
Definition request_header_decode (hv_of : Z -> Z -> option Z) (d : dec) : res (Z * Z * Z * list Z) :=
  let* (key, d) := get_int16 d in
  let* (version, d) := get_int16 d in
  let* (corr, d) := get_int32 d in
  let* (cid, d) := get_string d in
  match hv_of key version with
  | None => Err EOther d                                   (* allocateBody returned nil: unknown request key *)
  | Some hv =>
    if 2 <=? hv then let* (_, d) := get_uvarint d in Ok (key, version, corr, cid) d
    else Ok (key, version, corr, cid) d
  end.
