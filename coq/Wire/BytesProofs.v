(* Wire/BytesProofs.v — lemmas about Wire/Bytes.v: lengths, big-endian words, fixed-width conversions, slices. *)
From Coq Require Import List ZArith Bool Lia.
From SV Require Import Wire.Bytes.
Import ListNotations.
Open Scope Z_scope.

Ltac Zify.zify_post_hook ::= Z.div_mod_to_equations.

(* ---------------------------------------------------------------- len *)
Lemma len_nil {A} : len (@nil A) = 0. Proof. reflexivity. Qed.
Lemma len_cons {A} (x : A) l : len (x :: l) = 1 + len l.
Proof. unfold len. cbn [length]. lia. Qed.
Lemma len_app {A} (a b : list A) : len (a ++ b) = len a + len b.
Proof. unfold len. rewrite app_length. lia. Qed.
Lemma len_nonneg {A} (l : list A) : 0 <= len l.
Proof. unfold len. lia. Qed.
Lemma len_zero_nil {A} (l : list A) : len l = 0 -> l = [].
Proof. destruct l; [reflexivity | rewrite len_cons; pose proof (len_nonneg l); lia]. Qed.
Lemma to_nat_len {A} (l : list A) : Z.to_nat (len l) = length l.
Proof. unfold len. lia. Qed.
Lemma len_zeros n : len (zeros n) = Z.of_nat n.
Proof. unfold len. induction n; cbn [zeros length]; lia. Qed.
Lemma len_repeat {A} (x : A) n : len (repeat x n) = Z.of_nat n.
Proof. unfold len. now rewrite repeat_length. Qed.

Global Hint Rewrite @len_nil @len_cons @len_app : len.

(* ---------------------------------------------------------------- byte well-formedness *)
Lemma byte_ok_iff b : byte_ok b = true <-> 0 <= b < 256.
Proof. unfold byte_ok. rewrite andb_true_iff, Z.leb_le, Z.ltb_lt. tauto. Qed.
Lemma wf_app a b : wf_bytes (a ++ b) = wf_bytes a && wf_bytes b.
Proof. apply forallb_app. Qed.
Lemma wf_cons x l : wf_bytes (x :: l) = byte_ok x && wf_bytes l.
Proof. reflexivity. Qed.
Lemma wf_firstn n l : wf_bytes l = true -> wf_bytes (firstn n l) = true.
Proof.
  revert l; induction n; intros [|x l] H; cbn; try reflexivity.
  rewrite wf_cons in H. apply andb_true_iff in H as [H1 H2]. now rewrite H1, IHn.
Qed.
Lemma wf_skipn n l : wf_bytes l = true -> wf_bytes (skipn n l) = true.
Proof.
  revert l; induction n; intros [|x l] H; cbn; try assumption.
  rewrite wf_cons in H. apply andb_true_iff in H as [H1 H2]. now apply IHn.
Qed.

(* every fact about a single byte can be checked by enumeration *)
Lemma byte_cases (P : Z -> bool) :
  forallb P (map Z.of_nat (seq 0 256)) = true -> forall b, 0 <= b < 256 -> P b = true.
Proof.
  intros H b Hb. rewrite forallb_forall in H. apply H.
  replace b with (Z.of_nat (Z.to_nat b)) by lia. apply in_map, in_seq. lia.
Qed.

(* ---------------------------------------------------------------- big-endian words *)
Lemma be_length n v : length (be n v) = n.
Proof. revert v; induction n; intros; cbn [be]; [reflexivity|]. rewrite app_length, IHn. cbn. lia. Qed.
Lemma len_be n v : len (be n v) = Z.of_nat n.
Proof. unfold len. now rewrite be_length. Qed.
Lemma be_wf n v : wf_bytes (be n v) = true.
Proof.
  revert v; induction n; intros; cbn [be]; [reflexivity|].
  rewrite wf_app, IHn. cbn. rewrite andb_true_r. apply byte_ok_iff. lia.
Qed.

Lemma ube_snoc l b : ube (l ++ [b]) = ube l * 256 + b.
Proof. unfold ube. now rewrite fold_left_app. Qed.
Lemma ube_be n v : ube (be n v) = v mod 256 ^ Z.of_nat n.
Proof.
  revert v; induction n; intros v.
  - cbn. now rewrite Z.mod_1_r.
  - cbn [be]. rewrite ube_snoc, IHn. rewrite Nat2Z.inj_succ, Z.pow_succ_r by lia.
    pose proof (Z.pow_pos_nonneg 256 (Z.of_nat n) ltac:(lia) ltac:(lia)) as Hp.
    rewrite (Z.rem_mul_r v 256 (256 ^ Z.of_nat n)) by lia. ring.
Qed.
Lemma ube_bounds l : wf_bytes l = true -> 0 <= ube l < 256 ^ len l.
Proof.
  induction l as [|b l IH] using rev_ind; intros H.
  - cbn. lia.
  - rewrite wf_app in H. apply andb_true_iff in H as [H1 H2]. rewrite wf_cons in H2.
    apply andb_true_iff in H2 as [H2 _]. apply byte_ok_iff in H2. specialize (IH H1). rewrite ube_snoc, len_app, len_cons.
    change (len (@nil Z)) with 0.
    rewrite Z.pow_add_r by (pose proof (len_nonneg l); lia). change (256 ^ (1 + 0)) with 256. lia.
Qed.

Lemma pow256_1 : 256 ^ Z.of_nat 1 = 256. Proof. reflexivity. Qed.
Lemma pow256_2 : 256 ^ Z.of_nat 2 = 65536. Proof. reflexivity. Qed.
Lemma pow256_4 : 256 ^ Z.of_nat 4 = 4294967296. Proof. reflexivity. Qed.
Lemma pow256_8 : 256 ^ Z.of_nat 8 = 18446744073709551616. Proof. reflexivity. Qed.

(* Go: intN(uintN(v)) = v for v in range *)
Lemma i8_be v : in_i8 v -> i8 (ube (be 1 v)) = v.
Proof. intros H. rewrite ube_be, pow256_1. unfold i8, in_i8, two8 in *. lia. Qed.
Lemma i16_be v : in_i16 v -> i16 (ube (be 2 v)) = v.
Proof. intros H. rewrite ube_be, pow256_2. unfold i16, in_i16, two16 in *. lia. Qed.
Lemma i32_be v : in_i32 v -> i32 (ube (be 4 v)) = v.
Proof. intros H. rewrite ube_be, pow256_4. unfold i32, in_i32, two32 in *. lia. Qed.
Lemma i64_be v : in_i64 v -> i64 (ube (be 8 v)) = v.
Proof. intros H. rewrite ube_be, pow256_8. unfold i64, in_i64, two64, two63 in *. lia. Qed.
Lemma u32_be v : 0 <= v < two32 -> ube (be 4 v) = v.
Proof. intros H. rewrite ube_be, pow256_4. unfold two32 in *. lia. Qed.

Lemma i8_range x : in_i8 (i8 x). Proof. unfold in_i8, i8, two8. lia. Qed.
Lemma i16_range x : in_i16 (i16 x). Proof. unfold in_i16, i16, two16. lia. Qed.
Lemma i32_range x : in_i32 (i32 x). Proof. unfold in_i32, i32, two32. lia. Qed.
Lemma i64_range x : in_i64 (i64 x). Proof. unfold in_i64, i64, two64, two63. lia. Qed.
Lemma i64_id x : in_i64 x -> i64 x = x. Proof. unfold in_i64, i64, two64, two63. lia. Qed.
Lemma i32_id x : in_i32 x -> i32 x = x. Proof. unfold in_i32, i32, two32. lia. Qed.
Lemma u64_id x : in_u64 x -> u64 x = x. Proof. unfold in_u64, u64, two64. intros. now apply Z.mod_small. Qed.

(* ---------------------------------------------------------------- slices *)
Lemma slice_some l a b r : slice l a b = Some r -> 0 <= a /\ a <= b /\ b <= len l /\ len r = b - a.
Proof.
  unfold slice. destruct ((0 <=? a) && (a <=? b) && (b <=? len l)) eqn:E; [|discriminate].
  apply andb_true_iff in E as [E E3]. apply andb_true_iff in E as [E1 E2].
  apply Z.leb_le in E1, E2, E3. intros [= <-]. repeat split; try assumption.
  unfold len in *. rewrite firstn_length, skipn_length. lia.
Qed.
Lemma slice_none l a b : slice l a b = None -> ~ (0 <= a /\ a <= b /\ b <= len l).
Proof.
  unfold slice. destruct ((0 <=? a) && (a <=? b) && (b <=? len l)) eqn:E; [discriminate|].
  intros _ (H1 & H2 & H3). apply Z.leb_le in H1, H2, H3. now rewrite H1, H2, H3 in E.
Qed.
Lemma slice_ok l a b : 0 <= a -> a <= b -> b <= len l -> exists r, slice l a b = Some r.
Proof.
  intros. destruct (slice l a b) eqn:E; [eauto|]. apply slice_none in E. tauto.
Qed.
Lemma slice_mid pre mid suf : slice (pre ++ mid ++ suf) (len pre) (len pre + len mid) = Some mid.
Proof.
  unfold slice. pose proof (len_nonneg pre). pose proof (len_nonneg mid). pose proof (len_nonneg suf).
  rewrite !len_app.
  replace ((0 <=? len pre) && (len pre <=? len pre + len mid) && (len pre + len mid <=? len pre + (len mid + len suf))) with true
    by (symmetry; rewrite !andb_true_iff, !Z.leb_le; lia).
  f_equal. rewrite to_nat_len.
  rewrite skipn_app, skipn_all, Nat.sub_diag. cbn [skipn app].
  replace (len pre + len mid - len pre) with (len mid) by lia. rewrite to_nat_len.
  rewrite firstn_app, firstn_all, Nat.sub_diag. cbn. now rewrite app_nil_r.
Qed.
Lemma slice_tail pre rest : slice (pre ++ rest) (len pre) (len (pre ++ rest)) = Some rest.
Proof.
  pose proof (slice_mid pre rest []) as H. rewrite app_nil_r in H. now rewrite len_app.
Qed.
Lemma slice_wf l a b r : wf_bytes l = true -> slice l a b = Some r -> wf_bytes r = true.
Proof.
  unfold slice. destruct (_ && _); [|discriminate]. intros H [= <-]. now apply wf_firstn, wf_skipn.
Qed.
(* a slice is the middle of a three-way split *)
Lemma slice_split l a b r : slice l a b = Some r ->
  exists pre suf, l = pre ++ r ++ suf /\ len pre = a.
Proof.
  intros H. pose proof (slice_some _ _ _ _ H) as (H1 & H2 & H3 & H4).
  unfold slice in H. destruct (_ && _); [|discriminate]. injection H as <-.
  exists (firstn (Z.to_nat a) l), (skipn (Z.to_nat (b - a)) (skipn (Z.to_nat a) l)). split.
  - now rewrite firstn_skipn, firstn_skipn.
  - unfold len in *. rewrite firstn_length. lia.
Qed.

Lemma patch_mid pre old new suf : len old = len new ->
  patch (pre ++ old ++ suf) (len pre) new = Some (pre ++ new ++ suf).
Proof.
  intros E. unfold patch. pose proof (len_nonneg pre). pose proof (len_nonneg suf). pose proof (len_nonneg new).
  rewrite !len_app.
  replace ((0 <=? len pre) && (len pre + len new <=? len pre + (len old + len suf))) with true
    by (symmetry; rewrite andb_true_iff, !Z.leb_le; lia).
  f_equal. rewrite to_nat_len, firstn_app, firstn_all, Nat.sub_diag. cbn [firstn]. rewrite app_nil_r.
  f_equal. f_equal. rewrite <- E, <- len_app, to_nat_len, app_assoc, skipn_app, skipn_all, Nat.sub_diag.
  reflexivity.
Qed.
