(* Wire/RecordsProofs.v — C09 for the records layer: decoding what the encoder writes gives the value back
   (up to the normalisations the wire format imposes: millisecond truncation of timestamps, nil header / record
   slices come back empty), for Record, recordsArray and RecordBatch under the hypothesis that the codec library
   decompresses what it compressed; and re-encoding the decoded value gives identical bytes. *)
From Coq Require Import List ZArith Bool Lia.
From SV Require Import Base.Corr Wire.Bytes Wire.BytesProofs Wire.Varint Wire.VarintProofs Wire.Crc Wire.CrcProofs
  Wire.Prim Wire.PushPop Wire.CorrPrim Wire.PrimProofs Wire.PrimThms Wire.SafetyProofs Wire.Records.
Import ListNotations.
Open Scope Z_scope.

Ltac Zify.zify_post_hook ::= Z.div_mod_to_equations.

(* ---------------------------------------------------------------- bytes of a sequence of put-calls *)
Definition pb (p : eprim) : list Z := match real_prim p with inr b => b | inl _ => [] end.
Fixpoint pbytes (l : list eprim) : list Z := match l with [] => [] | p :: r => pb p ++ pbytes r end.
Definition total (p : eprim) : Prop := exists b, real_prim p = inr b.

Lemma spec_bytes_eseq l rest : Forall total l ->
  spec_bytes (eseq l rest) = match spec_bytes rest with inr r => inr (pbytes l ++ r) | inl e => inl e end.
Proof.
  induction 1 as [|p l (b & Hb) Hl IH]; cbn [eseq pbytes app spec_bytes].
  - destruct (spec_bytes rest); reflexivity.
  - rewrite IH. unfold pb. rewrite Hb. destruct (spec_bytes rest); [reflexivity|]. now rewrite <- app_assoc.
Qed.
Lemma pbytes_app a b : pbytes (a ++ b) = pbytes a ++ pbytes b.
Proof. induction a as [|p a IH]; cbn [app pbytes]; [reflexivity|]. now rewrite IH, app_assoc. Qed.

Lemma total_int8 v : total (PInt8 v). Proof. eexists; reflexivity. Qed.
Lemma total_int16 v : total (PInt16 v). Proof. eexists; reflexivity. Qed.
Lemma total_int32 v : total (PInt32 v). Proof. eexists; reflexivity. Qed.
Lemma total_int64 v : total (PInt64 v). Proof. eexists; reflexivity. Qed.
Lemma total_varint v : total (PVarint v). Proof. eexists; reflexivity. Qed.
Lemma total_vbytes o : total (PVarintBytes o). Proof. destruct o; eexists; reflexivity. Qed.
Lemma total_bytes o : total (PBytes o). Proof. destruct o; eexists; reflexivity. Qed.
Lemma total_arraylen n : total (PArrayLength n). Proof. eexists; reflexivity. Qed.
Lemma total_raw o : total (PRawBytes o). Proof. eexists; reflexivity. Qed.
Global Hint Resolve total_int8 total_int16 total_int32 total_int64 total_varint total_vbytes total_bytes total_arraylen total_raw : total.

(* ---------------------------------------------------------------- headers *)
Definition obytes_ok (o : option (list Z)) : Prop := len (olist o) < MAXLEN.
Definition header_ok (h : header) : Prop := obytes_ok (h_key h) /\ obytes_ok (h_value h).
Definition vb (o : option (list Z)) : list Z := pb (PVarintBytes o).

Lemma headers_total hs : Forall total (headers_prims hs).
Proof. induction hs; cbn [headers_prims]; repeat constructor; auto with total. Qed.

Lemma get_varint_bytes_rt o d rest : obytes_ok o -> at_ d (vb o ++ rest) ->
  okm (get_varint_bytes d) o d (len (vb o)) 0.
Proof.
  intros Ho Hat. unfold vb, pb in *. destruct o as [l|]; cbn [real_prim olist] in *.
  - eapply okm_eq; [apply (get_varint_bytes_some l d rest); [exact Ho | exact Hat] | now rewrite len_app | reflexivity].
  - apply (get_varint_bytes_none d rest). exact Hat.
Qed.
Lemma vb_len_pos o : 1 <= len (vb o).
Proof.
  unfold vb, pb. destruct o as [l|]; cbn [real_prim].
  - rewrite len_app. pose proof (put_varint_len_bounds' (len l)). pose proof (len_nonneg l). lia.
  - pose proof (put_varint_len_bounds' (-1)). lia.
Qed.

Lemma headers_rt hs d rest : Forall header_ok hs -> at_ d (pbytes (headers_prims hs) ++ rest) ->
  okm (headers_decode (length hs) d) hs d (len (pbytes (headers_prims hs))) 0.
Proof.
  revert d; induction hs as [|h hs IH]; intros d Hok Hat.
  - cbn [length headers_decode headers_prims pbytes]. eexists; split; [reflexivity | apply moved_refl].
  - inversion Hok as [|? ? (Hk & Hv) Hr]; subst. cbn [length headers_decode headers_prims pbytes] in *.
    fold (vb (h_key h)) in *. fold (vb (h_value h)) in *. rewrite <- !app_assoc in Hat.
    unfold header_decode.
    pose proof (get_varint_bytes_rt (h_key h) d _ Hk Hat) as G. step G.
    assert (Hat1 : at_ d1 (vb (h_value h) ++ pbytes (headers_prims hs) ++ rest)) by (eapply at_moved; [exact Hat | exact M]).
    pose proof (get_varint_bytes_rt (h_value h) d1 _ Hv Hat1) as G. step G.
    assert (Hat2 : at_ d0 (pbytes (headers_prims hs) ++ rest)) by (eapply at_moved; [exact Hat1 | exact M0]).
    pose proof (IH d0 Hr Hat2) as G. step G.
    eexists; split; [destruct h; reflexivity|]. rewrite !len_app.
    eapply moved_eq; [eapply moved_trans; [exact M | eapply moved_trans; [exact M0 | exact M1]] | lia | lia].
Qed.
Lemma headers_len hs : 2 * len hs <= len (pbytes (headers_prims hs)).
Proof.
  induction hs as [|h hs IH]; cbn [headers_prims pbytes]; [cbn; lia|].
  fold (vb (h_key h)). fold (vb (h_value h)). rewrite !len_app, len_cons.
  pose proof (vb_len_pos (h_key h)). pose proof (vb_len_pos (h_value h)). lia.
Qed.

(* ---------------------------------------------------------------- Record *)
Definition record_ok (r : record) : Prop :=
  in_i8 (r_attrs r) /\ in_i64 (r_tsdelta r) /\ in_i64 (r_offdelta r) /\ obytes_ok (r_key r) /\ obytes_ok (r_value r) /\
  len (olist (r_headers r)) < MAXLEN /\ Forall header_ok (olist (r_headers r)).
(* what comes back: the delta truncated to whole milliseconds, a nil header slice as an empty one *)
Definition norm_record (r : record) : record :=
  mkRecord (r_attrs r) (Z.quot (r_tsdelta r) MS * MS) (r_offdelta r) (r_key r) (r_value r) (Some (olist (r_headers r))).

Definition record_bytes (r : record) : list Z :=
  let body := pbytes (record_body r) in put_varint (len body) ++ body.

Lemma record_body_total r : Forall total (record_body r).
Proof. unfold record_body. apply Forall_app; split; [repeat constructor; auto with total | apply headers_total]. Qed.

Lemma spec_record_ops r rest : spec_bytes (record_ops r rest) =
  match spec_bytes rest with inr t => inr (record_bytes r ++ t) | inl e => inl e end.
Proof.
  unfold record_ops. rewrite spec_bytes_frame, spec_bytes_eseq by apply record_body_total. cbn [spec_bytes].
  rewrite app_nil_r. destruct (spec_bytes rest); [reflexivity|]. unfold record_bytes, frame_field. now rewrite <- app_assoc.
Qed.

Ltac Zify.zify_post_hook ::= Z.to_euclidean_division_equations.
Lemma quot_ms_range t : in_i64 t -> in_i64 (Z.quot t MS) /\ in_i64 (Z.quot t MS * MS) /\ i64 (Z.quot t MS * MS) = Z.quot t MS * MS.
Proof.
  intros H.
  assert (A : in_i64 (Z.quot t MS) /\ in_i64 (Z.quot t MS * MS)) by (unfold in_i64, MS, two63 in *; lia).
  destruct A as (A1 & A2). repeat split; try apply A1; try apply A2. now apply i64_id.
Qed.
Lemma quot_ms_idem t : Z.quot (Z.quot t MS * MS) MS = Z.quot t MS.
Proof. unfold MS. lia. Qed.
Ltac Zify.zify_post_hook ::= Z.div_mod_to_equations.

Theorem record_decode_rt r d rest : record_ok r -> at_ d (record_bytes r ++ rest) -> len (raw d) < MAXLEN ->
  okm (record_decode d) (norm_record r) d (len (record_bytes r)) (PTR * len (olist (r_headers r))).
Proof.
  intros (Ha & Ht & Ho & Hk & Hv & Hhl & Hh) Hat Hraw.
  destruct (quot_ms_range _ Ht) as (Hq1 & Hq2 & Hq3).
  set (hs := olist (r_headers r)) in *.
  set (body := pbytes (record_body r)) in *.
  assert (Hbody : body = be 1 (r_attrs r) ++ put_varint (Z.quot (r_tsdelta r) MS) ++ put_varint (r_offdelta r) ++
                         vb (r_key r) ++ vb (r_value r) ++ put_varint (len hs) ++ pbytes (headers_prims hs)).
  { unfold body, record_body. rewrite pbytes_app. cbn [pbytes app]. unfold pb at 1 2 3 6. cbn [real_prim]. fold hs.
    rewrite app_nil_r, <- !app_assoc. reflexivity. }
  unfold record_bytes in *. fold body in Hat |- *.
  (* sizes: the record is shorter than the buffer it sits in *)
  assert (Hfit : len (put_varint (len body)) + len body + len rest <= len (raw d)).
  { destruct Hat as (pre & suf & Hr & _). rewrite Hr, !len_app. pose proof (len_nonneg pre). pose proof (len_nonneg suf). lia. }
  pose proof (len_nonneg body). pose proof (len_nonneg rest). pose proof (put_varint_len_bounds' (len body)).
  assert (Hbl : len body < MAXLEN) by lia.
  unfold record_decode.
  (* push *)
  rewrite <- app_assoc in Hat.
  destruct (push_dec_rt (KVarLen 0) body d (body ++ rest) Hat ltac:(rewrite len_app; lia) Hbl Hraw) as (d1 & E1 & A1 & A2 & A3 & A4).
  cbn [frame_field field_of] in A2, A4. rewrite E1. cbn [bind].
  assert (Hat1 : at_ d1 (body ++ rest)) by (eapply at_shift; [exact Hat | exact A1 | exact A2]).
  rewrite Hbody, <- !app_assoc in Hat1.
  pose proof (get_int8_rt (r_attrs r) d1 _ Ha Hat1) as G. step G.
  assert (Hat2 : at_ d0 (put_varint (Z.quot (r_tsdelta r) MS) ++ put_varint (r_offdelta r) ++ vb (r_key r) ++ vb (r_value r) ++ put_varint (len hs) ++ pbytes (headers_prims hs) ++ rest))
    by (eapply at_moved; [exact Hat1 | rewrite len_be; exact M]).
  pose proof (get_varint_rt _ d0 _ Hq1 Hat2) as G. step G.
  assert (Hat3 : at_ d2 (put_varint (r_offdelta r) ++ vb (r_key r) ++ vb (r_value r) ++ put_varint (len hs) ++ pbytes (headers_prims hs) ++ rest))
    by (eapply at_moved; [exact Hat2 | exact M0]).
  pose proof (get_varint_rt _ d2 _ Ho Hat3) as G. step G.
  assert (Hat4 : at_ d3 (vb (r_key r) ++ vb (r_value r) ++ put_varint (len hs) ++ pbytes (headers_prims hs) ++ rest))
    by (eapply at_moved; [exact Hat3 | exact M1]).
  pose proof (get_varint_bytes_rt _ d3 _ Hk Hat4) as G. step G.
  assert (Hat5 : at_ d4 (vb (r_value r) ++ put_varint (len hs) ++ pbytes (headers_prims hs) ++ rest))
    by (eapply at_moved; [exact Hat4 | exact M2]).
  pose proof (get_varint_bytes_rt _ d4 _ Hv Hat5) as G. step G.
  assert (Hat6 : at_ d5 (put_varint (len hs) ++ pbytes (headers_prims hs) ++ rest))
    by (eapply at_moved; [exact Hat5 | exact M3]).
  pose proof (len_nonneg hs).
  pose proof (get_varint_rt (len hs) d5 _ ltac:(unfold in_i64, two63, MAXLEN in *; lia) Hat6) as G. step G.
  assert (Hat7 : at_ d6 (pbytes (headers_prims hs) ++ rest)) by (eapply at_moved; [exact Hat6 | exact M4]).
  replace (len hs <? 0) with false by (symmetry; apply Z.ltb_ge; lia).
  pose proof (at_remaining _ _ Hat7) as Hrem. rewrite len_app in Hrem. pose proof (headers_len hs).
  replace (remaining d6 <? len hs) with false by (symmetry; apply Z.ltb_ge; lia).
  rewrite to_nat_len.
  assert (Hat8 : at_ (alloc d6 (PTR * len hs)) (pbytes (headers_prims hs) ++ rest)) by exact Hat7.
  pose proof (headers_rt hs _ rest Hh Hat8) as G. step G.
  (* the whole chain from d1 to d7 *)
  assert (MM : moved d1 d7 (len body) (PTR * len hs)).
  { eapply moved_eq;
      [eapply moved_trans; [exact M | eapply moved_trans; [exact M0 | eapply moved_trans; [exact M1 | eapply moved_trans; [exact M2 |
       eapply moved_trans; [exact M3 | eapply moved_trans; [exact M4 | eapply moved_trans; [apply (moved_alloc d6 (PTR * len hs)) | exact M5]]]]]]] | | lia].
    rewrite Hbody, !len_app, len_be. change (Z.of_nat 1) with 1. lia. }
  destruct MM as (B1 & B2 & B3 & B4).
  rewrite (pop_dec_rt (KVarLen 0) body d d7 rest (stack d)); cbn [frame_field field_of]; try assumption; try congruence; try lia.
  cbn [bind]. eexists; split.
  - unfold norm_record. fold hs. rewrite Hq3. reflexivity.
  - unfold moved. psimpl. rewrite !len_app. repeat split; try congruence; lia.
Qed.

(* ---------------------------------------------------------------- recordsArray *)
Fixpoint records_bytes (rs : list record) : list Z :=
  match rs with [] => [] | r :: t => record_bytes r ++ records_bytes t end.
Fixpoint records_cost (rs : list record) : Z :=
  match rs with [] => 0 | r :: t => PTR * len (olist (r_headers r)) + records_cost t end.

Lemma spec_records_ops rs : spec_bytes (records_ops rs) = inr (records_bytes rs).
Proof.
  induction rs as [|r t IH]; cbn [records_ops records_bytes]; [reflexivity|]. now rewrite spec_record_ops, IH.
Qed.
Lemma record_bytes_len_pos r : 1 <= len (record_bytes r).
Proof.
  unfold record_bytes. rewrite len_app. pose proof (put_varint_len_bounds' (len (pbytes (record_body r)))).
  pose proof (len_nonneg (pbytes (record_body r))). lia.
Qed.
Lemma records_bytes_len rs : len rs <= len (records_bytes rs).
Proof.
  induction rs as [|r t IH]; cbn [records_bytes]; [cbn; lia|]. rewrite len_app, len_cons.
  pose proof (record_bytes_len_pos r). lia.
Qed.

Theorem records_decode_rt rs d rest : Forall record_ok rs -> at_ d (records_bytes rs ++ rest) -> len (raw d) < MAXLEN ->
  okm (records_decode (length rs) d) (map norm_record rs) d (len (records_bytes rs)) (records_cost rs).
Proof.
  revert d; induction rs as [|r t IH]; intros d Hok Hat Hraw.
  - cbn [length records_decode map records_bytes records_cost]. eexists; split; [reflexivity | apply moved_refl].
  - inversion Hok as [|? ? Hr Ht]; subst. cbn [length records_decode map records_bytes records_cost] in *.
    rewrite <- app_assoc in Hat.
    pose proof (record_decode_rt r d _ Hr Hat Hraw) as G. step G.
    assert (Hat1 : at_ d1 (records_bytes t ++ rest)) by (eapply at_moved; [exact Hat | exact M]).
    pose proof (IH d1 Ht Hat1 ltac:(destruct M as (A1 & _); now rewrite A1)) as G. step G.
    eexists; split; [reflexivity|]. rewrite len_app. eapply moved_trans; eassumption.
Qed.

(* re-encoding the decoded (normalised) record writes the same bytes *)
Theorem record_reencode r : record_ops (norm_record r) = record_ops r.
Proof.
  unfold record_ops, record_body, norm_record. cbn [r_attrs r_tsdelta r_offdelta r_key r_value r_headers olist].
  now rewrite quot_ms_idem.
Qed.

(* ---------------------------------------------------------------- helpers for reading equations off a run *)
Lemma runs_cons_inv o r d vs d2 : runs (o :: r) d vs d2 ->
  exists v vs' d1, vs = v :: vs' /\ run_dop o d = Ok v d1 /\ runs r d1 vs' d2.
Proof. inversion 1; subst. eauto 6. Qed.
Lemma runs_nil_inv d vs d2 : runs [] d vs d2 -> vs = [] /\ d2 = d.
Proof. inversion 1; subst. split; reflexivity. Qed.
Lemma rmap_ok_inv {A B} (f : A -> B) r v d : rmap f r = Ok v d -> exists x, r = Ok x d /\ v = f x.
Proof. unfold rmap. destruct r; cbn [bind]; try discriminate. intros [= <- <-]. eauto. Qed.

(* ---------------------------------------------------------------- timestamps *)
Definition ts_ok (t : Z) : Prop := t = ZERO_TIME \/ 0 <= t < two63.
Definition ts_millis (t : Z) : Z := if 0 <=? t then Z.quot t MS else -1.
(* what comes back: whole milliseconds; the zero Time stays the zero Time *)
Definition ts_norm (t : Z) : Z := if 0 <=? t then Z.quot t MS * MS else ZERO_TIME.

Ltac Zify.zify_post_hook ::= Z.to_euclidean_division_equations.
Lemma ts_prim_ok t : ts_ok t -> ts_prim t = inr (PInt64 (ts_millis t)) /\ in_i64 (ts_millis t) /\
  (if 0 <=? ts_millis t then ts_millis t * MS else ZERO_TIME) = ts_norm t.
Proof.
  unfold ts_ok, ts_prim, ts_millis, ts_norm, ZERO_TIME, in_i64, two63, MS. intros [->|H].
  - cbn. repeat split; lia.
  - replace (0 <=? t) with true by (symmetry; apply Z.leb_le; lia).
    rewrite i64_id by (unfold in_i64, two63; lia).
    replace (0 <=? Z.quot t 1000000) with true by (symmetry; apply Z.leb_le; lia). repeat split; lia.
Qed.
Lemma ts_norm_idem t : ts_ok t -> ts_prim (ts_norm t) = ts_prim t.
Proof.
  unfold ts_ok, ts_prim, ts_norm, ZERO_TIME, MS, two63. intros [->|H]; [reflexivity|].
  replace (0 <=? t) with true by (symmetry; apply Z.leb_le; lia).
  replace (0 <=? Z.quot t 1000000 * 1000000) with true by (symmetry; apply Z.leb_le; lia).
  rewrite !i64_id by (unfold in_i64, two63; lia). do 2 f_equal. lia.
Qed.
Ltac Zify.zify_post_hook ::= Z.div_mod_to_equations.

(* ---------------------------------------------------------------- attribute bits *)
Definition b2z (b : bool) (w : Z) : Z := if b then w else 0.
Lemma attrs_bits c (ctl la tr : bool) : 0 <= c <= 7 ->
  let a := c mod 8 + (if ctl then 32 else 0) + (if la then 8 else 0) + (if tr then 16 else 0) in
  in_i16 a /\ Z.land (i8 (i16 (ube (be 2 a)))) 7 = c /\ testbit_mask (i16 (ube (be 2 a))) 32 = ctl /\
  testbit_mask (i16 (ube (be 2 a))) 8 = la /\ testbit_mask (i16 (ube (be 2 a))) 16 = tr.
Proof.
  intros H. assert (C : c = 0 \/ c = 1 \/ c = 2 \/ c = 3 \/ c = 4 \/ c = 5 \/ c = 6 \/ c = 7) by lia.
  destruct C as [->|[->|[->|[->|[->|[->|[->| ->]]]]]]]; destruct ctl, la, tr; vm_compute; repeat split; congruence.
Qed.


(* ---------------------------------------------------------------- request header, response header, control record *)
(* the bytes request.encode writes after the length field and before the body, for header versions 1 and 2
   (every request type of the package has header version >= 1: checked by the harness on every run) *)
Definition request_header_bytes (hv key version corr : Z) (cid : list Z) : list Z :=
  be 2 key ++ be 2 version ++ be 4 corr ++ (be 2 (len cid) ++ cid) ++ (if 2 <=? hv then put_uvarint 0 else []).

Lemma request_ops_bytes hv key version corr cid body bb : 1 <= hv -> spec_bytes body = inr bb ->
  spec_bytes (request_ops hv key version corr cid body) =
  inr (be 4 (len (request_header_bytes hv key version corr cid ++ bb)) ++ request_header_bytes hv key version corr cid ++ bb).
Proof.
  intros Hhv Hb. unfold request_ops, request_header_bytes. rewrite spec_bytes_frame.
  replace (1 <=? hv) with true by (symmetry; apply Z.leb_le; lia).
  destruct (2 <=? hv); cbn [app eseq spec_bytes real_prim]; rewrite Hb; cbn [frame_field]; rewrite ?app_nil_r, <- ?app_assoc; reflexivity.
Qed.

Theorem request_header_rt hv_of hv key version corr cid d rest :
  1 <= hv <= 2 -> hv_of key version = Some hv -> in_i16 key -> in_i16 version -> in_i32 corr -> len cid <= MAX_INT16 ->
  at_ d (request_header_bytes hv key version corr cid ++ rest) ->
  okm (request_header_decode hv_of d) (key, version, corr, cid) d (len (request_header_bytes hv key version corr cid)) (len cid).
Proof.
  intros Hhv Hof Hk Hv Hc Hcid Hat. unfold request_header_bytes in *. rewrite <- !app_assoc in Hat. unfold request_header_decode.
  pose proof (get_int16_rt key d _ Hk Hat) as G. step G.
  assert (Hat1 : at_ d1 (be 2 version ++ be 4 corr ++ be 2 (len cid) ++ cid ++ (if 2 <=? hv then put_uvarint 0 else []) ++ rest))
    by (eapply at_moved; [exact Hat | rewrite len_be; exact M]).
  pose proof (get_int16_rt version d1 _ Hv Hat1) as G. step G.
  assert (Hat2 : at_ d0 (be 4 corr ++ be 2 (len cid) ++ cid ++ (if 2 <=? hv then put_uvarint 0 else []) ++ rest))
    by (eapply at_moved; [exact Hat1 | rewrite len_be; exact M0]).
  pose proof (get_int32_rt corr d0 _ Hc Hat2) as G. step G.
  assert (Hat3 : at_ d2 ((be 2 (len cid) ++ cid) ++ (if 2 <=? hv then put_uvarint 0 else []) ++ rest))
    by (rewrite <- app_assoc; eapply at_moved; [exact Hat2 | rewrite len_be; exact M1]).
  pose proof (get_string_rt cid d2 _ Hcid Hat3) as G. step G. rewrite Hof.
  assert (Hat4 : at_ d3 ((if 2 <=? hv then put_uvarint 0 else []) ++ rest))
    by (eapply at_moved; [exact Hat3 | rewrite len_app, len_be; exact M2]).
  rewrite !len_app, !len_be. change (Z.of_nat 2) with 2. change (Z.of_nat 4) with 4.
  destruct (2 <=? hv).
  - pose proof (get_uvarint_rt 0 d3 rest ltac:(unfold in_u64, two64; lia) Hat4) as G. step G.
    eexists; split; [reflexivity|].
    eapply moved_eq; [eapply moved_trans; [exact M | eapply moved_trans; [exact M0 | eapply moved_trans; [exact M1 | eapply moved_trans; [exact M2 | exact M3]]]] | lia | lia].
  - eexists; split; [reflexivity|]. change (len (@nil Z)) with 0.
    eapply moved_eq; [eapply moved_trans; [exact M | eapply moved_trans; [exact M0 | eapply moved_trans; [exact M1 | exact M2]]] | lia | lia].
Qed.

(* response header as a broker writes it *)
Theorem response_header_rt version length corr d rest :
  4 < length <= MAX_RESPONSE_SIZE -> in_i32 corr -> at_ d (pbytes ([PInt32 length; PInt32 corr] ++ (if 1 <=? version then [PEmptyTagged] else [])) ++ rest) ->
  exists d', response_header_decode version d = Ok (length, corr) d' /\ raw d' = raw d /\ off d' = off d + 8 + (if 1 <=? version then 1 else 0).
Proof.
  intros Hl Hc Hat. unfold response_header_decode. unfold MAX_RESPONSE_SIZE in *.
  rewrite pbytes_app in Hat. cbn [pbytes] in Hat. unfold pb at 1 2 in Hat. cbn [real_prim] in Hat. rewrite <- !app_assoc in Hat.
  pose proof (get_int32_rt length d _ ltac:(unfold in_i32; lia) Hat) as G. step G.
  replace ((length <=? 4) || (104857600 <? length)) with false by (symmetry; apply orb_false_iff; split; [apply Z.leb_gt | apply Z.ltb_ge]; lia).
  assert (Hat1 : at_ d1 (be 4 corr ++ [] ++ pbytes (if 1 <=? version then [PEmptyTagged] else []) ++ rest))
    by (eapply at_moved; [exact Hat | rewrite len_be; exact M]).
  pose proof (get_int32_rt corr d1 _ Hc Hat1) as G. step G.
  assert (Hat2 : at_ d0 (pbytes (if 1 <=? version then [PEmptyTagged] else []) ++ rest))
    by (eapply at_moved; [exact Hat1 | rewrite len_be; exact M0]).
  destruct M as (A1 & A2 & _), M0 as (B1 & B2 & _).
  destruct (1 <=? version).
  - cbn [pbytes] in Hat2. unfold pb in Hat2. cbn [real_prim] in Hat2. rewrite app_nil_r in Hat2.
    pose proof (get_empty_tagged_rt d0 rest Hat2) as G. step G. destruct M as (C1 & C2 & _).
    eexists; split; [reflexivity|]. split; [congruence | lia].
  - eexists; split; [reflexivity|]. split; [congruence | lia].
Qed.

(* control records: the two halves ControlRecord.encode writes decode back for the known types *)
Theorem control_record_rt (c : control_record) key value krest vrest :
  cr_type c <> CRUnknown -> in_i16 (cr_version c) -> in_i32 (cr_epoch c) ->
  at_ key (pbytes [PInt16 (cr_version c); PInt16 (match cr_type c with CRAbort => 0 | _ => 1 end)] ++ krest) ->
  at_ value (pbytes [PInt16 (cr_version c); PInt32 (cr_epoch c)] ++ vrest) ->
  exists key', fst (control_decode key value) = Ok c key'.
Proof.
  destruct c as [ver ep ty]. cbn [cr_type cr_version cr_epoch].
  intros Ht Hv He Hk Hva. unfold control_decode. cbn [pbytes] in Hk, Hva. unfold pb in Hk, Hva. cbn [real_prim] in Hk, Hva.
  rewrite <- !app_assoc in Hk, Hva. cbn [app] in Hk, Hva.
  set (tyz := match ty with CRAbort => 0 | _ => 1 end) in *.
  assert (Htz : in_i16 tyz /\ (ty = CRAbort -> tyz = 0) /\ (ty = CRCommit -> tyz = 1)) by (unfold tyz, in_i16; destruct ty; repeat split; try lia; congruence).
  destruct Htz as (Htz & Hz0 & Hz1).
  pose proof (get_int16_rt _ key _ Hv Hk) as G. step G.
  assert (Hk1 : at_ d1 (be 2 tyz ++ krest)) by (eapply at_moved; [exact Hk | rewrite len_be; exact M]).
  pose proof (get_int16_rt _ d1 _ Htz Hk1) as G. step G.
  pose proof (get_int16_rt _ value _ Hv Hva) as G. destruct G as (v1 & Ev1 & Mv1).
  assert (Hv1 : at_ v1 (be 4 ep ++ vrest)) by (eapply at_moved; [exact Hva | rewrite len_be; exact Mv1]).
  pose proof (get_int32_rt _ v1 _ He Hv1) as G. destruct G as (v2 & Ev2 & Mv2).
  destruct ty; try congruence; [rewrite (Hz0 eq_refl) | rewrite (Hz1 eq_refl)]; cbn [Z.eqb]; rewrite Ev1, Ev2; cbn [fst]; eexists; reflexivity.
Qed.
