(* Wire/BatchProofs.v — C09 for RecordBatch: decode (encode b) = norm_batch b under the hypothesis that the codec
   library decompresses what it compressed; re-encoding the decoded batch writes identical bytes. *)
From Coq Require Import List ZArith Bool Lia.
From SV Require Import Base.Corr Wire.Bytes Wire.BytesProofs Wire.Varint Wire.VarintProofs Wire.Crc Wire.CrcProofs
  Wire.Prim Wire.PushPop Wire.CorrPrim Wire.PrimProofs Wire.PrimThms Wire.SafetyProofs Wire.Records Wire.RecordsProofs.
Import ListNotations.
Open Scope Z_scope.

Ltac Zify.zify_post_hook ::= Z.div_mod_to_equations.

Section Codec.
Variable compress : Z -> list Z -> option (list Z).
Variable decompress : Z -> list Z -> option (list Z).
(* the codec library gives back what it compressed *)
Hypothesis codec_inverse : forall c x y, compress c x = Some y -> decompress c y = Some x.

Definition batch_ok (b : batch) : Prop :=
  in_i64 (b_first_offset b) /\ in_i32 (b_leader_epoch b) /\ b_version b = 2 /\ 0 <= b_codec b <= 7 /\
  in_i32 (b_last_offset_delta b) /\ ts_ok (b_first_ts b) /\ ts_ok (b_max_ts b) /\
  in_i64 (b_producer_id b) /\ in_i16 (b_producer_epoch b) /\ in_i32 (b_first_seq b) /\
  Forall record_ok (olist (b_records b)).
Definition norm_batch (b : batch) : batch :=
  mkBatch (b_first_offset b) (b_leader_epoch b) (b_version b) (b_codec b) (b_control b) (b_logappend b)
    (b_last_offset_delta b) (ts_norm (b_first_ts b)) (ts_norm (b_max_ts b)) (b_producer_id b) (b_producer_epoch b)
    (b_first_seq b) (Some (map norm_record (olist (b_records b)))) false (b_transactional b).

Lemma compress_m_inverse c x y : compress_m compress c x = Some y -> decompress_m decompress c y = Some x.
Proof. unfold compress_m, decompress_m. destruct (c =? 0); [congruence | apply codec_inverse]. Qed.

(* the part of the batch after the length field, as RecordBatch.encode writes it ... *)
Definition crc_body (b : batch) (n : eprim) (comp : list Z) : list eprim :=
  [PInt16 (batch_attrs b); PInt32 (b_last_offset_delta b); PInt64 (ts_millis (b_first_ts b)); PInt64 (ts_millis (b_max_ts b));
   PInt64 (b_producer_id b); PInt16 (b_producer_epoch b); PInt32 (b_first_seq b); n; PRawBytes (Some comp)].
Definition inner_ops (b : batch) (n : eprim) (comp : list Z) : eops :=
  ECons (PInt32 (b_leader_epoch b)) (ECons (PInt8 (b_version b)) (EFrame (KCrc Castagnoli) (eseq (crc_body b n comp) ENil) ENil)).

Lemma batch_ops_shape b ops : batch_ok b -> batch_ops compress b = inr ops ->
  exists comp, compress_m compress (b_codec b) (records_bytes (olist (b_records b))) = Some comp /\
               len (records_bytes (olist (b_records b))) <= MAX_REQUEST_SIZE /\
               ops = ECons (PInt64 (b_first_offset b)) (EFrame KLen (inner_ops b (PArrayLength (len (olist (b_records b)))) comp) ENil).
Proof.
  intros (Hfo & Hep & Hver & Hcodec & Hlod & Ht1 & Ht2 & Hpid & Hpe & Hfs & Hrecs) Hops.
  unfold batch_ops in Hops. rewrite Hver in Hops. cbn [Z.eqb negb Pos.eqb] in Hops.
  destruct (ts_prim_ok _ Ht1) as (P1 & _). destruct (ts_prim_ok _ Ht2) as (P2 & _). rewrite P1, P2 in Hops.
  destruct (encode (records_ops (olist (b_records b)))) as [rawr|e|] eqn:Eenc; try discriminate.
  pose proof (encode_ok_size _ _ Eenc) as Hsz.
  apply encode_ok_spec in Eenc as (Eraw & _). rewrite spec_records_ops in Eraw. apply inr_inj in Eraw. subst rawr.
  destruct (compress_m compress (b_codec b) _) as [comp|] eqn:Ecomp; [|discriminate].
  apply inr_inj in Hops. subst ops. exists comp. repeat split; try assumption. unfold inner_ops, crc_body. now rewrite Hver.
Qed.

(* ... has the same bytes when the count is written as a plain int32, which is how RecordBatch.decode reads it *)
Lemma inner_bytes b n comp : exists ib,
  spec_bytes (inner_ops b (PArrayLength n) comp) = inr ib /\ spec_bytes (inner_ops b (PInt32 n) comp) = inr ib /\
  len ib = RECORD_BATCH_OVERHEAD + len comp.
Proof.
  eexists. unfold inner_ops, crc_body. cbn [spec_bytes eseq real_prim olist]. split; [reflexivity|]. split; [reflexivity|].
  rewrite !len_app, !len_be. unfold RECORD_BATCH_OVERHEAD. change (len (@nil Z)) with 0. lia.
Qed.

Theorem batch_roundtrip b ops bs : batch_ok b -> batch_ops compress b = inr ops -> spec_bytes ops = inr bs ->
  forall d rest, at_ d (bs ++ rest) -> len (raw d) < MAXLEN ->
  exists d', batch_decode decompress d = Ok (norm_batch b) d' /\ raw d' = raw d /\ off d' = off d + len bs /\ stack d' = stack d.
Proof.
  intros Hok Hops Hspec d rest Hat Hraw.
  destruct (batch_ops_shape b ops Hok Hops) as (comp & Ecomp & Hrawsize & ->).
  destruct Hok as (Hfo & Hep & Hver & Hcodec & Hlod & Ht1 & Ht2 & Hpid & Hpe & Hfs & Hrecs).
  set (rs := olist (b_records b)) in *.
  destruct (inner_bytes b (len rs) comp) as (ib & Hib & Hib' & Hlen).
  rewrite spec_bytes_cons, spec_bytes_frame, Hib in Hspec. cbn [real_prim spec_bytes frame_field] in Hspec.
  apply inr_inj in Hspec. rewrite app_nil_r in Hspec. subst bs.
  destruct (ts_prim_ok _ Ht1) as (_ & R1 & N1). destruct (ts_prim_ok _ Ht2) as (_ & R2 & N2).
  pose proof (attrs_bits (b_codec b) (b_control b) (b_logappend b) (b_transactional b) Hcodec) as AB.
  fold (batch_attrs b) in AB. cbn zeta in AB. destruct AB as (Ha16 & Hac & Hab1 & Hab2 & Hab3).
  pose proof (len_nonneg comp). pose proof (len_nonneg ib). pose proof (len_nonneg rest). pose proof (len_nonneg rs).
  assert (Hfit : 12 + len ib + len rest <= len (raw d)).
  { destruct Hat as (pre & suf & Hr & _). rewrite Hr, !len_app, !len_be. pose proof (len_nonneg pre). pose proof (len_nonneg suf).
    change (Z.of_nat 8) with 8. change (Z.of_nat 4) with 4. lia. }
  pose proof (records_bytes_len rs) as Hrs.
  unfold MAXLEN, MAX_REQUEST_SIZE, RECORD_BATCH_OVERHEAD in *.
  unfold batch_decode. rewrite <- !app_assoc in Hat.
  pose proof (get_int64_rt _ d _ Hfo Hat) as G. step G.
  assert (Hat1 : at_ d1 (be 4 (len ib) ++ ib ++ rest)) by (eapply at_moved; [exact Hat | rewrite len_be; exact M]).
  pose proof (get_int32_rt (len ib) d1 _ ltac:(unfold in_i32; lia) Hat1) as G. step G.
  assert (Hat2 : at_ d0 (ib ++ rest)) by (eapply at_moved; [exact Hat1 | rewrite len_be; exact M0]).
  assert (Hraw0 : raw d0 = raw d) by (destruct M as (A1 & _), M0 as (B1 & _); congruence).
  assert (Hops' : ops_ok (inner_ops b (PInt32 (len rs)) comp) (remaining d0 - len ib)).
  { unfold inner_ops, crc_body. cbn [ops_ok eseq prim_ok ctx_ok olist]. unfold blen. rewrite Hver.
    unfold in_i8, in_i16, in_i32, in_i64, MAXLEN in *. repeat split; try assumption; try lia; try exact I.
    cbn [spec_bytes eseq real_prim olist]. rewrite !len_app, !len_be. change (len (@nil Z)) with 0. lia. }
  destruct (script_roundtrip _ ib d0 rest Hib' Hat2 Hops' ltac:(unfold MAXLEN; rewrite Hraw0; lia)) as (dz & Rz & Mz).
  unfold inner_ops, crc_body in Rz. cbn [dops_of eseq dop_of_prim app expected_vals expected olist] in Rz.
  repeat match goal with
         | H : runs (_ :: _) _ _ _ |- _ =>
           let v := fresh "v" in let vs := fresh "vs" in let dn := fresh "dn" in let E := fresh "E" in let Ev := fresh "Ev" in
           apply runs_cons_inv in H as (v & vs & dn & Ev & E & H); cbn [run_dop] in E; apply rmap_ok_inv in E as (? & E & ?);
           injection Ev as <- <-; subst
         | H : runs [] _ _ _ |- _ => apply runs_nil_inv in H as (_ & ->)
         end.
  repeat match goal with H : VInt _ = VInt _ |- _ => injection H as <- | H : VUnit = VUnit |- _ => clear H
                    | H : VBytes _ = VBytes _ |- _ => injection H as <- end.
  repeat match goal with u : unit |- _ => destruct u end.
  rewrite (i16_be _ Ha16) in Hac, Hab1, Hab2, Hab3.
  (* feed the equations to RecordBatch.decode *)
  unfold ts_decode. rewrite E1. cbn [bind]. rewrite E2. cbn [bind]. rewrite E3. cbn [bind]. rewrite E4. cbn [bind].
  rewrite E5. cbn [bind]. rewrite E6. cbn [bind]. rewrite E7. cbn [bind]. rewrite E8. cbn [bind]. rewrite E9. cbn [bind].
  rewrite E10. cbn [bind]. rewrite E11. cbn [bind].
  replace (len ib - Records.RECORD_BATCH_OVERHEAD) with (len comp) by (unfold Records.RECORD_BATCH_OVERHEAD; lia).
  rewrite E12, E13. cbn [bind]. rewrite Hac, (compress_m_inverse _ _ _ Ecomp).
  replace ((len rs <? -1) || (len (records_bytes rs) <? len rs)) with false
    by (symmetry; apply orb_false_iff; split; apply Z.ltb_ge; lia).
  replace (0 <=? len rs) with true by (symmetry; apply Z.leb_le; lia). rewrite to_nat_len.
  (* the records, decoded from the decompressed payload by a fresh decoder *)
  set (da := alloc dn11 (PTR * len rs)).
  unfold sub_decode.
  assert (Hatn : at_ (mkDec (records_bytes rs) 0 (mem da) []) (records_bytes rs ++ [])).
  { exists [], []. split; [cbn [raw app]; now rewrite !app_nil_r | reflexivity]. }
  destruct (records_decode_rt rs _ [] Hrecs Hatn ltac:(unfold MAXLEN; cbn [raw]; lia)) as (dr & Er & Mr).
  rewrite Er. destruct Mr as (Q1 & Q2 & Q3 & Q4). cbn [raw off] in Q1, Q2. rewrite Q2.
  replace (0 + len (records_bytes rs) =? len (records_bytes rs)) with true by (symmetry; apply Z.eqb_eq; lia).
  eexists. split; [|split; [|split]].
  - f_equal. unfold norm_batch. fold rs. rewrite Hver, Hab1, Hab2, Hab3, N1, N2. reflexivity.
  - destruct M as (A1 & _), M0 as (B1 & _), Mz as (C1 & _). unfold set_mem, da. cbn [raw alloc]. congruence.
  - destruct M as (_ & A2 & _), M0 as (_ & B2 & _), Mz as (_ & C2 & _). unfold set_mem, da. cbn [off alloc].
    rewrite !len_app, !len_be. change (Z.of_nat 8) with 8. change (Z.of_nat 4) with 4. lia.
  - destruct M as (_ & _ & _ & A4), M0 as (_ & _ & _ & B4), Mz as (_ & _ & _ & C4). unfold set_mem, da. cbn [stack alloc]. congruence.
Qed.

(* re-encoding the decoded batch writes the same bytes (compress is a function of the codec and the uncompressed records) *)
Theorem batch_reencode b : batch_ok b -> batch_ops compress (norm_batch b) = batch_ops compress b.
Proof.
  intros (Hfo & Hep & Hver & Hcodec & Hlod & Ht1 & Ht2 & Hpid & Hpe & Hfs & Hrecs).
  unfold batch_ops, norm_batch, batch_attrs. cbn [b_version b_first_ts b_max_ts b_records b_codec b_first_offset b_leader_epoch
    b_control b_logappend b_transactional b_last_offset_delta b_producer_id b_producer_epoch b_first_seq olist].
  rewrite (ts_norm_idem _ Ht1), (ts_norm_idem _ Ht2).
  assert (E : records_ops (map norm_record (olist (b_records b))) = records_ops (olist (b_records b))).
  { clear. induction (olist (b_records b)) as [|r t IH]; cbn [map records_ops]; [reflexivity|]. rewrite record_reencode. f_equal. exact IH. }
  rewrite E. unfold len. now rewrite map_length.
Qed.

(* Records (the magic-byte peek): a batch is recognised by its magic byte 2, sixteen bytes in *)
Theorem top_roundtrip_batch depth b ops bs : batch_ok b -> batch_ops compress b = inr ops -> spec_bytes ops = inr bs ->
  forall d rest, at_ d (bs ++ rest) -> len (raw d) < MAXLEN ->
  exists d', records_decode_top decompress depth d = Ok (RDefault (norm_batch b)) d' /\ raw d' = raw d /\ off d' = off d + len bs.
Proof.
  intros Hok Hops Hspec d rest Hat Hraw.
  destruct (batch_roundtrip b ops bs Hok Hops Hspec d rest Hat Hraw) as (d' & E & R & O & _).
  exists d'. split; [|split; assumption]. unfold records_decode_top.
  destruct (batch_ops_shape b ops Hok Hops) as (comp & _ & _ & ->).
  destruct (inner_bytes b (len (olist (b_records b))) comp) as (ib & Hib & _ & _).
  rewrite spec_bytes_cons, spec_bytes_frame, Hib in Hspec. cbn [real_prim spec_bytes frame_field] in Hspec.
  apply inr_inj in Hspec. subst bs.
  assert (Hib2 : exists tl, ib = be 4 (b_leader_epoch b) ++ [2] ++ tl).
  { unfold inner_ops in Hib. rewrite !spec_bytes_cons in Hib. cbn [real_prim] in Hib. destruct Hok as (_ & _ & Hver & _). rewrite Hver in Hib.
    destruct (spec_bytes (EFrame _ _ _)) as [e|x]; [discriminate|]. apply inr_inj in Hib. subst ib. exists x. reflexivity. }
  destruct Hib2 as (tl & ->).
  assert (Hat16 : at_ d ((be 8 (b_first_offset b) ++ be 4 (len (be 4 (b_leader_epoch b) ++ [2] ++ tl)) ++ be 4 (b_leader_epoch b)) ++ 2 :: (tl ++ [] ++ rest))).
  { rewrite app_nil_r in Hat. rewrite <- !app_assoc in *. cbn [app] in *. exact Hat. }
  pose proof (peek_int8_at d _ 2 _ Hat16 ltac:(lia)) as Pk.
  rewrite !len_app, !len_be in Pk. change (Z.of_nat 8 + (Z.of_nat 4 + Z.of_nat 4)) with MAGIC_OFFSET in Pk.
  rewrite Pk. cbn [bind]. change (i8 2 <? 2) with false. cbn iota. rewrite E. reflexivity.
Qed.
End Codec.
