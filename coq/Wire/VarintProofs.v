(* Wire/VarintProofs.v — the Go varint routines (Wire/Varint.v) implement the Kafka protocol's zig-zag base-128
   encoding for every 64-bit value: canonical form, value, size, and decode(encode x ++ anything) = x. *)
From Coq Require Import List ZArith Bool Lia.
From SV Require Import Wire.Bytes Wire.BytesProofs Wire.Varint.
Import ListNotations.
Open Scope Z_scope.

Ltac Zify.zify_post_hook ::= Z.div_mod_to_equations.

(* ---------------------------------------------------------------- bit-level facts *)
Lemma lor_128 b : 0 <= b < 256 -> Z.lor b 128 = b mod 128 + 128.
Proof.
  intros H. apply Z.eqb_eq. revert b H.
  apply (byte_cases (fun b => Z.lor b 128 =? b mod 128 + 128)). vm_compute. reflexivity.
Qed.
Lemma land_127 b : 0 <= b < 256 -> Z.land b 127 = b mod 128.
Proof.
  intros H. apply Z.eqb_eq. revert b H.
  apply (byte_cases (fun b => Z.land b 127 =? b mod 128)). vm_compute. reflexivity.
Qed.

Lemma land_low_high x v s : 0 <= s -> 0 <= x < 2 ^ s -> Z.land x (v * 2 ^ s) = 0.
Proof.
  intros Hs Hx. apply Z.bits_inj'. intros n Hn. rewrite Z.land_spec, Z.bits_0.
  destruct (Z.lt_ge_cases n s) as [L|G].
  - rewrite Z.mul_pow2_bits_low by lia. apply andb_false_r.
  - assert (x = 0 \/ 0 < x) as [->|Hp] by lia; [now rewrite Z.bits_0|].
    rewrite (Z.bits_above_log2 x n); [reflexivity|lia|].
    apply Z.log2_lt_pow2; [assumption|].
    assert (2 ^ s <= 2 ^ n) by (apply Z.pow_le_mono_r; lia). lia.
Qed.
Lemma lor_disjoint x v s : 0 <= s -> 0 <= x < 2 ^ s -> Z.lor x (Z.shiftl v s) = x + v * 2 ^ s.
Proof.
  intros Hs Hx. rewrite Z.shiftl_mul_pow2 by assumption.
  rewrite <- Z.lxor_lor by (now apply land_low_high).
  symmetry. apply Z.add_nocarry_lxor. now apply land_low_high.
Qed.

Lemma shiftr7 x : Z.shiftr x 7 = x / 128.
Proof. rewrite Z.shiftr_div_pow2 by lia. reflexivity. Qed.

(* ---------------------------------------------------------------- encoder: shape, value, size *)
Lemma put_fuel_small f x : 0 <= x < 128 -> put_uvarint_fuel (S f) x = [x].
Proof. intros H. cbn [put_uvarint_fuel]. replace (128 <=? x) with false by (symmetry; apply Z.leb_gt; lia). f_equal. lia. Qed.
Lemma put_fuel_big f x : 128 <= x ->
  put_uvarint_fuel (S f) x = (x mod 128 + 128) :: put_uvarint_fuel f (x / 128).
Proof.
  intros H. cbn [put_uvarint_fuel]. replace (128 <=? x) with true by (symmetry; apply Z.leb_le; lia).
  rewrite lor_128 by lia. rewrite shiftr7. f_equal. lia.
Qed.

(* fuel f suffices for x < 128^f *)
Lemma put_fuel_value f x : 0 <= x < 128 ^ Z.of_nat f -> (0 < f)%nat -> groups_value (put_uvarint_fuel f x) = x.
Proof.
  revert x; induction f as [|f IH]; intros x Hx Hf; [lia|].
  destruct (Z_lt_ge_dec x 128) as [L|G].
  - rewrite put_fuel_small by lia. cbn [groups_value]. lia.
  - rewrite put_fuel_big by lia. cbn [groups_value].
    rewrite Nat2Z.inj_succ, Z.pow_succ_r in Hx by lia.
    destruct f as [|f']; [cbn in Hx; lia|].
    rewrite IH by lia. lia.
Qed.

Lemma put_fuel_nonempty f x : (0 < f)%nat -> put_uvarint_fuel f x <> [].
Proof. destruct f; [lia|]. intros _. cbn [put_uvarint_fuel]. destruct (128 <=? x); discriminate. Qed.

Lemma put_fuel_last f x : 0 < x < 128 ^ Z.of_nat f -> (0 < f)%nat -> last (put_uvarint_fuel f x) 0 <> 0.
Proof.
  revert x; induction f as [|f IH]; intros x Hx Hf; [lia|].
  destruct (Z_lt_ge_dec x 128) as [L|G].
  - rewrite put_fuel_small by lia. cbn. lia.
  - rewrite put_fuel_big by lia.
    rewrite Nat2Z.inj_succ, Z.pow_succ_r in Hx by lia.
    destruct f as [|f']; [cbn in Hx; lia|].
    assert (N : put_uvarint_fuel (S f') (x / 128) <> []) by (apply put_fuel_nonempty; lia).
    cbn [last]. destruct (put_uvarint_fuel (S f') (x / 128)) eqn:E; [congruence|].
    rewrite <- E. apply IH; lia.
Qed.

Lemma put_fuel_canonical f x : 0 <= x < 128 ^ Z.of_nat f -> (0 < f)%nat ->
  groups_canonical (put_uvarint_fuel f x) = true.
Proof.
  revert x; induction f as [|f IH]; intros x Hx Hf; [lia|].
  destruct (Z_lt_ge_dec x 128) as [L|G].
  - rewrite put_fuel_small by lia. cbn. apply andb_true_iff; split; [apply Z.leb_le | apply Z.ltb_lt]; lia.
  - rewrite put_fuel_big by lia.
    rewrite Nat2Z.inj_succ, Z.pow_succ_r in Hx by lia.
    destruct f as [|f']; [cbn in Hx; lia|].
    assert (N : put_uvarint_fuel (S f') (x / 128) <> []) by (apply put_fuel_nonempty; lia).
    pose proof (IH (x / 128) ltac:(lia) ltac:(lia)) as C.
    pose proof (put_fuel_last (S f') (x / 128) ltac:(lia) ltac:(lia)) as L.
    cbn [groups_canonical]. destruct (put_uvarint_fuel (S f') (x / 128)) eqn:E; [congruence|].
    rewrite C. apply Z.eqb_neq in L. rewrite L.
    replace (128 <=? x mod 128 + 128) with true by (symmetry; apply Z.leb_le; lia).
    replace (x mod 128 + 128 <? 256) with true by (symmetry; apply Z.ltb_lt; lia). reflexivity.
Qed.

Lemma put_fuel_size f x : 0 <= x -> len (put_uvarint_fuel f x) = uvarint_size_fuel f x.
Proof.
  revert x; induction f as [|f IH]; intros x Hx; [reflexivity|].
  cbn [put_uvarint_fuel uvarint_size_fuel]. destruct (128 <=? x) eqn:E.
  - rewrite len_cons, shiftr7, IH; [reflexivity|]. apply Z.leb_le in E. lia.
  - reflexivity.
Qed.

Lemma put_fuel_wf f x : 0 <= x -> wf_bytes (put_uvarint_fuel f x) = true.
Proof.
  revert x; induction f as [|f IH]; intros x Hx; [reflexivity|].
  cbn [put_uvarint_fuel]. destruct (128 <=? x) eqn:E.
  - apply Z.leb_le in E. rewrite lor_128 by lia. rewrite wf_cons, shiftr7, IH by lia.
    rewrite andb_true_r. apply byte_ok_iff. lia.
  - cbn. rewrite andb_true_r. apply byte_ok_iff. lia.
Qed.

Lemma pow128_10 : 128 ^ Z.of_nat 10 = 1180591620717411303424. Proof. reflexivity. Qed.

Theorem put_uvarint_value x : in_u64 x -> groups_value (put_uvarint x) = x.
Proof. unfold in_u64, two64. intros H. apply put_fuel_value; [rewrite pow128_10|]; lia. Qed.
Theorem put_uvarint_canonical x : in_u64 x -> groups_canonical (put_uvarint x) = true.
Proof. unfold in_u64, two64. intros H. apply put_fuel_canonical; [rewrite pow128_10|]; lia. Qed.
Theorem put_uvarint_size x : in_u64 x -> len (put_uvarint x) = uvarint_size x.
Proof. unfold in_u64. intros H. apply put_fuel_size; lia. Qed.
Theorem put_uvarint_wf x : in_u64 x -> wf_bytes (put_uvarint x) = true.
Proof. unfold in_u64. intros H. apply put_fuel_wf; lia. Qed.

Lemma uvarint_size_fuel_bounds f x : (0 < f)%nat -> 1 <= uvarint_size_fuel f x <= Z.of_nat f.
Proof.
  revert x; induction f as [|f IH]; intros x Hf; [lia|].
  cbn [uvarint_size_fuel]. destruct (128 <=? x); [|lia].
  destruct f as [|f']; [cbn; lia|]. specialize (IH (x / 128) ltac:(lia)). lia.
Qed.
Lemma uvarint_size_bounds x : 1 <= uvarint_size x <= 10.
Proof. apply (uvarint_size_fuel_bounds 10 x). lia. Qed.
Lemma put_uvarint_len_bounds x : in_u64 x -> 1 <= len (put_uvarint x) <= 10.
Proof. intros H. rewrite put_uvarint_size by assumption. apply uvarint_size_bounds. Qed.

(* ---------------------------------------------------------------- decoder inverts encoder *)
Ltac pow2_consts :=
  repeat match goal with
         | |- context [Z.pow 2 ?e] => let v := eval vm_compute in (Z.pow 2 e) in change (Z.pow 2 e) with v
         | H : context [Z.pow 2 ?e] |- _ => let v := eval vm_compute in (Z.pow 2 e) in change (Z.pow 2 e) with v in H
         end.

Lemma i_cases i : 0 <= i <= 9 -> i = 0 \/ i = 1 \/ i = 2 \/ i = 3 \/ i = 4 \/ i = 5 \/ i = 6 \/ i = 7 \/ i = 8 \/ i = 9.
Proof. lia. Qed.

Lemma uvarint_loop_put f x i acc suf :
  0 <= i -> Z.of_nat f + i = 10 -> (0 < f)%nat ->
  0 <= x < 2 ^ (64 - 7 * i) -> 0 <= acc < 2 ^ (7 * i) ->
  uvarint_loop (put_uvarint_fuel f x ++ suf) i acc (7 * i) =
  (acc + x * 2 ^ (7 * i), i + len (put_uvarint_fuel f x)).
Proof.
  revert x i acc; induction f as [|f IH]; intros x i acc Hi Hfi Hf Hx Hacc; [lia|].
  assert (Hi9 : 0 <= i <= 9) by lia.
  destruct (Z_lt_ge_dec x 128) as [L|G].
  - rewrite put_fuel_small by lia. cbn [app uvarint_loop].
    replace (i =? 10) with false by (symmetry; apply Z.eqb_neq; lia).
    replace (x <? 128) with true by (symmetry; apply Z.ltb_lt; lia).
    assert (E9 : (i =? 9) && (1 <? x) = false).
    { destruct (Z.eqb_spec i 9) as [->|]; [|reflexivity]. cbn [andb]. apply Z.ltb_ge.
      change (64 - 7 * 9) with 1 in Hx. change (2 ^ 1) with 2 in Hx. lia. }
    rewrite E9. rewrite lor_disjoint by lia. rewrite len_cons, len_nil.
    f_equal; try lia. unfold u64. apply Z.mod_small.
    destruct (i_cases i Hi9) as [->|[->|[->|[->|[->|[->|[->|[->|[->| ->]]]]]]]]]; pow2_consts; unfold two64; lia.
  - rewrite put_fuel_big by lia. cbn [app uvarint_loop].
    replace (i =? 10) with false by (symmetry; apply Z.eqb_neq; lia).
    replace (x mod 128 + 128 <? 128) with false by (symmetry; apply Z.ltb_ge; lia).
    rewrite land_127 by lia. replace ((x mod 128 + 128) mod 128) with (x mod 128) by lia.
    rewrite lor_disjoint by lia.
    assert (Hi8 : i <= 8).
    { destruct (Z.eq_dec i 9) as [->|]; [|lia]. change (64 - 7 * 9) with 1 in Hx. change (2 ^ 1) with 2 in Hx. lia. }
    assert (Hsmall : 0 <= acc + x mod 128 * 2 ^ (7 * i) < 2 ^ (7 * (i + 1)) /\ 2 ^ (7 * (i + 1)) <= two64
                     /\ x / 128 < 2 ^ (64 - 7 * (i + 1)) /\ 2 ^ (7 * (i + 1)) = 128 * 2 ^ (7 * i)).
    { assert (Hc : i = 0 \/ i = 1 \/ i = 2 \/ i = 3 \/ i = 4 \/ i = 5 \/ i = 6 \/ i = 7 \/ i = 8) by lia.
      destruct Hc as [->|[->|[->|[->|[->|[->|[->|[->| ->]]]]]]]]; pow2_consts; unfold two64; lia. }
    destruct Hsmall as (Ha & Hb & Hc & Hd).
    unfold u64. rewrite (Z.mod_small (acc + x mod 128 * 2 ^ (7 * i)) two64) by lia.
    replace (7 * i + 7) with (7 * (i + 1)) by lia.
    destruct f as [|f']; [lia|].
    rewrite IH by lia. rewrite len_cons. f_equal; [|lia]. rewrite Hd. lia.
Qed.

Theorem uvarint_put x suf : in_u64 x -> uvarint (put_uvarint x ++ suf) = (x, len (put_uvarint x)).
Proof.
  unfold in_u64, two64. intros H. unfold uvarint, put_uvarint.
  pose proof (uvarint_loop_put 10 x 0 0 suf) as L. change (7 * 0) with 0 in L.
  rewrite L by (try lia; pow2_consts; lia). f_equal; lia.
Qed.

(* ---------------------------------------------------------------- zig-zag *)
Lemma zigzag_go_eq x : in_i64 x -> zigzag_go x = zigzag x.
Proof.
  unfold in_i64, zigzag_go, zigzag, u64, two64, two63. intros H.
  rewrite Z.shiftl_mul_pow2 by lia. change (2 ^ 1) with 2.
  destruct (x <? 0) eqn:E1; destruct (0 <=? x) eqn:E2;
    try apply Z.ltb_lt in E1; try apply Z.ltb_ge in E1; try apply Z.leb_le in E2; try apply Z.leb_gt in E2; lia.
Qed.
Lemma zigzag_range x : in_i64 x -> in_u64 (zigzag x).
Proof. unfold in_i64, in_u64, zigzag, two64, two63. intros H. destruct (0 <=? x) eqn:E; [apply Z.leb_le in E | apply Z.leb_gt in E]; lia. Qed.

Lemma unzigzag_go_zigzag x : in_i64 x -> unzigzag_go (zigzag x) = x.
Proof.
  unfold in_i64, unzigzag_go, zigzag, two63. intros H. rewrite Z.shiftr_div_pow2 by lia. change (2 ^ 1) with 2.
  destruct (0 <=? x) eqn:E; [apply Z.leb_le in E | apply Z.leb_gt in E].
  - replace (Z.odd (2 * x)) with false by (symmetry; rewrite Z.odd_mul; reflexivity).
    rewrite i64_id by (unfold in_i64, two63; lia). lia.
  - replace (Z.odd (-2 * x - 1)) with true
      by (symmetry; replace (-2 * x - 1) with (1 + 2 * (- x - 1)) by lia; rewrite Z.odd_add_mul_2; reflexivity).
    rewrite i64_id by (unfold in_i64, two63; lia). unfold Z.lnot. lia.
Qed.
Lemma unzigzag_zigzag x : unzigzag (zigzag x) = x.
Proof.
  unfold unzigzag, zigzag. destruct (0 <=? x) eqn:E; [apply Z.leb_le in E | apply Z.leb_gt in E].
  - replace (Z.even (2 * x)) with true by (symmetry; rewrite Z.even_mul; reflexivity). lia.
  - replace (Z.even (-2 * x - 1)) with false
      by (symmetry; replace (-2 * x - 1) with (1 + 2 * (- x - 1)) by lia; rewrite Z.even_add_mul_2; reflexivity).
    lia.
Qed.

Theorem varint_put x suf : in_i64 x -> varint (put_varint x ++ suf) = (x, len (put_varint x)).
Proof.
  intros H. unfold varint, put_varint. rewrite zigzag_go_eq by assumption.
  rewrite uvarint_put by (now apply zigzag_range). now rewrite unzigzag_go_zigzag.
Qed.
Theorem put_varint_size x : in_i64 x -> len (put_varint x) = varint_size x.
Proof. intros H. unfold put_varint, varint_size. rewrite zigzag_go_eq by assumption. apply put_uvarint_size. now apply zigzag_range. Qed.
Theorem put_varint_wf x : in_i64 x -> wf_bytes (put_varint x) = true.
Proof. intros H. unfold put_varint. rewrite zigzag_go_eq by assumption. apply put_uvarint_wf. now apply zigzag_range. Qed.
Lemma put_varint_len_bounds x : in_i64 x -> 1 <= len (put_varint x) <= 10.
Proof. intros H. unfold put_varint. rewrite zigzag_go_eq by assumption. apply put_uvarint_len_bounds. now apply zigzag_range. Qed.
(* without a range hypothesis (the wrap of zigzag_go keeps the argument of PutUvarint in range) *)
Lemma zigzag_go_range x : in_u64 (zigzag_go x).
Proof.
  unfold in_u64, zigzag_go, u64, two64. destruct (x <? 0); lia.
Qed.
Lemma put_varint_len_bounds' x : 1 <= len (put_varint x) <= 10.
Proof. apply put_uvarint_len_bounds, zigzag_go_range. Qed.

(* ---------------------------------------------------------------- decoder: bounds for arbitrary input *)
(* n > 0: n bytes consumed, n <= len buf, n <= 10;  n = 0: buffer exhausted;  n < 0: overflow after -n bytes, -n <= len buf *)
Lemma uvarint_loop_bounds buf i x s : 0 <= i <= 10 -> 0 <= x < two64 ->
  let '(v, n) := uvarint_loop buf i x s in
  0 <= v < two64 /\ (n = 0 \/ (i < n <= i + len buf /\ n <= 10) \/ (i < - n <= i + len buf /\ - n <= 11)).
Proof.
  revert i x s; induction buf as [|b r IH]; intros i x s Hi Hx; cbn [uvarint_loop].
  - unfold two64. split; [lia|]. now left.
  - destruct (i =? 10) eqn:E10.
    + apply Z.eqb_eq in E10. subst. rewrite len_cons. pose proof (len_nonneg r). unfold two64. split; [lia|]. right; right. lia.
    + apply Z.eqb_neq in E10. destruct (b <? 128) eqn:Eb.
      * destruct ((i =? 9) && (1 <? b)) eqn:E9.
        -- apply andb_true_iff in E9 as [E9 _]. apply Z.eqb_eq in E9. subst.
           rewrite len_cons. pose proof (len_nonneg r). unfold two64. split; [lia|]. right; right. lia.
        -- rewrite len_cons. pose proof (len_nonneg r). unfold u64, two64. split; [lia|].
           right; left. lia.
      * specialize (IH (i + 1) (u64 (Z.lor x (Z.shiftl (Z.land b 127) s))) (s + 7) ltac:(lia) ltac:(unfold u64, two64; lia)).
        destruct (uvarint_loop r (i + 1) _ (s + 7)) as [v n]. rewrite len_cons.
        destruct IH as (Hv & Hn). split; [assumption|]. lia.
Qed.

Lemma uvarint_bounds buf :
  let '(v, n) := uvarint buf in
  in_u64 v /\ (n = 0 \/ (0 < n <= len buf /\ n <= 10) \/ (0 < - n <= len buf)).
Proof.
  unfold uvarint. pose proof (uvarint_loop_bounds buf 0 0 0 ltac:(lia) ltac:(unfold two64; lia)) as H.
  destruct (uvarint_loop buf 0 0 0) as [v n]. unfold in_u64. destruct H as (Hv & Hn). split; [assumption|]. lia.
Qed.
Lemma unzigzag_go_range ux : in_u64 ux -> in_i64 (unzigzag_go ux).
Proof.
  unfold in_u64, in_i64, unzigzag_go, two64, two63. intros H. rewrite Z.shiftr_div_pow2 by lia. change (2 ^ 1) with 2.
  rewrite i64_id by (unfold in_i64, two63; lia). destruct (Z.odd ux); unfold Z.lnot; lia.
Qed.
Lemma varint_bounds buf :
  let '(v, n) := varint buf in
  in_i64 v /\ (n = 0 \/ (0 < n <= len buf /\ n <= 10) \/ (0 < - n <= len buf)).
Proof.
  unfold varint. pose proof (uvarint_bounds buf) as H. destruct (uvarint buf) as [ux n].
  destruct H as (Hv & Hn). split; [now apply unzigzag_go_range | assumption].
Qed.

(* ---------------------------------------------------------------- the specification, assembled *)
Theorem uvarint_spec x : in_u64 x ->
  groups_canonical (put_uvarint x) = true /\ groups_value (put_uvarint x) = x /\
  len (put_uvarint x) = uvarint_size x /\ wf_bytes (put_uvarint x) = true /\
  forall suf, uvarint (put_uvarint x ++ suf) = (x, len (put_uvarint x)).
Proof.
  intros H. repeat split.
  - now apply put_uvarint_canonical.
  - now apply put_uvarint_value.
  - now apply put_uvarint_size.
  - now apply put_uvarint_wf.
  - intros suf. now apply uvarint_put.
Qed.
Theorem varint_spec x : in_i64 x ->
  put_varint x = put_uvarint (zigzag x) /\ unzigzag (zigzag x) = x /\
  groups_canonical (put_varint x) = true /\ groups_value (put_varint x) = zigzag x /\
  len (put_varint x) = varint_size x /\ wf_bytes (put_varint x) = true /\
  forall suf, varint (put_varint x ++ suf) = (x, len (put_varint x)).
Proof.
  intros H. assert (E : put_varint x = put_uvarint (zigzag x)) by (unfold put_varint; now rewrite zigzag_go_eq).
  pose proof (zigzag_range x H) as R. repeat split.
  - exact E.
  - apply unzigzag_zigzag.
  - rewrite E. now apply put_uvarint_canonical.
  - rewrite E. now apply put_uvarint_value.
  - now apply put_varint_size.
  - now apply put_varint_wf.
  - intros suf. now apply varint_put.
Qed.
(* sizes as the protocol tabulates them: 1 byte below 2^7, 2 below 2^14, ..., 10 for the top of the 64-bit range *)
Example uvarint_size_steps :
  map uvarint_size [0; 127; 128; 16383; 16384; 2097151; 2097152; two63; two64 - 1] = [1; 1; 2; 2; 3; 3; 4; 10; 10].
Proof. vm_compute. reflexivity. Qed.
Example varint_examples :
  map put_varint [0; -1; 1; -2; 63; -64; 64; 300; - two63; two63 - 1] =
  [[0]; [1]; [2]; [3]; [126]; [127]; [128; 1]; [216; 4];
   [255; 255; 255; 255; 255; 255; 255; 255; 255; 1]; [254; 255; 255; 255; 255; 255; 255; 255; 255; 1]].
Proof. vm_compute. reflexivity. Qed.
