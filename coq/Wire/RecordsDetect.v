(* Wire/RecordsDetect.v — what a successful decode of a record batch / a legacy message block has verified:
   the CRC field equals the CRC-32C (CRC-32) of exactly the bytes after it up to the end of the batch (message),
   the length field equals the number of bytes consumed.  (No claim about CRC collisions.) *)
From Coq Require Import List ZArith Bool Lia.
From SV Require Import Base.Corr Wire.Bytes Wire.BytesProofs Wire.Varint Wire.VarintProofs Wire.Crc Wire.CrcProofs
  Wire.Prim Wire.PushPop Wire.CorrPrim Wire.SafetyProofs Wire.Records Wire.RecordsSafety.
Import ListNotations.
Open Scope Z_scope.

Ltac Zify.zify_post_hook ::= Z.div_mod_to_equations.

(* ---------------------------------------------------------------- inversion of successful getters *)
Lemma get_fixed_inv n conv d v d1 : get_fixed n conv d = Ok v d1 ->
  d1 = adv d n /\ exists bs, read d n = Some bs /\ v = conv (ube bs).
Proof.
  unfold get_fixed. destruct (remaining d <? n); [discriminate|]. destruct (read d n) as [bs|]; [|discriminate].
  intros [= <- <-]. split; [reflexivity | eauto].
Qed.
Lemma ts_decode_inv d v d1 : ts_decode d = Ok v d1 -> d1 = adv d 8.
Proof.
  unfold ts_decode. destruct (get_int64 d) as [m d2|? ?|?|?] eqn:E; cbn [bind]; try discriminate.
  apply get_fixed_inv in E as (-> & _). now intros [= _ <-].
Qed.
Lemma get_array_length_inv d n d1 : get_array_length d = Ok n d1 -> d1 = adv d 4.
Proof.
  unfold get_array_length. destruct (remaining d <? 4); [discriminate|]. destruct (read d 4); [|discriminate].
  destruct (remaining (adv d 4) <? i32 (ube l)); [discriminate|]. destruct (_ || _); [discriminate|]. now intros [= _ <-].
Qed.
Lemma push_crc_inv p d u d1 : push_dec (KCrc p) d = Ok u d1 -> d1 = adv (set_stack d (DCrc p (off d) :: stack d)) 4.
Proof. cbn [push_dec]. destruct (remaining d <? 4); [discriminate|]. now intros [= _ <-]. Qed.
Lemma push_len_inv d u d1 : push_dec KLen d = Ok u d1 ->
  exists l bs, read d 4 = Some bs /\ l = i32 (ube bs) /\ d1 = set_stack (adv d 4) (DLen (off d) l :: stack d).
Proof.
  cbn [push_dec]. destruct (get_int32 d) as [l d2|? ?|?|?] eqn:E; cbn [bind]; try discriminate.
  apply get_fixed_inv in E as (-> & bs & Hr & ->). destruct (_ <? _); [discriminate|]. intros [= _ <-]. eauto.
Qed.

Lemma slice_firstn l a n tl : slice l a (len l) = Some tl -> 0 <= n <= len tl ->
  slice l a (a + n) = Some (firstn (Z.to_nat n) tl).
Proof.
  intros H Hn. pose proof (slice_some _ _ _ _ H) as (H1 & H2 & H3 & H4).
  unfold slice in *. destruct ((0 <=? a) && (a <=? len l) && (len l <=? len l)); [|discriminate]. injection H as <-.
  replace ((0 <=? a) && (a <=? a + n) && (a + n <=? len l)) with true
    by (symmetry; rewrite !andb_true_iff, !Z.leb_le; lia).
  f_equal. replace (a + n - a) with n by lia. rewrite firstn_firstn. f_equal. lia.
Qed.

(* ---------------------------------------------------------------- RecordBatch *)
Section Codec.
Variable decompress : Z -> list Z -> option (list Z).

Theorem batch_detects d b d' : batch_decode decompress d = Ok b d' -> b_partial b = false ->
  exists bl blb stored cov,
    slice (raw d) (off d + 8) (off d + 12) = Some blb /\ bl = i32 (ube blb) /\        (* the batch length field *)
    slice (raw d) (off d + 17) (off d + 21) = Some stored /\                           (* the CRC field *)
    slice (raw d) (off d + 21) (off d + 12 + bl) = Some cov /\                         (* everything after it, to the end of the batch *)
    crc32 Castagnoli cov = ube stored /\
    off d' = off d + 12 + bl /\ raw d' = raw d.
Proof.
  unfold batch_decode. intros H Hp.
  destruct (get_int64 d) as [fo d1|? ?|?|?] eqn:E1; cbn [bind] in H; try discriminate.
  apply get_fixed_inv in E1 as (-> & _).
  destruct (get_int32 (adv d 8)) as [bl d2|? ?|?|?] eqn:E2; cbn [bind] in H; try discriminate.
  apply get_fixed_inv in E2 as (-> & blb & Hblb & ->).
  destruct (get_int32 (adv (adv d 8) 4)) as [ep d3|? ?|?|?] eqn:E3; cbn [bind] in H; try discriminate.
  apply get_fixed_inv in E3 as (-> & _).
  destruct (get_int8 (adv (adv (adv d 8) 4) 4)) as [ver d4|? ?|?|?] eqn:E4; cbn [bind] in H; try discriminate.
  apply get_fixed_inv in E4 as (-> & _).
  destruct (push_dec (KCrc Castagnoli) _) as [u d5|? ?|?|?] eqn:E5; cbn [bind] in H; try discriminate.
  apply push_crc_inv in E5. subst d5.
  match type of H with context [get_int16 ?x] => set (s0 := x) in * end.
  destruct (get_int16 s0) as [attrs d6|? ?|?|?] eqn:E6; cbn [bind] in H; try discriminate.
  apply get_fixed_inv in E6 as (-> & _).
  destruct (get_int32 (adv s0 2)) as [lod d7|? ?|?|?] eqn:E7; cbn [bind] in H; try discriminate.
  apply get_fixed_inv in E7 as (-> & _).
  destruct (ts_decode _) as [t1 d8|? ?|?|?] eqn:E8; cbn [bind] in H; try discriminate.
  apply ts_decode_inv in E8. subst d8.
  destruct (ts_decode _) as [t2 d9|? ?|?|?] eqn:E9; cbn [bind] in H; try discriminate.
  apply ts_decode_inv in E9. subst d9.
  destruct (get_int64 _) as [pid d10|? ?|?|?] eqn:E10; cbn [bind] in H; try discriminate.
  apply get_fixed_inv in E10 as (-> & _).
  destruct (get_int16 _) as [pep d11|? ?|?|?] eqn:E11; cbn [bind] in H; try discriminate.
  apply get_fixed_inv in E11 as (-> & _).
  destruct (get_int32 _) as [fs d12|? ?|?|?] eqn:E12; cbn [bind] in H; try discriminate.
  apply get_fixed_inv in E12 as (-> & _).
  destruct (get_int32 _) as [nr d13|? ?|?|?] eqn:E13; cbn [bind] in H; try discriminate.
  apply get_fixed_inv in E13 as (-> & _).
  match type of H with context [get_raw_bytes ?n ?x] => set (da := x) in *; set (nb := n) in * end.
  assert (Hda : raw da = raw d /\ off da = off d + 61 /\ stack da = DCrc Castagnoli (off d + 17) :: stack d).
  { unfold da, s0. psimpl; repeat split; try reflexivity; try lia; f_equal; f_equal; lia. }
  destruct Hda as (Ra & Oa & Sa).
  destruct (get_raw_bytes nb da) as [rb d14|e d14|?|?] eqn:E14.
  2:{ destruct e; try discriminate. injection H as <- _. discriminate. }
  2: discriminate. 2: discriminate.
  apply get_raw_bytes_post in E14 as (Lrb & Nrb & ->).
  destruct (pop_dec (adv da nb)) as [u2 d15|? ?|?|?] eqn:E15; cbn [bind] in H; try discriminate.
  apply pop_detects in E15 as (f & s & Hst & -> & Hf).
  cbn [stack adv set_off] in Hst. rewrite Sa in Hst. injection Hst as <- <-.
  cbn [field_holds] in Hf. destruct Hf as (cov & tl & Hc & Ht & Hl & Hcrc).
  cbn [raw off adv set_off] in Hc, Ht. rewrite Ra, Oa in *.
  assert (Hfinal : off d' = off d + 61 + nb /\ raw d' = raw d).
  { destruct (decompress_m decompress (Z.land (i8 attrs) 7) rb); [|discriminate].
    destruct ((nr <? -1) || (len l <? nr)); [discriminate|].
    unfold sub_decode in H.
    destruct (records_decode _ _) as [recs dn|e dn|?|?]; try discriminate.
    - destruct (off dn =? len l); [|discriminate]. injection H as _ <-. destruct (0 <=? nr); unfold set_mem; psimpl; rewrite Ra, Oa; split; lia || reflexivity.
    - destruct e; try discriminate. injection H as <- _. discriminate. }
  destruct Hfinal as (Ho & Hr).
  exists (i32 (ube blb)), blb, (firstn 4 tl), cov.
  unfold read in Hblb. cbn [raw off adv set_off] in Hblb.
  unfold nb, RECORD_BATCH_OVERHEAD in *.
  repeat split.
  - replace (off d + 12) with (off d + 8 + 4) by lia. exact Hblb.
  - replace (off d + 21) with (off d + 17 + 4) by lia. apply (slice_firstn _ _ 4 _ Ht). lia.
  - replace (off d + 12 + i32 (ube blb)) with (off d + 61 + (i32 (ube blb) - 49)) by lia.
    replace (off d + 21) with (off d + 17 + 4) by lia. exact Hc.
  - exact Hcrc.
  - lia.
  - exact Hr.
Qed.

(* ---------------------------------------------------------------- legacy message block *)
Theorem block_detects nested d o m d' : fst (block_decode_with (message_decode_with decompress nested) d) = Ok (o, m) d' ->
  (forall buf d0, match nested buf d0 with Ok _ dz | Err _ dz => raw dz = raw d0 /\ off dz = off d0 /\ stack dz = stack d0 | _ => True end) ->
  exists ml mlb stored cov,
    slice (raw d) (off d + 8) (off d + 12) = Some mlb /\ ml = i32 (ube mlb) /\          (* the message length field *)
    slice (raw d) (off d + 12) (off d + 16) = Some stored /\                             (* the CRC field *)
    slice (raw d) (off d + 16) (off d') = Some cov /\                                    (* magic byte .. end of the value *)
    crc32 IEEE cov = ube stored /\
    ml = i32 (off d' - (off d + 12)) /\ raw d' = raw d.
Proof.
  unfold block_decode_with. intros H Hn.
  destruct (get_int64 d) as [o1 d1|? ?|?|?] eqn:E1; cbn [fst] in H; try discriminate.
  apply get_fixed_inv in E1 as (-> & _).
  destruct (push_dec KLen (adv d 8)) as [u d2|? ?|?|?] eqn:E2; cbn [bind] in H; try discriminate.
  apply push_len_inv in E2 as (ml & mlb & Hmlb & -> & ->).
  set (s0 := set_stack (adv (adv d 8) 4) (DLen (off (adv d 8)) (i32 (ube mlb)) :: stack (adv d 8))) in *.
  destruct (message_decode_with decompress nested s0) as [m1 d3|? ?|?|?] eqn:E3; cbn [bind] in H; try discriminate.
  destruct (pop_dec d3) as [u2 d4|? ?|?|?] eqn:E4; cbn [bind] in H; try discriminate.
  injection H as <- <- <-.
  (* inside the message: CRC push, fields, pop *)
  unfold message_decode_with in E3.
  destruct (push_dec (KCrc IEEE) s0) as [u3 c1|? ?|?|?] eqn:C1; cbn [bind] in E3; try discriminate.
  apply push_crc_inv in C1. subst c1.
  set (c1 := adv (set_stack s0 (DCrc IEEE (off s0) :: stack s0)) 4) in *.
  assert (Hc1 : raw c1 = raw d /\ off c1 = off d + 16 /\ stack c1 = DCrc IEEE (off d + 12) :: DLen (off d + 8) (i32 (ube mlb)) :: stack d).
  { unfold c1, s0. psimpl. repeat split; try reflexivity; try lia. replace (off d + 8 + 4) with (off d + 12) by lia. reflexivity. }
  destruct Hc1 as (Rc & Oc & Sc).
  (* every step up to the pop keeps raw and stack and moves the offset forward: summarised by [keeps] *)
  set (keeps := fun (x y : dec) => raw y = raw x /\ stack y = stack x /\ off x <= off y).
  assert (Kfixed : forall n conv x v y, 0 <= n -> get_fixed n conv x = Ok v y -> keeps x y).
  { intros n conv x v y Hn0 E. apply get_fixed_inv in E as (-> & _). unfold keeps. cbn. repeat split; lia. }
  assert (Kraw : forall n x v y, get_raw_bytes n x = Ok v y -> keeps x y).
  { intros n x v y E. apply get_raw_bytes_post in E as (_ & ? & ->). unfold keeps. cbn. repeat split; lia. }
  assert (Kbytes : forall x v y, get_bytes x = Ok v y -> keeps x y).
  { intros x v y E. unfold get_bytes in E. destruct (get_int32 x) as [t x1|? ?|?|?] eqn:Ea; cbn [bind] in E; try discriminate.
    apply (Kfixed 4 i32) in Ea; [|lia]. destruct (t =? -1); [injection E as _ <-; exact Ea|].
    destruct (get_raw_bytes t x1) as [bs x2|? ?|?|?] eqn:Eb; cbn [bind] in E; try discriminate.
    apply Kraw in Eb. injection E as _ <-. unfold keeps in *. destruct Ea as (a1 & a2 & a3), Eb as (b1 & b2 & b3). repeat split; try congruence; lia. }
  assert (Ktrans : forall x y z, keeps x y -> keeps y z -> keeps x z).
  { unfold keeps. intros x y z (a1 & a2 & a3) (b1 & b2 & b3). repeat split; try congruence; lia. }
  (* run the message decoder *)
  destruct (get_int8 c1) as [ver c2|? ?|?|?] eqn:C2; cbn [bind] in E3; try discriminate.
  apply (Kfixed 1 i8) in C2; [|lia].
  destruct (1 <? ver); [discriminate|].
  destruct (get_int8 c2) as [attr c3|? ?|?|?] eqn:C3; cbn [bind] in E3; try discriminate.
  apply (Kfixed 1 i8) in C3; [|lia].
  assert (K4 : exists ts c4, (if ver =? 1 then ts_decode c3 else Ok ZERO_TIME c3) = Ok ts c4 /\ keeps c3 c4).
  { destruct (ver =? 1).
    - destruct (ts_decode c3) as [ts c4|? ?|?|?] eqn:C4; cbn [bind] in E3; try discriminate.
      exists ts, c4. split; [reflexivity|]. apply ts_decode_inv in C4. subst c4. unfold keeps. cbn. repeat split; lia.
    - exists ZERO_TIME, c3. split; [reflexivity|]. unfold keeps. repeat split; lia. }
  destruct K4 as (ts & c4 & C4 & K4). rewrite C4 in E3. cbn [bind] in E3.
  destruct (get_bytes c4) as [key c5|? ?|?|?] eqn:C5; cbn [bind] in E3; try discriminate.
  apply Kbytes in C5.
  destruct (get_bytes c5) as [value c6|? ?|?|?] eqn:C6; cbn [bind] in E3; try discriminate.
  apply Kbytes in C6.
  pose proof (Ktrans _ _ _ (Ktrans _ _ _ (Ktrans _ _ _ (Ktrans _ _ _ C2 C3) K4) C5) C6) as K16.
  (* the state at the message's pop: c6 up to the nested decoder, which does not touch it *)
  assert (POP : exists cz, keeps c1 cz /\ exists u5, pop_dec cz = Ok u5 d3).
  { destruct value as [v|].
    - destruct (Z.land attr 7 =? 0).
      + destruct (pop_dec c6) as [u5 c7|? ?|?|?] eqn:C7; cbn [bind] in E3; try discriminate.
        injection E3 as _ <-. exists c6. split; [exact K16 | eauto].
      + destruct (decompress_m decompress (Z.land attr 7) v) as [dv|]; [|discriminate].
        specialize (Hn dv c6). destruct (nested dv c6) as [sx cx|? ?|?|?] eqn:Nx; cbn [bind] in E3; try discriminate.
        destruct (pop_dec cx) as [u5 c7|? ?|?|?] eqn:C7; cbn [bind] in E3; try discriminate.
        injection E3 as _ <-. exists cx. split; [|eauto].
        destruct Hn as (n1 & n2 & n3). destruct K16 as (k1 & k2 & k3). unfold keeps. repeat split; try congruence; lia.
    - destruct (pop_dec c6) as [u5 c7|? ?|?|?] eqn:C7; cbn [bind] in E3; try discriminate.
      injection E3 as _ <-. exists c6. split; [exact K16 | eauto]. }
  destruct POP as (cz & (Kz1 & Kz2 & Kz3) & u5 & Pz).
  apply pop_detects in Pz as (f & s & Hst & -> & Hf).
  rewrite Kz2, Sc in Hst. injection Hst as <- <-.
  cbn [field_holds] in Hf. destruct Hf as (cov & tl & Hc & Ht & Hl & Hcrc). rewrite Kz1, Rc in Hc, Ht.
  (* the block's pop: the length field *)
  apply pop_detects in E4 as (f2 & s2 & Hst2 & -> & Hf2).
  cbn [stack set_stack] in Hst2. injection Hst2 as <- <-.
  cbn [field_holds off set_stack] in Hf2.
  exists (i32 (ube mlb)), mlb, (firstn 4 tl), cov.
  unfold read in Hmlb. cbn [raw off adv set_off] in Hmlb. cbn [off raw set_stack].
  repeat split.
  - replace (off d + 12) with (off d + 8 + 4) by lia. exact Hmlb.
  - replace (off d + 16) with (off d + 12 + 4) by lia. apply (slice_firstn _ _ 4 _ Ht). lia.
  - replace (off d + 16) with (off d + 12 + 4) by lia. exact Hc.
  - exact Hcrc.
  - rewrite Hf2. f_equal. lia.
  - congruence.
Qed.
End Codec.
