(* Wire/FetchProofs.v — C09 for FetchResponseBlock (fetch_response.go), every version: a partition block whose records
   section is a sequence of record batches (each with at least one record: decode drops empty ones) decodes back —
   header fields per version, aborted transactions, the batches in order, the deprecated Records field = the first
   element of RecordsSet — and re-encoding the decoded block writes identical bytes. *)
From Coq Require Import List ZArith Bool Lia.
From SV Require Import Base.Corr Wire.Bytes Wire.BytesProofs Wire.Varint Wire.VarintProofs Wire.Crc Wire.CrcProofs
  Wire.Prim Wire.PushPop Wire.CorrPrim Wire.PrimProofs Wire.PrimThms Wire.SafetyProofs Wire.Records Wire.RecordsProofs
  Wire.BatchProofs.
Import ListNotations.
Open Scope Z_scope.

Ltac Zify.zify_post_hook ::= Z.div_mod_to_equations.

Lemma spec_bytes_eapp a b : spec_bytes (eapp a b) =
  match spec_bytes a, spec_bytes b with inl e, _ => inl e | _, inl e => inl e | inr x, inr y => inr (x ++ y) end.
Proof.
  induction a as [|p r IH|k body _ r IH]; cbn [eapp].
  - cbn [spec_bytes app]. destruct (spec_bytes b); reflexivity.
  - rewrite !spec_bytes_cons, IH. destruct (real_prim p), (spec_bytes r), (spec_bytes b); try reflexivity. now rewrite app_assoc.
  - rewrite !spec_bytes_frame, IH. destruct (spec_bytes body), (spec_bytes r), (spec_bytes b); try reflexivity.
    now rewrite <- !app_assoc.
Qed.

Lemma pb_int16 v : pb (PInt16 v) = be 2 v. Proof. reflexivity. Qed.
Lemma pb_int32 v : pb (PInt32 v) = be 4 v. Proof. reflexivity. Qed.
Lemma pb_int64 v : pb (PInt64 v) = be 8 v. Proof. reflexivity. Qed.
Lemma pb_arraylen v : pb (PArrayLength v) = be 4 v. Proof. reflexivity. Qed.
Ltac pbs := rewrite ?pb_int16, ?pb_int32, ?pb_int64, ?pb_arraylen.
Ltac pbs_in H := rewrite ?pb_int16, ?pb_int32, ?pb_int64, ?pb_arraylen in H.

(* aborted transactions *)
Lemma aborted_total l : Forall total (aborted_prims l).
Proof. induction l as [|[p o] r IH]; cbn [aborted_prims]; repeat constructor; auto with total. Qed.
Lemma aborted_len l : len (pbytes (aborted_prims l)) = 16 * len l.
Proof.
  induction l as [|[p o] r IH]; cbn [aborted_prims pbytes]; [reflexivity|]. unfold pb at 1 2. cbn [real_prim].
  rewrite !len_app, !len_be, IH, len_cons. lia.
Qed.
Lemma aborted_rt l d rest : Forall (fun po => in_i64 (fst po) /\ in_i64 (snd po)) l ->
  at_ d (pbytes (aborted_prims l) ++ rest) ->
  okm (aborted_decode (length l) d) l d (16 * len l) 0.
Proof.
  revert d; induction l as [|[p o] r IH]; intros d Hok Hat.
  - cbn [length aborted_decode]. eexists; split; [reflexivity | apply moved_refl].
  - inversion Hok as [|? ? (Hp & Ho) Hr]; subst. cbn [fst snd] in *. cbn [length aborted_decode aborted_prims pbytes] in *.
    unfold pb at 1 2 in Hat. cbn [real_prim] in Hat. rewrite <- !app_assoc in Hat.
    pose proof (get_int64_rt p d _ Hp Hat) as G. step G.
    assert (Hat1 : at_ d1 (be 8 o ++ pbytes (aborted_prims r) ++ rest)) by (eapply at_moved; [exact Hat | rewrite len_be; exact M]).
    pose proof (get_int64_rt o d1 _ Ho Hat1) as G. step G.
    assert (Hat2 : at_ d0 (pbytes (aborted_prims r) ++ rest)) by (eapply at_moved; [exact Hat1 | rewrite len_be; exact M0]).
    pose proof (IH d0 Hr Hat2) as G. step G.
    eexists; split; [reflexivity|]. rewrite len_cons.
    eapply moved_eq; [eapply moved_trans; [exact M | eapply moved_trans; [exact M0 | exact M1]] | lia | lia].
Qed.

Section Codec.
Variable compress : Z -> list Z -> option (list Z).
Variable decompress : Z -> list Z -> option (list Z).
Hypothesis codec_inverse : forall c x y, compress c x = Some y -> decompress c y = Some x.

(* a batch FetchResponseBlock.decode keeps: at least one record *)
Definition fbatch_ok (b : batch) : Prop := batch_ok b /\ 0 < len (olist (b_records b)).

(* ---------------------------------------------------------------- the records section: a sequence of batches *)
Lemma set_ops_batches bs so sb : set_ops compress (map RDefault bs) = inr so -> spec_bytes so = inr sb ->
  match bs with
  | [] => sb = []
  | b :: t => exists bo bb to tb, batch_ops compress b = inr bo /\ spec_bytes bo = inr bb /\
                                  set_ops compress (map RDefault t) = inr to /\ spec_bytes to = inr tb /\ sb = bb ++ tb
  end.
Proof.
  destruct bs as [|b t]; cbn [map set_ops records_ops_top].
  - intros H Hs. apply inr_inj in H. subst so. cbn in Hs. now apply inr_inj in Hs.
  - destruct (batch_ops compress b) as [e|bo] eqn:E1; [discriminate|]. destruct (set_ops compress (map RDefault t)) as [e|to] eqn:E2; [discriminate|].
    intros H Hs. apply inr_inj in H. subst so. rewrite spec_bytes_eapp in Hs.
    destruct (spec_bytes bo) as [e|bb] eqn:E3; [discriminate|]. destruct (spec_bytes to) as [e|tb] eqn:E4; [discriminate|].
    apply inr_inj in Hs. exists bo, bb, to, tb. repeat split; try reflexivity; try assumption. now symmetry.
Qed.

Lemma fset_loop_batches depth bs : forall fuel d alias acc so sb,
  Forall fbatch_ok bs -> (length bs < fuel)%nat ->
  set_ops compress (map RDefault bs) = inr so -> spec_bytes so = inr sb ->
  at_ d (sb ++ []) -> remaining d = len sb -> len (raw d) < MAXLEN ->
  exists d', fset_loop decompress depth fuel d alias acc =
             Ok (match alias with None => hd_error (map (fun b => RDefault (norm_batch b)) bs) | a => a end,
                 acc ++ map (fun b => RDefault (norm_batch b)) bs, false) d' /\
             raw d' = raw d /\ off d' = off d + len sb.
Proof.
  induction bs as [|b t IH]; intros fuel d alias acc so sb Hok Hfuel Hso Hsb Hat Hrem Hraw.
  - pose proof (set_ops_batches [] so sb Hso Hsb) as ->. destruct fuel as [|fuel]; [cbn in Hfuel; lia|]. cbn [fset_loop].
    change (len (@nil Z)) with 0 in *. rewrite Hrem. cbn [Z.leb Z.compare map hd_error].
    exists d. rewrite app_nil_r. repeat split; [destruct alias; reflexivity | lia].
  - inversion Hok as [|? ? (Hb & Hn) Ht]; subst.
    destruct (set_ops_batches (b :: t) so sb Hso Hsb) as (bo & bb & to & tb & Ebo & Ebb & Eto & Etb & ->).
    destruct fuel as [|fuel]; [cbn in Hfuel; lia|]. cbn [length] in Hfuel. cbn [fset_loop].
    rewrite app_nil_r in Hat.
    destruct (top_roundtrip_batch compress decompress codec_inverse depth b bo bb Hb Ebo Ebb d tb Hat Hraw) as (d1 & E1 & R1 & O1).
    assert (Hbbpos : 0 < len bb).
    { destruct (batch_ops_shape compress b bo Hb Ebo) as (comp & _ & _ & ->). rewrite spec_bytes_cons in Ebb. cbn [real_prim] in Ebb.
      destruct (spec_bytes (EFrame _ _ _)) as [e|x]; [discriminate|]. apply inr_inj in Ebb. subst bb. rewrite len_app, len_be. pose proof (len_nonneg x). lia. }
    rewrite len_app in Hrem. pose proof (len_nonneg tb).
    replace (remaining d <=? 0) with false by (symmetry; apply Z.leb_gt; lia).
    rewrite E1. cbn [records_partial records_count records_overflow norm_batch b_partial b_records olist].
    replace (len (map norm_record (olist (b_records b)))) with (len (olist (b_records b))) by (unfold len; now rewrite map_length).
    replace (0 <? len (olist (b_records b))) with true by (symmetry; apply Z.ltb_lt; lia). cbn [orb andb].
    assert (Hat1 : at_ d1 (tb ++ [])).
    { rewrite app_nil_r. destruct Hat as (pre & suf & Hr & Ho). exists (pre ++ bb), suf. split; [rewrite R1, Hr, <- !app_assoc; reflexivity | rewrite O1, Ho, len_app; reflexivity]. }
    assert (Hrem1 : remaining d1 = len tb) by (unfold remaining in *; rewrite R1, O1; lia).
    destruct (IH fuel d1 (match alias with None => Some (RDefault (norm_batch b)) | a => a end) (acc ++ [RDefault (norm_batch b)]) to tb
                Ht ltac:(lia) Eto Etb Hat1 Hrem1 ltac:(now rewrite R1)) as (d2 & E2 & R2 & O2).
    exists d2. split; [|split; [congruence | rewrite O2, O1, len_app; lia]].
    unfold len in E2 |- *. rewrite E2. cbn [map hd_error]. rewrite <- app_assoc. cbn [app]. destruct alias; reflexivity.
Qed.

(* ---------------------------------------------------------------- the block *)
Definition fblock_ok (v : Z) (b : fblock) (bs : list batch) : Prop :=
  0 <= v /\ in_i16 (fb_err b) /\ in_i64 (fb_hwm b) /\ in_i64 (fb_lso b) /\ in_i64 (fb_log_start b) /\
  Forall (fun po => in_i64 (fst po) /\ in_i64 (snd po)) (olist (fb_aborted b)) /\ len (olist (fb_aborted b)) <= MAX_ARRAY /\
  in_i32 (fb_replica b) /\ fb_set b = map RDefault bs /\ Forall fbatch_ok bs.
(* what comes back: fields the version does not carry are zero (-1 for the replica), a nil aborted list is empty from
   version 4 on, the batches are normalised, Records is the first element of RecordsSet *)
Definition norm_fblock (v : Z) (b : fblock) (bs : list batch) : fblock :=
  mkFBlock (fb_err b) (fb_hwm b) (if 4 <=? v then fb_lso b else 0) (if 5 <=? v then fb_log_start b else 0)
    (if 4 <=? v then Some (olist (fb_aborted b)) else None) (if 11 <=? v then fb_replica b else -1)
    (hd_error (map (fun x => RDefault (norm_batch x)) bs)) (map (fun x => RDefault (norm_batch x)) bs) false.

Lemma fblock_header_total v b : Forall total (fblock_header v b).
Proof.
  unfold fblock_header. repeat (apply Forall_app; split); repeat constructor; auto with total;
    destruct (4 <=? v), (5 <=? v), (11 <=? v); repeat (apply Forall_app; split); repeat constructor; auto with total; apply aborted_total.
Qed.

Theorem fblock_roundtrip depth v b bs ops bytes : fblock_ok v b bs ->
  fblock_ops compress v b = inr ops -> spec_bytes ops = inr bytes ->
  forall d rest, at_ d (bytes ++ rest) -> len (raw d) < MAXLEN ->
  exists d', fblock_decode decompress depth v d = Ok (norm_fblock v b bs) d' /\ raw d' = raw d /\ off d' = off d + len bytes.
Proof.
  intros (Hv & Herr & Hhwm & Hlso & Hls & Hab & Habn & Hrep & Hset & Hbs) Hops Hspec d rest Hat Hraw.
  unfold fblock_ops in Hops. rewrite Hset in Hops. destruct (set_ops compress (map RDefault bs)) as [e|so] eqn:Eso; [discriminate|].
  apply inr_inj in Hops. subst ops.
  rewrite (spec_bytes_eseq _ _ (fblock_header_total v b)), spec_bytes_frame in Hspec. cbn [spec_bytes frame_field] in Hspec.
  destruct (spec_bytes so) as [e|sb] eqn:Esb; [discriminate|]. apply inr_inj in Hspec. rewrite app_nil_r in Hspec. subst bytes.
  set (ab := olist (fb_aborted b)) in *.
  assert (Hfit : len (pbytes (fblock_header v b)) + 4 + len sb + len rest <= len (raw d)).
  { destruct Hat as (pre & suf & Hr & _). rewrite Hr, !len_app, len_be. pose proof (len_nonneg pre). pose proof (len_nonneg suf). change (Z.of_nat 4) with 4. lia. }
  pose proof (len_nonneg sb). pose proof (len_nonneg rest). pose proof (len_nonneg ab). unfold MAXLEN, MAX_ARRAY in *.
  assert (Hsb31 : len sb < 2147483648) by (pose proof (len_nonneg (pbytes (fblock_header v b))); lia).
  unfold fblock_decode. unfold fblock_header in *. rewrite !pbytes_app in *. cbn [pbytes] in Hat, Hfit. unfold pb at 1 2 in Hat. cbn [real_prim] in Hat.
  rewrite <- !app_assoc in Hat. cbn [app] in Hat.
  pose proof (get_int16_rt _ d _ Herr Hat) as G. step G.
  match type of Hat with at_ _ (_ ++ ?tl) => assert (Hat1 : at_ d1 tl) by (eapply at_moved; [exact Hat | rewrite len_be; exact M]) end.
  pose proof (get_int64_rt _ d1 _ Hhwm Hat1) as G. step G.
  match type of Hat1 with at_ _ (_ ++ ?tl) => assert (Hat2 : at_ d0 tl) by (eapply at_moved; [exact Hat1 | rewrite len_be; exact M0]) end.
  assert (M01 : moved d d0 10 0) by (eapply moved_eq; [eapply moved_trans; [exact M | exact M0] | reflexivity | reflexivity]).
  clear E E0 M M0 Hat Hat1 d1.
  (* the version-dependent middle part: returns the state after it *)
  match goal with |- exists _, bind ?X _ = _ /\ _ => assert (Mid : exists dm nmid, X =
     Ok (if 4 <=? v then fb_lso b else 0, if 5 <=? v then fb_log_start b else 0, if 4 <=? v then Some ab else None) dm /\
     raw dm = raw d0 /\ off dm = off d0 + nmid /\
     nmid = len (pbytes (if 4 <=? v then [PInt64 (fb_lso b)] ++ (if 5 <=? v then [PInt64 (fb_log_start b)] else []) ++ [PArrayLength (len ab)] ++ aborted_prims ab else []))) end.
  { destruct (4 <=? v) eqn:E4.
    - fold ab in Hat2. cbn [pbytes] in Hat2. rewrite pbytes_app in Hat2. cbn [pbytes] in Hat2. pbs_in Hat2. rewrite <- !app_assoc in Hat2.
      pose proof (get_int64_rt _ d0 _ Hlso Hat2) as G. step G.
      match type of Hat2 with at_ _ (_ ++ ?tl) => assert (Hat3 : at_ d1 tl) by (eapply at_moved; [exact Hat2 | rewrite len_be; exact M]) end.
      assert (Mid5 : exists d5 n5, (if 5 <=? v then get_int64 d1 else Ok 0 d1) = Ok (if 5 <=? v then fb_log_start b else 0) d5 /\
                     moved d1 d5 n5 0 /\ n5 = len (pbytes (if 5 <=? v then [PInt64 (fb_log_start b)] else [])) /\
                     at_ d5 (be 4 (len ab) ++ pbytes (aborted_prims ab) ++ pbytes (if 11 <=? v then [PInt32 (fb_replica b)] else []) ++ be 4 (len sb) ++ sb ++ rest)).
      { destruct (5 <=? v).
        - cbn [pbytes app] in Hat3. pbs_in Hat3. rewrite <- !app_assoc in Hat3. cbn [app] in Hat3.
          pose proof (get_int64_rt _ d1 _ Hls Hat3) as G. destruct G as (d5 & E5 & M5). exists d5, 8.
          split; [exact E5 | split; [exact M5 | split; [reflexivity | eapply at_moved; [exact Hat3 | rewrite len_be; exact M5]]]].
        - exists d1, 0. split; [reflexivity | split; [apply moved_refl | split; [reflexivity | cbn [pbytes app] in Hat3; exact Hat3]]]. }
      destruct Mid5 as (d5 & n5 & E5 & M5 & Hn5 & Hat5). rewrite E5. cbn [bind].
      pose proof (at_remaining _ _ Hat5) as Hrem5. rewrite !len_app, !len_be, aborted_len in Hrem5.
      pose proof (len_nonneg (pbytes (if 11 <=? v then [PInt32 (fb_replica b)] else []))).
      change (Z.of_nat 4) with 4 in Hrem5.
      pose proof (get_array_length_rt (len ab) d5 _ ltac:(unfold MAX_ARRAY; lia) ltac:(lia) Hat5) as G. step G.
      replace (0 <=? len ab) with true by (symmetry; apply Z.leb_le; lia). rewrite to_nat_len.
      assert (Hat6 : at_ (alloc d2 (PTR * len ab)) (pbytes (aborted_prims ab) ++ pbytes (if 11 <=? v then [PInt32 (fb_replica b)] else []) ++ be 4 (len sb) ++ sb ++ rest))
        by (destruct M0 as (A1 & A2 & _); eapply at_shift; [exact Hat5 | cbn [raw alloc]; exact A1 | cbn [off alloc]; rewrite len_be; exact A2]).
      pose proof (aborted_rt ab _ _ Hab Hat6) as G. step G.
      exists d3. eexists. split; [reflexivity|].
      destruct M as (A1 & A2 & _), M5 as (B1 & B2 & _), M0 as (C1 & C2 & _), M1 as (D1 & D2 & _). cbn [raw off alloc] in D1, D2.
      split; [congruence|]. split; [|reflexivity].
      cbn [pbytes app]. rewrite !pbytes_app. cbn [pbytes]. pbs. rewrite !len_app, !len_be, aborted_len, <- Hn5.
      change (len (@nil Z)) with 0. change (Z.of_nat 8) with 8. change (Z.of_nat 4) with 4. clear - A2 B2 C2 D2. lia.
    - replace (5 <=? v) with false by (symmetry; apply Z.leb_gt; apply Z.leb_gt in E4; lia).
      exists d0, 0. split; [reflexivity | split; [reflexivity | split; [lia | reflexivity]]]. }
  destruct Mid as (dm & nmid & Emid & Rm & Om & Hnmid). rewrite Emid. cbn [bind].
  (* replica, size, subset *)
  assert (Hatm : at_ dm (pbytes (if 11 <=? v then [PInt32 (fb_replica b)] else []) ++ be 4 (len sb) ++ sb ++ rest)).
  { eapply at_shift; [exact Hat2 | exact Rm | rewrite Om, Hnmid; reflexivity]. }
  assert (Rep : exists dr nr, (if 11 <=? v then get_int32 dm else Ok (-1) dm) = Ok (if 11 <=? v then fb_replica b else -1) dr /\
                 raw dr = raw dm /\ off dr = off dm + nr /\ nr = len (pbytes (if 11 <=? v then [PInt32 (fb_replica b)] else [])) /\
                 at_ dr (be 4 (len sb) ++ sb ++ rest) /\ mem dr = mem dm).
  { destruct (11 <=? v).
    - cbn [pbytes] in Hatm. unfold pb in Hatm. cbn [real_prim] in Hatm. rewrite <- !app_assoc in Hatm. cbn [app] in Hatm.
      pose proof (get_int32_rt _ dm _ Hrep Hatm) as G. destruct G as (dr & Er & Mr). exists dr, 4. pose proof Mr as (A1 & A2 & A3 & _).
      split; [exact Er | split; [exact A1 | split; [exact A2 | split; [reflexivity | split; [eapply at_moved; [exact Hatm | rewrite len_be; exact Mr] | lia]]]]].
    - exists dm, 0. split; [reflexivity | split; [reflexivity | split; [lia | split; [reflexivity | split; [exact Hatm | reflexivity]]]]]. }
  destruct Rep as (dr & nr & Er & Rr & Or & Hnr & Hatr & _). rewrite Er. cbn [bind].
  pose proof (get_int32_rt (len sb) dr _ ltac:(unfold in_i32; lia) Hatr) as G. step G.
  assert (Hats : at_ d1 (sb ++ rest)) by (eapply at_moved; [exact Hatr | rewrite len_be; exact M]).
  unfold get_subset. pose proof (get_raw_bytes_rt sb d1 rest Hats) as G. step G.
  cbn [raw new_dec]. unfold remaining at 1. cbn [raw off new_dec]. rewrite Z.sub_0_r.
  set (ds := mkDec sb 0 (mem d2) []).
  assert (Hatds : at_ ds (sb ++ [])) by (exists [], []; split; [cbn [raw app ds]; now rewrite !app_nil_r | reflexivity]).
  assert (Hfuel : (length bs < S (Z.to_nat (len sb)))%nat).
  { assert (Z.of_nat (length bs) <= len sb); [|lia]. clear - Hbs Eso Esb codec_inverse.
    revert so sb Eso Esb. induction Hbs as [|x t (Hx & _) Ht IH]; intros so sb Eso Esb; [cbn; apply len_nonneg|].
    destruct (set_ops_batches (x :: t) so sb Eso Esb) as (bo & bb & to & tb & Ebo & Ebb & Eto & Etb & ->).
    specialize (IH to tb Eto Etb). rewrite len_app. cbn [length].
    destruct (batch_ops_shape compress x bo Hx Ebo) as (comp & _ & _ & ->). rewrite spec_bytes_cons in Ebb. cbn [real_prim] in Ebb.
    destruct (spec_bytes (EFrame _ _ _)) as [e|y]; [discriminate|]. apply inr_inj in Ebb. subst bb. rewrite len_app, len_be. pose proof (len_nonneg y). lia. }
  destruct (fset_loop_batches depth bs (S (Z.to_nat (len sb))) ds None [] so sb Hbs Hfuel Eso Esb Hatds
              ltac:(unfold remaining, ds; cbn [raw off]; lia) ltac:(unfold ds, MAXLEN; cbn [raw]; lia)) as (dl & El & _ & _).
  rewrite El. eexists. split; [reflexivity|].
  destruct M01 as (A1 & A2 & _), M as (B1 & B2 & _), M0 as (C1 & C2 & _). unfold set_mem. cbn [raw off].
  split; [congruence|]. rewrite C2, B2, Or, Om, A2, Hnr, Hnmid, !len_app, len_be. cbn [pbytes]. unfold pb at 1 2. cbn [real_prim].
  rewrite !len_app, !len_be. change (len (@nil Z)) with 0. change (Z.of_nat 2) with 2. change (Z.of_nat 8) with 8. change (Z.of_nat 4) with 4.
  unfold ab. lia.
Qed.

(* re-encoding the decoded block writes the same bytes: the deprecated Records field is not written, the batches
   re-encode identically, fields the version does not carry are not written *)
Theorem fblock_reencode v b bs : fblock_ok v b bs -> fblock_ops compress v (norm_fblock v b bs) = fblock_ops compress v b.
Proof.
  intros (Hv & Herr & Hhwm & Hlso & Hls & Hab & Habn & Hrep & Hset & Hbs).
  unfold fblock_ops, norm_fblock. cbn [fb_set]. rewrite Hset.
  assert (Es : set_ops compress (map (fun x => RDefault (norm_batch x)) bs) = set_ops compress (map RDefault bs)).
  { clear - Hbs. induction Hbs as [|x t (Hx & _) Ht IH]; cbn [map set_ops records_ops_top]; [reflexivity|].
    now rewrite (batch_reencode compress x Hx), IH. }
  rewrite Es. destruct (set_ops compress (map RDefault bs)); [reflexivity|]. f_equal. f_equal.
  unfold fblock_header. cbn [fb_err fb_hwm fb_lso fb_log_start fb_aborted fb_replica].
  destruct (4 <=? v), (5 <=? v), (11 <=? v); cbn [olist]; reflexivity.
Qed.
End Codec.
