(* Wire/Crc.v — CRC-32 with the IEEE 802.3 polynomial (legacy messages) and the Castagnoli polynomial
   (record batches), reflected form, as hash/crc32 computes it for crc32_field.go.
   [crc32] is the bitwise definition (the specification); [crc32_tab] is the byte-at-a-time table algorithm
   (hash/crc32 simpleMakeTable/simpleUpdate).  Model only (no proofs). *)
From Coq Require Import List ZArith Bool.
From SV Require Import Wire.Bytes.
Import ListNotations.
Open Scope Z_scope.

Inductive poly := IEEE | Castagnoli.
Definition poly_eqb (a b : poly) := match a, b with IEEE, IEEE | Castagnoli, Castagnoli => true | _, _ => false end.
(* reversed representations: crc32.IEEE = 0xedb88320, crc32.Castagnoli = 0x82f63b78 *)
Definition poly_const (p : poly) : Z := match p with IEEE => 3988292384 | Castagnoli => 2197175160 end.

Definition crc_step (pc c : Z) : Z := if Z.odd c then Z.lxor (Z.shiftr c 1) pc else Z.shiftr c 1.
Definition crc_step8 (pc c : Z) : Z :=
  crc_step pc (crc_step pc (crc_step pc (crc_step pc (crc_step pc (crc_step pc (crc_step pc (crc_step pc c))))))).
(* one message byte (byte(b): list elements are bytes): xor into the low byte, eight shift steps *)
Definition crc_byte (pc c b : Z) : Z := crc_step8 pc (Z.lxor c (b mod 256)).
Definition mask32 := 4294967295.
Definition crc32 (p : poly) (data : list Z) : Z :=
  Z.lxor (fold_left (crc_byte (poly_const p)) data mask32) mask32.

(* table algorithm *)
Fixpoint ztab (n : nat) (f : Z -> Z) (i : Z) : list Z :=
  match n with O => [] | S k => f i :: ztab k f (i + 1) end.
Definition crc_table (pc : Z) : list Z := ztab 256 (crc_step8 pc) 0.
Definition crc_upd_tab (tab : list Z) (c b : Z) : Z :=
  Z.lxor (nth (Z.to_nat (Z.land (Z.lxor c b) 255)) tab 0) (Z.shiftr c 8).
Definition crc32_tab (p : poly) (data : list Z) : Z :=
  let tab := crc_table (poly_const p) in
  Z.lxor (fold_left (crc_upd_tab tab) data mask32) mask32.
