(* Wire/Bytes.v — bytes as [list Z], Go fixed-width conversions, big-endian words, slices.
   Model only (no proofs).  Lengths and offsets are [Z] like Go's [int] (64-bit platform assumed). *)
From Coq Require Import List ZArith Bool.
Import ListNotations.
Open Scope Z_scope.

Definition len {A : Type} (l : list A) : Z := Z.of_nat (length l).

Definition byte_ok (b : Z) : bool := (0 <=? b) && (b <? 256).
Definition wf_bytes (l : list Z) : bool := forallb byte_ok l.

(* Go conversions to fixed-width integers (two's complement wrap). *)
Definition two8 := 256.
Definition two16 := 65536.
Definition two32 := 4294967296.
Definition two63 := 9223372036854775808.
Definition two64 := 18446744073709551616.
Definition u8 (x : Z) := x mod two8.
Definition u16 (x : Z) := x mod two16.
Definition u32 (x : Z) := x mod two32.
Definition u64 (x : Z) := x mod two64.
Definition i8 (x : Z) := (x + 128) mod two8 - 128.
Definition i16 (x : Z) := (x + 32768) mod two16 - 32768.
Definition i32 (x : Z) := (x + 2147483648) mod two32 - 2147483648.
Definition i64 (x : Z) := (x + two63) mod two64 - two63.

Definition in_i8 (x : Z) := -128 <= x < 128.
Definition in_i16 (x : Z) := -32768 <= x < 32768.
Definition in_i32 (x : Z) := -2147483648 <= x < 2147483648.
Definition in_i64 (x : Z) := - two63 <= x < two63.
Definition in_u64 (x : Z) := 0 <= x < two64.
Definition in_i8b x := (-128 <=? x) && (x <? 128).
Definition in_i16b x := (-32768 <=? x) && (x <? 32768).
Definition in_i32b x := (-2147483648 <=? x) && (x <? 2147483648).
Definition in_i64b x := (- two63 <=? x) && (x <? two63).
Definition in_u64b x := (0 <=? x) && (x <? two64).

(* big-endian: [be n v] = the n low-order bytes of v (two's complement for negative v), most significant first *)
Fixpoint be (n : nat) (v : Z) : list Z :=
  match n with O => [] | S k => be k (v / 256) ++ [v mod 256] end.
(* unsigned value of a big-endian byte string (binary.BigEndian.UintNN) *)
Definition ube (l : list Z) : Z := fold_left (fun acc b => acc * 256 + b) l 0.

(* Go slice expression l[a:b] on a slice whose capacity equals its length: None = run-time panic *)
Definition slice (l : list Z) (a b : Z) : option (list Z) :=
  if (0 <=? a) && (a <=? b) && (b <=? len l)
  then Some (firstn (Z.to_nat (b - a)) (skipn (Z.to_nat a) l))
  else None.

Fixpoint zeros (n : nat) : list Z := match n with O => [] | S k => 0 :: zeros k end.

(* overwrite [bs] at position [start] of [l] (copy into buf[start:]); None = would write past the end (panic) *)
Definition patch (l : list Z) (start : Z) (bs : list Z) : option (list Z) :=
  if (0 <=? start) && (start + len bs <=? len l)
  then Some (firstn (Z.to_nat start) l ++ bs ++ skipn (Z.to_nat (start + len bs)) l)
  else None.

Fixpoint sum_len (l : list (list Z)) : Z := match l with [] => 0 | x :: r => len x + sum_len r end.

(* [rep n b]: n copies of b (used by the harness to print long constant runs compactly) *)
Definition rep (n b : Z) : list Z := repeat b (Z.to_nat n).
