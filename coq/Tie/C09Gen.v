(* C09 (format layer) — obligations over the table regenerated from /repo's encode/decode methods by go/wiregen
   (build/C09/GenFormats.v, logical root SVB).  Compiled on every run of the check; each Lemma is an obligation. *)
From Coq Require Import List ZArith Bool String.
From SV Require Import WireFmt.Format WireFmt.Corr WireFmt.Proofs WireFmt.ProofsPair WireFmt.ProofsReenc.
From SVB Require Import GenFormats.
Import ListNotations.
Open Scope Z_scope.

(* encoder and decoder of every regular pair coincide, at every version, and the pairing is a well-formed format *)
Definition row_ok (r : row) : bool :=
  match r_enc r, r_dec r with
  | Some fe, Some fd => forallb (fun v => mirror_at v fd fe && wf (paired v fd fe) v) (versions r)
  | _, _ => true
  end.

Lemma c09_mirror_all : forallb row_ok gen_table = true.
Proof. vm_compute. reflexivity. Qed.

(* hence the generic round-trip theorem applies to every regular body of the tree, at every version *)
Lemma c09_table_roundtrip : forall r fe fd v,
  In r gen_table -> r_enc r = Some fe -> r_dec r = Some fd -> In v (versions r) ->
  forall cfg x x0 rest, wt (paired v fd fe) v x = true ->
  dec cfg None fd v x0 (enc_real fe v x ++ rest) = Ok (upd (paired v fd fe) v x0 x, rest).
Proof.
  intros r fe fd v Hr He Hd Hv cfg x x0 rest Hwt.
  pose proof (proj1 (forallb_forall row_ok gen_table) c09_mirror_all r Hr) as H.
  unfold row_ok in H. rewrite He, Hd in H.
  pose proof (proj1 (forallb_forall _ _) H v Hv) as Hm.
  apply andb_true_iff in Hm as [Hm Hwf].
  exact (pair_roundtrip cfg fd fe v x x0 rest Hm Hwf Hwt).
Qed.

(* the two encoder passes agree for every translated encoder (instance of the generic theorem, recorded per table) *)
Lemma c09_table_sizing : forall r fe v x, In r gen_table -> r_enc r = Some fe -> enc_prep fe v x = zlen (enc_real fe v x).
Proof. intros. apply sizing_agrees. Qed.

(* re-encoding what was decoded into a fresh value reproduces the bytes: side condition of c09_pair_reencode *)
Definition row_reenc (r : row) : bool :=
  match r_enc r, r_dec r with
  | Some fe, Some fd => forallb (fun v => reenc_ok (paired v fd fe) v (r_zero r)) (versions r)
  | _, _ => true
  end.

Lemma c09_reenc_all : forallb row_reenc gen_table = true.
Proof. vm_compute. reflexivity. Qed.

Lemma c09_table_reencode : forall r fe fd v,
  In r gen_table -> r_enc r = Some fe -> r_dec r = Some fd -> In v (versions r) ->
  forall x, enc_real fe v (upd (paired v fd fe) v (r_zero r) x) = enc_real fe v x.
Proof.
  intros r fe fd v Hr He Hd Hv x.
  pose proof (proj1 (forallb_forall row_ok gen_table) c09_mirror_all r Hr) as H.
  unfold row_ok in H. rewrite He, Hd in H.
  pose proof (proj1 (forallb_forall _ _) H v Hv) as Hm. apply andb_true_iff in Hm as [Hm _].
  pose proof (proj1 (forallb_forall row_reenc gen_table) c09_reenc_all r Hr) as H2.
  unfold row_reenc in H2. rewrite He, Hd in H2.
  pose proof (proj1 (forallb_forall _ _) H2 v Hv) as Hre.
  exact (pair_reencode fd fe v (r_zero r) x Hm Hre).
Qed.

(* The encoders of the bodies take the version from a field of the value (r_ver); a decoder that does not store the
   version it was given yields a value that encodes as another version.  Bodies whose decoder loses the version,
   with the versions concerned -- genuine defects of the pinned tree (KNOWN_FINDINGS c09:reencode-length:...),
   repaired by fixes/c09_roundtrip_gaps.patch; the list must be exact, so a new one is reported and so is a repair. *)
Definition ver_lost (r : row) : list Z :=
  match r_ver r, r_dec r with
  | Some p, Some fd => filter (fun v => negb (value_eqb (vget p (upd fd v (r_zero r) (r_zero r))) (VInt v))) (versions r)
  | _, _ => []
  end.
Definition lost_versions : list (string * list Z) :=
  filter (fun p => match snd p with [] => false | _ => true end) (map (fun r => (r_name r, ver_lost r)) gen_table).

Definition known_version_lost_pinned : list (string * list Z) :=
  [("DeleteAclsResponse"%string, [1]); ("DescribeAclsResponse"%string, [1]); ("OffsetResponse"%string, [1; 2])].

(* every body that loses the version is one the pinned tree is known to (a repaired tree has none) *)
Definition known_lost (p : string * list Z) : bool :=
  existsb (fun q => String.eqb (fst p) (fst q) && Base.Corr.list_eqb Z.eqb (snd p) (snd q)) known_version_lost_pinned.

Lemma c09_version_restored_all : forallb known_lost lost_versions = true.
Proof. vm_compute. reflexivity. Qed.
