(* C10 (format layer) — obligations over the table regenerated from /repo's decode methods by go/wiregen
   (build/C10/GenFormats.v, logical root SVB).  Compiled on every run of the check; each Lemma is an obligation. *)
From Coq Require Import List ZArith Bool String.
From SV Require Import WireFmt.Format WireFmt.Corr WireFmt.ProofsSafe WireFmt.ProofsSites.
From SVB Require Import GenFormats.
Import ListNotations.
Open Scope string_scope.
Open Scope Z_scope.

(* Collections that decoders of broker / group-member data allocate from a count they do not validate would be listed
   here, one KNOWN_FINDINGS entry each (c10:panic:<label> / c10:alloc:<label>).  The list is EMPTY: the 20 sites of the
   pinned tree (make([]T, n) reached with n = -1 from getArrayLength, e.g. MetadataResponse.Brokers) are repaired by
   fixes/c10_negative_array_counts.patch (`if n >= 0 { x = make([]T, n) }`: a null array decodes as a nil collection).
   The obligation below is stated over the whole table minus exactly this list: any unguarded site breaks it. *)
Definition known_unguarded : list string := [].

Definition is_known (s : string) : bool := existsb (String.eqb s) known_unguarded.

(* every unguarded site of a decoder in scope is a known one *)
Lemma c10_guarded_all : forallb is_known (scope_sites gen_cfg gen_table) = true.
Proof. vm_compute. reflexivity. Qed.

(* and every such site has a model-computed witness on which the model panics or over-allocates (cap 4 GiB);
   the check replays these byte strings on the implementation in a memory-capped subprocess *)
Definition witnesses := site_witnesses gen_cfg gen_table.
Lemma c10_sites_witnessed :
  Base.Corr.list_eqb String.eqb (map fst witnesses) (scope_sites gen_cfg gen_table) &&
  forallb (fun w => let c := witness_class gen_cfg (2 ^ 32) gen_table w in (c =? 2)%Z || (c =? 3)%Z) witnesses = true.
Proof. vm_compute. reflexivity. Qed.

(* a decoder of the table without unguarded sites is safe on every input (instance of c10_format_safe) *)
Lemma c10_table_safe : forall r fd, In r gen_table -> r_dec r = Some fd -> unguarded_sites gen_cfg fd = [] ->
  forall v x0 bs cap, bytes_ok bs = true -> zlen bs < 2 ^ 63 -> max_esize fd * zlen bs <= cap ->
  safe_outcome (dec_top gen_cfg (Some cap) fd v x0 bs).
Proof.
  intros r fd _ _ Hs v x0 bs cap Hb Hl Hc.
  apply format_safe_top; auto. apply no_sites_guarded; exact Hs.
Qed.

(* the decoders in scope that are fully guarded, by name (recorded in the evidence) *)
Definition guarded_rows : list string :=
  map r_name (filter (fun r => r_untrusted r &&
    match r_dec r with Some fd => match unguarded_sites gen_cfg fd with [] => true | _ => false end | None => false end) gen_table).

Eval vm_compute in guarded_rows.
Eval vm_compute in witnesses.
