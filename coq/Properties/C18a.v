(* C18, producer half — each producer interceptor runs exactly once per submitted message, on its first pass, in
   configuration order, never for retries or internal markers; a panicking interceptor is contained.
   Statements over the actor composition of coq/Producer for ARBITRARY schedules; [c_fix_ic c = true] is the
   repaired dispatcher (fixes/c18_producer_interceptor.patch), the other case is c18_refuted_producer_again. *)
From Coq Require Import List ZArith Bool.
From SV Require Import Producer.Msg Producer.Actors Producer.Compose Producer.Weights Producer.Local Producer.Global
                       Producer.Shape Producer.Conservation Producer.Shutdown Producer.Interceptors Producer.Examples.
Import ListNotations.
Open Scope Z_scope.

(* the invocation log of any run is a concatenation of complete chains (interceptor 0..n-1 in order, tagged with
   the message's identity), one chain per submitted message that has passed the dispatcher: for every identity i,
   (chains for i) + (fresh copies of i still waiting at the dispatcher) = (submissions of i) *)
Theorem c18_producer_once : forall c, c_fix_rb c = true -> c_fix_ic c = true -> forall sched,
  exists ms, g_ilog (run c sched) = flat_map (chain c) ms /\
             forall i, idcnt i ms + pending i (run c sched) = subs i (run c sched).
Proof. exact producer_once. Qed.
Print Assumptions c18_producer_once.

(* shape of one chain: every configured interceptor index exactly once, in order, whatever the panic oracle *)
Theorem c18_chain_shape : forall c m, map (fun x => snd (fst x)) (chain c m) = seq 0 (length (c_ics c)).
Proof. exact chain_indices. Qed.
Print Assumptions c18_chain_shape.

(* a retried message or an internal marker passing the dispatcher is not intercepted *)
Theorem c18_producer_not_again : forall c d m, c_fix_ic c = true -> (fresh_pass m = false \/ is_data m = false) ->
  ilog_of (snd (disp_step c d m)) = [].
Proof. exact no_second_interception. Qed.
Print Assumptions c18_producer_not_again.

(* containment: a panicking interceptor neither cuts the chain nor loses/duplicates the message *)
Theorem c18_producer_panic_contained : forall c d m, c_fix_ic c = true ->
  is_shut m = false -> fresh_pass m = true -> is_data m = true -> d_shut d = false ->
  map (fun x => snd (fst x)) (ilog_of (snd (disp_step c d m))) = seq 0 (length (c_ics c)) /\
  (forall x, In x (ilog_of (snd (disp_step c d m))) -> fst (fst x) = m_id m) /\
  (forall f, stable f -> esum (eff_net f) (snd (disp_step c d m)) = f m).
Proof. exact panic_contained. Qed.
Print Assumptions c18_producer_panic_contained.

(* the pinned tree: interceptor 0 runs twice on a retried message and once on the fin marker *)
Theorem c18_refuted_producer_again :
  let s := run (cfg_ic false) sched_interceptor_retry in
  log_count 1 0 (g_ilog s) = 2%nat /\ log_count (-1) 0 (g_ilog s) = 1%nat /\ submissions 1 s = 1.
Proof. exact refuted_interceptors. Qed.
Print Assumptions c18_refuted_producer_again.
