(* C09 (part a: primitive and records layers) — wire encoding round-trips.
   Property statements only; each is closed by [exact] of a lemma proved in coq/Wire/*Proofs.v, *Thms.v.
   Vocabulary (coq/Wire): [at_ d bs] the decoder d stands at bytes bs (anything before, anything after);
   [okm r v d n c] r = Ok v d' where d' is d moved forward n bytes with c bytes allocated, stack unchanged;
   [real_prim]/[prep_prim] realEncoder / prepEncoder of one put-call; [run_prep]/[run_real]/[encode] the two passes
   over a script with push/pop frames; [spec_bytes] the bytes the protocol prescribes; [run_dop]/[run_dops] the getters. *)
From Coq Require Import List ZArith.
From SV Require Import Wire.Bytes Wire.Varint Wire.Crc Wire.Prim Wire.PushPop Wire.CorrPrim
  Wire.VarintProofs Wire.PrimProofs Wire.PrimThms Wire.Records Wire.RecordsProofs Wire.BatchProofs Wire.MsetProofs Wire.FetchProofs.
Import ListNotations.
Open Scope Z_scope.

(* Each primitive, all in-range values: the mirror getter, applied where the encoder's bytes stand, returns the value
   (nil vs empty kept wherever the wire format keeps it: [expected]), consumes exactly the encoded length and allocates
   exactly [cost p]. *)
Theorem c09_prim_roundtrip : forall p bs d rest,
  prim_ok p -> real_prim p = inr bs -> at_ d (bs ++ rest) -> ctx_ok p (remaining d - len bs) ->
  okm (run_dop (dop_of_prim p) d) (expected p) d (len bs) (cost p).
Proof. exact prim_roundtrip. Qed.
Print Assumptions c09_prim_roundtrip.

(* ... and whole scripts of put-calls with nested length / varint-length / CRC frames decode back, at any offset *)
Theorem c09_prim_script_roundtrip : forall ops bs pre suf,
  spec_bytes ops = inr bs -> ops_ok ops (len suf) -> len (pre ++ bs ++ suf) < MAXLEN ->
  run_dops (dops_of ops) (mkDec (pre ++ bs ++ suf) (len pre) 0 []) = (expected_vals ops, (0, len pre + len bs)).
Proof. exact script_roundtrip_run. Qed.
Print Assumptions c09_prim_script_roundtrip.

(* Zig-zag base-128 as Kafka defines it, for all 64-bit values: canonical groups, value, size, round trip. *)
Theorem c09_varint_spec : forall x, in_i64 x ->
  put_varint x = put_uvarint (zigzag x) /\ unzigzag (zigzag x) = x /\
  groups_canonical (put_varint x) = true /\ groups_value (put_varint x) = zigzag x /\
  len (put_varint x) = varint_size x /\ wf_bytes (put_varint x) = true /\
  forall suf, varint (put_varint x ++ suf) = (x, len (put_varint x)).
Proof. exact varint_spec. Qed.
Print Assumptions c09_varint_spec.

Theorem c09_uvarint_spec : forall x, in_u64 x ->
  groups_canonical (put_uvarint x) = true /\ groups_value (put_uvarint x) = x /\
  len (put_uvarint x) = uvarint_size x /\ wf_bytes (put_uvarint x) = true /\
  forall suf, uvarint (put_uvarint x ++ suf) = (x, len (put_uvarint x)).
Proof. exact uvarint_spec. Qed.
Print Assumptions c09_uvarint_spec.

(* Sizing pass = writing pass: per put-call ... *)
Theorem c09_prim_sizing_agrees : forall p n, prep_prim p = inr n -> exists bs, real_prim p = inr bs /\ len bs = n.
Proof. exact prim_sizing. Qed.
Print Assumptions c09_prim_sizing_agrees.

(* ... and for the two-pass encode() of any script: the second pass (run on the object as the first pass left it:
   varint length fields adjusted) writes exactly prepEncoder.length bytes, the prescribed ones, and never panics. *)
Theorem c09_prim_sizing_agrees_scripts : forall ops n, prep_size ops = inr n -> 0 <= n <= MAX_REQUEST_SIZE ->
  exists bs, encode ops = EncOk bs /\ spec_bytes ops = inr bs /\ len bs = n.
Proof. exact encode_spec. Qed.
Print Assumptions c09_prim_sizing_agrees_scripts.

Theorem c09_prim_encode_no_panic : forall ops, encode ops <> EncPanic.
Proof. exact encode_no_panic. Qed.
Print Assumptions c09_prim_encode_no_panic.

(* The length prefix equals the byte count it covers (int32, or the minimal zig-zag varint whatever stale value the
   field held); the CRC field is CRC-32 (resp. CRC-32C) of exactly the bytes after it up to the end of the frame. *)
Theorem c09_length_crc_spec : forall k body rest bs, encode (EFrame k body rest) = EncOk bs ->
  exists b r, spec_bytes body = inr b /\ spec_bytes rest = inr r /\ bs = frame_field k b ++ b ++ r.
Proof. exact frame_spec. Qed.
Print Assumptions c09_length_crc_spec.

(* ============================ records layer ============================ *)
(* Record: decoding the encoder's bytes (anything before, anything after) gives the record back, the timestamp delta
   truncated to whole milliseconds and a nil header slice as an empty one ([norm_record]); exactly the encoded
   length is consumed. *)
Theorem c09_records_roundtrip_record : forall r d rest,
  record_ok r -> at_ d (record_bytes r ++ rest) -> len (raw d) < MAXLEN ->
  okm (record_decode d) (norm_record r) d (len (record_bytes r)) (PTR * len (olist (r_headers r))).
Proof. exact record_decode_rt. Qed.
Print Assumptions c09_records_roundtrip_record.

Theorem c09_records_bytes : forall rs, spec_bytes (records_ops rs) = inr (records_bytes rs).
Proof. exact spec_records_ops. Qed.

Theorem c09_records_roundtrip_array : forall rs d rest,
  Forall record_ok rs -> at_ d (records_bytes rs ++ rest) -> len (raw d) < MAXLEN ->
  okm (records_decode (length rs) d) (map norm_record rs) d (len (records_bytes rs)) (records_cost rs).
Proof. exact records_decode_rt. Qed.
Print Assumptions c09_records_roundtrip_array.

(* RecordBatch (magic 2), every codec: under the hypothesis that the codec library decompresses what it compressed,
   decoding the batch's bytes gives the batch back (timestamps truncated to milliseconds, records normalised, not
   partial), consuming exactly its bytes and leaving the decoder's stack as it was. *)
Theorem c09_records_roundtrip : forall (compress decompress : Z -> list Z -> option (list Z)),
  (forall c x y, compress c x = Some y -> decompress c y = Some x) ->
  forall b ops bs, batch_ok b -> batch_ops compress b = inr ops -> spec_bytes ops = inr bs ->
  forall d rest, at_ d (bs ++ rest) -> len (raw d) < MAXLEN ->
  exists d', batch_decode decompress d = Ok (norm_batch b) d' /\ raw d' = raw d /\ off d' = off d + len bs /\ stack d' = stack d.
Proof. exact batch_roundtrip. Qed.
Print Assumptions c09_records_roundtrip.

(* Re-encoding the decoded value writes identical bytes (the script of put-calls is the same). *)
Theorem c09_records_reencode_record : forall r, record_ops (norm_record r) = record_ops r.
Proof. exact record_reencode. Qed.
Theorem c09_records_reencode : forall (compress : Z -> list Z -> option (list Z)) b,
  batch_ok b -> batch_ops compress (norm_batch b) = batch_ops compress b.
Proof. exact batch_reencode. Qed.
Print Assumptions c09_records_reencode.

(* Records (magic-byte peek): a batch is recognised as a batch. *)
Theorem c09_records_roundtrip_top_batch : forall (compress decompress : Z -> list Z -> option (list Z)),
  (forall c x y, compress c x = Some y -> decompress c y = Some x) ->
  forall depth b ops bs, batch_ok b -> batch_ops compress b = inr ops -> spec_bytes ops = inr bs ->
  forall d rest, at_ d (bs ++ rest) -> len (raw d) < MAXLEN ->
  exists d', records_decode_top decompress depth d = Ok (RDefault (norm_batch b)) d' /\ raw d' = raw d /\ off d' = off d + len bs.
Proof. exact top_roundtrip_batch. Qed.
Print Assumptions c09_records_roundtrip_top_batch.

(* Legacy messages (magic 0 and 1): one MessageBlock decodes back: nil vs empty key / value kept, timestamp truncated to
   milliseconds (dropped for magic 0), the nested set of a compressed wrapper being whatever the nested decoder
   makes of the decompressed value ([nested_for]). *)
Theorem c09_records_roundtrip_block : forall (compress decompress : Z -> list Z -> option (list Z)),
  (forall c x y, compress c x = Some y -> decompress c y = Some x) ->
  forall nested o m mo bb s d rest,
  in_i64 o -> msg_ok m -> message_ops compress m = inr mo -> spec_bytes (block_ops o mo) = inr bb ->
  nested_for nested m s -> at_ d (bb ++ rest) -> len (raw d) < MAXLEN ->
  exists d', block_decode_with (message_decode_with decompress nested) d = (Ok (o, norm_msg m s) d', o) /\
             moved d d' (len bb) 0 /\ peek_int8 MAGIC_OFFSET d = Ok (let '(mkMsg _ _ _ _ _ v _) := m in v) d.
Proof. exact block_roundtrip. Qed.
Print Assumptions c09_records_roundtrip_block.

(* A MessageSet of plain messages and compressed wrapper messages (one level: the wrapper's value is the encoding of
   a set of plain messages) that fills its buffer decodes back, the wrapper carrying the decoded inner set. *)
Theorem c09_records_roundtrip_mset : forall (compress decompress : Z -> list Z -> option (list Z)),
  (forall c x y, compress c x = Some y -> decompress c y = Some x) ->
  forall k p ov bs bs' ops bytes m0,
  wrapped_blocks compress bs bs' -> mset_ops compress (mkSet p ov bs) = inr ops -> spec_bytes ops = inr bytes -> len bytes < MAXLEN ->
  exists d', mset_decode decompress (S (S k)) (mkDec bytes 0 m0 []) = Ok (mkSet false false bs') d' /\
             off d' = len bytes /\ mem d' = m0.
Proof. exact mset_roundtrip_wrapped. Qed.
Print Assumptions c09_records_roundtrip_mset.

Theorem c09_records_roundtrip_top_mset : forall (compress decompress : Z -> list Z -> option (list Z)),
  (forall c x y, compress c x = Some y -> decompress c y = Some x) ->
  forall k p ov o m r bs' ops bytes,
  wrapped_blocks compress (MCons o m r) bs' -> mset_ops compress (mkSet p ov (MCons o m r)) = inr ops -> spec_bytes ops = inr bytes ->
  len bytes < MAXLEN ->
  exists d', records_decode_top decompress (S (S k)) (mkDec bytes 0 0 []) = Ok (RLegacy (mkSet false false bs')) d' /\ off d' = len bytes.
Proof. exact top_roundtrip_mset. Qed.
Print Assumptions c09_records_roundtrip_top_mset.

(* Request header (header versions 1 and 2; no request type has header version 0), response header, control record. *)
Theorem c09_request_header_roundtrip : forall hv_of hv key version corr cid d rest,
  1 <= hv <= 2 -> hv_of key version = Some hv -> in_i16 key -> in_i16 version -> in_i32 corr -> len cid <= MAX_INT16 ->
  at_ d (request_header_bytes hv key version corr cid ++ rest) ->
  okm (request_header_decode hv_of d) (key, version, corr, cid) d (len (request_header_bytes hv key version corr cid)) (len cid).
Proof. exact request_header_rt. Qed.
Theorem c09_request_bytes : forall hv key version corr cid body bb, 1 <= hv -> spec_bytes body = inr bb ->
  spec_bytes (request_ops hv key version corr cid body) =
  inr (be 4 (len (request_header_bytes hv key version corr cid ++ bb)) ++ request_header_bytes hv key version corr cid ++ bb).
Proof. exact request_ops_bytes. Qed.
Theorem c09_response_header_roundtrip : forall version length corr d rest,
  4 < length <= MAX_RESPONSE_SIZE -> in_i32 corr ->
  at_ d (pbytes ([PInt32 length; PInt32 corr] ++ (if 1 <=? version then [PEmptyTagged] else [])) ++ rest) ->
  exists d', response_header_decode version d = Ok (length, corr) d' /\ raw d' = raw d /\ off d' = off d + 8 + (if 1 <=? version then 1 else 0).
Proof. exact response_header_rt. Qed.
Theorem c09_control_record_roundtrip : forall (c : control_record) key value krest vrest,
  cr_type c <> CRUnknown -> in_i16 (cr_version c) -> in_i32 (cr_epoch c) ->
  at_ key (pbytes [PInt16 (cr_version c); PInt16 (match cr_type c with CRAbort => 0 | _ => 1 end)] ++ krest) ->
  at_ value (pbytes [PInt16 (cr_version c); PInt32 (cr_epoch c)] ++ vrest) ->
  exists key', fst (control_decode key value) = Ok c key'.
Proof. exact control_record_rt. Qed.
Print Assumptions c09_control_record_roundtrip.

(* FetchResponseBlock, every version: a partition block whose records section is a sequence of record batches (each
   with at least one record; one kind per block) decodes back: header fields as the version carries them, aborted
   transactions, the batches in order and normalised, the deprecated Records field = the first element of RecordsSet,
   not partial; exactly the block's bytes are consumed. *)
Theorem c09_fetch_block_roundtrip : forall (compress decompress : Z -> list Z -> option (list Z)),
  (forall c x y, compress c x = Some y -> decompress c y = Some x) ->
  forall depth v b bs ops bytes, fblock_ok v b bs ->
  fblock_ops compress v b = inr ops -> spec_bytes ops = inr bytes ->
  forall d rest, at_ d (bytes ++ rest) -> len (raw d) < MAXLEN ->
  exists d', fblock_decode decompress depth v d = Ok (norm_fblock v b bs) d' /\ raw d' = raw d /\ off d' = off d + len bytes.
Proof. exact fblock_roundtrip. Qed.
Print Assumptions c09_fetch_block_roundtrip.

(* Re-encoding the decoded block writes identical bytes (Records is an alias that is not written). *)
Theorem c09_fetch_block_reencode : forall (compress : Z -> list Z -> option (list Z)) v b bs,
  fblock_ok v b bs -> fblock_ops compress v (norm_fblock v b bs) = fblock_ops compress v b.
Proof. exact fblock_reencode. Qed.
Print Assumptions c09_fetch_block_reencode.
