(* C10 (format layer) — a guarded format decodes any byte input to a value or an error: it never panics and
   never asks the allocator for more than the cap.  The input is a Go []byte: every element is a byte and its
   length is below 2^63 (without either the statement is false, see WireFmt/ProofsSafe.v).
   Property statements only; each is closed by [exact] of a lemma proved in WireFmt/Proofs*.v. *)
From Coq Require Import List ZArith.
From SV Require Import WireFmt.Format WireFmt.Group WireFmt.ProofsSafe WireFmt.ProofsGroup WireFmt.ProofsExamples.
Import ListNotations.
Open Scope Z_scope.

Theorem c10_format_safe : forall cfg f v x0 bs cap,
  guarded cfg f = true -> bytes_ok bs = true -> zlen bs < 2 ^ 63 -> max_esize f * zlen bs <= cap ->
  safe_outcome (dec cfg (Some cap) f v x0 bs).
Proof. exact format_safe. Qed.
Print Assumptions c10_format_safe.

Theorem c10_format_safe_top : forall cfg f v x0 bs cap,
  guarded cfg f = true -> bytes_ok bs = true -> zlen bs < 2 ^ 63 -> max_esize f * zlen bs <= cap ->
  safe_outcome (dec_top cfg (Some cap) f v x0 bs).
Proof. exact format_safe_top. Qed.
Print Assumptions c10_format_safe_top.

(* The decoder consumes a prefix of its input and hands back the rest. *)
Theorem c10_consumes_suffix : forall cfg cap f v x0 bs y r,
  dec cfg cap f v x0 bs = Ok (y, r) -> exists used, bs = used ++ r.
Proof. exact consumes_suffix. Qed.
Print Assumptions c10_consumes_suffix.

(* Guardedness is not vacuous: an unguarded format does panic, even with the fixed getters. *)
Theorem c10_unguarded_refuted :
  exists f v x0 bs, guarded cfg_fixed f = false /\ dec_top cfg_fixed (Some 1000) f v x0 bs = Panic.
Proof. exact unguarded_refuted. Qed.
Print Assumptions c10_unguarded_refuted.

(* Group protocol: JoinGroupResponse.GetMembers is the per-blob decoder d mapped over the members.  The metadata a
   member is given depends on that member's own bytes only - not on what the other members sent, nor on where the member
   sits in the iteration of the map. *)
Theorem c10_members_independent : forall (K : Type) d (ms ms' : list (K * option (list Z))) l l' i j k k' b,
  get_members d ms = Ok l -> get_members d ms' = Ok l' ->
  nth_error ms i = Some (k, b) -> nth_error ms' j = Some (k', b) ->
  exists y, d b = Ok y /\ nth_error l i = Some (k, y) /\ nth_error l' j = Some (k', y).
Proof. exact (@members_independent). Qed.
Print Assumptions c10_members_independent.

Theorem c10_members_order_irrelevant : forall (K : Type) d (ms ms' : list (K * option (list Z))) l,
  Permutation.Permutation ms ms' -> get_members d ms = Ok l ->
  exists l', get_members d ms' = Ok l' /\ Permutation.Permutation l l'.
Proof. exact (@members_order_irrelevant). Qed.
Print Assumptions c10_members_order_irrelevant.

(* the whole call succeeds exactly when every member's own blob decodes, and with a guarded blob format it never panics *)
Theorem c10_members_ok_iff : forall (K : Type) d (ms : list (K * option (list Z))),
  is_ok (get_members d ms) = forallb (fun m => is_ok (d (snd m))) ms.
Proof. exact (@get_members_ok_iff). Qed.
Print Assumptions c10_members_ok_iff.

Theorem c10_members_safe : forall (K : Type) cfg fd zero cap (ms : list (K * option (list Z))),
  guarded cfg fd = true ->
  (forall k bs, In (k, Some bs) ms -> bytes_ok bs = true /\ zlen bs < 2 ^ 63 /\ max_esize fd * zlen bs <= cap) ->
  safe_outcome (get_members (decode_blob cfg (Some cap) fd zero) ms).
Proof. exact members_safe_guarded. Qed.
Print Assumptions c10_members_safe.
