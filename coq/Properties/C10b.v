(* C10 (format layer) — a guarded format decodes any byte input to a value or an error: it never panics and
   never asks the allocator for more than the cap.  The input is a Go []byte: every element is a byte and its
   length is below 2^63 (without either the statement is false, see WireFmt/ProofsSafe.v).
   Property statements only; each is closed by [exact] of a lemma proved in WireFmt/Proofs*.v. *)
From Coq Require Import List ZArith.
From SV Require Import WireFmt.Format WireFmt.ProofsSafe WireFmt.ProofsExamples.
Import ListNotations.
Open Scope Z_scope.

Theorem c10_format_safe : forall cfg f v x0 bs cap,
  guarded cfg f = true -> bytes_ok bs = true -> zlen bs < 2 ^ 63 -> max_esize f * zlen bs <= cap ->
  safe_outcome (dec cfg (Some cap) f v x0 bs).
Proof. exact format_safe. Qed.
Print Assumptions c10_format_safe.

Theorem c10_format_safe_top : forall cfg f v x0 bs cap,
  guarded cfg f = true -> bytes_ok bs = true -> zlen bs < 2 ^ 63 -> max_esize f * zlen bs <= cap ->
  safe_outcome (dec_top cfg (Some cap) f v x0 bs).
Proof. exact format_safe_top. Qed.
Print Assumptions c10_format_safe_top.

(* The decoder consumes a prefix of its input and hands back the rest. *)
Theorem c10_consumes_suffix : forall cfg cap f v x0 bs y r,
  dec cfg cap f v x0 bs = Ok (y, r) -> exists used, bs = used ++ r.
Proof. exact consumes_suffix. Qed.
Print Assumptions c10_consumes_suffix.

(* Guardedness is not vacuous: an unguarded format does panic, even with the fixed getters. *)
Theorem c10_unguarded_refuted :
  exists f v x0 bs, guarded cfg_fixed f = false /\ dec_top cfg_fixed (Some 1000) f v x0 bs = Panic.
Proof. exact unguarded_refuted. Qed.
Print Assumptions c10_unguarded_refuted.
