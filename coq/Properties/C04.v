(* C04 — a reported success identifies exactly where and what was written.
   Property statements only; each is closed by [exact] of a lemma proved in coq/C04/Proofs.v / Examples.v.
   Vocabulary (coq/C04/Model.v): [add_all c (new_set pid ep) l] = newProduceSet + one produceSet.add per element of l
   (any topic/partition keys, any payloads, headers, timestamps, sequence numbers, failing encoders);
   [build_part c x] = what buildRequest puts into the request for one partition of the set (None = the Go code panics);
   [decoded_view r] = what the broker's decoder returns for the bytes the encoder writes for r (coq/Wire, C09a);
   [append_records base r] = the leader appending those records at log end offset [base] (= the base offset it answers);
   [handle_success c base bts msgs] = brokerProducer.handleSuccess on a NoError block with that base offset and Timestamp;
   [image c m] = the log entry that IS message m: its key and value (nil and empty distinguished), its headers from
   0.11 on (below 0.11 the dispatcher refuses messages with headers), its timestamp (the supplied one — or time.Now()
   when none was supplied — rounded down to a millisecond) from 0.10 on, no timestamp below 0.10 (message format v0). *)
From Coq Require Import List ZArith Bool.
From SV Require Import Wire.Bytes Wire.Prim Wire.PushPop Wire.PrimProofs Wire.Records Wire.BatchProofs
  C04.Model C04.Proofs C04.ProofsWire C04.ProofsProducer C04.ProofsDec C04.Examples.
From SV Require Gen.DecTypes Gen.DecC17.
From SV Require Producer.Msg Producer.Compose.
Import ListNotations.
Open Scope Z_scope.

(* Message i of a partition's batch is reported at base + i, and the log holds exactly that message there — for every
   version generation, codec, idempotence setting, batch composition and base offset. *)
(* [handle_success c base bts msgs] = the ErrNoError branch of handleSuccess for a block with base offset [base] and
   Timestamp [bts] (ZERO_TIME: log_append_time = -1 / no such field): the offset is assigned WHETHER OR NOT the block carries
   a log-append time; the reported Timestamp is the block's from 0.10 when it is set, the application's own otherwise. *)
Theorem c04_offset_identifies : forall c pid pepoch l k x r base bts i m,
  part_lookup k (s_parts (fst (add_all c (new_set pid pepoch) l))) = Some x ->
  build_part c x = Some r -> nth_error (ps_msgs x) i = Some m ->
  nth_error (handle_success c base bts (ps_msgs x)) i = Some (m, base + Z.of_nat i, reported_ts c bts m) /\
  log_lookup (base + Z.of_nat i) (append_records base (decoded_view r)) = Some (image c m).
Proof. exact offset_identifies. Qed.
Print Assumptions c04_offset_identifies.

Theorem c04_reported_timestamp : forall c bts m,
  reported_ts c bts m = if v0_10 c && negb (bts =? ZERO_TIME) then bts else pm_ts m.
Proof. reflexivity. Qed.
Print Assumptions c04_reported_timestamp.

(* topic with LogAppendTime: the leader stamps what it appends with its clock and answers it: same offsets, the log entry is
   the message's key, value and headers with the broker's time, which is also the Timestamp reported to the application *)
Theorem c04_offset_identifies_log_append : forall c pid pepoch l k x r base lat i m,
  part_lookup k (s_parts (fst (add_all c (new_set pid pepoch) l))) = Some x ->
  build_part c x = Some r -> nth_error (ps_msgs x) i = Some m -> v0_10 c = true -> lat <> ZERO_TIME ->
  nth_error (handle_success c base lat (ps_msgs x)) i = Some (m, base + Z.of_nat i, lat) /\
  log_lookup (base + Z.of_nat i) (stamp_log lat (append_records base (decoded_view r))) =
    Some (mkEntry (pm_key m) (pm_value m) (if v0_11 c then pm_headers m else []) (Some lat)).
Proof. exact offset_identifies_log_append. Qed.
Print Assumptions c04_offset_identifies_log_append.

(* ... where "exactly that message" means: *)
Theorem c04_image_preserves : forall c m,
  e_key (image c m) = pm_key m /\ e_value (image c m) = pm_value m /\
  (v0_11 c = true -> e_headers (image c m) = pm_headers m) /\
  (v0_11 c = false -> e_headers (image c m) = []) /\
  (v0_10 c = true -> pm_ts m <> ZERO_TIME -> e_ts (image c m) = Some (pm_ts m / MS * MS)) /\
  (v0_10 c = true -> pm_ts m = ZERO_TIME -> e_ts (image c m) = Some (pm_now m / MS * MS)) /\
  (v0_10 c = false -> e_ts (image c m) = None).
Proof. exact image_spec. Qed.
Print Assumptions c04_image_preserves.

(* What the broker decodes and appends for a partition is, in order, exactly the messages produceSet.add accepted for
   that partition (the submitted ones minus those whose encoder failed or that tripped the sequence assertion). *)
Theorem c04_request_decodes_to_submitted : forall c pid pepoch l k x r base,
  part_lookup k (s_parts (fst (add_all c (new_set pid pepoch) l))) = Some x -> build_part c x = Some r ->
  ps_msgs x = msgs_of k (accepted c (new_set pid pepoch) l) /\
  append_records base (decoded_view r) = placed_from base (map (image c) (ps_msgs x)).
Proof. exact request_decodes_to_submitted. Qed.
Print Assumptions c04_request_decodes_to_submitted.

(* Down to the bytes, for Kafka >= 0.11 (record batches; through coq/Wire/BatchProofs.v, C09a): whatever codec functions
   [compress]/[decompress] with decompress (compress x) = x are used, the bytes RecordBatch.encode writes for what
   buildRequest built (the bytes prescribed by the put-calls of [batch_ops]: [spec_bytes], which is what the two-pass
   encode() writes, c09_prim_sizing_agrees_scripts) are decoded by Records.decode, wherever they stand in the request, to
   exactly [decoded_view] of it.  [msg_fits]: payloads and header lists shorter than 2^31, effective timestamp between the
   epoch and 2262.  (Legacy message sets: tied by the correspondence only, see checks/notes/C04.md.) *)
Theorem c04_batch_on_the_wire : forall (compress decompress : Z -> list Z -> option (list Z)),
  (forall c x y, compress c x = Some y -> decompress c y = Some x) ->
  forall c pid pepoch l k x r,
  v0_11 c = true -> cfg_fits c pid pepoch ->
  Forall (fun km => msg_fits (snd km) /\ in_i32 (pm_seq (snd km))) l -> len l < MAXLEN ->
  part_lookup k (s_parts (fst (add_all c (new_set pid pepoch) l))) = Some x -> build_part c x = Some r ->
  exists b, r = RDefault b /\
    forall ops bs, batch_ops compress b = inr ops -> spec_bytes ops = inr bs ->
    forall depth d rest, at_ d (bs ++ rest) -> len (raw d) < MAXLEN ->
    exists d', records_decode_top decompress depth d = Ok (decoded_view r) d' /\ raw d' = raw d /\ off d' = off d + len bs.
Proof. exact batch_on_the_wire. Qed.
Print Assumptions c04_batch_on_the_wire.

(* buildRequest never panics on uncompressed sets and record batches; the request version is the protocol's *)
Theorem c04_request_built : forall c x, aligned c x -> ps_msgs x <> [] ->
  v0_11 c = true \/ c_codec c = 0 -> exists r, build_part c x = Some r.
Proof. exact build_part_total. Qed.
Print Assumptions c04_request_built.

Theorem c04_request_version : forall c,
  req_version c = (if (c_codec c =? 4) && (3 <=? c_gen c) then 7 else if 2 <=? c_gen c then 3 else if 1 <=? c_gen c then 2 else 0).
Proof. exact req_version_spec. Qed.
Print Assumptions c04_request_version.

(* The reported partition is partitions[choice] of the first pass (Partitions or WritablePartitions as the
   partitioner's consistency flag says), whatever later passes (retries) see. *)
Theorem c04_partition_is_choice : forall p ps cur,
  route_all 0 cur (p :: ps) = partition_message (pa_consistent p) (pa_all p) (pa_writable p) (pa_choice p).
Proof. exact partition_is_choice. Qed.
Print Assumptions c04_partition_is_choice.

Theorem c04_partition_message_spec : forall consistent all writable ch q,
  partition_message consistent all writable ch = RPart q ->
  exists partitions i, (if consistent then all else writable) = inl partitions /\ ch = PChoice i /\
                       0 <= i < len partitions /\ nth_error partitions (Z.to_nat i) = Some q.
Proof. exact partition_message_spec. Qed.
Print Assumptions c04_partition_message_spec.

(* The routing model is the code: the two decision slices of topicProducer.partitionMessage that go/decgen regenerates from
   the source on every run (coq/Gen/DecC17.v; checks/c04.py runs run_decgen(c, "C17")) compute [partition_message]. *)
Theorem c04_tie_partition_pick : forall consistent parts ch cur err, len parts < 2147483648 ->
  routed_of (SV.Gen.DecC17.partition_pick err cur parts (choice_val ch) (choice_err ch)) =
  partition_message consistent (inl parts) (inl parts) ch.
Proof. exact tie_partition_pick. Qed.
Print Assumptions c04_tie_partition_pick.

Theorem c04_tie_partition_source : forall partitions err dyn msg_requires requires all_parts all_err wr_parts wr_err,
  SV.Gen.DecC17.partition_source partitions err dyn msg_requires requires all_parts all_err wr_parts wr_err =
  (if (if dyn then msg_requires else requires) then (all_parts, all_err) else (wr_parts, wr_err), SV.Gen.DecTypes.ExFall).
Proof. exact tie_partition_source. Qed.
Print Assumptions c04_tie_partition_source.

(* Nothing is added: the records appended are the images of the set's messages, one each, at base .. base+n-1, and every
   one of them is the image of a message handed to add for that partition. *)
Theorem c04_nothing_added : forall c pid pepoch l k x r base,
  part_lookup k (s_parts (fst (add_all c (new_set pid pepoch) l))) = Some x -> build_part c x = Some r ->
  map snd (append_records base (decoded_view r)) = map (image c) (ps_msgs x) /\
  map fst (append_records base (decoded_view r)) = map (fun i => base + Z.of_nat i) (seq 0 (length (ps_msgs x))) /\
  forall o e, In (o, e) (append_records base (decoded_view r)) -> exists km, In km l /\ fst km = k /\ e = image c (snd km).
Proof. exact nothing_added. Qed.
Print Assumptions c04_nothing_added.

(* The FULL statement, through the actor composition of coq/Producer (C01: c01_buffer_data_only, for every configuration —
   idempotent included —, schedule and fault script): a set the composed producer hands to the network ([sent_in]: at a
   broker worker's bridge or in flight, in any reachable state) holds application messages only, so every record a leader
   appends for it is the image of an APPLICATION message that was handed to add for that partition.  coq/Producer
   abstracts content away; [refines]: the content-carrying set carries, partition by partition, the flags of the abstract one. *)
Theorem c04_nothing_added_full : forall pc sched st c pid pepoch l k x r base,
  SV.Producer.Msg.c_fix_rb pc = true -> sent_in pc sched st ->
  refines (fst (add_all c (new_set pid pepoch) l)) st ->
  part_lookup k (s_parts (fst (add_all c (new_set pid pepoch) l))) = Some x -> build_part c x = Some r ->
  forall o e, In (o, e) (append_records base (decoded_view r)) ->
  exists m, In m (ps_msgs x) /\ is_data m = true /\ e = image c m /\ In (k, m) l.
Proof. exact nothing_added_full. Qed.
Print Assumptions c04_nothing_added_full.

Theorem c04_sent_sets_data_only : forall c sched st s,
  SV.Producer.Msg.c_fix_rb c = true -> sent_in c sched st -> refines s st -> set_data_only s.
Proof. exact sent_sets_data_only. Qed.
Print Assumptions c04_sent_sets_data_only.

(* The same on this property's own model of one broker worker (the one the hook points are compared with).  Current tree (/repo 1a6c550, fx = true = Model.FIN_FIX, which
   the correspondence uses): whatever the worker's state, syn is consumed and fin is bounced; the partition workers create
   syn and fin markers only. *)
Theorem c04_nothing_added_buffer : forall c evs st,
  data_only st -> markers_syn_fin evs -> data_only (bp_run FIN_FIX c st evs).
Proof. exact buffer_data_only_fixed. Qed.
Print Assumptions c04_nothing_added_buffer.

(* Before that commit (fx = false) only the guarded statement held — every marker received is a syn or finds the worker
   refusing the partition (closing, or currentRetries set) — for either variant: *)
Theorem c04_nothing_added_partial : forall fx c evs st,
  data_only st -> guarded fx c st evs -> data_only (bp_run fx c st evs).
Proof. exact buffer_data_only. Qed.
Print Assumptions c04_nothing_added_partial.

(* ... and the unguarded statement was false of the code before 1a6c550: a chaser reaching a healthy broker worker was
   accepted and written (reached by the idempotent producer; the steered replay is the first scenario of the e2e corpus;
   KNOWN_FINDINGS.json wire:marker-accepted:idempotent, status fixed). *)
Theorem c04_nothing_added_refuted : ~ (forall c st evs, data_only st -> data_only (bp_run false c st evs)).
Proof. exact buffer_data_only_refuted. Qed.
Print Assumptions c04_nothing_added_refuted.

Theorem c04_marker_accepted_witness :
  let st := bp_step false zstd21 healthy (BRecv (0, 2) fin_marker) in
  is_data fin_marker = false /\ is_syn fin_marker = false /\ refusing healthy (0, 2) = false /\
  held (0, 2) (bs_set st) = [fin_marker] /\
  exists x r, part_lookup (0, 2) (s_parts (bs_set st)) = Some x /\ build_part zstd21 x = Some r /\
    append_records 1004 (decoded_view r) = [(1004, mkEntry None None [] (Some 1600000000000000000))].
Proof. exact marker_accepted_witness. Qed.
Print Assumptions c04_marker_accepted_witness.
