(* C16 — produce requests respect the size and count limits, and flush on time. (theorems follow) *)
From Coq Require Import List ZArith.
From SV Require Import C16.Model.
