(* C16 — produce requests respect the size and count limits, and flush on time.
   Property statements only; each is closed by [exact] of a lemma proved in C16/Proofs*.v.
   [run c binit evs] is the broker worker (brokerProducer.run) on an arbitrary sequence of events (message arrivals
   with arbitrary sizes, timer, hand-off to the bridge, responses dropping partitions); events that are not enabled in
   the current state cannot happen and are skipped.  [Sent set] is a buffer handed to the bridge (= one produce request). *)
From Coq Require Import List ZArith.
From SV Require Import Gen.GoInt Gen.DecTypes Gen.DecTypes2 Gen.DecC16 Gen.DecC01 C16.Model C16.Proofs C16.ProofsTie.
Import ListNotations.
Open Scope Z_scope.

(* No produce request carries more messages than Flush.MaxMessages (when set). *)
Theorem c16_count_limit : forall c evs set, evs_wf evs -> In (Sent set) (snd (run c binit evs)) ->
  c_max_messages c > 0 -> total_msgs set <= c_max_messages c.
Proof. exact count_limit. Qed.
Print Assumptions c16_count_limit.

(* No per-partition batch of two or more messages carries MaxMessageBytes or more key+value bytes. *)
Theorem c16_batch_bytes : forall c evs set k p, evs_wf evs -> In (Sent set) (snd (run c binit evs)) ->
  In (k, p) (s_parts set) -> (2 <= length (ps_msgs p))%nat -> pset_kv p < c_max_message_bytes c.
Proof. exact batch_bytes. Qed.
Print Assumptions c16_batch_bytes.

(* Both, as the executable predicate the correspondence evaluates on measured requests. *)
Theorem c16_sent_ok : forall c evs set, evs_wf evs -> In (Sent set) (snd (run c binit evs)) -> sent_ok c set = true.
Proof. exact sent_sets_ok. Qed.
Print Assumptions c16_sent_ok.

(* encode() writes nothing longer than MaxRequestSize. *)
Theorem c16_wire_limit : forall c len,
  (forall l, send_request c len = Written l -> l = len /\ 0 <= l <= c_max_request_size c) /\
  (len > c_max_request_size c -> send_request c len = EncodeFailed).
Proof. exact wire_limit. Qed.
Print Assumptions c16_wire_limit.

(* A message whose size estimate exceeds MaxMessageBytes is not forwarded by the dispatcher ... *)
Theorem c16_oversize_rejected : forall c m,
  (byte_size (msg_version c) m > c_max_message_bytes c -> dispatcher_check c m <> DForward) /\
  (dispatcher_check c m = DForward -> byte_size (msg_version c) m <= c_max_message_bytes c) /\
  (dispatcher_check c m = DRejectTooLarge -> byte_size (msg_version c) m > c_max_message_bytes c).
Proof. exact oversize_rejected. Qed.
Print Assumptions c16_oversize_rejected.

(* With Producer.Interceptors: the size tested is the size AFTER the interceptor chain, and what is forwarded is the
   intercepted message: a message grown over the limit is rejected, an oversized one shrunk to a legal size is accepted. *)
Theorem c16_oversize_rejected_intercepted : forall c chain m,
  let m' := intercept chain m in
  snd (dispatcher_admit c chain m) = m' /\
  (byte_size (msg_version c) m' > c_max_message_bytes c -> fst (dispatcher_admit c chain m) <> DForward) /\
  (fst (dispatcher_admit c chain m) = DForward -> byte_size (msg_version c) m' <= c_max_message_bytes c) /\
  (fst (dispatcher_admit c chain m) = DRejectTooLarge -> byte_size (msg_version c) m' > c_max_message_bytes c) /\
  (byte_size (msg_version c) m' <= c_max_message_bytes c -> fst (dispatcher_admit c chain m) <> DRejectTooLarge).
Proof. exact oversize_rejected_intercepted. Qed.
Print Assumptions c16_oversize_rejected_intercepted.

(* Whatever reaches the bridge is an intercepted message that passed the test on its intercepted size. *)
Theorem c16_only_admitted_sent : forall c chain evs set k p m',
  Forall (ev_ok (fun x => msg_wf x /\ admitted c chain x)) evs ->
  In (Sent set) (snd (run c binit evs)) -> In (k, p) (s_parts set) -> In m' (ps_msgs p) ->
  admitted c chain m' /\ byte_size (msg_version c) m' <= c_max_message_bytes c.
Proof. exact only_admitted_sent. Qed.
Print Assumptions c16_only_admitted_sent.

(* ... and a worker fed with forwarded messages only never sends anything else. *)
Theorem c16_only_forwarded_sent : forall c evs set k p m,
  Forall (ev_ok (fun m => msg_wf m /\ dispatcher_check c m = DForward)) evs ->
  In (Sent set) (snd (run c binit evs)) -> In (k, p) (s_parts set) -> In m (ps_msgs p) ->
  dispatcher_check c m = DForward /\ byte_size (msg_version c) m <= c_max_message_bytes c.
Proof. exact only_forwarded_sent. Qed.
Print Assumptions c16_only_forwarded_sent.

(* Flush on time, as enabledness: after any event sequence, if the buffer is non-empty then (1) whenever a configured
   trigger holds — or none is configured, or the timer has fired — the hand-off is enabled without further input;
   (2) with a flush frequency, the hand-off is enabled or the timer is armed and its firing enables the hand-off. *)
Theorem c16_flush_enabled : forall c evs, evs_wf evs ->
  let s := fst (run c binit evs) in
  is_empty (b_buf s) = false ->
  (trigger_holds c s -> enabled s EvHandOff = true) /\
  (c_flush_frequency c > 0 ->
     enabled s EvHandOff = true \/
     (enabled s EvTimer = true /\ enabled (fst (step c s EvTimer)) EvHandOff = true)).
Proof. exact flush_enabled. Qed.
Print Assumptions c16_flush_enabled.

(* The timer invariant behind it, for every event sequence including responses that drop partitions from the buffer:
   a non-empty buffer with Flush.Frequency > 0 has its timer armed; once it has fired the hand-off is enabled. *)
Theorem c16_timer_armed : forall c evs, evs_wf evs ->
  let s := fst (run c binit evs) in
  is_empty (b_buf s) = false -> c_flush_frequency c > 0 ->
  b_armed s = true /\ (b_fired s = true -> enabled s EvHandOff = true).
Proof. exact timer_armed. Qed.
Print Assumptions c16_timer_armed.

(* After a response has taken partitions out of a waiting buffer, what is left — even if now below every count / byte
   trigger — is still flushed: hand-off enabled, or timer pending and its firing enables the hand-off. *)
Theorem c16_flush_after_drop : forall c evs drops rp, evs_wf evs -> c_flush_frequency c > 0 ->
  let s := fst (run c binit (evs ++ [EvResponse drops rp])) in
  is_empty (b_buf s) = false ->
  enabled s EvHandOff = true \/
  (enabled s EvTimer = true /\ enabled (fst (step c s EvTimer)) EvHandOff = true).
Proof. exact flush_after_drop. Qed.
Print Assumptions c16_flush_after_drop.

(* ---- the model functions equal the definitions regenerated from the sources (decgen golden coq/Gen/DecC16.v) ---- *)
Theorem c16_tie_is_at_least : forall v o, Model.is_at_least v o = DecC16.is_at_least (vlist v) (vlist o).
Proof. exact tie_is_at_least. Qed.
Print Assumptions c16_tie_is_at_least.

Theorem c16_tie_byte_size : forall ver m,
  Model.byte_size ver m = DecC16.byte_size ver (m_headers m) (m_key m) (m_val m).
Proof. exact tie_byte_size. Qed.
Print Assumptions c16_tie_byte_size.

Theorem c16_tie_empty : forall s, Model.is_empty s = DecC16.empty (s_count s).
Proof. exact tie_empty. Qed.
Print Assumptions c16_tie_empty.

Theorem c16_tie_ready_to_flush : forall c s,
  Model.ready_to_flush c s =
  DecC16.ready_to_flush (s_bytes s) (s_count s) (c_flush_frequency c) (c_flush_bytes c) (c_flush_messages c).
Proof. exact tie_ready_to_flush. Qed.
Print Assumptions c16_tie_ready_to_flush.

Theorem c16_tie_would_overflow : forall c s m,
  Model.would_overflow c s m =
  DecC16.would_overflow (s_bytes s) (s_count s) (is_some (part_bytes s m)) (part_bytes s m) (vlist (c_version c))
    (c_max_request_size c) (c_max_message_bytes c) (c_max_messages c) (m_headers m) (m_key m) (m_val m).
Proof. exact tie_would_overflow. Qed.
Print Assumptions c16_tie_would_overflow.

Theorem c16_tie_dispatcher_check : forall c m,
  Model.dispatcher_check c m =
  gen_verdict (DecC16.dispatch_check (vlist (c_version c)) (m_has_headers m) (c_max_message_bytes c)
                 (m_headers m) (m_key m) (m_val m)).
Proof. exact tie_dispatcher_check. Qed.
Print Assumptions c16_tie_dispatcher_check.

(* ---- the lines of the worker's loop itself (decgen goldens DecC16: arm_flush_timer, enable_output, roll_over;
   DecC01: needs_retry, wait_for_space_recheck, bp_input_class) ---- *)
Theorem c16_tie_arm_timer : forall f armed,
  (armed || (f >? 0))%bool =
  (armed || match fst (DecC16.arm_flush_timer f armed) with [] => false | _ => true end)%bool.
Proof. exact tie_arm_timer. Qed.
Print Assumptions c16_tie_arm_timer.

Theorem c16_tie_enable_output : forall c s o,
  b_out (recompute c s) =
  is_some (fst (DecC16.enable_output o (b_fired s) (s_bytes (b_buf s)) (s_count (b_buf s))
                  (c_flush_frequency c) (c_flush_bytes c) (c_flush_messages c))).
Proof. exact tie_enable_output. Qed.
Print Assumptions c16_tie_enable_output.

Theorem c16_tie_roll_over : forall s t f,
  let '(t', f', acts) := DecC16.roll_over t f in
  b_armed (Model.roll_over s) = is_some t' /\ b_fired (Model.roll_over s) = f' /\
  b_buf (Model.roll_over s) = empty_set /\ acts = [BP_new_buffer] /\
  b_out (Model.roll_over s) = b_out s /\ b_pending (Model.roll_over s) = b_pending s.
Proof. exact tie_roll_over. Qed.
Print Assumptions c16_tie_roll_over.

Theorem c16_tie_wait_recheck : forall c s m drops closing cur, b_pending s = Some m ->
  let s' := handle_response s drops in
  step c s (EvResponse drops (retry_flag closing cur)) =
  match DecC01.wait_for_space_recheck false closing cur (would_overflow c (b_buf s') m) with
  | ExReturn ENil => do_add c s' m
  | ExReturn _ => (set_pending s' None, [Retried m])
  | _ => (s', [])
  end.
Proof. exact tie_wait_recheck. Qed.
Print Assumptions c16_tie_wait_recheck.

Theorem c16_tie_input_class : forall flags closing cur nilmap, Z.land flags 1 =? 1 = false ->
  (input_retry_flag flags closing cur = false <->
   snd (DecC01.bp_input_class flags closing cur nilmap) = ExFall) /\
  (input_retry_flag flags closing cur = true ->
   snd (DecC01.bp_input_class flags closing cur nilmap) = ExContinue /\
   exists e rest, fst (DecC01.bp_input_class flags closing cur nilmap) = BP_retry e :: rest).
Proof. exact tie_input_class. Qed.
Print Assumptions c16_tie_input_class.
