(* C07 — consumer-group sessions follow the documented life-cycle and resume from commits.
   Property statements only; each is closed by [exact] of a lemma proved in coq/C07/Proofs*.v.
   [trace cf w ins] is the event sequence of the member model (C07/Model.v) under the input list [ins]:
   coordinator verdicts, handler behaviours, cancellation / Close, timer expiry and the interleaving of the claim
   goroutines are all inputs, so "forall ins" is "for every coordinator script, handler behaviour and schedule",
   over any number of successive Consume calls.  The acceptors [hook_ok] / [identity_ok] are in C07/Spec.v. *)
From Coq Require Import List ZArith String.
From SV Require Import C07.Model C07.Spec C07.Corr C07.ProofsHook C07.ProofsId C07.ProofsOffsets C07.ProofsEnds C07.ProofsCorr C07.ProofsJoin C07.ProofsReturns.
From SV Require Import Gen.GoInt Gen.DecTypes Gen.DecC07.
Import ListNotations.
Open Scope Z_scope.

(* Setup once before any ConsumeClaim; at most one ConsumeClaim per assigned partition, exactly one unless the
   session was already ending when the claim goroutine started or the claim could not be created; records only
   inside ConsumeClaim; Cleanup once, after every started ConsumeClaim returned and only when the session is
   ending; final commit after Cleanup; Consume returns last. *)
Theorem c07_hook_order : forall cf store log ins, hook_ok (trace cf (init_world store log) ins).
Proof. exact hook_order_holds. Qed.
Print Assumptions c07_hook_order.

(* Every sync / heartbeat / commit carries the member id and generation issued by the join that opened the session;
   every join carries the id the member holds; a fencing answer (join or sync) clears it, so the next join is
   made with a fresh identity; LeaveGroup carries the held id. *)
Theorem c07_identity : forall cf store log ins, identity_ok (trace cf (init_world store log) ins).
Proof. exact identity_holds. Qed.
Print Assumptions c07_identity.

(* Each of the five causes ends the session: the session context becomes done (and stays done, c07_ctx_stable),
   which wakes Consume up into release. *)
Theorem c07_session_ends : forall cf w,
  w_phase w = PRunning ->
  s_ctx (fst (step cf w ICancel)) = true /\
  (s_hb w = true -> forall v, v = HRebalance \/ v = HUnknownMember \/ v = HIllegalGen -> s_ctx (fst (step cf w (IHeartbeat v))) = true) /\
  (forall p, In (EvClaimReturn p) (snd (step cf w (IClaimReturn p))) -> s_ctx (fst (step cf w (IClaimReturn p))) = true) /\
  (forall p a1 a2, (In (EvClaimSkip p) (snd (step cf w (IClaimGo p a1 a2))) \/ In (EvClaimFail p) (snd (step cf w (IClaimGo p a1 a2)))) ->
               s_ctx (fst (step cf w (IClaimGo p a1 a2))) = true) /\
  (ending (fst (step cf w IClose)) = true /\ s_ctx (fst (step cf (fst (step cf w IClose)) IWatch)) = true) /\
  (forall w', w_phase w' = PRunning -> s_ctx w' = true -> w_phase (fst (step cf w' IRelease)) = PReleasing).
Proof. exact session_ends_holds. Qed.
Print Assumptions c07_session_ends.

Theorem c07_ctx_stable : forall cf w i, s_ctx w = true -> w_phase w <> PIdle -> s_ctx (fst (step cf w i)) = true.
Proof. exact ctx_stable. Qed.
Print Assumptions c07_ctx_stable.

(* In every reachable state, a ConsumeClaim that starts has InitialOffset = the offset the coordinator stores for the
   partition if that lies inside the log, else Consumer.Offsets.Initial, and its first record is that offset
   resolved against the log; the fallback to Initial is taken only for an out-of-range offset: when the first
   ConsumePartition fails for any other reason (a1 = false) no ConsumeClaim starts (the claim goroutine ends the session). *)
Theorem c07_claim_start : forall cf store log ins p a1 a2 o,
  valid_initial cf ->
  let w := final cf (init_world store log) ins in
  In (EvClaimStart p o) (snd (step cf w (IClaimGo p a1 a2))) ->
  let '(lo, hi) := log_get (w_log w) p in
  a1 = true /\ o = start_spec cf (committed (w_store w) p) lo hi /\
  exists c, claim_find (s_claims (fst (step cf w (IClaimGo p a1 a2)))) p = Some c /\ cl_state c = CRunning /\
            cl_start c = resolve o lo hi /\ cl_consumed c = 0%nat.
Proof. exact claim_start_holds. Qed.
Print Assumptions c07_claim_start.

(* Across any number of sessions: whatever lies between the group's position before the first session and the
   offset the coordinator stores now has been delivered to a handler.  With c07_claim_start (every session starts
   at the stored offset) no record is skipped, and what was not committed is delivered again.
   [wf0]: offsets are non-negative, the initially committed offset lies inside the log, and without one
   Consumer.Offsets.Initial is OffsetOldest (with OffsetNewest and no commit, records may be skipped by design). *)
Theorem c07_no_skip : forall cf store log p, wf0 cf store log p -> forall ins c o,
  let '(w, tr) := run cf (init_world store log) ins in
  store_get (w_store w) p = Some c -> base store log p <= o < c -> In (EvDeliver p o) tr.
Proof. exact no_skip_holds. Qed.
Print Assumptions c07_no_skip.

(* Joining is bounded by the coordinator's fencing: over any run, the number of JoinGroup requests is at most the number
   of UnknownMemberId / IllegalGeneration answers plus (Rebalance.Retry.Max + 1) per Consume call.  (A coordinator that
   fences for ever keeps newSession joining for ever: C07/Examples.v fencing_forever — the re-join uses up no retry.) *)
Theorem c07_join_bound : forall cf store log ins,
  let c := count (trace cf (init_world store log) ins) in
  n_join c <= n_fenced c + (Z.max (c_retries cf) 0 + 1) * n_call c.
Proof. exact join_bound_holds. Qed.
Print Assumptions c07_join_bound.

(* The correspondence check evaluates exactly [Model.run]. *)
Theorem c07_corr_runs_model : forall cf lv0 c w, let '(ins, w', tr) := run_call cf lv0 c w in run cf w ins = (w', tr).
Proof. exact run_call_is_run. Qed.
Print Assumptions c07_corr_runs_model.

(* Ties to the error-class switches regenerated from consumer_group.go (coq/Gen/DecC07.v). *)
Theorem c07_tie_join : forall cf w r v code mid jmid,
  w_phase w = PJoin r JJoin -> jv_code v code ->
  let '(w', evs) := step cf w (IJoin v) in
  ns_agrees w (snd (join_error_class mid r code jmid))
    (fun w' => exists m g l, v = JOk m g l /\ w_phase w' = PJoin r (JSync m g l) /\ w_member w' = m) w' evs /\
  match v with
  | JOk _ _ _ => fst (join_error_class mid r code jmid) = jmid
  | JUnknownMember | JIllegalGen => fst (join_error_class mid r code jmid) = ""%string
  | _ => fst (join_error_class mid r code jmid) = mid
  end.
Proof. exact tie_join. Qed.
Print Assumptions c07_tie_join.

Theorem c07_tie_sync : forall cf w r m g l v code mid,
  w_phase w = PJoin r (JSync m g l) -> sv_code v code ->
  let '(w', evs) := step cf w (ISync v) in
  ns_agrees w (snd (sync_error_class mid r code))
    (fun w' => exists plan, v = SOk plan /\ s_member w' = m /\ s_gen w' = g /\ s_hb w' = true /\ In (EvAssigned plan) evs) w' evs /\
  match v with
  | SUnknownMember | SIllegalGen => fst (sync_error_class mid r code) = ""%string
  | _ => fst (sync_error_class mid r code) = mid
  end.
Proof. exact tie_sync. Qed.
Print Assumptions c07_tie_sync.

Theorem c07_tie_heartbeat : forall cf w v code,
  s_hb w = true -> hv_code v code ->
  let '(r', acts, ex) := heartbeat_error_class (s_hbretries w) code (c_hb_retries cf) in
  let w' := fst (step cf w (IHeartbeat v)) in
  match ex with
  | ExFall => s_hb w' = true /\ s_hbretries w' = r' /\ s_ctx w' = s_ctx w
  | ExReturn _ => s_hb w' = false /\ s_ctx w' = true /\
                  (acts = [] <-> (v = HRebalance \/ v = HUnknownMember \/ v = HIllegalGen))
  | _ => False
  end.
Proof. exact tie_heartbeat. Qed.
Print Assumptions c07_tie_heartbeat.

(* newConsumerGroupClaim's error test (regenerated as DecC07.claim_start) decides exactly what the model's claim_try does. *)
Theorem c07_tie_claim_start : forall cf pom lo hi a1 a2 e1 e2,
  gerr_eqb e1 ENil = false -> gerr_eqb e1 (EK 1) = false -> gerr_eqb e2 ENil = false ->
  let o := next_offset cf pom in
  let script := [(tt, consume_result lo hi a1 e1 o); (tt, consume_result lo hi a2 e2 (c_initial cf))] in
  match claim_start o script (c_initial cf) with
  | (off, _, ExFall) => claim_try cf pom lo hi a1 a2 = Some off
  | (_, _, ExReturn (_, err)) => claim_try cf pom lo hi a1 a2 = None /\ err <> ENil
  | _ => False
  end.
Proof. exact tie_claim_start. Qed.
Print Assumptions c07_tie_claim_start.

(* Consume returns.  [winding w]: the session context is done and Consume has not returned (waiting on the context with it
   done, releasing, final commit, stopping the heartbeat).  From every reachable such state: no step of the member or of a
   claim goroutine increases the measure [mu] (claims not yet exited + commit attempts left + phase rank), and at most [mu w]
   further steps (Consume's own and those of the claim goroutines still alive, for any answers to the final commits) take
   Consume to its return.  Premise, built into the model: a handler's ConsumeClaim returns once its claim's Messages() is
   closed (IClaimReturn is enabled when the session is ending); a handler that never returns is outside this statement. *)
Theorem c07_consume_returns : forall cf store log ins,
  let w := final cf (init_world store log) ins in
  winding w ->
  (forall i, (mu cf (fst (step cf w i)) <= mu cf w)%nat) /\
  exists ins', (List.length ins' <= mu cf w)%nat /\ w_phase (final cf w ins') = PIdle /\ exists r, In (EvReturn r) (trace cf w ins').
Proof. exact consume_returns_holds. Qed.
Print Assumptions c07_consume_returns.

(* Errors of a claim's partition consumer are drained while the claim lives, errors of the offset managers from the start of
   the session until the final flush is over (hook acceptor); both are handed to handleError, which never blocks:
   reporting one changes nothing in the member, and no run depends on whether errors are delivered to / read by the
   application (so neither do the session-end causes, the final commit attempts, c07_consume_returns, or the hook order). *)
Theorem c07_errors_never_block : forall cf,
  (forall w p d, fst (step cf w (IClaimError p d)) = w /\ fst (step cf w (IPomError p d)) = w) /\
  (forall ins w, final cf w (map undeliver ins) = final cf w ins).
Proof. exact errors_never_block. Qed.
Print Assumptions c07_errors_never_block.
