(* C07 — placeholder while the proofs are being written. *)
From SV Require Import C07.Model.
