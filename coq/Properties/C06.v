(* C06 — committed offsets are marked offsets, and no mark is lost (offset_manager.go).
   Property statements only; each is closed by [exact] of a lemma proved in C06/Proofs*.v.
   [reach c st0 ops] is the state after an arbitrary list of operations (application calls
   Manage/Mark/Reset/PClose interleaved in any way with the committer's Construct/Respond/Release
   and with Close), from an empty manager and an arbitrary coordinator store. *)
From Coq Require Import List ZArith Bool.
From SV Require Import C06.Model C06.Spec C06.Proofs C06.Proofs2 C06.Proofs3 C06.Proofs4.
From SV Require Gen.DecC06.   (* not imported: its names coincide with the model's *)
From SV Require Import Gen.DecTypes Gen.DecTypes2 C06.TieGen.
Import ListNotations.
Open Scope Z_scope.

(* every (offset, metadata) pair of every request sent to the coordinator was the argument of a
   MarkOffset / ResetOffset call on that partition that took effect *)
Theorem c06_committed_is_marked : forall c st0 ops v r blocks p o t m,
  In (EvReq v r blocks) (log (reach c st0 ops)) -> In (p, (o, t, m)) blocks -> Marked c st0 ops p o m.
Proof. exact committed_is_marked. Qed.
Print Assumptions c06_committed_is_marked.

(* MarkOffset never lowers a pending position (any state, any partition) *)
Theorem c06_mark_monotone : forall c s p o m q x,
  get q (poms s) = Some x ->
  exists x', get q (poms (step c s (Mark p o m))) = Some x' /\ p_off x <= p_off x' /\
             (p_off x' = p_off x /\ p_meta x' = p_meta x \/ q = p /\ p_off x' = o /\ p_meta x' = m /\ p_off x < o).
Proof. exact mark_monotone. Qed.
Print Assumptions c06_mark_monotone.

(* ResetOffset never raises a pending position *)
Theorem c06_reset_downward : forall c s p o m q x,
  get q (poms s) = Some x ->
  exists x', get q (poms (step c s (Reset p o m))) = Some x' /\ p_off x' <= p_off x /\
             (p_off x' = p_off x /\ p_meta x' = p_meta x \/ q = p /\ p_off x' = o /\ p_meta x' = m /\ o <= p_off x).
Proof. exact reset_downward. Qed.
Print Assumptions c06_reset_downward.

(* nothing else (commit machinery, replies, AsyncClose, Close) moves a pending position *)
Theorem c06_position_kept : forall c s o q x,
  moves_position o = false -> get q (poms s) = Some x ->
  exists x', get q (poms (step c s o)) = Some x' /\ pair_of x' = pair_of x.
Proof. exact position_kept. Qed.
Print Assumptions c06_position_kept.

(* a step that takes the stored offset of p backwards happens only after a ResetOffset lowered p *)
Theorem c06_store_no_regress : forall c st0 ops o p,
  fst (store_get p (step c (reach c st0 ops) o)) < fst (store_get p (reach c st0 ops)) ->
  LowReset c st0 ops p.
Proof. exact store_no_regress. Qed.
Print Assumptions c06_store_no_regress.

(* hence without ResetOffset calls on p its stored offset never decreases along the run *)
Theorem c06_store_monotone_without_reset : forall c st0 p b a,
  (forall o m, ~ In (Reset p o m) (a ++ b)) ->
  fst (store_get p (reach c st0 a)) <= fst (store_get p (reach c st0 (a ++ b))).
Proof. exact store_monotone_without_reset. Qed.
Print Assumptions c06_store_monotone_without_reset.

(* NextOffset: the pending position, or the configured initial one when there is none ... *)
Theorem c06_next_offset : forall c x,
  next_offset c x = if 0 <=? p_off x then (p_off x, p_meta x) else (c_initial c, 0).
Proof. exact next_offset_spec. Qed.
Print Assumptions c06_next_offset.

(* ... and a fresh handle's pending position is the coordinator's stored one *)
Theorem c06_next_offset_fresh : forall c s p,
  closed s = false -> (forall x, get p (poms s) = Some x -> p_managed x = false) ->
  exists x, get p (poms (step c s (Manage p))) = Some x /\ p_managed x = true /\ p_dirty x = false /\
            pair_of x = store_get p s /\
            next_offset c x = if 0 <=? fst (store_get p s) then store_get p s else (c_initial c, 0).
Proof. exact next_offset_fresh. Qed.
Print Assumptions c06_next_offset_fresh.

(* no mark is lost: in every reachable state a managed partition is dirty, or the coordinator stores
   exactly its pending position (so a mark made inside a commit window keeps the partition dirty
   unless the stored pair already equals it) ... *)
Theorem c06_no_lost_mark : forall c st0 ops p x,
  get p (poms (reach c st0 ops)) = Some x -> p_managed x = true ->
  p_dirty x = true \/ store_get p (reach c st0 ops) = pair_of x.
Proof. exact no_lost_mark. Qed.
Print Assumptions c06_no_lost_mark.

(* ... a dirty managed partition is in the next request with its pending position ... *)
Theorem c06_dirty_is_sent : forall c st0 ops p x,
  let s := reach c st0 ops in
  pc s = Idle -> closed s = false ->
  get p (poms s) = Some x -> p_managed x = true -> p_dirty x = true ->
  exists req, pc (step c s Construct) = Window req /\ get p req = Some (pair_of x).
Proof. exact dirty_is_sent. Qed.
Print Assumptions c06_dirty_is_sent.

(* ... and a request in flight is sent whatever the reply (unless the coordinator lookup fails) *)
Theorem c06_sent_is_logged : forall c s req r,
  closed s = false -> pc s = Window req -> reaches_coordinator s r = true ->
  In (req_event c req) (log (step c s (Respond r))).
Proof. exact sent_is_logged. Qed.
Print Assumptions c06_sent_is_logged.

(* Close with auto-commit: if the coordinator answers "no error" for p in every attempt it receives
   and no application call runs meanwhile, then when Close has returned the coordinator stores the
   position p had when Close began *)
Theorem c06_close_flushes : forall c st0 ops rest p x,
  c_autocommit c = true ->
  let s0 := reach c st0 ops in
  pc s0 = Idle -> closing s0 = None -> closed s0 = false ->
  get p (poms s0) = Some x -> p_managed x = true ->
  Forall (fun o => committer_op o = true /\ accepts p o = true) rest ->
  let s1 := run c rest (step c s0 CloseBegin) in
  closed s1 = true -> store_get p s1 = pair_of x.
Proof. exact close_flushes. Qed.
Print Assumptions c06_close_flushes.

(* Close always returns: after at most Retry.Max + 1 attempts, whatever the coordinator answers
   (and immediately when auto-commit is off) *)
Theorem c06_close_terminates : forall c st0 ops rs,
  let s0 := reach c st0 ops in
  pc s0 = Idle -> closing s0 = None -> closed s0 = false ->
  length rs = S (c_retry_max c) ->
  closed (run c (flat_map attempt rs) (step c s0 CloseBegin)) = true.
Proof. exact close_terminates. Qed.
Print Assumptions c06_close_terminates.

(* ---- regeneration tie: the model's leaf functions are the definitions decgen regenerates from
   offset_manager.go on every run (golden coq/Gen/DecC06.v; obligations coq/Tie/DecEq_C06.v).
   [st_of enc x] = (offset, metadata, dirty) of the model's record, [frame_of x] = (done, managed),
   [enc] any injective naming of metadata strings by the model's integers with enc 0 = "" ([menc] is one). *)
Theorem c06_tie_mark : forall enc o m x,
  st_of enc (Model.mark o m x) = DecC06.mark_offset (p_off x) (enc (p_meta x)) (p_dirty x) o (enc m) /\
  frame_of (Model.mark o m x) = frame_of x.
Proof. exact tie_mark. Qed.
Print Assumptions c06_tie_mark.

Theorem c06_tie_reset : forall enc o m x,
  st_of enc (Model.reset o m x) = DecC06.reset_offset (p_off x) (enc (p_meta x)) (p_dirty x) o (enc m) /\
  frame_of (Model.reset o m x) = frame_of x.
Proof. exact tie_reset. Qed.
Print Assumptions c06_tie_reset.

Theorem c06_tie_update_committed : forall enc, meta_enc_ok enc -> forall o m x,
  st_of enc (Model.update_committed o m x) =
    DecC06.update_committed (p_off x) (enc (p_meta x)) (p_dirty x) o (enc m) /\
  frame_of (Model.update_committed o m x) = frame_of x.
Proof. exact tie_update_committed. Qed.
Print Assumptions c06_tie_update_committed.

Theorem c06_tie_next_offset : forall enc, meta_enc_ok enc -> forall c x,
  (fst (Model.next_offset c x), enc (snd (Model.next_offset c x))) =
    DecC06.next_offset (p_off x) (enc (p_meta x)) (c_initial c).
Proof. exact tie_next_offset. Qed.
Print Assumptions c06_tie_next_offset.

(* handleResponse's verdict, composed form: for a managed partition with a block in the request, the
   model's three per-partition functions are the three readings of the generated action list *)
Theorem c06_tie_verdict : forall enc tir code present req codes p x bo bm r,
  p_managed x = true -> get p req = Some (bo, bm) -> reads_as tir code present (get p codes) ->
  let acts := fst (DecC06.commit_verdict tir code present bo (enc bm)) in
  handle_one req codes p x =
    (if acts_update acts then Model.update_committed bo bm (applied_flag x) else x) /\
  (forall o s, In (OM_update_committed o s) acts -> o = bo /\ s = enc bm) /\
  resp_errs req codes ((p, x) :: r) = map (fun e => EvErr p (err_id e)) (acts_errs acts) ++ resp_errs req codes r /\
  resp_releases req codes ((p, x) :: r) = (acts_release acts || resp_releases req codes r).
Proof. exact tie_verdict. Qed.
Print Assumptions c06_tie_verdict.

(* the generated verdict as a function of the model's class of the error code (and its exit) *)
Theorem c06_tie_verdict_class : forall enc tir code present v bo bm,
  reads_as tir code present v ->
  DecC06.commit_verdict tir code present bo (enc bm) =
    (acts_of enc v bo bm, match v with Some _ => ExFall | None => ExContinue end).
Proof. exact tie_verdict_class. Qed.
Print Assumptions c06_tie_verdict_class.

(* the naming hypothesis is satisfiable *)
Theorem c06_tie_enc_exists : meta_enc_ok menc.
Proof. exact menc_ok. Qed.
Print Assumptions c06_tie_enc_exists.

(* Close's final-flush loop: the generated slice, fed with the remaining-POM counts the model produces along the run
   ([close_script]) and the model's configuration, makes exactly the flush attempts the model makes ([close_flush_count]:
   attempts started with closed = false), consumes exactly that much of the script, and never more than Retry.Max + 1 *)
Theorem c06_tie_close_attempts : forall c s0 rs,
  pc s0 = Idle -> closing s0 = None -> closed s0 = false -> (S (c_retry_max c) <= length rs)%nat ->
  let s1 := step c s0 CloseBegin in
  let k := close_flush_count c s1 rs in
  DecC06.close_final_flush (close_script c s1 rs) (c_autocommit c) (Z.of_nat (c_retry_max c)) =
    (skipn k (close_script c s1 rs), repeat OC_flush k, @ExFall unit) /\
  (k <= S (c_retry_max c))%nat.
Proof. exact tie_close_attempts. Qed.
Print Assumptions c06_tie_close_attempts.

(* AddBlock: the generated map writes, executed on a two-level request (nil = None) under its own nil tests, are a point
   update at (topic, partition) ... *)
Theorem c06_tie_add_block_update : forall r t p o ts m t' p',
  nlookup (add_block_on r t p o ts m) t' p' =
    if String.eqb t' t && (p' =? p) then Some (o, ts, m) else nlookup r t' p'.
Proof. exact tie_add_block_update. Qed.
Print Assumptions c06_tie_add_block_update.

(* ... and the request the model logs is, partition for partition, what these AddBlock calls build from an empty request
   ([tp]: any injective naming of the model's partition ids as (topic, partition)) *)
Theorem c06_tie_add_block : forall enc (tp : pid -> String.string * Z), (forall a b, tp a = tp b -> a = b) ->
  forall c req q,
  req_event c req = EvReq (req_version c) (c_retention c) (event_blocks c req) /\
  nlookup (build enc tp (event_blocks c req) None) (fst (tp q)) (snd (tp q)) =
    option_map (enc_blk enc) (get q (rev (event_blocks c req))).
Proof. exact tie_add_block. Qed.
Print Assumptions c06_tie_add_block.
