(* C10 (part c: the primitive getters of real_decoder.go, regenerated) — the hand model Wire/Prim.v that the C10 / C09
   theorems are about takes, for every decoder state, the same decision as the definitions go/decgen translates from
   real_decoder.go on every run (SV.Gen.DecC10; checks/decgen_tie.py compares the regenerated copy with this golden):
   same error class, same new offset, same value / byte range, and no panic.  Property statements only; proofs in
   Wire/TieProofs.v.  [wf d] = 0 <= off d <= len (raw d); [small d] = len (raw d) < 2^63; [word n conv d] = the big-endian
   word at off d; [tail d] = raw d [off d :]. *)
From Coq Require Import List ZArith.
From SV Require Import Wire.Bytes Wire.Varint Wire.Prim Wire.TieProofs Gen.DecTypes.
From SV Require Gen.DecC10.
Import ListNotations.
Open Scope Z_scope.

Theorem c10_tie_int32 : forall d, wf d ->
  agrees eq (get_int32 d) (Gen.DecC10.get_int32 (off d) (len (raw d)) (word 4 i32 d)).
Proof. exact c10_tie_get_int32. Qed.
Print Assumptions c10_tie_int32.

Theorem c10_tie_uvarint : forall d, wf d ->
  agrees eq (get_uvarint d) (Gen.DecC10.get_uvarint (off d) (len (raw d)) (fst (uvarint (tail d))) (snd (uvarint (tail d)))).
Proof. exact c10_tie_get_uvarint. Qed.
Print Assumptions c10_tie_uvarint.

Theorem c10_tie_varint : forall d, wf d ->
  agrees eq (get_varint d) (Gen.DecC10.get_varint (off d) (len (raw d)) (fst (varint (tail d))) (snd (varint (tail d)))).
Proof. exact c10_tie_get_varint. Qed.
Print Assumptions c10_tie_varint.

Theorem c10_tie_array_length : forall d, wf d ->
  agrees eq (get_array_length d) (Gen.DecC10.get_array_length (off d) (len (raw d)) (word 4 i32 d)).
Proof. exact c10_tie_get_array_length. Qed.
Print Assumptions c10_tie_array_length.

Theorem c10_tie_compact_array_length : forall d, wf d -> small d ->
  agrees eq (get_compact_array_length d)
            (Gen.DecC10.get_compact_array_length (off d) (len (raw d)) (fst (uvarint (tail d))) (snd (uvarint (tail d)))).
Proof. exact c10_tie_get_compact_array_length. Qed.
Print Assumptions c10_tie_compact_array_length.

Theorem c10_tie_raw_bytes : forall length d, wf d ->
  agrees (is_range d) (get_raw_bytes length d) (Gen.DecC10.get_raw_bytes (off d) length (len (raw d))).
Proof. exact c10_tie_get_raw_bytes. Qed.
Print Assumptions c10_tie_raw_bytes.

Theorem c10_tie_bytes : forall d, wf d ->
  agrees (is_orange d) (get_bytes d) (Gen.DecC10.get_bytes (off d) (len (raw d)) (word 4 i32 d)).
Proof. exact c10_tie_get_bytes. Qed.
Print Assumptions c10_tie_bytes.

Theorem c10_tie_varint_bytes : forall d, wf d ->
  agrees (is_orange d) (get_varint_bytes d)
         (Gen.DecC10.get_varint_bytes (off d) (len (raw d)) (fst (varint (tail d))) (snd (varint (tail d)))).
Proof. exact c10_tie_get_varint_bytes. Qed.
Print Assumptions c10_tie_varint_bytes.

Theorem c10_tie_compact_bytes : forall d, wf d ->
  agrees (is_orange d) (get_compact_bytes d)
         (Gen.DecC10.get_compact_bytes (off d) (len (raw d)) (fst (uvarint (tail d))) (snd (uvarint (tail d)))).
Proof. exact c10_tie_get_compact_bytes. Qed.
Print Assumptions c10_tie_compact_bytes.

Theorem c10_tie_string : forall d, wf d ->
  agrees (is_string d) (get_string d) (Gen.DecC10.get_string (off d) (len (raw d)) (word 2 i16 d)).
Proof. exact c10_tie_get_string. Qed.
Print Assumptions c10_tie_string.

Theorem c10_tie_nullable_string : forall d, wf d ->
  agrees (is_orange d) (get_nullable_string d) (Gen.DecC10.get_nullable_string (off d) (len (raw d)) (word 2 i16 d)).
Proof. exact c10_tie_get_nullable_string. Qed.
Print Assumptions c10_tie_nullable_string.

Theorem c10_tie_compact_string : forall d, wf d ->
  agrees (is_string d) (get_compact_string d)
         (Gen.DecC10.get_compact_string (off d) (len (raw d)) (fst (uvarint (tail d))) (snd (uvarint (tail d)))).
Proof. exact c10_tie_get_compact_string. Qed.
Print Assumptions c10_tie_compact_string.

Theorem c10_tie_compact_nullable_string : forall d, wf d ->
  agrees (is_orange d) (get_compact_nullable_string d)
         (Gen.DecC10.get_compact_nullable_string (off d) (len (raw d)) (fst (uvarint (tail d))) (snd (uvarint (tail d)))).
Proof. exact c10_tie_get_compact_nullable_string. Qed.
Print Assumptions c10_tie_compact_nullable_string.

Theorem c10_tie_bool : forall d, wf d ->
  agrees eq (get_bool d) (Gen.DecC10.get_bool (off d) (len (raw d)) (word 1 i8 d)).
Proof. exact c10_tie_get_bool. Qed.
Print Assumptions c10_tie_bool.

Theorem c10_tie_empty_tagged : forall d, wf d ->
  agrees eq (get_empty_tagged d)
            (Gen.DecC10.get_empty_tagged_field_array (off d) (len (raw d)) (fst (uvarint (tail d))) (snd (uvarint (tail d)))).
Proof. exact c10_tie_get_empty_tagged. Qed.
Print Assumptions c10_tie_empty_tagged.

(* The array getters: the count field and its checks (everything before the element loop).  On ExReturn the model
   returns the same nil / error at the same offset; on ExFall the model goes on to read exactly n elements at that offset. *)
Theorem c10_tie_int32_array : forall d, wf d ->
  head_agrees (get_int32_array d)
    (fun o n => let* (l, d1) := read_ints 4 i32 (Z.to_nat n) (alloc (set_off d o) (4 * n)) in Ok (Some l) d1)
    (Gen.DecC10.int32_array_head (off d) (len (raw d)) (word 4 (fun x => x) d)).
Proof. exact c10_tie_int32_array_head. Qed.
Print Assumptions c10_tie_int32_array.

Theorem c10_tie_int64_array : forall d, wf d ->
  head_agrees (get_int64_array d)
    (fun o n => let* (l, d1) := read_ints 8 i64 (Z.to_nat n) (alloc (set_off d o) (8 * n)) in Ok (Some l) d1)
    (Gen.DecC10.int64_array_head (off d) (len (raw d)) (word 4 (fun x => x) d)).
Proof. exact c10_tie_int64_array_head. Qed.
Print Assumptions c10_tie_int64_array.

Theorem c10_tie_string_array : forall d, wf d ->
  head_agrees (get_string_array d)
    (fun o n => let* (l, d1) := read_strings (Z.to_nat n) (alloc (set_off d o) (STRING_HEADER * n)) in Ok (Some l) d1)
    (Gen.DecC10.string_array_head (off d) (len (raw d)) (word 4 (fun x => x) d)).
Proof. exact c10_tie_string_array_head. Qed.
Print Assumptions c10_tie_string_array.

(* the hypotheses are satisfiable on a non-trivial state, and the two sides compute the same there:
   a compact string "ab" (length byte 3) at offset 1 of a 5-byte buffer *)
Example c10_tie_example :
  let d := mkDec [9; 3; 97; 98; 7] 1 0 [] in
  wf d /\ get_compact_string d = Ok [97; 98] (mkDec [9; 3; 97; 98; 7] 4 2 [])
  /\ Gen.DecC10.get_compact_string 1 5 3 1 = (4, Some (2, 4), ENil).
Proof. unfold wf. cbn. repeat split; try reflexivity; discriminate. Qed.
