(* C08 — every balance strategy yields a valid partition assignment.
   Property statements only; each is closed by [exact] of a lemma proved in C08/Proofs*.v.
   [valid_plan ms ts p] (C08/Valid.v): p is a map of maps, has no unknown member, gives partitions only to subscribers
   and only existing ones, gives nothing twice, and gives every partition of every topic with a subscriber. *)
From Coq Require Import List ZArith.
From SV Require Import C08.Common C08.Range C08.RoundRobin C08.Sticky C08.StickyDirect C08.Valid
  C08.ProofsRangeValid C08.ProofsRR C08.ProofsSticky C08.ProofsStickyTerm C08.ProofsStickyScore C08.ProofsWitness.
Import ListNotations.
Open Scope Z_scope.

(* range: for all members (any iteration order of the member map, hence any outcome of the hash sort on ties), all
   subscriptions (duplicates included) and all topic maps, below 2^31 subscriptions and partitions per topic; the slice
   boundaries are the IEEE binary64 computation of coreFn (Flocq) *)
Theorem c08_range_valid : forall ms ts, wf_topics ts ->
  len (concat (map m_topics ms)) < 2 ^ 31 ->
  (forall t ps, In (t, ps) ts -> len ps < 2 ^ 31) ->
  exists p, range_plan ms ts = Some p /\ valid_plan ms ts p.
Proof. exact range_valid. Qed.
Print Assumptions c08_range_valid.

(* round robin: when every topic of the map that has partitions has a subscriber (what consumerGroup.balance passes) *)
Theorem c08_roundrobin_valid : forall ms ts, wf_topics ts -> ms <> [] -> ts <> [] ->
  (forall t ps, In (t, ps) ts -> ps <> [] -> exists m, subscribes ms m t) ->
  exists p, rr_plan ms ts = RRPlan p /\ valid_plan ms ts p.
Proof. exact rr_valid. Qed.
Print Assumptions c08_roundrobin_valid.

(* the pinned sticky code (fx = false) returns an invalid plan on stale user data *)
Theorem c08_sticky_refuted_prev_owner :
  exists fuel o ms ts p, wf_members ms /\ wf_topics ts /\ sticky_plan fuel false o ms ts = SOk p /\ ~ valid_plan ms ts p.
Proof. exact sticky_refuted_prev_owner. Qed.
Print Assumptions c08_sticky_refuted_prev_owner.

(* the reassignment loop of the sticky strategy does not terminate on an honest input, repaired or not *)
Theorem c08_sticky_refuted_terminates :
  exists o ms ts, wf_members ms /\ wf_topics ts /\
    forall fx fuel, exists p, sticky_plan fuel fx o ms ts = SFuel p.
Proof. exact sticky_refuted_terminates. Qed.
Print Assumptions c08_sticky_refuted_terminates.

(* sticky, repaired code (fx = true; fixes/c08_sticky_prev_owner.patch, in the tree since f29beca): for ALL members,
   subscriptions, topic maps, user data (any generations, conflicting, stale, deleted partitions) and ALL iteration orders
   (oracle o), and for EVERY amount of fuel given to the `for {}` loop of performReassignments: no panic, and the plan
   Plan returns - or would return if the loop were left at that point - is valid, except when the "revert" branch of
   balance() is taken while some member is set aside as fixed (that branch rebinds a local variable and would drop the
   fixed members; it was never observed reachable).  Partial: the full statement (Plan returns a valid plan) is false,
   next theorem. *)
Theorem c08_sticky_valid_partial : forall fuel o ms ts, wf_members ms -> wf_topics ts ->
  let r := sticky_plan_full fuel true o ms ts in
  match p_res r with
  | SErr => exists mm, In mm ms /\ m_ud mm = UDErr
  | SPanic => False
  | SFuel p | SOk p => (p_reverted r = true -> p_nfixed r = 0) -> valid_plan ms ts p
  end.
Proof. exact sticky_valid. Qed.
Print Assumptions c08_sticky_valid_partial.

Theorem c08_sticky_valid_refuted : ~ sticky_full_statement.
Proof. exact sticky_full_statement_refuted. Qed.
Print Assumptions c08_sticky_valid_refuted.

(* The two ways the full statement can fail - not returning, and the revert branch of balance() - are confined to runs that make
   a reverse-pair redirection in getTheActualPartitionToBeMoved (the sticky.pick call site; [plan_directb] is the executable test
   "the first [fuel] passes redirect nothing", C08/StickyDirect.v).  Every direct reassignment goes to a member at least two
   smaller and lowers the sum of squared list sizes, so: *)

(* a run without redirection leaves performReassignments within phi/2 + 1 passes ([plan_bound]) *)
Theorem c08_sticky_terminates_partial : forall fuel o ms ts, wf_members ms -> wf_topics ts ->
  plan_directb fuel true o ms ts = true -> plan_bound o ms ts <= Z.of_nat fuel ->
  forall p, p_res (sticky_plan_full fuel true o ms ts) <> SFuel p.
Proof. exact sticky_terminates_direct. Qed.
Print Assumptions c08_sticky_terminates_partial.

(* and for such runs the property holds in full, without excluded class: Plan returns, and returns a valid plan (a direct run that
   reassigned something has strictly lowered getBalanceScore, so it cannot take the revert branch) *)
Theorem c08_sticky_valid_direct : forall fuel o ms ts, wf_members ms -> wf_topics ts ->
  plan_directb fuel true o ms ts = true -> plan_bound o ms ts <= Z.of_nat fuel ->
  match p_res (sticky_plan_full fuel true o ms ts) with
  | SOk p => valid_plan ms ts p
  | SErr => exists mm, In mm ms /\ m_ud mm = UDErr
  | _ => False
  end.
Proof. exact sticky_valid_direct. Qed.
Print Assumptions c08_sticky_valid_direct.

(* conversely a sufficient, decidable criterion for not returning (satisfied by the witness after 8 passes): a pass that maps the
   state to itself while reporting a modification *)
Theorem c08_sticky_livelock_criterion : forall fx o ms ts pr k s pf,
  sticky_prepare o ms ts = Some pr ->
  run_perform k fx pr = (s, pf, PerfFuel) ->
  reassign_pass fx (pr_prev pr) (pr_c2p pr) (pr_p2c pr) (pr_parts pr) s false = (s, true, PassDone) ->
  forall fuel, (k <= fuel)%nat -> exists p, sticky_plan fuel fx o ms ts = SFuel p.
Proof. exact sticky_livelock_criterion. Qed.
Print Assumptions c08_sticky_livelock_criterion.
