(* C15 — client metadata answers reflect the latest cluster metadata.
   Property statements only; each is closed by [exact] of a lemma proved in C15/Proofs*.v.
   Vocabulary (C15/ProofsView.v): a history [h] is the list of metadata responses the client has applied, oldest
   first, each with "was a full refresh"; [fold_hist h] is the client state after them; [newest t h] is the
   newest response that spoke about topic t (it contains t, or it is a full response, which forgets every
   topic it does not contain); [ref_parts t h] / [ref_part t p h] are the partitions that response gave (the
   last entry wins) if the topic's error class stores them; [last_addr id bs] is the address the last entry
   for broker id gives in the response's broker list. *)
From Coq Require Import List ZArith Sorted.
From SV Require Import Gen.GoInt Gen.DecTypes Gen.DecTypes2 Gen.DecC15 C15.Model C15.ProofsView C15.ProofsRefresh C15.ProofsDeadline C15.ProofsAtomic C15.ProofsTie.
Import ListNotations.
Open Scope Z_scope.

(* After any sequence of responses the cached id lists of a topic are those of the reference view:
   Partitions = all ids of the newest response for the topic, WritablePartitions = those not flagged
   leader-not-available, none at all if that response's error class forgets the topic. *)
Theorem c15_reference_view : forall h t,
  cached_all (fold_hist h) t = option_map all_ids (ref_parts t h) /\
  cached_writable (fold_hist h) t = option_map writable_ids (ref_parts t h) /\
  forall p, cached_meta (fold_hist h) t p = ref_part t p h.
Proof. exact reference_view. Qed.
Print Assumptions c15_reference_view.

(* ... sorted, duplicate-free, exactly the partition ids the response listed / those with an available leader *)
Theorem c15_partitions_sorted_exact : forall ps,
  let pm := parts_map ps [] in
  (Sorted Z.le (all_ids pm) /\ NoDup (all_ids pm) /\
   forall x, In x (all_ids pm) <-> exists q, last_part x ps = Some q) /\
  (Sorted Z.le (writable_ids pm) /\ NoDup (writable_ids pm) /\
   forall x, In x (writable_ids pm) <-> exists q, last_part x ps = Some q /\ p_err q <> e_leader_not_available).
Proof. exact partitions_sorted_exact. Qed.
Print Assumptions c15_partitions_sorted_exact.

(* Leader: the leader the newest response for the topic named, resolved against the brokers of the newest
   response of all: a leader flagged unavailable, or whose id that response does not list, is reported as
   not available — never as a broker from older metadata. *)
Theorem c15_leader : forall h rb t p,
  cached_leader (fold_hist (h ++ [rb])) t p =
  match ref_part t p (h ++ [rb]) with
  | None => Miss e_unknown_topic_or_partition
  | Some q =>
    if p_err q =? e_leader_not_available then Miss e_leader_not_available else
    match last_addr (p_leader q) (r_brokers (fst rb)) with
    | None => Miss e_leader_not_available
    | Some a => Hit (p_leader q, a)
    end
  end.
Proof. exact read_leader. Qed.
Print Assumptions c15_leader.

(* Brokers absent from the newest response are dropped, re-addressed ones replaced, new ones registered; the
   controller is the one it names. *)
Theorem c15_brokers : forall h rb,
  Sorted Z.le (brokers_view (fold_hist (h ++ [rb]))) /\
  (forall id, In id (brokers_view (fold_hist (h ++ [rb]))) <-> last_addr id (r_brokers (fst rb)) <> None) /\
  (forall id, broker_addr (fold_hist (h ++ [rb])) id = last_addr id (r_brokers (fst rb))).
Proof. exact read_brokers. Qed.
Print Assumptions c15_brokers.

Theorem c15_controller : forall h rb,
  cached_controller (fold_hist (h ++ [rb])) =
  match last_addr (r_ctrl (fst rb)) (r_brokers (fst rb)) with Some a => Some (r_ctrl (fst rb), a) | None => None end.
Proof. exact read_controller. Qed.
Print Assumptions c15_controller.

Theorem c15_topics : forall h,
  Sorted Z.le (topics_view (fold_hist h)) /\
  forall t, In t (topics_view (fold_hist h)) <-> ref_parts t h <> None.
Proof. exact read_topics. Qed.
Print Assumptions c15_topics.

(* Error classes: a topic is kept iff its error is none or leader-not-available; unknown-topic and
   leader-not-available ask for a retry; every error that forgets the topic is reported; a refresh reports the
   error of the last topic it had to forget. *)
Theorem c15_error_classes : forall e,
  (entry_result e <> None <-> t_err e = 0 \/ t_err e = e_leader_not_available) /\
  (topic_retry (t_err e) = true <-> t_err e = e_unknown_topic_or_partition \/ t_err e = e_leader_not_available) /\
  (topic_reports (t_err e) = true <-> entry_result e = None).
Proof. exact error_classes. Qed.
Print Assumptions c15_error_classes.

Theorem c15_refresh_reports : forall s r full, snd (update_metadata s r full) = last_reported (r_topics r).
Proof. exact update_reports. Qed.
Print Assumptions c15_refresh_reports.

(* Atomicity (premise audited by lockaudit): in any interleaving of updates and reads, every observation is
   the answer of the state made by exactly the updates that precede the read; with one refresh in flight a
   reader sees the state before or after it. *)
Theorem c15_atomic : forall l s q res, In (q, res) (exec s l) ->
  exists i, nth_error l i = Some (ARead q) /\ res = answer (fold_left apply (updates (firstn i l)) s) q.
Proof. exact observations_are_reads. Qed.
Print Assumptions c15_atomic.

Theorem c15_atomic_before_or_after : forall s r full pre post q res,
  (forall a, In a (pre ++ post) -> exists q', a = ARead q') ->
  In (q, res) (exec s (pre ++ AUpdate r full :: post)) ->
  res = answer s q \/ res = answer (apply s (r, full)) q.
Proof. exact before_or_after. Qed.
Print Assumptions c15_atomic_before_or_after.

(* A refresh (and client creation: known = []) succeeds whenever some live seed or known broker answers,
   whatever the order of the candidates and however many of the others fail: it is reached in the first pass,
   after asking only candidates that fail. An authentication-class failure ends the refresh by design, hence
   the second hypothesis. *)
Theorem c15_refresh_succeeds : forall answer attempts c,
  (exists b, In b (live c) /\ answer b = Answers) ->
  (forall b, In b (live c) -> answer b <> AuthFails) ->
  exists c' b failed, refresh answer attempts c [] = (c', RSuccess b, failed ++ [b]) /\
    answer b = Answers /\ In b (live c) /\ incl failed (live c) /\ forall x, In x failed -> answer x = Fails.
Proof. exact refresh_succeeds. Qed.
Print Assumptions c15_refresh_succeeds.

(* seeds set aside by earlier failures are asked again once a retry is available *)
Theorem c15_refresh_resurrects : forall answer attempts c,
  (exists b, In b (live c ++ dead c) /\ answer b = Answers) ->
  (forall b, In b (live c ++ dead c) -> answer b <> AuthFails) ->
  exists c' b tr, refresh answer (S attempts) c [] = (c', RSuccess b, tr) /\ answer b = Answers.
Proof. exact refresh_resurrects. Qed.
Print Assumptions c15_refresh_resurrects.

Theorem c15_refresh_out_of_brokers : forall answer c,
  (forall b, In b (live c) -> answer b = Fails) ->
  exists c' tr, refresh answer 0 c [] = (c', ROutOfBrokers, tr) /\ known c' = [] /\
    incl (dead c ++ seeds c) (seeds c') /\ dead c' = [].
Proof. exact refresh_out_of_brokers. Qed.
Print Assumptions c15_refresh_out_of_brokers.

(* Tie to the regenerated code (go/decgen, golden SV.Gen.DecC15 re-derived from client.go on every run):
   cachedLeader, the id-collecting loop of setPartitionCache and updateMetadata's `switch topic.Err`. *)
Theorem c15_tie_cached_leader : forall s t p name,
  rd_to_go (Model.cached_leader s t p) =
  DecC15.cached_leader name p
    (option_map (fun _ => tt) (lookup t (metadata s)))
    (is_some (cached_meta s t p))
    (match cached_meta s t p with Some pm => p_err pm | None => 0 end)
    (match cached_meta s t p with Some pm => lookup (p_leader pm) (brokers s) | None => None end).
Proof. exact tie_cached_leader. Qed.
Print Assumptions c15_tie_cached_leader.

Theorem c15_tie_partition_lists : forall m,
  all_ids m = isort (fst (partition_filter [] 0 (map id_err m))) /\
  writable_ids m = isort (fst (partition_filter [] 1 (map id_err m))).
Proof. exact (fun m => conj (tie_all_ids m) (tie_writable_ids m)). Qed.
Print Assumptions c15_tie_partition_lists.

Theorem c15_tie_topic_error_class : forall retry err e,
  topic_error_class retry err e =
  (retry || topic_retry e, (if stores e then err else EK e), if stores e then ExFall else ExContinue)%bool.
Proof. exact tie_topic_error_class. Qed.
Print Assumptions c15_tie_topic_error_class.

(* Second wave: updateBroker as a whole. For any injective naming of addresses, the regenerated function maps a
   Go broker map that represents the model's map (same answer to every lookup) to one that represents the
   model's broker reconciliation (new registered, re-addressed replaced, absent swept). *)
Theorem c15_tie_update_broker : forall (enc : Z -> String.string),
  (forall a b, enc a = enc b -> a = b) ->
  forall bs zm m, represents enc zm m ->
  represents enc (fst (update_broker zm (go_list enc bs))) (update_brokers bs m).
Proof. exact tie_update_broker. Qed.
Print Assumptions c15_tie_update_broker.

(* With Metadata.Timeout set the deadline is an environment event ([dl] answers the successive pastDeadline
   tests); [ll b] says that b's answer has a leaderless partition, which makes the refresh retry (re-entering
   with the candidate lists as they are and the advertised brokers in any order [adv a], chosen anew per retry). EVERY exit of a refresh — an answer,
   a leaderless answer after its retries, authentication failure, out of brokers, past the deadline with a
   candidate left, past the deadline with nobody left — keeps every seed the client was given (in the seed
   list or set aside), and never returns with nobody to ask while seeds are still set aside. *)
Theorem c15_refresh_every_exit_resurrects : forall answer ll adv attempts c tried dl c' r tr dl',
  refresh_d answer ll adv attempts c tried dl = (c', r, tr, dl') ->
  same_elements (seedset c') (seedset c) /\ (any c' = None -> dead c' = []).
Proof. exact refresh_d_exits. Qed.
Print Assumptions c15_refresh_every_exit_resurrects.

(* resurrectDeadBrokers appends the seeds set aside to the live ones: none of the live ones is displaced *)
Theorem c15_resurrect_keeps_live_seeds : forall c,
  seeds (resurrect c) = seeds c ++ dead c /\ dead (resurrect c) = [] /\ known (resurrect c) = known c.
Proof. exact resurrect_order. Qed.
Print Assumptions c15_resurrect_keeps_live_seeds.

(* a seed whose answer has a leaderless partition: the refresh retries, asks it again, returns nil, and the seed is
   still the head of the seed list afterwards, for every retry budget *)
Theorem c15_refresh_leaderless_keeps_seed : forall answer ll adv attempts c tried b r,
  seeds c = b :: r -> answer b = Answers -> ll b = true ->
  exists c' tr, refresh_d answer ll adv attempts c tried [] = (c', RSuccess b, tr, []) /\
    seeds c' = b :: r /\ dead c' = dead c.
Proof. exact leaderless_succeeds. Qed.
Print Assumptions c15_refresh_leaderless_keeps_seed.

(* so the refresh after a give-up that left nothing set aside asks every seed again and succeeds if one answers *)
Theorem c15_refresh_after_give_up : forall answer1 ll adv attempts1 c tried dl c' r tr dl',
  refresh_d answer1 ll adv attempts1 c tried dl = (c', r, tr, dl') ->
  dead c' = [] ->
  forall answer2 attempts2,
  (exists b, In b (seedset c ++ known c') /\ answer2 b = Answers) ->
  (forall b, In b (seedset c ++ known c') -> answer2 b <> AuthFails) ->
  exists c'' b failed, refresh answer2 attempts2 c' [] = (c'', RSuccess b, failed ++ [b]) /\ answer2 b = Answers.
Proof. exact refresh_after_give_up. Qed.
Print Assumptions c15_refresh_after_give_up.

(* without a deadline and without leaderless answers this is the iteration the theorems further up speak about *)
Theorem c15_refresh_no_deadline : forall answer adv attempts c tried,
  refresh_d answer no_ll adv attempts c tried [] = let '(c', r, tr) := refresh answer attempts c tried in (c', r, tr, []).
Proof. exact refresh_d_nil. Qed.
Print Assumptions c15_refresh_no_deadline.
