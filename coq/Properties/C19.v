(* C19 — admin operations reach the right broker and report its verdict.
   Property statements only; each is closed by [exact] of a lemma proved in C19/Proofs*.v.
   [fixed] is the code with fixes/c19_retry0.patch and fixes/c19_alter.patch, [pinned] the tree as pinned.
   Vocabulary (C19/ProofsRetry.v): [after_rounds c j s] is client + cluster after j attempts answered
   NOT_CONTROLLER (each followed by a controller refresh); [sees c s] is the broker the next attempt addresses
   — the controller named by the latest metadata — with the answer it gives; [nc_seen] says that answer is
   NOT_CONTROLLER; [requests log] are the requests sent, in order; [spaced false log] says that any two
   consecutive requests have a metadata refresh between them. *)
From Coq Require Import List ZArith Permutation.
From SV Require Import Gen.DecTypes Gen.DecTypes2 Gen.DecC19 C19.Model C19.ProofsRetry C19.ProofsRoute C19.ProofsTie.
Import ListNotations.
Open Scope Z_scope.

(* Some attempt k within the budget is acknowledged by the then-current controller, the earlier ones were
   answered NOT_CONTROLLER: success, k+1 requests, each to the controller the latest refresh named, with a
   refresh between any two. All four operations, every Kafka version, every Admin.Retry.Max (also <= 0). *)
Theorem c19_controller_retry : forall c s k b a, c_flav c = fixed ->
  (k < Z.to_nat (Z.max 1 (c_max c)))%nat ->
  (forall j, (j < k)%nat -> nc_seen c (after_rounds c j s)) ->
  sees c (after_rounds c k s) = Some (b, a) -> reports_none (c_op c) a ->
  exists s' log, run c s = (s', None, log) /\
    map (fun x => fst (fst x)) (requests log) = map (fun j => ctrl (resolve c (after_rounds c j s))) (seq 0 (S k)) /\
    spaced false log = true.
Proof. exact controller_retry_fixed. Qed.
Print Assumptions c19_controller_retry.

(* Any other error (a broker's code, an incomplete response, a transport failure) ends the operation with
   exactly that error, and the request that got it is the last one sent. *)
Theorem c19_other_error_unchanged : forall c s k b a e, c_flav c = fixed ->
  (k < Z.to_nat (Z.max 1 (c_max c)))%nat ->
  (forall j, (j < k)%nat -> nc_seen c (after_rounds c j s)) ->
  sees c (after_rounds c k s) = Some (b, a) ->
  interpret fixed (c_op c) a = Some e -> retryable e = false ->
  exists s' log, run c s = (s', Some e, log) /\ length (requests log) = S k /\
    exists pre post, log = pre ++ LReq b (req_version (c_op c) (c_kver c)) a :: post /\ requests post = [].
Proof. exact other_error_unchanged_fixed. Qed.
Print Assumptions c19_other_error_unchanged.

(* ... and "that error" is the broker's code itself, in the operation's error type *)
Theorem c19_error_code_unchanged : forall f o x, o <> OpAlter -> x <> 0 ->
  interpret f o (ACode x) = Some (EKafka (wrap_of o) x).
Proof. exact interpret_code. Qed.
Print Assumptions c19_error_code_unchanged.

(* Success is reported only if a request was sent and the broker that got the last one reported no error. *)
Theorem c19_success_only_if_none : forall c s s' log, c_flav c = fixed -> run c s = (s', None, log) ->
  exists pre b v a, log = pre ++ [LReq b v a] /\ reports_none (c_op c) a.
Proof. exact success_only_if_none_fixed. Qed.
Print Assumptions c19_success_only_if_none.

(* The budget is never exceeded and no retry happens without a controller refresh, whatever the cluster does. *)
Theorem c19_budget_respected : forall c s s' r log, run c s = (s', r, log) ->
  (length (requests log) <= budget (c_flav c) (c_max c))%nat /\ spaced false log = true.
Proof. exact budget_respected. Qed.
Print Assumptions c19_budget_respected.

(* The announced defect: on the pinned tree Admin.Retry.Max = 0 reports success without sending anything. *)
Theorem c19_retry0_refuted : ~ (forall c s s' log, c_flav c = pinned -> run c s = (s', None, log) ->
  exists pre b v a, log = pre ++ [LReq b v a] /\ reports_none (c_op c) a).
Proof. exact retry0_refuted. Qed.
Print Assumptions c19_retry0_refuted.

(* Two more defects of the pinned AlterPartitionReassignments (both repaired by fixes/c19_alter.patch):
   a top-level UNKNOWN_SERVER_ERROR (-1) is reported as success, and NOT_CONTROLLER is never retried. *)
Theorem c19_alter_unknown_refuted :
  ~ success_only_if_none_stmt {| f_first_attempt := true; f_alter_retry := false; f_alter_any_code := false |}.
Proof. exact alter_unknown_refuted. Qed.
Print Assumptions c19_alter_unknown_refuted.

Theorem c19_alter_not_retried_refuted :
  ~ controller_retry_stmt {| f_first_attempt := true; f_alter_retry := false; f_alter_any_code := false |}.
Proof. exact alter_not_retried_refuted. Qed.
Print Assumptions c19_alter_not_retried_refuted.

(* What holds of the pinned tree: everything, for Admin.Retry.Max >= 1 and the operations other than Alter. *)
Theorem c19_controller_retry_partial : forall c s k b a, c_flav c = pinned ->
  1 <= c_max c -> c_op c <> OpAlter ->
  (k < Z.to_nat (c_max c))%nat ->
  (forall j, (j < k)%nat -> nc_seen c (after_rounds c j s)) ->
  sees c (after_rounds c k s) = Some (b, a) -> interpret pinned (c_op c) a = None ->
  exists s' log, run c s = (s', None, log) /\
    map (fun x => fst (fst x)) (requests log) = map (fun j => ctrl (resolve c (after_rounds c j s))) (seq 0 (S k)) /\
    spaced false log = true.
Proof. exact controller_retry_pinned_partial. Qed.
Print Assumptions c19_controller_retry_partial.

Theorem c19_success_only_if_none_partial : forall c s s' log, c_flav c = pinned ->
  1 <= c_max c -> c_op c <> OpAlter -> run c s = (s', None, log) ->
  exists pre b v a, log = pre ++ [LReq b v a] /\ reports_none (c_op c) a.
Proof. exact success_only_if_none_pinned_partial. Qed.
Print Assumptions c19_success_only_if_none_partial.

(* Routing, DeleteRecords: one request per leader, every partition in the request of its leader, the requests
   partition the partitions handed in (nothing dropped, nothing duplicated). *)
Theorem c19_routing_records : forall e ps, lookup_failures e ps = [] ->
  let reqs := snd (delete_records e ps) in
  (forall b qs, In (b, qs) reqs -> qs <> [] /\ forall p, In p qs -> leader_lookup e p = inl b) /\
  NoDup (map fst reqs) /\
  Permutation (concat (map snd reqs)) ps.
Proof. exact routing_records. Qed.
Print Assumptions c19_routing_records.

(* Routing, DescribeConsumerGroups: groups partitioned per coordinator, one request per coordinator; what is
   sent is a prefix of that plan (the operation stops at the first failing broker), all of it on success. *)
Theorem c19_routing_groups : forall e gs res ev fev, find_all e gs [] = (None, fev) ->
  group_op GDescribe e gs [] = (res, ev) ->
  let plan := group_by (coord_key e) gs in
  (forall b xs, In (b, xs) plan -> xs <> [] /\ forall g, In g xs -> coord_lookup e g = inl b) /\
  NoDup (map fst plan) /\ Permutation (concat (map snd plan)) gs /\
  exists rest, fev ++ plan_reqs plan = ev ++ rest /\ (forall l, res = RItems l -> rest = []).
Proof. exact routing_describe. Qed.
Print Assumptions c19_routing_groups.

(* Routing, ListConsumerGroupOffsets / DeleteConsumerGroup: the one request goes to the group's coordinator. *)
Theorem c19_routing_single_group : forall o e g parts res ev, o <> GDescribe ->
  group_op o e [g] parts = (res, ev) ->
  match coord_lookup e g with
  | inl b => exists v items, ev = [GFind g; GReq b v items]
  | inr c => ev = [GFind g] /\ res = RErr (EKafka WKError c)
  end.
Proof. exact routing_single. Qed.
Print Assumptions c19_routing_single_group.

(* Any error makes the operation report an error: DeleteRecords succeeds only if every leader was found, every
   contacted broker answered for the topic and no partition carried an error code. *)
Theorem c19_any_error_records : forall e ps, fst (delete_records e ps) = ROk ->
  forall p, In p ps -> exists b, leader_lookup e p = inl b /\
    assoc_def BNormal b (r_modes e) = BNormal /\ assoc_def 0 p (r_codes e) = 0.
Proof. exact any_error_records. Qed.
Print Assumptions c19_any_error_records.

Theorem c19_any_error_delete_group : forall e g ev, group_op GDelete e [g] [] = (ROk, ev) ->
  exists b, coord_lookup e g = inl b /\ assoc_def BNormal b (g_modes e) = BNormal /\
    assoc_def 0 g (g_codes e) = 0 /\ ev = [GFind g; GReq b 0 [g]].
Proof. exact any_error_delete_group. Qed.
Print Assumptions c19_any_error_delete_group.

(* DescribeConsumerGroups / ListConsumerGroupOffsets hand the brokers' answers back: a result exists only if
   no broker failed, and it carries every item's error code as reported. *)
Theorem c19_any_error_describe : forall e gs l ev, group_op GDescribe e gs [] = (RItems l, ev) ->
  forall g, In g gs -> exists b, coord_lookup e g = inl b /\
    assoc_def BNormal b (g_modes e) <> BDrop /\
    (assoc_def BNormal b (g_modes e) = BNormal -> In (g, assoc_def 0 g (g_codes e)) l).
Proof. exact any_error_describe. Qed.
Print Assumptions c19_any_error_describe.

Theorem c19_any_error_list_offsets : forall e g parts l ev, group_op GListOffsets e [g] parts = (RItems l, ev) ->
  exists b, coord_lookup e g = inl b /\ assoc_def BNormal b (g_modes e) <> BDrop /\
    ev = [GFind g; GReq b (offset_fetch_version (g_kver e)) parts] /\
    (assoc_def BNormal b (g_modes e) = BNormal ->
       In (-1, if 2 <=? offset_fetch_version (g_kver e) then g_top e else 0) l /\
       forall p, In p parts -> In (p, assoc_def 0 p (g_codes e)) l).
Proof. exact any_error_list_offsets. Qed.
Print Assumptions c19_any_error_list_offsets.

(* Tie to the regenerated code (go/decgen, golden SV.Gen.DecC19 re-derived from admin.go on every run): the
   model's retryable test is isErrNoController, and what an operation returns is what the regenerated
   retryOnError loop returns on the script of the closure's successive results. *)
Theorem c19_tie_is_err_no_controller : forall e, retryable e = is_err_no_controller (to_gerr e).
Proof. exact tie_retryable. Qed.
Print Assumptions c19_tie_is_err_no_controller.

Theorem c19_tie_retry_on_error : forall c s, c_flav c = fixed ->
  snd (retry_on_error (results c (budget fixed (c_max c)) s) is_err_no_controller (c_max c)) =
  og (snd (fst (run c s))).
Proof. exact tie_retry_on_error. Qed.
Print Assumptions c19_tie_retry_on_error.

(* Second wave of regenerated definitions. The closure handed to retryOnError by CreateTopic / DeleteTopic /
   CreatePartitions (missing-entry test, NOT_CONTROLLER test + refreshController, the error returned) is what the
   model's attempt computes from its script ... *)
Theorem c19_tie_attempt : forall c s, c_op c <> OpAlter ->
  let s1 := resolve c s in
  let a := answer_of (hd [] (answers s1)) (ctrl s1) in
  gen_attempt (c_op c) (controller_gerr c s) (request_gerr c a) (answer_code a) (answer_present a) =
  ((if attempt_refreshes c s then [AD_refresh_controller] else []), og (snd (fst (attempt c s)))).
Proof. exact tie_attempt. Qed.
Print Assumptions c19_tie_attempt.

(* ... and the two loops of DescribeConsumerGroups: the coordinator of every group is looked up in order, the
   first lookup error aborts the operation with that error; then one call per coordinator, the first failure
   aborts with it, otherwise the answers are concatenated — as in the model's find_all / describe_plan. *)
Theorem c19_tie_describe_lookup : forall e (name : Z -> String.string) gs,
  let r := describe_groups_lookup (coordinator_script e gs) (map name gs) in
  match fst (find_all e gs []) with
  | Some c => snd r = ExReturn ([], EK c) /\ fst (group_op GDescribe e gs []) = RErr (EKafka WKError c)
  | None => snd r = ExFall /\ snd (fst r) = map (fun g => AD_group_to_coordinator (name g)) gs
  end.
Proof. exact tie_describe_lookup. Qed.
Print Assumptions c19_tie_describe_lookup.

Theorem c19_tie_describe_collect : forall e enc gs,
  let plan := group_by (coord_key e) gs in
  let r := describe_groups_collect [] (map (broker_response e enc) plan) (map (fun bg => (fst bg, 0)) plan) in
  match fst (describe_plan e plan) with
  | RItems l => r = (map enc l, [], ExFall)
  | _ => snd r = ExReturn ([], to_gerr ETransport)
  end.
Proof. exact tie_describe_collect. Qed.
Print Assumptions c19_tie_describe_collect.
