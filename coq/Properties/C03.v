(* C03 — a partition consumer delivers the log exactly once, in order, unaltered.
   Statements only; proofs in Consumer/{ParseProofs,TxnProofs,RunProofs,MoreProofs,FeederProofs}.v.
   Model: Consumer/Parse.v (parseMessages / parseRecords / parseResponse / chooseStartingOffset),
   Consumer/Log.v (the log, faithful fetch results, runs), Consumer/Feeder.v (responseFeeder). *)
From Coq Require Import String List ZArith Bool Sorting.Sorted.
From SV Require Import Consumer.Parse Consumer.Log Consumer.ParseProofs Consumer.RunProofs Consumer.MoreProofs
  Consumer.Feeder Consumer.FeederProofs Consumer.Refcount Consumer.RefcountProofs Consumer.Pipeline
  Consumer.PipelineProofs Consumer.PipelineExact Gen.GoInt Gen.DecTypes Gen.DecTypes2 Gen.DecC03 Gen.DecC11 Consumer.TieProofs.
Import ListNotations.
Open Scope Z_scope.

(* For every well-formed log (any mix of legacy blocks, compressed wrappers, record batches, compaction
   holes, control batches), every start offset S, and every run = any sequence of faithful fetch results
   (whole stored batches starting at the batch whose last offset >= the requested offset, any number of them,
   partial trailing data dropped; partial-only answers; error codes, missing block, empty, throttled), each
   parsed in the state the previous one left:
   the concatenation of what parseResponse handed on is exactly the visible records with S <= offset < offset',
   in log order, each exactly as stored (same cmsg value: offset, key, value, headers, timestamps);
   it is a prefix of all visible records >= S, strictly increasing in offset, and every element is a stored
   record.  Hypotheses: Fetch.Max = 0 or every stored batch fits ([fits]); faithfulness includes "no returned
   batch lies entirely below the requested offset"; under ReadCommitted the aborted-transaction index is
   complete (C11). *)
Theorem c03_parse_exact : forall (size : sbatch -> Z) c log es S,
  wf_log log -> fits size c log ->
  (read_committed c = true -> index_wf log es /\ index_complete log es) ->
  forall s0 s' out, offset s0 = S -> run size c log es s0 [] s' out ->
  out = filter (in_range S (offset s')) (visible c log) /\ S <= offset s' /\
  (exists rest, filter (geo S) (visible c log) = out ++ rest) /\
  StronglySorted Z.lt (offs out) /\
  (forall m, In m out -> exists y, In y log /\ In m (cands y)).
Proof. exact run_exact. Qed.
Print Assumptions c03_parse_exact.

(* a faithful result with at least one whole batch strictly advances the offset, past every record in it
   (control and filtered ones too), with a nil verdict *)
Theorem c03_parse_progress : forall c log es, wf_log log -> 0 <= fetch_max c ->
  (read_committed c = true -> index_wf log es /\ index_complete log es) ->
  forall s r msgs s1 v errs, data c log es s r -> parse_response c s r = (msgs, s1, v, errs) ->
  v = VOk /\ errs = [] /\ offset s < offset s1 /\
  (forall b, rs_block r = Some b ->
     Forall (fun m => cm_offset m < offset s1) (flat_map cands (flat_map chunk (bl_set b)))).
Proof. exact data_progress. Qed.
Print Assumptions c03_parse_progress.

(* only the beginning of a batch that does not fit: nothing delivered, offset kept, fetch size strictly
   grown (doubling, int32-overflow safe, capped by Fetch.Max) *)
Theorem c03_partial_grows : forall (size : sbatch -> Z) c log, 0 <= fetch_max c ->
  forall s r msgs s1 v errs, fits size c log -> partial_only size log s r ->
  parse_response c s r = (msgs, s1, v, errs) -> 0 < fetch_size s < max_int32 ->
  msgs = [] /\ offset s1 = offset s /\ errs = [] /\ fetch_size s < fetch_size s1 <= max_int32.
Proof. exact partial_progress. Qed.
Print Assumptions c03_partial_grows.

Theorem c03_fetch_size_growth : forall c f, 0 < f <= max_int32 -> 0 <= fetch_max c ->
  grow c f = (if 0 <? fetch_max c then Z.min (Z.min (2 * f) max_int32) (fetch_max c) else Z.min (2 * f) max_int32).
Proof. exact grow_spec. Qed.
Print Assumptions c03_fetch_size_growth.

(* outside [fits]: Fetch.Max reached and the batch still does not fit: ErrMessageTooLarge is reported and
   exactly one offset is stepped over *)
Theorem c03_oversized_skip : forall c s r b, rs_block r = Some b -> (rs_throttle r = 0 \/ rs_noblocks r = false) ->
  bl_err b = 0 -> n_records b = 0 -> is_partial b = true -> 0 < fetch_max c -> fetch_size s = fetch_max c ->
  exists s1, parse_response c s r = ([], s1, VOk, [err_message_too_large]) /\ offset s1 = offset s + 1 /\
             fetch_size s1 = fetch_size s.
Proof. exact oversized_skip. Qed.
Print Assumptions c03_oversized_skip.

(* legacy rebase: v1 inner offsets are rebased on the wrapper offset, v0 are absolute; with the relative
   offsets 0..n-1 a broker writes, the i-th inner message gets wrapper offset - (n-1) + i *)
Theorem c03_legacy_rebase : forall b m, In m (block_msgs b) ->
  (1 <= lm_version m -> cm_offset (legacy_cand b m) = lm_offset m + (lm_offset (lb_own b) - last_offset (block_msgs b))) /\
  (lm_version m < 1 -> cm_offset (legacy_cand b m) = lm_offset m).
Proof. exact legacy_rebase. Qed.
Print Assumptions c03_legacy_rebase.

Theorem c03_legacy_rebase_relative : forall own ps, ps <> [] ->
  let b := Build_lblock own (Some (rel_msgs 0 ps)) in
  offs (block_cands b) = map (fun j => lm_offset own - (Z.of_nat (length ps) - 1) + Z.of_nat j) (seq 0 (length ps)).
Proof. exact legacy_rebase_relative. Qed.
Print Assumptions c03_legacy_rebase_relative.

(* starting offset: the bounds for the two sentinels, the literal offset iff within [oldest, newest] *)
Theorem c03_start : forall req oldest newest,
  choose_start req oldest newest =
    if Z.eq_dec req offset_newest then Some newest
    else if Z.eq_dec req offset_oldest then Some oldest
    else if Z_le_dec oldest req then (if Z_le_dec req newest then Some req else None) else None.
Proof. exact choose_start_spec. Qed.
Print Assumptions c03_start.

(* feeder + reader: whatever the reader's pace (fast path, slow-reader path, flag carried over), in both
   variants of the slow-reader path, the Messages() stream carries the parsed messages once each, in order *)
Theorem c03_feeder_exact : forall (P : Type) (reapply : bool) (is : list (icpt P)) (rs : list (list (msg P)))
    (fa : bool) (scheds : list (list nat)),
  map fst (delivered (snd (feed_all P reapply is fa rs scheds))) = map fst (concat rs).
Proof. exact feed_all_ids. Qed.
Print Assumptions c03_feeder_exact.

(* ---- the composition around one broker (Consumer/Pipeline.v): worker (subscriptionManager batching, fetch loop, acks
   counter, handleResponses verdict classes, abort and re-creation), per-partition dispatcher (trigger, dispatch success /
   failure, child.broker = nil) and per-partition feeder (parseResponse, hand-off, slow-reader path, re-subscription);
   any number of partitions.  [reach] = every state reachable by enabled steps in any order, with any fetch failures,
   per-partition answers (faithful for the state the request was built from: data, partial, or any fault), dispatch
   failures and reader paces. *)

(* the protocol invariant: every partition is in exactly one place, a response reaches a feeder only when it is idle and
   holds nothing, responseResult is consumed exactly by handleResponses, acks = subscribed children still holding
   the response (fields of PInv / Inv in Consumer/PipelineProofs.v) *)
Theorem c03_pipeline_invariant : forall (size : sbatch -> Z) c logs ess pst0 s,
  reach size c logs ess pst0 s -> Inv s.
Proof. exact reach_inv. Qed.
Print Assumptions c03_pipeline_invariant.

(* per partition, in every reachable state: Messages() ++ (what the slow-reader path still holds) = concatenation of the
   parseResponse outputs of the responses handed to its feeder; offset / fetchSize = parseResponse folded over exactly
   those responses from the starting state (redispatch, re-subscription, abort never move them); the handed responses
   form a run of faithful results in the sense of c03_parse_exact *)
Theorem c03_pipeline_stream : forall (size : sbatch -> Z) c logs ess pst0 s, reach size c logs ess pst0 s -> forall p,
  c_out (ch s p) ++ c_rem (ch s p) = c_parsed (ch s p) /\
  (c_drain (ch s p) = false -> c_out (ch s p) = c_parsed (ch s p)) /\
  replay c (pst0 p) (map snd (c_handed (ch s p))) = (c_pst (ch s p), c_parsed (ch s p)) /\
  Log.run size c (logs p) (ess p) (pst0 p) [] (c_pst (ch s p)) (c_parsed (ch s p)).
Proof. exact pipeline_stream. Qed.
Print Assumptions c03_pipeline_stream.

(* hence exactly once, in order, nothing skipped, across leader changes, worker deaths, failed dispatches, slow readers *)
Theorem c03_pipeline_exact : forall (size : sbatch -> Z) c logs ess pst0 s, reach size c logs ess pst0 s -> forall p,
  wf_log (logs p) -> fits size c (logs p) ->
  (read_committed c = true -> index_wf (logs p) (ess p) /\ index_complete (logs p) (ess p)) ->
  let S := offset (pst0 p) in
  c_out (ch s p) ++ c_rem (ch s p) = filter (in_range S (offset (c_pst (ch s p)))) (visible c (logs p)) /\
  S <= offset (c_pst (ch s p)) /\
  (exists rest, filter (geo S) (visible c (logs p)) = (c_out (ch s p) ++ c_rem (ch s p)) ++ rest) /\
  StronglySorted Z.lt (offs (c_out (ch s p) ++ c_rem (ch s p))).
Proof. exact pipeline_exact. Qed.
Print Assumptions c03_pipeline_exact.

(* keeps progressing: for a started partition whose trigger was not closed (no ErrOffsetOutOfRange), in every reachable
   state a step on its path is enabled: its dispatcher (a live leader makes dispatch succeed), its feeder's drain, a
   feeder of its worker taking a response (the reader is reading), handleResponses, or the worker's next round *)
Theorem c03_pipeline_progress : forall (size : sbatch -> Z) c logs ess pst0 s, reach size c logs ess pst0 s -> forall p,
  c_started (ch s p) = true -> c_closed (ch s p) = false -> exists o, pre s o = true /\ on_path p o.
Proof. exact pipeline_progress. Qed.
Print Assumptions c03_pipeline_progress.

(* the pointers the feeder dereferences are never nil, acks.Done never drives the counter negative *)
Theorem c03_pipeline_no_nil : forall (size : sbatch -> Z) c logs ess pst0 s, reach size c logs ess pst0 s -> forall p,
  (forall k, pre s (OTake p k) = true -> c_broker (ch s p) = Some (w_gen (wk s)) /\ 0 < w_acks (wk s)) /\
  (pre s (ODrain p) = true -> exists g, c_broker (ch s p) = Some g).
Proof. exact pipeline_no_nil. Qed.
Print Assumptions c03_pipeline_no_nil.

Theorem c03_pipeline_example :
  reach (fun _ => 0) cfg0 (fun _ => holes_log) (fun _ => []) (fun _ => st13) ex_state /\
  map cm_offset (c_out (ch ex_state 0)) = [17] /\ offset (c_pst (ch ex_state 0)) = 18 /\ w_subs (wk ex_state) = [0].
Proof. exact pipeline_example. Qed.
Print Assumptions c03_pipeline_example.

(* brokerConsumer reference count (refBrokerConsumer / unrefBrokerConsumer / dispatcher / ConsumePartition), for every
   sequence of ConsumePartition calls, dispatcher iterations (dispatch failing or finding any broker) and dispatcher
   exits: the count of every worker is the number of partition consumers whose child.broker is that worker, and no
   partition consumer points to a worker that was shut down - a sibling partition never loses its worker *)
Theorem c03_refcount_exact : forall ops w,
  refs (rc_run true ops) w = cnt w (kids (rc_run true ops)) /\
  (closed (rc_run true ops) w = true -> cnt w (kids (rc_run true ops)) = 0).
Proof. exact refcount_exact. Qed.
Print Assumptions c03_refcount_exact.

(* without the `child.broker = nil` after the unref (variant clear = false): two partitions share worker 0, partition
   0's dispatch fails once and then finds the same broker: worker 0 is shut down while partition 1 still points to it *)
Theorem c03_refcount_stale_pointer : let s := rc_run false stale_ops in
  nth 1 (kids s) None = Some 0 /\ closed s 0 = true /\ refs s 0 = 0 /\ cnt 0 (kids s) = 1.
Proof. exact stale_pointer_closes_sibling. Qed.
Print Assumptions c03_refcount_stale_pointer.

(* tie to the source: the definitions go/decgen regenerates from consumer.go on every check (golden Gen/DecC03.v,
   compared or re-proved equal per run by checks/decgen_tie.py) are the model's functions *)
Theorem c03_tie_choose_start : forall child_offset req newest oldest,
  choose_starting_offset child_offset req newest ENil oldest ENil =
  match choose_start req oldest newest with Some o => (o, ENil) | None => (child_offset, EK 1) end.
Proof. exact tie_choose_start. Qed.
Print Assumptions c03_tie_choose_start.

Theorem c03_tie_fetch_size : forall c fs off, -9223372036854775808 <= off + 1 < 9223372036854775808 ->
  fetch_size_escalation fs off (fetch_max c) =
  if (0 <? fetch_max c) && (fs =? fetch_max c)
  then (fs, off + 1, [CA_send_error (EVar "ErrMessageTooLarge"%string)], @ExFall unit)
  else (grow c fs, off, [], @ExFall unit).
Proof. exact tie_fetch_size. Qed.
Print Assumptions c03_tie_fetch_size.

(* the generated loops of parseRecords / parseMessages (per block) are [accept] over the batch's / block's candidates
   ([in64]: the offsets involved and their successors fit int64) *)
Theorem c03_tie_parse_records : forall (b : rbatch) o,
  Forall (fun r => in64 (rb_first b + rc_delta r)) (rb_recs b) -> in64 o ->
  DecC03.parse_records o (rb_first b) (map rc_delta (rb_recs b)) (rb_logappend b) =
  (snd (Parse.parse_records o b), offs (fst (Parse.parse_records o b)), ENil).
Proof. exact tie_parse_records. Qed.
Print Assumptions c03_tie_parse_records.

Theorem c03_tie_parse_messages_inner : forall (b : lblock) o acc,
  Forall (fun m => in64 (lm_offset (lb_own b) - last_offset (block_msgs b)) /\ in64 (cm_offset (legacy_cand b m))) (block_msgs b) ->
  parse_messages_inner o acc (map lmsg_triple (block_msgs b)) (lm_offset (lb_own b)) (last_offset (block_msgs b)) =
  (snd (accept o (block_cands b)), acc ++ offs (fst (accept o (block_cands b))), @ExFall unit).
Proof. exact tie_parse_messages_inner. Qed.
Print Assumptions c03_tie_parse_messages_inner.

(* FetchResponseBlock.decode: a Records element kept after the first one has records (what [data] assumes of the set) *)
Theorem c03_tie_keep_records : forall rs n partial id fu, rs <> [] ->
  fst (fst (keep_records rs n partial id fu)) = rs ++ [id] -> 0 < n.
Proof. exact tie_keep_records_later. Qed.
Print Assumptions c03_tie_keep_records.

(* the hypotheses are satisfiable: a compacted log, a fetch into a hole answered with two batches *)
Theorem c03_example : wf_log holes_log /\ data cfg0 holes_log [] st13 holes_resp /\
  map cm_offset (fst (fst (fst (parse_response cfg0 st13 holes_resp)))) = [17] /\
  offset (snd (fst (fst (parse_response cfg0 st13 holes_resp)))) = 18.
Proof. exact holes_example. Qed.
Print Assumptions c03_example.
