(* C14 — each broker call gets its own response or an error.
   Property statements only; each is closed by [exact] of a lemma proved in C14/Proofs*.v or C14/Tie.v.
   The model (C14/Model.v): callers and the receiver goroutine of one Broker connection as a transition
   system; [run c sched] is the state after schedule [sched] (None = some step was not enabled).  The
   statements hold for every configuration [c] (any number and mix of calls, any MaxOpenRequests >= 1,
   any server byte stream and ending) and every schedule. *)
From Coq Require Import List ZArith.
From SV Require Import Gen.DecTypes Gen.DecC14 C14.Model C14.Proofs1 C14.Proofs2 C14.Proofs3 C14.Proofs4 C14.Tie.
Import ListNotations.
Open Scope Z_scope.

(* A call that returns a packet returns the body of the frame the server sent for that very request: the
   call's promise is the i-th response-expecting request on the wire, the server's stream starts with i
   well-formed frames carrying the ids of the i earlier requests, then comes a well-formed frame whose
   header carries this call's correlation id and whose body is the packet. *)
Theorem c14_own_response : forall c sched s k buf,
  run c sched = Some s -> result_of s k = Some (RPacket buf) ->
  exists i p pre_raws rw post,
    nth_error (all_promises s) i = Some p /\ p_k p = k /\ call_id s k = Some (p_id p) /\
    nth_error (resp_ids (s_wire s)) i = Some (p_id p) /\
    Forall2 (fun q r => exists b, frame_for (c_maxresp c) q r b) (firstn i (all_promises s)) pre_raws /\
    frame_for (c_maxresp c) p rw buf /\
    c_stream c = concat pre_raws ++ rw ++ post.
Proof. exact own_response_stmt. Qed.
Print Assumptions c14_own_response.

(* no call owns two promises (so "the call's promise" above is unambiguous) *)
Theorem c14_one_promise_per_call : forall c sched s, run c sched = Some s -> NoDup (map p_k (all_promises s)).
Proof. exact one_promise_stmt. Qed.
Print Assumptions c14_one_promise_per_call.

(* The promise in service is the oldest request still awaiting its response; a readable, well-formed
   header with any other id is not delivered: the promise fails and the connection is dead. *)
Theorem c14_mismatch_is_fault : forall c sched s p,
  run c sched = Some s -> s_recv s = RServing p -> s_dead s = None ->
  nth_error (resp_ids (s_wire s)) (length (s_hist s)) = Some (p_id p) /\
  forall h len id s',
    read_full (header_len (p_hv p)) (s_stream s) (c_term c) = inl h ->
    decode_header (p_hv p) (c_maxresp c) h = inl (len, id) -> id <> p_id p ->
    step c s RServe = Some s' ->
    s_recv s' = RDeliv p (RErr 5) /\ s_dead s' = Some 5.
Proof. exact mismatch_stmt. Qed.
Print Assumptions c14_mismatch_is_fault.

(* After the first read / header-decode / correlation fault (dead = Some e): every promise served from the
   fault on was answered with e; whatever is scheduled next the connection stays dead with e, no call
   returns a packet any more, and nobody is left waiting: as long as a call has not returned some step is
   enabled, every step decreases [measure], and the calls can all be completed. *)
Theorem c14_dead_sticky : forall c sched1 s1 e,
  1 <= c_max c -> run c sched1 = Some s1 -> s_dead s1 = Some e ->
  (exists good bad, s_hist s1 = good ++ bad /\ bad <> [] /\
                    Forall (fun x => exists b, snd x = RPacket b) good /\ Forall (fun x => snd x = RErr e) bad) /\
  (forall sched2 s2, run_from c s1 sched2 = Some s2 ->
     s_dead s2 = Some e /\
     (forall k buf, result_of s2 k = Some (RPacket buf) -> result_of s1 k = Some (RPacket buf)) /\
     (length sched2 + measure s2 <= measure s1)%nat /\
     (all_done s2 = false -> exists ch s3, step c s2 ch = Some s3)) /\
  (exists more s', run_from c s1 more = Some s' /\ all_done s' = true).
Proof. exact dead_sticky_stmt. Qed.
Print Assumptions c14_dead_sticky.

(* The same progress statement for every reachable state (faulted or not, Close racing or not): schedules
   are bounded by the initial measure, a state with an unanswered call has an enabled step, and all calls
   can be completed. *)
Theorem c14_no_call_left_waiting : forall c sched s,
  1 <= c_max c -> run c sched = Some s ->
  (length sched + measure s <= measure (init c))%nat /\
  (all_done s = false -> exists ch s', step c s ch = Some s') /\
  (exists more s', run_from c s more = Some s' /\ all_done s' = true).
Proof. exact no_hang_stmt. Qed.
Print Assumptions c14_no_call_left_waiting.

(* wire order = promise order: the ids of all promises (answered, in service, in the channel, in the
   writer's hand), oldest first, are the ids of the response-expecting requests in the order written *)
Theorem c14_order : forall c sched s, run c sched = Some s -> map p_id (all_promises s) = resp_ids (s_wire s).
Proof. exact order_stmt. Qed.
Print Assumptions c14_order.

(* The wire bound "written - answered <= MaxOpenRequests" is false of the pinned code: MaxOpenRequests = 1,
   four callers, silent server, two requests on the wire. *)
Theorem c14_wire_bound_refuted :
  exists c sched s, c_max c = 1 /\ run c sched = Some s /\ outstanding s = 2 /\
                    map fst (s_wire s) = [0; 1] /\ all_done s = false.
Proof. exact wire_bound_refuted. Qed.
Print Assumptions c14_wire_bound_refuted.

Theorem c14_wire_bound_full_false : ~ wire_bound_full.
Proof. exact wire_bound_full_false. Qed.
Print Assumptions c14_wire_bound_full_false.

(* what does hold: never more than MaxOpenRequests + 1 *)
Theorem c14_wire_bound_partial : forall c sched s,
  1 <= c_max c -> run c sched = Some s -> outstanding s <= c_max c + 1.
Proof. exact wire_bound_partial_stmt. Qed.
Print Assumptions c14_wire_bound_partial.

(* the trace replay executed by the correspondence accepts a log only by exhibiting a run of this model *)
Theorem c14_replay_is_run : forall c log s, replay_log c log = Some s -> exists sched, run c sched = Some s.
Proof. exact replay_stmt. Qed.
Print Assumptions c14_replay_is_run.

(* ties of the receiver's decisions to the definitions regenerated from broker.go / response_header.go *)
Theorem c14_tie_header_length : forall hv, header_len hv = get_header_length hv.
Proof. exact tie_header_length. Qed.
Print Assumptions c14_tie_header_length.

Theorem c14_tie_header_decode : forall hv mr b0 b1 b2 b3 c0 c1 c2 c3 rest,
  decode_header hv mr (b0 :: b1 :: b2 :: b3 :: c0 :: c1 :: c2 :: c3 :: rest) =
  let '(len, id, _, err) :=
      response_header_decode 0 0 [(be32s b0 b1 b2 b3, ENil); (be32s c0 c1 c2 c3, ENil)] hv mr (tag_err rest) in
  if gerr_eqb err ENil then inl (len, id)
  else inr (if (len <=? 4) || (len >? mr) then 4 else 8).
Proof. exact tie_header_decode. Qed.
Print Assumptions c14_tie_header_decode.

Theorem c14_tie_receive_one : forall mr t p st,
  mr < 2147483648 -> serve_dec mr t p st = (let '(r, d, _, _) := serve mr t p st in (r, d)).
Proof. exact tie_receive_one. Qed.
Print Assumptions c14_tie_receive_one.
