(* C14 — placeholder, theorems follow *)
From SV Require Import C14.Model.
