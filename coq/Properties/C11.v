(* C11 — read-committed consumers never see aborted or control records.
   Statements only; proofs in Consumer/{TxnProofs,RunProofs,MoreProofs}.v.  Same model and runs as C03. *)
From Coq Require Import List ZArith Sorting.Sorted.
From SV Require Import Consumer.Parse Consumer.Log Consumer.ParseProofs Consumer.RunProofs Consumer.MoreProofs
  Gen.GoInt Gen.DecTypes Gen.DecTypes2 Gen.DecC11 Consumer.TieProofs.
Import ListNotations.
Open Scope Z_scope.

(* For every log with any interleaving of transactions of several producer ids, every start offset (also
   inside a transaction), every cut of the log into faithful fetch results (cuts inside transactions
   included), every aborted-transaction index that is complete for the fetched range, in any order
   ([index_for] constrains membership only), interleaved with fetch faults:
   a record is delivered iff its offset lies in [S, offset') and its unit is a legacy block, or a
   non-control batch that is non-transactional or whose producer's next marker is not an abort marker —
   each exactly once, in order, as stored. *)
Theorem c11_read_committed : forall (size : sbatch -> Z) c log es S,
  wf_log log -> fits size c log ->
  (read_committed c = true -> index_wf log es /\ index_complete log es) ->
  forall s0 s' out, offset s0 = S -> run size c log es s0 [] s' out ->
  forall m, In m out <->
    S <= cm_offset m < offset s' /\
    exists pre s rest, log = pre ++ s :: rest /\ In m (cands s) /\ unit_delivered c rest s.
Proof. exact run_delivered_spec. Qed.
Print Assumptions c11_read_committed.

Theorem c11_exactly_once_in_order : forall (size : sbatch -> Z) c log es S,
  wf_log log -> fits size c log ->
  (read_committed c = true -> index_wf log es /\ index_complete log es) ->
  forall s0 s' out, offset s0 = S -> run size c log es s0 [] s' out ->
  out = filter (in_range S (offset s')) (visible c log) /\ S <= offset s' /\
  (exists rest, filter (geo S) (visible c log) = out ++ rest) /\
  StronglySorted Z.lt (offs out) /\
  (forall m, In m out -> exists y, In y log /\ In m (cands y)).
Proof. exact run_exact. Qed.
Print Assumptions c11_exactly_once_in_order.

(* when the transaction is decided, "next marker is not an abort" is "the transaction committed" *)
Theorem c11_decided_is_committed : forall rest b, rb_txn b = true -> next_marker (rb_pid b) rest <> None ->
  (next_marker (rb_pid b) rest <> Some 0 <-> committed_fate rest b = true).
Proof. exact decided_committed. Qed.
Print Assumptions c11_decided_is_committed.

(* at either isolation level nothing is delivered from an offset occupied by a control batch ... *)
Theorem c11_control_never : forall (size : sbatch -> Z) c log es S,
  wf_log log -> fits size c log ->
  (read_committed c = true -> index_wf log es /\ index_complete log es) ->
  forall s0 s' out, offset s0 = S -> run size c log es s0 [] s' out ->
  forall m b, In m out -> In (SBatch b) log -> rb_control b = true ->
    ~ (rb_first b <= cm_offset m <= rb_first b + rb_lastdelta b).
Proof. exact run_no_control. Qed.
Print Assumptions c11_control_never.

(* ... yet the offset moves past every record of every returned batch, control batches included *)
Theorem c11_control_passed : forall c log es, wf_log log -> 0 <= fetch_max c ->
  (read_committed c = true -> index_wf log es /\ index_complete log es) ->
  forall s r msgs s1 v errs, data c log es s r -> parse_response c s r = (msgs, s1, v, errs) ->
  v = VOk /\ errs = [] /\ offset s < offset s1 /\
  (forall b, rs_block r = Some b ->
     Forall (fun m => cm_offset m < offset s1) (flat_map cands (flat_map chunk (bl_set b)))).
Proof. exact data_progress. Qed.
Print Assumptions c11_control_passed.

(* ReadUncommitted: the visible records are all data records, whatever the outcome of their transaction *)
Theorem c11_read_uncommitted : forall c log, read_committed c = false ->
  visible c log = flat_map (fun s => match s with SBatch b => if rb_control b then [] else cands s | SBlock _ => cands s end) log.
Proof. exact visible_uncommitted. Qed.
Print Assumptions c11_read_uncommitted.

(* the hypotheses are satisfiable: producer 1 aborts [30..31] and later commits [35], producer 2 commits [32] *)
Theorem c11_example : wf_log txn_log /\ index_wf txn_log txn_index /\ index_complete txn_log txn_index /\
  map cm_offset (visible (Build_cfg 1048576 0 true) txn_log) = [32; 35; 36] /\
  map cm_offset (visible (Build_cfg 1048576 0 false) txn_log) = [30; 31; 32; 35; 36] /\
  aborted_txns [] txn_log = txn_index.
Proof. exact txn_example. Qed.
Print Assumptions c11_example.

(* ... also when the head of the log was deleted in the middle of an aborted transaction (non-zero LogStartOffset):
   the index keeps the original first offset 20 < log start 30 ([index_wf] allows it), the surviving batch [30..31]
   is not visible.  The model's block carries no LogStartOffset: parse_response cannot depend on it. *)
Theorem c11_example_log_start : wf_log cut_log /\ index_wf cut_log cut_index /\ index_complete cut_log cut_index /\
  map cm_offset (visible (Build_cfg 1048576 0 true) cut_log) = [32; 34] /\ aborted_txns [(1, 20)] cut_log = cut_index.
Proof. exact cut_example. Qed.
Print Assumptions c11_example_log_start.

(* ---- tie to the source: the definitions go/decgen regenerates from consumer.go / fetch_response.go on every check
   (golden Gen/DecC11.v) are the model's functions *)

(* the aborted-transaction consumption loop = pop_aborted: the same entries leave, their producer ids are marked *)
Theorem c11_tie_consume_aborted : forall idx last A,
  consume_aborted (map swap idx) last =
  (map swap (fst (pop_aborted last idx A)), map CT_begin_aborted (popped last idx), @ExFall unit) /\
  snd (pop_aborted last idx A) = rev (popped last idx) ++ A.
Proof. exact tie_consume_aborted. Qed.
Print Assumptions c11_tie_consume_aborted.

(* parse_set's step for a record batch is the generated per-batch verdict: a control batch is never exposed and an abort
   marker ends its producer's aborted range; under ReadCommitted a transactional batch of a marked producer is dropped *)
Theorem c11_tie_batch_verdict : forall c o idx A b r,
  parse_set c o idx A (RBatch b :: r) =
  let '(idx1, A1) := pop_aborted (rb_first b + rb_lastdelta b) idx A in
  let '(m, o1) := Parse.parse_records o b in
  if rb_control b then
    match control_type b with
    | None => ([], o1, VCtrlErr)
    | Some t => match snd (fst (batch_verdict ENil true ENil (iso_of c) ENil t (memZ (rb_pid b) A1) (rb_txn b))) with
                | [CT_end_aborted] => parse_set c o1 idx1 (removeZ (rb_pid b) A1) r
                | _ => parse_set c o1 idx1 A1 r
                end
    end
  else
    match snd (batch_verdict ENil false ENil (iso_of c) ENil 0 (memZ (rb_pid b) A1) (rb_txn b)) with
    | ExContinue => parse_set c o1 idx1 A1 r
    | _ => let '(ms, o2, v) := parse_set c o1 idx1 A1 r in
           match v with VOk => (m ++ ms, o2, VOk) | _ => ([], o2, v) end
    end.
Proof. exact tie_parse_set_batch. Qed.
Print Assumptions c11_tie_batch_verdict.

Theorem c11_tie_batch_verdict_control_error : forall c e is_aborted is_txn t, e <> ENil ->
  batch_verdict ENil true ENil (iso_of c) e t is_aborted is_txn = (e, [], @ExReturn (list Z * gerr) ([], e)).
Proof. exact tie_batch_verdict_control_error. Qed.
Print Assumptions c11_tie_batch_verdict_control_error.

(* getAbortedTransactions: the model's sort_idx output is a permutation sorted for the generated comparator *)
Theorem c11_tie_aborted_less : forall l i j,
  StronglySorted (fun a b => aborted_less i j (snd b) (snd a) = false) (sort_idx l) /\ (forall x, In x (sort_idx l) <-> In x l).
Proof. exact tie_sort_idx. Qed.
Print Assumptions c11_tie_aborted_less.

(* the FetchRequest carries the configured isolation level whenever its version can carry it (>= 4), for every
   Config.Version: the version ladder of brokerConsumer.fetchNewMessages as modelled by [fetch_request_fields], which the
   end-to-end harness compares with the (version, isolation) of every request the simulated broker decoded *)
Theorem c11_request_isolation : forall v rc, 4 <= fst (fetch_request_fields v rc) ->
  snd (fetch_request_fields v rc) = (if rc then 1 else 0).
Proof. exact request_isolation. Qed.
Print Assumptions c11_request_isolation.

Theorem c11_request_fields_table :
  fetch_request_fields (0, 8, 2, 0) true = (0, 0) /\ fetch_request_fields (0, 10, 0, 0) true = (2, 0) /\
  fetch_request_fields (0, 11, 0, 0) true = (4, 1) /\ fetch_request_fields (1, 0, 0, 0) true = (4, 1) /\
  fetch_request_fields (1, 1, 0, 0) true = (7, 1) /\ fetch_request_fields (2, 0, 0, 0) true = (7, 1) /\
  fetch_request_fields (2, 1, 0, 0) true = (10, 1) /\ fetch_request_fields (2, 3, 0, 0) true = (11, 1) /\
  fetch_request_fields (2, 8, 0, 0) false = (11, 0).
Proof. exact request_fields_table. Qed.
Print Assumptions c11_request_fields_table.
