(* C09 (format layer) — the two encoder passes agree on the size, and decoding what the encoder wrote
   yields the normalised value with nothing left over, for every format of the wire-format language.
   Property statements only; each is closed by [exact] of a lemma proved in WireFmt/Proofs*.v. *)
From Coq Require Import List ZArith.
From SV Require Import WireFmt.Format WireFmt.Proofs WireFmt.ProofsPair WireFmt.ProofsReenc.
Import ListNotations.
Open Scope Z_scope.

(* prepEncoder and realEncoder agree: the sizing pass computes the length of what the writing pass writes. *)
Theorem c09_sizing_agrees : forall f v x, enc_prep f v x = zlen (enc_real f v x).
Proof. exact sizing_agrees. Qed.
Print Assumptions c09_sizing_agrees.

(* Decoding the encoding of a well-typed value under a well-formed format gives the normalised value and the
   untouched rest, whatever guards the primitive getters have. *)
Theorem c09_format_roundtrip : forall cfg f v x x0 rest,
  wf f v = true -> wt f v x = true ->
  dec cfg None f v x0 (enc_real f v x ++ rest) = Ok (upd f v x0 x, rest).
Proof. exact format_roundtrip. Qed.
Print Assumptions c09_format_roundtrip.

Theorem c09_format_roundtrip_top : forall cfg f v x x0,
  wf f v = true -> wt f v x = true ->
  dec_top cfg None f v x0 (enc_real f v x) = Ok (upd f v x0 x).
Proof. exact format_roundtrip_top. Qed.
Print Assumptions c09_format_roundtrip_top.

(* The same for a regenerated (decoder format, encoder format) pair that mirrors at version v. *)
Theorem c09_pair_roundtrip : forall cfg fd fe v x x0 rest,
  mirror_at v fd fe = true -> wf (paired v fd fe) v = true -> wt (paired v fd fe) v x = true ->
  dec cfg None fd v x0 (enc_real fe v x ++ rest) = Ok (upd (paired v fd fe) v x0 x, rest).
Proof. exact pair_roundtrip. Qed.
Print Assumptions c09_pair_roundtrip.

Theorem c09_pair_roundtrip_top : forall cfg fd fe v x x0,
  mirror_at v fd fe = true -> wf (paired v fd fe) v = true -> wt (paired v fd fe) v x = true ->
  dec_top cfg None fd v x0 (enc_real fe v x) = Ok (upd (paired v fd fe) v x0 x).
Proof. exact pair_roundtrip_top. Qed.
Print Assumptions c09_pair_roundtrip_top.

Theorem c09_pair_sizing : forall fe v x, enc_prep fe v x = zlen (enc_real fe v x).
Proof. exact pair_sizing. Qed.
Print Assumptions c09_pair_sizing.

(* Re-encoding the decoded value gives identical bytes.  [reenc_ok f v x0] (WireFmt/ProofsReenc.v) is a
   computable side condition: the paths f touches at version v are valid in x0 and pairwise non-overlapping,
   x0 holds nil where the decoder keeps the field, a collection whose encoder tells nil from empty is decoded
   with a null behaviour yielding nil and a zero behaviour yielding non-nil, and the same for element formats.
   Neither wf nor wt is needed for this direction. *)
Theorem c09_reencode : forall f v x0 x,
  reenc_ok f v x0 = true -> enc_real f v (upd f v x0 x) = enc_real f v x.
Proof. exact reencode. Qed.
Print Assumptions c09_reencode.

Theorem c09_reencode_decoded : forall cfg f v x x0 y,
  wf f v = true -> wt f v x = true -> reenc_ok f v x0 = true ->
  dec_top cfg None f v x0 (enc_real f v x) = Ok y -> enc_real f v y = enc_real f v x.
Proof. exact reencode_decoded. Qed.
Print Assumptions c09_reencode_decoded.

Theorem c09_pair_reencode : forall fd fe v x0 x,
  mirror_at v fd fe = true -> reenc_ok (paired v fd fe) v x0 = true ->
  enc_real fe v (upd (paired v fd fe) v x0 x) = enc_real fe v x.
Proof. exact pair_reencode. Qed.
Print Assumptions c09_pair_reencode.
