(* C12 — shutdown always completes: no hang, no panic, channels closed.
   Property statements only; each is closed by [exact] of a lemma proved in C12/*.v.
   Models (coq/C12): Prod (async producer), PC (partition consumer + broker worker), Grp (consumer group),
   OM (offset manager), Client, Broker, Refs (reference-counted workers, any number of holders).
   [run (step c) (init c) l = Some s]: s is reached by schedule l — any interleaving of the goroutines'
   blocking operations with Close / AsyncClose called at any point.  A close of a closed channel, a send on
   a closed channel or a negative WaitGroup sets [panic]. *)
From Coq Require Import List Arith Bool.
From SV Require Import C12.Lts C12.Conn C12.ConnProofs C12.Refs C12.RefsProofs
  C12.OffMgr C12.OffMgrProofs C12.OffMgrSim
  C12.PCons C12.PConsProofs C12.PConsSafety C12.PConsSim C12.PConsAccept C12.PConsNoOor
  C12.Group C12.GroupProofs C12.GroupSafety C12.GroupSim C12.GroupAccept C12.GroupTerm C12.GroupTerminates
  C12.PConsTerm C12.PConsProgress C12.PConsMeasure C12.PConsTerminates
  C12.Prod C12.ProdProofs C12.ProdSafety C12.ProdSim C12.ProdAccept C12.ProdTerm C12.ProdProgress.
Import ListNotations.

(* Print Assumptions walks the whole proof below a theorem; statements about the same component are therefore
   grouped, so that each proof development is walked once. *)

(* ================= no send on a closed channel / no double close: a Panic state is unreachable ============ *)

(* partition consumer, offset manager, client, broker connection, reference-counted broker workers (any number of
   holders) and — on the repaired tree, where handleError and close(c.errors) are serialised by errorsLock — the
   consumer group: for every schedule and every moment of Close / AsyncClose *)
Theorem c12_no_panic : 
  (forall c l s, run (PC.step c) (PC.init c) l = Some s -> PC.panic s = false) /\
  (forall c l s, run (OM.step c) (OM.init c) l = Some s -> OM.panic s = false) /\
  (forall c l s, run (Client.step c) (Client.init c) l = Some s -> Client.panic s = false) /\
  (forall c l s, run (Broker.step c) (Broker.init c) l = Some s -> Broker.panic s = false) /\
  (forall n l s, run Refs.step (Refs.init n) l = Some s -> Refs.panic s = false) /\
  (forall c l s, Grp.elock c = true -> run (Grp.step c) (Grp.init c) l = Some s -> Grp.panic s = false).
Proof.
  exact (conj PCS.pc_no_panic (conj OMP.om_no_panic (conj ClientP.client_no_panic (conj BrokerP.broker_no_panic
        (conj RefsP.refs_no_panic GrpS.group_no_panic_fixed))))).
Qed.
Print Assumptions c12_no_panic.

(* a reference that is never returned (retryBatch of the idempotent producer) keeps the worker's input open *)
Theorem c12_refs_leak_never_closed : forall n l1 s1 l2 s2,
  run Refs.step (Refs.init n) l1 = Some s1 -> Refs.leaky (Refs.holders s1) = true ->
  run Refs.step s1 l2 = Some s2 -> Refs.in_closed s2 = false.
Proof. exact RefsP.refs_leak_never_closed. Qed.
Print Assumptions c12_refs_leak_never_closed.

(* consumer group, pinned tree: the full statement is false — an error forwarder that passed handleError's
   closed check before Close was called sends on c.errors after Close closed it ... *)
Theorem c12_no_send_on_closed_group_refuted :
  exists l s, run (Grp.step GrpS.racy_cfg) (Grp.init GrpS.racy_cfg) l = Some s /\ Grp.panic s = true.
Proof. exact GrpS.group_send_on_closed_refuted. Qed.
Print Assumptions c12_no_send_on_closed_group_refuted.

(* ... and that interleaving is the only way: every schedule that never executes close(c.errors) while a forwarder
   is between the check and the send is panic-free, and what the application observes is accepted (first Close nil
   or error, later ones nil; Consume after Close answers ErrClosedConsumerGroup; nothing on Errors() afterwards) *)
Theorem c12_no_send_on_closed_group_partial :
  (forall c l s, GrpS.avoids c (Grp.init c) l -> run (Grp.step c) (Grp.init c) l = Some s -> Grp.panic s = false) /\
  (forall c l s, GrpS.avoids c (Grp.init c) l -> run (Grp.step c) (Grp.init c) l = Some s -> Grp.accepts (trace Grp.lbl l) = true).
Proof. exact (conj GrpS.group_no_panic_partial GrpA.group_trace_accepted_partial). Qed.
Print Assumptions c12_no_send_on_closed_group_partial.

(* partition consumer, site by site: whoever is about to send on errors / messages / feeder / trigger / the
   worker's input finds the channel open *)
Theorem c12_no_send_on_closed : forall c l s, run (PC.step c) (PC.init c) l = Some s ->
  ((PC.dp s = PC.DErr \/ PC.fp s = PC.FParseErr \/ (exists o, PC.sc (PC.w s) = PC.SCHErr o) \/
    PC.sc (PC.w s) = PC.SCAbErr \/ PC.sc (PC.w s) = PC.SCAbNErr) -> closed (PC.errs (PC.ch s)) = false) /\
  ((exists n f, PC.fp s = PC.FMsgs n f) \/ (exists n, PC.fp s = PC.FLimbo n) -> closed (PC.msgs (PC.ch s)) = false) /\
  (PC.sc (PC.w s) = PC.SCFeed -> PC.feed_closed (PC.ch s) = false) /\
  ((PC.dp s = PC.DTok \/ PC.sc (PC.w s) = PC.SCHTok \/ PC.sc (PC.w s) = PC.SCAbTok \/ PC.sc (PC.w s) = PC.SCAbNTok) ->
     PC.trig_closed (PC.ch s) = false /\ PC.trig_tok (PC.ch s) = false) /\
  ((PC.dp s = PC.DSub \/ PC.fp s = PC.FResub) -> PC.in_closed (PC.w s) = false).
Proof. exact PCS.pc_no_send_on_closed. Qed.
Print Assumptions c12_no_send_on_closed.

(* partition consumer, site by site: whoever is about to close trigger / feeder / messages / errors / the
   worker's input / wait / newSubscriptions finds it open; trigger is closed either by the dispatcher or by the
   broker worker holding the subscription, never both *)
Theorem c12_no_double_close : forall c l s, run (PC.step c) (PC.init c) l = Some s ->
  ((PC.dp s = PC.DSel \/ PC.sc (PC.w s) = PC.SCUpdClose \/ PC.sc (PC.w s) = PC.SCHClose) -> PC.trig_closed (PC.ch s) = false) /\
  (PC.dp s = PC.DCloseF -> PC.feed_closed (PC.ch s) = false) /\
  (PC.fp s = PC.FCloseM -> closed (PC.msgs (PC.ch s)) = false) /\
  (PC.fp s = PC.FCloseE -> closed (PC.errs (PC.ch s)) = false) /\
  (PC.has_broker s = true -> PC.in_closed (PC.w s) = false) /\
  (PC.sm (PC.w s) = PC.SMCloseWait -> PC.wait_closed (PC.w s) = false) /\
  (PC.sm (PC.w s) = PC.SMCloseNS -> PC.ns_closed (PC.w s) = false) /\
  (PC.dp s = PC.DSel -> PC.sc (PC.w s) <> PC.SCUpdClose /\ PC.sc (PC.w s) <> PC.SCHClose).
Proof. exact PCS.pc_no_double_close. Qed.
Print Assumptions c12_no_double_close.

(* ================= output channels are closed after their last event ================= *)

(* partition consumer: messages / errors are closed by the feeder after its last send, feeder after the
   dispatcher left its loop; offset manager: a POM's errors channel is closed exactly when the POM was released
   (removed from om.poms: nothing is sent to it any more) *)
Theorem c12_closed_after_last_event :
  (forall c l s, run (PC.step c) (PC.init c) l = Some s ->
    (closed (PC.msgs (PC.ch s)) = true -> PC.fp s = PC.FCloseE \/ PC.fp s = PC.FDone) /\
    (closed (PC.errs (PC.ch s)) = true -> PC.fp s = PC.FDone) /\
    (PC.feed_closed (PC.ch s) = true -> PC.dp s = PC.DDone) /\
    (PC.fp s = PC.FCloseM \/ PC.fp s = PC.FCloseE \/ PC.fp s = PC.FDone -> PC.feed_closed (PC.ch s) = true /\ PC.feed_full (PC.ch s) = false)) /\
  (forall c l s p, run (OM.step c) (OM.init c) l = Some s -> In p (OM.poms s) -> closed (OM.errs p) = negb (OM.managed p)).
Proof. exact (conj PCS.pc_closed_after_last_event OMP.om_released_closed). Qed.
Print Assumptions c12_closed_after_last_event.

(* what the application can observe of a run is accepted by the component's observer automaton — the acceptance
   functions the correspondence evaluates on the harness observations (coq/C12/Corr.v): no event on a channel after
   its close was seen; nothing from Errors() while the application's Close() drains it; Close() returns after errors
   was closed and drained, and then messages is closed too and holds at most its buffer; when the broker never
   answers OffsetOutOfRange the channels are seen closed only after a close call; offset manager: per POM events,
   then one close, nothing afterwards *)
Theorem c12_observable :
  (forall c l s, run (PC.step c) (PC.init c) l = Some s -> PC.accepts c true (trace PC.lbl l) = true) /\
  (forall c l s, forallb PCN.noor l = true -> run (PC.step c) (PC.init c) l = Some s -> PC.accepts c false (trace PC.lbl l) = true) /\
  (forall c l s, run (OM.step c) (OM.init c) l = Some s -> OM.accepts c (trace OM.lbl l) = true).
Proof. exact (conj PCA.pc_trace_accepted (conj PCN.pc_trace_accepted_noor OMSim.om_trace_accepted)). Qed.
Print Assumptions c12_observable.

(* ================= closing twice is harmless ================= *)

(* partition consumer: a second AsyncClose changes nothing (closeOnce), a second Close() returns no errors (in
   c12_observable: the automaton accepts `Ret 1 n` after a first return only for n = 0);
   group (repaired tree): the first Close returns nil or an error, every later one nil; Consume on a group whose Close
   has returned answers ErrClosedConsumerGroup; Errors() delivers nothing after Close returned;
   client: the first Close returns nil, every later one ErrClosedClient;
   broker connection: Close on a connection that is not open returns ErrNotConnected and touches nothing *)
Theorem c12_double_close_harmless :
  (forall c s s', PC.once (PC.ch s) = true -> PC.step c s PC.AAsyncClose = Some s' ->
     PC.ch s' = PC.ch s /\ PC.dp s' = PC.dp s /\ PC.fp s' = PC.fp s /\ PC.w s' = PC.w s /\ PC.ap s' = PC.ap s /\ PC.panic s' = PC.panic s) /\
  (forall c l s, Grp.elock c = true -> run (Grp.step c) (Grp.init c) l = Some s -> Grp.accepts (trace Grp.lbl l) = true) /\
  (forall c l s, run (Client.step c) (Client.init c) l = Some s -> Client.accepts (trace Client.lbl l) = true) /\
  (forall c s s', Broker.conn s = false -> Broker.step c s Broker.ACloseCall = Some s' ->
     Broker.ret s' = Some rErrNotConnected /\ Broker.conn s' = false /\ Broker.resp s' = Broker.resp s /\
     Broker.done s' = Broker.done s /\ Broker.panic s' = Broker.panic s).
Proof.
  exact (conj PCS.pc_second_asyncclose_noop (conj GrpA.group_trace_accepted_fixed
        (conj ClientP.client_trace_accepted BrokerP.broker_close_not_open))).
Qed.
Print Assumptions c12_double_close_harmless.

(* ================= termination ================= *)
(* [Terminates step phase final]: inside the phase the successor relation is well founded (no infinite run) and
   a state of the phase in which no step is enabled is final.  Timer events after the close, error reports
   still to come and calls the application still makes are finitely many (budgets of the models, arbitrary);
   network calls are single steps (they return); the application keeps receiving. *)

Theorem c12_group_terminates : forall c, Grp.elock c = true ->
  Terminates (Grp.step c) (fun s => Reach (Grp.step c) (Grp.init c) s /\ Grp.closed_ch s = true) Grp.final.
Proof. exact GrpTT.group_terminates. Qed.
Print Assumptions c12_group_terminates.

(* partition consumer: from AsyncClose / Close on (dying closed) there is no infinite run — the dispatcher's select
   prefers its back-off timer over the closed dying channel finitely often, the application makes finitely many further
   calls — and a state in which no step is enabled has dispatcher, feeder, subscription manager and subscription
   consumer returned and messages / errors closed *)
Theorem c12_consumer_terminates : forall c,
  Terminates (PC.step c) (fun s => Reach (PC.step c) (PC.init c) s /\ PC.dying (PC.ch s) = true) PC.final.
Proof. exact PCTerm.pc_terminates. Qed.
Print Assumptions c12_consumer_terminates.

(* async producer — partial (safety + the progress half of the close cascade):
   - no schedule panics (input, retries, errors, successes, the handlers' inputs, the worker's input / output /
     responses / stopchan are closed once and nothing is sent on them afterwards, inFlight never goes negative);
   - shutdown() closes the four public channels only when nothing is in flight, and inFlight counts every token a
     goroutine can hold;
   - what the application observes is accepted by the observer automaton (the acceptance function of the correspondence);
   - once shutdown() has passed inFlight.Wait(), a state in which no step is enabled has the four channels closed and
     every goroutine of the producer returned (no deadlock in the cascade).
   The full statement (from AsyncClose on every run is finite and ends closed — which includes that everything in
   flight gets resolved, the liveness side of property C01) is the Definition below. *)
Theorem c12_producer_terminates_partial :
  (forall c l s, run (Prod.step c) (Prod.init c) l = Some s -> Prod.panic s = false) /\
  (forall c l s, run (Prod.step c) (Prod.init c) l = Some s ->
     Prod.inflight s = ProdP.tokens s /\
     (Prod.err_closed s = true \/ Prod.succ_closed s = true \/ Prod.ret_closed s = true \/ Prod.in_closed s = true -> ProdP.tokens s = 0)) /\
  (forall c l s, run (Prod.step c) (Prod.init c) l = Some s -> Prod.accepts c (trace (Prod.lbl c) l) = true) /\
  (forall c s, Reach (Prod.step c) (Prod.init c) s -> ProdP.sLate (Prod.sp s) = 1 -> stuck (Prod.step c) s -> Prod.final s).
Proof.
  exact (conj ProdS.prod_no_panic (conj ProdS.prod_closed_after_last_event (conj ProdA.prod_trace_accepted ProdTT.prod_cascade_progress))).
Qed.
Print Assumptions c12_producer_terminates_partial.

Definition c12_producer_terminates : Prop := ProdTT.prod_terminates_statement.

Theorem c12_client_broker_terminate :
  (forall c, Terminates (Client.step c) (fun s => Reach (Client.step c) (Client.init c) s /\ Client.closer s = true) Client.final) /\
  (forall c, Terminates (Broker.step c) (fun s => Reach (Broker.step c) (Broker.init c) s /\ Broker.closing s) BrokerP.final).
Proof. exact (conj ClientP.client_terminates BrokerP.broker_close_terminates). Qed.
Print Assumptions c12_client_broker_terminate.
