(* C12 — shutdown always completes: no hang, no panic, channels closed.
   Property statements only; each is closed by [exact] of the lemma with the same statement in coq/C12/Export.v, where
   it is assembled from the lemmas of the development.  [Print Assumptions] of these statements is run at build time
   (coq/C12/ExportPA1..4.v -> coq/C12/Export_<name>.out, all "Closed under the global context"; checks/c12.py reads the
   files): walking the proofs takes over a minute, which is why it is not repeated here at every check.
   Models (coq/C12): Prod (async producer), PC (partition consumer + broker worker), Grp (consumer group),
   OM (offset manager), Client, Broker, Refs (reference-counted workers, any number of holders).
   [run (step c) (init c) l = Some s]: s is reached by schedule l — any interleaving of the goroutines'
   blocking operations with Close / AsyncClose called at any point. *)
From Coq Require Import List Arith Bool.
From SV Require Import C12.Lts C12.Conn C12.ConnProofs C12.Refs C12.OffMgr C12.PCons C12.PConsNoOor
  C12.Group C12.GroupSafety C12.Prod C12.ProdProofs C12.ProdProgress C12.Export.
Import ListNotations.

(* ================= a Panic state is unreachable =================
   Every model sets [panic] when a closed channel is closed again, when something is sent on a closed channel, or when a
   WaitGroup counter would go negative.  Partition consumer, consumer group (errorsLock: handleError and
   close(c.errors) serialised — the tree since fix 7d88780), async producer, offset manager, client, broker connection,
   reference-counted broker workers (any number of holders): for every schedule and every moment of Close / AsyncClose *)
Theorem c12_no_panic :
  (forall c l s, run (PC.step c) (PC.init c) l = Some s -> PC.panic s = false) /\
  (forall c l s, Grp.elock c = true -> run (Grp.step c) (Grp.init c) l = Some s -> Grp.panic s = false) /\
  (forall c l s, run (Prod.step c) (Prod.init c) l = Some s -> Prod.panic s = false) /\
  (forall c l s, run (OM.step c) (OM.init c) l = Some s -> OM.panic s = false) /\
  (forall c l s, run (Client.step c) (Client.init c) l = Some s -> Client.panic s = false) /\
  (forall c l s, run (Broker.step c) (Broker.init c) l = Some s -> Broker.panic s = false) /\
  (forall n l s, run Refs.step (Refs.init n) l = Some s -> Refs.panic s = false).
Proof. exact C12X.c12_no_panic. Qed.

(* ================= no send on a closed channel, site by site =================
   partition consumer: whoever is about to send on errors / messages / feeder / trigger / the worker's input finds the
   channel open;
   consumer group: whoever is between handleError's closed check and its non-blocking send on c.errors — a consume
   goroutine, the heartbeat loop, release() after a failed Cleanup, an error forwarder — finds c.errors open;
   async producer: everything sent on errors / successes / retries (and still readable from input) is a counted token,
   and while there is one the four public channels are open; the handlers' inputs are open until their feeder has
   returned, the worker's input while the partition producer holds its reference, the worker's output until the worker
   closed it, responses until the bridge returned;
   broker connection: a sender on b.responses (holding the lock) finds it open and the receiver still there *)
Theorem c12_no_send_on_closed :
  (* partition consumer *)
  (forall c l s, run (PC.step c) (PC.init c) l = Some s ->
    ((PC.dp s = PC.DErr \/ PC.fp s = PC.FParseErr \/ (exists o, PC.sc (PC.w s) = PC.SCHErr o) \/
      PC.sc (PC.w s) = PC.SCAbErr \/ PC.sc (PC.w s) = PC.SCAbNErr) -> closed (PC.errs (PC.ch s)) = false) /\
    ((exists n f, PC.fp s = PC.FMsgs n f) \/ (exists n, PC.fp s = PC.FLimbo n) -> closed (PC.msgs (PC.ch s)) = false) /\
    (PC.sc (PC.w s) = PC.SCFeed -> PC.feed_closed (PC.ch s) = false) /\
    ((PC.dp s = PC.DTok \/ PC.sc (PC.w s) = PC.SCHTok \/ PC.sc (PC.w s) = PC.SCAbTok \/ PC.sc (PC.w s) = PC.SCAbNTok) ->
       PC.trig_closed (PC.ch s) = false /\ PC.trig_tok (PC.ch s) = false) /\
    ((PC.dp s = PC.DSub \/ PC.fp s = PC.FResub) -> PC.in_closed (PC.w s) = false)) /\
  (* consumer group (errorsLock) *)
  (forall c l s, Grp.elock c = true -> run (Grp.step c) (Grp.init c) l = Some s ->
    (1 <= Grp.n_he s \/ Grp.hb s = Grp.HHe \/ (exists r, Grp.cc s = Grp.CRelHe r) \/ 1 <= Grp.fw_checked s) ->
    closed (Grp.errs s) = false) /\
  (* async producer *)
  (forall c l s, run (Prod.step c) (Prod.init c) l = Some s ->
    (1 <= ProdP.tokens s -> Prod.in_closed s = false /\ Prod.ret_closed s = false /\ Prod.err_closed s = false /\ Prod.succ_closed s = false) /\
    (Prod.dp s <> Prod.DDone -> Prod.tpq_closed s = false) /\ (Prod.tp s <> Prod.TDone -> Prod.ppq_closed s = false) /\
    (Prod.pp_ref s = true -> Prod.b_in_closed s = false) /\
    (ProdP.bLate (Prod.bp s) (Prod.b_after s) = 0 -> Prod.out_closed s = false) /\
    (Prod.br s <> Prod.BrDone -> Prod.resp_closed s = false)) /\
  (* broker connection *)
  (forall c l s, run (Broker.step c) (Broker.init c) l = Some s ->
    Broker.lk s = Broker.LSend -> closed (Broker.resp s) = false /\ Broker.done s = false).
Proof. exact C12X.c12_no_send_on_closed. Qed.

(* ================= no double close, site by site =================
   partition consumer: whoever is about to close trigger / feeder / messages / errors / the worker's input / wait /
   newSubscriptions finds it open; trigger is closed either by the dispatcher or by the broker worker holding the
   subscription, never both;
   consumer group: c.closed (closeOnce), c.errors (the goroutine spawned by Close), hbDying (release, releaseOnce) and
   hbDead (heartbeat loop's defer) are open when about to be closed, and the session's WaitGroup equals the number of
   consume goroutines that have not run their deferred Done (never negative);
   async producer: the four closes of shutdown(), the dispatcher's / topic producer's close of their handlers' inputs,
   the worker's close of output and stopchan, the bridge's close of responses; the worker's input is open while the
   partition producer holds its reference;
   broker connection: Close (lock free, connection open) finds responses open, the receiver closes done once;
   client: closer is open exactly until the one Close that finds the client open, closed is closed by the updater's
   return; offset manager: a POM's errors channel is closed exactly by its release (releaseOnce) *)
Theorem c12_no_double_close :
  (* partition consumer *)
  (forall c l s, run (PC.step c) (PC.init c) l = Some s ->
    ((PC.dp s = PC.DSel \/ PC.sc (PC.w s) = PC.SCUpdClose \/ PC.sc (PC.w s) = PC.SCHClose) -> PC.trig_closed (PC.ch s) = false) /\
    (PC.dp s = PC.DCloseF -> PC.feed_closed (PC.ch s) = false) /\
    (PC.fp s = PC.FCloseM -> closed (PC.msgs (PC.ch s)) = false) /\
    (PC.fp s = PC.FCloseE -> closed (PC.errs (PC.ch s)) = false) /\
    (PC.has_broker s = true -> PC.in_closed (PC.w s) = false) /\
    (PC.sm (PC.w s) = PC.SMCloseWait -> PC.wait_closed (PC.w s) = false) /\
    (PC.sm (PC.w s) = PC.SMCloseNS -> PC.ns_closed (PC.w s) = false) /\
    (PC.dp s = PC.DSel -> PC.sc (PC.w s) <> PC.SCUpdClose /\ PC.sc (PC.w s) <> PC.SCHClose)) /\
  (* consumer group (errorsLock) *)
  (forall c l s, Grp.elock c = true -> run (Grp.step c) (Grp.init c) l = Some s ->
    (Grp.kc s = Grp.KCloseCh -> Grp.closed_ch s = false) /\
    (Grp.ke s = Grp.EPending -> closed (Grp.errs s) = false) /\
    ((exists r, Grp.cc s = Grp.CRel3 r) -> Grp.hb_dying s = false) /\
    (Grp.hb s = Grp.HExit -> Grp.hb_dead s = false) /\
    Grp.wg s = Grp.n_start s + Grp.n_new s + Grp.n_run s + Grp.n_wait s + Grp.n_he s + Grp.n_defer s) /\
  (* async producer *)
  (forall c l s, run (Prod.step c) (Prod.init c) l = Some s ->
    (Prod.sp s = Prod.SCloseIn -> Prod.in_closed s = false) /\ (Prod.sp s = Prod.SCloseRet -> Prod.ret_closed s = false) /\
    (Prod.sp s = Prod.SCloseErr -> Prod.err_closed s = false) /\ (Prod.sp s = Prod.SCloseSucc -> Prod.succ_closed s = false) /\
    (Prod.dp s = Prod.DCloseH -> Prod.tpq_closed s = false) /\ (Prod.tp s = Prod.TCloseH -> Prod.ppq_closed s = false) /\
    (Prod.bp s = Prod.BShutCloseOut -> Prod.out_closed s = false) /\ (Prod.br s = Prod.BrClose -> Prod.resp_closed s = false) /\
    (Prod.bp s = Prod.BShutStop -> Prod.stop_closed s = false) /\
    (Prod.pp_ref s = true -> Prod.b_in_closed s = false)) /\
  (* broker connection, client, offset manager *)
  (forall c l s, run (Broker.step c) (Broker.init c) l = Some s ->
    (Broker.conn s = true -> Broker.lk s = Broker.LFree -> closed (Broker.resp s) = false /\ Broker.done s = false) /\
    (Broker.rc s = Broker.RIdle \/ Broker.rc s = Broker.RBusy -> Broker.done s = false)) /\
  (forall c l s, run (Client.step c) (Client.init c) l = Some s ->
    (Client.closer s = false -> Client.cl s = Client.CIdle /\ Client.brokers_nil s = false) /\
    (Client.closedch s = true <-> Client.up s = Client.UDone)) /\
  (forall c l s p, run (OM.step c) (OM.init c) l = Some s -> In p (OM.poms s) ->
    closed (OM.errs p) = OM.rel_once p /\ OM.managed p = negb (OM.rel_once p)).
Proof. exact C12X.c12_no_double_close. Qed.

(* the broker worker's reference count: the partition consumer holds exactly one reference while child.broker != nil
   (the dispatcher resets child.broker when it returns the reference), none otherwise; the worker's input is closed
   exactly when the reference was returned; while the child is with the worker (subscription manager's buffer,
   subscription map) the reference is held.  Any number of children following that holder protocol on one worker
   (Refs.v): the input is closed at most once, nobody sends on it afterwards, the count never goes negative, and a
   closed input means nobody holds a reference — a worker with subscribers is never shut down *)
Theorem c12_worker_refcount :
  (forall c l s, run (PC.step c) (PC.init c) l = Some s ->
    PC.refs (PC.w s) = (if PC.has_broker s then 1 else 0) /\
    PC.in_closed (PC.w s) = negb (PC.has_broker s) /\
    (PC.buf (PC.w s) = true \/ PC.subs (PC.w s) = true -> PC.has_broker s = true)) /\
  (forall n l s, run Refs.step (Refs.init n) l = Some s ->
    Refs.panic s = false /\ (Refs.in_closed s = true -> Refs.count (Refs.holders s) = 0)).
Proof. exact C12X.c12_worker_refcount. Qed.

(* a reference that is never returned (retryBatch of the idempotent producer) keeps the worker's input open *)
Theorem c12_refs_leak_never_closed : forall n l1 s1 l2 s2,
  run Refs.step (Refs.init n) l1 = Some s1 -> Refs.leaky (Refs.holders s1) = true ->
  run Refs.step s1 l2 = Some s2 -> Refs.in_closed s2 = false.
Proof. exact C12X.c12_refs_leak_never_closed. Qed.

(* consumer group: the partition-number watcher (loopCheckPartitionNumbers) is the goroutine that turns c.closed into the
   end of the session when no claim ends by itself (empty assignment, or — model flag hctx — handlers that block on
   session.Context().Done()): while Consume waits for the session context the watcher is alive or the context is
   cancelled; a watcher that returned has cancelled it; consume goroutines exist only in a session whose watcher was
   started; a watcher waiting in its select leaves once c.closed is closed.  c12_group_terminates is proved for
   every number of claims (0 included) and both kinds of handler *)
Theorem c12_group_watcher : forall c s, Grp.elock c = true -> Reach (Grp.step c) (Grp.init c) s ->
  (Grp.cc s = Grp.CWaitCtx -> Grp.ctx_done s = true \/ Grp.lc s = Grp.LcNet \/ Grp.lc s = Grp.LcSel \/ Grp.lc s = Grp.LcExit) /\
  (Grp.lc s = Grp.LcDone -> Grp.ctx_done s = true) /\
  (1 <= Grp.n_start s + Grp.n_new s + Grp.n_run s + Grp.n_wait s + Grp.n_he s + Grp.n_defer s -> Grp.lc s <> Grp.LcNone) /\
  (Grp.lc s = Grp.LcSel -> Grp.closed_ch s = true -> exists s', Grp.step c s Grp.ALStop = Some s' /\ Grp.lc s' = Grp.LcExit).
Proof. exact C12X.c12_group_watcher. Qed.

(* consumer group: release() (close(hbDying); <-hbDead) is only ever run on a session whose heartbeat loop was started — also
   on the failure path of newConsumerGroupSession (a claim's initial offset fetch fails after the session object exists:
   model step ACSetup SFailLate); release waits on hbDead after closing hbDying; hbDead is closed exactly by the loop's exit *)
Theorem c12_group_release_has_heartbeat : forall c s, Grp.elock c = true -> Reach (Grp.step c) (Grp.init c) s ->
  ((Grp.cc s = Grp.CWaitCtx \/ (exists r, Grp.cc s = Grp.CRel1 r) \/ (exists r, Grp.cc s = Grp.CRelWait r) \/ (exists r, Grp.cc s = Grp.CRel2 r) \/
    (exists r, Grp.cc s = Grp.CRelHe r) \/ (exists r, Grp.cc s = Grp.CRel3 r) \/ (exists r, Grp.cc s = Grp.CRel4 r)) -> Grp.hb s <> Grp.HNone) /\
  ((exists r, Grp.cc s = Grp.CRel4 r) -> Grp.hb_dying s = true) /\
  (Grp.hb s = Grp.HDone <-> Grp.hb_dead s = true).
Proof. exact C12X.c12_group_release_has_heartbeat. Qed.

(* broker connection: b.responses / b.done exist exactly while the connection is open and past its SASL step, and then a
   receiver goroutine exists that closes done (a Close waiting on done waits on a channel with a receiver); during
   the SASL step and after its failure there is a / no connection, no channels and no receiver: Open whose
   authentication fails leaves the broker as a failed dial does, and Close answers ErrNotConnected *)
Theorem c12_broker_done_has_receiver :
  (forall c l s, run (Broker.step c) (Broker.init c) l = Some s ->
    (Broker.made s = true <-> (Broker.conn s = true /\ Broker.lk s <> Broker.LAuth)) /\
    (Broker.made s = true -> Broker.rc s <> Broker.RNone) /\
    (Broker.lk s = Broker.LClose -> Broker.made s = true /\ Broker.rc s <> Broker.RNone) /\
    (Broker.lk s = Broker.LAuth -> Broker.conn s = true /\ Broker.made s = false /\ Broker.rc s = Broker.RNone) /\
    (Broker.conn s = false -> Broker.made s = false /\ Broker.rc s = Broker.RNone)) /\
  (forall c s s', Broker.lk s = Broker.LAuth -> Broker.step c s Broker.AAuthFail = Some s' ->
    Broker.conn s' = false /\ Broker.lk s' = Broker.LFree /\ Broker.made s' = Broker.made s /\ Broker.rc s' = Broker.rc s).
Proof. exact C12X.c12_broker_done_has_receiver. Qed.

(* ================= the consumer group before fix 7d88780 (model flag elock = false) =================
   the full statement is false — an error forwarder that passed handleError's closed check before Close was called
   sends on c.errors after Close closed it ... *)
Theorem c12_no_send_on_closed_group_refuted :
  exists l s, run (Grp.step GrpS.racy_cfg) (Grp.init GrpS.racy_cfg) l = Some s /\ Grp.panic s = true.
Proof. exact C12X.c12_no_send_on_closed_group_refuted. Qed.

(* ... and that interleaving is the only way: every schedule that never executes close(c.errors) while a forwarder
   is between the check and the send is panic-free, and what the application observes is accepted *)
Theorem c12_no_send_on_closed_group_partial :
  (forall c l s, GrpS.avoids c (Grp.init c) l -> run (Grp.step c) (Grp.init c) l = Some s -> Grp.panic s = false) /\
  (forall c l s, GrpS.avoids c (Grp.init c) l -> run (Grp.step c) (Grp.init c) l = Some s -> Grp.accepts (trace Grp.lbl l) = true).
Proof. exact C12X.c12_no_send_on_closed_group_partial. Qed.

(* ================= output channels are closed after their last event =================
   partition consumer: messages / errors are closed by the feeder after its last send, feeder after the dispatcher left
   its loop; consumer group: once c.errors is closed nobody is positioned to send on it, c.closed is closed (every later
   handleError returns at its check); async producer: shutdown() closes the four public channels only when nothing is in
   flight, and inFlight counts every token a goroutine can hold; offset manager: a POM's errors channel is closed exactly
   when the POM was released (removed from om.poms); broker connection: the receiver closes done only after responses
   was closed and drained *)
Theorem c12_closed_after_last_event :
  (forall c l s, run (PC.step c) (PC.init c) l = Some s ->
    (closed (PC.msgs (PC.ch s)) = true -> PC.fp s = PC.FCloseE \/ PC.fp s = PC.FDone) /\
    (closed (PC.errs (PC.ch s)) = true -> PC.fp s = PC.FDone) /\
    (PC.feed_closed (PC.ch s) = true -> PC.dp s = PC.DDone) /\
    (PC.fp s = PC.FCloseM \/ PC.fp s = PC.FCloseE \/ PC.fp s = PC.FDone -> PC.feed_closed (PC.ch s) = true /\ PC.feed_full (PC.ch s) = false)) /\
  (forall c l s, Grp.elock c = true -> run (Grp.step c) (Grp.init c) l = Some s -> closed (Grp.errs s) = true ->
    Grp.n_he s = 0 /\ Grp.hb s <> Grp.HHe /\ (forall r, Grp.cc s <> Grp.CRelHe r) /\ Grp.fw_checked s = 0 /\
    Grp.closed_ch s = true /\ Grp.ke s = Grp.EDone) /\
  (forall c l s, run (Prod.step c) (Prod.init c) l = Some s ->
    Prod.inflight s = ProdP.tokens s /\
    (Prod.err_closed s = true \/ Prod.succ_closed s = true \/ Prod.ret_closed s = true \/ Prod.in_closed s = true -> ProdP.tokens s = 0)) /\
  (forall c l s p, run (OM.step c) (OM.init c) l = Some s -> In p (OM.poms s) -> closed (OM.errs p) = negb (OM.managed p)) /\
  (forall c l s, run (Broker.step c) (Broker.init c) l = Some s ->
    Broker.rc s = Broker.RDone -> Broker.done s = true /\ closed (Broker.resp s) = true /\ len (Broker.resp s) = 0).
Proof. exact C12X.c12_closed_after_last_event. Qed.

(* ================= what the application can observe is accepted by the component's observer automaton =================
   — the acceptance functions the correspondence evaluates on the harness observations (coq/C12/Corr.v): no event on a
   channel after its close was seen; nothing from Errors() while the application's Close() drains it; Close() returns
   after errors was closed and drained, and then messages is closed too and holds at most its buffer; when the broker
   never answers OffsetOutOfRange the channels are seen closed only after a close call; group: first Close nil or error,
   later ones nil, Consume after Close answers ErrClosedConsumerGroup, nothing on Errors() afterwards; producer: the four
   channels close after AsyncClose, in order; offset manager: per POM events, then one close, nothing afterwards *)
Theorem c12_observable :
  (forall c l s, run (PC.step c) (PC.init c) l = Some s -> PC.accepts c true (trace PC.lbl l) = true) /\
  (forall c l s, forallb PCN.noor l = true -> run (PC.step c) (PC.init c) l = Some s -> PC.accepts c false (trace PC.lbl l) = true) /\
  (forall c l s, Grp.elock c = true -> run (Grp.step c) (Grp.init c) l = Some s -> Grp.accepts (trace Grp.lbl l) = true) /\
  (forall c l s, run (Prod.step c) (Prod.init c) l = Some s -> Prod.accepts c (trace (Prod.lbl c) l) = true) /\
  (forall c l s, run (OM.step c) (OM.init c) l = Some s -> OM.accepts c (trace OM.lbl l) = true) /\
  (forall c l s, run (Client.step c) (Client.init c) l = Some s -> Client.accepts (trace Client.lbl l) = true).
Proof. exact C12X.c12_observable. Qed.

(* ================= closing twice is harmless =================
   partition consumer: a second AsyncClose changes nothing (closeOnce), a second Close() returns no errors (in
   c12_observable: the automaton accepts `Ret 1 n` after a first return only for n = 0);
   group: the first Close returns nil or an error, every later one nil; Consume on a group whose Close has returned
   answers ErrClosedConsumerGroup; Errors() delivers nothing after Close returned;
   client: the first Close returns nil, every later one ErrClosedClient;
   broker connection: Close on a connection that is not open returns ErrNotConnected and touches nothing *)
Theorem c12_double_close_harmless :
  (forall c s s', PC.once (PC.ch s) = true -> PC.step c s PC.AAsyncClose = Some s' ->
     PC.ch s' = PC.ch s /\ PC.dp s' = PC.dp s /\ PC.fp s' = PC.fp s /\ PC.w s' = PC.w s /\ PC.ap s' = PC.ap s /\ PC.panic s' = PC.panic s) /\
  (forall c l s, Grp.elock c = true -> run (Grp.step c) (Grp.init c) l = Some s -> Grp.accepts (trace Grp.lbl l) = true) /\
  (forall c l s, run (Client.step c) (Client.init c) l = Some s -> Client.accepts (trace Client.lbl l) = true) /\
  (forall c s s', Broker.conn s = false -> Broker.step c s Broker.ACloseCall = Some s' ->
     Broker.ret s' = Some rErrNotConnected /\ Broker.conn s' = false /\ Broker.resp s' = Broker.resp s /\
     Broker.done s' = Broker.done s /\ Broker.panic s' = Broker.panic s).
Proof. exact C12X.c12_double_close_harmless. Qed.

(* ================= termination =================
   [Terminates step phase final]: inside the phase the successor relation is well founded (no infinite run) and
   a state of the phase in which no step is enabled is final.  Timer events after the close, error reports
   still to come and calls the application still makes are finitely many (budgets of the models, arbitrary);
   network calls are single steps (they return); the application keeps receiving. *)
Theorem c12_group_terminates : forall c, Grp.elock c = true ->
  Terminates (Grp.step c) (fun s => Reach (Grp.step c) (Grp.init c) s /\ Grp.closed_ch s = true) Grp.final.
Proof. exact C12X.c12_group_terminates. Qed.

(* partition consumer: from AsyncClose / Close on (dying closed) there is no infinite run — the dispatcher's select
   prefers its back-off timer over the closed dying channel finitely often, the application makes finitely many further
   calls — and a state in which no step is enabled has dispatcher, feeder, subscription manager and subscription
   consumer returned and messages / errors closed *)
Theorem c12_consumer_terminates : forall c,
  Terminates (PC.step c) (fun s => Reach (PC.step c) (PC.init c) s /\ PC.dying (PC.ch s) = true) PC.final.
Proof. exact C12X.c12_consumer_terminates. Qed.

(* async producer — partial (safety + the progress half of the close cascade):
   - no schedule panics;
   - shutdown() closes the four public channels only when nothing is in flight, and inFlight counts every token;
   - what the application observes is accepted by the observer automaton;
   - once shutdown() has passed inFlight.Wait(), a state in which no step is enabled has the four channels closed and
     every goroutine of the producer returned (no deadlock in the cascade).
   The full statement (from AsyncClose on every run is finite and ends closed — which includes that everything in
   flight gets resolved, the liveness side of property C01) is the Definition below; it is NOT proved. *)
Theorem c12_producer_terminates_partial :
  (forall c l s, run (Prod.step c) (Prod.init c) l = Some s -> Prod.panic s = false) /\
  (forall c l s, run (Prod.step c) (Prod.init c) l = Some s ->
     Prod.inflight s = ProdP.tokens s /\
     (Prod.err_closed s = true \/ Prod.succ_closed s = true \/ Prod.ret_closed s = true \/ Prod.in_closed s = true -> ProdP.tokens s = 0)) /\
  (forall c l s, run (Prod.step c) (Prod.init c) l = Some s -> Prod.accepts c (trace (Prod.lbl c) l) = true) /\
  (forall c s, Reach (Prod.step c) (Prod.init c) s -> ProdP.sLate (Prod.sp s) = 1 -> stuck (Prod.step c) s -> Prod.final s).
Proof. exact C12X.c12_producer_terminates_partial. Qed.

Definition c12_producer_terminates : Prop := ProdTT.prod_terminates_statement.

(* client (background updater) and broker connection (receiver goroutine, Close waiting for done) *)
Theorem c12_client_broker_terminate :
  (forall c, Terminates (Client.step c) (fun s => Reach (Client.step c) (Client.init c) s /\ Client.closer s = true) Client.final) /\
  (forall c, Terminates (Broker.step c) (fun s => Reach (Broker.step c) (Broker.init c) s /\ Broker.closing s) BrokerP.final).
Proof. exact C12X.c12_client_broker_terminate. Qed.

