(* C12 — shutdown always completes: no hang, no panic, channels closed.
   Property statements only; each is closed by [exact] of a lemma proved in C12/*Proofs.v. *)
From Coq Require Import List Arith Bool.
From SV Require Import C12.Lts C12.Conn C12.ConnProofs C12.Refs C12.RefsProofs.
Import ListNotations.

(* ---- client ---- *)
Theorem c12_client_no_panic : forall c l s,
  run (Client.step c) (Client.init c) l = Some s -> Client.panic s = false.
Proof. exact ClientP.client_no_panic. Qed.
Print Assumptions c12_client_no_panic.

Theorem c12_double_close_harmless_client : forall c l s,
  run (Client.step c) (Client.init c) l = Some s -> Client.accepts (trace Client.lbl l) = true.
Proof. exact ClientP.client_trace_accepted. Qed.
Print Assumptions c12_double_close_harmless_client.

Theorem c12_client_terminates : forall c,
  Terminates (Client.step c) (fun s => Reach (Client.step c) (Client.init c) s /\ Client.closer s = true) Client.final.
Proof. exact ClientP.client_terminates. Qed.
Print Assumptions c12_client_terminates.

(* ---- broker connection ---- *)
Theorem c12_broker_no_panic : forall c l s,
  run (Broker.step c) (Broker.init c) l = Some s -> Broker.panic s = false.
Proof. exact BrokerP.broker_no_panic. Qed.
Print Assumptions c12_broker_no_panic.

Theorem c12_broker_close_not_open : forall c s s', Broker.conn s = false -> Broker.step c s Broker.ACloseCall = Some s' ->
  Broker.ret s' = Some rErrNotConnected /\ Broker.conn s' = false /\ Broker.resp s' = Broker.resp s /\
  Broker.done s' = Broker.done s /\ Broker.panic s' = Broker.panic s.
Proof. exact BrokerP.broker_close_not_open. Qed.
Print Assumptions c12_broker_close_not_open.

Theorem c12_broker_close_terminates : forall c,
  Terminates (Broker.step c) (fun s => Reach (Broker.step c) (Broker.init c) s /\ Broker.closing s) BrokerP.final.
Proof. exact BrokerP.broker_close_terminates. Qed.
Print Assumptions c12_broker_close_terminates.

(* ---- reference-counted broker workers, any number of holders ---- *)
Theorem c12_refs_no_double_close : forall n l s, run Refs.step (Refs.init n) l = Some s -> Refs.panic s = false.
Proof. exact RefsP.refs_no_panic. Qed.
Print Assumptions c12_refs_no_double_close.
