(* C01 — every produced message gets exactly one terminal outcome.
   Property statements only, over the actor composition of coq/Producer (Msg, Actors, Compose); each is
   closed by [exact] of a lemma proved in coq/Producer/*.v.  [run c sched] is the state after an ARBITRARY
   list of choices (schedule + environment: submissions, which actor handles its next input, broker answers
   per partition, connection failures, leader lookup results, timers, AsyncClose) from the initial state, for
   an arbitrary configuration [c] (retry budget incl. 0, flush limits, idempotent or not, protocol generation,
   interceptors) in which the repair fixes/c01_retrybatch.patch is applied ([c_fix_rb c = true]; the other
   case is c01_refuted_retrybatch). *)
From Coq Require Import List ZArith Bool.
From SV Require Import Producer.Msg Producer.Actors Producer.Compose Producer.Weights Producer.Global
                       Producer.Shape Producer.Conservation Producer.Shutdown Producer.Progress Producer.Markers Producer.Examples
                       Gen.GoInt Gen.DecTypes Gen.DecTypes2 Gen.DecC01 Producer.DecTie.
Import ListNotations.
Open Scope Z_scope.

(* In every reachable state, for every message identity i: the copies of i located in exactly one of
   {a channel queue, a retry-level buffer, a broker buffer or the message parked in waitForSpace, a set on
   the bridge, the set in flight, an answered set, a pending retryBatch} plus the terminal events naming i
   equal the submissions of i. *)
Theorem c01_conservation : forall c, c_fix_rb c = true -> forall sched i,
  tokens i (run c sched) + outcomes i (run c sched) = submissions i (run c sched).
Proof. exact conservation. Qed.
Print Assumptions c01_conservation.

(* the same for every non-negative weight that depends on (identity, marker bits) only and vanishes on markers *)
Theorem c01_conservation_general : forall c, c_fix_rb c = true -> forall sched f, stable f -> data_only f -> nonneg f ->
  total f (run c sched) + evs_w f (g_events (run c sched)) = wsum f (g_submitted (run c sched)).
Proof. exact conservation_general. Qed.
Print Assumptions c01_conservation_general.

(* hence: never two events for a message submitted once, never an event for a message that was not submitted *)
Theorem c01_no_second_no_foreign_event : forall c, c_fix_rb c = true -> forall sched i,
  0 <= outcomes i (run c sched) <= submissions i (run c sched).
Proof. exact outcomes_le_submissions. Qed.
Print Assumptions c01_no_second_no_foreign_event.

(* inFlight = every message and live marker in the pipeline, minus the fresh messages the dispatcher has not
   counted yet; so inFlight = 0 (what Close waits for) means nothing is pending *)
Theorem c01_inflight_exact : forall c, c_fix_rb c = true -> forall sched,
  g_inflight (run c sched) = total f1 (run c sched) - unacc (run c sched).
Proof. exact inflight_exact. Qed.
Print Assumptions c01_inflight_exact.

(* a send on a closed Successes/Errors channel is unreachable; the channels are closed only after shutdown saw
   inFlight = 0, and from then on the pipeline is empty (so every event precedes the close, none follows) *)
Theorem c01_close_order : forall c, c_fix_rb c = true -> forall sched,
  g_panic (run c sched) <> Some PANIC_CLOSED_CHANNEL /\
  (g_closed (run c sched) = true -> g_woken (run c sched) = true) /\
  (g_woken (run c sched) = true ->
     g_close_req (run c sched) = true /\ total f1 (run c sched) = 0 /\ g_inflight (run c sched) = 0 /\ unacc (run c sched) = 0).
Proof. exact close_order. Qed.
Print Assumptions c01_close_order.

(* SyncProducer: the expectation channel of a message submitted once receives exactly that message's event:
   none while a copy is in the pipeline, exactly one afterwards (in particular at shutdown) *)
Theorem c01_sync : forall c, c_fix_rb c = true -> forall sched i, submissions i (run c sched) = 1 ->
  outcomes i (run c sched) + tokens i (run c sched) = 1 /\
  0 <= tokens i (run c sched) /\ 0 <= outcomes i (run c sched) /\
  (g_woken (run c sched) = true -> outcomes i (run c sched) = 1).
Proof. exact sync_outcome. Qed.
Print Assumptions c01_sync.

(* With fixes/c04_fin_not_buffered.patch (a broker worker bounces a fin it is not refusing): everything a broker
   worker holds -- buffer, the message parked in waitForSpace, sets on the bridge, the set in flight, answered
   sets -- consists of application messages only, for every configuration (idempotent included) and schedule.
   (Weight form: Markers.bside_data_only, which also covers the retryBatch tasks.) *)
Theorem c01_buffer_data_only : forall c, c_fix_rb c = true -> forall sched b x, nth_error (g_bps (run c sched)) b = Some x ->
  (forall k l m, In (k, l) (s_parts (b_buf (i_st x))) -> In m l -> is_data m = true) /\
  (forall m, b_wait (i_st x) = WOver m \/ b_wait (i_st x) = WForce m -> is_data m = true) /\
  (forall st k l m, In st (i_bridge x) -> In (k, l) (s_parts st) -> In m l -> is_data m = true) /\
  (forall st k l m, i_infl x = Some st -> In (k, l) (s_parts st) -> In m l -> is_data m = true) /\
  (forall st r k l m, In (st, r) (i_resp x) -> In (k, l) (s_parts st) -> In m l -> is_data m = true).
Proof. exact broker_side_data_only. Qed.
Print Assumptions c01_buffer_data_only.

Theorem c01_broker_side_weight : forall c, c_fix_rb c = true -> forall sched, bside fnd (run c sched) = 0.
Proof. exact bside_data_only. Qed.
Print Assumptions c01_broker_side_weight.

(* every message anywhere in the pipeline, and every reported one, carries one of the four flag values *)
Theorem c01_flags_wellformed : forall c, c_fix_rb c = true -> forall sched,
  total fwf (run c sched) = 0 /\ evs_w fwf (g_events (run c sched)) = 0.
Proof. exact all_wf. Qed.
Print Assumptions c01_flags_wellformed.

(* no marker is ever reported successful: every success event names an application message.
   PARTIAL with respect to Markers.markers_never_reported_statement (no event at all names a marker): the excluded
   class is error events for a fin chaser at three sites that need C02's chaser invariant (see Markers.v) *)
Theorem c01_markers_never_reported_partial : forall c, c_fix_rb c = true -> forall sched m x,
  In (Ev true m x) (g_events (run c sched)) -> is_data m = true.
Proof. exact success_names_application_message. Qed.
Print Assumptions c01_markers_never_reported_partial.

(* progress, partial (no fairness/timing): dispatcher and retry handler consume a non-empty input; with
   inFlight = 0 after AsyncClose the shutdown goroutine wakes and closes.  NOT covered: that messages held by a
   broker worker leave it (flush condition / timer / broker answer: environment) -- see coq/Producer/Progress.v *)
Theorem c01_progress_partial : forall c s, g_panic s = None ->
  (forall m r, qd s = m :: r -> g_panic (step c s CDisp) = None -> qd (step c s CDisp) = r) /\
  (forall m r, qr s = m :: r -> qr (step c s CRetry) = r /\ qd (step c s CRetry) = qd s ++ [m]) /\
  (g_close_req s = true -> g_woken s = false -> g_inflight s = 0 -> g_woken (step c s CShutWake) = true) /\
  (g_woken s = true -> g_closed s = false -> g_closed (step c s CShutClose) = true).
Proof. exact progress_partial. Qed.
Print Assumptions c01_progress_partial.

(* the pinned tree (retryBatch fails only the first message of an exhausted batch): an outcome is lost and
   inFlight never returns to 0 -- witness: idempotent, Retry.Max = 1, batch of 2, two retriable answers *)
Theorem c01_refuted_retrybatch :
  let s := run (cfg_idem false) sched_retrybatch in
  submissions 2 s = 1 /\ tokens 2 s = 0 /\ outcomes 2 s = 0 /\ outcomes 1 s = 1 /\
  g_inflight s = 1 /\ total f1 s = 0 /\ g_panic s = None.
Proof. exact refuted_retrybatch. Qed.
Print Assumptions c01_refuted_retrybatch.

(* ---- ties of the model's leaf decisions to the definitions regenerated from the source on every run (decgen group
   C01; the check proves regenerated = golden, these lemmas prove golden = model) *)
Theorem c01_tie_retry_message : forall c m e (err : gerr),
  let '(r', acts) := DecC01.retry_message (Z.of_nat (m_retries m)) err (Z.of_nat (c_retry_max c)) in
  match retry_msg c m e with
  | EErr m' e' => acts = [PA_return_error err] /\ m' = m /\ e' = e /\ r' = Z.of_nat (m_retries m)
  | ESend DRetry m' => acts = [PA_retry] /\ m' = set_retries m (S (m_retries m)) /\ r' = Z.of_nat (m_retries m')
  | _ => False
  end.
Proof. exact retry_msg_is_decgen. Qed.
Print Assumptions c01_tie_retry_message.

Theorem c01_tie_needs_retry : forall st m,
  DecC01.needs_retry (gerr_of (b_closing st)) (gerr_of (cur_lookup (msg_key m) (b_cur st))) = gerr_of (Actors.needs_retry st m).
Proof. exact needs_retry_is_decgen. Qed.
Print Assumptions c01_tie_needs_retry.

Theorem c01_tie_bp_input_class : forall c ep st m tn, b_mode st = MRun -> b_wait st = WNone ->
  bp_core c ep st (BRecv m) =
  match bp_input_class (m_flags m) (gerr_of (b_closing st)) (gerr_of (cur_lookup (msg_key m) (b_cur st))) tn with
  | (acts, ExFall) => recv_data c st m
  | (acts, _) => (bp_acts_state st m acts, bp_acts_effs c m acts, false)
  end.
Proof. exact bp_input_class_is_decgen. Qed.
Print Assumptions c01_tie_bp_input_class.

Theorem c01_tie_wait_for_space_recheck : forall c ep st sent r m,
  let '(st1, effs) := handle_response c ep st sent r in
  b_wait st1 = WOver m ->
  bp_core c ep st (BResp sent r) =
  match wait_for_space_recheck false (gerr_of (b_closing st1)) (gerr_of (cur_lookup (msg_key m) (b_cur st1)))
                               (would_overflow c (b_buf st1) m) with
  | ExReturn ENil => let '(st2, e2, u) := after_over c (with_wait st1 WNone) m in (st2, effs ++ e2, u)
  | ExReturn e => (with_wait st1 WNone, effs ++ [retry_msg c m (code_of e)], false)
  | _ => (st1, effs, false)
  end.
Proof. exact bp_wait_over_follows_recheck. Qed.
Print Assumptions c01_tie_wait_for_space_recheck.

Theorem c01_tie_pp_level_class : forall (r hwm : nat) (flags : Z),
  pp_level_class (Z.of_nat r) (Z.of_nat hwm) flags =
  if (hwm <? r)%nat then ([PP_new_high_watermark (Z.of_nat r); PP_backoff (Z.of_nat r)], ExFall)
  else if (0 <? hwm)%nat then
    if (r <? hwm)%nat then
      ((if Z.land flags 2 =? 2 then [PP_expect_chaser (Z.of_nat r) false; PP_inflight_done] else [PP_buffer (Z.of_nat r)]), ExContinue)
    else if Z.land flags 2 =? 2 then ([PP_expect_chaser (Z.of_nat hwm) false; PP_flush_retry_buffers; PP_inflight_done], ExContinue)
    else ([], ExFall)
  else ([], ExFall).
Proof. exact pp_level_class_is_decgen. Qed.
Print Assumptions c01_tie_pp_level_class.

Theorem c01_tie_pp_buffer_branch : forall c t p st m stamp ls,
  fst (pp_level_class (Z.of_nat (m_retries m)) (Z.of_nat (p_hwm st)) (m_flags m)) = [PP_buffer (Z.of_nat (m_retries m))] ->
  (m_retries m < length (p_levels st))%nat ->
  pp_step c t p st m false stamp ls =
  (mkPp (p_hwm st) (push_buf (m_retries m) m (p_levels st)) (p_has_bp st) (p_leader st), []).
Proof. exact pp_buffer_branch. Qed.
Print Assumptions c01_tie_pp_buffer_branch.

Theorem c01_tie_pp_stamp_sequence : forall c m sq ep,
  pp_stamp_sequence (m_seq m) (m_epoch m) (m_hasseq m) (c_idem c) (Z.of_nat (m_retries m)) (m_flags m) sq ep =
  let m' := if c_idem c && fresh_pass m && is_data m then set_stamp m sq ep else m in
  (m_seq m', m_epoch m', m_hasseq m', ExFall).
Proof. exact pp_stamp_is_decgen. Qed.
Print Assumptions c01_tie_pp_stamp_sequence.
