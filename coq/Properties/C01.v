(* C01 — every produced message gets exactly one terminal outcome.
   Property statements only, over the actor composition of coq/Producer (Msg, Actors, Compose); each is
   closed by [exact] of a lemma proved in coq/Producer/*.v.  [run c sched] is the state after an ARBITRARY
   list of choices (schedule + environment: submissions, which actor handles its next input, broker answers
   per partition, connection failures, leader lookup results, timers, AsyncClose) from the initial state, for
   an arbitrary configuration [c] (retry budget incl. 0, flush limits, idempotent or not, protocol generation,
   interceptors) in which the repair fixes/c01_retrybatch.patch is applied ([c_fix_rb c = true]; the other
   case is c01_refuted_retrybatch). *)
From Coq Require Import List ZArith Bool.
From SV Require Import Producer.Msg Producer.Actors Producer.Compose Producer.Weights Producer.Local Producer.Global
                       Producer.Shape Producer.Conservation Producer.Shutdown Producer.Progress Producer.Markers Producer.Examples
                       Producer.Liveness Producer.Reading Producer.Complete
                       Gen.GoInt Gen.DecTypes Gen.DecTypes2 Gen.DecC01 Producer.DecTie.
Import ListNotations.
Open Scope Z_scope.

(* In every reachable state, for every message identity i: the copies of i located in exactly one of
   {a channel queue, a retry-level buffer, a broker buffer or the message parked in waitForSpace, a set on
   the bridge, the set in flight, an answered set, a pending retryBatch} plus the terminal events naming i
   equal the submissions of i. *)
Theorem c01_conservation : forall c, c_fix_rb c = true -> forall sched i,
  tokens i (run c sched) + outcomes i (run c sched) = submissions i (run c sched).
Proof. exact conservation. Qed.
Print Assumptions c01_conservation.

(* the same for every non-negative weight that depends on (identity, marker bits) only and vanishes on markers *)
Theorem c01_conservation_general : forall c, c_fix_rb c = true -> forall sched f, stable f -> data_only f -> nonneg f ->
  total f (run c sched) + evs_w f (g_events (run c sched)) = wsum f (g_submitted (run c sched)).
Proof. exact conservation_general. Qed.
Print Assumptions c01_conservation_general.

(* hence: never two events for a message submitted once, never an event for a message that was not submitted *)
Theorem c01_no_second_no_foreign_event : forall c, c_fix_rb c = true -> forall sched i,
  0 <= outcomes i (run c sched) <= submissions i (run c sched).
Proof. exact outcomes_le_submissions. Qed.
Print Assumptions c01_no_second_no_foreign_event.

(* inFlight = every message and live marker in the pipeline, minus the fresh messages the dispatcher has not
   counted yet; so inFlight = 0 (what Close waits for) means nothing is pending *)
Theorem c01_inflight_exact : forall c, c_fix_rb c = true -> forall sched,
  g_inflight (run c sched) = total f1 (run c sched) - unacc (run c sched).
Proof. exact inflight_exact. Qed.
Print Assumptions c01_inflight_exact.

(* a send on a closed Successes/Errors channel is unreachable; the channels are closed only after shutdown saw
   inFlight = 0, and from then on the pipeline is empty (so every event precedes the close, none follows) *)
Theorem c01_close_order : forall c, c_fix_rb c = true -> forall sched,
  g_panic (run c sched) <> Some PANIC_CLOSED_CHANNEL /\
  (g_closed (run c sched) = true -> g_woken (run c sched) = true) /\
  (g_woken (run c sched) = true ->
     g_close_req (run c sched) = true /\ total f1 (run c sched) = 0 /\ g_inflight (run c sched) = 0 /\ unacc (run c sched) = 0).
Proof. exact close_order. Qed.
Print Assumptions c01_close_order.

(* SyncProducer: the expectation channel of a message submitted once receives exactly that message's event:
   none while a copy is in the pipeline, exactly one afterwards (in particular at shutdown) *)
Theorem c01_sync : forall c, c_fix_rb c = true -> forall sched i, submissions i (run c sched) = 1 ->
  outcomes i (run c sched) + tokens i (run c sched) = 1 /\
  0 <= tokens i (run c sched) /\ 0 <= outcomes i (run c sched) /\
  (g_woken (run c sched) = true -> outcomes i (run c sched) = 1).
Proof. exact sync_outcome. Qed.
Print Assumptions c01_sync.

(* With fixes/c04_fin_not_buffered.patch (a broker worker bounces a fin it is not refusing): everything a broker
   worker holds -- buffer, the message parked in waitForSpace, sets on the bridge, the set in flight, answered
   sets -- consists of application messages only, for every configuration (idempotent included) and schedule.
   (Weight form: Markers.bside_data_only, which also covers the retryBatch tasks.) *)
Theorem c01_buffer_data_only : forall c, c_fix_rb c = true -> forall sched b x, nth_error (g_bps (run c sched)) b = Some x ->
  (forall k l m, In (k, l) (s_parts (b_buf (i_st x))) -> In m l -> is_data m = true) /\
  (forall m, b_wait (i_st x) = WOver m \/ b_wait (i_st x) = WForce m -> is_data m = true) /\
  (forall st k l m, In st (i_bridge x) -> In (k, l) (s_parts st) -> In m l -> is_data m = true) /\
  (forall st k l m, i_infl x = Some st -> In (k, l) (s_parts st) -> In m l -> is_data m = true) /\
  (forall st r k l m, In (st, r) (i_resp x) -> In (k, l) (s_parts st) -> In m l -> is_data m = true).
Proof. exact broker_side_data_only. Qed.
Print Assumptions c01_buffer_data_only.

Theorem c01_broker_side_weight : forall c, c_fix_rb c = true -> forall sched, bside fnd (run c sched) = 0.
Proof. exact bside_data_only. Qed.
Print Assumptions c01_broker_side_weight.

(* every message anywhere in the pipeline, and every reported one, carries one of the four flag values *)
Theorem c01_flags_wellformed : forall c, c_fix_rb c = true -> forall sched,
  total fwf (run c sched) = 0 /\ evs_w fwf (g_events (run c sched)) = 0.
Proof. exact all_wf. Qed.
Print Assumptions c01_flags_wellformed.

(* no marker is ever reported successful: every success event names an application message.
   PARTIAL with respect to Markers.markers_never_reported_statement (no event at all names a marker): the excluded
   class is error events for a fin chaser at three sites that need C02's chaser invariant (see Markers.v) *)
Theorem c01_markers_never_reported_partial : forall c, c_fix_rb c = true -> forall sched m x,
  In (Ev true m x) (g_events (run c sched)) -> is_data m = true.
Proof. exact success_names_application_message. Qed.
Print Assumptions c01_markers_never_reported_partial.

(* progress, partial (no fairness/timing): dispatcher and retry handler consume a non-empty input; with
   inFlight = 0 after AsyncClose the shutdown goroutine wakes and closes.  NOT covered: that messages held by a
   broker worker leave it (flush condition / timer / broker answer: environment) -- see coq/Producer/Progress.v *)
Theorem c01_progress_partial : forall c s, g_panic s = None ->
  (forall m r, qd s = m :: r -> g_panic (step c s CDisp) = None -> qd (step c s CDisp) = r) /\
  (forall m r, qr s = m :: r -> qr (step c s CRetry) = r /\ qd (step c s CRetry) = qd s ++ [m]) /\
  (g_close_req s = true -> g_woken s = false -> g_inflight s = 0 -> g_woken (step c s CShutWake) = true) /\
  (g_woken s = true -> g_closed s = false -> g_closed (step c s CShutClose) = true).
Proof. exact progress_partial. Qed.
Print Assumptions c01_progress_partial.

(* ---- "Close returns": possibility of completion.  Statements about the MODEL's semantics (time-abstract,
   unbounded queues, one handler invocation = one atomic step), not about real time or back-pressure.

   PARTIAL.  Proved for every reachable state: the two non-trivial places where a message could be stranded
   have an owner that can move it (no dead end there) -- c01_no_lost_chaser, c01_held_buffer_flushable,
   c01_stopped_reader_has_no_input;
   the trivial owners are c01_progress_partial.  Proved once and for all: a completed bounded run of the
   canonical good-environment scheduler IS a completing continuation with everything the property asks for
   (c01_can_complete_partial).  Checked by computation, not proved in general: that the scheduler does reach
   completion within the bound mu -- on every prefix of the example schedules and on every state reached by
   0..120 steps against an always-NotLeader cluster and against always-failing connections, for three
   configurations, and on every state visited by 400 pseudo-random walks over all enabled actor and environment
   moves (c01_can_complete_instances; this check found the newHighWatermark nil-broker-worker panic).  Missing for the unconditional theorem: the ranking argument
   (next_choice is never None before completion, mu strictly decreases); see checks/notes/C01.md. *)

(* no lost chaser: every partition worker is well formed; whenever it parks a message it is expecting the fin
   chaser of its current retry level, and that chaser exists, is a well-formed fin of that partition, and sits
   in a queue whose owner forwards it towards the worker at exactly that level.  Excluded class: the
   pre-repair interceptor behaviour (c_fix_ic = false: an interceptor could alter the chaser) and a
   MaxMessageBytes below the size of an empty message (the dispatcher would fail the chaser). *)
Theorem c01_no_lost_chaser : forall c sched k x i, c_fix_ic c = true -> marker_size c <= c_max_msg_bytes c ->
  pp_get k (g_pps (run c sched)) = Some x -> l_buf (get_level i (p_levels (pr_st x))) <> [] ->
  (i < p_hwm (pr_st x) <= c_retry_max c)%nat /\ transit c k (p_hwm (pr_st x)) (run c sched).
Proof. exact parked_has_chaser. Qed.
Print Assumptions c01_no_lost_chaser.

Theorem c01_chasers_in_transit : forall c sched, c_fix_ic c = true -> marker_size c <= c_max_msg_bytes c ->
  (forall k st, ppst k (run c sched) = Some st -> pp_ok c st) /\
  (forall k st h, ppst k (run c sched) = Some st -> l_chaser (get_level h (p_levels st)) = true -> transit c k h (run c sched)).
Proof. exact no_lost_chaser. Qed.
Print Assumptions c01_chasers_in_transit.

(* flushRetryBuffers reaches the ground whatever the leader lookups answer (all may fail): it stops at level 0 or at a
   level whose own chaser is still expected (in transit by c01_chasers_in_transit); the levels it passed are empty and
   expect no chaser, so a failed lookup at an intermediate level strands nothing (the behaviour seeded C12-8 removed) *)
Theorem c01_flush_reaches_ground : forall c t p h hasbp leader lv stamp ls,
  has_crash (snd (flush c t p h hasbp leader lv stamp ls)) = false ->
  let r := fst (flush c t p h hasbp leader lv stamp ls) in
  let h' := fst (fst (fst r)) in let lv' := snd r in
  (h' < h)%nat /\ (h' = 0%nat \/ l_chaser (get_level h' lv') = true) /\
  (forall i, (h' <= i < h)%nat -> l_buf (get_level i lv') = []) /\
  (forall i, (h' < i < h)%nat -> l_chaser (get_level i lv') = false).
Proof. exact flush_reaches_ground. Qed.
Print Assumptions c01_flush_reaches_ground.

(* a broker worker in its run loop that holds messages can hand them to its bridge now, or its timer is armed
   and it can right after the timer fired.  Excluded class: Flush.Bytes/Messages > 0 without Flush.Frequency
   (a lone message waits for company, in sarama as in the model). *)
Theorem c01_held_buffer_flushable : forall c sched b x ep, fcfg c ->
  nth_error (g_bps (run c sched)) b = Some x -> b_mode (i_st x) = MRun -> set_empty (b_buf (i_st x)) = false ->
  flush_enabled (i_st x) = true \/
  (flush_poll (i_st x) = true /\ b_timer (i_st x) = true /\ flush_enabled (fst (bp_step c ep (i_st x) BTimer)) = true).
Proof. exact held_buffer_flushable. Qed.
Print Assumptions c01_held_buffer_flushable.

(* a broker worker that has left its run loop did so on a closed, empty input, and nothing is queued for it
   afterwards (a send to it is the panic state 14): no message is stranded in front of a worker that no longer
   reads.  All configurations, all schedules. *)
Theorem c01_stopped_reader_has_no_input : forall c sched b x,
  nth_error (g_bps (run c sched)) b = Some x -> b_mode (i_st x) <> MRun ->
  i_in_closed x = true /\ q_get (DBp b) (g_q (run c sched)) = [].
Proof. exact stopped_reader_has_no_input. Qed.
Print Assumptions c01_stopped_reader_has_no_input.

(* the criterion: drain only emits choices of the composition, so a completed bounded drain from a reachable
   state yields a continuation k (good environment: successful lookups, success answers, timers, one AsyncClose,
   no further submission) of length <= n after which inFlight = 0, no token of any message is left anywhere,
   the channels are closed (after all events: c01_close_order) and every message has as many terminal events
   as submissions *)
Theorem c01_can_complete_partial : forall c sched n, c_fix_rb c = true ->
  completed (snd (drain c n (run c sched))) = true ->
  exists k, (length k <= n)%nat /\
    let s' := run c (sched ++ k) in
    g_panic s' = None /\ g_inflight s' = 0 /\ g_closed s' = true /\ g_woken s' = true /\ total f1 s' = 0 /\
    (forall i, tokens i s' = 0 /\ outcomes i s' = submissions i s').
Proof. exact can_complete_check. Qed.
Print Assumptions c01_can_complete_partial.

(* instances, with the candidate measure mu as the bound (can_complete_now c s = completed (drain c (mu c s) s)) *)
Theorem c01_can_complete_instances :
  (prefixes_can_complete (cfg_idem true) sched_retrybatch = true /\
   prefixes_can_complete (cfg_ic true) sched_interceptor_retry = true /\
   prefixes_can_complete (cfg_ic true) sched_close = true) /\
  (forallb (fun j => can_complete_now cfg_timer (run cfg_timer (hostile cfg_timer subs4 j))) (seq 0 121) = true /\
   forallb (fun j => can_complete_now (cfg_ic true) (run (cfg_ic true) (hostile (cfg_ic true) subs4 j))) (seq 0 121) = true /\
   forallb (fun j => can_complete_now cfg_idem2 (run cfg_idem2 (hostile cfg_idem2 subs4 j))) (seq 0 121) = true) /\
  (forallb (fun j => can_complete_now cfg_timer (run cfg_timer (broken cfg_timer subs4 j))) (seq 0 121) = true /\
   forallb (fun j => can_complete_now (cfg_ic true) (run (cfg_ic true) (broken (cfg_ic true) subs4 j))) (seq 0 121) = true /\
   forallb (fun j => can_complete_now cfg_idem2 (run cfg_idem2 (broken cfg_idem2 subs4 j))) (seq 0 121) = true) /\
  (walks_ok cfg_timer 6 400 100 = true /\ walks_ok cfg_idem2 6 400 100 = true /\
   walks_ok (cfg_ic true) 6 400 100 = true /\ walks_ok cfg_r0 6 400 100 = true).
Proof. exact (conj examples_can_complete (conj hostile_can_complete (conj broken_can_complete walks_can_complete))). Qed.
Print Assumptions c01_can_complete_instances.

(* the pinned tree (retryBatch fails only the first message of an exhausted batch): an outcome is lost and
   inFlight never returns to 0 -- witness: idempotent, Retry.Max = 1, batch of 2, two retriable answers *)
Theorem c01_refuted_retrybatch :
  let s := run (cfg_idem false) sched_retrybatch in
  submissions 2 s = 1 /\ tokens 2 s = 0 /\ outcomes 2 s = 0 /\ outcomes 1 s = 1 /\
  g_inflight s = 1 /\ total f1 s = 0 /\ g_panic s = None.
Proof. exact refuted_retrybatch. Qed.
Print Assumptions c01_refuted_retrybatch.

(* ---- ties of the model's leaf decisions to the definitions regenerated from the source on every run (decgen group
   C01; the check proves regenerated = golden, these lemmas prove golden = model) *)
Theorem c01_tie_retry_message : forall c m e (err : gerr),
  let '(r', acts) := DecC01.retry_message (Z.of_nat (m_retries m)) err (Z.of_nat (c_retry_max c)) in
  match retry_msg c m e with
  | EErr m' e' => acts = [PA_return_error err] /\ m' = m /\ e' = e /\ r' = Z.of_nat (m_retries m)
  | ESend DRetry m' => acts = [PA_retry] /\ m' = set_retries m (S (m_retries m)) /\ r' = Z.of_nat (m_retries m')
  | _ => False
  end.
Proof. exact retry_msg_is_decgen. Qed.
Print Assumptions c01_tie_retry_message.

Theorem c01_tie_needs_retry : forall st m,
  DecC01.needs_retry (gerr_of (b_closing st)) (gerr_of (cur_lookup (msg_key m) (b_cur st))) = gerr_of (Actors.needs_retry st m).
Proof. exact needs_retry_is_decgen. Qed.
Print Assumptions c01_tie_needs_retry.

Theorem c01_tie_bp_input_class : forall c ep st m tn, b_mode st = MRun -> b_wait st = WNone ->
  bp_core c ep st (BRecv m) =
  match bp_input_class (m_flags m) (gerr_of (b_closing st)) (gerr_of (cur_lookup (msg_key m) (b_cur st))) tn with
  | (acts, ExFall) => recv_data c st m
  | (acts, _) => (bp_acts_state st m acts, bp_acts_effs c m acts, false)
  end.
Proof. exact bp_input_class_is_decgen. Qed.
Print Assumptions c01_tie_bp_input_class.

Theorem c01_tie_wait_for_space_recheck : forall c ep st sent r m,
  let '(st1, effs) := handle_response c ep st sent r in
  b_wait st1 = WOver m ->
  bp_core c ep st (BResp sent r) =
  match wait_for_space_recheck false (gerr_of (b_closing st1)) (gerr_of (cur_lookup (msg_key m) (b_cur st1)))
                               (would_overflow c (b_buf st1) m) with
  | ExReturn ENil => let '(st2, e2, u) := after_over c (with_wait st1 WNone) m in (st2, effs ++ e2, u)
  | ExReturn e => (with_wait st1 WNone, effs ++ [retry_msg c m (code_of e)], false)
  | _ => (st1, effs, false)
  end.
Proof. exact bp_wait_over_follows_recheck. Qed.
Print Assumptions c01_tie_wait_for_space_recheck.

Theorem c01_tie_pp_level_class : forall (r hwm : nat) (flags : Z),
  pp_level_class (Z.of_nat r) (Z.of_nat hwm) flags =
  if (hwm <? r)%nat then ([PP_new_high_watermark (Z.of_nat r); PP_backoff (Z.of_nat r)], ExFall)
  else if (0 <? hwm)%nat then
    if (r <? hwm)%nat then
      ((if Z.land flags 2 =? 2 then [PP_expect_chaser (Z.of_nat r) false; PP_inflight_done] else [PP_buffer (Z.of_nat r)]), ExContinue)
    else if Z.land flags 2 =? 2 then ([PP_expect_chaser (Z.of_nat hwm) false; PP_flush_retry_buffers; PP_inflight_done], ExContinue)
    else ([], ExFall)
  else ([], ExFall).
Proof. exact pp_level_class_is_decgen. Qed.
Print Assumptions c01_tie_pp_level_class.

Theorem c01_tie_pp_buffer_branch : forall c t p st m stamp ls,
  fst (pp_level_class (Z.of_nat (m_retries m)) (Z.of_nat (p_hwm st)) (m_flags m)) = [PP_buffer (Z.of_nat (m_retries m))] ->
  (m_retries m < length (p_levels st))%nat ->
  pp_step c t p st m false stamp ls =
  (mkPp (p_hwm st) (push_buf (m_retries m) m (p_levels st)) (p_has_bp st) (p_leader st), []).
Proof. exact pp_buffer_branch. Qed.
Print Assumptions c01_tie_pp_buffer_branch.

Theorem c01_tie_pp_stamp_sequence : forall c m sq ep,
  pp_stamp_sequence (m_seq m) (m_epoch m) (m_hasseq m) (c_idem c) (Z.of_nat (m_retries m)) (m_flags m) sq ep =
  let m' := if c_idem c && fresh_pass m && is_data m then set_stamp m sq ep else m in
  (m_seq m', m_epoch m', m_hasseq m', ExFall).
Proof. exact pp_stamp_is_decgen. Qed.
Print Assumptions c01_tie_pp_stamp_sequence.
