(* C17 — partitioners keep their contract and the producer honours their choice.
   Property statements only; each is closed by [exact] of a lemma proved in C17/Proofs*.v.
   The model (C17/Model.v) is the repaired tree (WithCustomFallbackPartitioner stores its argument);
   [new_custom_pinned] is the wiring of the pinned tree. *)
From Coq Require Import List ZArith Sorted.
From SV Require Import Gen.GoInt Gen.DecTypes Gen.DecTypes2 Gen.DecC17 C17.Model C17.Proofs C17.ProofsRoute C17.ProofsTie.
Import ListNotations.
Open Scope Z_scope.

(* Every constructor / option combination a caller can write yields a well-formed hash partitioner. *)
Theorem c17_constructors_wf :
  wf_hashp new_hash /\ wf_hashp new_reference_hash /\
  (forall hf, hash_ok hf -> wf_hashp (new_custom_hash hf)) /\
  (forall opts, Forall opt_wf opts -> wf_hashp (new_custom opts)).
Proof. exact constructors_wf. Qed.
Print Assumptions c17_constructors_wf.

(* Random, round-robin and every well-formed hash partitioner: for every message, every count 1 <= n < 2^31 and every
   oracle value, the outcome is a partition in [0,n) or the error of the key encoder / hasher — never a panic or a
   non-returning call — and the partitioner stays well-formed. Covers Sum32() = 0x80000000. *)
Theorem c17_range : forall p m n r, builtin_ok p -> 1 <= n <= 2147483647 -> 0 <= r < n ->
  in_range_outcome m n (fst (Model.partition p m n r)) /\ builtin_ok (snd (Model.partition p m n r)).
Proof. exact range. Qed.
Print Assumptions c17_range.

Theorem c17_range_min_int_hash : forall ra n, 1 <= n <= 2147483647 -> 0 <= hash_choice ra 2147483648 n < n.
Proof. exact range_min_int_hash. Qed.
Print Assumptions c17_range_min_int_hash.

(* Equal non-nil keys get equal outcomes, whatever else differs (other message fields, the random oracle); the
   partitioner is unchanged by the call, so this holds across any number of calls. *)
Theorem c17_consistent : forall p m1 m2 n r1 r2, m_key m1 = m_key m2 -> m_key m1 <> KNil ->
  Model.partition (PHash p) m1 n r1 = Model.partition (PHash p) m2 n r2.
Proof. exact consistent. Qed.
Print Assumptions c17_consistent.

(* The reference variant computes toPositive(h) mod n of Kafka's Java client for the same 32-bit hash h. *)
Theorem c17_reference_is_java : forall fb hf b h n m r, hash_ok hf -> 1 <= n -> m_key m = KBytes b -> hf b = HSum h ->
  fst (Model.partition (PHash (HashP fb hf true)) m n r) = Chose (java_to_positive h mod n).
Proof. exact reference_is_java. Qed.
Print Assumptions c17_reference_is_java.

(* Any n consecutive round-robin calls with constant count n, from any reachable cursor, hit each partition exactly once. *)
Theorem c17_roundrobin_cycles : forall c n, cursor_ok c -> 1 <= n <= 2147483647 ->
  let l := rr_run c n (Z.to_nat n) in
  length l = Z.to_nat n /\ NoDup l /\ (forall x, In x l <-> 0 <= x < n).
Proof. exact roundrobin_cycles. Qed.
Print Assumptions c17_roundrobin_cycles.

(* rr_run is what Partition() returns call after call; every cursor reached from 0 is [cursor_ok]. *)
Theorem c17_roundrobin_calls : forall ms c n, partition_run (PRoundRobin c) ms n = map Chose (rr_run c n (length ms)).
Proof. exact partition_run_rr. Qed.
Print Assumptions c17_roundrobin_calls.

Theorem c17_roundrobin_reachable : forall ns c, cursor_ok c -> Forall (fun n => -2147483648 <= n <= 2147483647) ns ->
  cursor_ok (fold_left (fun c n => snd (rr_partition c n)) ns c).
Proof. exact rr_reachable_cursor. Qed.
Print Assumptions c17_roundrobin_reachable.

Theorem c17_manual : forall m n r, Model.partition PManual m n r = (Chose (m_partition m), PManual).
Proof. exact manual_returns_own. Qed.
Print Assumptions c17_manual.

(* partitionMessage: a message is routed exactly to partitions[choice] of the offered list (all partitions for
   messages that require consistency, the writable ones otherwise); an out-of-range choice or an empty list is an
   error, and on an error the topic producer hands the message to nobody. *)
Theorem c17_route : route_spec.
Proof. exact route_correct. Qed.
Print Assumptions c17_route.

(* The lists the client offers: sorted ids; all partitions of the topic / those with a leader. *)
Theorem c17_offered_sets : forall md ps,
  (client_partitions md = COk ps -> Sorted Z.le ps /\ ps <> [] /\ forall t, In t ps <-> has_partition md t) /\
  (client_writable md = COk ps -> Sorted Z.le ps /\ forall t, In t ps <-> has_leader md t).
Proof. exact offered_sets. Qed.
Print Assumptions c17_offered_sets.

(* Over a whole run of a topic producer: every hand-off goes to a partition of the topic, and to one with a leader
   unless the message required consistency. *)
Theorem c17_route_run : forall ms p md t id, In (HandOff t id) (dispatch_run p ms md) ->
  exists m r, In (id, m, r) ms /\ if requires_consistency p m then has_partition md t else has_leader md t.
Proof. exact dispatch_run_rule. Qed.
Print Assumptions c17_route_run.

(* The pinned tree's WithCustomFallbackPartitioner (hp.random = hp): a keyless message never returns, for every
   call depth; hence the range statement is false of the pinned wiring. *)
Theorem c17_fallback_refuted :
  (forall opts a m n r, In (OFallback a) opts -> m_key m = KNil ->
     (forall fuel, hash_partition_fuel fuel (new_custom_pinned opts) m n r = None) /\
     fst (Model.partition (PHash (new_custom_pinned opts)) m n r) = Diverge) /\
  ~ (forall opts m n r, Forall opt_wf opts -> 1 <= n <= 2147483647 -> 0 <= r < n ->
       in_range_outcome m n (fst (Model.partition (PHash (new_custom_pinned opts)) m n r))).
Proof. exact fallback_refuted. Qed.
Print Assumptions c17_fallback_refuted.

(* [Diverge] in the model means exactly that no call depth suffices. *)
Theorem c17_diverge_meaning : forall p m n r,
  hash_partition p m n r = Diverge <-> forall fuel, hash_partition_fuel fuel p m n r = None.
Proof. exact diverge_iff_no_depth_suffices. Qed.
Print Assumptions c17_diverge_meaning.

(* The repaired option: keyless messages are served by the partitioner that was passed in. *)
Theorem c17_fallback_fixed : forall opts q m n r, m_key m = KNil ->
  hash_partition (new_custom (opts ++ [OFallback (Some q)])) m n r = hash_partition q m n r.
Proof. exact fallback_fixed. Qed.
Print Assumptions c17_fallback_fixed.

(* ---- the model functions equal the definitions regenerated from partitioner.go (decgen golden coq/Gen/DecC17.v) ---- *)
Theorem c17_tie_manual : forall m n r,
  fst (Model.partition PManual m n r) = Chose (fst (DecC17.manual_partition n (m_partition m))) /\
  snd (DecC17.manual_partition n (m_partition m)) = ENil.
Proof. exact tie_manual. Qed.
Print Assumptions c17_tie_manual.

Theorem c17_tie_round_robin : forall c n,
  Model.rr_partition c n = (let '(c', ret, _) := DecC17.round_robin_partition c n in (ret, c')) /\
  snd (DecC17.round_robin_partition c n) = ENil.
Proof. exact tie_round_robin. Qed.
Print Assumptions c17_tie_round_robin.

Theorem c17_tie_hash_choice : forall ra h n, Model.hash_choice ra h n = fst (DecC17.hash_choice n ra h).
Proof. exact tie_hash_choice. Qed.
Print Assumptions c17_tie_hash_choice.

Theorem c17_tie_hash_partition : forall hf ra m n r, 0 < n ->
  Model.hash_partition (HashP FbRandom hf ra) m n r =
  gen_out (DecC17.hash_partition n (key_is_nil m) r ENil (encode_err m) (write_err hf m) ra (hash_of hf m)).
Proof. exact tie_hash_partition. Qed.
Print Assumptions c17_tie_hash_partition.

(* ---- wave 2: the hasher protocol and the two decision slices of partitionMessage ---- *)
(* Reset then Write of the key for every keyed message (also an empty non-nil key), nothing otherwise; same result *)
Theorem c17_tie_hash_calls : forall hf ra m n r, 0 < n ->
  let '(acts, v, e) := DecC17.hash_partition_calls n (key_is_nil m) r ENil (encode_err m) (write_err hf m) ra (hash_of hf m) in
  acts = map erase_call (hasher_calls m) /\
  gen_out (v, e) = Model.hash_partition (HashP FbRandom hf ra) m n r.
Proof. exact tie_hash_calls. Qed.
Print Assumptions c17_tie_hash_calls.

(* after those calls the hasher holds exactly this message's key, whatever it held before *)
Theorem c17_hasher_state : forall st b m, m_key m = KBytes b -> hasher_run st (hasher_calls m) = b.
Proof. exact hasher_state_after_calls. Qed.
Print Assumptions c17_hasher_state.

Theorem c17_tie_partition_source : forall p m md l0 e0,
  let '(parts, err, ex) :=
    DecC17.partition_source l0 e0 (is_dynamic p) (msg_requires p m) (static_requires p)
      (cres_list (client_partitions md)) (cres_err (client_partitions md))
      (cres_list (client_writable md)) (cres_err (client_writable md)) in
  offered p m md = cres_of parts err /\ ex = ExFall.
Proof. exact tie_partition_source. Qed.
Print Assumptions c17_tie_partition_source.

Theorem c17_tie_partition_pick : forall p m md r ps e0,
  offered p m md = COk ps -> Z.of_nat (length ps) < 2147483648 ->
  let o := fst (Model.partition p m (Z.of_nat (length ps)) r) in
  (match o with Chose _ => True | Fail _ => True | _ => ps = [] end) ->
  fst (route p m md r) = rout_of_pick (DecC17.partition_pick e0 (m_partition m) ps (pick_choice o) (pick_err o)).
Proof. exact tie_partition_pick. Qed.
Print Assumptions c17_tie_partition_pick.

(* the writable set of the model is the regenerated filter loop of setPartitionCache: "leaderless" = the partition's metadata
   carries LEADER_NOT_AVAILABLE; any other partition-level error leaves it writable *)
Theorem c17_tie_writable_parts : forall l : list (Z * Z),
  writable_parts (map flag_of_err l) = isort (fst (DecC17.writable_filter [] 1 l)).
Proof. exact tie_writable_parts. Qed.
Print Assumptions c17_tie_writable_parts.

Theorem c17_tie_all_parts : forall l : list (Z * Z),
  all_parts (map flag_of_err l) = isort (fst (DecC17.writable_filter [] 0 l)).
Proof. exact tie_all_parts. Qed.
Print Assumptions c17_tie_all_parts.

Theorem c17_writable_iff_leader_available : forall (l : list (Z * Z)) p,
  In p (fst (DecC17.writable_filter [] 1 l)) <-> exists e, In (p, e) l /\ e <> 5.
Proof. exact writable_iff_leader_available. Qed.
Print Assumptions c17_writable_iff_leader_available.
