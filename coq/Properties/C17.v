(* C17 — partitioners keep their contract and the producer honours their choice. (theorems follow) *)
From Coq Require Import List ZArith.
From SV Require Import C17.Model.
