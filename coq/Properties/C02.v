(* C02 — per-partition submission order survives retries.  Property statements only. *)
From Coq Require Import List Arith Bool ZArith.
From SV Require Import C02.Model C02.Defs C02.Refuted C02.Proofs C02.Coarse.
Import ListNotations.

(* The defect announced by the property, on the model: Retry.Max = 0, a fatal answer, one message in the abandoned
   worker's backlog, a fresh message after the partition worker noticed `abandoned`: log [2; 1]. *)
Theorem c02_retry0_refuted :
  exists sched, crash (run 0%nat sched) = None /\
    log (run 0%nat sched) = [2; 1]%nat /\ succ (run 0%nat sched) = [(2, 0); (1, 1)]%nat /\
    increasing (first_copies (log (run 0%nat sched))) = false /\ succ_ordered (succ (run 0%nat sched)) = false.
Proof. exact retry0_refuted. Qed.
Print Assumptions c02_retry0_refuted.

(* the shared composition (unbounded bridge queue) is too coarse for ordering *)
Theorem c02_shared_composition_too_coarse :
  let s := Producer.Compose.run cfg1 sched_overtake in
  Producer.Compose.g_panic s = None /\
  map (fun e => match e with Producer.Compose.Ev ok m x => (ok, Producer.Msg.m_id m, x) end) (Producer.Compose.g_events s) = [(true, 2, 0)%Z] /\
  map (fun m => (Producer.Msg.m_id m, Producer.Msg.m_retries m))
      (Producer.Compose.q_get Producer.Msg.DRetry (Producer.Compose.g_q s)) = [(1%Z, 1%nat)].
Proof. exact compose_bridge_queue_reorders. Qed.
Print Assumptions c02_shared_composition_too_coarse.
