(* C02 — per-partition submission order survives retries.  Property statements only.
   Model: C02/Model.v (one partition's path through the non-idempotent async producer: partition worker with
   highWatermark / retryState, any number of broker workers with one outstanding request each, retry queue, FIFO
   channels, the simulated partition log).  [run mx sched] is the state after the schedule [sched] (arbitrary
   interleaving of: submit, retry-handler forward, rejection on the way, partition-worker iteration with arbitrary
   leader lookups and worker choice, broker-worker receive / flush / response, cluster answers ok / retriable /
   fatal / connection error with or without append) with Producer.Retry.Max = mx. *)
From Coq Require Import List Arith Bool ZArith.
From SV Require Import C02.Model C02.Defs C02.Refuted C02.Proofs C02.Retry0 C02.Coarse.
Import ListNotations.

(* Core invariant: the logical list of the partition's undelivered data messages (C02/Defs.v: by virtual retry level,
   highest first; within a level: accepted by the current worker, parked, on the way back, still to be bounced) is
   sorted by submission index in every reachable state, for every Retry.Max >= 1 and every schedule. *)
Theorem c02_logical_order : forall mx sched, (1 <= mx)%nat -> sorted (logical mx (run mx sched)).
Proof. exact logical_order. Qed.
Print Assumptions c02_logical_order.

(* the messages the current worker has accepted, in sending order, are the head of that list *)
Theorem c02_accepted_is_head : forall mx sched, (1 <= mx)%nat ->
  exists R, logical mx (run mx sched) = map fst (acc (cur_bp (run mx sched))) ++ R.
Proof. exact accepted_is_head. Qed.
Print Assumptions c02_accepted_is_head.

(* first copies appear in the partition log in submission order *)
Theorem c02_first_copies_ordered : forall mx sched, (1 <= mx)%nat ->
  increasing (first_copies (log (run mx sched))) = true.
Proof. exact first_copies_ordered. Qed.
Print Assumptions c02_first_copies_ordered.

(* of two successes the earlier-submitted has the smaller offset *)
Theorem c02_success_offsets_ordered : forall mx sched, (1 <= mx)%nat ->
  succ_ordered (succ (run mx sched)) = true.
Proof. exact success_offsets_ordered. Qed.
Print Assumptions c02_success_offsets_ordered.

(* no run-time panic of partitionProducer.dispatch (nil brokerProducer in newHighWatermark, retryState index) *)
Theorem c02_no_panic : forall mx sched, (1 <= mx)%nat -> crash (run mx sched) = None.
Proof. exact no_panic. Qed.
Print Assumptions c02_no_panic.

(* Retry.Max = 0: the defect announced by the property, on the model: a fatal answer, one message in the abandoned
   worker's backlog, a fresh message after the partition worker noticed `abandoned`: log [2; 1]. *)
Theorem c02_retry0_refuted :
  exists sched, crash (run 0%nat sched) = None /\
    log (run 0%nat sched) = [2; 1]%nat /\ succ (run 0%nat sched) = [(2, 0); (1, 1)]%nat /\
    increasing (first_copies (log (run 0%nat sched))) = false /\ succ_ordered (succ (run 0%nat sched)) = false.
Proof. exact retry0_refuted. Qed.
Print Assumptions c02_retry0_refuted.

(* Retry.Max = 0 on histories in which no abandoned broker worker holds messages it will still send *)
Theorem c02_retry0_partial : forall sched,
  (forall k, quiet (run 0%nat (firstn k sched))) -> order_ok (run 0%nat sched) = true.
Proof. exact retry0_partial. Qed.
Print Assumptions c02_retry0_partial.

(* the shared composition (unbounded bridge queue) is too coarse for ordering *)
Theorem c02_shared_composition_too_coarse :
  let s := Producer.Compose.run cfg1 sched_overtake in
  Producer.Compose.g_panic s = None /\
  map (fun e => match e with Producer.Compose.Ev ok m x => (ok, Producer.Msg.m_id m, x) end) (Producer.Compose.g_events s) = [(true, 2, 0)%Z] /\
  map (fun m => (Producer.Msg.m_id m, Producer.Msg.m_retries m))
      (Producer.Compose.q_get Producer.Msg.DRetry (Producer.Compose.g_q s)) = [(1%Z, 1%nat)].
Proof. exact compose_bridge_queue_reorders. Qed.
Print Assumptions c02_shared_composition_too_coarse.
