(* C13 — assignments are balanced, and the sticky strategy is sticky.  (statements are added as they are proved) *)
From Coq Require Import List ZArith.
From SV Require Import C08.Common C13.Model.
