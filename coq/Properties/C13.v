(* C13 — assignments are balanced, and the sticky strategy is sticky.
   Property statements only; each is closed by [exact] of a lemma proved in C13/Proofs*.v.
   The strategy models are those of C08 (coq/C08/{Range,RoundRobin,Sticky}.v), the notions are in C13/Model.v. *)
From Coq Require Import List ZArith.
From SV Require Import C08.Common C08.Range C08.RoundRobin C08.Sticky C08.Valid C13.Model
  C13.ProofsRange C13.ProofsRR C13.ProofsStickyBalanced C13.ProofsStickyFixed C13.ProofsStickyLeave C13.ProofsStickyJoin2.
Import ListNotations.
Open Scope Z_scope.

(* range: for every topic, its subscribers (each once) in non-decreasing hash order receive consecutive slices
   parts[cut i : cut (i+1)] of the partition list, cut 0 = 0, cut m = n, each of size floor(n/m) or ceil(n/m); the cuts are
   the binary64 values Go computes.  Sizes below 2^24 (for the rounding-error bound; validity alone holds below 2^31). *)
Theorem c13_range_contiguous_balanced : forall ms ts p,
  wf_members ms -> (forall mm, In mm ms -> NoDup (m_topics mm)) -> wf_topics ts ->
  len (concat (map m_topics ms)) < 2 ^ 24 -> (forall t ps, In (t, ps) ts -> len ps < 2 ^ 24) ->
  range_plan ms ts = Some p ->
  forall topic mids, In (topic, mids) (build_mbt [] ms) ->
    let sorted := sort_by_hash topic mids in
    let parts := topic_partitions ts topic in
    let n := len parts in
    let m := len sorted in
    (forall x, In x sorted <-> subscribes ms x topic) /\ NoDup sorted /\ hash_sorted topic sorted /\
    cut n m 0 = 0 /\ cut n m (length sorted) = n /\
    forall i mid, nth_error sorted i = Some mid ->
      plan_get p mid topic = range_share parts m i /\ fair_size n m (len (range_share parts m i)).
Proof. exact range_contiguous_balanced. Qed.
Print Assumptions c13_range_contiguous_balanced.

(* round robin: if every member subscribes to every topic that has partitions, any two members' totals differ by at most one.
   (For a subset of identical members among differently subscribed ones this is false: C13/ProofsRR.v, rr_pairwise_counterexample.) *)
Theorem c13_roundrobin_balanced : forall ms ts p, wf_members ms -> all_subscribe_all ms ts ->
  rr_plan ms ts = RRPlan p -> totals_within_one ms p.
Proof. exact rr_balanced. Qed.
Print Assumptions c13_roundrobin_balanced.

(* sticky (repaired code): every plan Plan returns is balanced in Kafka's sense - a member holding two or more partitions more
   than another holds none the other could take - for all members, subscriptions, topic maps, user data (honest or not) and
   iteration orders; excluded as in C08: the revert branch of balance() with fixed members present. *)
Theorem c13_sticky_balanced : forall fuel o ms ts p, wf_members ms -> wf_topics ts ->
  let r := sticky_plan_full fuel true o ms ts in
  p_res r = SOk p -> (p_reverted r = true -> p_nfixed r = 0) -> kafka_balanced ms p.
Proof. exact sticky_balanced. Qed.
Print Assumptions c13_sticky_balanced.

(* sticky is sticky, fixed point: re-planning ANY valid, Kafka-balanced plan p (not only one the sticky strategy produced) with
   unchanged members, subscriptions and partitions, every member reporting what it holds in p under one generation g, returns -
   in the first pass, for every iteration order - a plan that gives every partition to the same member. *)
Theorem c13_sticky_fixed_point : forall fuel o ms ts p g,
  wf_members ms -> wf_topics ts -> valid_plan ms ts p -> kafka_balanced ms p ->
  exists p', sticky_plan (S fuel) true o (map (report p g) ms) ts = SOk p' /\ same_owners p p'.
Proof. exact sticky_fixed_point. Qed.
Print Assumptions c13_sticky_fixed_point.

(* any change of the group (several joins and leaves at once, subscription changes, partitions added or dropped): nothing is lost
   before performReassignments - a member that reports a partition (nobody else reporting it), still subscribes to its topic and
   whose partition still exists, holds it when performReassignments starts.  Partial with respect to "the others keep what they had"
   for arbitrary changes; for one leave and one join with identical subscriptions the full statements are proved below. *)
Theorem c13_sticky_leave_join_keep_partial : forall o ms ts p g pr,
  wf_members ms -> wf_topics ts -> NoDup (assigned p) ->
  sticky_prepare o (map (report p g) ms) ts = Some pr ->
  forall m x, In m (map m_id ms) -> In x (holds p m) -> subscribes ms m (fst x) -> In x (all_tps ts) ->
    In x (ca_get (s_ca (pr_s0 pr)) m) \/ In x (ca_get (pr_fixed pr) m).
Proof. exact preparation_keeps_stated. Qed.
Print Assumptions c13_sticky_leave_join_keep_partial.

(* sticky is sticky, leave (identical subscriptions): p a valid balanced plan of the group ms, every remaining member reporting
   what it holds in p (one generation): whatever the iteration order, the plan Plan returns leaves every remaining member
   everything it had.  Full statement (= sticky_leave_keeps_statement). *)
Theorem c13_sticky_leave_keeps : forall fuel o ms ts p g leaver p',
  wf_members ms -> wf_topics ts -> identical_subscriptions ms -> valid_plan ms ts p -> kafka_balanced ms p ->
  sticky_plan fuel true o (map (report p g) (remaining ms leaver)) ts = SOk p' ->
  forall m x, m <> leaver -> In x (holds p m) -> In x (holds p' m).
Proof. exact sticky_leave_keeps. Qed.
Print Assumptions c13_sticky_leave_keeps.

(* sticky is sticky, join (identical subscriptions, each topic listed once, every topic of the map subscribed - what
   consumerGroup.balance passes): p a valid balanced plan of the old group ms, the old members report what they hold in p, the new
   member arrives with user data without claims (nil user data decodes so): every partition either stays with its old owner or goes to the new member - no partition moves
   between old members.  Proof: sortPartitions lists the partitions round robin over the members (always one with the most left),
   so during the single modifying pass the old members stay within one of each other, the new member stays the strict minimum and
   is the target of every reassignment; afterwards everybody is within one and the next pass stops at isBalanced. *)
Theorem c13_sticky_join_no_shuffle : forall fuel o ms ts p g newm ge p',
  wf_members (newm :: ms) -> wf_topics ts -> identical_subscriptions (newm :: ms) ->
  (forall mm, In mm (newm :: ms) -> NoDup (m_topics mm)) ->
  (forall t ps, In (t, ps) ts -> In t (m_topics newm)) ->
  m_ud newm = UD [] ge -> valid_plan ms ts p -> kafka_balanced ms p ->
  sticky_plan fuel true o (newm :: map (report p g) ms) ts = SOk p' ->
  forall m x, In x (holds p m) -> In x (holds p' m) \/ In x (holds p' (m_id newm)).
Proof. exact sticky_join_no_shuffle_real. Qed.
Print Assumptions c13_sticky_join_no_shuffle.

(* partitions never swap owners pairwise within a topic: across a replan of the unchanged group (any subscriptions), across one
   leave and across one join (identical subscriptions).  For arbitrary changes the clause (sticky_no_pair_swap_statement) is
   monitored only. *)
Theorem c13_sticky_no_pair_swap_unchanged : forall fuel o ms ts p g p',
  wf_members ms -> wf_topics ts -> valid_plan ms ts p -> kafka_balanced ms p ->
  sticky_plan fuel true o (map (report p g) ms) ts = SOk p' -> ~ pair_swap p p'.
Proof. exact sticky_no_pair_swap_unchanged. Qed.
Print Assumptions c13_sticky_no_pair_swap_unchanged.

Theorem c13_sticky_no_pair_swap_leave : forall fuel o ms ts p g leaver p',
  wf_members ms -> wf_topics ts -> identical_subscriptions ms -> valid_plan ms ts p -> kafka_balanced ms p ->
  sticky_plan fuel true o (map (report p g) (remaining ms leaver)) ts = SOk p' -> ~ pair_swap p p'.
Proof. exact sticky_no_pair_swap_leave. Qed.
Print Assumptions c13_sticky_no_pair_swap_leave.

Theorem c13_sticky_no_pair_swap_join : forall fuel o ms ts p g newm ge p',
  wf_members (newm :: ms) -> wf_topics ts -> identical_subscriptions (newm :: ms) ->
  (forall mm, In mm (newm :: ms) -> NoDup (m_topics mm)) ->
  (forall t ps, In (t, ps) ts -> In t (m_topics newm)) ->
  m_ud newm = UD [] ge -> valid_plan ms ts p -> kafka_balanced ms p ->
  sticky_plan fuel true o (newm :: map (report p g) ms) ts = SOk p' -> ~ pair_swap p p'.
Proof. exact sticky_no_pair_swap_join_real. Qed.
Print Assumptions c13_sticky_no_pair_swap_join.
