(* C20 — mocks replay scripted expectations faithfully and report deviations.
   Property statements only; each is closed by [exact] of a lemma proved in C20/Proofs.v. *)
From Coq Require Import List ZArith.
From SV Require Import C20.Model C20.Proofs.
Import ListNotations.

(* The async mock is exactly the zip of messages with expectations (i-th message, i-th expectation). *)
Theorem c20_ith_outcome : forall c es ms, async_history c es ms = spec_async c es ms 0%Z.
Proof. exact async_refines_spec. Qed.
Print Assumptions c20_ith_outcome.

Theorem c20_exactly_one_outcome : forall c es ms id,
  all_visible c -> (length ms <= length es)%nat -> NoDup (map m_id ms) ->
  outcomes_of id (async_history c es ms) = if in_dec Z.eq_dec id (map m_id ms) then 1%nat else 0%nat.
Proof. exact exactly_one_outcome. Qed.
Print Assumptions c20_exactly_one_outcome.

Theorem c20_offsets_increase : forall c es ms, ret_succ c = true ->
  consecutive_from 0%Z (succ_offsets (async_history c es ms)).
Proof. exact offsets_increase. Qed.
Print Assumptions c20_offsets_increase.

Theorem c20_reporter_exact : forall c es ms, reports (async_history c es ms) = spec_reports es ms.
Proof. exact reporter_exact. Qed.
Print Assumptions c20_reporter_exact.

Theorem c20_sync_returns_scripted : forall s m,
  snd (fst (step_sync s m)) = sync_expected s m /\ snd (step_sync s m) = deviation (hd_error (exps s)) m.
Proof. exact sync_returns_scripted. Qed.
Print Assumptions c20_sync_returns_scripted.
