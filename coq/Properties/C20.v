(* C20 — mocks replay scripted expectations faithfully and report deviations.
   Property statements only; each is closed by [exact] of a lemma proved in C20/Proofs.v. *)
From Coq Require Import List ZArith.
From SV Require Import C20.Model C20.Proofs C20.ConsumerModel C20.ConsumerProofs C20.TieGen.
From SV Require Gen.DecC20.
From SV Require Import Gen.DecTypes Gen.DecTypes2.
Import ListNotations.

(* The async mock is exactly the zip of messages with expectations (i-th message, i-th expectation). *)
Theorem c20_ith_outcome : forall c es ms, async_history c es ms = spec_async c es ms 0%Z.
Proof. exact async_refines_spec. Qed.
Print Assumptions c20_ith_outcome.

Theorem c20_exactly_one_outcome : forall c es ms id,
  all_visible c -> (length ms <= length es)%nat -> NoDup (map m_id ms) ->
  outcomes_of id (async_history c es ms) = if in_dec Z.eq_dec id (map m_id ms) then 1%nat else 0%nat.
Proof. exact exactly_one_outcome. Qed.
Print Assumptions c20_exactly_one_outcome.

Theorem c20_offsets_increase : forall c es ms, ret_succ c = true ->
  consecutive_from 0%Z (succ_offsets (async_history c es ms)).
Proof. exact offsets_increase. Qed.
Print Assumptions c20_offsets_increase.

Theorem c20_reporter_exact : forall c es ms, reports (async_history c es ms) = spec_reports es ms.
Proof. exact reporter_exact. Qed.
Print Assumptions c20_reporter_exact.

(* ... whichever way the application shuts the mock down: Close(), or AsyncClose() and waiting for the channels *)
Theorem c20_reporter_exact_shutdown : forall c sd es ms,
  async_history_sd c sd es ms = async_history c es ms /\ reports (async_history_sd c sd es ms) = spec_reports es ms.
Proof. intros c sd es ms. split; [apply async_history_sd_eq | apply reporter_exact_sd]. Qed.
Print Assumptions c20_reporter_exact_shutdown.

(* TopicConfig.SetPartitions snapshots the values it is given *)
Theorem c20_topic_config_snapshot : forall ops topic,
  tc_partitions (tc_run ops) topic = tc_partitions (tc_run (own_ops ops)) topic.
Proof. intros ops topic. rewrite <- topic_config_snapshot. reflexivity. Qed.
Print Assumptions c20_topic_config_snapshot.

(* --- sync mock: SendMessage --- *)
Theorem c20_sync_returns_scripted : forall s m,
  r_ret (snd (step_sync s m)) = sync_expected s m /\
  r_rep (snd (step_sync s m)) = deviation (hd_error (exps s)) m /\
  r_touch (snd (step_sync s m)) = [sync_touch_expected s m] /\
  exps (fst (step_sync s m)) = tl (exps s) /\
  r_checked (snd (step_sync s m)) = sync_checks_expected s m.
Proof. exact sync_returns_scripted. Qed.
Print Assumptions c20_sync_returns_scripted.

(* --- sync mock: SendMessages with enough expectations: len(msgs) expectations are consumed, the call returns
   the scripted outcome of the first failing expectation (nil if none) and reports its deviation, offsets go to
   the messages before the failure and to no others --- *)
Theorem c20_sync_batch_first_failure : forall s ms, (length ms <= length (exps s))%nat ->
  let ff := first_failure (exps s) ms in
  let k := succ_prefix (exps s) ms in
  r_ret (snd (step_batch s ms)) = batch_ret ff /\
  r_rep (snd (step_batch s ms)) = batch_reports ff /\
  exps (fst (step_batch s ms)) = skipn (length ms) (exps s) /\
  length (exps (fst (step_batch s ms))) = (length (exps s) - length ms)%nat /\
  last (fst (step_batch s ms)) = (last s + Z.of_nat k)%Z /\
  map snd (r_touch (snd (step_batch s ms))) = map Some (zseq (last s + 1)%Z k) ++ repeat None (length ms - k).
Proof. exact sync_batch_enough. Qed.
Print Assumptions c20_sync_batch_first_failure.

Theorem c20_sync_batch_insufficient : forall s ms, (length (exps s) < length ms)%nat ->
  step_batch s ms = (s, {| r_ret := SErr err_out_of_expectations; r_rep := [RepInsufficient];
                            r_touch := map (fun _ => untouched) ms; r_asked := []; r_checked := [] |}).
Proof. exact sync_batch_insufficient. Qed.
Print Assumptions c20_sync_batch_insufficient.

(* offsets increase by one per success across any mix of SendMessage and SendMessages calls *)
Theorem c20_sync_offsets_increase : forall cs s,
  consecutive_from (last s) (call_offsets (snd (run_calls s cs))) /\
  last (fst (run_calls s cs)) = (last s + Z.of_nat (length (call_offsets (snd (run_calls s cs)))))%Z.
Proof. exact sync_offsets_increase. Qed.
Print Assumptions c20_sync_offsets_increase.

Theorem c20_sync_close_exact : forall s,
  sync_close s = match exps s with [] => [] | _ => [RepLeftOver (Z.of_nat (length (exps s)))] end.
Proof. exact sync_close_exact. Qed.
Print Assumptions c20_sync_close_exact.

(* --- 1-2 concurrent senders on the async input: stated over the arrival order, which is any interleaving --- *)
Theorem c20_concurrent_senders : forall c es ms1 ms2 arr id,
  interleave ms1 ms2 arr ->
  async_history c es arr = spec_async c es arr 0%Z /\
  (all_visible c -> (length (ms1 ++ ms2) <= length es)%nat -> NoDup (map m_id (ms1 ++ ms2)) ->
   outcomes_of id (async_history c es arr) = if in_dec Z.eq_dec id (map m_id (ms1 ++ ms2)) then 1%nat else 0%nat).
Proof. exact concurrent_senders. Qed.
Print Assumptions c20_concurrent_senders.

(* --- mock consumer (mocks/consumer.go): statements over the history of any script of actions --- *)
(* per partition: yielded messages, numbered 1, 2, 3, ... in yield order = taken out of the channel (received or drained
   by Close, in temporal order) ++ still buffered; yielded errors = received / returned by Close / drained ++ buffered *)
Theorem c20_consumer_sequence : forall acts k,
  let s := fst (crun cinit acts) in
  let tr := snd (crun cinit acts) in
  numbered 1%Z (accepted k tr) = taken k tr ++ queue k s /\
  eaccepted k tr = etaken k tr ++ equeue k s.
Proof. exact consumer_sequence. Qed.
Print Assumptions c20_consumer_sequence.

(* what the application itself received is a gap-free prefix of the numbered yields *)
Theorem c20_consumer_reads_prefix : forall acts k,
  let s := fst (crun cinit acts) in
  let tr := snd (crun cinit acts) in
  numbered 1%Z (accepted k tr) = reads k tr ++ dropped k tr ++ queue k s.
Proof. exact consumer_reads_prefix. Qed.
Print Assumptions c20_consumer_reads_prefix.

(* HighWaterMarkOffset = number of YieldMessage calls so far + 1 (= last yielded offset + 1 while the channel is open) *)
Theorem c20_consumer_hwm : forall acts k tr1 e tr2 v,
  snd (crun cinit acts) = tr1 ++ e :: tr2 -> t_act e = AHwm k -> t_obs e = OHwm v ->
  v = (1 + Z.of_nat (length (ycalls k tr1)))%Z.
Proof. exact consumer_hwm. Qed.
Print Assumptions c20_consumer_hwm.

Theorem c20_consumer_open_all_yields_accepted : forall acts k pc,
  find k (c_pcs (fst (crun cinit acts))) = Some pc -> pc_closed pc = false ->
  accepted k (snd (crun cinit acts)) = ycalls k (snd (crun cinit acts)).
Proof. exact consumer_open_all_yields_accepted. Qed.
Print Assumptions c20_consumer_open_all_yields_accepted.

(* the reporter is called for, and only for, the causes enumerated by [cause] (in any state, for any action) *)
Theorem c20_consumer_reports_exact : forall s a r, In r (t_rep (snd (cstep s a))) <-> cause s a r.
Proof. exact consumer_reports_exact. Qed.
Print Assumptions c20_consumer_reports_exact.

Theorem c20_consumer_never_consumed : forall acts k,
  let s := fst (crun cinit acts) in
  let tr := snd (crun cinit acts) in
  In (CRNotStarted k) (t_rep (snd (cstep s ACloseAll))) <-> (expects k tr <> [] /\ consumed_in k tr = false).
Proof. exact consumer_never_consumed. Qed.
Print Assumptions c20_consumer_never_consumed.

Theorem c20_consumer_consume_reports : forall acts k off r,
  let s := fst (crun cinit acts) in
  let tr := snd (crun cinit acts) in
  In r (t_rep (snd (cstep s (AConsume k off)))) <->
  (r = CRNoExp k /\ expects k tr = []) \/
  (exists exp, r = CROffset k exp off /\ hd_error (expects k tr) = Some exp /\ consumed_in k tr = false /\
               exp <> any_offset /\ exp <> off).
Proof. exact consumer_consume_reports. Qed.
Print Assumptions c20_consumer_consume_reports.

(* --- tie to the definitions go/decgen regenerates from mocks/*.go on every check (golden coq/Gen/DecC20.v):
   the model's steps equal the generated functions under the projections of C20/TieGen.v --- *)
Theorem c20_tie_sync_send_message : forall s m prs crs,
  off_ok (last s) 1 ->
  let '(es', lo', prs', crs', acts, p, o, g) :=
      DecC20.sync_send_message (map gexp (exps s)) (last s) (gpres m :: prs) (chk_stream (exps s) [m] ++ crs) in
  let '(s', r) := step_sync s m in
  es' = map gexp (exps s') /\ lo' = last s' /\
  prs' = skipn (List.length (r_asked r)) (gpres m :: prs) /\
  crs' = skipn (List.length (r_checked r)) (chk_stream (exps s) [m] ++ crs) /\
  acts = res_acts r /\ gsret p o g = r_ret r.
Proof. exact tie_sync_send_message. Qed.
Print Assumptions c20_tie_sync_send_message.

Theorem c20_tie_sync_send_messages : forall s ms prs crs,
  off_ok (last s) (List.length ms) ->
  let n := List.length ms in
  let pstream := map gpres ms ++ prs in
  let cstream := chk_stream (firstn n (exps s)) ms ++ crs in
  let '(es', lo', prs', crs', acts, g) :=
      DecC20.sync_send_messages (map gexp (exps s)) (last s) pstream cstream (Z.of_nat n) in
  let '(s', r) := step_batch s ms in
  es' = map gexp (exps s') /\ lo' = last s' /\
  prs' = skipn (List.length (r_asked r)) pstream /\
  crs' = skipn (List.length (r_checked r)) cstream /\
  acts = res_acts r /\ gbret g = r_ret r.
Proof. exact tie_sync_send_messages. Qed.
Print Assumptions c20_tie_sync_send_messages.

Theorem c20_tie_consume_partition : forall s k off topic topic_pcs pc_entry,
  lookups_agree s k topic_pcs pc_entry ->
  let consumed := consumed_of s k in
  let expected := match ConsumerModel.find k (c_pcs s) with Some pc => pc_off pc | None => 0%Z end in
  let '(consumed', acts, pc, g) := DecC20.consume_partition consumed topic (snd k) off topic_pcs pc_entry expected in
  let '(s', e) := cstep s (AConsume k off) in
  consumed' = consumed_of s' k /\ acts = map crep_act (t_rep e) /\ consume_obs pc g = t_obs e.
Proof. exact tie_consume_partition. Qed.
Print Assumptions c20_tie_consume_partition.

(* concurrent yielders (serialised by the mock's mutex): the offsets handed out do not depend on the order in which the callers
   win the mutex — two scripts accepting the same number of messages on a partition give the same offsets position by position —
   and they are consecutive from 1 in delivery order *)
Theorem c20_consumer_offsets_order_independent : forall acts acts' k,
  length (accepted k (snd (crun cinit acts))) = length (accepted k (snd (crun cinit acts'))) ->
  map snd (reads k (snd (crun cinit acts)) ++ dropped k (snd (crun cinit acts)) ++ queue k (fst (crun cinit acts))) =
  map snd (reads k (snd (crun cinit acts')) ++ dropped k (snd (crun cinit acts')) ++ queue k (fst (crun cinit acts'))).
Proof. exact consumer_offsets_order_independent. Qed.
Print Assumptions c20_consumer_offsets_order_independent.

Theorem c20_consumer_offsets_consecutive : forall acts k,
  map snd (reads k (snd (crun cinit acts)) ++ dropped k (snd (crun cinit acts)) ++ queue k (fst (crun cinit acts))) =
  map (fun i => (1 + Z.of_nat i)%Z) (seq 0 (length (accepted k (snd (crun cinit acts))))).
Proof. exact consumer_offsets_consecutive. Qed.
Print Assumptions c20_consumer_offsets_consecutive.
