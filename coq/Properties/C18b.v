(* C18, consumer half — each consumer interceptor runs exactly once per message before delivery, whatever the
   reader's pace; a panicking interceptor is contained.  Statements only; proofs in Consumer/FeederProofs.v.
   The model (Consumer/Feeder.v) has the slow-reader path in two variants: [reapply = true] is the pinned
   tree, [reapply = false] the tree with fixes/c18_consumer_interceptor.patch. *)
From Coq Require Import List ZArith.
From SV Require Import Consumer.Feeder Consumer.FeederProofs.
Import ListNotations.

(* Repaired feeder, for every interceptor chain (any length, mutating, panicking), every split of the messages
   into responses, every schedule of MaxProcessingTime ticks (fast path, flag-clearing tick, slow-reader path,
   flag carried over to the next response): everything that happens to a message is the chain once, in
   configuration order, followed by its delivery with the content the chain produced. *)
Theorem c18_consumer_once : forall (P : Type) (is : list (icpt P)) (rs : list (list (msg P))) (fa : bool)
    (scheds : list (list nat)) (id : Z) (p : P),
  NoDup (map fst (concat rs)) -> In (id, p) (concat rs) ->
  let evs := snd (feed_all P false is fa rs scheds) in
  filter (about P id) evs = snd (chain P 0 is (id, p)) ++ [Deliver (final P is (id, p))] /\
  map (calls_of P) (snd (chain P 0 is (id, p))) = map (fun k => Some (k, id)) (seq 0 (length is)) /\
  (forall k, k < length is -> calls k id evs = 1).
Proof. exact consumer_once. Qed.
Print Assumptions c18_consumer_once.

(* A panic is an outcome of the interceptor like any other - whatever the panic VALUE is (string, error, a runtime.Error
   from a nil-map write / index out of range / nil dereference, a custom type): the model's interceptor result is just
   (content, panicked?) and safelyApplyInterceptor's recover is modelled as containing every one of them.  The stream
   delivered is the parsed stream, every message carrying what all interceptors (the ones after a panicking one
   included) made of it.  The tie exercises every kind of panic value at every chain position on both paths. *)
Theorem c18_consumer_panic_contained : forall (P : Type) (is : list (icpt P)) (rs : list (list (msg P))) (fa : bool)
    (scheds : list (list nat)),
  delivered (snd (feed_all P false is fa rs scheds)) = map (final P is) (concat rs).
Proof. exact feed_all_delivered. Qed.
Print Assumptions c18_consumer_panic_contained.

(* The pinned tree: unbuffered channel, one marking interceptor, three messages in one response, two ticks
   pass while the feeder is blocked on the third: the interceptor runs twice on it (delivery itself exact). *)
Theorem c18_consumer_once_refuted :
  calls 0 2%Z (snd (feed_all (list nat) true [mark 0] true [witness_msgs] [witness_sched])) = 2 /\
  delivered (snd (feed_all (list nat) true [mark 0] true [witness_msgs] [witness_sched])) =
    [(0%Z, [0]); (1%Z, [0]); (2%Z, [0; 0])].
Proof. exact pinned_intercepts_twice. Qed.
Print Assumptions c18_consumer_once_refuted.

(* Both variants deliver the parsed messages exactly once and in order (the defect is confined to the
   interceptor calls). *)
Theorem c18_consumer_delivery_exact : forall (P : Type) (reapply : bool) (is : list (icpt P)) (rs : list (list (msg P)))
    (fa : bool) (scheds : list (list nat)),
  map fst (delivered (snd (feed_all P reapply is fa rs scheds))) = map fst (concat rs).
Proof. exact feed_all_ids. Qed.
Print Assumptions c18_consumer_delivery_exact.
