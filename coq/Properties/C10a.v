(* C10 (part a: primitive and records layers) — malformed input yields an error, never a crash or wrong data.
   Property statements only.  The getters are those of the tree with /verif/fixes/c10_primitive_getters.patch;
   the c10_prim_refuted_* theorems are the witnesses against the getters of the pinned tree (Wire/PrimOld.v). *)
From Coq Require Import List ZArith.
From SV Require Import Wire.Bytes Wire.Varint Wire.Crc Wire.Prim Wire.PushPop Wire.CorrPrim Wire.PrimOld
  Wire.SafetyProofs Wire.OldProofs Wire.Records Wire.RecordsSafety Wire.RecordsDetect Wire.RecordsTerm.
Import ListNotations.
Open Scope Z_scope.

(* Every decoder operation, for every buffer and every offset inside it (and every stack of pending CRC / length
   fields pushed earlier): the result is a value or an error, never a run-time panic, never an allocation from an
   unchecked count; the buffer is untouched, the offset only moves forward and stays inside the buffer (every read
   of the model goes through [slice] / [byte_at], which panic outside it); allocation <= 16 x bytes consumed
   (<= 16 x bytes remaining on error). *)
Theorem c10_prim_safe : forall o d, wf_dec d -> dop_pre o d -> safe_outcome d (run_dop o d).
Proof. exact prim_safe. Qed.
Print Assumptions c10_prim_safe.

(* A pop that succeeds has verified its field: the decoded CRC equals the CRC of exactly the covered bytes, the
   decoded length equals the number of bytes consumed since the field; a pop that does not succeed is an error
   of the matching kind.  (No claim about CRC collisions.) *)
Theorem c10_crc_length_detects_prim : forall d v d', pop_dec d = Ok v d' ->
  exists f s, stack d = f :: s /\ d' = set_stack d s /\ field_holds f d.
Proof. exact pop_detects. Qed.
Print Assumptions c10_crc_length_detects_prim.

Theorem c10_pop_outcomes_prim : forall d, wf_dec d -> stack d <> [] ->
  (exists d', pop_dec d = Ok tt d') \/ (exists d', pop_dec d = Err ELengthField d') \/ (exists d', pop_dec d = Err ECrc d').
Proof. exact pop_outcomes. Qed.
Print Assumptions c10_pop_outcomes_prim.

(* The pinned tree (before the fix): short inputs that panic or allocate gigabytes. *)
Theorem c10_prim_refuted_compact_string : get_compact_string_old (mkDec [0] 0 0 []) = Panic P_SLICE.
Proof. exact old_compact_string_null. Qed.
Print Assumptions c10_prim_refuted_compact_string.
Theorem c10_prim_refuted_compact_string_long : get_compact_string_old (mkDec [127; 65] 0 0 []) = Panic P_SLICE.
Proof. exact old_compact_string_long. Qed.
Theorem c10_prim_refuted_string_array : get_string_array_old (mkDec [127; 255; 255; 255] 0 0 []) = Alloc 2147483647.
Proof. exact old_string_array_alloc. Qed.
Print Assumptions c10_prim_refuted_string_array.
Theorem c10_prim_refuted_array_length : exists d', get_array_length_old (mkDec [255; 255; 255; 254] 0 0 []) = Ok (-2) d'.
Proof. exact old_array_length_negative. Qed.
Theorem c10_prim_refuted_compact_int32_array :
  get_compact_int32_array_old (mkDec [255; 255; 255; 255; 15; 1; 2; 3] 0 0 []) = Alloc 4294967294 /\
  get_compact_int32_array_old (mkDec [3; 0; 0; 0; 1] 0 0 []) = Panic P_INDEX.
Proof. exact (conj old_compact_int32_array_alloc old_compact_int32_array_short). Qed.
Print Assumptions c10_prim_refuted_compact_int32_array.

(* ============================ records layer ============================ *)
(* Record / recordsArray: for every buffer and offset: a value or an error; on success the stack is restored and the
   allocation is paid for by consumed bytes (the header count is checked before make). *)
Theorem c10_records_safe_record : forall d, inb d -> rsafe d (record_decode d).
Proof. exact record_decode_safe. Qed.
Print Assumptions c10_records_safe_record.
Theorem c10_records_safe_array : forall n d, inb d -> rsafe d (records_decode n d).
Proof. exact records_decode_safe. Qed.

(* RecordBatch, whatever the codec library returns (outputs of at most L bytes): never a panic, never an allocation
   from an unchecked count; offsets inside the buffer; allocation <= 16 x remaining + 32 x max(L, remaining). *)
Theorem c10_records_safe : forall (decompress : Z -> list Z -> option (list Z)) L,
  (forall c x y, decompress c x = Some y -> len y <= L) -> 0 <= L < two63 ->
  forall d, inb d -> bsafe L d (batch_decode decompress d).
Proof. exact batch_decode_safe. Qed.
Print Assumptions c10_records_safe.

(* Legacy message sets (with nested compressed wrapper messages, any nesting depth given to the model): never a
   panic; the decoders allocate nothing by make (mem unchanged). *)
Theorem c10_records_safe_mset : forall (decompress : Z -> list Z -> option (list Z)),
  (forall c x y, decompress c x = Some y -> len y < two63) ->
  forall depth d, inb d -> lsafe d (mset_decode decompress depth d).
Proof. exact mset_decode_safe. Qed.
Print Assumptions c10_records_safe_mset.

(* Records (magic-byte peek choosing legacy vs default), response header, request header, control record. *)
Theorem c10_records_safe_top : forall (decompress : Z -> list Z -> option (list Z)) L,
  (forall c x y, decompress c x = Some y -> len y <= L) -> 0 <= L < two63 ->
  forall depth d, inb d -> bsafe L d (records_decode_top decompress depth d).
Proof. exact records_top_safe. Qed.
Theorem c10_response_header_safe : forall version d, inb d -> safe d (response_header_decode version d).
Proof. exact response_header_safe. Qed.
(* Broker.responseReceiver: after an accepted frame header (either header version) the size handed to
   make([]byte, length - headerLength + 4) is never negative and at most MaxResponseSize: no makeslice panic. *)
Theorem c10_response_receive_safe : forall version corr d, inb d ->
  match response_receive version corr d with
  | Ok size _ => 0 <= size <= MAX_RESPONSE_SIZE
  | Err _ _ => True
  | Panic _ => False
  | Alloc _ => False
  end.
Proof. exact response_receive_safe. Qed.
Print Assumptions c10_response_receive_safe.
Theorem c10_request_header_safe : forall hv_of d, inb d -> safe d (request_header_decode hv_of d).
Proof. exact request_header_safe. Qed.
Theorem c10_control_record_safe : forall key value, inb key -> inb value -> no_crash (fst (control_decode key value)).
Proof. exact control_decode_safe. Qed.
Print Assumptions c10_control_record_safe.

(* A record batch that decodes (not as a partial trailing batch) has been verified: its CRC field is the CRC-32C of
   exactly the bytes after it up to the end of the batch as the length field states, and exactly 12 + length bytes
   were consumed.  Otherwise the result is an error or the tolerated partial batch with no records. *)
Theorem c10_crc_detects : forall (decompress : Z -> list Z -> option (list Z)) d b d',
  batch_decode decompress d = Ok b d' -> b_partial b = false ->
  exists bl blb stored cov,
    slice (raw d) (off d + 8) (off d + 12) = Some blb /\ bl = i32 (ube blb) /\
    slice (raw d) (off d + 17) (off d + 21) = Some stored /\
    slice (raw d) (off d + 21) (off d + 12 + bl) = Some cov /\
    crc32 Castagnoli cov = ube stored /\
    off d' = off d + 12 + bl /\ raw d' = raw d.
Proof. exact batch_detects. Qed.
Print Assumptions c10_crc_detects.

(* A legacy message block that decodes: CRC-32 of exactly the bytes from the magic byte to the end of the value;
   the length field equals the number of bytes of the message. *)
Theorem c10_length_detects : forall (decompress : Z -> list Z -> option (list Z)) nested d o m d',
  fst (block_decode_with (message_decode_with decompress nested) d) = Ok (o, m) d' ->
  (forall buf d0, match nested buf d0 with Ok _ dz | Err _ dz => raw dz = raw d0 /\ off dz = off d0 /\ stack dz = stack d0 | _ => True end) ->
  exists ml mlb stored cov,
    slice (raw d) (off d + 8) (off d + 12) = Some mlb /\ ml = i32 (ube mlb) /\
    slice (raw d) (off d + 12) (off d + 16) = Some stored /\
    slice (raw d) (off d + 16) (off d') = Some cov /\
    crc32 IEEE cov = ube stored /\
    ml = i32 (off d' - (off d + 12)) /\ raw d' = raw d.
Proof. exact block_detects. Qed.
Print Assumptions c10_length_detects.

(* Termination: the only loop of the layer that is not a counted loop (MessageSet.decode) is modelled with fuel;
   any fuel above the number of remaining bytes gives the same result: the fuel is never what stops the loop. *)
Theorem c10_terminates : forall msgdec, (forall d1, inb d1 -> msafe d1 (msgdec d1)) ->
  forall fuel1 fuel2 d acc, inb d -> remaining d < Z.of_nat fuel1 -> remaining d < Z.of_nat fuel2 ->
  mset_loop msgdec fuel1 d acc = mset_loop msgdec fuel2 d acc.
Proof. exact mset_loop_fuel. Qed.
Print Assumptions c10_terminates.
