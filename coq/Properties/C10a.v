(* C10 (part a: primitive and records layers) — malformed input yields an error, never a crash or wrong data.
   Property statements only.  The getters are those of the tree with /verif/fixes/c10_primitive_getters.patch;
   the c10_prim_refuted_* theorems are the witnesses against the getters of the pinned tree (Wire/PrimOld.v). *)
From Coq Require Import List ZArith.
From SV Require Import Wire.Bytes Wire.Varint Wire.Crc Wire.Prim Wire.PushPop Wire.CorrPrim Wire.PrimOld
  Wire.SafetyProofs Wire.OldProofs.
Import ListNotations.
Open Scope Z_scope.

(* Every decoder operation, for every buffer and every offset inside it (and every stack of pending CRC / length
   fields pushed earlier): the result is a value or an error, never a run-time panic, never an allocation from an
   unchecked count; the buffer is untouched, the offset only moves forward and stays inside the buffer (every read
   of the model goes through [slice] / [byte_at], which panic outside it); allocation <= 16 x bytes consumed
   (<= 16 x bytes remaining on error). *)
Theorem c10_prim_safe : forall o d, wf_dec d -> dop_pre o d -> safe_outcome d (run_dop o d).
Proof. exact prim_safe. Qed.
Print Assumptions c10_prim_safe.

(* A pop that succeeds has verified its field: the decoded CRC equals the CRC of exactly the covered bytes, the
   decoded length equals the number of bytes consumed since the field; a pop that does not succeed is an error
   of the matching kind.  (No claim about CRC collisions.) *)
Theorem c10_crc_length_detects_prim : forall d v d', pop_dec d = Ok v d' ->
  exists f s, stack d = f :: s /\ d' = set_stack d s /\ field_holds f d.
Proof. exact pop_detects. Qed.
Print Assumptions c10_crc_length_detects_prim.

Theorem c10_pop_outcomes_prim : forall d, wf_dec d -> stack d <> [] ->
  (exists d', pop_dec d = Ok tt d') \/ (exists d', pop_dec d = Err ELengthField d') \/ (exists d', pop_dec d = Err ECrc d').
Proof. exact pop_outcomes. Qed.
Print Assumptions c10_pop_outcomes_prim.

(* The pinned tree (before the fix): short inputs that panic or allocate gigabytes. *)
Theorem c10_prim_refuted_compact_string : get_compact_string_old (mkDec [0] 0 0 []) = Panic P_SLICE.
Proof. exact old_compact_string_null. Qed.
Print Assumptions c10_prim_refuted_compact_string.
Theorem c10_prim_refuted_compact_string_long : get_compact_string_old (mkDec [127; 65] 0 0 []) = Panic P_SLICE.
Proof. exact old_compact_string_long. Qed.
Theorem c10_prim_refuted_string_array : get_string_array_old (mkDec [127; 255; 255; 255] 0 0 []) = Alloc 2147483647.
Proof. exact old_string_array_alloc. Qed.
Print Assumptions c10_prim_refuted_string_array.
Theorem c10_prim_refuted_array_length : exists d', get_array_length_old (mkDec [255; 255; 255; 254] 0 0 []) = Ok (-2) d'.
Proof. exact old_array_length_negative. Qed.
Theorem c10_prim_refuted_compact_int32_array :
  get_compact_int32_array_old (mkDec [255; 255; 255; 255; 15; 1; 2; 3] 0 0 []) = Alloc 4294967294 /\
  get_compact_int32_array_old (mkDec [3; 0; 0; 0; 1] 0 0 []) = Panic P_INDEX.
Proof. exact (conj old_compact_int32_array_alloc old_compact_int32_array_short). Qed.
Print Assumptions c10_prim_refuted_compact_int32_array.
