(* C05 — idempotent producer never writes a message twice.
   Property statements only; each is closed by [exact] of a lemma proved in coq/C05/Proofs*.v.
   [yrun c sched] (C05/Model.v) is the state of the composed system -- the async-producer actor composition of
   coq/Producer (arbitrary interleaving of dispatcher, topic/partition/broker workers, bridges, retryBatch
   goroutines, retry handler; leader lookups as oracle) with the rule-enforcing idempotent broker of C05/Model.v
   -- after an ARBITRARY list of choices: client steps and deliveries [YDeliver b f] of the request in flight with
   an arbitrary fault f (answered per partition: ok / error before the append / error after the append / no block;
   connection dropped before the append; acknowledgement lost after it).  [y_hist] is the list of batches the
   cluster received, with the rules' verdict where they were applied; [y_br] the partition states and logs. *)
From Coq Require Import List ZArith Bool String.
From SV Require Import Producer.Msg Producer.Actors Producer.Compose
                       C05.Model C05.Witness C05.ProofsBroker C05.ProofsSys C05.ProofsClient C05.ProofsLink C05.ProofsWitness
                       Gen.GoInt Gen.DecTypes Gen.DecTypes2 Gen.DecC01 Gen.DecC05 C05.TieGen
                       C05.ProofsClosure C05.ProofsEnv C05.ProofsTab C05.ProofsLineage C05.ProofsKey C05.ProofsEnvFinal C05.ProofsCount.
Import ListNotations.
Open Scope Z_scope.

(* ------------------------------------------------------------------ the full statement is false of the pinned tree *)

(* (i) connection-level failures only (Retry.Max = 1, two partitions): message 2, submitted once, is appended twice *)
Theorem c05_refuted_conn_drop :
  let y := yrun wcfg sched_conn_drop in
  idem_cfg wcfg = true /\ forallb sane_choice sched_conn_drop = true /\
  (forall i, (subm_count i (y_st y) <= 1)%nat) /\ g_panic (y_st y) = None /\
  appended 2 y = 2%nat /\ In 2 (success_ids (y_st y)).
Proof. exact refuted_conn_drop. Qed.
Print Assumptions c05_refuted_conn_drop.

(* (ii) per-partition answers only: an epoch bump while message 2 is stamped and unresolved; the fresh message 3 is
   reported successful and is not in the log; partition 1 is sent two different batches starting at (epoch 1, seq 0) *)
Theorem c05_refuted_epoch_bump :
  let y := yrun wcfg sched_epoch_bump in
  idem_cfg wcfg = true /\ forallb sane_choice sched_epoch_bump = true /\ forallb conn_free_choice sched_epoch_bump = true /\
  (forall i, (subm_count i (y_st y) <= 1)%nat) /\ g_panic (y_st y) = None /\
  appended 3 y = 0%nat /\ In 3 (success_ids (y_st y)) /\
  sent_ok [] 0 (sent_batches (0, 1) 1 (y_hist y)) = false.
Proof. exact refuted_epoch_bump. Qed.
Print Assumptions c05_refuted_epoch_bump.

(* (v) found by this check, repaired in /repo 271dd24: flushRetryBuffers forwarded a fresh message parked during a
   retry without a sequence number (reported successful, not in the log, after ONE NotLeaderForPartition answer).
   On that schedule the repaired code stamps message 3 as (epoch 0, sequence 2): appended once, history consistent. *)
Theorem c05_backlog_repaired :
  let y := yrun wcfg2 sched_backlog in
  idem_cfg wcfg2 = true /\ forallb sane_choice sched_backlog = true /\ forallb conn_free_choice sched_backlog = true /\
  no_error_events (y_st y) = true /\ g_panic (y_st y) = None /\ g_inflight (y_st y) = 0 /\
  consistent (hist_claims (y_hist y)) /\
  appended 1 y = 1%nat /\ appended 2 y = 1%nat /\ appended 3 y = 1%nat /\ success_ids (y_st y) = [1; 2; 3] /\
  map rl_batch (y_hist y) = [mkBatch (0, 0) 0 0 [1]; mkBatch (0, 0) 0 0 [1]; mkBatch (0, 0) 0 1 [2]; mkBatch (0, 0) 0 2 [3]].
Proof. exact backlog_repaired. Qed.
Print Assumptions c05_backlog_repaired.

(* hence: "no message appended twice and every success in the log exactly once", for all idempotent configurations,
   schedules and fault scripts, does not hold -- not even without any connection-level failure.  (Model.no_duplicate_quiet, the restriction to
   histories in which moreover no message fails, was refuted by (v) before the repair and is open now.) *)
Theorem c05_no_duplicate_refuted : ~ no_duplicate_full /\ ~ no_duplicate_conn_free.
Proof. exact (conj not_no_duplicate_full not_no_duplicate_conn_free). Qed.
Print Assumptions c05_no_duplicate_refuted.

(* ------------------------------------------------------------------ what holds for all schedules and fault scripts *)

(* the cluster state is the replay of the received history through the rules, and every recorded verdict is the
   rules' verdict (so the theorems below, stated over histories, speak about the composed system) *)
Theorem c05_history_is_broker_state : forall c sched,
  y_br (yrun c sched) = replay (y_hist (yrun c sched)) /\ verdicts_ok [] (y_hist (yrun c sched)).
Proof. exact hist_inv_run. Qed.
Print Assumptions c05_history_is_broker_state.

(* broker side, for ANY history whatsoever: if what the broker was asked to write is stamp-consistent (message id
   <-> (partition, epoch, sequence) one-to-one), no id is in the logs twice ... *)
Theorem c05_broker_no_duplicate : forall h, consistent (hist_claims h) -> NoDup (all_log_ids (replay h)).
Proof. exact broker_no_duplicate. Qed.
Print Assumptions c05_broker_no_duplicate.

(* ... and every batch the rules accepted -- appended, or recognised as the duplicate of one of the last five
   batches and answered with the cached base offset -- has each of its ids in the logs exactly once *)
Theorem c05_broker_accepted_once : forall h, consistent (hist_claims h) -> verdicts_ok [] h ->
  forall l i, In l h -> accepted_entry l = true -> In i (ba_ids (rl_batch l)) ->
  count_id i (all_log_ids (replay h)) = 1%nat.
Proof. exact broker_accepted_once. Qed.
Print Assumptions c05_broker_accepted_once.

(* the client's success events are tied to the cluster's verdicts: in every reachable state, for every schedule and
   every sane fault script (the broker does not invent an Ok / DuplicateSequenceNumber answer), a message reported
   successful belongs to a batch that the rules accepted *)
Theorem c05_success_link : forall c sched, forallb sane_choice sched = true ->
  forall m o, In (Ev true m o) (g_events (y_st (yrun c sched))) ->
  exists l, In l (y_hist (yrun c sched)) /\ accepted_entry l = true /\ In (m_id m) (ba_ids (rl_batch l)).
Proof. exact success_link. Qed.
Print Assumptions c05_success_link.

(* the partial theorem: for every configuration, schedule and sane fault script (lost acknowledgements, resends,
   connection drops, leader moves, exhausted budgets and fatal errors included) in whose history every message was
   always sent under one (partition, epoch, sequence) and no two messages under the same one: no message is in
   the logs twice, and every message reported successful is there exactly once.
   The excluded class is exactly: some message was sent under two different stamps, or two messages under one
   (c05_refuted_conn_drop: message 2 as (0,0) and (1,0); c05_refuted_epoch_bump: messages 2 and 3 both as (1,0);
   before 271dd24 also the unsequenced backlog: messages 1 and 3 both as (0,0)). *)
Theorem c05_no_duplicate_partial : forall c sched,
  let y := yrun c sched in
  forallb sane_choice sched = true -> consistent (hist_claims (y_hist y)) ->
  (forall i, (appended i y <= 1)%nat) /\ (forall i, In i (success_ids (y_st y)) -> appended i y = 1%nat).
Proof. exact no_duplicate_partial. Qed.
Print Assumptions c05_no_duplicate_partial.

(* ... and for every batch the cluster accepted, reported or not *)
Theorem c05_accepted_once : forall c sched,
  let y := yrun c sched in
  consistent (hist_claims (y_hist y)) ->
  (forall i, (appended i y <= 1)%nat) /\
  (forall l i, In l (y_hist y) -> accepted_entry l = true -> In i (ba_ids (rl_batch l)) -> appended i y = 1%nat).
Proof. exact no_duplicate_consistent. Qed.
Print Assumptions c05_accepted_once.

(* client side: whatever the order of getAndIncrementSequenceNumber / bumpEpoch calls, from whatever state, the
   transaction manager never hands out the same (partition, epoch, sequence) twice *)
Theorem c05_stamps_unique : forall ops t, NoDup (txn_issue t ops).
Proof. exact stamps_unique. Qed.
Print Assumptions c05_stamps_unique.

(* ------------------------------------------------------------------ sequence contiguity *)

(* as stated (every batch SENT for a partition within an epoch starts one past the previous batch, resends aside):
   false on the pinned tree, witness (ii) *)
Theorem c05_sequence_contiguous_refuted : ~ sequence_contiguous_full.
Proof. exact not_sequence_contiguous_full. Qed.
Print Assumptions c05_sequence_contiguous_refuted.

(* for all schedules and fault scripts: the batches the rules APPEND for a partition within an epoch start at 0 and
   each starts one past the previous one's last sequence *)
Theorem c05_sequence_contiguous_partial : forall c sched k ep, 0 <= ep ->
  chain (-1) (appended_batches k ep (y_hist (yrun c sched))).
Proof. exact appended_contiguous. Qed.
Print Assumptions c05_sequence_contiguous_partial.

(* ------------------------------------------------------------------ resends *)

(* as stated (a batch that shares a message with an earlier batch of the partition is that batch): false on the
   pinned tree after a connection-level failure, witness (i'): [1;2] comes back as [1], message 1 (in the log)
   gets OutOfOrderSequenceNumber *)
Theorem c05_resend_identical_refuted : ~ resend_identical_full.
Proof. exact not_resend_identical_full. Qed.
Print Assumptions c05_resend_identical_refuted.

(* the whole-batch resend path (retryBatch), for every configuration, epoch read, budget and leader result: the set
   handed to the bridge lists the same messages with the same sequence numbers and epochs in the same order, and
   encodes to the same (label, first sequence, ids) *)
Theorem c05_resend_identical_partial : forall c ep k ms e l b s,
  In (ERbSend b s) (rb_step c ep k ms e l) ->
  exists ms', s_parts s = [(k, ms')] /\ map stamp4 ms' = map stamp4 ms /\
              (forall w ep0, ms <> [] -> In (m_id (hd (mkMsg 0 0 0 0%nat 0 0 false 0 false 0 0 false []) ms)) (map fst w) ->
                             batch_of w (s_epoch s) (k, ms') = batch_of w ep0 (k, ms)).
Proof. exact resend_identical. Qed.
Print Assumptions c05_resend_identical_partial.

(* ------------------------------------------------------------------ the environment class *)

(* [env_ok c sched]: at every step of the run (a) if the producer epoch moves, no sequenced message is left anywhere
   afterwards ("no epoch bump while another sequenced message is unresolved": [no_stamped] ranges over every channel
   queue, retry-level buffer, broker buffer, parked message, bridged / in-flight / answered set and retryBatch task);
   (b) the set a delivery hands to the cluster lists, per partition, messages with consecutive sequence numbers
   (the per-partition ordering statement of C02, decidable on the run; automatic when every batch has one message).
   Connection-level failures, lost acknowledgements, leader moves, exhausted budgets, fatal answers, any number of
   partitions and any flush setting are inside the class. *)

(* in the class (clause (a) alone), whatever a broker worker has in flight: every application message of it is
   sequenced, carries the set's label, and that label is the current epoch -- the mechanism of defect (ii) is excluded *)
Theorem c05_epoch_coherent_env : forall c sched, c_idem c = true -> bump_quiet c yinit sched ->
  forall b x st m, nth_error (g_bps (y_st (yrun c sched))) b = Some x -> i_infl x = Some st ->
  In m (set_msgs st) -> is_data m = true ->
  m_hasseq m = true /\ m_epoch m = s_epoch st /\ s_epoch st = g_epoch (y_st (yrun c sched)).
Proof. exact epoch_coherent. Qed.
Print Assumptions c05_epoch_coherent_env.

(* for every schedule at all: each set a broker worker holds files every message under its own (topic, partition) *)
Theorem c05_partition_keys : forall c ys, key_inv (y_st (yrun c ys)).
Proof. exact key_run. Qed.
Print Assumptions c05_partition_keys.

(* in the class the received history is stamp-consistent: every message keeps the (partition, epoch, sequence) it was
   stamped with wherever it travels and however often it is re-sent, and no two messages ever share one *)
Theorem c05_stamp_consistent_env : forall c sched, c_idem c = true -> c_fix_rb c = true -> env_ok c sched ->
  (forall i, (subm_count i (y_st (yrun c sched)) <= 1)%nat) -> consistent (hist_claims (y_hist (yrun c sched))).
Proof. exact env_consistent. Qed.
Print Assumptions c05_stamp_consistent_env.

(* hence, in the class: no message is in the logs twice, every message reported successful is there exactly once *)
Theorem c05_no_duplicate_env_partial : forall c sched,
  idem_cfg c = true -> c_fix_rb c = true -> forallb sane_choice sched = true -> env_ok c sched ->
  (forall i, (subm_count i (y_st (yrun c sched)) <= 1)%nat) ->
  (forall i, (appended i (yrun c sched) <= 1)%nat) /\
  (forall i, In i (success_ids (y_st (yrun c sched))) -> appended i (yrun c sched) = 1%nat).
Proof. exact no_duplicate_env. Qed.
Print Assumptions c05_no_duplicate_env_partial.

(* purely environmental: with Producer.Flush.MaxMessages = 1 (every batch one message) the ordering clause holds by
   itself ([bump_ok]: clause (a) only), whatever the schedule, the faults, the partitions *)
Theorem c05_no_duplicate_env_single : forall c sched,
  idem_cfg c = true -> c_fix_rb c = true -> c_max_msgs c = 1 -> forallb sane_choice sched = true -> bump_ok c sched ->
  (forall i, (subm_count i (y_st (yrun c sched)) <= 1)%nat) ->
  (forall i, (appended i (yrun c sched) <= 1)%nat) /\
  (forall i, In i (success_ids (y_st (yrun c sched))) -> appended i (yrun c sched) = 1%nat).
Proof. exact no_duplicate_env_single. Qed.
Print Assumptions c05_no_duplicate_env_single.

(* ------------------------------------------------------------------ tie to the regenerated source (decgen) *)

(* transactionManager.getAndIncrementSequenceNumber, as regenerated from async_producer.go (golden Gen.DecC01; the
   "%s-%d" key format is part of the key), is the model's txn_stamp under any injective naming of topics *)
Theorem c05_tie_stamp : forall name t ep sm k, (forall a b, name a = name b -> a = b) -> rep name t ep sm ->
  seq_get k (snd t) + 1 < 2147483648 -> 0 <= seq_get k (snd t) ->
  let '(sm', sq, ep') := get_and_increment_sequence_number sm (name (fst k)) (snd k) ep in
  (sq, ep') = fst (txn_stamp t k) /\ rep name (snd (txn_stamp t k)) ep' sm'.
Proof. exact tie_stamp. Qed.
Print Assumptions c05_tie_stamp.

(* ... and the stamping condition / assignment of partitionProducer.dispatch is the one of Actors.pp_forward *)
Theorem c05_tie_stamp_condition : forall c m sq ep,
  pp_stamp_sequence (m_seq m) (m_epoch m) (m_hasseq m) (c_idem c) (Z.of_nat (m_retries m)) (m_flags m) sq ep =
  if c_idem c && fresh_pass m && is_data m
  then (m_seq (set_stamp m sq ep), m_epoch (set_stamp m sq ep), m_hasseq (set_stamp m sq ep), ExFall)
  else (m_seq m, m_epoch m, m_hasseq m, ExFall).
Proof. exact tie_stamp_condition. Qed.
Print Assumptions c05_tie_stamp_condition.

(* transactionManager.bumpEpoch is the model's txn_bump *)
Theorem c05_tie_bump : forall name t ep sm, rep name t ep sm -> ep + 1 < 32768 -> -32768 <= ep ->
  let '(ep', sm') := DecC01.bump_epoch ep sm in rep name (txn_bump t) ep' sm'.
Proof. exact tie_bump. Qed.
Print Assumptions c05_tie_bump.

(* the idempotent requirements of Config.Validate (regenerated from config.go, golden Gen.DecC05) are the theorems'
   configuration hypothesis idem_cfg plus acks = all and at most one open request, which the composition builds in *)
Theorem c05_tie_validate : forall c v acks mo, c_idem c = true -> is_at_least v [0; 11; 0; 0] = c_v2 c ->
  (validate_idempotent true v (Z.of_nat (c_retry_max c)) acks mo = ExFall <->
   idem_cfg c = true /\ acks = -1 /\ mo <= 1).
Proof. exact tie_validate. Qed.
Print Assumptions c05_tie_validate.

(* ProducerMessage.clear (regenerated from async_producer.go, golden Gen.DecC05) makes a message handed back to the
   application the fresh message the composition's CSubmit puts in: no sequence number, hasSequence = false, retries 0,
   flags 0. An application that sends a returned object again is therefore covered by the theorems above *)
Theorem c05_returned_message_is_fresh : forall m,
  cleared m = fresh_of m /\
  m_hasseq (cleared m) = false /\ m_seq (cleared m) = 0 /\ m_epoch (cleared m) = 0 /\ m_retries (cleared m) = 0%nat /\ m_flags (cleared m) = F_DATA /\
  fresh_pass (cleared m) = true /\ is_data (cleared m) = true.
Proof. exact tie_clear. Qed.
Print Assumptions c05_returned_message_is_fresh.
